(* C12 — the keyset theorems of SerialProofs.v instantiated at the registry
   model: K := dkey (a registered generic key or the fallback key),
   ser_k := dser, par_k := dpar reg.  The per-key obligation of wf_handle
   ("the key serialises and parses back to itself") is DERIVED here from the
   fixed-point theorem and the prefix tables, instead of being assumed.

   The registry is  url |-> ktype_of url (schemas url)  where [schemas] (the
   protobuf descriptors, read by reflection in the harness) is a quantified
   function with the single law  schemas url = Some sch -> wf_schema sch. *)
From Coq Require Import List NArith Bool Lia ZifyN ZifyNat ZifyBool Arith.
From Tink Require Import Bytes ProtoWire ProtoWireProofs SerialTables Serial SerialProofs
  SerialNormProofs SerialNormalFormProofs.
Import ListNotations.
Open Scope N_scope.

Definition registry (schemas : bytes -> option schema) (url : bytes) : option ktype :=
  match schemas url with Some sch => ktype_of url sch | None => None end.

Lemma ktype_of_schema url sch T : ktype_of url sch = Some T -> kt_schema T = sch.
Proof. unfold ktype_of. destruct (prefix_kind_of url); intros H; inversion H. reflexivity. Qed.

Lemma registry_some schemas url T : registry schemas url = Some T ->
  exists sch, schemas url = Some sch /\ ktype_of url sch = Some T /\ kt_schema T = sch.
Proof.
  unfold registry. destruct (schemas url) as [sch|]; [|discriminate]. intros H.
  exists sch. split; [reflexivity | split; [exact H | eapply ktype_of_schema; exact H]].
Qed.

(* ------------------------------------------------------------------ *)
(* table facts: prefix -> variant -> prefix is the identity except
   LEGACY -> CRUNCHY, for every registered type URL (by computation)     *)
(* ------------------------------------------------------------------ *)
Definition pm_bwd (e : bytes * (N * (N * (list (N * N) * (list (N * N) * list (N * N)))))) : bool :=
  let '(_, (kind, (custom, (to_p, (from_p, from_kid))))) := e in
  if kind =? 2 then bwd_ok true to_p from_p && bwd_ok true to_p from_kid
  else if kind =? 1 then true
  else bwd_ok true to_p from_p.
Lemma prefix_maps_bwd : forallb pm_bwd prefix_maps = true.
Proof. vm_compute. reflexivity. Qed.

(* every prefix the parsers of the registered types accept is one keyset.Validate
   accepts (TINK, LEGACY, RAW, CRUNCHY, WITH_ID_REQUIREMENT), by computation *)
Definition pm_known (e : bytes * (N * (N * (list (N * N) * (list (N * N) * list (N * N)))))) : bool :=
  let '(_, (kind, (custom, (to_p, (from_p, from_kid))))) := e in
  if kind =? 2 then forallb (fun pv => known_prefix (fst pv)) from_p && forallb (fun pv => known_prefix (fst pv)) from_kid
  else if kind =? 1 then true
  else forallb (fun pv => known_prefix (fst pv)) from_p.
Lemma prefix_maps_known : forallb pm_known prefix_maps = true.
Proof. vm_compute. reflexivity. Qed.
Lemma lookup_known t p v :
  forallb (fun pv : N * N => known_prefix (fst pv)) t = true -> lookup t p = Some v -> known_prefix p = true.
Proof.
  intros H L. rewrite forallb_forall in H. exact (H _ (lookup_in _ _ _ L)).
Qed.

(* the prefix a parsed key is written back with *)
Definition prefix_rel (p p' : N) : Prop := p' = p \/ (p = 2 /\ p' = 4).

Lemma prefix_rel_known p p' : prefix_rel p p' -> known_prefix p = true -> known_prefix p' = true.
Proof. intros [-> | [_ ->]] H; [exact H | reflexivity]. Qed.
Lemma prefix_rel_raw p p' : prefix_rel p p' -> (p' = prefix_raw <-> p = prefix_raw).
Proof. unfold prefix_raw. intros [-> | [-> ->]]; split; intros H; try exact H; discriminate. Qed.

Lemma nks_ok url value mat p id : (p = prefix_raw -> id = 0) ->
  new_key_serialization url value mat p id = Some (mkKser url value mat p id).
Proof.
  intros H. unfold new_key_serialization. destruct (p =? prefix_raw) eqn:E; [|reflexivity].
  apply N.eqb_eq in E. rewrite (H E). reflexivity.
Qed.

Lemma bwd_rel to_p from_p p v : bwd_ok true to_p from_p = true -> lookup from_p p = Some v ->
  exists p', lookup to_p v = Some p' /\ prefix_rel p p'.
Proof.
  intros B L. destruct (bwd_ok_spec _ _ _ B _ _ L) as [H | (_ & -> & H)].
  - exists p. split; [exact H | left; reflexivity].
  - exists 4. split; [exact H | right; split; reflexivity].
Qed.

(* ------------------------------------------------------------------ *)
(* per registered type: a parsed key serialises (success is derived), with
   the same URL and material type, the related prefix and the same id      *)
(* ------------------------------------------------------------------ *)
Theorem registered_reserialize url sch T s0 g :
  ktype_of url sch = Some T ->
  (ks_prefix s0 = prefix_raw -> ks_id s0 = 0) ->
  parse_key T s0 = Some g ->
  exists s', serialize_key T g = Some s' /\
    ks_url s' = ks_url s0 /\ ks_mat s' = ks_mat s0 /\
    ((prefix_rel (ks_prefix s0) (ks_prefix s') /\ ks_id s' = ks_id s0 /\ known_prefix (ks_prefix s0) = true) \/
     (kt_prefix T = PIgnored /\ ks_prefix s' = prefix_raw /\ ks_id s' = 0)).
Proof.
  intros HT Hraw Hp.
  pose proof (ktype_of_schema _ _ _ HT) as Hsch.
  unfold ktype_of, prefix_kind_of in HT.
  destruct (lookup_bytes prefix_maps url) as [[kind [custom [to_p [from_p from_kid]]]]|] eqn:E; [|discriminate].
  destruct (lookup_bytes_in _ _ _ E) as [u Hin].
  pose proof prefix_maps_bwd as Hb. rewrite forallb_forall in Hb. specialize (Hb _ Hin). unfold pm_bwd in Hb.
  pose proof prefix_maps_known as Hk. rewrite forallb_forall in Hk. specialize (Hk _ Hin). unfold pm_known in Hk.
  unfold parse_key in Hp.
  destruct (decode (kt_schema T) (ks_value s0)) as [m|]; [|discriminate].
  destruct (normalise (kt_norm T) (kt_schema T) m) as [m'|]; [|discriminate].
  unfold serialize_key.
  destruct (kind =? 1) eqn:K1.
  - inversion HT; subst T. cbn [kt_prefix kt_schema kt_norm] in *. inversion Hp; subst g.
    cbn [gk_url gk_mat gk_variant gk_id gk_fields]. rewrite nks_ok by reflexivity.
    eexists. split; [reflexivity|]. cbn [ks_url ks_mat ks_prefix ks_id].
    split; [reflexivity | split; [reflexivity|]]. right. repeat split.
  - destruct (kind =? 2) eqn:K2.
    + destruct (lookup_bytes jwt_kid_paths url) as [path|]; [|discriminate].
      inversion HT; subst T. cbn [kt_prefix kt_schema kt_norm] in *.
      apply andb_true_iff in Hb. destruct Hb as [B1 B2]. apply andb_true_iff in Hk. destruct Hk as [K1' K2'].
      set (kid := has_path sch m' path) in *.
      destruct (lookup (if kid then from_kid else from_p) (ks_prefix s0)) as [v|] eqn:Ev; [|discriminate].
      destruct (kid && negb (v =? custom)); [discriminate|]. inversion Hp; subst g.
      cbn [gk_url gk_mat gk_variant gk_id gk_fields].
      assert (Hex : exists p', lookup to_p v = Some p' /\ prefix_rel (ks_prefix s0) p').
      { destruct kid; [eapply bwd_rel; [exact B2 | exact Ev] | eapply bwd_rel; [exact B1 | exact Ev]]. }
      destruct Hex as (p' & Hl & Hr). rewrite Hl.
      rewrite nks_ok by (intros Hp'; apply Hraw; apply (prefix_rel_raw _ _ Hr); exact Hp').
      eexists. split; [reflexivity|]. cbn [ks_url ks_mat ks_prefix ks_id].
      split; [reflexivity | split; [reflexivity|]]. left. split; [exact Hr | split; [reflexivity|]].
      destruct kid; [exact (lookup_known _ _ _ K2' Ev) | exact (lookup_known _ _ _ K1' Ev)].
    + inversion HT; subst T. cbn [kt_prefix kt_schema kt_norm] in *.
      destruct (lookup from_p (ks_prefix s0)) as [v|] eqn:Ev; [|discriminate]. inversion Hp; subst g.
      cbn [gk_url gk_mat gk_variant gk_id gk_fields].
      destruct (bwd_rel _ _ _ _ Hb Ev) as (p' & Hl & Hr). rewrite Hl.
      rewrite nks_ok by (intros Hp'; apply Hraw; apply (prefix_rel_raw _ _ Hr); exact Hp').
      eexists. split; [reflexivity|]. cbn [ks_url ks_mat ks_prefix ks_id].
      split; [reflexivity | split; [reflexivity|]]. left. split; [exact Hr | split; [reflexivity|]].
      exact (lookup_known _ _ _ Hk Ev).
Qed.

(* ------------------------------------------------------------------ *)
(* the keys of a handle                                                *)
(* ------------------------------------------------------------------ *)
(* the key of the entry is in the image of the registry's parser, with the
   entry's id as id requirement (none for RAW): what keysetToEntries /
   keyset.Manager establish.  No premise on the prefix: that the written prefix
   is one keyset.Validate accepts is derived (prefix_maps_known; fallback keys
   only exist for TINK/LEGACY/RAW/CRUNCHY; streaming keys are written as RAW). *)
Definition key_in_image (reg : bytes -> option ktype) (e : entry dkey) : Prop :=
  exists s0, dpar reg s0 = Some (e_key e) /\
    ks_id s0 = (if ks_prefix s0 =? prefix_raw then 0 else e_id e) /\
    utf8_valid (ks_url s0) = true /\ scalar_ok TEnum (ks_mat s0) = true.

Record wf_dhandle (reg : bytes -> option ktype) (es : list (entry dkey)) : Prop := {
  wd_ids : NoDup (map e_id es);
  wd_idrange : forall e, In e es -> e_id e < two32;
  wd_primary : exists l1 p l2, es = l1 ++ p :: l2 /\ e_primary p = true /\ e_status p = Enabled /\
                 Forall (fun e => e_primary e = false) (l1 ++ l2);
  wd_status : forall e, In e es -> e_status e <> Unknown;
  wd_keys : forall e, In e es -> key_in_image reg e;
  (* physical bound: no key serialisation reaches 2^64 bytes *)
  wd_size : forall e s, In e es -> dser (e_key e) = Some s -> N.of_nat (length (ks_value s)) < two64
}.

Section Registry.
  Variable schemas : bytes -> option schema.
  Hypothesis schemas_wf : forall url sch, schemas url = Some sch -> wf_schema sch = true.
  Let reg := registry schemas.

  (* the per-key obligation, derived *)
  Theorem dkey_reserialize s0 k :
    (ks_prefix s0 = prefix_raw -> ks_id s0 = 0) ->
    dpar reg s0 = Some k ->
    exists s', dser k = Some s' /\
      ks_url s' = ks_url s0 /\ ks_mat s' = ks_mat s0 /\
      ((prefix_rel (ks_prefix s0) (ks_prefix s') /\ ks_id s' = ks_id s0 /\ known_prefix (ks_prefix s0) = true) \/
       (ks_prefix s' = prefix_raw /\ ks_id s' = 0 /\ exists T g, k = DK T g /\ kt_prefix T = PIgnored)) /\
      (N.of_nat (length (ks_value s')) < two64 -> dpar reg s' = Some k).
  Proof.
    intros Hraw Hp. unfold dpar in Hp.
    destruct (reg (ks_url s0)) as [T|] eqn:ER.
    - destruct (parse_key T s0) as [g|] eqn:EP; [|discriminate]. inversion Hp; subst k. clear Hp.
      destruct (registry_some _ _ _ ER) as (sch & Hsch & HT & Hks).
      destruct (registered_reserialize _ _ _ _ _ HT Hraw EP) as (s' & Hser & Hu & Hm & Hpre).
      exists s'. cbn [dser]. split; [exact Hser|]. split; [exact Hu|]. split; [exact Hm|]. split.
      + destruct Hpre as [H | (HI & H1 & H2)]; [left; exact H|].
        right. split; [exact H1 | split; [exact H2|]]. exists T, g. split; [reflexivity | exact HI].
      + intros Hl. unfold dpar. rewrite Hu, ER.
        rewrite (reserialization_fixed_point _ _ _ _ _ _ HT (schemas_wf _ _ Hsch) EP Hser Hl). reflexivity.
    - destruct (legacy_prefix (ks_prefix s0)) eqn:EL; [|discriminate].
      inversion Hp; subst k. exists s0. cbn [dser]. split; [reflexivity|]. split; [reflexivity|].
      split; [reflexivity|]. split.
      + left. split; [left; reflexivity | split; [reflexivity|]]. unfold known_prefix. rewrite EL. reflexivity.
      + intros _. unfold dpar. rewrite ER, EL. reflexivity.
  Qed.

  Lemma key_in_image_key_ok es e :
    wf_dhandle reg es -> In e es -> key_ok dkey dser (dpar reg) e.
  Proof.
    intros Hwf He. destruct (wd_keys _ _ Hwf e He) as (s0 & Hpar & Hid & Hu & Hm).
    assert (Hraw : ks_prefix s0 = prefix_raw -> ks_id s0 = 0).
    { intros E. rewrite Hid, E, N.eqb_refl. reflexivity. }
    destruct (dkey_reserialize s0 _ Hraw Hpar) as (s' & Hser & Hu' & Hm' & Hpre & Hre).
    exists s'. split; [exact Hser|].
    split; [apply Hre; eapply (wd_size _ _ Hwf); eassumption|].
    rewrite Hu', Hm'. destruct Hpre as [(Hr & Hi & Hkp) | (H1 & H2 & _)].
    - split; [eapply prefix_rel_known; eassumption|]. split; [|split; assumption].
      rewrite Hi, Hid. destruct Hr as [-> | [E ->]]; [reflexivity|]. rewrite E. reflexivity.
    - rewrite H1, H2. split; [reflexivity|]. split; [reflexivity | split; assumption].
  Qed.

  Theorem wf_dhandle_wf_handle es : wf_dhandle reg es -> wf_handle dkey dser (dpar reg) es.
  Proof.
    intros Hwf. constructor.
    - exact (wd_ids _ _ Hwf).
    - exact (wd_idrange _ _ Hwf).
    - exact (wd_primary _ _ Hwf).
    - exact (wd_status _ _ Hwf).
    - intros e He. eapply key_in_image_key_ok; eassumption.
  Qed.

  (* ---------------------------------------------------------------- *)
  (* closed keyset theorems at the registry                             *)
  (* ---------------------------------------------------------------- *)
  Theorem registry_entries_roundtrip es :
    wf_dhandle reg es ->
    exists ks, entries_to_proto_keyset dkey dser es = Some ks /\
               keyset_to_entries dkey (dpar reg) ks = Some es /\
               wf_pkeyset ks = true.
  Proof.
    intros Hwf. destruct (keyset_entries_roundtrip _ _ _ es (wf_dhandle_wf_handle es Hwf)) as (ks & A & B & C & _).
    exists ks. auto.
  Qed.

  Theorem registry_cleartext_roundtrip es :
    wf_dhandle reg es ->
    exists b, write_cleartext dkey dser es = Some b /\
      (N.of_nat (length b) < two64 -> read_cleartext dkey (dpar reg) b = Some es).
  Proof.
    intros Hwf. pose proof (wf_dhandle_wf_handle es Hwf) as Hh.
    destruct (keyset_entries_roundtrip _ _ _ es Hh) as (ks & A & _).
    exists (write_keyset ks). assert (Hw : write_cleartext dkey dser es = Some (write_keyset ks)).
    { unfold write_cleartext. rewrite A. reflexivity. }
    split; [exact Hw|]. intros Hl. eapply read_write_cleartext; eassumption.
  Qed.

  Theorem registry_encrypted_roundtrip
    (aead_enc : bytes -> bytes -> bytes) (aead_dec : bytes -> bytes -> option bytes) :
    (forall ad p, aead_dec ad (aead_enc ad p) = Some p) ->
    forall es ad, wf_dhandle reg es ->
      exists b, write_encrypted dkey dser aead_enc es ad = Some b /\
        (N.of_nat (length b) < two64 ->
         (forall ks, entries_to_proto_keyset dkey dser es = Some ks -> N.of_nat (length (write_keyset ks)) < two64) ->
         read_encrypted dkey (dpar reg) aead_dec b ad = Some es).
  Proof.
    intros Haead es ad Hwf. pose proof (wf_dhandle_wf_handle es Hwf) as Hh.
    destruct (keyset_entries_roundtrip _ _ _ es Hh) as (ks & A & _).
    eexists. split; [unfold write_encrypted; rewrite A; reflexivity|].
    intros Hl Hl2. eapply read_write_encrypted; try eassumption.
    unfold write_encrypted. rewrite A. reflexivity.
  Qed.

  Theorem registry_public (pub_url : bytes -> option (bytes * N)) es :
    wf_dhandle reg es ->
    (forall e, In e es -> dpub reg pub_url (e_key e) <> None) ->
    exists es', public_handle dkey (dpub reg pub_url) es = Some es' /\
      map e_id es' = map e_id es /\ map e_status es' = map e_status es /\
      map e_primary es' = map e_primary es /\
      Forall2 (fun e e' => dpub reg pub_url (e_key e) = Some (e_key e')) es es'.
  Proof.
    intros Hwf Hp. pose proof (wf_dhandle_wf_handle es Hwf) as Hh.
    destruct (public_handle_total _ _ _ (dpub reg pub_url) es Hh Hp) as [es' E].
    exists es'. split; [exact E|]. eapply public_handle_preserves. exact E.
  Qed.
End Registry.

(* ------------------------------------------------------------------ *)
(* Public() again yields a handle of the registry (so the public handle
   survives write/read as well)                                         *)
(* ------------------------------------------------------------------ *)
Fixpoint field_type (s : schema) (num : N) : option fty :=
  match s with SNil => None | SCons n t r => if n =? num then Some t else field_type r num end.

Lemma get_field_field_type s : forall m a t v, get_field s m a = Some (t, v) -> field_type s a = Some t.
Proof.
  induction s as [|n t0 s IH]; intros m a t v H; destruct m as [|v0 m]; cbn [get_field field_type] in *; try discriminate.
  destruct (n =? a); [inversion H; reflexivity | eapply IH; exact H].
Qed.

Lemma get_field_fits s : forall m a t v,
  get_field s m a = Some (t, v) -> fits_msg s m = true -> fits_val t v = true.
Proof.
  induction s as [|n t0 s IH]; intros m a t v H Hf; destruct m as [|v0 m]; cbn [get_field fits_msg] in *; try discriminate.
  apply andb_true_iff in Hf. destruct Hf as [H1 H2].
  destruct (n =? a); [inversion H; subst; exact H1 | eapply IH; eassumption].
Qed.

Lemma table_eqb_eq a : forall b, table_eqb a b = true -> a = b.
Proof.
  induction a as [|[x1 y1] a IH]; intros [|[x2 y2] b]; cbn [table_eqb]; try discriminate; [reflexivity|].
  intros H. rewrite !andb_true_iff in H. destruct H as [[H1 H2] H3].
  apply N.eqb_eq in H1, H2. subst. f_equal. apply IH. exact H3.
Qed.

Definition norm_kind_eqb (a b : norm_kind) : bool :=
  match a, b with
  | NKNone, NKNone | NKEcdsaPub, NKEcdsaPub | NKEcdsaPriv, NKEcdsaPriv
  | NKJwtEcdsaPub, NKJwtEcdsaPub | NKJwtEcdsaPriv, NKJwtEcdsaPriv
  | NKEciesPub, NKEciesPub | NKEciesPriv, NKEciesPriv | NKRsaPub, NKRsaPub | NKRsaPriv, NKRsaPriv
  | NKJwtRsaPub, NKJwtRsaPub | NKJwtRsaPriv, NKJwtRsaPriv => true
  | _, _ => false
  end.
Lemma norm_kind_eqb_eq a b : norm_kind_eqb a b = true -> a = b.
Proof. destruct a, b; cbn; intros H; try discriminate; reflexivity. Qed.

(* what must hold of a (private URL, public URL, public_key field) triple:
   same prefix tables, the kid path of the private type goes through the
   public_key field, the normalisation kinds are paired (public_key = field 2
   for the types that re-encode big integers), the public URL is valid UTF-8.
   Decidable from the tables alone. *)
Definition pub_tables_ok (url pu : bytes) (pf : N) : bool :=
  match lookup_bytes prefix_maps url, lookup_bytes prefix_maps pu with
  | Some (k, (c, (tp, (fp, fk)))), Some (k', (c', (tp', (fp', fk')))) =>
      (k =? k') && (c =? c') && table_eqb tp tp' && table_eqb fp fp' && table_eqb fk fk' &&
      (if k =? 2 then
         match lookup_bytes jwt_kid_paths url, lookup_bytes jwt_kid_paths pu with
         | Some path, Some path' => beq path (pf :: path')
         | _, _ => false
         end
       else true)
  | _, _ => false
  end
  && norm_kind_eqb (norm_kind_of pu) (pub_kind (norm_kind_of url))
  && (negb (is_priv_kind (norm_kind_of url)) || (pf =? 2))
  && utf8_valid pu.

Definition prefix_pair (pf : N) (a b : prefix_kind) : Prop :=
  match a, b with
  | PTables tp fp, PTables tp' fp' => tp' = tp /\ fp' = fp
  | PJwt c tp fp fk path, PJwt c' tp' fp' fk' path' =>
      c' = c /\ tp' = tp /\ fp' = fp /\ fk' = fk /\ path = pf :: path'
  | PIgnored, PIgnored => True
  | _, _ => False
  end.

Lemma pub_types_related url pu pf sch ps T TP :
  pub_tables_ok url pu pf = true -> ktype_of url sch = Some T -> ktype_of pu ps = Some TP ->
  kt_norm TP = pub_kind (kt_norm T) /\ (is_priv_kind (kt_norm T) = true -> pf = 2) /\
  prefix_pair pf (kt_prefix T) (kt_prefix TP) /\ utf8_valid pu = true.
Proof.
  unfold pub_tables_ok, ktype_of, prefix_kind_of. intros H HT HTP.
  rewrite !andb_true_iff in H. destruct H as (((Htab & Hn) & Hpf) & Hu).
  destruct (lookup_bytes prefix_maps url) as [[k [c [tp [fp fk]]]]|]; [|discriminate].
  destruct (lookup_bytes prefix_maps pu) as [[k' [c' [tp' [fp' fk']]]]|]; [|discriminate].
  rewrite !andb_true_iff in Htab. destruct Htab as (((((Hk & Hc) & Htp) & Hfp) & Hfk) & Hpath).
  apply N.eqb_eq in Hk, Hc. apply table_eqb_eq in Htp, Hfp, Hfk. subst k' c' tp' fp' fk'.
  apply norm_kind_eqb_eq in Hn.
  assert (Hpf' : is_priv_kind (norm_kind_of url) = true -> pf = 2).
  { intros E. rewrite E in Hpf. cbn [negb orb] in Hpf. apply N.eqb_eq. exact Hpf. }
  destruct (k =? 1).
  - inversion HT; inversion HTP; subst. cbn [kt_norm kt_prefix prefix_pair]. auto.
  - destruct (k =? 2).
    + destruct (lookup_bytes jwt_kid_paths url) as [path|]; [|discriminate].
      destruct (lookup_bytes jwt_kid_paths pu) as [path'|]; [|discriminate].
      apply beq_eq in Hpath.
      inversion HT; inversion HTP; subst. cbn [kt_norm kt_prefix prefix_pair]. auto 10.
    + inversion HT; inversion HTP; subst. cbn [kt_norm kt_prefix prefix_pair]. auto.
Qed.

(* the private/public URL pairs of the repository with the number of the
   public_key field (proto/*.proto), all accepted by the check *)
Definition url_named (n : nat) : bytes := fst (nth n prefix_maps ([], (0, (0, ([], ([], [])))))).
Definition pub_pairs : list (bytes * bytes * N) := Eval vm_compute in
  [ (url_named 7, url_named 8, 2);     (* EciesAeadHkdfPrivateKey / PublicKey *)
    (url_named 9, url_named 10, 2);    (* HpkePrivateKey / PublicKey *)
    (url_named 11, url_named 12, 2);   (* JwtEcdsa *)
    (url_named 14, url_named 15, 3);   (* JwtMlDsa *)
    (url_named 16, url_named 17, 2);   (* JwtRsaSsaPkcs1 *)
    (url_named 18, url_named 19, 2);   (* JwtRsaSsaPss *)
    (url_named 28, url_named 29, 2);   (* Ecdsa *)
    (url_named 30, url_named 31, 3);   (* Ed25519 *)
    (url_named 32, url_named 33, 3);   (* MlDsa *)
    (url_named 34, url_named 35, 2);   (* RsaSsaPkcs1 *)
    (url_named 36, url_named 37, 2);   (* RsaSsaPss *)
    (url_named 38, url_named 39, 3) ]. (* SlhDsa *)
Lemma pub_pairs_ok : forallb (fun x => let '(a, b, c) := x in pub_tables_ok a b c) pub_pairs = true.
Proof. vm_compute. reflexivity. Qed.

(* what parse_key yields, field by field *)
Lemma parsed_key_shape T s g :
  parse_key T s = Some g ->
  gk_url g = ks_url s /\ gk_mat g = ks_mat s /\
  wf_msg (kt_schema T) (gk_fields g) = true /\
  nf_msg (kt_norm T) (kt_schema T) (gk_fields g) = true /\
  match kt_prefix T with
  | PTables _ fp => lookup fp (ks_prefix s) = Some (gk_variant g) /\ gk_id g = ks_id s
  | PJwt c _ fp fk path =>
      lookup (if has_path (kt_schema T) (gk_fields g) path then fk else fp) (ks_prefix s) = Some (gk_variant g) /\
      has_path (kt_schema T) (gk_fields g) path && negb (gk_variant g =? c) = false /\ gk_id g = ks_id s
  | PIgnored => gk_variant g = 0 /\ gk_id g = 0
  end.
Proof.
  intros Hp. destruct (parsed_key_nf _ _ _ Hp) as [Hw Hn]. unfold parse_key in Hp.
  destruct (decode (kt_schema T) (ks_value s)) as [m|]; [|discriminate].
  destruct (normalise (kt_norm T) (kt_schema T) m) as [m'|]; [|discriminate].
  destruct (kt_prefix T) as [a b|c a b d e|].
  - destruct (lookup b (ks_prefix s)) as [v|] eqn:E; [|discriminate]. inversion Hp; subst g.
    cbn [gk_url gk_mat gk_variant gk_id gk_fields] in *. auto 10.
  - destruct (lookup _ (ks_prefix s)) as [v|] eqn:E; [|discriminate].
    destruct (_ && _) eqn:E2; [discriminate|]. inversion Hp; subst g.
    cbn [gk_url gk_mat gk_variant gk_id gk_fields] in *. auto 10.
  - inversion Hp; subst g. cbn [gk_url gk_mat gk_variant gk_id gk_fields] in *. auto 10.
Qed.

Lemma public_handle_forall2 K (pub_k : K -> option K) es es' :
  public_handle K pub_k es = Some es' ->
  Forall2 (fun e e' => exists pk, pub_k (e_key e) = Some pk /\
                         e' = mkEntry pk (e_primary e) (e_id e) (e_status e)) es es'.
Proof.
  unfold public_handle. destruct es as [|e0 es0]; [discriminate|].
  set (es := e0 :: es0).
  destruct (all_some (map _ es)) as [l|] eqn:E; [|discriminate].
  unfold new_from_entries. destruct (_ && _); [|discriminate]. intros H. inversion H; subst es'. clear H.
  revert l E. generalize es. clear. induction es as [|e es IH]; intros l E; cbn [map all_some] in E.
  - inversion E. constructor.
  - destruct (pub_k (e_key e)) as [pk|] eqn:Ep; [|discriminate].
    destruct (all_some (map _ es)) as [l'|] eqn:E'; [|discriminate]. inversion E; subst l.
    constructor; [exists pk; split; [exact Ep | reflexivity] | apply IH; reflexivity].
Qed.

Lemma Forall2_in_r {A B} (R : A -> B -> Prop) l l' y :
  Forall2 R l l' -> In y l' -> exists x, In x l /\ R x y.
Proof.
  induction 1 as [|a b l l' Hab _ IH]; intros Hin; [contradiction|].
  destruct Hin as [<- | Hin]; [exists a; split; [left; reflexivity | exact Hab]|].
  destruct (IH Hin) as (x & Hx & Hr). exists x. split; [right; exact Hx | exact Hr].
Qed.

Lemma Forall2_Forall {A B} (R : A -> B -> Prop) (P : A -> Prop) (Q : B -> Prop) l l' :
  (forall x y, R x y -> P x -> Q y) -> Forall2 R l l' -> Forall P l -> Forall Q l'.
Proof.
  intros H. induction 1 as [|a b l l' Hab _ IH]; intros HP; [constructor|].
  inversion HP; subst. constructor; [eapply H; eassumption | apply IH; assumption].
Qed.

Section RegistryPublic.
  Variable schemas : bytes -> option schema.
  Hypothesis schemas_wf : forall url sch, schemas url = Some sch -> wf_schema sch = true.
  Variable pub_url : bytes -> option (bytes * N).
  (* the URL pairs are accepted by the table check (pub_pairs_ok: the pairs of the repository are) *)
  Hypothesis pub_url_tables : forall url pu pf, pub_url url = Some (pu, pf) -> pub_tables_ok url pu pf = true.
  (* the descriptor registered for the public URL is the type of the public_key field *)
  Hypothesis pub_url_schema : forall url pu pf sch, pub_url url = Some (pu, pf) -> schemas url = Some sch ->
    exists ps, field_type sch pf = Some (TMsg ps) /\ schemas pu = Some ps.
  Let reg := registry schemas.

  (* the public key of a key in the registry's image is in the registry's image,
     under the same prefix and id requirement *)
  Lemma public_key_in_image s0 k k' :
    dpar reg s0 = Some k -> dpub reg pub_url k = Some k' ->
    (forall s, dser k = Some s -> N.of_nat (length (ks_value s)) < two64) ->
    (ks_prefix s0 = prefix_raw -> ks_id s0 = 0) ->
    exists pu v, dpar reg (mkKser pu v mat_public (ks_prefix s0) (ks_id s0)) = Some k' /\ utf8_valid pu = true.
  Proof.
    intros Hpar Hpub Hsize Hraw.
    destruct k as [T g|sf]; [|discriminate]. cbn [dpub] in Hpub.
    destruct (pub_url (gk_url g)) as [[pu pf]|] eqn:EU; [|discriminate].
    unfold public_of in Hpub.
    destruct (get_field (kt_schema T) (gk_fields g) pf) as [[t vv]|] eqn:GF; [|discriminate].
    destruct t as [| | | | | | | |ps|]; try discriminate. destruct vv as [| |[pm|]|]; try discriminate.
    destruct (reg pu) as [TP|] eqn:ERP; [|discriminate]. inversion Hpub; subst k'. clear Hpub.
    (* the private key *)
    unfold dpar in Hpar. destruct (reg (ks_url s0)) as [T0|] eqn:ER; [|destruct (legacy_prefix (ks_prefix s0)); discriminate].
    destruct (parse_key T0 s0) as [g0|] eqn:EP; [|discriminate]. inversion Hpar; subst T0 g0. clear Hpar.
    destruct (parsed_key_shape _ _ _ EP) as (Hurl & Hmat & Hw & Hnf & Hpre).
    destruct (registry_some _ _ _ ER) as (sch & Hsch & HT & Hks).
    destruct (registry_some _ _ _ ERP) as (ps' & Hps & HTP & Hkps).
    rewrite Hurl in EU.
    destruct (pub_url_schema _ _ _ _ EU Hsch) as (ps0 & Hft & Hps0).
    rewrite Hks in GF. rewrite (get_field_field_type _ _ _ _ _ GF) in Hft. inversion Hft; subst ps0.
    assert (Epp : ps' = ps) by congruence. rewrite Epp in Hkps, HTP, Hps. clear Hps0 Hft Epp.
    destruct (pub_types_related _ _ _ _ _ _ _ (pub_url_tables _ _ _ EU) HT HTP) as (Hnk & Hpf2 & Hpp & Hutf).
    (* the public message: well-formed, fits, in normal form *)
    assert (Hwp : wf_msg ps pm = true).
    { rewrite Hks in Hw. exact (get_field_type _ _ _ _ _ GF Hw). }
    assert (Hfit : fits_msg ps pm = true).
    { destruct (registered_reserialize _ _ _ _ _ HT Hraw EP) as (s' & Hser & _).
      pose proof (Hsize s' Hser) as Hl.
      assert (Hv : ks_value s' = encode sch (gk_fields g)).
      { unfold serialize_key in Hser. rewrite Hks in Hser.
        destruct (kt_prefix T) as [a b|c a b d e|].
        - destruct (lookup a (gk_variant g)); [|discriminate]. apply new_key_serialization_some in Hser. destruct Hser as [-> _]. reflexivity.
        - destruct (lookup a (gk_variant g)); [|discriminate]. apply new_key_serialization_some in Hser. destruct Hser as [-> _]. reflexivity.
        - apply new_key_serialization_some in Hser. destruct Hser as [-> _]. reflexivity. }
      rewrite Hv in Hl. pose proof (proj2 fits_mut sch (gk_fields g) Hl) as Hf.
      pose proof (get_field_fits _ _ _ _ _ GF Hf) as Hfv. cbn [fits_val] in Hfv.
      apply andb_true_iff in Hfv. apply Hfv. }
    assert (Hnp : normalise (kt_norm TP) ps pm = Some pm).
    { apply normalise_fixed_iff_nf. rewrite Hnk.
      destruct (is_priv_kind (kt_norm T)) eqn:EK.
      - rewrite (Hpf2 eq_refl) in GF. rewrite Hks in Hnf. eapply nf_priv_public_part; eassumption.
      - destruct (kt_norm T); try discriminate; reflexivity. }
    exists pu, (encode ps pm). split; [|exact Hutf].
    unfold dpar. cbn [ks_url]. rewrite ERP. unfold parse_key. rewrite Hkps. cbn [ks_value ks_prefix ks_url ks_mat ks_id].
    rewrite (decode_encode_fits ps pm (schemas_wf _ _ Hps) Hwp Hfit). rewrite Hnp.
    destruct (kt_prefix T) as [a b|c a b d path|]; destruct (kt_prefix TP) as [a' b'|c' a' b' d' path'|];
      cbn [prefix_pair] in Hpp; try contradiction.
    - destruct Hpp as [-> ->]. destruct Hpre as [Hl Hid]. rewrite Hl, Hid. reflexivity.
    - destruct Hpp as (-> & -> & -> & -> & ->). destruct Hpre as (Hl & Hck & Hid).
      assert (Hhp : has_path (kt_schema T) (gk_fields g) (pf :: path') = has_path ps pm path').
      { cbn [has_path]. rewrite Hks, GF. reflexivity. }
      rewrite Hhp in Hl, Hck. rewrite Hl, Hck, Hid. reflexivity.
    - destruct Hpre as [-> ->]. reflexivity.
  Qed.

  Theorem registry_public_wf es es' :
    wf_dhandle reg es ->
    public_handle dkey (dpub reg pub_url) es = Some es' ->
    (forall e s, In e es' -> dser (e_key e) = Some s -> N.of_nat (length (ks_value s)) < two64) ->
    wf_dhandle reg es'.
  Proof.
    intros Hwf Hpub Hsize'.
    destruct (public_handle_preserves _ _ _ _ Hpub) as (Hids & Hsts & Hprs & _).
    pose proof (public_handle_forall2 _ _ _ _ Hpub) as HF.
    constructor.
    - rewrite Hids. exact (wd_ids _ _ Hwf).
    - intros e' He'. destruct (Forall2_in_r _ _ _ _ HF He') as (e & He & pk & _ & ->). cbn [e_id].
      exact (wd_idrange _ _ Hwf e He).
    - destruct (wd_primary _ _ Hwf) as (l1 & p & l2 & Hes & Hpp & Hps & Hnp).
      rewrite Hes in HF. apply Forall2_app_inv_l in HF. destruct HF as (l1' & r' & F1 & F2 & ->).
      inversion F2 as [|? p' ? l2' Hp' F3]; subst.
      destruct Hp' as (pk & _ & ->).
      exists l1', (mkEntry pk (e_primary p) (e_id p) (e_status p)), l2'.
      split; [reflexivity|]. cbn [e_primary e_status]. split; [exact Hpp | split; [exact Hps|]].
      apply Forall_app in Hnp. destruct Hnp as [N1 N2]. apply Forall_app. split.
      + eapply Forall2_Forall; [|exact F1 | exact N1]. intros x y (pk' & _ & ->) Hx. exact Hx.
      + eapply Forall2_Forall; [|exact F3 | exact N2]. intros x y (pk' & _ & ->) Hx. exact Hx.
    - intros e' He'. destruct (Forall2_in_r _ _ _ _ HF He') as (e & He & pk & _ & ->). cbn [e_status].
      exact (wd_status _ _ Hwf e He).
    - intros e' He'. destruct (Forall2_in_r _ _ _ _ HF He') as (e & He & pk & Hpk & ->).
      destruct (wd_keys _ _ Hwf e He) as (s0 & Hpar & Hid & Hu & Hm).
      assert (Hraw : ks_prefix s0 = prefix_raw -> ks_id s0 = 0).
      { intros E. rewrite Hid, E, N.eqb_refl. reflexivity. }
      destruct (public_key_in_image s0 _ _ Hpar Hpk (fun s => wd_size _ _ Hwf e s He) Hraw) as (pu & v & Hpar' & Hutf).
      exists (mkKser pu v mat_public (ks_prefix s0) (ks_id s0)).
      cbn [e_key e_id ks_prefix ks_id ks_url ks_mat]. split; [exact Hpar'|].
      split; [exact Hid|]. split; [exact Hutf | reflexivity].
    - exact Hsize'.
  Qed.

  (* hence the public handle survives the cleartext (WriteWithNoSecrets /
     ReadWithNoSecrets use the same binary writer and reader) round trip *)
  Corollary registry_public_roundtrip es es' :
    wf_dhandle reg es ->
    public_handle dkey (dpub reg pub_url) es = Some es' ->
    (forall e s, In e es' -> dser (e_key e) = Some s -> N.of_nat (length (ks_value s)) < two64) ->
    exists b, write_cleartext dkey dser es' = Some b /\
      (N.of_nat (length b) < two64 -> read_cleartext dkey (dpar reg) b = Some es').
  Proof.
    intros Hwf Hpub Hsize. apply (registry_cleartext_roundtrip schemas schemas_wf).
    eapply registry_public_wf; eassumption.
  Qed.
End RegistryPublic.

(* ------------------------------------------------------------------ *)
(* non-vacuity: concrete registries and handles (closed terms only)     *)
(* ------------------------------------------------------------------ *)
Definition ex_aesgcm_schema : schema := SCons 1 TU32 (SCons 3 TBytes SNil).
Definition ex_ecdsa_priv_schema : schema :=
  SCons 1 TU32 (SCons 2 (TMsg ecdsa_pub_schema) (SCons 3 TBytes SNil)).
Definition ex_mldsa_pub_schema : schema :=
  SCons 1 TU32 (SCons 2 TBytes (SCons 3 (TMsg (SCons 1 TEnum SNil)) SNil)).
(* AesCtrHmacStreamingKey { version = 1; params = 2 { ciphertext_segment_size = 1; derived_key_size = 2;
   hkdf_hash_type = 3; hmac_params = 4 { hash = 1; tag_size = 2 } }; key_value = 3 } *)
Definition ex_streaming_schema : schema :=
  SCons 1 TU32 (SCons 2 (TMsg (SCons 1 TU32 (SCons 2 TU32 (SCons 3 TEnum
    (SCons 4 (TMsg (SCons 1 TEnum (SCons 2 TU32 SNil))) SNil))))) (SCons 3 TBytes SNil)).
Definition ecdsa_priv_url : bytes := Eval vm_compute in url_named 28.
Definition mldsa_pub_url : bytes := Eval vm_compute in url_named 33.
Definition mldsa_priv_url : bytes := Eval vm_compute in url_named 32.
(* MlDsaPrivateKey { version = 1; key_value = 2; public_key = 3 } *)
Definition ex_mldsa_priv_schema : schema :=
  SCons 1 TU32 (SCons 2 TBytes (SCons 3 (TMsg ex_mldsa_pub_schema) SNil)).
Definition streaming_url : bytes := Eval vm_compute in url_named 40.

(* the descriptors of six registered types; every other URL is unregistered *)
Definition ex_schemas (url : bytes) : option schema :=
  if beq url aesgcm_url then Some ex_aesgcm_schema
  else if beq url ecdsa_priv_url then Some ex_ecdsa_priv_schema
  else if beq url ecdsa_pub_url then Some ecdsa_pub_schema
  else if beq url mldsa_pub_url then Some ex_mldsa_pub_schema
  else if beq url streaming_url then Some ex_streaming_schema
  else if beq url mldsa_priv_url then Some ex_mldsa_priv_schema
  else None.
Lemma ex_schemas_wf url sch : ex_schemas url = Some sch -> wf_schema sch = true.
Proof.
  unfold ex_schemas.
  destruct (beq url aesgcm_url); [intros H; inversion H; reflexivity|].
  destruct (beq url ecdsa_priv_url); [intros H; inversion H; reflexivity|].
  destruct (beq url ecdsa_pub_url); [intros H; inversion H; reflexivity|].
  destruct (beq url mldsa_pub_url); [intros H; inversion H; reflexivity|].
  destruct (beq url streaming_url); [intros H; inversion H; reflexivity|].
  destruct (beq url mldsa_priv_url); [intros H; inversion H; reflexivity | discriminate].
Qed.
Definition ex_reg : bytes -> option ktype := registry ex_schemas.

Definition dk_dummy : dkey := DFallback (mkKser [] [] 0 0 0).
Definition dk_of (s : kser) : dkey := match dpar ex_reg s with Some k => k | None => dk_dummy end.

(* handle A: an AES-GCM key read from a LEGACY serialisation (id 7), and a key
   of an unregistered type (RAW) as primary *)
Definition exA_s1 : kser := mkKser aesgcm_url [26; 16; 1; 2; 3; 4; 5; 6; 7; 8; 9; 10; 11; 12; 13; 14; 15; 16] 1 2 7.
Definition exA_s2 : kser := mkKser [116; 50] [9] 3 3 0.
Definition exA_k1 : dkey := Eval vm_compute in dk_of exA_s1.
Definition exA_k2 : dkey := Eval vm_compute in dk_of exA_s2.
Definition exA_es : list (entry dkey) := [mkEntry exA_k1 false 7 Disabled; mkEntry exA_k2 true 4294967295 Enabled].
Definition exA_clear : bytes := Eval vm_compute in
  match write_cleartext dkey dser exA_es with Some b => b | None => [] end.

Lemma exA_wf : wf_dhandle ex_reg exA_es.
Proof.
  constructor.
  - cbn. repeat constructor; cbn; intuition discriminate.
  - intros e [<-|[<-|[]]]; cbn; reflexivity.
  - exists [mkEntry exA_k1 false 7 Disabled], (mkEntry exA_k2 true 4294967295 Enabled), [].
    repeat split. repeat constructor.
  - intros e [<-|[<-|[]]]; cbn; discriminate.
  - intros e [<-|[<-|[]]].
    + exists exA_s1. repeat split; vm_compute; reflexivity.
    + exists exA_s2. repeat split; vm_compute; reflexivity.
  - intros e s [<-|[<-|[]]] H; vm_compute in H; inversion H; subst s; vm_compute; reflexivity.
Qed.

(* a toy AEAD that binds the associated data: satisfies the one law used *)
Definition toy_enc (ad p : bytes) : bytes := ad ++ p.
Definition toy_dec (ad c : bytes) : option bytes :=
  match take_n (length ad) c with
  | Some (a, r) => if beq a ad then Some r else None
  | None => None
  end.
Lemma toy_aead_correct ad p : toy_dec ad (toy_enc ad p) = Some p.
Proof. unfold toy_dec, toy_enc. rewrite take_n_app, beq_refl. reflexivity. Qed.

Definition exA_enc : bytes := Eval vm_compute in
  match write_encrypted dkey dser toy_enc exA_es [1; 2; 3] with Some b => b | None => [] end.

Lemma exA_facts :
  exA_k1 = DK (match ex_reg aesgcm_url with Some T => T | None => mkKtype SNil PIgnored NKNone end)
              (mkGkey aesgcm_url 1 2 7 [VInt 0; VBytes [1; 2; 3; 4; 5; 6; 7; 8; 9; 10; 11; 12; 13; 14; 15; 16]]) /\
  (* the LEGACY key is written back as CRUNCHY *)
  option_map ks_prefix (dser exA_k1) = Some 4 /\
  write_cleartext dkey dser exA_es = Some exA_clear /\
  read_cleartext dkey (dpar ex_reg) exA_clear = Some exA_es /\
  write_encrypted dkey dser toy_enc exA_es [1; 2; 3] = Some exA_enc /\
  read_encrypted dkey (dpar ex_reg) toy_dec exA_enc [1; 2; 3] = Some exA_es /\
  read_encrypted dkey (dpar ex_reg) toy_dec exA_enc [1; 2; 4] = None.
Proof. repeat split; vm_compute; reflexivity. Qed.

(* handle B: a P-256 ECDSA private key whose integers arrive without the
   leading zero byte (x, the scalar) or with extra ones (y); TINK, id 77 *)
Definition exB_value : bytes := Eval vm_compute in
  encode ex_ecdsa_priv_schema [VInt 0; VMsg (Some ex_ecdsa_in); VBytes ex_x31].
Definition exB_s : kser := mkKser ecdsa_priv_url exB_value 2 1 77.
Definition exB_k : dkey := Eval vm_compute in dk_of exB_s.
Definition exB_es : list (entry dkey) := [mkEntry exB_k true 77 Enabled].
Definition ex_pub_url (url : bytes) : option (bytes * N) :=
  if beq url ecdsa_priv_url then Some (ecdsa_pub_url, 2)
  else if beq url mldsa_priv_url then Some (mldsa_pub_url, 3) else None.
Definition exB_pub : list (entry dkey) := Eval vm_compute in
  match public_handle dkey (dpub ex_reg ex_pub_url) exB_es with Some l => l | None => [] end.
Definition exB_pub_clear : bytes := Eval vm_compute in
  match write_cleartext dkey dser exB_pub with Some b => b | None => [] end.

Lemma ex_pub_url_tables url pu pf : ex_pub_url url = Some (pu, pf) -> pub_tables_ok url pu pf = true.
Proof.
  unfold ex_pub_url. destruct (beq url ecdsa_priv_url) eqn:E.
  - apply beq_eq in E. subst url. intros H. inversion H. vm_compute. reflexivity.
  - destruct (beq url mldsa_priv_url) eqn:E2; [|discriminate].
    apply beq_eq in E2. subst url. intros H. inversion H. vm_compute. reflexivity.
Qed.
Lemma ex_pub_url_schema url pu pf sch : ex_pub_url url = Some (pu, pf) -> ex_schemas url = Some sch ->
  exists ps, field_type sch pf = Some (TMsg ps) /\ ex_schemas pu = Some ps.
Proof.
  unfold ex_pub_url. destruct (beq url ecdsa_priv_url) eqn:E.
  - apply beq_eq in E. subst url. intros H. inversion H; subst pu pf. intros Hs.
    vm_compute in Hs. inversion Hs; subst sch. exists ecdsa_pub_schema. split; vm_compute; reflexivity.
  - destruct (beq url mldsa_priv_url) eqn:E2; [|discriminate].
    apply beq_eq in E2. subst url. intros H. inversion H; subst pu pf. intros Hs.
    vm_compute in Hs. inversion Hs; subst sch. exists ex_mldsa_pub_schema. split; vm_compute; reflexivity.
Qed.

Lemma exB_wf : wf_dhandle ex_reg exB_es.
Proof.
  constructor.
  - cbn. repeat constructor; cbn; intuition discriminate.
  - intros e [<-|[]]; cbn; reflexivity.
  - exists [], (mkEntry exB_k true 77 Enabled), []. repeat split. constructor.
  - intros e [<-|[]]; cbn; discriminate.
  - intros e [<-|[]]. exists exB_s. repeat split; vm_compute; reflexivity.
  - intros e s [<-|[]] H; vm_compute in H; inversion H; subst s; vm_compute; reflexivity.
Qed.

Lemma exB_facts :
  public_handle dkey (dpub ex_reg ex_pub_url) exB_es = Some exB_pub /\
  map (fun e => match e_key e with DK _ g => Some (gk_fields g) | DFallback _ => None end) exB_pub
    = [Some ex_ecdsa_nf] /\
  write_cleartext dkey dser exB_pub = Some exB_pub_clear /\
  read_cleartext dkey (dpar ex_reg) exB_pub_clear = Some exB_pub.
Proof. repeat split; vm_compute; reflexivity. Qed.

Lemma exB_pub_size e s : In e exB_pub -> dser (e_key e) = Some s -> N.of_nat (length (ks_value s)) < two64.
Proof. intros [<-|[]] H; vm_compute in H; inversion H; subst s; vm_compute; reflexivity. Qed.

(* ------------------------------------------------------------------ *)
(* OutputPrefixType WITH_ID_REQUIREMENT (5): an ML-DSA private key of the
   variant NoPrefixWithPrehashID (signature/mldsa/protoserialization.go:56,171)
   with id requirement 9, alone in a handle.  Before /repo 4b80d2c the reader
   (keyset/validation.go validateKey) refused what the writer produced (a
   finding of this property, findings/mldsa_with_id_requirement_keyset_unreadable);
   with the repaired Validate the handle is a registry handle and survives
   cleartext, encrypted and Public() write/read.                         *)
(* ------------------------------------------------------------------ *)
Definition exC_value : bytes := Eval vm_compute in
  encode ex_mldsa_priv_schema [VInt 0; VBytes [7; 7; 7; 7]; VMsg (Some [VInt 0; VBytes [1; 2; 3; 4]; VMsg (Some [VInt 1])])].
Definition exC_s : kser := mkKser mldsa_priv_url exC_value 2 5 9.
Definition exC_k : dkey := Eval vm_compute in dk_of exC_s.
Definition exC_es : list (entry dkey) := [mkEntry exC_k true 9 Enabled].
Definition exC_clear : bytes := Eval vm_compute in
  match write_cleartext dkey dser exC_es with Some b => b | None => [] end.
Definition exC_enc : bytes := Eval vm_compute in
  match write_encrypted dkey dser toy_enc exC_es [1; 2; 3] with Some b => b | None => [] end.
Definition exC_pub : list (entry dkey) := Eval vm_compute in
  match public_handle dkey (dpub ex_reg ex_pub_url) exC_es with Some l => l | None => [] end.
Definition exC_pub_clear : bytes := Eval vm_compute in
  match write_cleartext dkey dser exC_pub with Some b => b | None => [] end.

Lemma exC_wf : wf_dhandle ex_reg exC_es.
Proof.
  constructor.
  - cbn. repeat constructor; cbn; intuition discriminate.
  - intros e [<-|[]]; cbn; reflexivity.
  - exists [], (mkEntry exC_k true 9 Enabled), []. repeat split. constructor.
  - intros e [<-|[]]; cbn; discriminate.
  - intros e [<-|[]]. exists exC_s. repeat split; vm_compute; reflexivity.
  - intros e s [<-|[]] H; vm_compute in H; inversion H; subst s; vm_compute; reflexivity.
Qed.

Lemma exC_pub_size e s : In e exC_pub -> dser (e_key e) = Some s -> N.of_nat (length (ks_value s)) < two64.
Proof. intros [<-|[]] H; vm_compute in H; inversion H; subst s; vm_compute; reflexivity. Qed.

Lemma exC_facts :
  ks_prefix exC_s = 5 /\ ks_id exC_s = 9 /\
  dpar ex_reg exC_s = Some exC_k /\ dser exC_k = Some exC_s /\
  write_cleartext dkey dser exC_es = Some exC_clear /\
  read_cleartext dkey (dpar ex_reg) exC_clear = Some exC_es /\
  write_encrypted dkey dser toy_enc exC_es [1; 2; 3] = Some exC_enc /\
  read_encrypted dkey (dpar ex_reg) toy_dec exC_enc [1; 2; 3] = Some exC_es /\
  public_handle dkey (dpub ex_reg ex_pub_url) exC_es = Some exC_pub /\
  map (fun e => option_map (fun s => (ks_url s, ks_prefix s, ks_id s)) (dser (e_key e))) exC_pub
    = [Some (mldsa_pub_url, 5, 9)] /\
  write_cleartext dkey dser exC_pub = Some exC_pub_clear /\
  read_cleartext dkey (dpar ex_reg) exC_pub_clear = Some exC_pub.
Proof. repeat split; vm_compute; reflexivity. Qed.

Theorem with_id_requirement_keyset_roundtrips :
  (exists T g, exC_k = DK T g) /\
  wf_dhandle ex_reg exC_es /\ wf_dhandle ex_reg exC_pub /\
  ks_prefix exC_s = 5 /\ ks_id exC_s = 9 /\
  dpar ex_reg exC_s = Some exC_k /\ dser exC_k = Some exC_s /\
  write_cleartext dkey dser exC_es = Some exC_clear /\
  read_cleartext dkey (dpar ex_reg) exC_clear = Some exC_es /\
  write_encrypted dkey dser toy_enc exC_es [1; 2; 3] = Some exC_enc /\
  read_encrypted dkey (dpar ex_reg) toy_dec exC_enc [1; 2; 3] = Some exC_es /\
  public_handle dkey (dpub ex_reg ex_pub_url) exC_es = Some exC_pub /\
  map (fun e => option_map (fun s => (ks_url s, ks_prefix s, ks_id s)) (dser (e_key e))) exC_pub
    = [Some (mldsa_pub_url, 5, 9)] /\
  write_cleartext dkey dser exC_pub = Some exC_pub_clear /\
  read_cleartext dkey (dpar ex_reg) exC_pub_clear = Some exC_pub.
Proof.
  split; [vm_compute; do 2 eexists; reflexivity|]. split; [exact exC_wf|]. split; [|exact exC_facts].
  exact (registry_public_wf ex_schemas ex_schemas_wf ex_pub_url ex_pub_url_tables ex_pub_url_schema
           exC_es exC_pub exC_wf (proj1 (proj2 (proj2 (proj2 (proj2 (proj2 (proj2 (proj2 (proj2 exC_facts))))))))) exC_pub_size).
Qed.

(* WITH_ID_REQUIREMENT on a registered type whose parser does not know it, and on
   an unregistered URL (the fallback key cannot compute an output prefix): the
   keyset passes Validate and is refused when the key is parsed *)
Definition exE_ks1 : pkeyset :=
  mkPkeyset 7 [mkPkey (Some (mkKeyData aesgcm_url [26; 16; 1; 2; 3; 4; 5; 6; 7; 8; 9; 10; 11; 12; 13; 14; 15; 16] 1)) 1 7 5].
Definition exE_ks2 : pkeyset := mkPkeyset 7 [mkPkey (Some (mkKeyData [116; 50] [9] 1)) 1 7 5].
Lemma exE_facts :
  validate exE_ks1 = true /\ handle_from_proto dkey (dpar ex_reg) exE_ks1 = None /\
  validate exE_ks2 = true /\ handle_from_proto dkey (dpar ex_reg) exE_ks2 = None /\
  handle_from_proto dkey (dpar ex_reg) (mkPkeyset 7 [mkPkey (Some (mkKeyData [116; 50] [9] 1)) 1 7 4]) <> None.
Proof. repeat split; try (vm_compute; reflexivity). vm_compute. discriminate. Qed.

(* the second disjunct of dkey_reserialize is real: a streaming AEAD key read from a
   TINK serialisation with id 5 is written back as RAW without id (the parser
   ignores the prefix, streamingaead/aesctrhmac/protoserialization.go) *)
Definition exD_s : kser := mkKser streaming_url [18; 9; 8; 128; 32; 16; 16; 24; 3; 34; 0; 26; 3; 7; 7; 7] 1 1 5.
Definition exD_k : dkey := Eval vm_compute in dk_of exD_s.
Lemma exD_facts :
  dpar ex_reg exD_s = Some exD_k /\
  (exists T g, exD_k = DK T g /\ kt_prefix T = PIgnored) /\
  option_map (fun s => (ks_prefix s, ks_id s)) (dser exD_k) = Some (3, 0) /\
  option_map (dpar ex_reg) (dser exD_k) = Some (Some exD_k).
Proof.
  split; [vm_compute; reflexivity|]. split; [vm_compute; eexists; eexists; split; reflexivity|].
  split; vm_compute; reflexivity.
Qed.

(* the hypotheses of registry_public_wf are met by handle B *)
Lemma exB_public_wf : wf_dhandle ex_reg exB_pub.
Proof.
  exact (registry_public_wf ex_schemas ex_schemas_wf ex_pub_url ex_pub_url_tables ex_pub_url_schema
           exB_es exB_pub exB_wf (proj1 exB_facts) exB_pub_size).
Qed.
