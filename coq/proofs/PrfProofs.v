(* Proofs about model/Prf.v: every PRF is the truncation of its standard
   full-width value (RFC 2104 / RFC 5869 / RFC 4493), refuses lengths beyond
   its maximum, satisfies the prefix law; PRF-set ids mirror the enabled keys;
   ComputeHKDF is RFC 5869 with empty salt = zeros. *)
From Coq Require Import List NArith Bool Arith Lia.
From Tink Require Import Bytes Cmac Hmac Hkdf Prf CmacProofs HmacProofs HkdfProofs.
Import ListNotations.
Open Scope N_scope.

Lemma digest_le_block h : (digest_size h <= block_size h)%nat.
Proof. destruct h; cbn; lia. Qed.

Lemma digest_pos h : (0 < digest_size h)%nat.
Proof. destruct h; cbn; lia. Qed.

Section PrfFacts.
  Variable Hash : hash_alg -> bytes -> bytes.
  Variable AES : bytes -> bytes -> bytes.
  Hypothesis Hash_len : forall h x, length (Hash h x) = digest_size h.
  Hypothesis AES_len : forall k b, length b = 16%nat -> length (AES k b) = 16%nat.
  Hypothesis AES_wf0 : forall k, wfb (AES k (zeros 16)).

  (* the characterisation every PRF of the stack satisfies *)
  Definition truncates (p : prf) (k : prf_kind) (key : bytes) : Prop :=
    forall data n,
      ((n <= prf_max k)%nat ->
         p data n = Ok (firstn n (prf_std Hash AES k key data)) /\
         length (firstn n (prf_std Hash AES k key data)) = n) /\
      ((prf_max k < n)%nat -> p data n = Err).

  Lemma prf_std_length k key data :
    match k with KHmac None | KHkdf None _ => False | _ => True end ->
    length (prf_std Hash AES k key data) = prf_max k.
  Proof.
    destruct k as [[h|]|[h|] salt|]; cbn [prf_std prf_max]; intros Hk; try contradiction.
    - unfold hmac. apply Hash_len.
    - rewrite (hkdf_blocks_length (Hash h) (block_size h) (digest_size h) (Hash_len h)). reflexivity.
    - rewrite <- cmac_impl_spec by (try apply AES_wf0; apply AES_len; apply zeros_length).
      apply cmac_impl_length. apply AES_len.
  Qed.

  Theorem subtle_new_truncates k key p :
    subtle_new Hash AES k key = Ok p -> truncates p k key.
  Proof.
    destruct k as [[h|]|[h|] salt|]; cbn [subtle_new]; try discriminate.
    - (* HMAC-PRF *)
      intros E; inversion E; subst. intros data n. unfold hmac_prf. cbn [prf_max prf_std]. split.
      + intros Hn. destruct (Nat.ltb_spec (digest_size h) n); [lia|]. split; [reflexivity|].
        rewrite firstn_length. unfold hmac. rewrite Hash_len. lia.
      + intros Hn. destruct (Nat.ltb_spec (digest_size h) n); [reflexivity|lia].
    - (* HKDF-PRF *)
      intros E; inversion E; subst. intros data n. unfold hkdf_prf, hkdf. cbn [prf_max prf_std]. split.
      + intros Hn.
        rewrite (hkdf_expand_stream (Hash h) (block_size h) (digest_size h) (Hash_len h) (digest_pos h)) by exact Hn.
        split; [reflexivity|].
        rewrite firstn_length, (hkdf_blocks_length (Hash h) (block_size h) (digest_size h) (Hash_len h)). lia.
      + intros Hn. rewrite hkdf_expand_too_long by exact Hn. reflexivity.
    - (* AES-CMAC-PRF *)
      destruct (negb _); [discriminate|].
      intros E; inversion E; subst. intros data n. unfold cmac_prf. cbn [prf_max prf_std].
      assert (Hs : cmac_impl (AES key) data = cmac_spec (AES key) data)
        by (apply cmac_impl_spec; [apply AES_wf0 | apply AES_len; apply zeros_length]).
      split.
      + intros Hn. destruct (Nat.ltb_spec 16 n); [lia|]. rewrite Hs. split; [reflexivity|].
        rewrite firstn_length, <- Hs, cmac_impl_length by (apply AES_len). lia.
      + intros Hn. destruct (Nat.ltb_spec 16 n); [reflexivity|lia].
  Qed.

  Lemma key_prf_subtle k key p : key_prf Hash AES k key = Ok p -> subtle_new Hash AES k key = Ok p.
  Proof. unfold key_prf. destruct (negb _); [discriminate|]. auto. Qed.

  Corollary key_prf_truncates k key p : key_prf Hash AES k key = Ok p -> truncates p k key.
  Proof. intros Hk. apply subtle_new_truncates. apply key_prf_subtle. exact Hk. Qed.

  (* prefix law and length, for anything that truncates *)
  Theorem truncates_prefix p k key : truncates p k key ->
    forall data n m o, (n <= m)%nat -> p data m = Ok o -> p data n = Ok (firstn n o) /\ length o = m.
  Proof.
    intros Ht data n m o Hnm Hm.
    destruct (Nat.le_gt_cases m (prf_max k)) as [Hle|Hgt].
    - destruct (proj1 (Ht data m) Hle) as [Hm' Hl]. rewrite Hm' in Hm. inversion Hm; subst.
      split; [|exact Hl]. destruct (proj1 (Ht data n) ltac:(lia)) as [Hn' _]. rewrite Hn'.
      rewrite firstn_firstn. repeat f_equal. lia.
    - rewrite (proj2 (Ht data m) Hgt) in Hm. discriminate.
  Qed.

  (* ---- PRF sets ---- *)
  Definition enabled_ids (es : list prf_entry) : list N :=
    flat_map (fun e => match e with (id, PEnabled, _, _) => [id] | _ => [] end) es.

  Lemma set_lookup_insert_same m id p : set_lookup (set_insert m id p) id = Some p.
  Proof.
    induction m as [|[id' p'] m IH]; cbn [set_insert set_lookup].
    - rewrite N.eqb_refl. reflexivity.
    - destruct (N.eqb_spec id id'); cbn [set_lookup].
      + rewrite N.eqb_refl. reflexivity.
      + destruct (N.eqb_spec id id'); [contradiction|]. exact IH.
  Qed.

  Lemma set_lookup_insert_other m id p id' : id' <> id ->
    set_lookup (set_insert m id p) id' = set_lookup m id'.
  Proof.
    intros Hne. induction m as [|[id0 p0] m IH]; cbn [set_insert set_lookup].
    - destruct (N.eqb_spec id' id); [contradiction|reflexivity].
    - destruct (N.eqb_spec id id0) as [->|Hn]; cbn [set_lookup].
      + destruct (N.eqb_spec id' id0); [contradiction|reflexivity].
      + destruct (N.eqb_spec id' id0); [reflexivity|exact IH].
  Qed.

  Lemma set_lookup_in m id : In id (map fst m) <-> set_lookup m id <> None.
  Proof.
    induction m as [|[id0 p0] m IH]; cbn [map fst set_lookup In].
    - split; [contradiction|congruence].
    - destruct (N.eqb_spec id id0) as [->|Hn].
      + split; [discriminate|auto].
      + rewrite <- IH. split; [intros [E|E]; [congruence|exact E] | auto].
  Qed.

  Lemma set_insert_keys m id p id' :
    In id' (map fst (set_insert m id p)) <-> id' = id \/ In id' (map fst m).
  Proof.
    rewrite !set_lookup_in. destruct (N.eq_dec id' id) as [->|Hne].
    - rewrite set_lookup_insert_same. split; [auto|discriminate].
    - rewrite set_lookup_insert_other by exact Hne. split; [auto|intros [E|E]; [contradiction|exact E]].
  Qed.

  Lemma set_insert_nodup m id p : NoDup (map fst m) -> NoDup (map fst (set_insert m id p)).
  Proof.
    induction m as [|[id0 p0] m IH]; cbn [set_insert map fst]; intros Hnd.
    - constructor; [intros []|constructor].
    - inversion Hnd as [|? ? Hnin Hnd']; subst.
      destruct (N.eqb_spec id id0) as [->|Hn]; cbn [map fst].
      + constructor; assumption.
      + constructor; [|apply IH; exact Hnd'].
        intros Hin. apply set_insert_keys in Hin. destruct Hin as [E|Hin]; [congruence|contradiction].
  Qed.

  Lemma build_prfs_facts : forall es acc m,
    build_prfs Hash AES es acc = Some m ->
    NoDup (enabled_ids es) -> NoDup (map fst acc) ->
    NoDup (map fst m) /\
    (forall id, ~ In id (enabled_ids es) -> set_lookup m id = set_lookup acc id) /\
    (forall id k key, In (id, PEnabled, k, key) es ->
       exists p, key_prf Hash AES k key = Ok p /\ set_lookup m id = Some p).
  Proof.
    induction es as [|[[[id0 st] k0] key0] es IH]; intros acc m; cbn [build_prfs].
    - intros E _ Hacc. inversion E; subst. repeat split; auto. intros id k key [].
    - destruct st.
      + (* enabled *)
        destruct (key_prf Hash AES k0 key0) as [p0| |] eqn:Ek; try discriminate.
        intros Hb Hnd Hacc. cbn [enabled_ids flat_map app] in Hnd.
        change (flat_map _ es) with (enabled_ids es) in Hnd.
        inversion Hnd as [|? ? Hnin Hnd']; subst.
        destruct (IH _ _ Hb Hnd' (set_insert_nodup acc id0 p0 Hacc)) as [H1 [H2 H3]].
        split; [exact H1|]. split.
        * intros id Hid. cbn [enabled_ids flat_map app In] in Hid.
          change (flat_map _ es) with (enabled_ids es) in Hid.
          rewrite H2 by tauto. apply set_lookup_insert_other. intros ->. tauto.
        * intros id k key [E|Hin].
          -- inversion E; subst. exists p0. split; [exact Ek|].
             rewrite H2 by exact Hnin. apply set_lookup_insert_same.
          -- apply H3. exact Hin.
      + (* disabled *)
        intros Hb Hnd Hacc. cbn [enabled_ids flat_map app] in Hnd.
        change (flat_map _ es) with (enabled_ids es) in Hnd.
        destruct (IH _ _ Hb Hnd Hacc) as [H1 [H2 H3]].
        split; [exact H1|]. split.
        * intros id Hid. apply H2. exact Hid.
        * intros id k key [E|Hin]; [inversion E | apply H3; exact Hin].
  Qed.

  Lemma in_enabled_ids es id :
    In id (enabled_ids es) <-> exists k key, In (id, PEnabled, k, key) es.
  Proof.
    unfold enabled_ids. rewrite in_flat_map. split.
    - intros [[[[id0 st] k] key] [Hin Hid]]. destruct st; [|destruct Hid].
      destruct Hid as [<-|[]]. exists k, key. exact Hin.
    - intros [k [key Hin]]. exists (id, PEnabled, k, key). split; [exact Hin | left; reflexivity].
  Qed.

  Theorem new_prf_set_facts es primary s :
    new_prf_set Hash AES es primary = Some s ->
    NoDup (enabled_ids es) ->
    primary_id s = primary /\
    NoDup (map fst (prfs s)) /\
    (forall id, In id (map fst (prfs s)) <-> exists k key, In (id, PEnabled, k, key) es) /\
    (forall id k key, In (id, PEnabled, k, key) es ->
       exists p, set_lookup (prfs s) id = Some p /\ truncates p k key) /\
    (forall k key, In (primary, PEnabled, k, key) es ->
       exists p, truncates p k key /\ forall input n, compute_primary s input n = p input n).
  Proof.
    unfold new_prf_set. destruct es as [|e es']; [discriminate|].
    set (es := e :: es') in *.
    destruct (build_prfs Hash AES es []) as [m|] eqn:Eb; [|discriminate].
    intros E Hnd. inversion E; subst. cbn [primary_id prfs].
    destruct (build_prfs_facts es [] m Eb Hnd ltac:(constructor)) as [H1 [H2 H3]].
    split; [reflexivity|]. split; [exact H1|]. split; [|split].
    - intros id. rewrite <- in_enabled_ids, set_lookup_in. split.
      + intros Hl. destruct (in_dec N.eq_dec id (enabled_ids es)) as [Hi|Hn]; [exact Hi|].
        rewrite H2 in Hl by exact Hn. cbn in Hl. congruence.
      + intros Hi. apply in_enabled_ids in Hi. destruct Hi as [k [key Hin]].
        destruct (H3 _ _ _ Hin) as [p [_ Hl]]. congruence.
    - intros id k key Hin. destruct (H3 _ _ _ Hin) as [p [Hk Hl]].
      exists p. split; [exact Hl | apply key_prf_truncates; exact Hk].
    - intros k key Hin. destruct (H3 _ _ _ Hin) as [p [Hk Hl]].
      exists p. split; [apply key_prf_truncates; exact Hk|].
      intros input n. unfold compute_primary. cbn [primary_id prfs]. rewrite Hl. reflexivity.
  Qed.

  (* ---- subtle.ComputeHKDF ---- *)
  Theorem compute_hkdf_ok h key salt info n o :
    compute_hkdf Hash h key salt info n = Ok o ->
    exists a, h = Some a /\ (10 <= n <= 255 * digest_size a)%nat /\ length o = n /\
      o = firstn n (hkdf_blocks (Hash a) (block_size a)
                      (hkdf_extract (Hash a) (block_size a)
                         (if Nat.eqb (length salt) 0 then zeros (digest_size a) else salt) key)
                      info [] 1 255).
  Proof.
    unfold compute_hkdf. destruct h as [a|]; [|discriminate].
    destruct (Nat.ltb_spec (255 * digest_size a) n); [discriminate|].
    destruct (Nat.ltb_spec n 10); [discriminate|].
    unfold hkdf.
    rewrite (hkdf_expand_stream (Hash a) (block_size a) (digest_size a) (Hash_len a) (digest_pos a)) by lia.
    remember (hkdf_blocks (Hash a) (block_size a)
                (hkdf_extract (Hash a) (block_size a)
                   (if Nat.eqb (length salt) 0 then zeros (digest_size a) else salt) key)
                info [] 1 255) as S eqn:ES.
    assert (HS : length S = (255 * digest_size a)%nat)
      by (rewrite ES; apply (hkdf_blocks_length (Hash a) (block_size a) (digest_size a) (Hash_len a))).
    intros E. injection E as <-. exists a. split; [reflexivity|]. split; [lia|]. split.
    - rewrite firstn_length, HS. lia.
    - rewrite ES. reflexivity.
  Qed.

  (* the helper agrees with the HKDF-PRF keyed with the same salt, also for the empty salt *)
  Theorem compute_hkdf_is_hkdf_prf a key salt info n o :
    compute_hkdf Hash (Some a) key salt info n = Ok o -> hkdf_prf Hash a key salt info n = Ok o.
  Proof.
    unfold compute_hkdf, hkdf_prf.
    destruct (Nat.ltb_spec (255 * digest_size a) n); [discriminate|].
    destruct (Nat.ltb_spec n 10); [discriminate|].
    destruct (Nat.eqb_spec (length salt) 0) as [Hz|Hz]; [|auto].
    destruct salt; [|discriminate].
    rewrite hkdf_empty_salt by apply digest_le_block. auto.
  Qed.

  Theorem compute_hkdf_empty_salt_is_zero_salt h key info n :
    compute_hkdf Hash h key [] info n
    = match h with Some a => compute_hkdf Hash h key (zeros (digest_size a)) info n | None => Err end.
  Proof.
    destruct h as [a|]; [|reflexivity]. unfold compute_hkdf. rewrite zeros_length.
    cbn [length Nat.eqb]. destruct (Nat.eqb_spec (digest_size a) 0) as [Hz|Hz]; [|reflexivity].
    pose proof (digest_pos a). lia.
  Qed.

  Theorem compute_hkdf_refuses h key salt info n :
    (n < 10)%nat \/ (match h with Some a => (255 * digest_size a < n)%nat | None => True end) ->
    compute_hkdf Hash h key salt info n = Err.
  Proof.
    unfold compute_hkdf. destruct h as [a|]; [|reflexivity].
    intros [Hn|Hn].
    - destruct (Nat.ltb_spec (255 * digest_size a) n); [reflexivity|].
      destruct (Nat.ltb_spec n 10); [reflexivity|lia].
    - destruct (Nat.ltb_spec (255 * digest_size a) n); [reflexivity|lia].
  Qed.
End PrfFacts.
