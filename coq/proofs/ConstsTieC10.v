(* Ties between the ML-DSA parameter sets REGENERATED from the Go source
   (gen/MldsaScalar.v: the constant fields of MLDSAnn = newParams(paramsOpts{...}))
   and the parameter sets the C10 model and theorems are stated over.  A source edit
   that changes tau, lambda, gamma1, gamma2, k, l, eta or omega of a set changes the
   regenerated list and one of these lemmas stops checking. *)
From Coq Require Import ZArith List String.
From Tink Require Import MldsaScalar Mldsa.
Import ListNotations.
Open Scope Z_scope.

Fixpoint field (n : string) (l : list (string * Z)) : Z :=
  match l with
  | [] => -1
  | (k, v) :: r => if String.eqb k n then v else field n r
  end.

(* newParams applied to a regenerated option list, field by field as in mldsa.go *)
Definition params_of_opts (o : list (string * Z)) : params :=
  newParams (Z.to_nat (field "tau" o)) (Z.to_nat (field "lambda" o)) (Z.to_nat (field "log2Gamma1" o))
            (field "invGamma2" o) (Z.to_nat (field "k" o)) (Z.to_nat (field "l" o))
            (field "eta" o) (Z.to_nat (field "omega" o)).

Definition opts_complete (o : list (string * Z)) : bool :=
  (List.length o =? 8)%nat &&
  forallb (fun n => 0 <=? field n o)
          ["tau"; "lambda"; "log2Gamma1"; "invGamma2"; "k"; "l"; "eta"; "omega"]%string.

Lemma tie_opts_complete :
  opts_complete mldsa_MLDSA44_opts = true /\ opts_complete mldsa_MLDSA65_opts = true /\
  opts_complete mldsa_MLDSA87_opts = true.
Proof. repeat split; vm_compute; reflexivity. Qed.

Lemma tie_MLDSA44 : params_of_opts mldsa_MLDSA44_opts = MLDSA44. Proof. vm_compute. reflexivity. Qed.
Lemma tie_MLDSA65 : params_of_opts mldsa_MLDSA65_opts = MLDSA65. Proof. vm_compute. reflexivity. Qed.
Lemma tie_MLDSA87 : params_of_opts mldsa_MLDSA87_opts = MLDSA87. Proof. vm_compute. reflexivity. Qed.

Lemma mldsa_all_translated : mldsa_untranslatable = nil.
Proof. reflexivity. Qed.
