(* Proofs about model/Kwp.v: size formula, W as coded = RFC 3394 indexing,
   invertW is the two-sided inverse of W (from D o E = id = E o D on 16-byte
   blocks), Unwrap accepts exactly RFC 5649 wrappings. *)
From Coq Require Import List NArith Bool Arith Lia ZifyN ZifyNat ZifyBool.
From Tink Require Import Bytes CmacProofs SivProofs Kwp.
Import ListNotations.
Open Scope N_scope.

(* ---------- wrappingSize ---------- *)
Theorem wrappingSize_formula n : wrappingSize n = (8 * ((n + 7) / 8) + 8)%nat.
Proof.
  unfold wrappingSize.
  pose proof (Nat.div_mod (n + 7) 8 ltac:(lia)).
  pose proof (Nat.mod_upper_bound (n + 7) 8 ltac:(lia)). lia.
Qed.

Lemma wrappingSizeN_nat n : wrappingSizeN (N.of_nat n) = N.of_nat (wrappingSize n).
Proof.
  unfold wrappingSizeN, wrappingSize.
  pose proof (Nat.div_mod (n + 7) 8 ltac:(lia)).
  pose proof (Nat.mod_upper_bound (n + 7) 8 ltac:(lia)).
  replace ((N.of_nat n + 7) mod 8) with (N.of_nat ((n + 7) mod 8)).
  - lia.
  - replace (N.of_nat n + 7) with (N.of_nat (n + 7)) by lia.
    change 8 with (N.of_nat 8). rewrite <- Nnat.Nat2N.inj_mod. reflexivity.
Qed.

(* ---------- blocks ---------- *)
Definition blocks_ok (rs : list bytes) : Prop := Forall (fun r => length r = 8%nat) rs.

Lemma blocks8_length n : forall b, length (blocks8 n b) = n.
Proof. induction n; intros b; simpl; auto. Qed.

Lemma blocks8_ok n : forall b, length b = (8 * n)%nat -> blocks_ok (blocks8 n b).
Proof.
  induction n as [|n IH]; intros b H; cbn [blocks8]; constructor.
  - rewrite firstn_length. lia.
  - apply IH. rewrite skipn_length. lia.
Qed.

Lemma concat_blocks8 n : forall b, length b = (8 * n)%nat -> concat (blocks8 n b) = b.
Proof.
  induction n as [|n IH]; intros b H; cbn [blocks8 concat].
  - destruct b; [reflexivity|simpl in H; lia].
  - rewrite IH by (rewrite skipn_length; lia). apply firstn_skipn.
Qed.

Lemma blocks8_concat rs : blocks_ok rs -> blocks8 (length rs) (concat rs) = rs.
Proof.
  induction 1 as [|r rs Hr _ IH]; [reflexivity|].
  cbn [length concat blocks8].
  rewrite firstn_app_le, skipn_app_le by lia.
  rewrite firstn_all2, skipn_all2 by lia. cbn [app]. rewrite IH. reflexivity.
Qed.

Lemma concat_length_blocks rs : blocks_ok rs -> length (concat rs) = (8 * length rs)%nat.
Proof.
  induction 1 as [|r rs Hr _ IH]; [reflexivity|]. cbn [concat length]. rewrite app_length. lia.
Qed.

Lemma blocks_ok_rev rs : blocks_ok rs -> blocks_ok (rev rs).
Proof. apply Forall_rev. Qed.

Lemma blocks_ok_app a b : blocks_ok (a ++ b) <-> blocks_ok a /\ blocks_ok b.
Proof. apply Forall_app. Qed.

(* ---------- the step counter: low four bytes vs 64-bit big-endian ---------- *)
Lemma le_bytes_add n m : forall x, le_bytes (n + m) x = le_bytes n x ++ le_bytes m (x / 256 ^ N.of_nat n).
Proof.
  induction n as [|n IH]; intros x.
  - cbn [Nat.add le_bytes app]. change (256 ^ N.of_nat 0) with 1. rewrite N.div_1_r. reflexivity.
  - cbn [Nat.add le_bytes app]. rewrite IH. do 3 f_equal.
    rewrite Nnat.Nat2N.inj_succ, N.pow_succ_r by lia.
    rewrite N.div_div by (try apply N.pow_nonzero; lia). reflexivity.
Qed.

Lemma be_bytes8_small t : t < 2 ^ 32 -> be_bytes 8 t = zeros 4 ++ be_bytes 4 t.
Proof.
  intros H. unfold be_bytes. change 8%nat with (4 + 4)%nat. rewrite le_bytes_add, rev_app_distr.
  f_equal. change (256 ^ N.of_nat 4) with (2 ^ 32). rewrite N.div_small by assumption. reflexivity.
Qed.

Lemma xorb_app_r a b1 b2 :
  xorb a (b1 ++ b2) = xorb (firstn (length b1) a) b1 ++ xorb (skipn (length b1) a) b2.
Proof.
  rewrite (xorb_comm a), xorb_app_l, (xorb_comm b1), (xorb_comm b2). reflexivity.
Qed.

Lemma xor_ctr_t A t : t < 2 ^ 32 -> xor_ctr A t = xor_t A t.
Proof.
  intros H. unfold xor_ctr, xor_t. rewrite be_bytes8_small by assumption.
  rewrite xorb_app_r, zeros_length. f_equal.
  rewrite xorb_zeros_r; [reflexivity|]. rewrite firstn_length. lia.
Qed.

Lemma xor_t_length A t : length A = 8%nat -> length (xor_t A t) = 8%nat.
Proof. intros H. unfold xor_t. rewrite xorb_length, be_bytes_length. lia. Qed.

Lemma xor_t_involutive A t : length A = 8%nat -> xor_t (xor_t A t) t = A.
Proof. intros H. unfold xor_t. apply xorb_cancel. rewrite be_bytes_length. exact H. Qed.

Lemma be_bytes4_mod x : be_bytes 4 (x mod 2 ^ 32) = be_bytes 4 x.
Proof. unfold be_bytes. f_equal. apply (le_bytes_mod 4). Qed.

Section KwpThms.
  Variable E D : bytes -> bytes.
  Hypothesis E_len : forall b, length b = 16%nat -> length (E b) = 16%nat.
  Hypothesis D_len : forall b, length b = 16%nat -> length (D b) = 16%nat.
  Hypothesis DE : forall b, length b = 16%nat -> D (E b) = b.
  Hypothesis ED : forall b, length b = 16%nat -> E (D b) = b.

  (* ---------- shape preservation ---------- *)
  Lemma rfc_pass_shape n j : forall rs i A, length A = 8%nat -> blocks_ok rs ->
    length (fst (rfc_pass E n j i A rs)) = 8%nat /\ blocks_ok (snd (rfc_pass E n j i A rs))
    /\ length (snd (rfc_pass E n j i A rs)) = length rs.
  Proof using E_len. clear D_len DE ED; try clear D.
    induction rs as [|r rs IH]; intros i A HA Hrs.
    - cbn. repeat split; auto; constructor.
    - inversion Hrs; subst. cbn [rfc_pass].
      assert (HB : length (E (A ++ r)) = 16%nat) by (apply E_len; rewrite app_length; lia).
      specialize (IH (S i) (xor_t (firstn 8 (E (A ++ r))) (N.of_nat (n * j + i)))
                     ltac:(apply xor_t_length; rewrite firstn_length; lia) ltac:(assumption)).
      destruct (rfc_pass E n j (S i) _ rs) as [A' out]. cbn [fst snd] in *.
      destruct IH as [I1 [I2 I3]]. repeat split; auto.
      + constructor; auto. rewrite skipn_length. lia.
      + cbn [length]. lia.
  Qed.

  (* unwrap_pass with the block index offset made explicit *)
  Fixpoint unwrap_pass_off (off i n : nat) (A : bytes) (rs_rev : list bytes) : bytes * list bytes :=
    match rs_rev with
    | [] => (A, [])
    | r :: rest =>
        let t := N.of_nat (i * n + (off + length rest) + 1) in
        let b := D (xor_ctr A t ++ r) in
        let '(A', out) := unwrap_pass_off off i n (firstn 8 b) rest in
        (A', skipn 8 b :: out)
    end.

  Lemma unwrap_pass_off0 i n : forall rs A, unwrap_pass D i n A rs = unwrap_pass_off 0 i n A rs.
  Proof. induction rs as [|r rs IH]; intros A; [reflexivity|]. cbn. rewrite IH. reflexivity. Qed.

  Lemma unwrap_pass_off_app i n : forall l1 l2 off A,
    unwrap_pass_off off i n A (l1 ++ l2) =
    let '(A1, o1) := unwrap_pass_off (off + length l2) i n A l1 in
    let '(A2, o2) := unwrap_pass_off off i n A1 l2 in (A2, o1 ++ o2).
  Proof.
    induction l1 as [|r l1 IH]; intros l2 off A.
    - cbn. destruct (unwrap_pass_off off i n A l2). reflexivity.
    - cbn [app unwrap_pass_off]. rewrite IH. rewrite app_length.
      replace (off + (length l1 + length l2))%nat with (off + length l2 + length l1)%nat by lia.
      destruct (unwrap_pass_off (off + length l2) i n _ l1) as [A1 o1].
      destruct (unwrap_pass_off off i n A1 l2) as [A2 o2]. reflexivity.
  Qed.

  Lemma unwrap_pass_off_shape i n : forall rs off A, length A = 8%nat -> blocks_ok rs ->
    length (fst (unwrap_pass_off off i n A rs)) = 8%nat /\ blocks_ok (snd (unwrap_pass_off off i n A rs))
    /\ length (snd (unwrap_pass_off off i n A rs)) = length rs.
  Proof.
    induction rs as [|r rs IH]; intros off A HA Hrs.
    - cbn. repeat split; auto; constructor.
    - inversion Hrs; subst. cbn [unwrap_pass_off].
      set (t := N.of_nat _).
      assert (HX : length (xor_ctr A t) = 8%nat).
      { unfold xor_ctr. rewrite app_length, firstn_length, xorb_length, skipn_length, be_bytes_length. lia. }
      assert (HB : length (D (xor_ctr A t ++ r)) = 16%nat) by (apply D_len; rewrite app_length; lia).
      specialize (IH off (firstn 8 (D (xor_ctr A t ++ r))) ltac:(rewrite firstn_length; lia) ltac:(assumption)).
      destruct (unwrap_pass_off off i n _ rs) as [A' out]. cbn [fst snd] in *.
      destruct IH as [I1 [I2 I3]]. repeat split; auto.
      + constructor; auto. rewrite skipn_length. lia.
      + cbn [length]. lia.
  Qed.

  Lemma rfc_pass_app n j : forall l1 l2 i A,
    rfc_pass E n j i A (l1 ++ l2) =
    let '(A1, o1) := rfc_pass E n j i A l1 in
    let '(A2, o2) := rfc_pass E n j (i + length l1) A1 l2 in (A2, o1 ++ o2).
  Proof.
    induction l1 as [|r l1 IH]; intros l2 i A.
    - cbn. rewrite Nat.add_0_r. destruct (rfc_pass E n j i A l2). reflexivity.
    - cbn [app rfc_pass length]. rewrite IH.
      replace (S i + length l1)%nat with (i + S (length l1))%nat by lia.
      destruct (rfc_pass E n j (S i) _ l1) as [A1 o1].
      destruct (rfc_pass E n j (i + S (length l1)) A1 l2) as [A2 o2]. reflexivity.
  Qed.

  (* ---------- one pass: invertW's pass undoes W's pass and vice versa ---------- *)
  Lemma pass_inv1 n j : forall rs off A, length A = 8%nat -> blocks_ok rs ->
    N.of_nat (n * j + off + length rs) < 2 ^ 32 ->
    unwrap_pass_off off j n (fst (rfc_pass E n j (off + 1) A rs)) (rev (snd (rfc_pass E n j (off + 1) A rs)))
    = (A, rev rs).
  Proof.
    induction rs as [|r rs IH]; intros off A HA Hrs Hb; [reflexivity|].
    inversion Hrs; subst. cbn [rfc_pass].
    set (t := N.of_nat (n * j + (off + 1))).
    set (B := E (A ++ r)).
    assert (HB : length B = 16%nat) by (apply E_len; rewrite app_length; lia).
    assert (HA1 : length (xor_t (firstn 8 B) t) = 8%nat) by (apply xor_t_length; rewrite firstn_length; lia).
    cbn [length] in Hb.
    specialize (IH (off + 1)%nat (xor_t (firstn 8 B) t) HA1 ltac:(assumption) ltac:(lia)).
    pose proof (rfc_pass_shape n j rs (S (off + 1)) _ HA1 ltac:(assumption)) as [S1 [S2 S3]].
    replace (off + 1 + 1)%nat with (S (off + 1)) in IH by lia.
    destruct (rfc_pass E n j (S (off + 1)) (xor_t (firstn 8 B) t) rs) as [A' out].
    cbn [fst snd] in *. cbn [rev].
    rewrite unwrap_pass_off_app. cbn [length].
    rewrite IH. cbn [unwrap_pass_off length].
    replace (N.of_nat (j * n + (off + 0) + 1)) with t by (unfold t; lia).
    rewrite xor_ctr_t by (unfold t; lia).
    rewrite xor_t_involutive by (rewrite firstn_length; lia).
    rewrite firstn_skipn. unfold B. rewrite DE by (rewrite app_length; lia).
    rewrite firstn_app_le, skipn_app_le by lia.
    rewrite firstn_all2, skipn_all2 by lia. reflexivity.
  Qed.

  Lemma pass_inv2 n j : forall rs_rev off A, length A = 8%nat -> blocks_ok rs_rev ->
    N.of_nat (n * j + off + length rs_rev) < 2 ^ 32 ->
    rfc_pass E n j (off + 1) (fst (unwrap_pass_off off j n A rs_rev))
             (rev (snd (unwrap_pass_off off j n A rs_rev)))
    = (A, rev rs_rev).
  Proof.
    induction rs_rev as [|r rs IH]; intros off A HA Hrs Hb; [reflexivity|].
    inversion Hrs; subst. cbn [unwrap_pass_off].
    set (t := N.of_nat (j * n + (off + length rs) + 1)).
    assert (HX : length (xor_ctr A t) = 8%nat).
    { unfold xor_ctr. rewrite app_length, firstn_length, xorb_length, skipn_length, be_bytes_length. lia. }
    set (b := D (xor_ctr A t ++ r)).
    assert (Hb16 : length b = 16%nat) by (apply D_len; rewrite app_length; lia).
    cbn [length] in Hb.
    specialize (IH off (firstn 8 b) ltac:(rewrite firstn_length; lia) ltac:(assumption) ltac:(lia)).
    pose proof (unwrap_pass_off_shape j n rs off (firstn 8 b) ltac:(rewrite firstn_length; lia) ltac:(assumption))
      as [S1 [S2 S3]].
    destruct (unwrap_pass_off off j n (firstn 8 b) rs) as [A' out].
    cbn [fst snd] in *. cbn [rev].
    rewrite rfc_pass_app. rewrite IH. rewrite rev_length, S3.
    cbn [rfc_pass].
    rewrite firstn_skipn. unfold b. rewrite ED by (rewrite app_length; lia).
    rewrite firstn_app_le, skipn_app_le by lia.
    rewrite firstn_all2, skipn_all2 by lia. cbn [app].
    replace (N.of_nat (n * j + (off + 1 + length rs))) with t by (unfold t; lia).
    rewrite <- xor_ctr_t by (unfold t; lia).
    rewrite xor_ctr_t by (unfold t; lia).
    assert (Hc : xor_t (xor_ctr A t) t = A).
    { rewrite xor_ctr_t by (unfold t; lia). apply xor_t_involutive. exact HA. }
    rewrite Hc. reflexivity.
  Qed.

  (* ---------- rounds ---------- *)
  Lemma rfc_rounds_shape n : forall k j A rs, length A = 8%nat -> blocks_ok rs ->
    length (fst (rfc_rounds E k n j A rs)) = 8%nat /\ blocks_ok (snd (rfc_rounds E k n j A rs))
    /\ length (snd (rfc_rounds E k n j A rs)) = length rs.
  Proof.
    induction k as [|k IH]; intros j A rs HA Hrs; [cbn; auto|].
    cbn [rfc_rounds].
    pose proof (rfc_pass_shape n j rs 1 A HA Hrs) as [S1 [S2 S3]].
    destruct (rfc_pass E n j 1 A rs) as [A' rs']. cbn [fst snd] in *.
    destruct (IH (S j) A' rs' S1 S2) as [I1 [I2 I3]]. repeat split; auto. lia.
  Qed.

  Lemma rfc_rounds_snoc n : forall k j A rs,
    rfc_rounds E (S k) n j A rs =
    rfc_pass E n (j + k) 1 (fst (rfc_rounds E k n j A rs)) (snd (rfc_rounds E k n j A rs)).
  Proof.
    induction k as [|k IH]; intros j A rs.
    - cbn [rfc_rounds fst snd]. rewrite Nat.add_0_r. destruct (rfc_pass E n j 1 A rs). reflexivity.
    - change (rfc_rounds E (S (S k)) n j A rs) with
        (let '(A', rs') := rfc_pass E n j 1 A rs in rfc_rounds E (S k) n (S j) A' rs').
      change (rfc_rounds E (S k) n j A rs) with
        (let '(A', rs') := rfc_pass E n j 1 A rs in rfc_rounds E k n (S j) A' rs').
      destruct (rfc_pass E n j 1 A rs) as [A' rs']. rewrite IH.
      replace (S j + k)%nat with (j + S k)%nat by lia. reflexivity.
  Qed.

  Lemma unwrap_rounds_shape n : forall k A rs, length A = 8%nat -> blocks_ok rs ->
    length (fst (unwrap_rounds D k n A rs)) = 8%nat /\ blocks_ok (snd (unwrap_rounds D k n A rs))
    /\ length (snd (unwrap_rounds D k n A rs)) = length rs.
  Proof.
    induction k as [|k IH]; intros A rs HA Hrs; [cbn; auto|].
    cbn [unwrap_rounds]. rewrite unwrap_pass_off0.
    pose proof (unwrap_pass_off_shape k n rs 0 A HA Hrs) as [S1 [S2 S3]].
    destruct (unwrap_pass_off 0 k n A rs) as [A' rs']. cbn [fst snd] in *.
    destruct (IH A' rs' S1 S2) as [I1 [I2 I3]]. repeat split; auto. lia.
  Qed.

  (* invertW's rounds undo W's rounds ... *)
  Lemma rounds_inv1 n : forall k A rs, length A = 8%nat -> blocks_ok rs ->
    N.of_nat (n * k + length rs) < 2 ^ 32 ->
    unwrap_rounds D k n (fst (rfc_rounds E k n 0 A rs)) (rev (snd (rfc_rounds E k n 0 A rs)))
    = (A, rev rs).
  Proof.
    induction k as [|k IH]; intros A rs HA Hrs Hb; [reflexivity|].
    rewrite rfc_rounds_snoc. cbn [Nat.add].
    pose proof (rfc_rounds_shape n k 0 A rs HA Hrs) as [S1 [S2 S3]].
    specialize (IH A rs HA Hrs ltac:(lia)).
    destruct (rfc_rounds E k n 0 A rs) as [A1 rs1]. cbn [fst snd] in *.
    cbn [unwrap_rounds]. rewrite unwrap_pass_off0.
    pose proof (pass_inv1 n k rs1 0 A1 S1 S2 ltac:(lia)) as P. cbn [Nat.add] in P.
    rewrite P. exact IH.
  Qed.

  (* ... and W's rounds undo invertW's rounds *)
  Lemma rounds_inv2 n : forall k A rs_rev, length A = 8%nat -> blocks_ok rs_rev ->
    N.of_nat (n * k + length rs_rev) < 2 ^ 32 ->
    rfc_rounds E k n 0 (fst (unwrap_rounds D k n A rs_rev)) (rev (snd (unwrap_rounds D k n A rs_rev)))
    = (A, rev rs_rev).
  Proof.
    induction k as [|k IH]; intros A rs HA Hrs Hb; [reflexivity|].
    cbn [unwrap_rounds]. rewrite unwrap_pass_off0.
    pose proof (unwrap_pass_off_shape k n rs 0 A HA Hrs) as [S1 [S2 S3]].
    pose proof (pass_inv2 n k rs 0 A HA Hrs ltac:(lia)) as P. cbn [Nat.add] in P.
    destruct (unwrap_pass_off 0 k n A rs) as [A1 r1]. cbn [fst snd] in *.
    specialize (IH A1 r1 S1 S2 ltac:(lia)).
    rewrite rfc_rounds_snoc. rewrite IH. cbn [fst snd Nat.add]. exact P.
  Qed.

  (* ---------- W as coded (running uint32 counter, low four bytes) = RFC 3394 ---------- *)
  Lemma wrap_pass_rfc n j : forall rs i A, (1 <= i)%nat ->
    N.of_nat (n * j + i + length rs) <= 2 ^ 32 ->
    wrap_pass E A (N.of_nat (n * j + i - 1)) rs =
    (fst (rfc_pass E n j i A rs), N.of_nat (n * j + i - 1 + length rs), snd (rfc_pass E n j i A rs)).
  Proof using . clear E_len D_len DE ED; try clear D.
    induction rs as [|r rs IH]; intros i A Hi Hb.
    - cbn. rewrite Nat.add_0_r. reflexivity.
    - cbn [wrap_pass rfc_pass]. cbn [length] in Hb.
      replace ((N.of_nat (n * j + i - 1) + 1) mod 2 ^ 32) with (N.of_nat (n * j + i))
        by (rewrite N.mod_small; lia).
      rewrite xor_ctr_t by lia.
      replace (N.of_nat (n * j + i)) with (N.of_nat (n * j + S i - 1)) at 2 by (f_equal; lia).
      rewrite IH by lia.
      destruct (rfc_pass E n j (S i) _ rs) as [A' out]. cbn [fst snd length].
      do 2 f_equal. f_equal. lia.
  Qed.

  Lemma wrap_rounds_rfc n : forall k j A rs, length rs = n -> length A = 8%nat -> blocks_ok rs ->
    N.of_nat (n * (j + k) + 1) <= 2 ^ 32 ->
    wrap_rounds E k A (N.of_nat (n * j)) rs = rfc_rounds E k n j A rs.
  Proof using E_len. clear D_len DE ED; try clear D.
    induction k as [|k IH]; intros j A rs Hn HA Hrs Hb; [reflexivity|].
    cbn [wrap_rounds rfc_rounds].
    replace (N.of_nat (n * j)) with (N.of_nat (n * j + 1 - 1)) by (f_equal; lia).
    rewrite wrap_pass_rfc by nia.
    pose proof (rfc_pass_shape n j rs 1 A HA Hrs) as [S1 [S2 S3]].
    destruct (rfc_pass E n j 1 A rs) as [A' rs']. cbn [fst snd] in *.
    replace (N.of_nat (n * j + 1 - 1 + length rs)) with (N.of_nat (n * S j)) by (f_equal; nia).
    apply IH; auto; try lia.
  Qed.

  Theorem W_impl_rfc3394 A rs : length A = 8%nat -> blocks_ok rs ->
    6 * N.of_nat (length rs) < 2 ^ 32 ->
    W_impl E A rs = W_rfc3394 E A rs.
  Proof using E_len. clear D_len DE ED; try clear D.
    intros HA Hrs Hb. unfold W_impl, W_rfc3394, roundCount.
    replace 0 with (N.of_nat (length rs * 0)) at 1 by lia.
    rewrite (wrap_rounds_rfc (length rs)) by (auto; lia). reflexivity.
  Qed.

  (* ---------- invertW is the two-sided inverse of W ---------- *)
  Lemma W_rfc3394_length A rs : length A = 8%nat -> blocks_ok rs ->
    length (W_rfc3394 E A rs) = (8 + 8 * length rs)%nat.
  Proof.
    intros HA Hrs. unfold W_rfc3394.
    pose proof (rfc_rounds_shape (length rs) 6 0 A rs HA Hrs) as [S1 [S2 S3]].
    destruct (rfc_rounds E 6 (length rs) 0 A rs) as [A' rs']. cbn [fst snd] in *.
    rewrite app_length, concat_length_blocks by assumption. lia.
  Qed.

  Lemma invertW_W A rs : length A = 8%nat -> blocks_ok rs -> (2 <= length rs)%nat ->
    7 * N.of_nat (length rs) < 2 ^ 32 ->
    invertW D (W_rfc3394 E A rs) = Ok (A ++ concat rs).
  Proof.
    intros HA Hrs Hn Hb. unfold invertW.
    rewrite W_rfc3394_length by assumption.
    replace (Nat.ltb (8 + 8 * length rs) 24) with false by (symmetry; apply Nat.ltb_ge; lia).
    replace (8 + 8 * length rs)%nat with ((1 + length rs) * 8)%nat by lia.
    rewrite Nat.mod_mul, Nat.div_mul by lia.
    cbn [Nat.eqb negb orb].
    replace (1 + length rs - 1)%nat with (length rs) by lia.
    unfold W_rfc3394.
    pose proof (rfc_rounds_shape (length rs) 6 0 A rs HA Hrs) as [S1 [S2 S3]].
    pose proof (rounds_inv1 (length rs) 6 A rs HA Hrs ltac:(lia)) as P.
    destruct (rfc_rounds E 6 (length rs) 0 A rs) as [A' rs']. cbn [fst snd] in *.
    rewrite firstn_app_le, skipn_app_le by lia.
    rewrite firstn_all2, skipn_all2 by lia. cbn [app].
    rewrite <- S3 at 2. rewrite blocks8_concat by assumption. unfold roundCount. rewrite P.
    rewrite rev_involutive. reflexivity.
  Qed.

  Lemma invertW_inv c : (24 <= length c)%nat -> (length c mod 8 = 0)%nat ->
    7 * N.of_nat (length c / 8) < 2 ^ 32 ->
    exists A rs, invertW D c = Ok (A ++ concat rs) /\ length A = 8%nat /\ blocks_ok rs /\
                 length rs = (length c / 8 - 1)%nat /\ W_rfc3394 E A rs = c.
  Proof.
    intros H24 H8 Hb. unfold invertW.
    replace (Nat.ltb (length c) 24) with false by (symmetry; apply Nat.ltb_ge; lia).
    rewrite H8. cbn [Nat.eqb negb orb].
    pose proof (Nat.div_mod (length c) 8 ltac:(lia)) as Hdm.
    set (n := (length c / 8 - 1)%nat) in *.
    set (A0 := firstn 8 c). set (rs0 := blocks8 n (skipn 8 c)).
    assert (HA0 : length A0 = 8%nat) by (unfold A0; rewrite firstn_length; lia).
    assert (Hs : length (skipn 8 c) = (8 * n)%nat) by (rewrite skipn_length; lia).
    assert (Hrs0 : blocks_ok rs0) by (apply blocks8_ok; exact Hs).
    assert (Hl0 : length rs0 = n) by apply blocks8_length.
    pose proof (unwrap_rounds_shape n roundCount A0 (rev rs0) HA0 (blocks_ok_rev _ Hrs0)) as [S1 [S2 S3]].
    pose proof (rounds_inv2 n 6 A0 (rev rs0) HA0 (blocks_ok_rev _ Hrs0)
                  ltac:(rewrite rev_length, Hl0; lia)) as P.
    unfold roundCount in *.
    destruct (unwrap_rounds D 6 n A0 (rev rs0)) as [A rs_rev]. cbn [fst snd] in *.
    rewrite rev_length in S3.
    exists A, (rev rs_rev). repeat split; auto.
    - apply blocks_ok_rev. assumption.
    - rewrite rev_length. lia.
    - unfold W_rfc3394. rewrite rev_length, S3, Hl0, P, rev_involutive.
      unfold rs0. rewrite concat_blocks8 by exact Hs. apply firstn_skipn.
  Qed.

  (* ---------- Wrap = RFC 5649 ---------- *)
  Lemma aiv_length n : length (aiv n) = 8%nat.
  Proof using. clear E_len D_len DE ED. try clear D. try clear E. unfold aiv. rewrite app_length, !be_bytes_length. reflexivity. Qed.

  Lemma pad_arith m :
    (wrappingSize m - 8 - m = (8 - m mod 8) mod 8)%nat /\
    ((wrappingSize m - 8) / 8 = (m + (8 - m mod 8) mod 8) / 8)%nat /\
    (wrappingSize m = 8 + (m + (8 - m mod 8) mod 8))%nat /\
    ((m + (8 - m mod 8) mod 8) mod 8 = 0)%nat.
  Proof using. clear E_len D_len DE ED. try clear D. try clear E.
    unfold wrappingSize.
    pose proof (Nat.div_mod (m + 7) 8 ltac:(lia)).
    pose proof (Nat.mod_upper_bound (m + 7) 8 ltac:(lia)).
    pose proof (Nat.div_mod m 8 ltac:(lia)).
    pose proof (Nat.mod_upper_bound m 8 ltac:(lia)).
    pose proof (Nat.div_mod (8 - m mod 8) 8 ltac:(lia)).
    pose proof (Nat.mod_upper_bound (8 - m mod 8) 8 ltac:(lia)).
    assert (P : (7 - (m + 7) mod 8 = (8 - m mod 8) mod 8)%nat) by lia.
    rewrite P. set (pad := ((8 - m mod 8) mod 8)%nat) in *.
    assert (Q : ((m + pad) mod 8 = 0)%nat).
    { pose proof (Nat.div_mod (m + pad) 8 ltac:(lia)).
      pose proof (Nat.mod_upper_bound (m + pad) 8 ltac:(lia)). lia. }
    repeat split; try lia; f_equal; lia.
  Qed.

  Theorem kwp_wrap_rfc5649 d : 16 <= N.of_nat (length d) <= 8192 ->
    kwp_wrap E d = Ok (wrap_rfc5649 E d).
  Proof using E_len. clear D_len DE ED; try clear D.
    intros Hd. unfold kwp_wrap, MinWrapSize, MaxWrapSize.
    replace (N.ltb (N.of_nat (length d)) 16) with false by (symmetry; apply N.ltb_ge; lia).
    replace (N.ltb 8192 (N.of_nat (length d))) with false by (symmetry; apply N.ltb_ge; lia).
    unfold wrap_rfc5649. fold (aiv (length d)).
    destruct (pad_arith (length d)) as [P1 [P2 [P3 P4]]].
    rewrite P1, P2. set (pad := ((8 - length d mod 8) mod 8)%nat) in *.
    rewrite app_length, zeros_length.
    pose proof (Nat.div_mod (length d + pad) 8 ltac:(lia)) as Hdm.
    rewrite W_impl_rfc3394; [reflexivity|apply aiv_length| |].
    - apply blocks8_ok. rewrite app_length, zeros_length. lia.
    - rewrite blocks8_length. assert (pad < 8)%nat by (apply Nat.mod_upper_bound; lia). lia.
  Qed.

  Theorem kwp_wrap_size_limits d :
    (N.of_nat (length d) < 16 \/ 8192 < N.of_nat (length d)) -> kwp_wrap E d = Err.
  Proof using. clear E_len D_len DE ED. try clear D. try clear E.
    intros [H|H]; unfold kwp_wrap, MinWrapSize, MaxWrapSize.
    - replace (N.ltb (N.of_nat (length d)) 16) with true by (symmetry; apply N.ltb_lt; lia). reflexivity.
    - destruct (N.ltb (N.of_nat (length d)) 16); [reflexivity|].
      replace (N.ltb 8192 (N.of_nat (length d))) with true by (symmetry; apply N.ltb_lt; lia). reflexivity.
  Qed.

  (* ---------- Unwrap in closed form ---------- *)
  Lemma wsN_min : wrappingSizeN MinWrapSize = 24. Proof. reflexivity. Qed.
  Lemma wsN_max : wrappingSizeN MaxWrapSize = 8200. Proof. reflexivity. Qed.

  Lemma all_zero_zeros b : all_zero b = true <-> b = zeros (length b).
  Proof using. clear E_len D_len DE ED. try clear D. try clear E.
    induction b as [|x b IH]; cbn [all_zero length zeros repeat]; [intuition|].
    rewrite andb_true_iff, N.eqb_eq, IH. split.
    - intros [-> H]. unfold zeros in H. rewrite <- H. reflexivity.
    - intros H. injection H as H0 H2. split; [assumption|]. exact H2.
  Qed.

  Lemma slice_mid lo hi (s : bytes) : (lo <= hi <= length s)%nat ->
    slice lo hi s = Ok (firstn (hi - lo) (skipn lo s)).
  Proof using. clear E_len D_len DE ED. try clear D. try clear E.
    intros H. unfold slice.
    replace (Nat.leb lo hi) with true by (symmetry; apply Nat.leb_le; lia).
    replace (Nat.leb hi (length s)) with true by (symmetry; apply Nat.leb_le; lia). reflexivity.
  Qed.

  (* the checks Unwrap applies to invertW's output *)
  Definition unwrap_checks (u : bytes) : outcome bytes :=
    if negb (N.eqb (be_val (firstn 4 u)) ivPrefix) then Err else
    let e := be_val (firstn 4 (skipn 4 u)) in
    if negb (N.eqb (wrappingSizeN e) (N.of_nat (length u))) then Err else
    if negb (all_zero (skipn (8 + N.to_nat e) u)) then Err else
    Ok (firstn (N.to_nat e) (skipn 8 u)).

  Lemma kwp_unwrap_eq c : 24 <= N.of_nat (length c) <= 8200 -> (length c mod 8 = 0)%nat ->
    forall u, invertW D c = Ok u -> length u = length c ->
    kwp_unwrap D c = unwrap_checks u.
  Proof using. clear E_len D_len DE ED. try clear D. try clear E.
    intros Hc H8 u Hu Hl. unfold kwp_unwrap. rewrite wsN_min, wsN_max.
    replace (N.ltb (N.of_nat (length c)) 24) with false by (symmetry; apply N.ltb_ge; lia).
    replace (N.ltb 8200 (N.of_nat (length c))) with false by (symmetry; apply N.ltb_ge; lia).
    rewrite H8. cbn [Nat.eqb negb]. rewrite Hu. cbn [bind].
    rewrite !slice_mid by lia. cbn [bind]. unfold unwrap_checks.
    replace (4 - 0)%nat with 4%nat by lia. replace (8 - 4)%nat with 4%nat by lia. cbn [skipn].
    destruct (negb (N.eqb (be_val (firstn 4 u)) ivPrefix)); [reflexivity|].
    destruct (negb (N.eqb _ _)) eqn:Hw; [reflexivity|].
    destruct (negb (all_zero _)); [reflexivity|].
    apply negb_false_iff, N.eqb_eq in Hw.
    rewrite slice_mid.
    - f_equal. f_equal. lia.
    - unfold wrappingSizeN in Hw. lia.
  Qed.

  Theorem kwp_unwrap_size_limits c :
    (N.of_nat (length c) < 24 \/ 8200 < N.of_nat (length c) \/ (length c mod 8 <> 0)%nat) -> kwp_unwrap D c = Err.
  Proof using. clear E_len D_len DE ED. try clear D. try clear E.
    intros H. unfold kwp_unwrap. rewrite wsN_min, wsN_max.
    destruct (N.ltb (N.of_nat (length c)) 24) eqn:H1; [reflexivity|].
    destruct (N.ltb 8200 (N.of_nat (length c))) eqn:H2; [reflexivity|].
    destruct (Nat.eqb (length c mod 8) 0) eqn:H3; [|reflexivity].
    apply N.ltb_ge in H1. apply N.ltb_ge in H2. apply Nat.eqb_eq in H3. lia.
  Qed.

  (* ---------- Unwrap inverts RFC 5649 wrapping ---------- *)
  Theorem kwp_unwrap_wrap_rfc d : 9 <= N.of_nat (length d) <= 8192 ->
    kwp_unwrap D (wrap_rfc5649 E d) = Ok d.
  Proof.
    intros Hd. unfold wrap_rfc5649. fold (aiv (length d)).
    destruct (pad_arith (length d)) as [P1 [P2 [P3 P4]]].
    set (pad := ((8 - length d mod 8) mod 8)%nat) in *.
    assert (Hpad : (pad < 8)%nat) by (apply Nat.mod_upper_bound; lia).
    set (P := d ++ zeros pad).
    assert (HP : length P = (length d + pad)%nat) by (unfold P; rewrite app_length, zeros_length; reflexivity).
    pose proof (Nat.div_mod (length P) 8 ltac:(lia)) as Hdm.
    assert (HP4 : (length P mod 8 = 0)%nat) by (rewrite HP; exact P4).
    set (n := (length P / 8)%nat) in *.
    assert (HPn : length P = (8 * n)%nat) by lia.
    set (rs := blocks8 n P).
    assert (Hrs : blocks_ok rs) by (apply blocks8_ok; exact HPn).
    assert (Hn : length rs = n) by apply blocks8_length.
    assert (HW : length (W_rfc3394 E (aiv (length d)) rs) = (8 + 8 * n)%nat)
      by (rewrite W_rfc3394_length, Hn; auto using aiv_length).
    assert (HI : invertW D (W_rfc3394 E (aiv (length d)) rs) = Ok (aiv (length d) ++ P)).
    { rewrite invertW_W; auto using aiv_length; try lia.
      unfold rs. rewrite concat_blocks8 by exact HPn. reflexivity. }
    set (c := W_rfc3394 E (aiv (length d)) rs) in *.
    assert (Hc1 : 24 <= N.of_nat (length c) <= 8200) by lia.
    assert (Hc2 : (length c mod 8 = 0)%nat)
      by (rewrite HW; replace (8 + 8 * n)%nat with ((1 + n) * 8)%nat by lia; apply Nat.mod_mul; lia).
    assert (Hc3 : length (aiv (length d) ++ P) = length c) by (rewrite app_length, aiv_length, HW; lia).
    rewrite (kwp_unwrap_eq c Hc1 Hc2 _ HI Hc3).
    unfold unwrap_checks, aiv.
    rewrite <- !app_assoc.
    rewrite (firstn_app_le 4) by (rewrite be_bytes_length; lia).
    rewrite (@firstn_all2 _ 4 (be_bytes 4 ivPrefix)) by (rewrite be_bytes_length; lia).
    rewrite be_val_be_bytes. change (ivPrefix mod 256 ^ N.of_nat 4) with ivPrefix.
    rewrite N.eqb_refl. cbn [negb].
    rewrite (skipn_app_le 4) by (rewrite be_bytes_length; lia).
    rewrite (@skipn_all2 _ 4 (be_bytes 4 ivPrefix)) by (rewrite be_bytes_length; lia). cbn [app].
    rewrite (firstn_app_le 4) by (rewrite be_bytes_length; lia).
    rewrite (@firstn_all2 _ 4 (be_bytes 4 (N.of_nat (length d)))) by (rewrite be_bytes_length; lia).
    rewrite be_val_be_bytes. change (256 ^ N.of_nat 4) with (2 ^ 32).
    rewrite N.mod_small by lia.
    rewrite wrappingSizeN_nat, !app_length, !be_bytes_length, HP, P3.
    replace (N.eqb _ _) with true by (symmetry; apply N.eqb_eq; lia). cbn [negb].
    rewrite Nnat.Nat2N.id.
    replace (8 + length d)%nat with (length (be_bytes 4 ivPrefix ++ be_bytes 4 (N.of_nat (length d)) ++ d))
      by (rewrite !app_length, !be_bytes_length; lia).
    unfold P. rewrite !app_assoc, skipn_app_le by lia. rewrite skipn_all2 by lia. cbn [app].
    assert (Hz : all_zero (zeros pad) = true) by (apply all_zero_zeros; rewrite zeros_length; reflexivity).
    rewrite Hz. cbn [negb]. rewrite <- !app_assoc.
    replace 8%nat with (length (be_bytes 4 ivPrefix ++ be_bytes 4 (N.of_nat (length d))))
      by (rewrite !app_length, !be_bytes_length; lia).
    rewrite app_assoc, skipn_app_le by lia. rewrite skipn_all2 by lia. cbn [app].
    rewrite firstn_app_le by lia. rewrite firstn_all2 by lia. reflexivity.
  Qed.

  Theorem kwp_unwrap_wrap d : 16 <= N.of_nat (length d) <= 8192 ->
    exists c, kwp_wrap E d = Ok c /\ kwp_unwrap D c = Ok d /\ length c = wrappingSize (length d).
  Proof.
    intros Hd. exists (wrap_rfc5649 E d). split; [apply kwp_wrap_rfc5649; exact Hd|].
    split; [apply kwp_unwrap_wrap_rfc; lia|].
    unfold wrap_rfc5649. destruct (pad_arith (length d)) as [P1 [P2 [P3 P4]]].
    set (pad := ((8 - length d mod 8) mod 8)%nat) in *.
    rewrite W_rfc3394_length.
    - rewrite blocks8_length, app_length, zeros_length.
      pose proof (Nat.div_mod (length d + pad) 8 ltac:(lia)). lia.
    - rewrite app_length, !be_bytes_length. reflexivity.
    - apply blocks8_ok. rewrite app_length, zeros_length.
      pose proof (Nat.div_mod (length d + pad) 8 ltac:(lia)). lia.
  Qed.
End KwpThms.

(* ---------- Unwrap accepts exactly RFC 5649 wrappings ---------- *)
Lemma wfb_concat rs : Forall wfb rs -> wfb (concat rs).
Proof. induction 1; cbn [concat]; [constructor|]. apply wfb_app. auto. Qed.

Lemma firstn_firstn_skipn {A} a b (l : list A) : firstn a l ++ firstn b (skipn a l) = firstn (a + b) l.
Proof.
  revert l; induction a as [|a IH]; intros l; [reflexivity|].
  destruct l; cbn [firstn skipn Nat.add app]; [destruct b; reflexivity|]. f_equal. apply IH.
Qed.

Section KwpExact.
  Variable E D : bytes -> bytes.
  Hypothesis E_len : forall b, length b = 16%nat -> length (E b) = 16%nat.
  Hypothesis D_len : forall b, length b = 16%nat -> length (D b) = 16%nat.
  Hypothesis DE : forall b, length b = 16%nat -> D (E b) = b.
  Hypothesis ED : forall b, length b = 16%nat -> E (D b) = b.
  Hypothesis D_wf : forall b, wfb b -> wfb (D b).

  Lemma xor_ctr_wf A t : wfb A -> wfb (xor_ctr A t).
  Proof.
    intros H. unfold xor_ctr. apply wfb_app. split; [apply wfb_firstn; exact H|].
    apply xorb_wf; [apply wfb_skipn; exact H|apply be_bytes_wf].
  Qed.

  Lemma unwrap_pass_wf i n : forall rs A, wfb A -> Forall wfb rs ->
    wfb (fst (unwrap_pass D i n A rs)) /\ Forall wfb (snd (unwrap_pass D i n A rs)).
  Proof.
    induction rs as [|r rs IH]; intros A HA Hrs.
    - cbn. split; [exact HA|constructor].
    - inversion Hrs; subst. cbn [unwrap_pass]. set (b := D _).
      assert (Wb : wfb b).
      { unfold b. apply D_wf. apply wfb_app. split; [apply xor_ctr_wf; exact HA|assumption]. }
      specialize (IH (firstn 8 b) (wfb_firstn 8 b Wb) ltac:(assumption)).
      destruct (unwrap_pass D i n (firstn 8 b) rs) as [A' out]. cbn [fst snd] in *.
      destruct IH as [I1 I2]. split; [exact I1|]. constructor; [|exact I2].
      apply wfb_skipn. exact Wb.
  Qed.

  Lemma unwrap_rounds_wf n : forall k A rs, wfb A -> Forall wfb rs ->
    wfb (fst (unwrap_rounds D k n A rs)) /\ Forall wfb (snd (unwrap_rounds D k n A rs)).
  Proof.
    induction k as [|k IH]; intros A rs HA Hrs; [cbn; auto|].
    cbn [unwrap_rounds].
    pose proof (unwrap_pass_wf k n rs A HA Hrs) as [W1 W2].
    destruct (unwrap_pass D k n A rs) as [A' rs']. apply IH; assumption.
  Qed.

  Lemma blocks8_wf n : forall b, wfb b -> Forall wfb (blocks8 n b).
  Proof.
    induction n as [|n IH]; intros b H; cbn [blocks8]; constructor.
    - apply wfb_firstn. exact H.
    - apply IH. apply wfb_skipn. exact H.
  Qed.

  Lemma invertW_wf c u : wfb c -> invertW D c = Ok u -> wfb u.
  Proof.
    intros Wc. unfold invertW. destruct (_ || _)%bool; [discriminate|].
    set (n := (length c / 8 - 1)%nat).
    pose proof (unwrap_rounds_wf n roundCount (firstn 8 c) (rev (blocks8 n (skipn 8 c)))
                  (wfb_firstn 8 c Wc) (Forall_rev (blocks8_wf n _ (wfb_skipn 8 c Wc)))) as [W1 W2].
    destruct (unwrap_rounds D roundCount n (firstn 8 c) _) as [A rs]. cbn [fst snd] in *.
    intros Hu. inversion Hu; subst. apply wfb_app. split; [exact W1|].
    apply wfb_concat. apply Forall_rev. exact W2.
  Qed.

  Lemma be4_of_val p : wfb p -> length p = 4%nat -> p = be_bytes 4 (be_val p).
  Proof. intros W L. rewrite <- L. symmetry. apply be_bytes_be_val. exact W. Qed.

  Lemma be_val_lt4 p : wfb p -> length p = 4%nat -> be_val p < 2 ^ 32.
  Proof.
    intros W L. rewrite be_val_bev. pose proof (bev_lt p W) as H. rewrite L in H. exact H.
  Qed.

  Theorem kwp_unwrap_only_wrappings c d : wfb c -> kwp_unwrap D c = Ok d ->
    9 <= N.of_nat (length d) <= 8192 /\ c = wrap_rfc5649 E d.
  Proof.
    intros Wc H.
    destruct (N.lt_ge_cases (N.of_nat (length c)) 24) as [C1|C1];
      [rewrite (kwp_unwrap_size_limits D) in H by (left; exact C1); discriminate|].
    destruct (N.lt_ge_cases 8200 (N.of_nat (length c))) as [C2|C2];
      [rewrite (kwp_unwrap_size_limits D) in H by (right; left; exact C2); discriminate|].
    destruct (Nat.eq_dec (length c mod 8) 0) as [C3|C3];
      [|rewrite (kwp_unwrap_size_limits D) in H by (right; right; exact C3); discriminate].
    pose proof (Nat.div_mod (length c) 8 ltac:(lia)) as Hdm.
    destruct (invertW_inv E D E_len D_len DE ED c ltac:(lia) C3 ltac:(lia))
      as [A [rs [HI [HA [Hrs [Hn HW]]]]]].
    set (u := A ++ concat rs) in *.
    assert (Hu : length u = length c)
      by (unfold u; rewrite app_length, concat_length_blocks by assumption; unfold bytes in *; lia).
    assert (Wu : wfb u) by (apply (invertW_wf c u); [exact Wc|exact HI]).
    rewrite (kwp_unwrap_eq D c ltac:(lia) C3 u HI Hu) in H.
    unfold unwrap_checks in H.
    destruct (negb (N.eqb (be_val (firstn 4 u)) ivPrefix)) eqn:K1; [discriminate|].
    destruct (negb (N.eqb (wrappingSizeN _) _)) eqn:K2; [discriminate|].
    destruct (negb (all_zero _)) eqn:K3; [discriminate|].
    apply negb_false_iff, N.eqb_eq in K1. apply negb_false_iff, N.eqb_eq in K2.
    apply negb_false_iff in K3.
    set (l4 := firstn 4 (skipn 4 u)) in *.
    assert (L1 : length (firstn 4 u) = 4%nat) by (rewrite firstn_length; lia).
    assert (L2 : length l4 = 4%nat) by (unfold l4; rewrite firstn_length, skipn_length; lia).
    pose proof (be4_of_val _ (wfb_firstn 4 u Wu) L1) as Q1. rewrite K1 in Q1.
    pose proof (be4_of_val l4 (wfb_firstn 4 _ (wfb_skipn 4 u Wu)) L2) as Q2.
    pose proof (be_val_lt4 l4 (wfb_firstn 4 _ (wfb_skipn 4 u Wu)) L2) as Q3.
    set (e := N.to_nat (be_val l4)) in *.
    assert (He : be_val l4 = N.of_nat e) by (unfold e; lia).
    rewrite He in K2, Q2. rewrite wrappingSizeN_nat in K2.
    assert (Hws : wrappingSize e = length u) by lia.
    destruct (pad_arith e) as [P1 [P2 [P3 P4]]].
    set (pad := ((8 - e mod 8) mod 8)%nat) in *.
    assert (Hd : firstn e (skipn 8 u) = d) by congruence.
    assert (Hdl : length d = e) by (rewrite <- Hd, firstn_length, skipn_length; lia).
    (* the decomposition of u *)
    apply all_zero_zeros in K3. rewrite skipn_length in K3.
    replace (length u - (8 + e))%nat with pad in K3 by lia.
    assert (Hsk : skipn 8 u = d ++ zeros pad).
    { rewrite <- (firstn_skipn e (skipn 8 u)). rewrite Hd. f_equal.
      rewrite skipn_skipn_add. replace (8 + e)%nat with (8 + e)%nat by lia. exact K3. }
    assert (Hf8 : firstn 8 u = aiv (length d)).
    { change 8%nat with (4 + 4)%nat. rewrite <- firstn_firstn_skipn. fold l4.
      rewrite Q1 at 1. rewrite Q2 at 1. unfold aiv. rewrite Hdl. reflexivity. }
    assert (HAu : A = firstn 8 u) by (unfold u; rewrite firstn_app_le, firstn_all2 by lia; reflexivity).
    assert (Hcu : concat rs = skipn 8 u)
      by (unfold u; rewrite skipn_app_le, skipn_all2 by lia; reflexivity).
    split.
    - pose proof (wrappingSize_formula e) as F.
      pose proof (Nat.div_mod (e + 7) 8 ltac:(lia)).
      pose proof (Nat.mod_upper_bound (e + 7) 8 ltac:(lia)). lia.
    - assert (HA' : A = aiv (length d)) by congruence.
      assert (Hc' : concat rs = d ++ zeros pad) by congruence.
      rewrite <- HW. unfold wrap_rfc5649. fold (aiv (length d)). rewrite <- HA'.
      replace ((8 - length d mod 8) mod 8)%nat with pad by (unfold pad; rewrite Hdl; reflexivity).
      rewrite <- Hc'.
      rewrite concat_length_blocks by assumption.
      rewrite (Nat.mul_comm 8), Nat.div_mul by lia.
      rewrite blocks8_concat by assumption. reflexivity.
  Qed.

  Theorem kwp_unwrap_exact c d : wfb c ->
    (kwp_unwrap D c = Ok d <-> (9 <= N.of_nat (length d) <= 8192 /\ c = wrap_rfc5649 E d)).
  Proof.
    intros Wc. split; [apply kwp_unwrap_only_wrappings; exact Wc|].
    intros [Hd ->]. apply (kwp_unwrap_wrap_rfc E D); assumption.
  Qed.

  Theorem kwp_exact_acceptance c d : wfb c -> 16 <= N.of_nat (length d) ->
    (kwp_unwrap D c = Ok d <-> kwp_wrap E d = Ok c).
  Proof.
    intros Wc H16. split.
    - intros H. apply kwp_unwrap_only_wrappings in H; [|exact Wc].
      destruct H as [Hd ->]. apply (kwp_wrap_rfc5649 E E_len). lia.
    - intros Hw. destruct (N.lt_ge_cases 8192 (N.of_nat (length d))) as [C|C].
      + rewrite (kwp_wrap_size_limits E) in Hw by (right; exact C). discriminate.
      + rewrite (kwp_wrap_rfc5649 E E_len) in Hw by lia. inversion Hw.
        apply (kwp_unwrap_wrap_rfc E D); auto. lia.
  Qed.

  Theorem kwp_unwrap_no_panic c : kwp_unwrap D c <> Panic.
  Proof.
    destruct (N.lt_ge_cases (N.of_nat (length c)) 24) as [C1|C1];
      [rewrite (kwp_unwrap_size_limits D) by (left; exact C1); discriminate|].
    destruct (N.lt_ge_cases 8200 (N.of_nat (length c))) as [C2|C2];
      [rewrite (kwp_unwrap_size_limits D) by (right; left; exact C2); discriminate|].
    destruct (Nat.eq_dec (length c mod 8) 0) as [C3|C3];
      [|rewrite (kwp_unwrap_size_limits D) by (right; right; exact C3); discriminate].
    pose proof (Nat.div_mod (length c) 8 ltac:(lia)) as Hdm.
    destruct (invertW_inv E D E_len D_len DE ED c ltac:(lia) C3 ltac:(lia))
      as [A [rs [HI [HA [Hrs [Hn HW]]]]]].
    rewrite (kwp_unwrap_eq D c ltac:(lia) C3 _ HI
               ltac:(rewrite app_length, concat_length_blocks by assumption; unfold bytes in *; lia)).
    unfold unwrap_checks.
    destruct (negb _); [discriminate|]. destruct (negb _); [discriminate|].
    destruct (negb _); discriminate.
  Qed.

  Theorem kwp_rejects_non_wrappings c : wfb c ->
    (forall d, 9 <= N.of_nat (length d) <= 8192 -> c <> wrap_rfc5649 E d) -> kwp_unwrap D c = Err.
  Proof.
    intros Wc Hn. destruct (kwp_unwrap D c) as [d| |] eqn:Hu; [|reflexivity|].
    - apply kwp_unwrap_only_wrappings in Hu; [|exact Wc]. destruct Hu as [Hd Hc].
      destruct (Hn d Hd Hc).
    - destruct (kwp_unwrap_no_panic c Hu).
  Qed.
End KwpExact.
