(* The implementation model computes FIPS 205 Algorithms 18, 19, 20 (and 22 /
   24 with the key formats of section 9.1) as transcribed in
   model/SlhdsaFips.v, for every parameter record satisfying fips_wf, every
   family of the six functions, and ALL inputs (no length premises). *)
From Coq Require Import List NArith Bool Arith Lia ZifyN ZifyNat ZifyBool.
From Tink Require Import Bytes SlhdsaSupport SlhdsaAddr SlhdsaBase SlhdsaWots SlhdsaXmss SlhdsaFors SlhdsaHt Slhdsa
  SlhdsaSpec SlhdsaListProofs SlhdsaSupportProofs SlhdsaWotsProofs SlhdsaXmssProofs SlhdsaForsProofs SlhdsaHtProofs
  SlhdsaProofs SlhdsaFipsSupport SlhdsaFipsLayers.
From Tink Require SlhdsaFips.
Import ListNotations.
Open Scope N_scope.

Lemma mod_pw_mod y e k : (k <= e)%nat -> (y mod pw e) mod pw k = y mod pw k.
Proof.
  intros H. replace e with (k + (e - k))%nat by lia. rewrite pw_add.
  pose proof (pw_pos k). pose proof (pw_pos (e - k)).
  rewrite N.mod_mul_r by lia. rewrite (N.mul_comm (pw k)), N.mod_add by lia. apply N.mod_mod. lia.
Qed.

Section TOP.
  Variable P : params.
  Variable HS : hashes.
  Variable HF : F.fips_hashes.
  Hypothesis AG : hashes_agree HS HF.
  Notation FP := (to_fips P).
  Notation n := (p_n P).
  Hypothesis WF : fips_wf P = true.

  (* ---------- lines 6-10 of Algorithm 19 / 8-12 of Algorithm 20 ---------- *)
  Lemma digest_parts_fips : forall digest, F.digest_parts FP digest = split_digest P digest.
  Proof.
    intros digest. destruct (fips_wf_spec P WF) as (Hh & Hd & H64 & H32 & _).
    unfold F.digest_parts, split_digest, md_len, tree_len, leaf_len. cbn [to_fips F.f_k F.f_a F.f_h F.f_d]. cbv zeta.
    assert (Hdiv : (p_h P / p_d P = p_hp P)%nat) by (rewrite Hh; apply div_exact; exact Hd).
    assert (Hceil : F.ceil_div (p_h P) (8 * p_d P) = ((p_hp P + 7) / 8)%nat) by (rewrite Hh; apply ceil_div_scaled; exact Hd).
    rewrite !Hdiv, !Hceil.
    rewrite !ceil_div_8.
    set (r := ((p_k P * p_a P + 7) / 8)%nat). set (s := ((p_h P - p_hp P + 7) / 8)%nat). set (t := ((p_hp P + 7) / 8)%nat).
    rewrite sl_0. unfold F.sl.
    replace (r + s - r)%nat with s by lia. replace (r + s + t - (r + s))%nat with t by lia.
    f_equal; [f_equal|].
    - (* idx_tree *)
      rewrite toInt_fips. change (2 ^ 64) with (pw 64). fold (pw (p_h P - p_hp P)).
      destruct (Nat.eqb_spec (p_h P - p_hp P) 64) as [E|E].
      + rewrite E. reflexivity.
      + rewrite N.land_ones. fold (pw (p_h P - p_hp P)). symmetry. apply mod_pw_mod. exact H64.
    - (* idx_leaf *)
      rewrite toInt_fips, N.land_ones. change (2 ^ 64) with (pw 64). fold (pw (p_hp P)).
      unfold u32. change 4294967296 with (pw 32).
      rewrite (mod_pw_mod _ 64 32) by lia. symmetry. apply mod_pw_mod. exact H32.
  Qed.

  Lemma split_tree_lt64 : forall digest md it il, split_digest P digest = (md, it, il) -> it < 2 ^ 64.
  Proof.
    intros digest md it il E. destruct (fips_wf_spec P WF) as (_ & _ & H64 & _).
    eapply N.lt_le_trans; [exact (split_digest_tree_lt P _ _ _ _ E)|]. apply N.pow_le_mono_r; lia.
  Qed.

  Lemma split_leaf_lt32 : forall digest md it il, split_digest P digest = (md, it, il) -> il < 2 ^ 32.
  Proof.
    intros digest md it il E. destruct (fips_wf_spec P WF) as (_ & _ & _ & H32 & _).
    eapply N.lt_le_trans; [exact (split_digest_leaf_lt P _ _ _ _ E)|]. apply N.pow_le_mono_r; lia.
  Qed.

  (* the FORS address of Algorithms 19 / 20 (lines 11-13 / 13-15) *)
  Lemma fors_adrs_fips it il : it < 2 ^ 64 ->
    F.setKeyPairAddress il (F.setTypeAndClear F.FORS_TREE (F.setTreeAddress it (F.toByte 0 32)))
    = adrs_bytes (mkA 0 it T_FORSTREE il 0 0).
  Proof. intros H. rewrite AB_zero, AB_setTree by exact H. radrs. reflexivity. Qed.

  (* ---------- Algorithm 19 ---------- *)
  Theorem signInternal_fips : forall skSeed skPrf pkSeed pkRoot msg addrnd,
    signInternal P HS skSeed skPrf pkSeed pkRoot msg addrnd
    = F.slh_sign_internal FP HF msg (skSeed, skPrf, pkSeed, pkRoot) addrnd.
  Proof.
    intros. unfold signInternal, F.slh_sign_internal. cbv zeta.
    rewrite (ag_PrfMsg _ _ AG), (ag_HMsg _ _ AG).
    set (R := F.PRF_msg HF skPrf addrnd msg).
    rewrite digest_parts_fips.
    destruct (split_digest P (F.H_msg HF R pkSeed pkRoot msg)) as [[md it] il] eqn:Esd.
    pose proof (split_tree_lt64 _ _ _ _ Esd) as Hit. pose proof (split_leaf_lt32 _ _ _ _ Esd) as Hil.
    rewrite fors_adrs_fips by exact Hit.
    rewrite (fors_sign_fips P HS HF AG WF), (fors_pkFromSig_fips P HS HF AG WF), (ht_sign_fips P HS HF AG WF) by assumption.
    destruct (forsSign_spec P HS md skSeed pkSeed (forsAdrs it il) eq_refl) as [A B].
    destruct (forsSign P HS md skSeed pkSeed (forsAdrs it il)) as [sigFors ad1]. cbn [fst snd] in A, B.
    assert (Ht1 : a_typ ad1 = T_FORSTREE) by (unfold eq23 in B; simpl in B; intuition congruence).
    destruct (forsPkFromSig_spec P HS sigFors md pkSeed ad1 Ht1) as [A1 B1].
    destruct (forsPkFromSig P HS sigFors md pkSeed ad1) as [pkFors ad2]. cbn [fst snd] in A1.
    rewrite htSign_spec. subst pkFors sigFors.
    destruct B as (b1 & b2 & b3 & b4). rewrite b1, b2, b4, <- app_assoc. reflexivity.
  Qed.

  (* ---------- Algorithm 20 ---------- *)
  Lemma sig_len_fips : F.f_sig_bytes FP = sig_len P.
  Proof.
    destruct (fips_wf_spec P WF) as (_ & _ & _ & _ & Hl & _).
    unfold F.f_sig_bytes, sig_len. rewrite f_len_eq by exact Hl. reflexivity.
  Qed.

  Theorem verifyInternal_fips_alg20 : forall pkSeed pkRoot msg sig,
    verifyInternal P HS pkSeed pkRoot msg sig = F.slh_verify_internal FP HF msg sig (pkSeed, pkRoot).
  Proof.
    intros. rewrite verifyInternal_fips. unfold verifyInternalS, F.slh_verify_internal.
    rewrite sig_len_fips.
    destruct (Nat.eqb_spec (length sig) (sig_len P)) as [Hlen|Hlen]; [cbn [negb]|reflexivity].
    cbn [to_fips F.f_n F.f_k F.f_a F.f_h F.f_d]. cbv zeta.
    rewrite (ag_HMsg _ _ AG), sl_0, digest_parts_fips.
    destruct (split_digest P (F.H_msg HF (firstn n sig) pkSeed pkRoot msg)) as [[md it] il] eqn:Esd.
    pose proof (split_tree_lt64 _ _ _ _ Esd) as Hit. pose proof (split_leaf_lt32 _ _ _ _ Esd) as Hil.
    rewrite fors_adrs_fips by exact Hit.
    rewrite (fors_pkFromSig_fips P HS HF AG WF), (ht_verify_fips P HS HF AG WF) by assumption.
    destruct (fips_wf_spec P WF) as (_ & _ & _ & _ & Hl & _).
    rewrite f_len_eq by exact Hl.
    unfold F.sl. f_equal.
    (* getSIG_HT takes everything after R and SIG_FORS *)
    rewrite firstn_all2; [reflexivity|]. rewrite skipn_length, Hlen. unfold sig_len. lia.
  Qed.

  (* ---------- Algorithm 18 ---------- *)
  Theorem keygen_fips : forall skSeed skPrf pkSeed,
    F.slh_keygen_internal FP HF skSeed skPrf pkSeed
    = ((skSeed, skPrf, pkSeed, keygenRoot P HS skSeed pkSeed), (pkSeed, keygenRoot P HS skSeed pkSeed)).
  Proof.
    intros. unfold F.slh_keygen_internal, keygenRoot. cbn [to_fips F.f_d F.f_hp]. cbv zeta.
    rewrite AB_zero, AB_setLayer, (xmss_node_fips P HS HF AG WF).
    rewrite (proj1 (xmssNode_spec _ _ _ _ _ _ _)). reflexivity.
  Qed.

  (* the encoded secret key is the encoding (section 9.1) of Algorithm 18's secret key *)
  Corollary keygen_encoded_fips : forall skSeed skPrf pkSeed,
    keygen P HS skSeed skPrf pkSeed = F.sk_encode (fst (F.slh_keygen_internal FP HF skSeed skPrf pkSeed)).
  Proof. intros. rewrite keygen_fips. reflexivity. Qed.

  (* ---------- Algorithms 22 and 24, keys decoded as in section 9.1 ---------- *)
  Lemma wrap_msg_fips : forall msg ctx, (length ctx <= 255)%nat ->
    wrap_msg msg ctx = F.toByte 0 1 ++ F.toByte (N.of_nat (length ctx)) 1 ++ ctx ++ msg.
  Proof.
    intros msg ctx H. unfold wrap_msg. rewrite !toByte_be. unfold be_bytes. cbn [le_bytes rev app].
    rewrite (N.mod_small (N.of_nat (length ctx))) by lia. reflexivity.
  Qed.

  Theorem sign_fips : forall sk msg ctx addrnd,
    sign P HS sk msg ctx addrnd
    = match F.sk_decode FP sk with
      | Some SK => F.slh_sign FP HF msg ctx SK addrnd
      | None => None
      end.
  Proof.
    intros. unfold sign, F.sk_decode, F.slh_sign. cbn [to_fips F.f_n].
    destruct (Nat.eqb_spec (length sk) (4 * n)) as [Hl|Hl]; [cbn [negb]|reflexivity].
    destruct (Nat.ltb_spec 255 (length ctx)) as [Hc|Hc]; [reflexivity|].
    rewrite signInternal_fips, <- wrap_msg_fips by lia. rewrite sl_0. unfold F.sl.
    replace (2 * n - n)%nat with n by lia. replace (3 * n - 2 * n)%nat with n by lia.
    replace (4 * n - 3 * n)%nat with n by lia. reflexivity.
  Qed.

  Theorem verify_fips : forall pk msg sig ctx,
    verify P HS pk msg sig ctx
    = match F.pk_decode FP pk with
      | Some PK => Some (F.slh_verify FP HF msg sig ctx PK)
      | None => None
      end.
  Proof.
    intros. unfold verify, F.pk_decode, F.slh_verify. cbn [to_fips F.f_n].
    destruct (Nat.eqb_spec (length pk) (2 * n)) as [Hl|Hl]; [cbn [negb]|reflexivity].
    destruct (Nat.ltb_spec 255 (length ctx)) as [Hc|Hc]; [reflexivity|].
    rewrite verifyInternal_fips_alg20, <- wrap_msg_fips by lia. rewrite sl_0. unfold F.sl.
    replace (2 * n - n)%nat with n by lia.
    rewrite (firstn_all2 (skipn n pk)) by (rewrite skipn_length; lia). reflexivity.
  Qed.
End TOP.
