(* The kernels of model/MldsaKernels.v equal the regenerated Go kernels on
   EVERY argument (canonical or not): on canonical arguments by the lead's
   theorems about the generated code, elsewhere by definition. *)
From Coq Require Import ZArith Lia Bool.
From Tink Require Import Wrap MldsaScalar MldsaScalarProofs MldsaScalarProofs2 MldsaKernels.
Open Scope Z_scope.

Lemma in_q_iff a : in_q a = true <-> 0 <= a < q.
Proof. unfold in_q, q, mldsa_q. rewrite andb_true_iff, Z.leb_le, Z.ltb_lt. tauto. Qed.

Lemma valid_g_iff g : valid_g g = true <-> valid_gamma2 g.
Proof. unfold valid_g, valid_gamma2. rewrite orb_true_iff, !Z.eqb_eq. tauto. Qed.

Ltac split_range :=
  repeat match goal with
  | |- context [in_q ?a] =>
      let E := fresh "R" in destruct (in_q a) eqn:E; [apply in_q_iff in E | ]
  | |- context [valid_g ?g] =>
      let E := fresh "G" in destruct (valid_g g) eqn:E; [apply valid_g_iff in E | ]
  end; cbn [andb]; try reflexivity.

Theorem k_add_eq a b : k_add a b = mldsa_rZq_add a b.
Proof.
  unfold k_add. split_range. rewrite add_spec by auto. unfold q, mldsa_q in *.
  destruct (a + b <? 8380417) eqn:E; [apply Z.ltb_lt in E | apply Z.ltb_ge in E].
  - rewrite Z.mod_small; lia.
  - apply Z.mod_unique with 1; lia.
Qed.

Theorem k_sub_eq a b : k_sub a b = mldsa_rZq_sub a b.
Proof.
  unfold k_sub. split_range. rewrite sub_spec by auto. unfold q, mldsa_q in *.
  destruct (a - b <? 0) eqn:E; [apply Z.ltb_lt in E | apply Z.ltb_ge in E].
  - apply Z.mod_unique with (-1); lia.
  - rewrite Z.mod_small; lia.
Qed.

Theorem k_neg_eq a : k_neg a = mldsa_rZq_neg a.
Proof.
  unfold k_neg. split_range. rewrite neg_spec by auto. unfold q, mldsa_q in *.
  destruct (a =? 0) eqn:E; [apply Z.eqb_eq in E | apply Z.eqb_neq in E].
  - subst. reflexivity.
  - apply Z.mod_unique with (-1); lia.
Qed.

Theorem k_mul_eq a b : k_mul a b = mldsa_rZq_mul a b.
Proof. unfold k_mul. split_range. rewrite mul_spec by auto. reflexivity. Qed.

Lemma k_cmod_eq m a : k_cmod m a = cmod m a.
Proof. reflexivity. Qed.

Theorem k_power2Round_eq a : k_power2Round a = mldsa_rZq_power2Round a.
Proof. unfold k_power2Round. split_range. rewrite power2Round_spec by auto. reflexivity. Qed.

Theorem k_decompose_eq a g : k_decompose a g = mldsa_rZq_decompose a g.
Proof.
  unfold k_decompose. split_range. rewrite decompose_ok by auto.
  unfold decompose_spec. change k_qm1 with (q - 1). rewrite k_cmod_eq.
  destruct (a - cmod a (2 * g) =? q - 1); reflexivity.
Qed.

Theorem k_highBits_eq a g : k_highBits a g = mldsa_rZq_highBits a g.
Proof. unfold k_highBits, mldsa_rZq_highBits. rewrite k_decompose_eq. reflexivity. Qed.

Theorem k_lowBits_eq a g : k_lowBits a g = mldsa_rZq_lowBits a g.
Proof. unfold k_lowBits, mldsa_rZq_lowBits. rewrite k_decompose_eq. reflexivity. Qed.

Theorem k_makeHint_eq a g r : k_makeHint a g r = mldsa_rZq_makeHint a g r.
Proof.
  unfold k_makeHint, mldsa_rZq_makeHint. rewrite !k_highBits_eq, k_add_eq. reflexivity.
Qed.

Theorem k_useHint_eq a g h : k_useHint a g h = mldsa_rZq_useHint a g h.
Proof.
  unfold k_useHint. split_range. rewrite useHint_ok by auto.
  unfold useHint_spec. change k_qm1 with (q - 1). rewrite k_cmod_eq.
  destruct (a - cmod a (2 * g) =? q - 1); reflexivity.
Qed.

Theorem k_centeredAbs_eq a : k_centeredAbs a = mldsa_rZq_centeredAbs a.
Proof.
  unfold k_centeredAbs. split_range. rewrite centeredAbs_spec by auto.
  unfold cmod, k_qhalf, q, mldsa_q in *. rewrite (Z.mod_small a) by lia.
  change (8380417 / 2) with 4190208.
  destruct (a <=? 4190208) eqn:E; [apply Z.leb_le in E | apply Z.leb_gt in E]; lia.
Qed.

Theorem k_centeredMax_eq a b : k_centeredMax a b = mldsa_rZq_centeredMax a b.
Proof.
  unfold k_centeredMax. split_range. rewrite centeredMax_spec by auto.
  rewrite !k_centeredAbs_eq, !centeredAbs_spec by auto. reflexivity.
Qed.

Theorem k_scalePower2_eq a : k_scalePower2 a = mldsa_rZq_scalePower2 a.
Proof. reflexivity. Qed.

(* closed forms on canonical arguments, for the proofs about polynomials *)
Lemma k_add_spec a b : 0 <= a < q -> 0 <= b < q -> k_add a b = (a + b) mod q.
Proof. intros. rewrite k_add_eq. apply add_spec; auto. Qed.
Lemma k_sub_spec a b : 0 <= a < q -> 0 <= b < q -> k_sub a b = (a - b) mod q.
Proof. intros. rewrite k_sub_eq. apply sub_spec; auto. Qed.
Lemma k_mul_spec a b : 0 <= a < q -> 0 <= b < q -> k_mul a b = (a * b) mod q.
Proof. intros. rewrite k_mul_eq. apply mul_spec; auto. Qed.
Lemma k_neg_spec a : 0 <= a < q -> k_neg a = (- a) mod q.
Proof. intros. rewrite k_neg_eq. apply neg_spec; auto. Qed.
