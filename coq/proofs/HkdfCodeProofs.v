(* golang.org/x/crypto/hkdf as coded (model/HkdfCode.v: the stateful reader with
   its byte counter, previous block and buffer of unread bytes, over
   crypto/hmac as coded) = RFC 5869 (model/Hkdf.v) for every schedule of read
   sizes, including failing reads (which leave the reader unchanged); Tink's
   callers. *)
From Coq Require Import List NArith Bool Arith Lia ZifyBool ZifyNat ZifyN.
From Tink Require Import Bytes Hmac Hkdf HmacCode HkdfCode HmacProofs HkdfProofs HmacCodeProofs.
Import ListNotations.
Open Scope N_scope.

(* what a client of an RFC 5869 output stream observes when it reads with the
   given sizes: a read beyond the end of the stream fails and consumes nothing *)
Fixpoint spec_reads (stream : bytes) (pos : nat) (sizes : list nat) : list (option bytes) :=
  match sizes with
  | [] => []
  | n :: t =>
      if Nat.ltb (length stream) (pos + n) then None :: spec_reads stream pos t
      else Some (firstn n (skipn pos stream)) :: spec_reads stream (pos + n) t
  end.

Lemma skipn_skipn {A} : forall m n (l : list A), skipn n (skipn m l) = skipn (m + n) l.
Proof.
  induction m as [|m IH]; intros n l; [reflexivity|].
  destruct l as [|x l]; [rewrite !skipn_nil; reflexivity|]. cbn [skipn Nat.add]. apply IH.
Qed.

Lemma counter_remaining (c : nat) : (c <= 255)%nat ->
  N.to_nat (byte_add (byte_sub 255 (N.of_nat ((c + 1) mod 256))) 1) = (255 - c)%nat.
Proof.
  intros Hc. destruct (Nat.eq_dec c 255) as [->|Hne]; [reflexivity|].
  rewrite Nat.mod_small by lia. unfold byte_add, byte_sub.
  assert (E1 : (255 + 256 - N.of_nat (c + 1)) mod 256 = 254 - N.of_nat c).
  { replace (255 + 256 - N.of_nat (c + 1)) with ((254 - N.of_nat c) + 1 * 256) by lia.
    rewrite N.mod_add by lia. apply N.mod_small. lia. }
  rewrite E1. rewrite N.mod_small by lia. lia.
Qed.

Lemma counter_next (c : nat) : (c < 255)%nat ->
  byte_add (N.of_nat ((c + 1) mod 256)) 1 = N.of_nat ((Datatypes.S c + 1) mod 256).
Proof.
  intros Hc. unfold byte_add. rewrite Nat.mod_small by lia.
  destruct (Nat.eq_dec c 254) as [->|Hne]; [reflexivity|].
  rewrite Nat.mod_small by lia. rewrite N.mod_small by lia. lia.
Qed.

Section P.
  Variable St : Type.
  Variable h_init : St.
  Variable h_write : St -> bytes -> St.
  Variable h_sum : St -> bytes.
  Variable B : nat.
  Variable marshalable : bool.
  Variable H : bytes -> bytes.
  Variable HL : nat.
  Hypothesis stream_law :
    forall chunks, h_sum (fold_left h_write chunks h_init) = H (concat chunks).
  Hypothesis H_len : forall x, length (H x) = HL.
  Hypothesis HL_pos : (0 < HL)%nat.

  Notation reader := (reader St).
  Notation rd_fill := (rd_fill St h_init h_write h_sum marshalable).
  Notation rd_read := (rd_read St h_init h_write h_sum marshalable).
  Notation rd_reads := (rd_reads St h_init h_write h_sum marshalable).
  Notation read_full := (read_full St h_init h_write h_sum marshalable).
  Notation hm_inv := (hm_inv St h_init h_write B H).

  Lemma rd_fill_zero fuel f out n : rd_fill fuel f 0%nat out n = (f, out, n).
  Proof. destruct fuel; reflexivity. Qed.

  Section Expand.
    Variables prk info : bytes.

    (* T(0) = empty, T(c) = HMAC(PRK, T(c-1) | info | c) *)
    Fixpoint T (c : nat) : bytes :=
      match c with
      | O => []
      | Datatypes.S c' => hmac H B prk (T c' ++ info ++ [N.of_nat (Datatypes.S c')])
      end.

    (* T(c+1) | ... | T(c+n) *)
    Definition seg (c n : nat) : bytes := hkdf_blocks H B prk info (T c) (N.of_nat c + 1) n.

    Lemma seg_S c n : seg c (Datatypes.S n) = T (Datatypes.S c) ++ seg (Datatypes.S c) n.
    Proof.
      unfold seg. cbn [hkdf_blocks T].
      replace (N.of_nat c + 1) with (N.of_nat (Datatypes.S c)) by lia. reflexivity.
    Qed.

    Lemma T_length c : (0 < c)%nat -> length (T c) = HL.
    Proof. destruct c; [lia|]. intros _. cbn [T]. unfold hmac. apply H_len. Qed.

    Lemma seg_length c n : length (seg c n) = (n * HL)%nat.
    Proof. unfold seg. apply (hkdf_blocks_length H B HL H_len). Qed.

    Lemma seg_app : forall n c m, seg c (n + m) = seg c n ++ seg (c + n) m.
    Proof.
      induction n as [|n IH]; intros c m.
      - cbn [Nat.add]. rewrite Nat.add_0_r. reflexivity.
      - cbn [Nat.add]. rewrite !seg_S, IH, <- app_assoc.
        replace (Datatypes.S c + n)%nat with (c + Datatypes.S n)%nat by lia. reflexivity.
    Qed.

    Lemma seg_last c n : seg c (n + 1) = seg c n ++ T (c + n + 1).
    Proof.
      rewrite seg_app. f_equal. rewrite seg_S. unfold seg at 1. cbn [hkdf_blocks].
      rewrite app_nil_r. f_equal. lia.
    Qed.

    Definition stream : bytes := hkdf_blocks H B prk info [] 1 255.

    Lemma stream_seg : stream = seg 0 255.
    Proof. reflexivity. Qed.

    Lemma stream_length : length stream = (255 * HL)%nat.
    Proof. rewrite stream_seg. apply seg_length. Qed.

    Lemma stream_split c : (c <= 255)%nat -> stream = seg 0 c ++ seg c (255 - c).
    Proof.
      intros Hc. rewrite stream_seg. replace 255%nat with (c + (255 - c))%nat at 1 by lia.
      rewrite seg_app. reflexivity.
    Qed.

    (* c blocks have been generated *)
    Definition core_inv (f : reader) (c : nat) : Prop :=
      (c <= 255)%nat /\ rd_counter St f = N.of_nat ((c + 1) mod 256) /\ rd_prev St f = T c /\
      rd_size St f = HL /\ rd_info St f = info /\
      exists data, hm_inv prk (rd_exp St f) data /\ (c = 0%nat -> data = []).

    Lemma fill_spec : forall fuel f rem out n c,
      core_inv f c -> (rem <= (255 - c) * HL)%nat -> (rem <= fuel)%nat -> (0 < rem)%nat ->
      exists f' n' c',
        rd_fill fuel f rem out n = (f', out ++ firstn rem (seg c (255 - c)), n') /\
        core_inv f' c' /\ rd_buf St f' = T c' /\ (c < c' <= 255)%nat /\
        ((c' - 1) * HL + n' = c * HL + rem)%nat /\ (0 < n' <= HL)%nat.
    Proof.
      induction fuel as [|fuel IH]; intros f rem out n c Hinv Hrem Hfuel Hpos; [lia|].
      destruct Hinv as (Hc & Hctr & Hprev & Hsize & Hinfo & data & Hexp & Hdata).
      assert (Hc255 : (c < 255)%nat) by nia.
      cbn [HkdfCode.rd_fill]. destruct (Nat.eqb_spec rem 0) as [|_]; [lia|].
      set (e0 := if (1 <? rd_counter St f) then _ else _).
      assert (He0 : hm_inv prk e0 []).
      { subst e0. rewrite Hctr. rewrite Nat.mod_small by lia.
        destruct (N.ltb_spec 1 (N.of_nat (c + 1))) as [Hlt|Hge].
        - eapply inv_reset; eauto.
        - assert (c = 0%nat) by lia. rewrite (Hdata H0) in Hexp. exact Hexp. }
      pose proof (inv_write St h_init h_write B H prk _ _ (rd_prev St f) He0) as He1.
      pose proof (inv_write St h_init h_write B H prk _ _ (rd_info St f) He1) as He2.
      pose proof (inv_write St h_init h_write B H prk _ _ [rd_counter St f] He2) as He3.
      destruct (inv_sum St h_init h_write h_sum B H stream_law prk _ _ (firstn 0 (rd_prev St f)) He3)
        as [Hsum Hinv4].
      set (r := HmacCode.hm_sum St h_init h_write h_sum _ _) in *.
      assert (Hblock : snd r = T (Datatypes.S c)).
      { rewrite Hsum. cbn [firstn app T]. rewrite Hprev, Hinfo, Hctr.
        rewrite Nat.mod_small by lia. rewrite <- !app_assoc.
        replace (c + 1)%nat with (Datatypes.S c) by lia. reflexivity. }
      rewrite Hblock.
      assert (HTl : length (T (Datatypes.S c)) = HL) by (apply T_length; lia).
      rewrite HTl.
      set (f1 := mkRd St (fst r) _ _ _ _ _).
      assert (Hinv1 : core_inv f1 (Datatypes.S c)).
      { subst f1. unfold core_inv. cbn [rd_counter rd_prev rd_size rd_info rd_exp].
        split; [lia|]. split; [rewrite Hctr; apply counter_next; exact Hc255|].
        split; [reflexivity|]. split; [exact Hsize|]. split; [exact Hinfo|].
        eexists. split; [exact Hinv4|]. discriminate. }
      assert (Hseg : seg c (255 - c) = T (Datatypes.S c) ++ seg (Datatypes.S c) (255 - Datatypes.S c)).
      { replace (255 - c)%nat with (Datatypes.S (255 - Datatypes.S c)) by lia. apply seg_S. }
      destruct (Nat.le_gt_cases rem HL) as [Hle|Hgt].
      - (* the last block of this Read *)
        rewrite Nat.min_l by lia. rewrite Nat.sub_diag, rd_fill_zero.
        exists f1, rem, (Datatypes.S c). split.
        + rewrite Hseg. rewrite firstn_app_le by lia. reflexivity.
        + split; [exact Hinv1|]. split; [reflexivity|]. split; [lia|]. split; [cbn; lia|lia].
      - rewrite Nat.min_r by lia. rewrite firstn_all2 by lia.
        assert (Hrem' : (rem - HL <= (255 - Datatypes.S c) * HL)%nat).
        { replace (255 - c)%nat with (Datatypes.S (255 - Datatypes.S c)) in Hrem by lia.
          cbn [Nat.mul] in Hrem. lia. }
        destruct (IH f1 (rem - HL)%nat (out ++ T (Datatypes.S c)) HL (Datatypes.S c) Hinv1)
          as (f' & n' & c' & Hrun & Hinv' & Hbuf' & Hcc & Hsum' & Hn'); [exact Hrem'|lia|lia|].
        exists f', n', c'. split.
        + rewrite Hrun. f_equal. f_equal. rewrite Hseg, <- app_assoc. f_equal.
          rewrite firstn_app, HTl. rewrite (firstn_all2 (T (Datatypes.S c))) by (rewrite HTl; lia). reflexivity.
        + split; [exact Hinv'|]. split; [exact Hbuf'|]. split; [lia|]. split; [nia|lia].
    Qed.

    (* pos bytes of the stream have been delivered *)
    Definition rd_inv (f : reader) (pos : nat) : Prop :=
      exists c, core_inv f c /\ (pos <= c * HL)%nat /\ rd_buf St f = skipn pos (seg 0 c).

    Lemma inv_expand : rd_inv (expand_code St h_init h_write h_sum B HL prk info) 0.
    Proof.
      exists 0%nat. split; [|split; [lia|reflexivity]].
      unfold core_inv, expand_code. cbn [rd_counter rd_prev rd_size rd_info rd_exp].
      split; [lia|]. split; [reflexivity|]. split; [reflexivity|]. split; [reflexivity|].
      split; [reflexivity|]. exists []. split; [|reflexivity]. apply inv_new. exact stream_law.
    Qed.

    Lemma read_spec f pos need : rd_inv f pos ->
      ((255 * HL < pos + need)%nat -> rd_read f need = (f, None)) /\
      ((pos + need <= 255 * HL)%nat ->
         exists f', rd_read f need = (f', Some (firstn need (skipn pos stream))) /\
                    rd_inv f' (pos + need)%nat).
    Proof.
      intros (c & Hinv & Hpos & Hbuf).
      pose proof Hinv as (Hc & Hctr & Hprev & Hsize & Hinfo & Hexp).
      assert (Hlen : length (rd_buf St f) = (c * HL - pos)%nat).
      { rewrite Hbuf, skipn_length, seg_length. reflexivity. }
      unfold HkdfCode.rd_read. rewrite Hctr, counter_remaining by exact Hc. rewrite Hsize, Hlen.
      split.
      - intros Hbig. destruct (Nat.ltb_spec (c * HL - pos + (255 - c) * HL) need) as [_|Hge]; [reflexivity|nia].
      - intros Hok. destruct (Nat.ltb_spec (c * HL - pos + (255 - c) * HL) need) as [Hlt|_]; [nia|].
        assert (Hsk : skipn pos stream = rd_buf St f ++ seg c (255 - c)).
        { rewrite (stream_split c Hc), skipn_app, seg_length, <- Hbuf.
          replace (pos - c * HL)%nat with 0%nat by lia. reflexivity. }
        destruct (Nat.le_gt_cases need (c * HL - pos)) as [Hle|Hgt].
        + (* served from the leftover *)
          rewrite Nat.min_l by lia. rewrite Nat.sub_diag. cbn [HkdfCode.rd_fill fst snd].
          eexists. split.
          * f_equal. f_equal. rewrite Hsk. rewrite firstn_app_le by lia. reflexivity.
          * exists c. split; [|split].
            -- unfold core_inv. cbn [rd_counter rd_prev rd_size rd_info rd_exp]. exact Hinv.
            -- lia.
            -- cbn [rd_buf]. rewrite Hbuf, skipn_skipn. reflexivity.
        + rewrite Nat.min_r by lia. rewrite (firstn_all2 (rd_buf St f)) by lia.
          destruct (fill_spec (need - (c * HL - pos)) f (need - (c * HL - pos)) (rd_buf St f)
                              (c * HL - pos) c Hinv) as (f' & n' & c' & Hrun & Hinv' & Hbuf' & Hcc & Hsum & Hn');
            [nia|lia|lia|].
          rewrite Hrun. cbn [fst snd]. eexists. split.
          * f_equal. f_equal. rewrite Hsk, firstn_app. rewrite (firstn_all2 (rd_buf St f)) by lia.
            rewrite Hlen. reflexivity.
          * exists c'. split; [|split].
            -- unfold core_inv. cbn [rd_counter rd_prev rd_size rd_info rd_exp]. exact Hinv'.
            -- nia.
            -- cbn [rd_buf]. rewrite Hbuf'.
               replace c' with ((c' - 1) + 1)%nat at 2 by lia. rewrite seg_last.
               rewrite skipn_app, seg_length.
               rewrite (skipn_all2 (seg 0 (c' - 1))) by (rewrite seg_length; nia).
               cbn [app]. replace (0 + (c' - 1) + 1)%nat with c' by lia. f_equal. nia.
    Qed.

    Theorem reads_spec : forall sizes f pos, rd_inv f pos ->
      snd (rd_reads f sizes) = spec_reads stream pos sizes.
    Proof.
      induction sizes as [|n sizes IH]; intros f pos Hinv; [reflexivity|].
      cbn [HkdfCode.rd_reads spec_reads snd]. rewrite stream_length.
      destruct (read_spec f pos n Hinv) as [Hbig Hok].
      destruct (Nat.ltb_spec (255 * HL) (pos + n)) as [Hlt|Hge].
      - rewrite (Hbig Hlt). cbn [fst snd]. f_equal. apply IH. exact Hinv.
      - destruct (Hok Hge) as (f' & Hr & Hinv'). rewrite Hr. cbn [fst snd]. f_equal. apply IH. exact Hinv'.
    Qed.

    (* one Read / io.ReadFull of n bytes from a fresh reader = hkdf_expand *)
    Theorem first_read_is_expand n :
      snd (rd_read (expand_code St h_init h_write h_sum B HL prk info) n)
      = hkdf_expand H B HL prk info n.
    Proof.
      destruct (read_spec _ 0 n inv_expand) as [Hbig Hok].
      destruct (Nat.le_gt_cases n (255 * HL)) as [Hle|Hgt].
      - destruct (Hok Hle) as (f' & Hr & _). rewrite Hr. cbn [snd skipn].
        rewrite (hkdf_expand_stream H B HL H_len HL_pos) by exact Hle. reflexivity.
      - rewrite (Hbig Hgt). cbn [snd]. symmetry. apply hkdf_expand_too_long. exact Hgt.
    Qed.
  End Expand.

  (* ---- Extract and the whole of hkdf.New ---- *)
  Definition salt_of (salt : option bytes) : bytes :=
    match salt with None => zeros HL | Some s => s end.

  Theorem extract_code_is_rfc5869 secret salt :
    extract_code St h_init h_write h_sum B HL secret salt = hkdf_extract H B (salt_of salt) secret.
  Proof.
    unfold extract_code, hkdf_extract.
    pose proof (hmac_code_is_rfc2104 St h_init h_write h_sum B H stream_law (salt_of salt) [secret]) as E.
    unfold hmac_code in E. cbn [fold_left concat] in E. rewrite app_nil_r in E. exact E.
  Qed.

  (* every schedule of reads of hkdf.New(h, secret, salt, info) observes the RFC 5869 stream *)
  Theorem reader_is_rfc5869 secret salt info sizes :
    snd (rd_reads (new_code St h_init h_write h_sum B HL secret salt info) sizes)
    = spec_reads (hkdf_blocks H B (hkdf_extract H B (salt_of salt) secret) info [] 1 255) 0 sizes.
  Proof.
    unfold new_code. rewrite extract_code_is_rfc5869. apply reads_spec. apply inv_expand.
  Qed.

  Theorem read_full_is_hkdf secret salt info n :
    snd (read_full (new_code St h_init h_write h_sum B HL secret salt info) n)
    = hkdf H B HL (salt_of salt) secret info n.
  Proof.
    unfold HkdfCode.read_full, new_code, hkdf. rewrite extract_code_is_rfc5869.
    destruct (Nat.eqb_spec n 0) as [->|Hn]; [|apply first_read_is_expand].
    cbn [snd]. unfold hkdf_expand. destruct (Nat.ltb_spec (255 * HL) 0); [lia|reflexivity].
  Qed.

  (* a nil or empty salt is HashLen zero bytes (RFC 5869 2.2) *)
  Lemma salt_nil_or_empty secret : (HL <= B)%nat ->
    hkdf_extract H B (salt_of (Some [])) secret = hkdf_extract H B (salt_of None) secret.
  Proof. intros HB. cbn [salt_of]. apply hkdf_extract_empty_salt. exact HB. Qed.

  (* ---- Tink's callers ---- *)
  Theorem tink_hkdf_prf_code_spec key salt data n :
    tink_hkdf_prf_code St h_init h_write h_sum B marshalable HL key salt data n
    = match hkdf H B HL (salt_of salt) key data n with Some o => Ok o | None => Err end.
  Proof.
    unfold tink_hkdf_prf_code. rewrite read_full_is_hkdf.
    destruct (hkdf H B HL (salt_of salt) key data n) as [o|] eqn:E; [|reflexivity].
    unfold hkdf in E. apply (hkdf_expand_length H B HL H_len HL_pos) in E. destruct E as [El _].
    rewrite firstn_all2 by lia. reflexivity.
  Qed.

  Theorem tink_compute_hkdf_code_spec key salt info tag :
    tink_compute_hkdf_code St h_init h_write h_sum B marshalable HL key salt info tag
    = if Nat.ltb (255 * HL) tag then Err
      else if Nat.ltb tag 10 then Err
      else match hkdf H B HL (if Nat.eqb (length salt) 0 then zeros HL else salt) key info tag with
           | Some o => Ok o
           | None => Err
           end.
  Proof.
    unfold tink_compute_hkdf_code. rewrite read_full_is_hkdf. cbn [salt_of].
    destruct (Nat.ltb (255 * HL) tag); [reflexivity|]. destruct (Nat.ltb tag 10); [reflexivity|].
    destruct (hkdf H B HL _ key info tag) as [o|] eqn:E; [|reflexivity].
    unfold hkdf in E. apply (hkdf_expand_length H B HL H_len HL_pos) in E. destruct E as [El _].
    rewrite El, Nat.eqb_refl. reflexivity.
  Qed.

  Theorem tink_derive_bytes_code_spec key prfsalt salt n :
    tink_derive_bytes_code St h_init h_write h_sum B marshalable HL key prfsalt salt n
    = hkdf H B HL (salt_of prfsalt) key salt n.
  Proof. apply read_full_is_hkdf. Qed.
End P.

(* if every read of a schedule succeeds, the pieces concatenate to the RFC output *)
Lemma spec_reads_all_ok stream : forall sizes pos,
  (pos + list_sum sizes <= length stream)%nat ->
  exists outs, spec_reads stream pos sizes = map Some outs /\
               concat outs = firstn (list_sum sizes) (skipn pos stream) /\
               map (@length N) outs = sizes.
Proof.
  induction sizes as [|n sizes IH]; intros pos Hle.
  - exists []. repeat split.
  - change (list_sum (n :: sizes)) with (n + list_sum sizes)%nat in *. cbn [spec_reads].
    destruct (Nat.ltb_spec (length stream) (pos + n)) as [Hlt|_]; [lia|].
    destruct (IH (pos + n)%nat) as (outs & Hs & Hc & Hl); [lia|].
    exists (firstn n (skipn pos stream) :: outs). split; [cbn [map]; rewrite Hs; reflexivity|]. split.
    + cbn [concat]. rewrite Hc.
      rewrite <- (firstn_skipn n (firstn (n + list_sum sizes) (skipn pos stream))).
      rewrite firstn_firstn, Nat.min_l by lia. f_equal.
      rewrite skipn_firstn_comm, skipn_skipn. f_equal. lia.
    + cbn [map]. rewrite Hl. f_equal. rewrite firstn_length, skipn_length. lia.
Qed.

(* every schedule of reads that stays within 255*HashLen bytes in total succeeds piece by
   piece, and the pieces concatenate to the RFC 5869 output of the total length *)
Theorem reader_pieces_concat_to_hkdf
  (St : Type) (h_init : St) (h_write : St -> bytes -> St) (h_sum : St -> bytes) (B : nat)
  (marshalable : bool) (H : bytes -> bytes) (HL : nat) :
  (forall chunks, h_sum (fold_left h_write chunks h_init) = H (concat chunks)) ->
  (forall x, length (H x) = HL) -> (0 < HL)%nat ->
  forall secret salt info sizes, (list_sum sizes <= 255 * HL)%nat ->
  exists outs,
    snd (rd_reads St h_init h_write h_sum marshalable
           (new_code St h_init h_write h_sum B HL secret salt info) sizes) = map Some outs /\
    map (@length N) outs = sizes /\
    hkdf H B HL (salt_of HL salt) secret info (list_sum sizes) = Some (concat outs).
Proof.
  intros Hlaw Hlen Hpos secret salt info sizes Hsum.
  rewrite (reader_is_rfc5869 St h_init h_write h_sum B marshalable H HL Hlaw Hlen Hpos).
  set (strm := hkdf_blocks H B (hkdf_extract H B (salt_of HL salt) secret) info [] 1 255).
  assert (Hsl : length strm = (255 * HL)%nat) by (apply (hkdf_blocks_length H B HL Hlen)).
  destruct (spec_reads_all_ok strm sizes 0) as (outs & Hs & Hc & Hl); [rewrite Hsl; lia|].
  exists outs. split; [exact Hs|]. split; [exact Hl|].
  unfold hkdf. rewrite (hkdf_expand_stream H B HL Hlen Hpos) by exact Hsum.
  rewrite Hc. reflexivity.
Qed.
