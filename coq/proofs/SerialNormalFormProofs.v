(* C12 — the big-integer NORMAL FORM of key messages, stated explicitly.

   model/Serial.v [normalise] is what parse-then-serialize does to the big
   integers of a key message.  C12_key_roundtrip assumes
   [normalise k s m = Some m].  Here that fixed-point equation is replaced by
   an explicit, checkable description of the form:

   * EC coordinates / private scalars: exactly cs + 1 bytes, first byte 0
     (what internal/ec/ec.go BigIntBytesToFixedSizeBuffer(_, coordinateSize+1)
     writes in signature/ecdsa/protoserialization.go:134-138,399,
     jwt/jwtecdsa/protoserialization.go:139-143,285,
     hybrid/ecies/protoserialization.go:189-193,432);
   * RSA e, p, q (and n for the signature/rsassa types): no leading zero byte
     (big.Int.Bytes(): signature/rsassapkcs1/protoserialization.go:101,190,198,
     jwt/jwtrsassapkcs1/protoserialization.go:156,306);
   * RSA d on |n| bytes, dp and crt on |p| bytes, dq on |q| bytes
     (internal/signature/rsa.go:112 Pad, :125 AdjustEncodingLengths);
   and the theorem  normalise k s m = Some m  <->  nf_msg k s m = true.
   Every key object is produced by a path that normalises (in the model:
   parse_key), so keys are in the form by construction. *)
From Coq Require Import List NArith Bool Lia ZifyN ZifyNat ZifyBool Arith.
From Tink Require Import Bytes ProtoWire ProtoWireProofs SerialTables Serial SerialProofs SerialNormProofs.
Import ListNotations.
Open Scope N_scope.

(* ------------------------------------------------------------------ *)
(* 1. field level                                                      *)
(* ------------------------------------------------------------------ *)

(* EC coordinate / scalar: fixed exactly when it is 0 :: x with |x| = cs *)
Theorem ec_coord_norm_fixed_iff cs b :
  ec_coord_norm cs b = Some b <-> length b = (cs + 1)%nat /\ hd 1 b = 0.
Proof.
  split.
  - unfold ec_coord_norm. destruct (fixed_size_buffer b cs) as [x|] eqn:E; [|discriminate].
    destruct (fixed_size_buffer_some _ _ _ E) as (Hl & _ & _).
    rewrite (fsb_pad x cs Hl). intros H. inversion H as [Hb]. clear H.
    split; [cbn [length]; lia | reflexivity].
  - intros [Hl Hh]. destruct b as [|a x]; cbn [length] in Hl; [lia|].
    cbn [hd] in Hh. subst a. assert (Hx : length x = cs) by lia.
    unfold ec_coord_norm. rewrite (fsb_strip x cs Hx). apply fsb_pad. exact Hx.
Qed.

(* the explicit shape, and its closed form in terms of the value *)
Corollary ec_coord_norm_fixed_shape cs b :
  ec_coord_norm cs b = Some b <-> exists x, b = 0 :: x /\ length x = cs.
Proof.
  rewrite ec_coord_norm_fixed_iff. split.
  - intros [Hl Hh]. destruct b as [|a x]; cbn [length] in Hl; [lia|]. cbn [hd] in Hh. subst a.
    exists x. split; [reflexivity | lia].
  - intros (x & -> & Hx). cbn [length hd]. split; [lia | reflexivity].
Qed.

Corollary ec_coord_fixed_value cs b :
  wfb b -> ec_coord_norm cs b = Some b -> b = 0 :: be_bytes cs (be_val b) /\ be_val b < 256 ^ N.of_nat cs.
Proof.
  intros Hw H. apply ec_coord_norm_fixed_shape in H. destruct H as (x & -> & Hx).
  assert (Hwx : wfb x) by (inversion Hw; assumption).
  assert (Hv : be_val (0 :: x) = be_val x) by (rewrite be_val_cons; lia).
  rewrite Hv. split.
  - f_equal. rewrite <- Hx. symmetry. apply be_bytes_be_val. exact Hwx.
  - rewrite <- Hx. apply be_val_lt. exact Hwx.
Qed.

(* big.Int.Bytes(): fixed exactly when there is no leading zero byte *)
Lemma strip_zeros_length_le b : (length (strip_zeros b) <= length b)%nat.
Proof.
  destruct (strip_zeros_shape b) as [k Hk].
  pose proof (f_equal (@length N) Hk) as HL. rewrite app_length, zeros_length in HL. lia.
Qed.

Theorem strip_zeros_fixed_iff b : strip_zeros b = b <-> b = [] \/ hd 0 b <> 0.
Proof.
  split.
  - destruct b as [|a t]; [left; reflexivity|]. intros H. right. cbn [hd]. intros ->.
    cbn [strip_zeros] in H. pose proof (strip_zeros_length_le t) as L.
    rewrite H in L. cbn [length] in L. lia.
  - intros [-> | H]; [reflexivity|]. destruct b as [|a t]; [reflexivity|].
    cbn [hd] in H. cbn [strip_zeros]. destruct a; [contradiction | reflexivity].
Qed.

(* internal/signature.Pad after big.Int.Bytes(): fixed exactly at length n *)
Theorem pad_strip_fixed_iff n b : pad_left (strip_zeros b) n = Some b <-> length b = n.
Proof.
  unfold pad_left. split.
  - destruct (Nat.leb (length (strip_zeros b)) n) eqn:E; [|discriminate].
    intros H. inversion H as [Hb]. clear H. apply Nat.leb_le in E.
    rewrite app_length, zeros_length. lia.
  - intros Hl. destruct (strip_zeros_shape b) as [k Hk].
    pose proof (f_equal (@length N) Hk) as HL. rewrite app_length, zeros_length in HL.
    replace (Nat.leb (length (strip_zeros b)) n) with true by (symmetry; apply Nat.leb_le; lia).
    f_equal. replace (n - length (strip_zeros b))%nat with k by lia. symmetry. exact Hk.
Qed.

(* boolean forms *)
Definition coord_nf (cs : nat) (b : bytes) : bool := Nat.eqb (length b) (cs + 1) && (hd 1 b =? 0).
Definition stripped (b : bytes) : bool := match b with 0 :: _ => false | _ => true end.
Definition len_is (n : nat) (b : bytes) : bool := Nat.eqb (length b) n.

Lemma coord_nf_iff cs b : coord_nf cs b = true <-> ec_coord_norm cs b = Some b.
Proof.
  rewrite ec_coord_norm_fixed_iff. unfold coord_nf. rewrite andb_true_iff, Nat.eqb_eq, N.eqb_eq. reflexivity.
Qed.
Lemma stripped_iff b : stripped b = true <-> strip_zeros b = b.
Proof.
  rewrite strip_zeros_fixed_iff. destruct b as [|a t]; cbn [stripped hd].
  - split; auto.
  - destruct a; split; intros H; try discriminate; auto.
    + destruct H as [H|H]; [discriminate | contradiction].
    + right. discriminate.
Qed.
Lemma len_is_iff n b : len_is n b = true <-> pad_left (strip_zeros b) n = Some b.
Proof. rewrite pad_strip_fixed_iff. unfold len_is. apply Nat.eqb_eq. Qed.

(* ------------------------------------------------------------------ *)
(* 2. message level: the form as a boolean check mirroring [normalise]  *)
(* ------------------------------------------------------------------ *)
Definition nf_ec_pub (cs : nat) (s : schema) (m : msg) : bool :=
  match get_bytes s m 3, get_bytes s m 4 with
  | Some x, Some y => coord_nf cs x && coord_nf cs y
  | _, _ => false
  end.
(* the public key message is PRESENT, in form, and the scalar is in form *)
Definition nf_ec_priv (cs : nat) (s : schema) (m : msg) : bool :=
  match get_field s m 2 with
  | Some (TMsg ps, VMsg (Some pm)) =>
      nf_ec_pub cs ps pm && match get_bytes s m 3 with Some k => coord_nf cs k | None => false end
  | _ => false
  end.
Definition nf_rsa_pub (strip_n : bool) (s : schema) (m : msg) : bool :=
  match get_bytes s m 3, get_bytes s m 4 with
  | Some n, Some e => (if strip_n then stripped n else true) && stripped e
  | _, _ => false
  end.
Definition nf_rsa_priv (strip_n : bool) (s : schema) (m : msg) : bool :=
  match get_field s m 2 with
  | Some (TMsg ps, VMsg (Some pm)) =>
      nf_rsa_pub strip_n ps pm &&
      match get_bytes ps pm 3, get_bytes s m 3, get_bytes s m 4, get_bytes s m 5,
            get_bytes s m 6, get_bytes s m 7, get_bytes s m 8 with
      | Some n, Some d, Some p, Some q, Some dp, Some dq, Some crt =>
          stripped p && stripped q && len_is (length n) d && len_is (length p) dp
          && len_is (length q) dq && len_is (length p) crt
      | _, _, _, _, _, _, _ => false
      end
  | _ => false
  end.

Definition nf_msg (k : norm_kind) (s : schema) (m : msg) : bool :=
  match k with
  | NKNone => true
  | NKEcdsaPub => match ecdsa_cs s m with Some cs => nf_ec_pub cs s m | None => false end
  | NKEcdsaPriv =>
      match on_pub s m with
      | Some (ps, pm) => match ecdsa_cs ps pm with Some cs => nf_ec_priv cs s m | None => false end
      | None => false
      end
  | NKJwtEcdsaPub => match jwtecdsa_cs s m with Some cs => nf_ec_pub cs s m | None => false end
  | NKJwtEcdsaPriv =>
      match on_pub s m with
      | Some (ps, pm) => match jwtecdsa_cs ps pm with Some cs => nf_ec_priv cs s m | None => false end
      | None => false
      end
  | NKEciesPub =>
      match ecies_cs s m with
      | Some (Some cs) => nf_ec_pub cs s m
      | Some None => true
      | None => false
      end
  | NKEciesPriv =>
      match on_pub s m with
      | Some (ps, pm) =>
          match ecies_cs ps pm with
          | Some (Some cs) => nf_ec_priv cs s m
          | Some None => true
          | None => false
          end
      | None => false
      end
  | NKRsaPub => nf_rsa_pub true s m
  | NKRsaPriv => nf_rsa_priv true s m
  | NKJwtRsaPub => nf_rsa_pub false s m
  | NKJwtRsaPriv => nf_rsa_priv false s m
  end.

(* two byte fields rewritten one after the other: a fixed point exactly when
   both fields are present and fixed *)
Lemma two_fields_fixed_iff s m a b f g : a <> b ->
  match map_bytes s m a f with Some m1 => map_bytes s m1 b g | None => None end = Some m <->
  exists x y, get_bytes s m a = Some x /\ get_bytes s m b = Some y /\ f x = Some x /\ g y = Some y.
Proof.
  intros Hab. split.
  - destruct (map_bytes s m a f) as [m1|] eqn:E1; [|discriminate]. intros E2.
    destruct (map_bytes_some _ _ _ _ _ E1) as (x & x' & Gx & Fx & ->).
    destruct (map_bytes_some _ _ _ _ _ E2) as (y & y' & Gy & Fy & Hm).
    rewrite get_bytes_set_other in Gy by exact Hab.
    assert (Ga : get_bytes s (set_field s (set_field s m a (VBytes x')) b (VBytes y')) a = Some x').
    { rewrite get_bytes_set_other by (intros E; apply Hab; symmetry; exact E). eapply get_bytes_set_same. exact Gx. }
    assert (Gb : get_bytes s (set_field s (set_field s m a (VBytes x')) b (VBytes y')) b = Some y').
    { eapply get_bytes_set_same. rewrite get_bytes_set_other by exact Hab. exact Gy. }
    rewrite <- Hm in Ga, Gb.
    assert (x' = x) by congruence. assert (y' = y) by congruence. subst x' y'.
    exists x, y. auto.
  - intros (x & y & Gx & Gy & Fx & Fy).
    rewrite (map_bytes_fix _ _ a _ x Gx Fx). apply (map_bytes_fix _ _ b _ y Gy Fy).
Qed.

Lemma ec_pub_nf_iff cs s m : ec_pub_norm cs s m = Some m <-> nf_ec_pub cs s m = true.
Proof.
  unfold ec_pub_norm, nf_ec_pub. rewrite two_fields_fixed_iff by lia. split.
  - intros (x & y & -> & -> & Fx & Fy). apply andb_true_iff. split; apply coord_nf_iff; assumption.
  - destruct (get_bytes s m 3) as [x|]; [|discriminate]. destruct (get_bytes s m 4) as [y|]; [|discriminate].
    intros H. apply andb_true_iff in H. destruct H as [Hx Hy]. exists x, y.
    repeat split; try reflexivity; apply coord_nf_iff; assumption.
Qed.

Lemma rsa_pub_nf_iff c s m : rsa_pub_norm c s m = Some m <-> nf_rsa_pub c s m = true.
Proof.
  unfold rsa_pub_norm, nf_rsa_pub. rewrite two_fields_fixed_iff by lia. split.
  - intros (x & y & -> & -> & Fx & Fy). apply andb_true_iff. split.
    + destruct c; [|reflexivity]. apply stripped_iff. congruence.
    + apply stripped_iff. congruence.
  - destruct (get_bytes s m 3) as [x|]; [|discriminate]. destruct (get_bytes s m 4) as [y|]; [|discriminate].
    intros H. apply andb_true_iff in H. destruct H as [Hx Hy]. exists x, y.
    repeat split; try reflexivity.
    + destruct c; [|reflexivity]. apply stripped_iff in Hx. rewrite Hx. reflexivity.
    + apply stripped_iff in Hy. rewrite Hy. reflexivity.
Qed.

(* set_field of the value already there (matching the goal's own term: the
   aliases msg / list val defeat a plain rewrite) *)
Ltac setid n G :=
  match goal with
  | |- context [set_field ?s ?m n ?V] =>
      replace (set_field s m n V) with m by (symmetry; eapply set_get_id; exact G)
  end.

Lemma ec_priv_nf_iff cs s m : ec_priv_norm cs s m = Some m <-> nf_ec_priv cs s m = true.
Proof.
  unfold ec_priv_norm, nf_ec_priv. split.
  - destruct (get_field s m 2) as [[t v]|] eqn:G2; [|discriminate].
    destruct t; try discriminate. destruct v as [| |pm|]; try discriminate.
    set (pm0 := match pm with Some x => x | None => default_msg s0 end).
    destruct (ec_pub_norm cs s0 pm0) as [pm'|] eqn:EP; [|discriminate].
    intros E3. destruct (map_bytes_some _ _ _ _ _ E3) as (k & k' & Gk & Fk & Hm).
    rewrite get_bytes_set_other in Gk by lia.
    assert (H2 : get_field s (set_field s (set_field s m 2 (VMsg (Some pm'))) 3 (VBytes k')) 2
                 = Some (TMsg s0, VMsg (Some pm'))).
    { rewrite get_field_set_other by lia. rewrite get_set, N.eqb_refl, G2. reflexivity. }
    assert (H3 : get_bytes s (set_field s (set_field s m 2 (VMsg (Some pm'))) 3 (VBytes k')) 3 = Some k').
    { eapply get_bytes_set_same. rewrite get_bytes_set_other by lia. exact Gk. }
    rewrite <- Hm in H2, H3. rewrite G2 in H2. inversion H2 as [Hpm]. subst pm.
    assert (k' = k) by congruence. subst k'.
    unfold pm0 in EP. apply ec_pub_nf_iff in EP. rewrite EP, Gk. cbn [andb]. apply coord_nf_iff. exact Fk.
  - destruct (get_field s m 2) as [[t v]|] eqn:G2; [|discriminate].
    destruct t; try discriminate. destruct v as [| |[pm|]|]; try discriminate.
    intros H. apply andb_true_iff in H. destruct H as [Hp Hk].
    destruct (get_bytes s m 3) as [k|] eqn:Gk; [|discriminate].
    apply ec_pub_nf_iff in Hp. rewrite Hp. setid 2 G2.
    apply (map_bytes_fix _ _ 3 _ k Gk). apply coord_nf_iff. exact Hk.
Qed.

Lemma rsa_priv_nf_iff c s m : rsa_priv_norm c s m = Some m <-> nf_rsa_priv c s m = true.
Proof.
  unfold rsa_priv_norm, nf_rsa_priv. split.
  - destruct (get_field s m 2) as [[t v]|] eqn:G2; [|discriminate].
    destruct t; try discriminate. destruct v as [| |pm|]; try discriminate.
    set (pm0 := match pm with Some x => x | None => default_msg s0 end).
    destruct (rsa_pub_norm c s0 pm0) as [pm'|] eqn:EP; [|discriminate].
    destruct (get_bytes s0 pm' 3) as [n|] eqn:Gn; [|discriminate].
    destruct (get_bytes s m 4) as [p|] eqn:Gp; [|discriminate].
    destruct (get_bytes s m 5) as [q|] eqn:Gq; [|discriminate].
    set (p' := strip_zeros p). set (q' := strip_zeros q).
    destruct (map_bytes s _ 3 _) as [m3|] eqn:E3; [|discriminate].
    destruct (map_bytes s m3 6 _) as [m4|] eqn:E6; [|discriminate].
    destruct (map_bytes s m4 7 _) as [m5|] eqn:E7; [|discriminate].
    intros E8.
    destruct (map_bytes_some _ _ _ _ _ E3) as (d & d' & Gd & Fd & ->).
    destruct (map_bytes_some _ _ _ _ _ E6) as (dp & dp' & Gdp & Fdp & ->).
    destruct (map_bytes_some _ _ _ _ _ E7) as (dq & dq' & Gdq & Fdq & ->).
    destruct (map_bytes_some _ _ _ _ _ E8) as (cr & cr' & Gcr & Fcr & Hm).
    repeat rewrite get_bytes_set_other in Gd by lia.
    repeat rewrite get_bytes_set_other in Gdp by lia.
    repeat rewrite get_bytes_set_other in Gdq by lia.
    repeat rewrite get_bytes_set_other in Gcr by lia.
    pose proof (get_bytes_some _ _ _ _ Gp) as Fp. pose proof (get_bytes_some _ _ _ _ Gq) as Fq.
    pose proof (get_bytes_some _ _ _ _ Gd) as Fd0. pose proof (get_bytes_some _ _ _ _ Gdp) as Fdp0.
    pose proof (get_bytes_some _ _ _ _ Gdq) as Fdq0. pose proof (get_bytes_some _ _ _ _ Gcr) as Fcr0.
    match type of Hm with _ = ?M => set (mf := M) in * end.
    assert (H2 : get_field s mf 2 = Some (TMsg s0, VMsg (Some pm'))).
    { unfold mf. repeat rewrite get_set. cbn [N.eqb Pos.eqb]. rewrite G2. reflexivity. }
    assert (H4 : get_field s mf 4 = Some (TBytes, VBytes p')).
    { unfold mf. repeat rewrite get_set. cbn [N.eqb Pos.eqb]. rewrite Fp. reflexivity. }
    assert (H5 : get_field s mf 5 = Some (TBytes, VBytes q')).
    { unfold mf. repeat rewrite get_set. cbn [N.eqb Pos.eqb]. rewrite Fq. reflexivity. }
    assert (H3 : get_field s mf 3 = Some (TBytes, VBytes d')).
    { unfold mf. repeat rewrite get_set. cbn [N.eqb Pos.eqb]. rewrite Fd0. reflexivity. }
    assert (H6 : get_field s mf 6 = Some (TBytes, VBytes dp')).
    { unfold mf. repeat rewrite get_set. cbn [N.eqb Pos.eqb]. rewrite Fdp0. reflexivity. }
    assert (H7 : get_field s mf 7 = Some (TBytes, VBytes dq')).
    { unfold mf. repeat rewrite get_set. cbn [N.eqb Pos.eqb]. rewrite Fdq0. reflexivity. }
    assert (H8 : get_field s mf 8 = Some (TBytes, VBytes cr')).
    { unfold mf. repeat rewrite get_set. cbn [N.eqb Pos.eqb]. rewrite Fcr0. reflexivity. }
    clearbody mf. subst mf.
    rewrite G2 in H2. inversion H2 as [Hpm]. subst pm.
    assert (Ep : p' = p) by congruence. assert (Eq : q' = q) by congruence.
    assert (d' = d) by congruence. assert (dp' = dp) by congruence.
    assert (dq' = dq) by congruence. assert (cr' = cr) by congruence. subst d' dp' dq' cr'.
    unfold pm0 in EP. apply rsa_pub_nf_iff in EP. rewrite EP, Gn, Gd, Gdp, Gdq, Gcr. cbn [andb].
    rewrite Ep in Fdp, Fcr. rewrite Eq in Fdq.
    rewrite (proj2 (stripped_iff p) Ep), (proj2 (stripped_iff q) Eq).
    rewrite (proj2 (len_is_iff _ _) Fd), (proj2 (len_is_iff _ _) Fdp),
            (proj2 (len_is_iff _ _) Fdq), (proj2 (len_is_iff _ _) Fcr). reflexivity.
  - destruct (get_field s m 2) as [[t v]|] eqn:G2; [|discriminate].
    destruct t; try discriminate. destruct v as [| |[pm|]|]; try discriminate.
    intros H. apply andb_true_iff in H. destruct H as [Hpub H].
    destruct (get_bytes s0 pm 3) as [n|] eqn:Gn; [|discriminate].
    destruct (get_bytes s m 3) as [d|] eqn:Gd; [|discriminate].
    destruct (get_bytes s m 4) as [p|] eqn:Gp; [|discriminate].
    destruct (get_bytes s m 5) as [q|] eqn:Gq; [|discriminate].
    destruct (get_bytes s m 6) as [dp|] eqn:Gdp; [|discriminate].
    destruct (get_bytes s m 7) as [dq|] eqn:Gdq; [|discriminate].
    destruct (get_bytes s m 8) as [cr|] eqn:Gcr; [|discriminate].
    rewrite !andb_true_iff in H. destruct H as (((((Sp & Sq) & Ld) & Ldp) & Ldq) & Lcr).
    apply rsa_pub_nf_iff in Hpub. rewrite Hpub, Gn.
    apply stripped_iff in Sp, Sq. rewrite Sp, Sq.
    setid 2 G2.
    pose proof (get_bytes_some _ _ _ _ Gp) as Fp. setid 4 Fp.
    pose proof (get_bytes_some _ _ _ _ Gq) as Fq. setid 5 Fq.
    rewrite (map_bytes_fix _ _ 3 _ d Gd (proj1 (len_is_iff _ _) Ld)).
    rewrite (map_bytes_fix _ _ 6 _ dp Gdp (proj1 (len_is_iff _ _) Ldp)).
    rewrite (map_bytes_fix _ _ 7 _ dq Gdq (proj1 (len_is_iff _ _) Ldq)).
    apply (map_bytes_fix _ _ 8 _ cr Gcr (proj1 (len_is_iff _ _) Lcr)).
Qed.

(* the fixed points of the normalisation are exactly the messages in the form *)
Theorem normalise_fixed_iff_nf k s m : normalise k s m = Some m <-> nf_msg k s m = true.
Proof.
  destruct k; cbn [normalise nf_msg].
  - split; reflexivity.
  - destruct (ecdsa_cs s m); [apply ec_pub_nf_iff | split; discriminate].
  - destruct (on_pub s m) as [[ps pm]|]; [|split; discriminate].
    destruct (ecdsa_cs ps pm); [apply ec_priv_nf_iff | split; discriminate].
  - destruct (jwtecdsa_cs s m); [apply ec_pub_nf_iff | split; discriminate].
  - destruct (on_pub s m) as [[ps pm]|]; [|split; discriminate].
    destruct (jwtecdsa_cs ps pm); [apply ec_priv_nf_iff | split; discriminate].
  - destruct (ecies_cs s m) as [[cs|]|]; [apply ec_pub_nf_iff | split; reflexivity | split; discriminate].
  - destruct (on_pub s m) as [[ps pm]|]; [|split; discriminate].
    destruct (ecies_cs ps pm) as [[cs|]|]; [apply ec_priv_nf_iff | split; reflexivity | split; discriminate].
  - apply rsa_pub_nf_iff.
  - apply rsa_priv_nf_iff.
  - apply rsa_pub_nf_iff.
  - apply rsa_priv_nf_iff.
Qed.

(* whatever the normalisation yields is in the form *)
Corollary normalise_output_nf k s m m' : normalise k s m = Some m' -> nf_msg k s m' = true.
Proof. intros H. apply normalise_fixed_iff_nf. eapply normalise_idem. exact H. Qed.

(* ------------------------------------------------------------------ *)
(* 3. the key round trip with the explicit form                         *)
(* ------------------------------------------------------------------ *)
Theorem parse_serialize_key_nf T k s :
  wf_schema (kt_schema T) = true ->
  wf_msg (kt_schema T) (gk_fields k) = true ->
  N.of_nat (length (encode (kt_schema T) (gk_fields k))) < two64 ->
  nf_msg (kt_norm T) (kt_schema T) (gk_fields k) = true ->
  variant_ok T k ->
  serialize_key T k = Some s ->
  parse_key T s = Some k.
Proof.
  intros Hs Hw Hl Hn Hv Hser. eapply parse_serialize_key; try eassumption.
  apply normalise_fixed_iff_nf. exact Hn.
Qed.

(* ------------------------------------------------------------------ *)
(* 4. constructor-produced keys: any well-formed message (integers with
      missing or extra leading zeros) is brought to the form, and the key
      built from the result round-trips                                 *)
(* ------------------------------------------------------------------ *)
Theorem constructed_key_roundtrip T url mat v id m m' s :
  wf_schema (kt_schema T) = true ->
  wf_msg (kt_schema T) m = true ->
  normalise (kt_norm T) (kt_schema T) m = Some m' ->
  variant_ok T (mkGkey url mat v id m') ->
  N.of_nat (length (encode (kt_schema T) m')) < two64 ->
  serialize_key T (mkGkey url mat v id m') = Some s ->
  nf_msg (kt_norm T) (kt_schema T) m' = true /\
  wf_msg (kt_schema T) m' = true /\
  parse_key T s = Some (mkGkey url mat v id m').
Proof.
  intros Hs Hw Hn Hv Hl Hser.
  pose proof (normalise_output_nf _ _ _ _ Hn) as Hnf.
  pose proof (normalise_wf _ _ _ _ Hw Hn) as Hw'.
  split; [exact Hnf | split; [exact Hw'|]].
  eapply parse_serialize_key_nf; cbn [gk_fields]; eassumption.
Qed.

(* the key object the parser builds is always in the form *)
Theorem parsed_key_nf T s k :
  parse_key T s = Some k ->
  wf_msg (kt_schema T) (gk_fields k) = true /\ nf_msg (kt_norm T) (kt_schema T) (gk_fields k) = true.
Proof.
  unfold parse_key. destruct (decode (kt_schema T) (ks_value s)) as [m|] eqn:Ed; [|discriminate].
  destruct (normalise (kt_norm T) (kt_schema T) m) as [m'|] eqn:En; [|discriminate].
  assert (Hw : wf_msg (kt_schema T) m' = true) by (eapply normalise_wf; [eapply decode_wf; exact Ed | exact En]).
  pose proof (normalise_output_nf _ _ _ _ En) as Hnf.
  destruct (kt_prefix T) as [a b|c a b d e|].
  - destruct (lookup b (ks_prefix s)); [|discriminate]. intros H. inversion H. cbn [gk_fields]. auto.
  - destruct (lookup _ (ks_prefix s)); [|discriminate]. destruct (_ && _); [discriminate|].
    intros H. inversion H. cbn [gk_fields]. auto.
  - intros H. inversion H. cbn [gk_fields]. auto.
Qed.

(* the public part of a private key in the form is in the form of the paired
   public kind *)
Definition pub_kind (k : norm_kind) : norm_kind :=
  match k with
  | NKEcdsaPriv => NKEcdsaPub | NKJwtEcdsaPriv => NKJwtEcdsaPub | NKEciesPriv => NKEciesPub
  | NKRsaPriv => NKRsaPub | NKJwtRsaPriv => NKJwtRsaPub
  | _ => NKNone
  end.
Definition is_priv_kind (k : norm_kind) : bool :=
  match k with NKEcdsaPriv | NKJwtEcdsaPriv | NKEciesPriv | NKRsaPriv | NKJwtRsaPriv => true | _ => false end.

Theorem nf_priv_public_part k s m ps pm :
  is_priv_kind k = true ->
  nf_msg k s m = true ->
  get_field s m 2 = Some (TMsg ps, VMsg (Some pm)) ->
  nf_msg (pub_kind k) ps pm = true.
Proof.
  intros Hk Hn G2. pose proof (on_pub_after _ _ _ _ G2) as Ho.
  destruct k; try discriminate; cbn [nf_msg pub_kind] in *; rewrite ?Ho in Hn.
  - destruct (ecdsa_cs ps pm) as [cs|]; [|discriminate]. unfold nf_ec_priv in Hn. rewrite G2 in Hn.
    apply andb_true_iff in Hn. apply Hn.
  - destruct (jwtecdsa_cs ps pm) as [cs|]; [|discriminate]. unfold nf_ec_priv in Hn. rewrite G2 in Hn.
    apply andb_true_iff in Hn. apply Hn.
  - destruct (ecies_cs ps pm) as [[cs|]|]; [|reflexivity|discriminate]. unfold nf_ec_priv in Hn. rewrite G2 in Hn.
    apply andb_true_iff in Hn. apply Hn.
  - unfold nf_rsa_priv in Hn. rewrite G2 in Hn. apply andb_true_iff in Hn. apply Hn.
  - unfold nf_rsa_priv in Hn. rewrite G2 in Hn. apply andb_true_iff in Hn. apply Hn.
Qed.

(* ------------------------------------------------------------------ *)
(* examples (closed terms only; every witness is a Definition)          *)
(* ------------------------------------------------------------------ *)
(* EcdsaPublicKey { version = 1; EcdsaParams params = 2 { hash_type = 1;
   curve = 2; encoding = 3 }; x = 3; y = 4 }  (proto/ecdsa.proto) *)
Definition ecdsa_pub_schema : schema :=
  SCons 1 TU32 (SCons 2 (TMsg (SCons 1 TEnum (SCons 2 TEnum (SCons 3 TEnum SNil))))
    (SCons 3 TBytes (SCons 4 TBytes SNil))).
(* "type.googleapis.com/google.crypto.tink.EcdsaPublicKey": the first row of Serial.norm_table *)
Definition ecdsa_pub_url : bytes := Eval vm_compute in match norm_table with (u, _) :: _ => u | [] => [] end.
Definition ex_x31 : bytes := Eval vm_compute in map (fun i => 1 + N.of_nat i) (seq 0 31).
Definition ex_y32 : bytes := Eval vm_compute in map (fun i => 101 + N.of_nat i) (seq 0 32).
(* a P-256 (curve = NIST_P256 = 2) public key message whose x lost its leading
   byte (31 bytes) and whose y carries two extra zero bytes (34 bytes) ... *)
Definition ex_ecdsa_in : msg :=
  [VInt 0; VMsg (Some [VInt 3; VInt 2; VInt 2]); VBytes ex_x31; VBytes (0 :: 0 :: ex_y32)].
(* ... and the form: both on 33 bytes with one leading zero *)
Definition ex_ecdsa_nf : msg :=
  [VInt 0; VMsg (Some [VInt 3; VInt 2; VInt 2]); VBytes (0 :: 0 :: ex_x31); VBytes (0 :: ex_y32)].
Definition ecdsa_pub_T : ktype := Eval vm_compute in
  match ktype_of ecdsa_pub_url ecdsa_pub_schema with Some T => T | None => mkKtype SNil PIgnored NKNone end.
Definition ex_ecdsa_key : gkey := mkGkey ecdsa_pub_url 3 1 77 ex_ecdsa_nf.
Definition ex_ecdsa_ser : kser := Eval vm_compute in
  match serialize_key ecdsa_pub_T ex_ecdsa_key with Some s => s | None => mkKser [] [] 0 0 0 end.

Example ecdsa_p256_unnormalised_input :
  nf_msg NKEcdsaPub ecdsa_pub_schema ex_ecdsa_in = false /\
  normalise NKEcdsaPub ecdsa_pub_schema ex_ecdsa_in = Some ex_ecdsa_nf /\
  nf_msg NKEcdsaPub ecdsa_pub_schema ex_ecdsa_nf = true /\
  ktype_of ecdsa_pub_url ecdsa_pub_schema = Some ecdsa_pub_T /\
  kt_norm ecdsa_pub_T = NKEcdsaPub /\
  serialize_key ecdsa_pub_T ex_ecdsa_key = Some ex_ecdsa_ser /\
  parse_key ecdsa_pub_T ex_ecdsa_ser = Some ex_ecdsa_key /\
  length (ks_value ex_ecdsa_ser) = 78%nat.
Proof.
  split; [vm_compute; reflexivity|]. split; [vm_compute; reflexivity|].
  split; [vm_compute; reflexivity|]. split; [vm_compute; reflexivity|].
  split; [reflexivity|]. split; [vm_compute; reflexivity|]. split; [vm_compute; reflexivity|].
  vm_compute. reflexivity.
Qed.

Lemma ex_ecdsa_variant_ok : variant_ok ecdsa_pub_T ex_ecdsa_key.
Proof. intros p H. vm_compute in H. inversion H. vm_compute. reflexivity. Qed.

(* RsaSsaPkcs1PublicKey { version = 1; params = 2 { hash_type = 1 }; n = 3; e = 4 }
   with a leading zero on n and two on e: stripped *)
Definition rsa_pub_schema : schema :=
  SCons 1 TU32 (SCons 2 (TMsg (SCons 1 TEnum SNil)) (SCons 3 TBytes (SCons 4 TBytes SNil))).
Example rsa_public_unnormalised_input :
  let m  := [VInt 0; VMsg (Some [VInt 3]); VBytes [0; 200; 1; 2; 3]; VBytes [0; 0; 1; 0; 1]] in
  let m' := [VInt 0; VMsg (Some [VInt 3]); VBytes [200; 1; 2; 3]; VBytes [1; 0; 1]] in
  nf_msg NKRsaPub rsa_pub_schema m = false /\
  normalise NKRsaPub rsa_pub_schema m = Some m' /\
  nf_msg NKRsaPub rsa_pub_schema m' = true /\
  (* the JWT flavour keeps the modulus bytes as given *)
  normalise NKJwtRsaPub rsa_pub_schema m = Some [VInt 0; VMsg (Some [VInt 3]); VBytes [0; 200; 1; 2; 3]; VBytes [1; 0; 1]].
Proof. cbv zeta. repeat split; vm_compute; reflexivity. Qed.
