(* Ties between the HPKE identifiers and the kemLengths table REGENERATED from
   hybrid/internal/hpke/hpke.go (gen/RepoConsts.v) and the identifiers and lengths the
   C06 model (model/Hpke.v) is stated over.  A source edit that changes a KEM/KDF/AEAD id
   or one of nSecret/nEnc/nPK/nSK changes the regenerated definition and one of these
   lemmas stops checking. *)
From Coq Require Import NArith List String Bool.
From Tink Require Import RepoConsts Hpke.
Import ListNotations.
Open Scope N_scope.

(* every regenerated constant this file needs is named in a lemma below: if the translator
   cannot find one in the source its definition is missing and that lemma stops checking;
   constants of other properties do not matter here *)

Lemma tie_kem_ids :
  kem_id P256 = gen_hpke_P256HKDFSHA256 /\ kem_id P384 = gen_hpke_P384HKDFSHA384 /\
  kem_id P521 = gen_hpke_P521HKDFSHA512 /\ kem_id X25519 = gen_hpke_X25519HKDFSHA256 /\
  kem_id MLKEM768 = gen_hpke_MLKEM768 /\ kem_id MLKEM1024 = gen_hpke_MLKEM1024 /\
  kem_id XWING = gen_hpke_XWing.
Proof. repeat split; reflexivity. Qed.

Lemma tie_kdf_ids :
  kdf_id HKDF_SHA256 = gen_hpke_HKDFSHA256 /\ kdf_id HKDF_SHA384 = gen_hpke_HKDFSHA384 /\
  kdf_id HKDF_SHA512 = gen_hpke_HKDFSHA512.
Proof. repeat split; reflexivity. Qed.

Lemma tie_aead_ids :
  aead_id AES128GCM = gen_hpke_AES128GCM /\ aead_id AES256GCM = gen_hpke_AES256GCM /\
  aead_id CHACHA20POLY1305 = gen_hpke_ChaCha20Poly1305.
Proof. repeat split; reflexivity. Qed.

(* the row of the regenerated table the model's lengths for k spell out *)
Definition model_row (k : kem) : N * list (string * N) :=
  (kem_id k, [("nSecret"%string, N.of_nat (n_secret k)); ("nEnc"%string, N.of_nat (n_enc k));
              ("nPK"%string, N.of_nat (n_pk k)); ("nSK"%string, N.of_nat (n_sk k))]).

Definition all_kems : list kem := [P256; P384; P521; X25519; MLKEM768; MLKEM1024; XWING].

Lemma all_kems_complete : forall k, In k all_kems.
Proof. intros []; simpl; tauto. Qed.

(* the regenerated table is exactly the model's table, row for row and in source order *)
Lemma tie_kem_lengths : gen_hpke_kemLengths = map model_row all_kems.
Proof. vm_compute. reflexivity. Qed.

(* ---- the same regenerated constants against the tables transcribed from the
   documents themselves (model/HpkeRfc.v: RFC 9180 Tables 2, 3, 5; IANA HPKE KEM
   registry / draft-ietf-hpke-pq / draft-connolly-cfrg-xwing-kem-10 for the last
   three rows) ---- *)
From Tink Require HpkeRfc.

Definition rfc_row (r : HpkeRfc.kem_row) : N * list (string * N) :=
  (HpkeRfc.r_id r, [("nSecret"%string, N.of_nat (HpkeRfc.r_Nsecret r)); ("nEnc"%string, N.of_nat (HpkeRfc.r_Nenc r));
                    ("nPK"%string, N.of_nat (HpkeRfc.r_Npk r)); ("nSK"%string, N.of_nat (HpkeRfc.r_Nsk r))]).

Lemma tie_rfc_kem_tables :
  gen_hpke_kemLengths =
  map rfc_row [HpkeRfc.kem_table HpkeRfc.KEM_P256_SHA256; HpkeRfc.kem_table HpkeRfc.KEM_P384_SHA384;
               HpkeRfc.kem_table HpkeRfc.KEM_P521_SHA512; HpkeRfc.kem_table HpkeRfc.KEM_X25519_SHA256;
               HpkeRfc.pq_kem_table HpkeRfc.KEM_ML_KEM_768; HpkeRfc.pq_kem_table HpkeRfc.KEM_ML_KEM_1024;
               HpkeRfc.pq_kem_table HpkeRfc.KEM_X_WING].
Proof. vm_compute. reflexivity. Qed.

Lemma tie_rfc_kdf_aead_ids :
  HpkeRfc.rfc_kdf_id HpkeRfc.KDF_HKDF_SHA256 = gen_hpke_HKDFSHA256 /\
  HpkeRfc.rfc_kdf_id HpkeRfc.KDF_HKDF_SHA384 = gen_hpke_HKDFSHA384 /\
  HpkeRfc.rfc_kdf_id HpkeRfc.KDF_HKDF_SHA512 = gen_hpke_HKDFSHA512 /\
  HpkeRfc.rfc_aead_id HpkeRfc.AEAD_AES_128_GCM = gen_hpke_AES128GCM /\
  HpkeRfc.rfc_aead_id HpkeRfc.AEAD_AES_256_GCM = gen_hpke_AES256GCM /\
  HpkeRfc.rfc_aead_id HpkeRfc.AEAD_ChaCha20Poly1305 = gen_hpke_ChaCha20Poly1305.
Proof. repeat split; reflexivity. Qed.
