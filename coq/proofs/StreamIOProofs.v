(* C07, short-read sources: the io.ReadFull loop over a source that hands out
   any positive number of bytes per call (and may return io.EOF / its failure
   together with the last bytes) computes exactly Stream.read_full; the same
   loop over unreader.Read computes exactly Stream.urfull.  Hence every theorem
   stated over the atomic read_full / urfull holds over every such source. *)
From Coq Require Import List NArith Bool Arith Lia.
From Tink Require Import Bytes Stream StreamProofs StreamIO.
Import ListNotations.
Open Scope nat_scope.

(* ------------------------------------------------------------------ *)
(* facts about the atomic read_full                                    *)
(* ------------------------------------------------------------------ *)
Definition limit (d : src) : nat :=
  match sfailr d with Some k => Nat.min k (length (srem d)) | None => length (srem d) end.

Lemma src_adv_0 d : src_adv d 0 = d.
Proof. destruct d as [r [k|]]; unfold src_adv; cbn; [rewrite Nat.sub_0_r|]; reflexivity. Qed.

Lemma src_adv_adv d a b : src_adv (src_adv d a) b = src_adv d (a + b).
Proof.
  destruct d as [r [k|]]; unfold src_adv; cbn; rewrite skipn_skipn', (Nat.add_comm a b);
    [rewrite <- Nat.sub_add_distr, (Nat.add_comm b a)|]; reflexivity.
Qed.

Lemma firstn_add {A} (l : list A) a b : firstn (a + b) l = firstn a l ++ firstn b (skipn a l).
Proof.
  revert l; induction a as [|a IH]; intros l; [reflexivity|].
  destruct l as [|x l]; cbn; [rewrite firstn_nil; reflexivity|]. f_equal. apply IH.
Qed.

Lemma read_full_zero d : read_full d 0 = (d, [], RFok).
Proof. unfold read_full. cbn [Nat.leb]. rewrite src_adv_0. reflexivity. Qed.

Lemma read_full_failed d w : src_failed d = true -> 0 < w -> read_full d w = (d, [], RFfail).
Proof.
  unfold src_failed. destruct (sfailr d) as [[|k]|] eqn:E; try discriminate. intros _ Hw.
  unfold read_full. rewrite E. cbn [Nat.min].
  destruct (Nat.leb_spec w 0); [lia|]. rewrite src_adv_0. reflexivity.
Qed.

Lemma read_full_ended d w : src_failed d = false -> length (srem d) = 0 -> 0 < w ->
  read_full d w = (d, [], RFeof).
Proof.
  unfold src_failed. intros Hf Hl Hw. unfold read_full. rewrite Hl.
  destruct (sfailr d) as [k|] eqn:E.
  - rewrite Nat.min_0_r. destruct (Nat.leb_spec w 0); [lia|]. rewrite src_adv_0.
    destruct k; [discriminate|]. reflexivity.
  - destruct (Nat.leb_spec w 0); [lia|]. rewrite src_adv_0. reflexivity.
Qed.

Lemma read_full_ok_len s w s' g : read_full s w = (s', g, RFok) -> length g = w.
Proof.
  unfold read_full.
  destruct (Nat.leb_spec w (match sfailr s with Some k => Nat.min k (length (srem s)) | None => length (srem s) end)) as [H|H].
  - intros E; inversion E; subst. rewrite firstn_length. destruct (sfailr s); lia.
  - intros E; inversion E as [[E1 E2 E3]].
    destruct (match sfailr s with Some k => k <=? length (srem s) | None => false end); [discriminate|].
    destruct (_ =? 0); discriminate.
Qed.

(* reading w bytes = reading m <= w of the available ones, then the rest *)
Definition fix_eof (nonempty : bool) (k : rfk) : rfk :=
  match k with RFeof => if nonempty then RFuneof else RFeof | _ => k end.

Lemma read_full_step d m w : m <= limit d -> m <= w ->
  read_full d w =
  let '(d2, g2, k2) := read_full (src_adv d m) (w - m) in
  (d2, firstn m (srem d) ++ g2, fix_eof (negb (m =? 0)) k2).
Proof.
  unfold limit. intros Hm Hw. unfold read_full.
  assert (Hl : length (srem (src_adv d m)) = length (srem d) - m) by (unfold src_adv; cbn; apply skipn_length).
  rewrite Hl. rewrite !src_adv_adv.
  assert (Hsk : srem (src_adv d m) = skipn m (srem d)) by reflexivity. rewrite Hsk.
  destruct (sfailr d) as [k|] eqn:Ef.
  - assert (Hf' : sfailr (src_adv d m) = Some (k - m)) by (unfold src_adv; cbn; rewrite Ef; reflexivity).
    rewrite Hf'.
    set (av := length (srem d)) in *.
    destruct (Nat.leb_spec w (Nat.min k av)) as [H1|H1].
    + destruct (Nat.leb_spec (w - m) (Nat.min (k - m) (av - m))); [|lia].
      replace (m + (w - m)) with w by lia. cbn [fix_eof]. f_equal. f_equal.
      rewrite <- firstn_add. f_equal. lia.
    + destruct (Nat.leb_spec (w - m) (Nat.min (k - m) (av - m))); [lia|].
      replace (m + Nat.min (k - m) (av - m)) with (Nat.min k av) by lia.
      rewrite <- firstn_add. replace (m + Nat.min (k - m) (av - m)) with (Nat.min k av) by lia.
      f_equal.
      destruct (Nat.leb_spec k av) as [H2|H2].
      * destruct (Nat.leb_spec (k - m) (av - m)); [reflexivity|lia].
      * destruct (Nat.leb_spec (k - m) (av - m)); [lia|].
        destruct (Nat.eqb_spec m 0) as [E|E].
        -- subst m. rewrite !Nat.sub_0_r. cbn [negb]. destruct (_ =? 0); reflexivity.
        -- cbn [negb]. destruct (Nat.eqb_spec (Nat.min k av) 0); [lia|].
           destruct (_ =? 0); reflexivity.
  - assert (Hf' : sfailr (src_adv d m) = None) by (unfold src_adv; cbn; rewrite Ef; reflexivity).
    rewrite Hf'.
    set (av := length (srem d)) in *.
    destruct (Nat.leb_spec w av) as [H1|H1].
    + destruct (Nat.leb_spec (w - m) (av - m)); [|lia].
      replace (m + (w - m)) with w by lia. cbn [fix_eof]. f_equal. f_equal.
      rewrite <- firstn_add. f_equal. lia.
    + destruct (Nat.leb_spec (w - m) (av - m)); [lia|].
      replace (m + (av - m)) with av by lia.
      rewrite <- firstn_add. replace (m + (av - m)) with av by lia.
      f_equal.
      destruct (Nat.eqb_spec m 0) as [E|E].
      * subst m. rewrite !Nat.sub_0_r. cbn [negb]. destruct (_ =? 0); reflexivity.
      * cbn [negb]. destruct (Nat.eqb_spec av 0); [lia|]. destruct (_ =? 0); reflexivity.
Qed.

(* ------------------------------------------------------------------ *)
(* generic facts about the ReadFull loop                               *)
(* ------------------------------------------------------------------ *)
Section LoopFacts.
  Variable ST : Type.
  Variable rd : ST -> nat -> ST * bytes * rerr.

  Lemma rf_loop_done fuel s min acc : min <= length acc -> rf_loop rd fuel s min acc = Some (s, acc, RFok).
  Proof. intros H. destruct fuel; cbn [rf_loop]; destruct (Nat.leb_spec min (length acc)); try lia; reflexivity. Qed.

  Lemma rf_loop_S fuel s min acc : length acc < min ->
    rf_loop rd (S fuel) s min acc =
    let '(s', got, e) := rd s (min - length acc) in
    let acc' := acc ++ got in
    match e with
    | Enil => rf_loop rd fuel s' min acc'
    | Eeof => Some (s', acc', if min <=? length acc' then RFok else if length acc' =? 0 then RFeof else RFuneof)
    | Efail => Some (s', acc', if min <=? length acc' then RFok else RFfail)
    end.
  Proof. intros H. cbn [rf_loop]. destruct (Nat.leb_spec min (length acc)); [lia|reflexivity]. Qed.

  (* the loop only ever appends to the buffer *)
  Lemma rf_loop_extends : forall fuel s min acc s' out k,
    rf_loop rd fuel s min acc = Some (s', out, k) -> exists t, out = acc ++ t.
  Proof.
    induction fuel as [|f IH]; intros s min acc s' out k; cbn [rf_loop];
      destruct (min <=? length acc); intros H; try discriminate;
      try (inversion H; subst; exists []; rewrite app_nil_r; reflexivity).
    destruct (rd s (min - length acc)) as ((s1, got), e).
    destruct e.
    - apply IH in H. destruct H as (t & ->). exists (got ++ t). rewrite app_assoc. reflexivity.
    - inversion H; subst. exists got. reflexivity.
    - inversion H; subst. exists got. reflexivity.
  Qed.
End LoopFacts.

(* ------------------------------------------------------------------ *)
(* (c) ReadFull loop over a short-read source = read_full               *)
(* ------------------------------------------------------------------ *)
Section ShortReads.
  Variable sc : sched.
  Hypothesis Hpos : forall i, 0 < sz sc i.

  Lemma rf_loop_sread : forall fuel c d min acc, min - length acc <= fuel ->
    exists c', rf_loop (sread sc) fuel (mkSS c d) min acc =
      let '(d', g, k) := read_full d (min - length acc) in
      Some (mkSS c' d', acc ++ g, fix_eof (negb (length acc =? 0)) k).
  Proof.
    induction fuel as [|f IH]; intros c d min acc Hf.
    - exists c. rewrite rf_loop_done by lia. replace (min - length acc) with 0 by lia.
      rewrite read_full_zero, app_nil_r. reflexivity.
    - destruct (Nat.le_gt_cases min (length acc)) as [Hd|Hd].
      { exists c. rewrite rf_loop_done by lia. replace (min - length acc) with 0 by lia.
        rewrite read_full_zero, app_nil_r. reflexivity. }
      rewrite rf_loop_S by exact Hd.
      set (w := min - length acc) in *. assert (Hw : 0 < w) by (unfold w; lia).
      destruct (sread sc (mkSS c d) w) as ((s1, got), e) eqn:Esr.
      unfold sread in Esr. cbn [ss_src ss_calls] in Esr.
      destruct (Nat.eqb_spec w 0) as [E|_]; [lia|].
      destruct (src_failed d) eqn:Efl.
      { (* persistent failure reached *)
        inversion Esr; subst s1 got e; clear Esr.
        exists (S c). rewrite (read_full_failed d w Efl Hw). cbn [fix_eof].
        rewrite !app_nil_r. destruct (Nat.leb_spec min (length acc)); [lia|reflexivity]. }
      destruct (Nat.eqb_spec (length (srem d)) 0) as [E0|E0].
      { (* end of data *)
        inversion Esr; subst s1 got e; clear Esr.
        exists (S c). rewrite (read_full_ended d w Efl E0 Hw). cbn [fix_eof].
        rewrite !app_nil_r. destruct (Nat.leb_spec min (length acc)); [lia|].
        destruct (length acc =? 0); reflexivity. }
      set (lim := match sfailr d with Some k => Nat.min k (length (srem d)) | None => length (srem d) end) in *.
      assert (Hlim : lim = limit d) by reflexivity.
      assert (Hlpos : 0 < lim).
      { unfold lim. unfold src_failed in Efl. destruct (sfailr d) as [[|k]|]; try discriminate; lia. }
      set (m := Nat.min (Nat.min w (sz sc c)) lim) in *.
      pose proof (Hpos c) as Hs.
      assert (Hm : 0 < m /\ m <= w /\ m <= lim) by (unfold m; lia).
      assert (Hgl : length (firstn m (srem d)) = m).
      { rewrite firstn_length. unfold lim in Hm. destruct (sfailr d); lia. }
      pose proof (read_full_step d m w ltac:(rewrite <- Hlim; lia) ltac:(lia)) as Hstep.
      assert (Hne : negb (m =? 0) = true) by (destruct (Nat.eqb_spec m 0); [lia|reflexivity]).
      rewrite Hne in Hstep.
      assert (Hacc' : length (acc ++ firstn m (srem d)) = length acc + m) by (rewrite app_length, Hgl; reflexivity).
      assert (Hterm : forall e', e' <> Enil ->
                (e' = Efail -> src_failed (src_adv d m) = true) ->
                (e' = Eeof -> src_failed (src_adv d m) = false /\ length (srem (src_adv d m)) = 0) ->
                Some (mkSS (S c) (src_adv d m), acc ++ firstn m (srem d),
                      match e' with
                      | Efail => if min <=? length (acc ++ firstn m (srem d)) then RFok else RFfail
                      | _ => if min <=? length (acc ++ firstn m (srem d)) then RFok
                             else if length (acc ++ firstn m (srem d)) =? 0 then RFeof else RFuneof
                      end) =
                (let '(d', g, k) := read_full d w in
                 Some (mkSS (S c) d', acc ++ g, fix_eof (negb (length acc =? 0)) k))).
      { intros e' Hne' HF HE. rewrite Hstep. rewrite Hacc'.
        destruct (Nat.eq_dec (w - m) 0) as [Ez|Ez].
        - rewrite Ez, read_full_zero, app_nil_r. cbn [fix_eof].
          destruct (Nat.leb_spec min (length acc + m)); [|unfold w in *; lia].
          destruct e'; reflexivity.
        - destruct (Nat.leb_spec min (length acc + m)); [unfold w in *; lia|].
          destruct e'; [congruence| |].
          + destruct (HE eq_refl) as (A & B).
            rewrite (read_full_ended _ (w - m) A B ltac:(lia)), app_nil_r. cbn [fix_eof].
            destruct (Nat.eqb_spec (length acc + m) 0); [lia|]. reflexivity.
          + rewrite (read_full_failed _ (w - m) (HF eq_refl) ltac:(lia)), app_nil_r. reflexivity. }
      assert (Hgo : exists c', rf_loop (sread sc) f (mkSS (S c) (src_adv d m)) min (acc ++ firstn m (srem d)) =
                (let '(d', g, k) := read_full d w in
                 Some (mkSS c' d', acc ++ g, fix_eof (negb (length acc =? 0)) k))).
      { destruct (IH (S c) (src_adv d m) min (acc ++ firstn m (srem d)) ltac:(rewrite Hacc'; unfold w in *; lia))
          as (c' & IHe).
        exists c'. rewrite IHe, Hstep, Hacc'.
        replace (min - (length acc + m)) with (w - m) by (unfold w; lia).
        destruct (read_full (src_adv d m) (w - m)) as ((d2, g2), k2).
        rewrite <- app_assoc.
        destruct (Nat.eqb_spec (length acc + m) 0); [lia|]. cbn [negb].
        destruct k2; cbn [fix_eof]; reflexivity. }
      destruct (ewd sc c).
      + destruct (src_failed (src_adv d m)) eqn:Efl'.
        * inversion Esr; subst s1 got e; clear Esr.
          exists (S c). apply (Hterm Efail); [discriminate|auto|discriminate].
        * destruct (Nat.eqb_spec (length (srem (src_adv d m))) 0) as [E1|E1].
          -- inversion Esr; subst s1 got e; clear Esr.
             exists (S c). apply (Hterm Eeof); [discriminate|discriminate|auto].
          -- inversion Esr; subst s1 got e; clear Esr. exact Hgo.
      + inversion Esr; subst s1 got e; clear Esr. exact Hgo.
  Qed.

  (* the theorem: for every schedule of positive sizes, every source (data,
     failure point) and every length, the loop terminates within want calls
     and returns what the atomic read_full returns *)
  Theorem read_full_loop_eq : forall c d want,
    exists c', read_full_loop (sread sc) (mkSS c d) want =
               let '(d', g, k) := read_full d want in Some (mkSS c' d', g, k).
  Proof.
    intros c d want. unfold read_full_loop.
    destruct (rf_loop_sread want c d want [] ltac:(cbn; lia)) as (c' & H).
    exists c'. rewrite H. cbn [length app Nat.eqb negb]. rewrite Nat.sub_0_r.
    destruct (read_full d want) as ((d', g), k). destruct k; reflexivity.
  Qed.

  Corollary read_full_total_sim : forall a w,
    let '(a', g, r) := read_full_total (sread sc) a w in read_full (ss_src a) w = (ss_src a', g, r).
  Proof.
    intros [c d] w. unfold read_full_total. destruct (read_full_loop_eq c d w) as (c' & H). rewrite H.
    cbn [ss_src]. destruct (read_full d w) as ((d', g), k). reflexivity.
  Qed.
End ShortReads.

(* ------------------------------------------------------------------ *)
(* transfer: readers over a short-read source behave as over read_full  *)
(* ------------------------------------------------------------------ *)
Section DriveSim.
  Variables A B : Type.
  Variable fa : A -> nat -> A * bytes * rfk.
  Variable fb : B -> nat -> B * bytes * rfk.
  Variable h : A -> B.
  Hypothesis Hsim : forall a w, let '(a', g, r) := fa a w in fb (h a) w = (h a', g, r).

  Lemma drive_sim decs P : forall sizes st acc,
    drive decs fa P sizes st acc = drive decs fb P sizes (map_src A B h st) acc.
  Proof.
    induction sizes as [|n ns IH]; intros st acc; cbn [drive]; [reflexivity|].
    pose proof (read_sim A B fa fb h Hsim decs P st n) as H.
    destruct (read decs fa P st n) as (st1, r). rewrite H.
    destruct r; try reflexivity. apply IH.
  Qed.

  Variable hkdf : hash -> bytes -> bytes -> bytes -> nat -> bytes.
  Variable gcm_open : bytes -> bytes -> bytes -> option bytes.
  Variable aes_ctr : bytes -> bytes -> bytes -> bytes.
  Variable hmac : hash -> bytes -> bytes -> bytes.

  Lemma key_read_sim k aad a sizes :
    key_read hkdf gcm_open aes_ctr hmac A fa k aad a sizes =
    key_read hkdf gcm_open aes_ctr hmac B fb k aad (h a) sizes.
  Proof.
    unfold key_read.
    pose proof (new_dec_reader_sim A B fa fb h Hsim hkdf k aad a) as H.
    destruct (new_dec_reader hkdf A fa k aad a) as (o, a'). rewrite H.
    destruct o as [[[[k1 k2] pre] st]|]; cbn [map_opt]; [|reflexivity].
    apply drive_sim.
  Qed.
End DriveSim.

(* NewDecryptingReader + any Read sizes over ANY short-read source = over the atomic read_full *)
Theorem key_read_short_reads :
  forall hkdf gcm_open aes_ctr hmac (sc : sched), (forall i, 0 < sz sc i) ->
  forall k aad c d sizes,
    key_read hkdf gcm_open aes_ctr hmac ssrc (read_full_total (sread sc)) k aad (mkSS c d) sizes =
    key_read hkdf gcm_open aes_ctr hmac src read_full k aad d sizes.
Proof.
  intros hkdf gcm_open aes_ctr hmac sc Hpos k aad c d sizes.
  apply (key_read_sim ssrc src (read_full_total (sread sc)) read_full ss_src (read_full_total_sim sc Hpos)).
Qed.

(* the nonce-based Reader alone (any parameters, any segment decrypter) *)
Theorem drive_short_reads :
  forall (sc : sched), (forall i, 0 < sz sc i) ->
  forall decs P c d sizes st0 st0',
    new_reader P (mkSS c d) = Some st0 -> new_reader P d = Some st0' ->
    drive decs (read_full_total (sread sc)) P sizes st0 [] = drive decs read_full P sizes st0' [].
Proof.
  intros sc Hpos decs P c d sizes st0 st0' H1 H2.
  rewrite (drive_sim ssrc src _ read_full ss_src (read_full_total_sim sc Hpos)).
  unfold new_reader in *. destruct (_ <? 5); [discriminate|].
  inversion H1; inversion H2; subst. reflexivity.
Qed.

(* ------------------------------------------------------------------ *)
(* the same loop over unreader.Read (decrypt_reader.go) = urfull        *)
(* ------------------------------------------------------------------ *)
(* invariant of the Go code: 0 <= u.pos <= len(u.buf) *)
Definition su_wf (u : sureader) : Prop := su_pos u <= length (su_buf u).

Lemma skipn_app_exact {A} (a b : list A) : skipn (length a) (a ++ b) = b.
Proof. rewrite skipn_app, skipn_all, Nat.sub_diag. reflexivity. Qed.

Section UnreaderLoop.
  Variable sc : sched.
  Hypothesis Hpos : forall i, 0 < sz sc i.

  Lemma uread_exhausted u n : su_pos u = length (su_buf u) ->
    uread sc u n =
    let '(s', got, e) := sread sc (su_src u) n in
    let b' := if su_dis u then [] else su_buf u ++ got in
    (mkSU b' (length b') (su_dis u) s', got, e).
  Proof. intros H. unfold uread. rewrite H, Nat.eqb_refl. reflexivity. Qed.

  Lemma uread_buffered u n : length (su_buf u) <> su_pos u ->
    uread sc u n =
    let got := firstn n (skipn (su_pos u) (su_buf u)) in
    (mkSU (su_buf u) (su_pos u + length got) (su_dis u) (su_src u), got, Enil).
  Proof. intros H. unfold uread. destruct (Nat.eqb_spec (length (su_buf u)) (su_pos u)); [lia|reflexivity]. Qed.

  (* once the replay buffer is used up, the loop over the unreader is the loop
     over the wrapped source; everything it delivers is recorded (unless disabled)
     -- including bytes that arrive together with io.EOF or an error *)
  Lemma uloop_exhausted : forall fuel u min acc, su_pos u = length (su_buf u) -> length acc < min ->
    rf_loop (uread sc) fuel u min acc =
    match rf_loop (sread sc) fuel (su_src u) min acc with
    | None => None
    | Some (s', out, k) =>
        let b' := if su_dis u then [] else su_buf u ++ skipn (length acc) out in
        Some (mkSU b' (length b') (su_dis u) s', out, k)
    end.
  Proof.
    induction fuel as [|f IH]; intros u min acc Hex Hlt.
    - cbn [rf_loop]. destruct (Nat.leb_spec min (length acc)); [lia|reflexivity].
    - rewrite !rf_loop_S by exact Hlt. rewrite (uread_exhausted u _ Hex).
      destruct (sread sc (su_src u) (min - length acc)) as ((s1, got), e).
      cbn zeta. destruct e.
      + destruct (Nat.le_gt_cases min (length (acc ++ got))) as [Hd|Hd].
        * rewrite !rf_loop_done by exact Hd. cbn zeta. rewrite skipn_app_exact. reflexivity.
        * rewrite IH; [|reflexivity|exact Hd]. cbn [su_src su_dis su_buf].
          destruct (rf_loop (sread sc) f s1 min (acc ++ got)) as [((s', out), k)|] eqn:E; [|reflexivity].
          apply rf_loop_extends in E. destruct E as (t & ->). cbn zeta.
          rewrite skipn_app_exact. rewrite <- app_assoc, skipn_app_exact.
          destruct (su_dis u); [reflexivity|]. rewrite <- app_assoc. reflexivity.
      + rewrite skipn_app_exact. reflexivity.
      + rewrite skipn_app_exact. reflexivity.
  Qed.

  Lemma uloop_from_exhausted fuel u c d min acc :
    su_pos u = length (su_buf u) -> su_src u = mkSS c d -> length acc < min -> min - length acc <= fuel ->
    exists c', rf_loop (uread sc) fuel u min acc =
      let '(d', g, k) := read_full d (min - length acc) in
      let b' := if su_dis u then [] else su_buf u ++ g in
      Some (mkSU b' (length b') (su_dis u) (mkSS c' d'), acc ++ g, fix_eof (negb (length acc =? 0)) k).
  Proof.
    intros Hex Hs Hlt Hf. rewrite (uloop_exhausted fuel u min acc Hex Hlt), Hs.
    destruct (rf_loop_sread sc Hpos fuel c d min acc Hf) as (c' & ->). exists c'.
    destruct (read_full d (min - length acc)) as ((d', g), k). cbn zeta.
    rewrite skipn_app_exact. reflexivity.
  Qed.

  (* for every schedule of positive sizes, every state of the unreader (replay
     position, disabled or not) and every length *)
  Theorem uread_full_loop_eq : forall u want, su_wf u ->
    exists u', read_full_loop (uread sc) u want =
               (let '(v, g, k) := urfull (su_forget u) want in Some (u', g, k)) /\
               su_forget u' = fst (fst (urfull (su_forget u) want)) /\ su_wf u'.
  Proof.
    intros u want Hwf. unfold su_wf in Hwf. unfold read_full_loop, urfull.
    cbn [su_forget ubuf upos udis usrc].
    set (avail := skipn (su_pos u) (su_buf u)).
    assert (HA : length avail = length (su_buf u) - su_pos u) by (unfold avail; apply skipn_length).
    destruct (Nat.leb_spec want (length avail)) as [Hw|Hw].
    - (* served from the replay buffer *)
      destruct want as [|w'].
      + exists u. rewrite rf_loop_done by (cbn; lia). cbn [firstn fst]. repeat split; [|exact Hwf].
        unfold su_forget. rewrite Nat.add_0_r. reflexivity.
      + rewrite rf_loop_S by (cbn; lia). rewrite uread_buffered by lia. cbn [length app]. cbn zeta.
        rewrite Nat.sub_0_r. fold avail.
        assert (Hl : length (firstn (S w') avail) = S w') by (rewrite firstn_length; lia).
        rewrite rf_loop_done by (rewrite Hl; lia).
        eexists. split; [reflexivity|]. cbn [fst]. rewrite Hl. split; [reflexivity|].
        unfold su_wf. cbn [su_pos su_buf]. lia.
    - (* the wrapped reader is consulted *)
      destruct (su_src u) as [c d] eqn:Es. cbn [ss_src].
      destruct (Nat.eq_dec (length avail) 0) as [E0|E0].
      + assert (Hex : su_pos u = length (su_buf u)) by lia.
        assert (Hnil : avail = []) by (destruct avail; [reflexivity|discriminate]).
        destruct (uloop_from_exhausted want u c d want [] Hex Es ltac:(cbn; lia) ltac:(cbn; lia)) as (c' & ->).
        rewrite Hnil. cbn [length app Nat.eqb negb]. rewrite Nat.sub_0_r.
        destruct (read_full d want) as ((d', g), k). cbn zeta.
        eexists. split; [|split].
        * destruct k; reflexivity.
        * cbn [fst]. reflexivity.
        * unfold su_wf. cbn [su_pos su_buf]. lia.
      + destruct want as [|w']; [lia|].
        rewrite rf_loop_S by (cbn; lia). rewrite uread_buffered by lia. cbn [length app]. cbn zeta.
        rewrite Nat.sub_0_r. fold avail.
        assert (Hfa : firstn (S w') avail = avail) by (apply firstn_all2; lia). rewrite Hfa.
        set (u1 := mkSU (su_buf u) (su_pos u + length avail) (su_dis u) (su_src u)).
        assert (Hex : su_pos u1 = length (su_buf u1)) by (cbn; lia).
        assert (Es1 : su_src u1 = mkSS c d) by exact Es.
        destruct (uloop_from_exhausted w' u1 c d (S w') avail Hex Es1 ltac:(lia) ltac:(lia)) as (c' & ->).
        cbn [su_dis su_buf u1].
        destruct (read_full d (S w' - length avail)) as ((d', g), k). cbn zeta.
        eexists. split; [|split].
        * destruct (Nat.eqb_spec (length avail) 0); [lia|]. destruct k; reflexivity.
        * cbn [fst]. reflexivity.
        * unfold su_wf. cbn [su_pos su_buf]. lia.
  Qed.

  (* the invariant is kept by every operation on the unreader *)
  Lemma su_wf_init s : su_wf (mkSU [] 0 false s).
  Proof. unfold su_wf. cbn. lia. Qed.
  Lemma su_wf_unread u : su_wf u -> su_wf (su_unread u).
  Proof. unfold su_wf. cbn. lia. Qed.
  Lemma su_wf_disable u : su_wf u -> su_wf (su_disable u).
  Proof. unfold su_wf. cbn. lia. Qed.
  Lemma su_wf_uread u n : su_wf u -> su_wf (fst (fst (uread sc u n))).
  Proof.
    unfold su_wf, uread. intros H.
    destruct (Nat.eqb_spec (length (su_buf u)) (su_pos u)) as [E|E]; cbn [negb].
    - destruct (sread sc (su_src u) n) as ((s', got), e). cbn. lia.
    - cbn. rewrite firstn_length, skipn_length. lia.
  Qed.
End UnreaderLoop.

(* The seeded change C07-unreader-drops-data-with-eof in this vocabulary: an
   unreader that does not record bytes arriving together with an error.  The
   theorem above fails for it: after a rewind the replay is short. *)
Definition uread_drop (sc : sched) (u : sureader) (n : nat) : sureader * bytes * rerr :=
  if negb (length (su_buf u) =? su_pos u) then
    let got := firstn n (skipn (su_pos u) (su_buf u)) in
    (mkSU (su_buf u) (su_pos u + length got) (su_dis u) (su_src u), got, Enil)
  else
    let '(s', got, e) := sread sc (su_src u) n in
    match e with
    | Enil => let b' := if su_dis u then [] else su_buf u ++ got in (mkSU b' (length b') (su_dis u) s', got, e)
    | _ => (mkSU (su_buf u) (su_pos u) (su_dis u) s', got, e)
    end.

Example uread_drop_differs :
  let sc := mkSched (fun _ => 100) (fun _ => true) in          (* EOF together with the data *)
  let u0 := mkSU [] 0 false (mkSS 0 (mkSrc [1; 2; 3]%N None)) in
  (* the faithful unreader: read 5 (gets 3 + EOF), rewind, read 3 again *)
  (match read_full_loop (uread sc) u0 5 with
   | Some (u1, g, k) => (g, k, option_map (fun r => snd (fst r)) (read_full_loop (uread sc) (su_unread u1) 3))
   | None => ([], RFfail, None)
   end) = ([1; 2; 3]%N, RFuneof, Some [1; 2; 3]%N) /\
  (match read_full_loop (uread_drop sc) u0 5 with
   | Some (u1, g, k) => (g, k, option_map (fun r => snd (fst r)) (read_full_loop (uread_drop sc) (su_unread u1) 3))
   | None => ([], RFfail, None)
   end) = ([1; 2; 3]%N, RFuneof, Some []).
Proof. vm_compute. split; reflexivity. Qed.
