(* Centred norms for the ML-DSA model: |x mod+- q| is the least absolute
   value in the residue class, hence sub-additive and sub-multiplicative;
   the coefficient bound for the product of Z_q[X]/(X^256+1),
        || conv a b ||_inf <= || a ||_1 * || b ||_inf ,
   and the meaning of poly.infinityNorm / vector.infinityNorm of algebra.go
   (model: pinfNorm, vinfNorm over the regenerated centeredAbs/centeredMax). *)
From Coq Require Import List ZArith NArith Bool Arith Lia Setoid Morphisms.
From Tink Require Import Bytes Wrap MldsaScalar MldsaScalarProofs MldsaScalarProofs2 MldsaTableProofs
  MldsaKernels MldsaKernelsProofs MldsaPoly Mldsa MldsaNttProofs MldsaAlgebraProofs MldsaConvProofs.
Import ListNotations.
Local Open Scope Z_scope.

Definition cabs (x : Z) : Z := Z.abs (cmod x q).

Ltac Zify.zify_post_hook ::= Z.div_mod_to_equations.
Lemma cmod_cong x : (cmod x q) mod q = x mod q.
Proof.
  unfold cmod. destruct (x mod q <=? q / 2).
  - apply Z.mod_mod. unfold q. lia.
  - rewrite <- (Z.mod_add _ 1) by (unfold q; lia). replace (x mod q - q + 1 * q) with (x mod q) by ring.
    apply Z.mod_mod. unfold q; lia.
Qed.

Lemma cabs_min x r : x mod q = r mod q -> cabs x <= Z.abs r.
Proof.
  intros H. unfold cabs, cmod, q in *. change (8380417 / 2) with 4190208.
  destruct (x mod 8380417 <=? 4190208) eqn:E; [apply Z.leb_le in E | apply Z.leb_gt in E]; lia.
Qed.

Lemma cabs_nonneg x : 0 <= cabs x.
Proof. apply Z.abs_nonneg. Qed.

Lemma cabs_mod x : cabs (x mod q) = cabs x.
Proof. unfold cabs, cmod. rewrite Z.mod_mod by (unfold q; lia). reflexivity. Qed.

Lemma cabs_range x : cabs x <= 4190208.
Proof.
  unfold cabs, cmod, q. change (8380417 / 2) with 4190208.
  destruct (x mod 8380417 <=? 4190208) eqn:E; [apply Z.leb_le in E | apply Z.leb_gt in E]; lia.
Qed.
Ltac Zify.zify_post_hook ::= idtac.

Lemma cabs_0 : cabs 0 = 0. Proof. reflexivity. Qed.
Lemma cabs_1 : cabs 1 = 1. Proof. reflexivity. Qed.
Lemma cabs_m1 : cabs (q - 1) = 1. Proof. reflexivity. Qed.

Lemma cabs_add x y : cabs ((x + y) mod q) <= cabs x + cabs y.
Proof.
  rewrite cabs_mod. eapply Z.le_trans; [apply (cabs_min _ (cmod x q + cmod y q)) | apply Z.abs_triangle].
  rewrite (Zplus_mod (cmod x q)), !cmod_cong, <- Zplus_mod. reflexivity.
Qed.

Lemma cabs_sub x y : cabs ((x - y) mod q) <= cabs x + cabs y.
Proof.
  rewrite cabs_mod. eapply Z.le_trans; [apply (cabs_min _ (cmod x q - cmod y q)) |].
  - rewrite (Zminus_mod (cmod x q)), !cmod_cong, <- Zminus_mod. reflexivity.
  - unfold cabs. lia.
Qed.

Lemma cabs_mul x y : cabs ((x * y) mod q) <= cabs x * cabs y.
Proof.
  rewrite cabs_mod. unfold cabs at 2 3. rewrite <- Z.abs_mul. apply cabs_min.
  rewrite (Zmult_mod (cmod x q)), !cmod_cong, <- Zmult_mod. reflexivity.
Qed.

Lemma cabs_opp x : cabs ((- x) mod q) = cabs x.
Proof.
  apply Z.le_antisymm.
  - rewrite cabs_mod. eapply Z.le_trans; [apply (cabs_min _ (- cmod x q))|].
    + rewrite <- (Z.sub_0_l x), <- (Z.sub_0_l (cmod x q)). rewrite (Zminus_mod 0 (cmod x q)), cmod_cong, <- Zminus_mod. reflexivity.
    + unfold cabs. lia.
  - eapply Z.le_trans; [apply (cabs_min _ (- cmod ((- x) mod q) q))|].
    + rewrite <- (Z.sub_0_l (cmod _ _)). rewrite (Zminus_mod 0 (cmod _ _)), cmod_cong, Z.mod_mod by (unfold q; lia).
      rewrite <- (Z.sub_0_l x), <- Zminus_mod. f_equal. ring.
    + unfold cabs. lia.
Qed.

Lemma cabs_k_neg x : 0 <= x < q -> cabs (k_neg x) = cabs x.
Proof. intros H. rewrite k_neg_spec by exact H. apply cabs_opp. Qed.

(* ------------------------------------------------------------------ *)
(* || a * b ||_inf <= || a ||_1 * || b ||_inf                           *)
(* ------------------------------------------------------------------ *)
Definition l1 (a : list Z) : Z := fold_right (fun x s => cabs x + s) 0 a.
Definition bounded (B : Z) (p : list Z) : Prop := Forall (fun x => cabs x <= B) p.

Lemma l1_nonneg a : 0 <= l1 a.
Proof. induction a as [|x a IH]; cbn [l1 fold_right]; [lia|]. pose proof (cabs_nonneg x). fold (l1 a). lia. Qed.

Lemma bounded_nth B p i : bounded B p -> 0 <= B -> cabs (nth i p 0) <= B.
Proof.
  intros H HB. destruct (Nat.lt_ge_cases i (length p)) as [L|L].
  - unfold bounded in H. rewrite Forall_nth in H. apply H. exact L.
  - rewrite nth_overflow by exact L. exact HB.
Qed.

Lemma bounded_of_nth B p : (forall i, (i < length p)%nat -> cabs (nth i p 0) <= B) -> bounded B p.
Proof.
  intros H. unfold bounded. apply Forall_nth. intros i d Hi. rewrite (nth_indep _ d 0) by exact Hi. auto.
Qed.

Lemma bounded_weaken B B' p : bounded B p -> B <= B' -> bounded B' p.
Proof. intros H L. eapply Forall_impl; [|exact H]. cbv beta. intros. lia. Qed.

Theorem conv_norm_bound a b B : canon a -> cpoly b -> 0 <= B -> bounded B b ->
  bounded (l1 a * B) (conv a b).
Proof.
  intros Ca Hb HB Bb. induction Ca as [|x a Hx Ca IH].
  - cbn [conv l1 fold_right]. apply Forall_forall. intros y Hy. apply repeat_spec in Hy. subst. rewrite cabs_0. lia.
  - cbn [conv l1 fold_right]. fold (l1 a).
    assert (Hr : cpoly (conv a b)) by auto with cpoly.
    assert (C1 : cpoly (scale x b)) by (apply cpoly_scale, cpoly_len; auto).
    pose proof (l1_nonneg a) as Hl.
    apply bounded_of_nth. rewrite (cpoly_len _ (cpoly_padd _ _ C1 (cpoly_shift _ Hr))).
    intros i Hi. rewrite nth_padd by auto with cpoly.
    rewrite nth_scale by (rewrite (cpoly_len b); auto).
    eapply Z.le_trans; [apply cabs_add|]. rewrite cabs_mod.
    assert (E1 : cabs (x * nth i b 0) <= cabs x * B).
    { rewrite <- cabs_mod. eapply Z.le_trans; [apply cabs_mul|].
      apply Z.mul_le_mono_nonneg_l; [apply cabs_nonneg | apply bounded_nth; auto]. }
    assert (E2 : cabs (nth i (shift (conv a b)) 0) <= l1 a * B).
    { destruct i as [|i].
      - rewrite nth_shift_0. rewrite cabs_k_neg by (apply cpoly_nth; auto; lia). apply bounded_nth; auto. nia.
      - rewrite nth_shift_S by lia. apply bounded_nth; auto. nia. }
    lia.
Qed.

(* ------------------------------------------------------------------ *)
(* infinityNorm                                                         *)
(* ------------------------------------------------------------------ *)
Lemma k_centeredAbs_cabs a : 0 <= a < q -> k_centeredAbs a = cabs a.
Proof. intros H. rewrite k_centeredAbs_eq. apply centeredAbs_spec. exact H. Qed.

Lemma k_centeredMax_spec a b : 0 <= a < q -> 0 <= b < q ->
  k_centeredMax a b = if cabs b <=? cabs a then a else b.
Proof. intros Ha Hb. rewrite k_centeredMax_eq. apply centeredMax_spec; auto. Qed.

Lemma fold_centeredMax p : canon p -> forall acc, 0 <= acc < q ->
  let r := fold_left k_centeredMax p acc in
  0 <= r < q /\ cabs acc <= cabs r /\ bounded (cabs r) p.
Proof.
  induction 1 as [|x p Hx Cp IH]; intros acc Ha; cbn [fold_left].
  - repeat split; try lia. constructor.
  - rewrite k_centeredMax_spec by auto.
    destruct (cabs x <=? cabs acc) eqn:E; [apply Z.leb_le in E | apply Z.leb_gt in E].
    + destruct (IH acc Ha) as (R1 & R2 & R3). split; [exact R1|]. split; [exact R2|]. constructor; [lia | exact R3].
    + destruct (IH x Hx) as (R1 & R2 & R3). split; [exact R1|]. split; [lia|]. constructor; [lia | exact R3].
Qed.

Theorem pinfNorm_bounds p : canon p -> bounded (pinfNorm p) p /\ 0 <= pinfNorm p.
Proof.
  intros C. unfold pinfNorm.
  destruct (fold_centeredMax p C 0 ltac:(unfold q; lia)) as (R1 & R2 & R3). cbv zeta in *.
  rewrite k_centeredAbs_cabs by exact R1. split; [exact R3 | apply cabs_nonneg].
Qed.

Lemma fold_max_ge (f : poly -> Z) v : forall acc,
  acc <= fold_left (fun r p => Z.max r (f p)) v acc /\
  Forall (fun p => f p <= fold_left (fun r p => Z.max r (f p)) v acc) v.
Proof.
  induction v as [|p v IH]; intros acc; cbn [fold_left]; [split; [lia | constructor]|].
  destruct (IH (Z.max acc (f p))) as [I1 I2]. split; [lia|]. constructor; [lia | exact I2].
Qed.

Theorem vinfNorm_bounds v : Forall canon v -> Forall (bounded (vinfNorm v)) v /\ 0 <= vinfNorm v.
Proof.
  intros C. unfold vinfNorm. destruct (fold_max_ge pinfNorm v 0) as [I1 I2]. split; [|exact I1].
  rewrite Forall_forall in *. intros p Hp. eapply bounded_weaken; [apply pinfNorm_bounds; auto | auto].
Qed.
