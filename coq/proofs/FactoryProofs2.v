(* C05 across key rotation: what a key of one handle produced, judged by the primitive of a
   LATER handle of the same manager.  Rests on ManagerProofs2.id_denotes_same_key (ids are
   never re-assigned during a manager's lifetime) and on the selection rule of FactoryProofs. *)
From Coq Require Import List NArith Bool Lia Arith.
From Tink Require Import Bytes Manager ManagerProofs ManagerProofs2 Prefix Factory FactoryProofs.
Import ListNotations.
Open Scope N_scope.
Local Arguments be_bytes : simpl never.
Local Arguments firstn : simpl never.

(* two factory entries stand for the same key object with the same prefix *)
Definition same_key (a b : fentry) : Prop :=
  fid a = fid b /\ fpt a = fpt b /\ freq a = freq b /\ flegacy a = flegacy b /\ fkey a = fkey b.

Lemma lift_same_key cls leg e1 e2 :
  kp e1 = kp e2 -> cls e1 = cls e2 -> leg e1 = leg e2 ->
  same_key (lift cls leg e1) (lift cls leg e2).
Proof.
  intros K C L. unfold kp in K. inversion K as [[K1 K2 K3]].
  unfold same_key, lift; simpl. rewrite K1, K2, K3, C, L. repeat split; reflexivity.
Qed.

Lemma same_key_prefix a b : same_key a b -> prefix_of a = prefix_of b /\ fraw a = fraw b.
Proof.
  intros (A & B & C & D & E). unfold prefix_of, fraw. rewrite B, C. split; reflexivity.
Qed.

Section Rotation.
  Variable cls : entry -> ptype.
  Variable leg : entry -> bool.
  (* the prefix variant and the legacy flag are properties of the key object *)
  Hypothesis cls_leg_of_key : forall a b, kp a = kp b -> cls a = cls b /\ leg a = leg b.
  Variable valid : fentry -> bytes -> bool.
  (* validity is decided by the key object and its prefix, not by status or primary flag *)
  Hypothesis valid_of_key : forall a b y, same_key a b -> valid a y = valid b y.

  (* s: the manager state when the first handle was taken (its entries are that handle);
     ops: any later operations on the same manager; l2: the entries of a later handle. *)
  Theorem rotation_between_handles ops s e1 x :
    SInv s -> Forall (fun o => forall k, o <> OFromHandle k) ops ->
    In e1 (ents (smgr s)) ->
    fraw (lift cls leg e1) = false ->
    prefix_of (lift cls leg e1) = firstn nonraw_prefix_size x ->
    valid (lift cls leg e1) x = true ->
    let l2 := ents (smgr (fst (run s ops))) in
    wf_handle l2 -> ents_bounded l2 ->
    let ks2 := map (lift cls leg) l2 in
    (* the key is still in the keyset and ENABLED: accepted, and by that very key *)
    (forall e2, In e2 l2 -> eid e2 = eid e1 -> est e2 = Enabled ->
                accept valid ks2 x = Some (lift cls leg e2)) /\
    (* the key was deleted, disabled or destroyed: rejected unless ANOTHER enabled key
       of the later keyset accepts the input *)
    ((forall e2, In e2 l2 -> eid e2 = eid e1 -> est e2 <> Enabled) ->
     (forall e, In e l2 -> eid e <> eid e1 -> est e = Enabled -> valid (lift cls leg e) x = false) ->
     accept valid ks2 x = None).
  Proof.
    intros HS Hops H1 R P V l2 W B ks2.
    assert (Same : forall e2, In e2 l2 -> eid e2 = eid e1 -> same_key (lift cls leg e2) (lift cls leg e1)).
    { intros e2 H2 Hid. pose proof (id_denotes_same_key ops s e1 HS Hops H1 e2 H2 Hid) as K.
      destruct (cls_leg_of_key _ _ K) as [C L]. apply lift_same_key; auto. }
    split.
    - intros e2 H2 Hid En. pose proof (Same e2 H2 Hid) as SK.
      destruct (same_key_prefix _ _ SK) as [Pf Rw].
      apply accept_prefixed.
      + apply lift_wf; auto.
      + unfold ks2. apply in_map. exact H2.
      + unfold fenabled, lift; simpl. rewrite En. reflexivity.
      + rewrite Rw. exact R.
      + rewrite Pf. exact P.
      + rewrite (valid_of_key _ _ x SK). exact V.
    - intros Hne Hoth. apply reject_if_valid_only_under_non_enabled.
      intros fe Hin Hv. unfold ks2 in Hin. apply in_map_iff in Hin. destruct Hin as (e & <- & He).
      destruct (N.eq_dec (eid e) (eid e1)) as [Hid|Hid].
      + unfold fenabled, lift; simpl. specialize (Hne e He Hid).
        destruct (est e); simpl; auto. contradiction.
      + unfold fenabled, lift; simpl. destruct (est e) eqn:St; simpl; auto.
        rewrite (Hoth e He Hid St) in Hv. discriminate.
  Qed.
End Rotation.

(* non-vacuity: key 5 signs/encrypts in the first handle; after rotation to key 9 it is still
   accepted; after it is disabled or deleted its outputs are rejected *)
Example rotation_example :
  let valid := fun e (x : bytes) => N.eqb (fkey e) (last x 0) in
  let cls := fun _ : entry => PTink in
  let leg := fun _ : entry => false in
  let x := [1; 0; 0; 0; 5; 41] in      (* TINK prefix of id 5, "valid under key object 41" *)
  let run_from ops := fst (run (init_state None [5; 9]) (app [OAddKey (Some 5) 41; OSetPrimary 5] ops)) in
  accept valid (map (lift cls leg) (ents (smgr (run_from [OAddKey (Some 9) 42; OSetPrimary 9])))) x
  = Some (mkF 5 Enabled false PTink 5 false 41) /\
  accept valid (map (lift cls leg) (ents (smgr (run_from [OAddKey (Some 9) 42; OSetPrimary 9; ODisable 5])))) x = None /\
  accept valid (map (lift cls leg) (ents (smgr (run_from [OAddKey (Some 9) 42; OSetPrimary 9; ODelete 5])))) x = None.
Proof. repeat split; vm_compute; reflexivity. Qed.

(* the theorem's hypotheses are met by a concrete history in which the key is DELETED (and one
   in which it is DISABLED) after the first handle, and its second clause then gives the rejection *)
Example rotation_theorem_applies_after_delete_and_disable :
  let valid := fun e (x : bytes) => N.eqb (fkey e) (last x 0) in
  let cls := fun _ : entry => PTink in
  let leg := fun _ : entry => false in
  let x := [1; 0; 0; 0; 5; 41] in
  let s := fst (run (init_state None [5; 9]) [OAddKey (Some 5) 41; OSetPrimary 5]) in
  let e1 := mkEntry 5 Enabled true (Some 5) 41 in
  forall ops, In ops [[OAddKey (Some 9) 42; OSetPrimary 9; ODelete 5];
                      [OAddKey (Some 9) 42; OSetPrimary 9; ODisable 5]] ->
  accept valid (map (lift cls leg) (ents (smgr (fst (run s ops))))) x = None.
Proof.
  intros valid cls leg x s e1 ops Hops.
  assert (HS : SInv s).
  { apply run_inv. apply init_inv. intros h H; discriminate. }
  assert (Hcl : forall a b, kp a = kp b -> cls a = cls b /\ leg a = leg b) by (intros; split; reflexivity).
  assert (Hv : forall a b y, same_key a b -> valid a y = valid b y).
  { intros a b y (_ & _ & _ & _ & K). unfold valid. rewrite K. reflexivity. }
  assert (H1 : In e1 (ents (smgr s))) by (vm_compute; left; reflexivity).
  assert (Hno : Forall (fun o => forall k, o <> OFromHandle k) ops).
  { destruct Hops as [<-|[<-|[]]]; repeat constructor; intros k; discriminate. }
  pose proof (rotation_between_handles cls leg Hcl valid Hv ops s e1 x HS Hno H1
                eq_refl eq_refl eq_refl) as R. cbv zeta in R.
  assert (W : wf_handle (ents (smgr (fst (run s ops))))).
  { split.
    - pose proof (run_inv ops s HS) as [[HE _] _]. exact HE.
    - destruct Hops as [<-|[<-|[]]]; vm_compute; reflexivity. }
  assert (B : ents_bounded (ents (smgr (fst (run s ops))))).
  { intros e He. destruct Hops as [<-|[<-|[]]]; vm_compute in He;
      repeat (destruct He as [<-|He]; [vm_compute; reflexivity|]); destruct He. }
  destruct (R W B) as [_ R2]. apply R2.
  - intros e2 He Hid. destruct Hops as [<-|[<-|[]]]; vm_compute in He;
      repeat (destruct He as [<-|He]; [try discriminate Hid; simpl; discriminate|]); destruct He.
  - intros e He Hid Hen. destruct Hops as [<-|[<-|[]]]; vm_compute in He;
      repeat (destruct He as [<-|He]; [try (exfalso; apply Hid; reflexivity); try discriminate Hen; vm_compute; reflexivity|]); destruct He.
Qed.
