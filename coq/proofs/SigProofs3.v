(* "Modified message / other key" for the four classical schemes, repaired
   after the second audit (AUDIT.md, second audit, item 2).

   What was wrong: the first version assumed, per signature, a law of the form
   "the oracle accepts the genuine raw signature for NO other (key, message
   representative)".  No real primitive satisfies it:
     - ECDSA has public-key recovery: for a valid (r, s) and ANY digest d'
       there is a public key p' = r^-1 (s R - d' G) under which (r, s)
       verifies for d' -- the law is refutable for every genuine signature,
       and the "forgery event" for another key costs nothing;
     - crypto/ecdsa truncates the digest to the order size, so (r, s) also
       verifies for digest || anything under the SAME key;
     - RSA with a free public exponent has duplicate-signature key selection
       (e.g. n' = s - EM, e' = 1 as a mathematical fact about the RSA
       permutation); fixed-size signatures of any scheme verify for some other
       (key, message) by counting.
   So no such law is assumed any more.  What is proved instead, for all inputs
   and every oracle:

   1. ACCEPTANCE = A NAMED ORACLE EVENT (iff).  Verify accepts a signature that
      Sign produced, under a fixed other key and / or other message, exactly
      when the primitive oracle accepts the genuine raw signature under THAT
      key for THAT message representative.  No claim that the event is hard.
   2. SAME KEY, OTHER MESSAGE (the EUF-CMA shaped clause): acceptance exhibits
      an oracle acceptance of the genuine raw signature under the same key for
      another message representative, or a hash collision on two distinct
      strings.
   3. OTHER KEY, ECDSA: the literal clause "signatures are rejected under
      other keys" is REFUTED: as soon as another point verifies the genuine
      (r, s) for the digest in question (which public-key recovery provides,
      for any message), ~ (forall pub' <> pub, Verify pub' = Err). *)
From Coq Require Import List NArith ZArith Bool Lia Arith.
From Tink Require Import Bytes DER DERProofs Sig SigProofs SigProofs2.
Import ListNotations.
Open Scope N_scope.

(* ------------------------------------------------------------------ *)
(* Ed25519                                                              *)

Section Ed.
  Variable ed_raw : bytes -> bytes -> bytes -> bool.
  Variable ed_sign : bytes -> bytes -> bytes.

  (* the named event: ed_raw pub' (msg' || sfx) (genuine raw signature) *)
  Theorem ed25519_genuine_accept_iff v id seed msg sig pub' msg' :
    ed25519_sign ed_sign v id seed msg = Ok sig ->
    (ed25519_verify ed_raw v id pub' sig msg' = Ok tt <->
     ed_raw pub' (msg' ++ suffix v) (ed_sign seed (msg ++ suffix v)) = true).
  Proof.
    intros Hs. unfold ed25519_sign in Hs.
    destruct (Nat.eqb (length (ed_sign seed (msg ++ suffix v))) 64) eqn:Hl; [|discriminate].
    cbn [negb] in Hs. injection Hs as <-. rewrite ed25519_is_framed. split.
    - intros Hv. apply framed_genuine_body in Hv. unfold ed_chk in Hv.
      apply andb_true_iff in Hv. tauto.
    - intros Hr. apply framed_ok_iff. eexists. split; [reflexivity|].
      unfold ed_chk. rewrite Hl, Hr. reflexivity.
  Qed.

  Theorem ed25519_genuine_reject_iff v id seed msg sig pub' msg' :
    ed25519_sign ed_sign v id seed msg = Ok sig ->
    (ed25519_verify ed_raw v id pub' sig msg' = Err <->
     ed_raw pub' (msg' ++ suffix v) (ed_sign seed (msg ++ suffix v)) = false).
  Proof.
    intros Hs. pose proof (ed25519_genuine_accept_iff v id seed msg sig pub' msg' Hs) as Hi.
    rewrite ed25519_is_framed in *.
    destruct (framed_total v id (ed_chk ed_raw pub') sig msg') as [Ho|He].
    - split; [rewrite Ho; discriminate|]. intros Hf. apply Hi in Ho. congruence.
    - split; [|intros _; exact He]. intros _.
      destruct (ed_raw pub' (msg' ++ suffix v) (ed_sign seed (msg ++ suffix v))) eqn:Hr; [|reflexivity].
      assert (Hk : Err = Ok tt) by (rewrite <- He; apply Hi; reflexivity). discriminate Hk.
  Qed.

  (* same key, other message: the oracle accepted the genuine raw signature,
     under the same key, for a message it was not made for *)
  Theorem ed25519_same_key_other_message_reduction v id seed pub msg sig msg' :
    ed25519_sign ed_sign v id seed msg = Ok sig ->
    ed25519_verify ed_raw v id pub sig msg' = Ok tt ->
    msg' <> msg ->
    ed_raw pub (msg' ++ suffix v) (ed_sign seed (msg ++ suffix v)) = true /\
    msg' ++ suffix v <> msg ++ suffix v.
  Proof.
    intros Hs Hv Hne. split.
    - apply (ed25519_genuine_accept_iff v id seed msg sig pub msg' Hs). exact Hv.
    - intros E. apply app_inv_tail in E. contradiction.
  Qed.
End Ed.

(* ------------------------------------------------------------------ *)
(* RSA-SSA-PKCS1 / PSS                                                  *)

Section Rsa.
  Variable H : hasht -> bytes -> bytes.
  Variable pkcs1_raw : bytes -> N -> hasht -> bytes -> bytes -> bool.
  Variable pss_raw : bytes -> N -> hasht -> N -> bytes -> bytes -> bool.
  Variable pkcs1_sign_raw : bytes -> hasht -> bytes -> bytes.
  Variable pss_sign_raw : bytes -> hasht -> N -> bytes -> bytes -> bytes.

  (* k' : any key with the same output prefix; modulus, exponent, hash (and
     salt length) may differ *)
  Theorem pkcs1_genuine_accept_iff k k' sk msg msg' :
    rsa_same_prefix k k' ->
    let sfx := suffix (rk_variant k) in
    let body := pkcs1_sign_raw sk (rk_hash k) (H (rk_hash k) (msg ++ sfx)) in
    (pkcs1_verify H pkcs1_raw k' (pkcs1_sign H pkcs1_sign_raw k sk msg) msg' = Ok tt <->
     pkcs1_raw (rk_n k') (rk_e k') (rk_hash k') (H (rk_hash k') (msg' ++ sfx)) body = true) /\
    (pkcs1_verify H pkcs1_raw k' (pkcs1_sign H pkcs1_sign_raw k sk msg) msg' = Err <->
     pkcs1_raw (rk_n k') (rk_e k') (rk_hash k') (H (rk_hash k') (msg' ++ sfx)) body = false).
  Proof.
    intros [Sv Si] sfx body. rewrite pkcs1_is_framed. unfold pkcs1_sign. rewrite Sv, Si.
    fold sfx. fold body.
    assert (Hi : framed_verify (rk_variant k) (rk_id k) (pkcs1_chk H pkcs1_raw k')
                   (frame (rk_variant k) (rk_id k) body) msg' = Ok tt <->
                 pkcs1_raw (rk_n k') (rk_e k') (rk_hash k') (H (rk_hash k') (msg' ++ sfx)) body = true).
    { split.
      - intros Hv. apply framed_genuine_body in Hv. exact Hv.
      - intros Hr. apply framed_ok_iff. exists body. split; [reflexivity|exact Hr]. }
    split; [exact Hi|].
    destruct (framed_total (rk_variant k) (rk_id k) (pkcs1_chk H pkcs1_raw k')
                (frame (rk_variant k) (rk_id k) body) msg') as [Ho|He].
    - rewrite Ho. split; [discriminate|]. intros Hf. apply Hi in Ho. congruence.
    - rewrite He. split; [|reflexivity]. intros _.
      destruct (pkcs1_raw (rk_n k') (rk_e k') (rk_hash k') (H (rk_hash k') (msg' ++ sfx)) body) eqn:Hr;
        [|reflexivity].
      assert (Hk : Err = Ok tt) by (rewrite <- He; apply Hi; reflexivity). discriminate Hk.
  Qed.

  Theorem pss_genuine_accept_iff k k' sk rnd msg msg' :
    rsa_same_prefix k k' ->
    let sfx := suffix (rk_variant k) in
    let body := pss_sign_raw sk (rk_hash k) (rk_salt k) (H (rk_hash k) (msg ++ sfx)) rnd in
    (pss_verify H pss_raw k' (pss_sign H pss_sign_raw k sk rnd msg) msg' = Ok tt <->
     pss_raw (rk_n k') (rk_e k') (rk_hash k') (rk_salt k') (H (rk_hash k') (msg' ++ sfx)) body = true) /\
    (pss_verify H pss_raw k' (pss_sign H pss_sign_raw k sk rnd msg) msg' = Err <->
     pss_raw (rk_n k') (rk_e k') (rk_hash k') (rk_salt k') (H (rk_hash k') (msg' ++ sfx)) body = false).
  Proof.
    intros [Sv Si] sfx body. rewrite pss_is_framed. unfold pss_sign. rewrite Sv, Si.
    fold sfx. fold body.
    assert (Hi : framed_verify (rk_variant k) (rk_id k) (pss_chk H pss_raw k')
                   (frame (rk_variant k) (rk_id k) body) msg' = Ok tt <->
                 pss_raw (rk_n k') (rk_e k') (rk_hash k') (rk_salt k') (H (rk_hash k') (msg' ++ sfx)) body = true).
    { split.
      - intros Hv. apply framed_genuine_body in Hv. exact Hv.
      - intros Hr. apply framed_ok_iff. exists body. split; [reflexivity|exact Hr]. }
    split; [exact Hi|].
    destruct (framed_total (rk_variant k) (rk_id k) (pss_chk H pss_raw k')
                (frame (rk_variant k) (rk_id k) body) msg') as [Ho|He].
    - rewrite Ho. split; [discriminate|]. intros Hf. apply Hi in Ho. congruence.
    - rewrite He. split; [|reflexivity]. intros _.
      destruct (pss_raw (rk_n k') (rk_e k') (rk_hash k') (rk_salt k') (H (rk_hash k') (msg' ++ sfx)) body) eqn:Hr;
        [|reflexivity].
      assert (Hk : Err = Ok tt) by (rewrite <- He; apply Hi; reflexivity). discriminate Hk.
  Qed.

  Lemma rsa_same_prefix_refl k : rsa_same_prefix k k.
  Proof. split; reflexivity. Qed.

  (* same key, other message: another digest accepted under the same key for
     the genuine raw signature, or a collision on two distinct strings *)
  Theorem pkcs1_same_key_other_message_reduction k sk msg msg' :
    pkcs1_verify H pkcs1_raw k (pkcs1_sign H pkcs1_sign_raw k sk msg) msg' = Ok tt ->
    msg' <> msg ->
    let sfx := suffix (rk_variant k) in
    let body := pkcs1_sign_raw sk (rk_hash k) (H (rk_hash k) (msg ++ sfx)) in
    pkcs1_raw (rk_n k) (rk_e k) (rk_hash k) (H (rk_hash k) (msg' ++ sfx)) body = true /\
    (H (rk_hash k) (msg' ++ sfx) <> H (rk_hash k) (msg ++ sfx) \/
     (H (rk_hash k) (msg' ++ sfx) = H (rk_hash k) (msg ++ sfx) /\ msg' ++ sfx <> msg ++ sfx)).
  Proof.
    intros Hv Hne sfx body.
    destruct (pkcs1_genuine_accept_iff k k sk msg msg' (rsa_same_prefix_refl k)) as [Hi _].
    split; [apply Hi; exact Hv|].
    destruct (list_eq_dec N.eq_dec (H (rk_hash k) (msg' ++ sfx)) (H (rk_hash k) (msg ++ sfx))) as [Ed|Ed];
      [right|left; exact Ed].
    split; [exact Ed|]. intros E. apply app_inv_tail in E. contradiction.
  Qed.

  Theorem pss_same_key_other_message_reduction k sk rnd msg msg' :
    pss_verify H pss_raw k (pss_sign H pss_sign_raw k sk rnd msg) msg' = Ok tt ->
    msg' <> msg ->
    let sfx := suffix (rk_variant k) in
    let body := pss_sign_raw sk (rk_hash k) (rk_salt k) (H (rk_hash k) (msg ++ sfx)) rnd in
    pss_raw (rk_n k) (rk_e k) (rk_hash k) (rk_salt k) (H (rk_hash k) (msg' ++ sfx)) body = true /\
    (H (rk_hash k) (msg' ++ sfx) <> H (rk_hash k) (msg ++ sfx) \/
     (H (rk_hash k) (msg' ++ sfx) = H (rk_hash k) (msg ++ sfx) /\ msg' ++ sfx <> msg ++ sfx)).
  Proof.
    intros Hv Hne sfx body.
    destruct (pss_genuine_accept_iff k k sk rnd msg msg' (rsa_same_prefix_refl k)) as [Hi _].
    split; [apply Hi; exact Hv|].
    destruct (list_eq_dec N.eq_dec (H (rk_hash k) (msg' ++ sfx)) (H (rk_hash k) (msg ++ sfx))) as [Ed|Ed];
      [right|left; exact Ed].
    split; [exact Ed|]. intros E. apply app_inv_tail in E. contradiction.
  Qed.
End Rsa.

(* ------------------------------------------------------------------ *)
(* ECDSA                                                                *)

Section Ecdsa.
  Variable H : hasht -> bytes -> bytes.
  Variable raw : curve -> bytes -> bytes -> N -> N -> bool.
  Variable sign_rs : curve -> bytes -> bytes -> bytes -> N * N.
  Hypothesis sign_range :
    forall c sk h rnd, fst (sign_rs c sk h rnd) < 256 ^ N.of_nat (field_size c) /\
                       snd (sign_rs c sk h rnd) < 256 ^ N.of_nat (field_size c).

  Lemma ecdsa_sign_shape k sk rnd msg sig :
    ecdsa_sign H sign_rs k sk rnd msg = Some sig ->
    let rs := sign_rs (ek_curve k) sk (H (ek_hash k) (msg ++ suffix (ek_variant k))) rnd in
    ecdsa_frame k (fst rs) (snd rs) = Some sig /\ sig_fits k (fst rs) (snd rs) /\ wfb sig.
  Proof.
    intros Hs rs. unfold ecdsa_sign in Hs. fold rs in Hs.
    pose proof (sign_range (ek_curve k) sk (H (ek_hash k) (msg ++ suffix (ek_variant k))) rnd) as [Br Bs].
    fold rs in Br, Bs.
    assert (Hf : sig_fits k (fst rs) (snd rs)).
    { unfold sig_fits. destruct (ek_enc k); [|exact I].
      eapply der_fits_small; [apply field_size_le|exact Br|exact Bs]. }
    split; [exact Hs|]. split; [exact Hf|]. eapply ecdsa_frame_wf; eassumption.
  Qed.

  (* the verifying key keeps curve, encoding and prefix; any point and hash *)
  Theorem ecdsa_genuine_accept_iff k sk rnd msg sig pub' h' msg' :
    ecdsa_sign H sign_rs k sk rnd msg = Some sig ->
    let sfx := suffix (ek_variant k) in
    let rs := sign_rs (ek_curve k) sk (H (ek_hash k) (msg ++ sfx)) rnd in
    (ecdsa_verify H raw (ecdsa_with_pub_hash k pub' h') sig msg' = Ok tt <->
     raw (ek_curve k) pub' (H h' (msg' ++ sfx)) (fst rs) (snd rs) = true) /\
    (ecdsa_verify H raw (ecdsa_with_pub_hash k pub' h') sig msg' = Err <->
     raw (ek_curve k) pub' (H h' (msg' ++ sfx)) (fst rs) (snd rs) = false).
  Proof.
    intros Hs sfx rs. destruct (ecdsa_sign_shape k sk rnd msg sig Hs) as [Hfr [Hf Hw]].
    fold sfx in Hfr, Hf. fold rs in Hfr, Hf.
    assert (Hi : ecdsa_verify H raw (ecdsa_with_pub_hash k pub' h') sig msg' = Ok tt <->
                 raw (ek_curve k) pub' (H h' (msg' ++ sfx)) (fst rs) (snd rs) = true).
    { rewrite (ecdsa_verify_iff_proof H raw (ecdsa_with_pub_hash k pub' h') sig msg' Hw).
      cbn [ecdsa_with_pub_hash ek_curve ek_pub ek_hash ek_variant]. fold sfx. split.
      - intros [r' [s' [Hfr' [Hf' Hr]]]].
        assert (A : ecdsa_frame k r' s' = Some sig) by exact Hfr'.
        assert (B : sig_fits k r' s') by exact Hf'.
        destruct (ecdsa_frame_inj k _ _ _ _ _ Hfr A Hf B) as [<- <-]. exact Hr.
      - intros Hr. exists (fst rs), (snd rs). split; [exact Hfr|]. split; [exact Hf|exact Hr]. }
    split; [exact Hi|].
    destruct (ecdsa_verify H raw (ecdsa_with_pub_hash k pub' h') sig msg') as [[]| |] eqn:Hv.
    - split; [discriminate|]. intros Hf'. assert (X : raw (ek_curve k) pub' (H h' (msg' ++ sfx)) (fst rs) (snd rs) = true)
        by (apply Hi; reflexivity). congruence.
    - split; [|reflexivity]. intros _.
      destruct (raw (ek_curve k) pub' (H h' (msg' ++ sfx)) (fst rs) (snd rs)) eqn:Hr; [|reflexivity].
      assert (Hk : Err = Ok tt) by (apply Hi; reflexivity). discriminate Hk.
    - exfalso. eapply ecdsa_verify_no_panic_proof. exact Hv.
  Qed.

  (* same key (same point, same hash), other message *)
  Theorem ecdsa_same_key_other_message_reduction k sk rnd msg sig msg' :
    ecdsa_sign H sign_rs k sk rnd msg = Some sig ->
    ecdsa_verify H raw k sig msg' = Ok tt ->
    msg' <> msg ->
    let sfx := suffix (ek_variant k) in
    let rs := sign_rs (ek_curve k) sk (H (ek_hash k) (msg ++ sfx)) rnd in
    raw (ek_curve k) (ek_pub k) (H (ek_hash k) (msg' ++ sfx)) (fst rs) (snd rs) = true /\
    (H (ek_hash k) (msg' ++ sfx) <> H (ek_hash k) (msg ++ sfx) \/
     (H (ek_hash k) (msg' ++ sfx) = H (ek_hash k) (msg ++ sfx) /\ msg' ++ sfx <> msg ++ sfx)).
  Proof.
    intros Hs Hv Hne sfx rs.
    destruct (ecdsa_genuine_accept_iff k sk rnd msg sig (ek_pub k) (ek_hash k) msg' Hs) as [Hi _].
    assert (Ek : ecdsa_with_pub_hash k (ek_pub k) (ek_hash k) = k) by (destruct k; reflexivity).
    rewrite Ek in Hi. split; [apply Hi; exact Hv|].
    destruct (list_eq_dec N.eq_dec (H (ek_hash k) (msg' ++ sfx)) (H (ek_hash k) (msg ++ sfx))) as [Ed|Ed];
      [right|left; exact Ed].
    split; [exact Ed|]. intros E. apply app_inv_tail in E. contradiction.
  Qed.

  (* OTHER KEY: the literal clause "rejected under every other key" is false
     as soon as some other point verifies the genuine (r, s) for the digest in
     question -- which ECDSA public-key recovery provides: p' = r^-1 (s R - d' G)
     for a point R with abscissa r (harness: recoverECDSAKey). *)
  Theorem ecdsa_other_key_rejected_refuted k sk rnd msg sig h' msg' p' :
    ecdsa_sign H sign_rs k sk rnd msg = Some sig ->
    let sfx := suffix (ek_variant k) in
    let rs := sign_rs (ek_curve k) sk (H (ek_hash k) (msg ++ sfx)) rnd in
    raw (ek_curve k) p' (H h' (msg' ++ sfx)) (fst rs) (snd rs) = true ->
    p' <> ek_pub k ->
    ~ (forall pub', pub' <> ek_pub k ->
         ecdsa_verify H raw (ecdsa_with_pub_hash k pub' h') sig msg' = Err).
  Proof.
    intros Hs sfx rs Hr Hne Hall.
    destruct (ecdsa_genuine_accept_iff k sk rnd msg sig p' h' msg' Hs) as [Hi _].
    assert (Ho : ecdsa_verify H raw (ecdsa_with_pub_hash k p' h') sig msg' = Ok tt) by (apply Hi; exact Hr).
    rewrite (Hall p' Hne) in Ho. discriminate.
  Qed.

  (* the same from an EXISTENCE law on the oracle: whenever (r, s) verifies for
     d under p, it also verifies for d under some other point (real ECDSA: the
     key recovered from the second candidate -R).  Then the genuine signature,
     for the genuine message, is accepted under a key other than the signer's. *)
  Theorem ecdsa_other_key_rejected_refuted_by_existence k sk rnd msg sig :
    (forall c p d r s, raw c p d r s = true -> exists p', p' <> p /\ raw c p' d r s = true) ->
    ecdsa_sign H sign_rs k sk rnd msg = Some sig ->
    ecdsa_verify H raw k sig msg = Ok tt ->
    ~ (forall pub', pub' <> ek_pub k ->
         ecdsa_verify H raw (ecdsa_with_pub_hash k pub' (ek_hash k)) sig msg = Err).
  Proof.
    intros Hex Hs Hv.
    destruct (ecdsa_genuine_accept_iff k sk rnd msg sig (ek_pub k) (ek_hash k) msg Hs) as [Hi _].
    assert (Ek : ecdsa_with_pub_hash k (ek_pub k) (ek_hash k) = k) by (destruct k; reflexivity).
    rewrite Ek in Hi. apply Hi in Hv. destruct (Hex _ _ _ _ _ Hv) as [p' [Hne Hr]].
    eapply ecdsa_other_key_rejected_refuted; eassumption.
  Qed.
End Ecdsa.
