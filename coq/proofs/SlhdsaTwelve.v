(* Assemblies for props/C16.v: the section-4 building blocks, and the twelve
   parameter sets with the hash.go instantiations (all premises discharged from
   the digest lengths of the stdlib primitives and the regenerated tables). *)
From Coq Require Import List NArith Bool Arith Lia.
From Tink Require Import Bytes SlhdsaSupport SlhdsaAddr SlhdsaBase SlhdsaWots SlhdsaXmss SlhdsaFors SlhdsaHt
  Slhdsa SlhdsaHash SlhdsaParams SlhdsaSpec SlhdsaListProofs
  SlhdsaSupportProofs SlhdsaWotsProofs SlhdsaXmssProofs SlhdsaForsProofs SlhdsaHtProofs SlhdsaProofs SlhdsaParamsProofs
  SlhdsaFipsSupport SlhdsaFipsLayers SlhdsaFipsTop SlhdsaFipsHash ConstsTieC16 SlhdsaForgery.
From Tink Require SlhdsaFips.
Import ListNotations.
Open Scope N_scope.

Lemma section4_functions_fips :
  (forall x k, SlhdsaSupport.toByte x k = F.toByte (u32 x) k) /\
  (forall X k, SlhdsaSupport.toInt X k = F.toInt X k mod 2 ^ 64) /\
  (forall X b out, (b + 7 <= 32)%nat -> base2b X b out = F.base_2b X b out) /\
  (forall P, (1 <= p_lgw P)%nat ->
     F.f_len1 (to_fips P) = p_len1 P /\ F.f_len2 (to_fips P) = p_len2 P /\ F.f_len (to_fips P) = p_len P) /\
  (forall ad l t y i,
     F.setLayerAddress l (adrs_bytes ad) = adrs_bytes (setLayerAddress l ad) /\
     (t < 2 ^ 64 -> F.setTreeAddress t (adrs_bytes ad) = adrs_bytes (setTreeAddress t ad)) /\
     F.setTypeAndClear y (adrs_bytes ad) = adrs_bytes (setTypeAndClear y ad) /\
     F.setKeyPairAddress i (adrs_bytes ad) = adrs_bytes (setKeyPairAddress i ad) /\
     F.setChainAddress i (adrs_bytes ad) = adrs_bytes (setChainAddress i ad) /\
     F.setTreeHeight i (adrs_bytes ad) = adrs_bytes (setTreeHeight i ad) /\
     F.setHashAddress i (adrs_bytes ad) = adrs_bytes (setHashAddress i ad) /\
     F.setTreeIndex i (adrs_bytes ad) = adrs_bytes (setTreeIndex i ad) /\
     F.getKeyPairAddress (adrs_bytes ad) = a_kp ad mod 2 ^ 32 /\
     F.getTreeIndex (adrs_bytes ad) = a_w3 ad mod 2 ^ 32 /\
     F.ADRSc (adrs_bytes ad) = compress ad /\ length (adrs_bytes ad) = 32%nat) /\
  F.toByte 0 32 = adrs_bytes newAddress.
Proof.
  split; [intros; unfold SlhdsaSupport.toByte; symmetry; apply toByte_be|].
  split; [exact toInt_fips|]. split; [intros X b out H; apply base2b_fips; exact H|].
  split; [intros P H; auto using f_len1_eq, f_len2_eq, f_len_eq|].
  split; [|exact AB_zero].
  intros ad l t y i. repeat split; auto using AB_setLayer, AB_setTree, AB_setType, AB_setKP, AB_setChain, AB_setHeight,
    AB_setHash, AB_setIndex, AB_getKP, AB_getIndex, AB_compress, AB_length.
Qed.

Lemma twelve_sets_compute_fips :
  forall (sha256 sha512 : bytes -> bytes) (shake256 : bytes -> nat -> bytes) (hmac256 hmac512 : bytes -> bytes -> bytes),
    (forall m, length (sha256 m) = 32%nat) -> (forall m, length (sha512 m) = 64%nat) ->
  forall s, In s all_sets ->
    let P := fst s in
    let FP := to_fips P in
    let HS := mk_hashes sha256 sha512 shake256 hmac256 hmac512 (snd s) P in
    let HF := fips_inst sha256 sha512 shake256 hmac256 hmac512 (family_of (snd s)) (F.f_n FP) (F.f_m FP) in
    In (row_of s) F.table2 /\
    (forall skSeed skPrf pkSeed,
       keygen P HS skSeed skPrf pkSeed = F.sk_encode (fst (F.slh_keygen_internal FP HF skSeed skPrf pkSeed))) /\
    (forall skSeed skPrf pkSeed pkRoot msg addrnd,
       signInternal P HS skSeed skPrf pkSeed pkRoot msg addrnd
       = F.slh_sign_internal FP HF msg (skSeed, skPrf, pkSeed, pkRoot) addrnd) /\
    (forall pkSeed pkRoot msg sig,
       verifyInternal P HS pkSeed pkRoot msg sig = F.slh_verify_internal FP HF msg sig (pkSeed, pkRoot)) /\
    (forall sk msg ctx addrnd,
       sign P HS sk msg ctx addrnd
       = match F.sk_decode FP sk with Some SK => F.slh_sign FP HF msg ctx SK addrnd | None => None end) /\
    (forall pk msg sig ctx,
       verify P HS pk msg sig ctx
       = match F.pk_decode FP pk with Some PK => Some (F.slh_verify FP HF msg sig ctx PK) | None => None end).
Proof.
  intros sha256 sha512 shake256 hmac256 hmac512 H1 H2 s Hs P FP HS HF.
  pose proof (in_all_sets_fips_wf s Hs) as WF.
  pose proof (mk_hashes_fips sha256 sha512 shake256 hmac256 hmac512 H1 H2 (snd s) P) as AG.
  split; [rewrite <- tie_all_sets; apply in_map; exact Hs|].
  split; [exact (keygen_encoded_fips P HS HF AG WF)|].
  split; [exact (signInternal_fips P HS HF AG WF)|].
  split; [exact (verifyInternal_fips_alg20 P HS HF AG WF)|].
  split; [exact (sign_fips P HS HF AG WF)|exact (verify_fips P HS HF AG WF)].
Qed.

Lemma twelve_sets_keypair :
  forall (sha256 sha512 : bytes -> bytes) (shake256 : bytes -> nat -> bytes) (hmac256 hmac512 : bytes -> bytes -> bytes),
    (forall m, length (sha256 m) = 32%nat) -> (forall m, length (sha512 m) = 64%nat) ->
    (forall m l, length (shake256 m l) = l) ->
    (forall k m, length (hmac256 k m) = 32%nat) -> (forall k m, length (hmac512 k m) = 64%nat) ->
  forall s, In s all_sets ->
    let P := fst s in
    let FP := to_fips P in
    let HS := mk_hashes sha256 sha512 shake256 hmac256 hmac512 (snd s) P in
    let HF := fips_inst sha256 sha512 shake256 hmac256 hmac512 (family_of (snd s)) (F.f_n FP) (F.f_m FP) in
  forall skSeed skPrf pkSeed,
    length skSeed = p_n P -> length skPrf = p_n P -> length pkSeed = p_n P ->
    let sk := keygen P HS skSeed skPrf pkSeed in
    let pk := skipn (2 * p_n P) sk in
    let root := snd (snd (F.slh_keygen_internal FP HF skSeed skPrf pkSeed)) in
    sk = skSeed ++ skPrf ++ pkSeed ++ root /\ pk = pkSeed ++ root /\
    length sk = (4 * p_n P)%nat /\ length pk = (2 * p_n P)%nat /\
    forall msg ctx addrnd, (length ctx <= 255)%nat ->
      exists sig, sign P HS sk msg ctx addrnd = Some sig /\ verify P HS pk msg sig ctx = Some true.
Proof.
  intros sha256 sha512 shake256 hmac256 hmac512 H1 H2 H3 H4 H5 s Hs P FP HS HF skSeed skPrf pkSeed L1 L2 L3 sk pk root.
  pose proof (in_all_sets_fips_wf s Hs) as WF.
  pose proof (mk_hashes_fips sha256 sha512 shake256 hmac256 hmac512 H1 H2 (snd s) P) as AG.
  destruct (all_sets_wf s Hs) as [PW Hn].
  pose proof (mk_hashes_ok _ _ _ _ _ H1 H2 H3 H4 H5 (snd s) P Hn) as OK.
  assert (Er : root = keygenRoot P HS skSeed pkSeed) by (unfold root; rewrite (keygen_fips P HS HF AG WF); reflexivity).
  assert (Lr : length root = p_n P).
  { rewrite Er. unfold keygenRoot. rewrite (proj1 (xmssNode_spec _ _ _ _ _ _ _)). apply xmssNodeS_length. exact OK. }
  assert (Esk : sk = skSeed ++ skPrf ++ pkSeed ++ root) by (unfold sk, keygen; rewrite Er; reflexivity).
  assert (Epk : pk = pkSeed ++ root).
  { unfold pk. rewrite Esk, app_assoc. apply skipn_app_exact. rewrite app_length. lia. }
  split; [exact Esk|]. split; [exact Epk|].
  split; [rewrite Esk, !app_length; lia|]. split; [rewrite Epk, app_length; lia|].
  intros msg ctx addrnd Hc.
  destruct (verify_sign P HS OK PW skSeed skPrf pkSeed msg ctx addrnd L1 L2 L3 Hc) as (sig & A & _ & B).
  exists sig. split; [exact A|exact B].
Qed.


(* ---------- the premises of the modified-signature reduction for the twelve sets ---------- *)
Definition digits_wfb (P : params) : bool :=
  Nat.eqb (p_len1 P * p_lgw P) (8 * p_n P) && Nat.leb 1 (p_lgw P) && Nat.leb (p_lgw P) 25 && Nat.leb (p_len2 P * p_lgw P) 32.

Lemma digits_wfb_spec P : digits_wfb P = true -> digits_wf P.
Proof.
  unfold digits_wfb, digits_wf. intros H. repeat (apply andb_prop in H; destruct H as [H ?]).
  apply Nat.eqb_eq in H. repeat match goal with X : Nat.leb _ _ = true |- _ => apply Nat.leb_le in X end. lia.
Qed.

Lemma all_sets_digits_wf : forall s, In s all_sets -> digits_wf (fst s).
Proof.
  assert (A : forallb (fun s => digits_wfb (fst s)) all_sets = true) by (vm_compute; reflexivity).
  intros s Hs. apply digits_wfb_spec. rewrite forallb_forall in A. exact (A s Hs).
Qed.

Lemma mk_hashes_wfb (sha256 sha512 : bytes -> bytes) (shake256 : bytes -> nat -> bytes) (hmac256 hmac512 : bytes -> bytes -> bytes) :
  (forall m, wfb (sha256 m)) -> (forall m, wfb (sha512 m)) -> (forall m l, wfb (shake256 m l)) ->
  forall hk P, hashes_wfb (mk_hashes sha256 sha512 shake256 hmac256 hmac512 hk P).
Proof.
  intros W1 W2 W3 hk P. destruct hk; constructor; intros; cbn [mk_hashes hH hTl];
    unfold shakeF, sha2C1F, sha2C35H; auto using wfb_firstn.
Qed.

(* same key, same message, same R, different accepted signature: located switch or collision,
   for the twelve sets as instantiated by hash.go, from laws of the stdlib primitives only *)
Lemma twelve_sets_modified_signature :
  forall (sha256 sha512 : bytes -> bytes) (shake256 : bytes -> nat -> bytes) (hmac256 hmac512 : bytes -> bytes -> bytes),
    (forall m, length (sha256 m) = 32%nat) -> (forall m, length (sha512 m) = 64%nat) ->
    (forall m l, length (shake256 m l) = l) ->
    (forall k m, length (hmac256 k m) = 32%nat) -> (forall k m, length (hmac512 k m) = 64%nat) ->
    (forall m, wfb (sha256 m)) -> (forall m, wfb (sha512 m)) -> (forall m l, wfb (shake256 m l)) ->
  forall s, In s all_sets ->
    let P := fst s in
    let HS := mk_hashes sha256 sha512 shake256 hmac256 hmac512 (snd s) P in
  forall pkSeed pkRoot msg sig sig',
    verifyInternal P HS pkSeed pkRoot msg sig = true -> verifyInternal P HS pkSeed pkRoot msg sig' = true ->
    firstn (p_n P) sig = firstn (p_n P) sig' -> sig <> sig' ->
    sig_switch P HS pkSeed pkRoot msg sig sig' = true \/ located_collision P HS pkSeed pkRoot msg sig sig' = true.
Proof.
  intros sha256 sha512 shake256 hmac256 hmac512 H1 H2 H3 H4 H5 W1 W2 W3 s Hs P HS.
  destruct (all_sets_wf s Hs) as [PW Hn].
  exact (modified_signature_accepted P HS (mk_hashes_ok _ _ _ _ _ H1 H2 H3 H4 H5 (snd s) P Hn) PW
           (mk_hashes_wfb _ _ _ _ _ W1 W2 W3 (snd s) P) (all_sets_digits_wf s Hs)).
Qed.
