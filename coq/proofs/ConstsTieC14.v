(* Ties between the constants REGENERATED from the Go source (gen/RepoConsts.v)
   and the hand-written constants the C14 model is stated over.  A source edit that
   changes a minimum or limit changes the regenerated definition and one of these
   lemmas stops checking. *)
From Coq Require Import NArith ZArith List String.
From Tink Require Import RepoConsts UntrustedConsts.
Open Scope N_scope.

(* every regenerated constant this file needs is named in a lemma below: if the translator
   cannot find one in the source its definition is missing and that lemma stops checking;
   constants of other properties do not matter here *)

(* C14: minimum strengths *)
Lemma tie_hmac_min_key_prim : gen_hmac_min_key_prim = hmac_min_key_prim. Proof. reflexivity. Qed.
Lemma tie_hmac_min_tag_prim : gen_hmac_min_tag_prim = hmac_min_tag_prim. Proof. reflexivity. Qed.
Lemma tie_hmac_min_key_parse : gen_hmac_min_key_parse = hmac_min_key_parse. Proof. reflexivity. Qed.
Lemma tie_hmac_min_tag_parse : gen_hmac_min_tag_parse = hmac_min_tag_parse. Proof. reflexivity. Qed.
Lemma tie_hkdf_min_key_prim : gen_hkdf_min_key_prim = hkdf_min_key_prim. Proof. reflexivity. Qed.
Lemma tie_hkdf_min_key_parse : gen_hkdf_min_key_parse = hkdf_min_key_parse. Proof. reflexivity. Qed.
Lemma tie_hmacprf_min_key_prim : gen_hmacprf_min_key_prim = hmacprf_min_key_prim. Proof. reflexivity. Qed.
Lemma tie_hmacprf_min_key_parse : gen_hmacprf_min_key_parse = hmacprf_min_key_parse. Proof. reflexivity. Qed.
Lemma tie_cmac_key_prim : gen_cmac_key_prim = cmac_key_prim. Proof. reflexivity. Qed.
Lemma tie_cmac_min_tag : gen_cmac_min_tag = cmac_min_tag. Proof. reflexivity. Qed.
Lemma tie_cmac_max_tag : gen_cmac_max_tag = cmac_max_tag. Proof. reflexivity. Qed.
Lemma tie_rsa_min_bits_prim : gen_rsa_min_bits_prim = rsa_min_bits_prim. Proof. reflexivity. Qed.
Lemma tie_rsa_exponent_prim : gen_rsa_exponent_prim = rsa_exponent_prim. Proof. reflexivity. Qed.
Lemma tie_rsa_min_bits_parse : gen_rsa_min_bits_parse = rsa_min_bits_parse. Proof. reflexivity. Qed.
Lemma tie_rsa_pss_min_bits_parse : gen_rsa_pss_min_bits_parse = rsa_min_bits_parse. Proof. reflexivity. Qed.
Lemma tie_siv_key_prim : gen_siv_key_prim = siv_key_prim. Proof. reflexivity. Qed.
Lemma tie_ctrhmac_min_hmac_key : gen_ctrhmac_min_hmac_key = ctrhmac_min_hmac_key. Proof. reflexivity. Qed.
Lemma tie_ctrhmac_min_tag : gen_etm_min_tag = ctrhmac_min_tag. Proof. reflexivity. Qed.

