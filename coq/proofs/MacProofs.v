(* Proofs about model/Mac.v: exact acceptance (verify <-> tag = compute) at
   every layer (raw, fullMAC, fullMACAdapter, wrappedMAC), tag length, equality
   with the RFC values, rejection of mutated tags. *)
From Coq Require Import List NArith Bool Arith Lia.
From Tink Require Import Bytes Cmac Hmac Mac CmacProofs HmacProofs.
Import ListNotations.
Open Scope N_scope.

(* ---- list facts ---- *)
Lemma firstn_app_exact {A} (a b : list A) : firstn (length a) (a ++ b) = a.
Proof. induction a as [|x a IH]; simpl; [destruct b; reflexivity | f_equal; exact IH]. Qed.

Lemma skipn_app_exact {A} (a b : list A) : skipn (length a) (a ++ b) = b.
Proof. induction a as [|x a IH]; simpl; auto. Qed.

Lemma beq_false_neq a b : a <> b -> beq a b = false.
Proof. intros H. destruct (beq a b) eqn:E; [|reflexivity]. apply beq_eq in E. contradiction. Qed.

(* ---- the three properties every MAC primitive of the stack has ---- *)
(* exact acceptance *)
Definition exact (p : prim) : Prop :=
  forall mac m, pverify p mac m = true <-> mac = pcompute p m.
(* every tag starts with the prefix the primitive is filed under *)
Definition prefixed (p : prim) : Prop :=
  forall m, exists t, pcompute p m = pprefix p ++ t.
(* prefixes are empty or five bytes (prefixmap.Insert) *)
Definition shaped (p : prim) : Prop :=
  pprefix p = [] \/ length (pprefix p) = 5%nat.

(* ---- raw ---- *)
Lemma raw_verify_iff r mac m : raw_verify r mac m = true <-> mac = raw_compute r m.
Proof. unfold raw_verify. rewrite beq_eq. split; intros; congruence. Qed.

Lemma raw_compute_length r m : (rtag r <= length (rfull r m))%nat ->
  length (raw_compute r m) = rtag r.
Proof. intros H. unfold raw_compute. rewrite firstn_length. lia. Qed.

(* ---- fullMAC (mac/hmac/mac.go, mac/aescmac/mac.go) ---- *)
Theorem full_verify_iff f mac m : full_verify f mac m = true <-> mac = full_compute f m.
Proof.
  unfold full_verify, full_compute. split.
  - destruct (Nat.ltb_spec (length mac) (length (fprefix f))); [discriminate|].
    destruct (beq (firstn (length (fprefix f)) mac) (fprefix f)) eqn:Ep; cbn [negb]; [|discriminate].
    intros Hv. apply raw_verify_iff in Hv. apply beq_eq in Ep.
    rewrite <- (firstn_skipn (length (fprefix f)) mac) at 1. rewrite Ep, Hv. reflexivity.
  - intros ->. rewrite app_length.
    destruct (Nat.ltb_spec (length (fprefix f) + length (raw_compute (fraw f) (fmessage f m)))
                (length (fprefix f))); [lia|].
    rewrite firstn_app_exact, beq_refl. cbn [negb]. rewrite skipn_app_exact.
    apply raw_verify_iff. reflexivity.
Qed.

(* the factory's adapter over a raw primitive behaves exactly as the full primitive *)
Lemma adapter_compute_eq f m : adapter_compute f m = full_compute f m.
Proof. reflexivity. Qed.
Lemma adapter_verify_eq f mac m : adapter_verify f mac m = full_verify f mac m.
Proof. reflexivity. Qed.

Lemma exact_full f : exact (prim_of_full f).
Proof. intros mac m. apply full_verify_iff. Qed.
Lemma exact_adapter f : exact (prim_of_adapter f).
Proof. intros mac m. apply full_verify_iff. Qed.
Lemma exact_raw r : exact (prim_of_raw r).
Proof. intros mac m. apply raw_verify_iff. Qed.

Lemma prefixed_full f : prefixed (prim_of_full f).
Proof. intros m. eexists. reflexivity. Qed.
Lemma prefixed_adapter f : prefixed (prim_of_adapter f).
Proof. intros m. eexists. reflexivity. Qed.

Lemma output_prefix_length v id :
  output_prefix v id = [] \/ length (output_prefix v id) = 5%nat.
Proof. destruct v; cbn [output_prefix length]; rewrite ?be_bytes_length; auto. Qed.

Lemma output_prefix_wf v id : wfb (output_prefix v id).
Proof.
  destruct v; cbn [output_prefix]; try constructor; try lia; try apply be_bytes_wf.
Qed.

(* ---- wrappedMAC (mac/mac_factory.go) ---- *)
Lemma in_matching es pfx e : In e (matching es pfx) <-> In e es /\ pprefix e = pfx.
Proof. unfold matching. rewrite filter_In, beq_eq. reflexivity. Qed.

Lemma in_prims_matching es pfx e : In e (prims_matching es pfx) -> In e es.
Proof.
  unfold prims_matching. intros H. apply in_app_or in H. destruct H as [H|H].
  - destruct (Nat.leb NonRawPrefixSize (length pfx)); [|contradiction].
    apply in_matching in H. tauto.
  - apply in_matching in H. tauto.
Qed.

Theorem wrapped_verify_iff es mac m :
  Forall exact es -> Forall prefixed es -> Forall shaped es ->
  (wrapped_verify es mac m = true <->
   (5 < length mac)%nat /\ exists e, In e es /\ mac = pcompute e m).
Proof.
  intros Hex Hpre Hsh. unfold wrapped_verify, NonRawPrefixSize.
  rewrite Forall_forall in Hex, Hpre, Hsh. split.
  - destruct (Nat.leb_spec (length mac) 5); [discriminate|]. intros Hv. split; [assumption|].
    assert (Hex2 : exists l, (forall e, In e l -> In e es) /\ existsb (fun e => pverify e mac m) l = true).
    { destruct (existsb (fun e => pverify e mac m) (prims_matching es (firstn 5 mac))) eqn:E1.
      - eexists. split; [|exact E1]. intros e. apply in_prims_matching.
      - eexists. split; [|exact Hv]. intros e. apply in_prims_matching. }
    destruct Hex2 as [l [Hl He]]. apply existsb_exists in He. destruct He as [e [Hin Hve]].
    exists e. split; [apply Hl; exact Hin|]. apply (Hex e (Hl e Hin)). exact Hve.
  - intros [Hlen [e [Hin ->]]].
    destruct (Nat.leb_spec (length (pcompute e m)) 5); [lia|].
    assert (Hm : In e (prims_matching es (firstn 5 (pcompute e m)))).
    { unfold prims_matching, NonRawPrefixSize. apply in_or_app.
      destruct (Hsh e Hin) as [Hnil|H5].
      - right. apply in_matching. split; assumption.
      - left. rewrite firstn_length.
        destruct (Nat.leb_spec 5 (Nat.min 5 (length (pcompute e m)))); [|lia].
        apply in_matching. split; [assumption|].
        destruct (Hpre e Hin m) as [t Ht]. rewrite Ht, <- H5, firstn_app_exact.
        rewrite firstn_all. reflexivity. }
    assert (Hv : pverify e (pcompute e m) m = true) by (apply (Hex e Hin); reflexivity).
    assert (He : existsb (fun e0 => pverify e0 (pcompute e m) m)
                   (prims_matching es (firstn 5 (pcompute e m))) = true).
    { apply existsb_exists. exists e. split; assumption. }
    rewrite He. reflexivity.
Qed.

(* a keyset with one key: the wrapped primitive is exact as soon as tags are longer than 5 bytes *)
Corollary wrapped_single_exact e :
  exact e -> prefixed e -> shaped e -> (forall m, (5 < length (pcompute e m))%nat) ->
  exact (prim_of_wrapped e [e]).
Proof.
  intros Hex Hpre Hsh Hlen mac m. cbn [pverify pcompute prim_of_wrapped]. unfold wrapped_compute.
  rewrite wrapped_verify_iff by (constructor; [assumption | constructor]). split.
  - intros [_ [e' [[<-|[]] ->]]]. reflexivity.
  - intros ->. split; [apply Hlen|]. exists e. split; [left; reflexivity | reflexivity].
Qed.

(* ---- consequences of exact acceptance: every mutated tag is rejected ---- *)
Definition flip_at (i : nat) (d : N) (l : bytes) : bytes :=
  firstn i l ++ match skipn i l with [] => [] | x :: t => N.lxor x d :: t end.

Lemma flip_at_neq i d l : (i < length l)%nat -> d <> 0 -> flip_at i d l <> l.
Proof.
  intros Hi Hd. unfold flip_at. intros E.
  rewrite <- (firstn_skipn i l) in E at 3. apply app_inv_head in E.
  destruct (skipn i l) as [|x t] eqn:Es.
  - apply (f_equal (@length N)) in Es. rewrite skipn_length in Es. simpl in Es. lia.
  - inversion E as [E1]. apply Hd.
    transitivity (N.lxor x (N.lxor x d)).
    + rewrite <- N.lxor_assoc, N.lxor_nilpotent, N.lxor_0_l. reflexivity.
    + rewrite E1. apply N.lxor_nilpotent.
Qed.

Section Exact.
  Variable p : prim.
  Hypothesis Hex : exact p.

  Lemma exact_accepts_own m : pverify p (pcompute p m) m = true.
  Proof. apply Hex. reflexivity. Qed.

  Lemma exact_rejects_other mac m : mac <> pcompute p m -> pverify p mac m = false.
  Proof.
    intros Hne. destruct (pverify p mac m) eqn:E; [|reflexivity]. apply Hex in E. contradiction.
  Qed.

  Lemma exact_rejects_wrong_length mac m :
    length mac <> length (pcompute p m) -> pverify p mac m = false.
  Proof. intros H. apply exact_rejects_other. intros ->. apply H. reflexivity. Qed.

  Lemma exact_rejects_truncated m n : (n < length (pcompute p m))%nat ->
    pverify p (firstn n (pcompute p m)) m = false.
  Proof. intros H. apply exact_rejects_wrong_length. rewrite firstn_length. lia. Qed.

  Lemma exact_rejects_extended m ext : ext <> [] -> pverify p (pcompute p m ++ ext) m = false.
  Proof.
    intros H. apply exact_rejects_wrong_length. rewrite app_length.
    destruct ext; [congruence|]. simpl. lia.
  Qed.

  Lemma exact_rejects_flipped m i d : (i < length (pcompute p m))%nat -> d <> 0 ->
    pverify p (flip_at i d (pcompute p m)) m = false.
  Proof. intros Hi Hd. apply exact_rejects_other. apply flip_at_neq; assumption. Qed.

  Lemma exact_other_message m m' :
    pverify p (pcompute p m) m' = true <-> pcompute p m = pcompute p m'.
  Proof. apply Hex. Qed.
End Exact.

(* ---- construction ---- *)
Section Build.
  Variable Hash : hash_alg -> bytes -> bytes.
  Variable AES : bytes -> bytes -> bytes.

  Hypothesis Hash_len : forall h x, length (Hash h x) = digest_size h.
  Hypothesis AES_len : forall k b, length b = 16%nat -> length (AES k b) = 16%nat.
  Hypothesis AES_wf0 : forall k, wfb (AES k (zeros 16)).

  (* what a successfully constructed raw MAC is *)
  Definition raw_ok (a : alg) (key : bytes) (tag : nat) (r : rawmac) : Prop :=
    rtag r = tag /\ (10 <= tag)%nat /\
    (forall m, rfull r m = std_mac Hash AES a key m) /\
    (forall m, (tag <= length (rfull r m))%nat) /\
    match a with
    | AHmac h => exists ha, h = Some ha /\ (tag <= digest_size ha)%nat /\ (16 <= length key)%nat
    | ACmac => (tag <= 16)%nat /\ (length key = 16 \/ length key = 24 \/ length key = 32)%nat
    end.

  Lemma hmac_validate_true h ks ts : hmac_validate h ks ts = true ->
    exists ha, h = Some ha /\ (10 <= ts <= digest_size ha)%nat /\ (16 <= ks)%nat.
  Proof.
    unfold hmac_validate. destruct h as [ha|]; [|discriminate].
    destruct (Nat.ltb_spec (digest_size ha) ts); [discriminate|].
    destruct (Nat.ltb_spec ts 10); [discriminate|].
    destruct (Nat.ltb_spec ks 16); [discriminate|].
    intros _. exists ha. repeat split; lia.
  Qed.

  Lemma raw_new_ok a key tag r : raw_new Hash AES a key tag = Ok r -> raw_ok a key tag r.
  Proof.
    destruct a as [h|]; cbn [raw_new].
    - unfold hmac_new. destruct (hmac_validate h (length key) tag) eqn:Ev; cbn [negb]; [|discriminate].
      destruct (hmac_validate_true _ _ _ Ev) as [ha [-> [Ht Hk]]].
      intros E. inversion E; subst. unfold raw_ok. cbn [rtag rfull std_mac].
      repeat split; try lia.
      + intros m. unfold hmac. rewrite Hash_len. lia.
      + exists ha. repeat split; lia.
    - unfold cmac_new.
      destruct (Nat.ltb_spec (length key) 16); [discriminate|].
      destruct (Nat.ltb_spec tag 10); [discriminate|].
      destruct (Nat.ltb_spec 16 tag); [discriminate|].
      destruct (Nat.eqb_spec (length key) 32); cbn [orb negb];
        [|destruct (Nat.eqb_spec (length key) 24); cbn [orb negb];
          [|destruct (Nat.eqb_spec (length key) 16); cbn [orb negb]; [|discriminate]]];
        intros E; inversion E; subst; unfold raw_ok; cbn [rtag rfull std_mac];
        (repeat split; try lia;
         [ intros m; apply cmac_impl_spec; [apply AES_wf0 | apply AES_len; apply zeros_length]
         | intros m; rewrite cmac_impl_length by (apply AES_len); lia ]).
  Qed.

  Lemma key_mac_ok a key tag v id f : key_mac Hash AES a key tag v id = Ok f ->
    exists r, raw_ok a key tag r /\ f = mkFull r (output_prefix v id) (is_legacy v).
  Proof.
    unfold key_mac.
    destruct (negb _); [discriminate|].
    destruct (raw_new Hash AES a key tag) as [r| |] eqn:Er; try discriminate.
    intros E. inversion E; subst. exists r. split; [apply raw_new_ok; exact Er | reflexivity].
  Qed.

  (* the message a key with this variant authenticates *)
  Definition framed_msg (v : variant) (m : bytes) : bytes := if is_legacy v then m ++ [0] else m.

  Lemma full_of_raw_facts a key tag v id r :
    raw_ok a key tag r ->
    let f := mkFull r (output_prefix v id) (is_legacy v) in
    (forall m, full_compute f m
               = output_prefix v id ++ firstn tag (std_mac Hash AES a key (framed_msg v m))) /\
    (forall m, length (full_compute f m) = (length (output_prefix v id) + tag)%nat) /\
    (forall m, (5 < length (full_compute f m))%nat).
  Proof.
    intros [Ht [H10 [Hfull [Hlen _]]]] f.
    assert (Hc : forall m, full_compute f m
               = output_prefix v id ++ firstn tag (std_mac Hash AES a key (framed_msg v m))).
    { intros m. unfold full_compute, raw_compute, fmessage, f. cbn [fraw fprefix flegacy].
      rewrite Ht, Hfull. reflexivity. }
    assert (Hl : forall m, length (full_compute f m) = (length (output_prefix v id) + tag)%nat).
    { intros m. unfold full_compute. rewrite app_length, raw_compute_length; cbn [fraw f].
      - rewrite Ht. reflexivity.
      - rewrite Ht. apply Hlen. }
    split; [exact Hc|]. split; [exact Hl|]. intros m. rewrite Hl. lia.
  Qed.

  (* the single-key paths *)
  Definition path_prefix (p : path) (v : variant) (id : N) : bytes :=
    match p with PSubtle => [] | _ => output_prefix v id end.
  Definition path_msg (p : path) (v : variant) (m : bytes) : bytes :=
    match p with PSubtle => m | _ => framed_msg v m end.

  Theorem build_facts p a key tag v id P :
    build Hash AES p a key tag v id = Built P ->
    exact P /\
    pprefix P = path_prefix p v id /\
    (forall m, pcompute P m
               = path_prefix p v id ++ firstn tag (std_mac Hash AES a key (path_msg p v m))) /\
    (forall m, length (pcompute P m) = (length (path_prefix p v id) + tag)%nat) /\
    (10 <= tag)%nat.
  Proof.
    destruct p; cbn [build path_prefix path_msg].
    - (* mac/subtle *)
      destruct (raw_new Hash AES a key tag) as [r| |] eqn:Er; try discriminate.
      intros E. inversion E; subst. pose proof (raw_new_ok _ _ _ _ Er) as Hok.
      destruct Hok as [Ht [H10 [Hfull [Hlen _]]]].
      split; [apply exact_raw|]. split; [reflexivity|]. cbn [pcompute prim_of_raw app].
      split; [|split; [|exact H10]].
      + intros m. unfold raw_compute. rewrite Ht, Hfull. reflexivity.
      + intros m. rewrite raw_compute_length; rewrite Ht; [reflexivity | apply Hlen].
    - (* per-key constructor *)
      destruct (negb (params_ok a (length key) tag)); [discriminate|].
      destruct (negb (key_ok v id (length key) (length key))); [discriminate|].
      destruct (key_mac Hash AES a key tag v id) as [f| |] eqn:Ek; try discriminate.
      intros E. inversion E; subst. destruct (key_mac_ok _ _ _ _ _ _ Ek) as [r [Hok ->]].
      destruct (full_of_raw_facts a key tag v id r Hok) as [Hc [Hl _]].
      split; [apply exact_full|]. split; [reflexivity|]. cbn [pcompute prim_of_full].
      split; [exact Hc|]. split; [exact Hl|]. destruct Hok as [_ [H10 _]]. exact H10.
    - (* mac.New on a one-key keyset *)
      destruct (negb (params_ok a (length key) tag)); [discriminate|].
      destruct (negb (key_ok v id (length key) (length key))); [discriminate|].
      destruct (key_mac Hash AES a key tag v id) as [f| |] eqn:Ek; try discriminate.
      intros E. inversion E; subst. destruct (key_mac_ok _ _ _ _ _ _ Ek) as [r [Hok ->]].
      destruct (full_of_raw_facts a key tag v id r Hok) as [Hc [Hl H5]].
      split.
      { apply wrapped_single_exact;
          [apply exact_full | apply prefixed_full | apply output_prefix_length | exact H5]. }
      split; [reflexivity|]. cbn [pcompute prim_of_wrapped]. unfold wrapped_compute.
      cbn [pcompute prim_of_full].
      split; [exact Hc|]. split; [exact Hl|]. destruct Hok as [_ [H10 _]]. exact H10.
    - (* mac.NewWithConfig, raw primitive wrapped by fullMACAdapter *)
      destruct (negb (params_ok a (length key) tag)); [discriminate|].
      destruct (negb (key_ok v id (length key) (length key))); [discriminate|].
      destruct (raw_new Hash AES a key tag) as [r| |] eqn:Er; try discriminate.
      intros E. inversion E; subst. pose proof (raw_new_ok _ _ _ _ Er) as Hok.
      destruct (full_of_raw_facts a key tag v id r Hok) as [Hc [Hl H5]].
      split.
      { apply wrapped_single_exact;
          [apply exact_adapter | apply prefixed_adapter | apply output_prefix_length | exact H5]. }
      split; [reflexivity|]. cbn [pcompute prim_of_wrapped]. unfold wrapped_compute.
      cbn [pcompute prim_of_adapter].
      split; [exact Hc|]. split; [exact Hl|]. destruct Hok as [_ [H10 _]]. exact H10.
  Qed.

  (* every accepted configuration satisfies the size rules *)
  Lemma build_raw p a key tag v id P :
    build Hash AES p a key tag v id = Built P -> exists r, raw_new Hash AES a key tag = Ok r.
  Proof.
    destruct p; cbn [build].
    - destruct (raw_new Hash AES a key tag) as [r| |]; try discriminate. eauto.
    - destruct (negb (params_ok a (length key) tag)); [discriminate|].
      destruct (negb (key_ok v id (length key) (length key))); [discriminate|].
      unfold key_mac. destruct (negb _); [discriminate|].
      destruct (raw_new Hash AES a key tag) as [r| |]; try discriminate. eauto.
    - destruct (negb (params_ok a (length key) tag)); [discriminate|].
      destruct (negb (key_ok v id (length key) (length key))); [discriminate|].
      unfold key_mac. destruct (negb _); [discriminate|].
      destruct (raw_new Hash AES a key tag) as [r| |]; try discriminate. eauto.
    - destruct (negb (params_ok a (length key) tag)); [discriminate|].
      destruct (negb (key_ok v id (length key) (length key))); [discriminate|].
      destruct (raw_new Hash AES a key tag) as [r| |]; try discriminate. eauto.
  Qed.

  Theorem build_sizes p a key tag v id P :
    build Hash AES p a key tag v id = Built P ->
    match a with
    | AHmac h => exists ha, h = Some ha /\ (10 <= tag <= digest_size ha)%nat /\ (16 <= length key)%nat
    | ACmac => (10 <= tag <= 16)%nat /\ (length key = 16 \/ length key = 24 \/ length key = 32)%nat
    end.
  Proof.
    intros HB. destruct (build_raw _ _ _ _ _ _ _ HB) as [r Hr].
    destruct (raw_new_ok _ _ _ _ Hr) as [_ [H10 [_ [_ Ha]]]].
    destruct a as [h|].
    - destruct Ha as [ha [-> [Ht Hk]]]. exists ha. repeat split; auto.
    - destruct Ha as [Ht Hk]. repeat split; auto.
  Qed.

  (* several keys: exactly the tags some key of the keyset computes are accepted *)
  Definition spec_tag (k : alg * bytes * nat * variant * N) (m : bytes) : bytes :=
    let '(a, key, tag, v, id) := k in
    output_prefix v id ++ firstn tag (std_mac Hash AES a key (framed_msg v m)).

  Lemma build_entries_facts ks : forall es, build_entries Hash AES ks = Some es ->
    Forall exact es /\ Forall prefixed es /\ Forall shaped es /\
    Forall2 (fun k e => forall m, pcompute e m = spec_tag k m /\ (5 < length (pcompute e m))%nat) ks es.
  Proof.
    induction ks as [|k ks IH]; intros es; cbn [build_entries].
    - intros E. inversion E; subst. repeat split; constructor.
    - destruct k as [[[[a key] tag] v] id].
      destruct (key_mac Hash AES a key tag v id) as [f| |] eqn:Ek; try discriminate.
      destruct (build_entries Hash AES ks) as [es'|] eqn:Ees; [|discriminate].
      intros E. inversion E; subst. destruct (IH es' eq_refl) as [H1 [H2 [H3 H4]]].
      destruct (key_mac_ok _ _ _ _ _ _ Ek) as [r [Hok ->]].
      destruct (full_of_raw_facts a key tag v id r Hok) as [Hc [Hl H5]].
      repeat split; constructor; auto.
      + apply exact_full.
      + apply prefixed_full.
      + apply output_prefix_length.
      + intros m. cbn [pcompute prim_of_full spec_tag]. split; [apply Hc | apply H5].
  Qed.

  Theorem build_set_facts ks i P :
    build_set Hash AES ks i = Built P ->
    (exists k, nth_error ks i = Some k /\ forall m, pcompute P m = spec_tag k m) /\
    (forall mac m, pverify P mac m = true <-> exists k, In k ks /\ mac = spec_tag k m).
  Proof.
    unfold build_set. destruct (build_entries Hash AES ks) as [es|] eqn:Ees; [|discriminate].
    destruct (nth_error es i) as [p|] eqn:En; [|discriminate].
    intros E. inversion E; subst. destruct (build_entries_facts ks es Ees) as [H1 [H2 [H3 H4]]].
    split.
    - clear H1 H2 H3 E Ees. cbn [pcompute prim_of_wrapped]. unfold wrapped_compute.
      revert i p En. induction H4 as [|k e ks es Hke H4 IH]; intros i p En.
      + destruct i; discriminate.
      + destruct i as [|i]; cbn [nth_error] in *.
        * inversion En; subst. exists k. split; [reflexivity|]. intros m. apply Hke.
        * apply IH. exact En.
    - intros mac m. cbn [pverify prim_of_wrapped].
      rewrite wrapped_verify_iff by assumption. clear En E Ees. split.
      + intros [_ [e [Hin ->]]]. clear H1 H2 H3. induction H4 as [|k e' ks es Hke H4 IH].
        * destruct Hin.
        * destruct Hin as [<-|Hin].
          -- exists k. split; [left; reflexivity | apply Hke].
          -- destruct (IH Hin) as [k' [Hk' Heq]]. exists k'. split; [right; exact Hk' | exact Heq].
      + intros [k [Hin ->]]. clear H1 H2 H3. induction H4 as [|k' e' ks es Hke H4 IH].
        * destruct Hin.
        * destruct Hin as [<-|Hin].
          -- destruct (Hke m) as [Hc H5]. split; [rewrite <- Hc; exact H5|].
             exists e'. split; [left; reflexivity | symmetry; exact Hc].
          -- destruct (IH Hin) as [H5 [e [He Heq]]]. split; [exact H5|].
             exists e. split; [right; exact He | exact Heq].
  Qed.
End Build.
