(* C07, manipulation of the whole reader (header, associated data, segments)
   and of the keyset-level reader as REDUCTIONS: no authenticity law.  Either
   the run is good (prefix of p; clean EOF only for the original associated data
   and the original ciphertext), or an explicit event is exhibited:
     - a presented (session key, nonce, ciphertext) triple that decrypts although
       the writer never produced it (segment forgery),
     - an HKDF collision on (salt, aad) vs the (salt field, aad) at hand,
     - (keyset) another key of the keyset accepts the first segment it reads.
   The only premise is that the writer's own segments decrypt to themselves. *)
From Coq Require Import List NArith Bool Arith Lia.
From Tink Require Import Bytes Stream StreamProofs StreamIO StreamIOProofs StreamReduction StreamKeyProofs.
Import ListNotations.
Open Scope nat_scope.

Lemma skey_eq_dec (a b : skey) : {a = b} + {a <> b}.
Proof.
  decide equality; try apply Nat.eq_dec; try apply bytes_eq_dec; decide equality.
Qed.

Lemma nonce_prefix_inj' nsz (p1 p2 : bytes) c1 l1 c2 l2 :
  length p1 = length p2 -> nonce_of nsz p1 c1 l1 = nonce_of nsz p2 c2 l2 -> p1 = p2.
Proof. unfold nonce_of. intros Hl H. exact (proj1 (app_inv_length _ _ _ _ Hl H)). Qed.

Lemma sk_eq_dec (a b : bytes * bytes) : {a = b} + {a <> b}.
Proof. decide equality; apply bytes_eq_dec. Qed.

(* a run in which no presented pair decrypts hands out nothing *)
Lemma dead_run decs P (s : src) sizes st0 :
  r_off P <= r_ctseg P + 1 -> new_reader P s = Some st0 ->
  (forall N c, In (N, c) (presented read_full P decs sizes st0) -> decs N c = None) ->
  drive decs read_full P sizes st0 [] = ([], match sizes with [] => Pending | _ => Failed end).
Proof.
  intros Hoff Hnew Hnone.
  destruct (drive_presented_same src read_full P decs (fun _ _ => None) sizes st0 [] Hnone) as (-> & _).
  exact (nothing_decrypts_prefix (fun _ _ => None) P Hoff (fun _ _ _ => eq_refl) s sizes st0 Hnew).
Qed.

Section KeyReduction.
  Variable hkdf : hash -> bytes -> bytes -> bytes -> nat -> bytes.
  Variable gcm_seal : bytes -> bytes -> bytes -> bytes.
  Variable gcm_open : bytes -> bytes -> bytes -> option bytes.
  Variable aes_ctr : bytes -> bytes -> bytes -> bytes.
  Variable hmac : hash -> bytes -> bytes -> bytes.
  Local Notation SENC := (seg_enc gcm_seal aes_ctr hmac).
  Local Notation SDEC := (seg_dec gcm_open aes_ctr hmac).
  Local Notation KREAD := (key_read hkdf gcm_open aes_ctr hmac src read_full).

  (* every (nonce, ciphertext) pair the single-key reader of ki presents to its
     segment decrypter during NewDecryptingReader + Reads of the listed sizes *)
  Definition key_presented (ki : skey) (aad' : bytes) (s : src) (sizes : list nat) : list (bytes * bytes) :=
    match new_dec_reader hkdf src read_full ki aad' s with
    | (None, _) => []
    | (Some (k1, k2, pre, r0), _) => presented read_full (k_rparams ki pre) (SDEC ki (k1, k2)) sizes r0
    end.

  (* the key ki accepts the first segment its reader forms from the stream *)
  Definition first_accept (ki : skey) (aad' : bytes) (s : src) : Prop :=
    match new_dec_reader hkdf src read_full ki aad' s with
    | (None, _) => False
    | (Some (k1, k2, pre, r0), _) =>
        match read_query read_full (k_rparams ki pre) r0 with
        | Some (N, c) => SDEC ki (k1, k2) N c <> None
        | None => False
        end
    end.

  Lemma first_accept_dec ki aad' s : {first_accept ki aad' s} + {~ first_accept ki aad' s}.
  Proof.
    unfold first_accept. destruct (new_dec_reader hkdf src read_full ki aad' s) as ([[[[k1 k2] pre] r0]|], s3); [|right; tauto].
    destruct (read_query read_full (k_rparams ki pre) r0) as [[N c]|]; [|right; tauto].
    destruct (SDEC ki (k1, k2) N c); [left; discriminate|right; congruence].
  Qed.

  (* the one stream that was encrypted under the key k *)
  Variable k : skey.
  Variables salt prefix aad p : bytes.
  Hypothesis Hv : key_valid k = true.
  Hypothesis Hsalt : length salt = k_dk k.
  Hypothesis Hpre : length prefix = nonce_prefix_size.
  Local Notation seg := (k_cseg k - k_tag k).
  Local Notation off := (k_foff k + hdr_len k).
  Local Notation ss := (segments seg off p).
  Local Notation sk := (derive hkdf k salt aad).
  Local Notation C := (key_ciphertext hkdf gcm_seal aes_ctr hmac k salt prefix aad p).
  Hypothesis Hb : (N.of_nat (length ss) <= max_segments)%N.

  Definition nonce_i (i : nat) : bytes := nonce_of (k_nonce_size k) prefix (N.of_nat i) (i + 1 =? length ss).

  (* THE WRITER'S LOG: (session key, nonce, ciphertext segment) triples *)
  Definition written (sk' : bytes * bytes) (N c : bytes) : Prop :=
    sk' = sk /\ exists i, i < length ss /\ N = nonce_i i /\ c = SENC k sk N (nth i ss []).

  (* the only premise: correctness on the writer's own segments *)
  Definition own_segments_decrypt : Prop :=
    forall i, i < length ss -> SDEC k sk (nonce_i i) (SENC k sk (nonce_i i) (nth i ss [])) = Some (nth i ss []).

  (* EVENT 1: a triple presented by this run decrypts although it was never written *)
  Definition seg_forgery (c' : bytes) (F : option nat) (aad' : bytes) (sizes : list nat) : Prop :=
    let sk' := derive hkdf k (salt_field k c') aad' in
    exists N c s, In (N, c) (key_presented k aad' (mkSrc c' F) sizes) /\
                  SDEC k sk' N c = Some s /\ ~ written sk' N c.

  (* EVENT 2: HKDF maps the (salt field, aad) at hand to the writer's output *)
  Definition hkdf_collision (c' aad' : bytes) : Prop :=
    (salt_field k c' <> salt \/ aad' <> aad) /\
    hkdf (k_hash k) (k_main k) (salt_field k c') aad' (k_dlen k) = hkdf (k_hash k) (k_main k) salt aad (k_dlen k).

  Definition kgood (c' aad' : bytes) (sizes : list nat) (r : bytes * fin) : Prop :=
    let '(outb, f) := r in
    f <> Panicked /\ (exists tl, p = outb ++ tl) /\
    (f = AtEof -> aad' = aad /\ c' = C /\ outb = p) /\
    (Forall (fun n => 0 < n) sizes -> length ss + length p < length sizes -> f <> Pending).

  Lemma kgood_dead c' aad' sizes : kgood c' aad' sizes ([], match sizes with [] => Pending | _ => Failed end).
  Proof.
    destruct sizes; repeat split; try discriminate; try (exists p; reflexivity).
    intros _ H. cbn in H. lia.
  Qed.

  Lemma kgood_failed c' aad' sizes : kgood c' aad' sizes ([], Failed).
  Proof. repeat split; try discriminate. exists p; reflexivity. Qed.

  (* THE REDUCTION, whole single-key reader *)
  Theorem key_manipulation_reduction :
    own_segments_decrypt ->
    forall (c' : bytes) (F : option nat) (aad' : bytes) (sizes : list nat),
      kgood c' aad' sizes (KREAD k aad' (mkSrc c' F) sizes) \/
      seg_forgery c' F aad' sizes \/ hkdf_collision c' aad'.
  Proof.
    intros Hcorr c' F aad' sizes.
    destruct (key_valid_facts k Hv) as (Hseg & Htag & _).
    unfold seg_forgery, key_presented, key_read.
    destruct (new_dec_reader hkdf src read_full k aad' (mkSrc c' F)) as (o, s3) eqn:End.
    destruct o as [[[[k1 k2] pre'] st]|]; [|left; exact (kgood_failed c' aad' sizes)].
    pose proof (new_dec_reader_some hkdf _ _ _ _ _ _ _ _ End) as (Hlim & Hfb).
    rewrite (new_dec_reader_ok hkdf k aad' _ Hlim Hfb) in End. cbn zeta in End. cbn [srem] in End, Hfb.
    fold (salt_field k c') in End.
    remember (salt_field k c') as salt' eqn:Hsdef.
    remember (firstn nonce_prefix_size (skipn (1 + k_dk k) c')) as pre eqn:Hpdef.
    remember (src_adv (mkSrc c' F) (hdr_len k)) as s3' eqn:Hs3def.
    inversion End as [[E1 E2 E3 E4 E5]]. clear End. subst k1 k2 pre' st s3.
    rewrite <- surjective_pairing.
    pose proof (limit_le_len (mkSrc c' F)) as Hll. cbn [srem] in Hll.
    assert (Hpl : length pre = nonce_prefix_size).
    { rewrite Hpdef. rewrite firstn_length, skipn_length. unfold hdr_len in Hlim. lia. }
    assert (Hc' : c' = header k salt' pre ++ srem s3').
    { rewrite Hs3def, Hsdef, Hpdef. unfold header, src_adv, salt_field. cbn [srem]. fold (hdr_byte k).
      rewrite <- Hfb, <- !app_assoc. unfold hdr_len. apply split3. }
    assert (Hnr : new_reader (k_rparams k pre) s3' = Some (mkR [] 0 [] 0%N false s3')).
    { unfold new_reader, k_rparams. cbn [r_nonce_size r_prefix]. rewrite nonce_room by lia. reflexivity. }
    assert (Hoff : r_off (k_rparams k pre) <= r_ctseg (k_rparams k pre) + 1)
      by (unfold k_rparams; cbn [r_off r_ctseg]; lia).
    set (sk' := derive hkdf k salt' aad') in *.
    set (st0 := mkR [] 0 [] 0%N false s3') in *.
    (* a run whose accepted pairs would all be forgeries: dead, or a forgery *)
    assert (Hdf : (forall N c s, In (N, c) (presented read_full (k_rparams k pre) (SDEC k sk') sizes st0) ->
                                 SDEC k sk' N c = Some s -> ~ written sk' N c) ->
                  kgood c' aad' sizes (drive (SDEC k sk') read_full (k_rparams k pre) sizes st0 []) \/
                  (exists N c s, In (N, c) (presented read_full (k_rparams k pre) (SDEC k sk') sizes st0) /\
                                 SDEC k sk' N c = Some s /\ ~ written sk' N c)).
    { intros Hnw.
      destruct (none_or_some (SDEC k sk') (presented read_full (k_rparams k pre) (SDEC k sk') sizes st0))
        as [Hnone|(N & c & s & Hin & Hd)].
      - left. rewrite (dead_run (SDEC k sk') (k_rparams k pre) s3' sizes st0 Hoff Hnr Hnone). apply kgood_dead.
      - right. exists N, c, s. split; [exact Hin|]. split; [exact Hd|]. exact (Hnw N c s Hin Hd). }
    destruct (bytes_eq_dec salt' salt) as [Es|Es];
      [destruct (bytes_eq_dec aad' aad) as [Ea|Ea]|].
    - (* same salt, same associated data: the session key of the writer *)
      assert (Esk : sk' = sk) by (unfold sk'; rewrite Es, Ea; reflexivity).
      destruct (bytes_eq_dec pre prefix) as [Ep|Ep].
      + (* same nonce prefix: the segment-layer reduction on what follows the header *)
        assert (Hct : r_ctseg (k_rparams k prefix) = seg + k_tag k) by (unfold k_rparams; cbn [r_ctseg]; lia).
        assert (Hpos : 0 < seg - r_off (k_rparams k prefix)) by (unfold k_rparams; cbn [r_off]; lia).
        rewrite Ep in *. rewrite Esk in *.
        assert (Hnr' : new_reader (k_rparams k prefix) (mkSrc (srem s3') (sfailr s3')) = Some st0).
        { rewrite <- Hnr. destruct s3'; reflexivity. }
        destruct (manipulation_reduction (SENC k sk) (SDEC k sk) (k_rparams k prefix) seg (k_tag k)
                    Hct Hpos p Hb Hcorr (srem s3') (sfailr s3') sizes st0 Hnr') as [HM|(N & c & s & Hin & Hd & Hnp)].
        * left. destruct (drive (SDEC k sk) read_full (k_rparams k prefix) sizes st0 []) as (outb, f).
          destruct HM as (M1 & M2 & M3 & M4). repeat split; auto.
          -- rewrite Hc', Es. unfold key_ciphertext. f_equal. apply M3; assumption.
          -- apply M3; assumption.
        * right. left. exists N, c, s. split; [exact Hin|]. split; [exact Hd|].
          intros (_ & i & Hi & Hn & Hc). apply Hnp. exists i. auto.
      + (* another nonce prefix: no nonce of this reader was ever used by the writer *)
        assert (Hnw : forall N c s, In (N, c) (presented read_full (k_rparams k pre) (SDEC k sk') sizes st0) ->
                                   SDEC k sk' N c = Some s -> ~ written sk' N c).
        { intros N c s Hin _ (_ & i & _ & Hn & _).
          destruct (presented_nonce src read_full (k_rparams k pre) _ _ _ _ _ Hin) as (cnt & last & HN).
          rewrite HN in Hn. unfold nonce_i in Hn. cbn [k_rparams r_nonce_size r_prefix] in Hn.
          apply nonce_prefix_inj' in Hn; [contradiction|]. rewrite Hpl, Hpre. reflexivity. }
        destruct (Hdf Hnw) as [G|G]; [left; exact G|right; left; exact G].
    - (* other associated data *)
      destruct (sk_eq_dec sk' sk) as [Esk|Esk].
      + right. right. unfold hkdf_collision. rewrite <- Hsdef. split; [right; exact Ea|]. apply derive_eq_hkdf. exact Esk.
      + destruct (Hdf (fun N c s _ _ H => Esk (proj1 H))) as [G|G]; [left; exact G|right; left; exact G].
    - (* another salt *)
      destruct (sk_eq_dec sk' sk) as [Esk|Esk].
      + right. right. unfold hkdf_collision. rewrite <- Hsdef. split; [left; exact Es|]. apply derive_eq_hkdf. exact Esk.
      + destruct (Hdf (fun N c s _ _ H => Esk (proj1 H))) as [G|G]; [left; exact G|right; left; exact G].
  Qed.

  (* PER-INSTANCE COROLLARY: the old statement, under hypotheses about this one
     run only - none of the finitely many triples it presents is a forgery, and
     HKDF does not collide on the input at hand *)
  Corollary key_manipulation_detected_instance :
    own_segments_decrypt ->
    forall (c' : bytes) (F : option nat) (aad' : bytes) (sizes : list nat),
      (forall N c, In (N, c) (key_presented k aad' (mkSrc c' F) sizes) ->
                   SDEC k (derive hkdf k (salt_field k c') aad') N c <> None ->
                   written (derive hkdf k (salt_field k c') aad') N c) ->
      ~ hkdf_collision c' aad' ->
      kgood c' aad' sizes (KREAD k aad' (mkSrc c' F) sizes).
  Proof.
    intros Hcorr c' F aad' sizes Hnf Hnc.
    destruct (key_manipulation_reduction Hcorr c' F aad' sizes) as [G|[(N & c & s & Hin & Hd & Hnw)|Hc]];
      [exact G| |contradiction].
    exfalso. apply Hnw. apply (Hnf N c Hin). congruence.
  Qed.

  Lemma key_presented_first ki aad' s n ns N c :
    In (N, c) (key_presented ki aad' s [n]) -> In (N, c) (key_presented ki aad' s (n :: ns)).
  Proof.
    unfold key_presented. destruct (new_dec_reader hkdf src read_full ki aad' s) as ([[[[k1 k2] pre] r0]|], s3); [|tauto].
    apply presented_first.
  Qed.

  (* ---------------------------------------------------------------- *)
  (* keyset level                                                      *)
  (* ---------------------------------------------------------------- *)
  Definition keyset_read (keys : list skey) (aad' : bytes) (c0 : src) (sizes : list nat) : bytes * fin :=
    outcome [] (dr_reads hkdf gcm_open aes_ctr hmac keys aad' (dr_new c0) sizes).

  Variable keys : list skey.                 (* the enabled keys of the decrypting keyset, in order *)
  Hypothesis Hvs : forall ki, In ki keys -> key_valid ki = true.

  (* internal: a key record other than k accepts the first segment its reader
     forms.  NOT a forgery event by itself (a record with the key material of k
     and other parameters shares its session keys): see decoy_forgery below *)
  Definition decoy_accepts (c' : bytes) (F : option nat) (aad' : bytes) : Prop :=
    exists ki, In ki keys /\ ki <> k /\ first_accept ki aad' (mkSrc c' F).

  Lemma decoys_dec s aad' : forall ks,
    (forall ki, In ki ks -> ki = k \/ ~ first_accept ki aad' s) \/
    (exists ki, In ki ks /\ ki <> k /\ first_accept ki aad' s).
  Proof.
    induction ks as [|ki ks IH]; [left; intros ki []|].
    destruct IH as [IH|(kj & Hin & Hne & Ha)]; [|right; exists kj; split; [right; exact Hin|auto]].
    destruct (skey_eq_dec ki k) as [E|E].
    - left. intros kj [<-|Hin]; [left; exact E|exact (IH kj Hin)].
    - destruct (first_accept_dec ki aad' s) as [A|A].
      + right. exists ki. split; [left; reflexivity|auto].
      + left. intros kj [<-|Hin]; [right; exact A|exact (IH kj Hin)].
  Qed.

  (* a key that does not accept its first segment fails at its first Read *)
  Lemma first_read_rejected ki aad' s k1 k2 pre st0 s3 n :
    key_valid ki = true ->
    new_dec_reader hkdf src read_full ki aad' s = (Some (k1, k2, pre, st0), s3) ->
    ~ first_accept ki aad' s ->
    exists st', read (SDEC ki (k1, k2)) read_full (k_rparams ki pre) st0 n = (st', RErr).
  Proof.
    intros Hvi End Hna. unfold first_accept in Hna. rewrite End in Hna.
    pose proof (new_dec_reader_some hkdf _ _ _ _ _ _ _ _ End) as (Hlim & Hfb).
    rewrite (new_dec_reader_ok hkdf ki aad' _ Hlim Hfb) in End. cbn zeta in End.
    remember (firstn nonce_prefix_size (skipn (1 + k_dk ki) (srem s))) as pre0 eqn:Hp0.
    remember (src_adv s (hdr_len ki)) as s30 eqn:Hs30.
    remember (firstn (k_dk ki) (skipn 1 (srem s))) as salt0 eqn:Hs0.
    inversion End as [[E1 E2 E3 E4 E5]]. subst k1 k2 pre st0 s3.
    rewrite <- surjective_pairing in *.
    destruct (key_valid_facts ki Hvi) as (Hseg & _ & _).
    assert (Hoff : r_off (k_rparams ki pre0) <= r_ctseg (k_rparams ki pre0) + 1)
      by (unfold k_rparams; cbn [r_off r_ctseg]; lia).
    rewrite (read_query_det src read_full (k_rparams ki pre0) (SDEC ki (derive hkdf ki salt0 aad')) (fun _ _ => None)).
    - exact (first_read_fails (fun _ _ => None) (k_rparams ki pre0) Hoff (fun _ _ _ => eq_refl) s30 n).
    - intros N c Eq. rewrite Eq in Hna.
      destruct (SDEC ki (derive hkdf ki salt0 aad') N c); [exfalso; apply Hna; discriminate|reflexivity].
  Qed.

  (* the candidate loop: no key accepts, or the first one that does is k *)
  Lemma dr_spec_char' c0 aad' n :
    (forall k1 k2 pre st0 s3 st', new_dec_reader hkdf src read_full k aad' c0 = (Some (k1, k2, pre, st0), s3) ->
        read (SDEC k (k1, k2)) read_full (k_rparams k pre) st0 n <> (st', RPanic)) ->
    forall ks, (forall ki, In ki ks -> In ki keys) ->
      (forall ki, In ki ks -> ki = k \/ ~ first_accept ki aad' c0) ->
      dr_spec hkdf gcm_open aes_ctr hmac ks aad' c0 n = (None, RErr) \/
      exists k1 k2 pre st0 s3 st' b,
        new_dec_reader hkdf src read_full k aad' c0 = (Some (k1, k2, pre, st0), s3) /\
        read (SDEC k (k1, k2)) read_full (k_rparams k pre) st0 n = (st', RData b) /\
        dr_spec hkdf gcm_open aes_ctr hmac ks aad' c0 n = (Some (k, (k1, k2), pre, st'), RData b).
  Proof.
    intros Hnp. induction ks as [|ki ks IH]; intros Hin Hlaw; [left; reflexivity|].
    cbn [dr_spec].
    assert (IH' := IH (fun x Hx => Hin x (or_intror Hx)) (fun x Hx => Hlaw x (or_intror Hx))). clear IH.
    destruct (new_dec_reader hkdf src read_full ki aad' c0) as (o, s3) eqn:End.
    destruct o as [[[[k1 k2] pre] st0]|]; [|exact IH'].
    destruct (Hlaw ki (or_introl eq_refl)) as [->|Hdead].
    - destruct (read (SDEC k (k1, k2)) read_full (k_rparams k pre) st0 n) as (st', r) eqn:Er.
      destruct r as [b| | |]; try exact IH'.
      + right. exists k1, k2, pre, st0, s3, st', b. auto.
      + exfalso. exact (Hnp _ _ _ _ _ _ End Er).
    - destruct (first_read_rejected ki aad' c0 k1 k2 pre st0 s3 n (Hvs ki (Hin ki (or_introl eq_refl))) End Hdead)
        as (st' & ->).
      exact IH'.
  Qed.

  (* keyset-level reader, intermediate form (third disjunct not yet a forgery event) *)
  Lemma keyset_manipulation_reduction0 :
    own_segments_decrypt ->
    forall (c' : bytes) (F : option nat) (aad' : bytes) (sizes : list nat),
      kgood c' aad' sizes (keyset_read keys aad' (mkSrc c' F) sizes) \/
      seg_forgery c' F aad' sizes \/ hkdf_collision c' aad' \/ decoy_accepts c' F aad'.
  Proof.
    intros Hcorr c' F aad' sizes.
    unfold keyset_read. rewrite keyset_reader_spec.
    destruct sizes as [|n ns]; [left; exact (kgood_dead c' aad' [])|].
    destruct (decoys_dec (mkSrc c' F) aad' keys) as [Hlaw|Hd]; [|right; right; right; exact Hd].
    destruct (key_manipulation_reduction Hcorr c' F aad' (n :: ns)) as [Gf|[Ef|Ec]];
      [|right; left; exact Ef|right; right; left; exact Ec].
    destruct (key_manipulation_reduction Hcorr c' F aad' [n]) as [G1|[E1|Ec]];
      [| |right; right; left; exact Ec].
    2:{ right. left. destruct E1 as (N & c & s & Hin & Hd & Hnw). exists N, c, s.
        split; [apply key_presented_first; exact Hin|]. split; assumption. }
    left. cbn [spec_reads].
    assert (Hnp : forall k1 k2 pre st0 s3 st',
              new_dec_reader hkdf src read_full k aad' (mkSrc c' F) = (Some (k1, k2, pre, st0), s3) ->
              read (SDEC k (k1, k2)) read_full (k_rparams k pre) st0 n <> (st', RPanic)).
    { intros k1 k2 pre st0 s3 st' End Er. unfold key_read in G1. rewrite End in G1.
      cbn [drive] in G1. rewrite Er in G1. destruct G1 as (G & _). congruence. }
    destruct (dr_spec_char' (mkSrc c' F) aad' n Hnp keys (fun x H => H) Hlaw) as [->|H].
    - cbn [outcome]. exact (kgood_dead c' aad' (n :: ns)).
    - destruct H as (k1 & k2 & pre & st0 & s3 & st' & b & End & Er & ->).
      cbn [outcome]. rewrite <- drive_outcome.
      unfold key_read in Gf. rewrite End in Gf. cbn [drive] in Gf. rewrite Er in Gf. exact Gf.
  Qed.

  Corollary keyset_manipulation_detected_instance :
    own_segments_decrypt ->
    forall (c' : bytes) (F : option nat) (aad' : bytes) (sizes : list nat),
      (forall N c, In (N, c) (key_presented k aad' (mkSrc c' F) sizes) ->
                   SDEC k (derive hkdf k (salt_field k c') aad') N c <> None ->
                   written (derive hkdf k (salt_field k c') aad') N c) ->
      ~ hkdf_collision c' aad' ->
      (forall ki, In ki keys -> ki = k \/ ~ first_accept ki aad' (mkSrc c' F)) ->
      kgood c' aad' sizes (keyset_read keys aad' (mkSrc c' F) sizes).
  Proof.
    intros Hcorr c' F aad' sizes Hnf Hnc Hnd.
    destruct (keyset_manipulation_reduction0 Hcorr c' F aad' sizes)
      as [G|[(N & c & s & Hin & Hd & Hnw)|[Hc|(ki & Hin & Hne & Ha)]]]; [exact G| |contradiction|].
    - exfalso. apply Hnw. apply (Hnf N c Hin). congruence.
    - exfalso. destruct (Hnd ki Hin); contradiction.
  Qed.

  (* KEYSET HYGIENE: every key of the decrypting keyset is the key k itself or has
     other key material.  (A record with the key material of k but other
     parameters derives the writer's session keys: what it accepts are the
     writer's own segments - no forgery - and its reader cuts the stream at other
     boundaries, which a theorem about the stream written by k does not cover.) *)
  Definition other_material : Prop := forall ki, In ki keys -> ki = k \/ k_main ki <> k_main k.

  (* EVENT 3, DECOY FORGERY: a key ki with other key material accepts, under the
     session key sk_i IT derives from the salt field of c' and aad', the first
     (nonce, segment) pair its reader forms - and (sk_i, N, c) is not in the
     writer's log *)
  Definition decoy_forgery (c' : bytes) (F : option nat) (aad' : bytes) : Prop :=
    exists ki k1 k2 pre r0 s3 N c s,
      In ki keys /\ k_main ki <> k_main k /\
      new_dec_reader hkdf src read_full ki aad' (mkSrc c' F) = (Some (k1, k2, pre, r0), s3) /\
      (k1, k2) = derive hkdf ki (firstn (k_dk ki) (skipn 1 c')) aad' /\
      read_query read_full (k_rparams ki pre) r0 = Some (N, c) /\
      SDEC ki (k1, k2) N c = Some s /\ ~ written (k1, k2) N c.

  (* EVENT 4, CROSS-KEY COLLISION: a key with other key material derives the
     writer's session keys *)
  Definition cross_key_collision (c' aad' : bytes) : Prop :=
    exists ki, In ki keys /\ k_main ki <> k_main k /\
               derive hkdf ki (firstn (k_dk ki) (skipn 1 c')) aad' = sk.

  (* THE REDUCTION, keyset-level reader *)
  Theorem keyset_manipulation_reduction :
    own_segments_decrypt -> other_material ->
    forall (c' : bytes) (F : option nat) (aad' : bytes) (sizes : list nat),
      kgood c' aad' sizes (keyset_read keys aad' (mkSrc c' F) sizes) \/
      seg_forgery c' F aad' sizes \/ hkdf_collision c' aad' \/
      decoy_forgery c' F aad' \/ cross_key_collision c' aad'.
  Proof.
    intros Hcorr Hmat c' F aad' sizes.
    destruct (keyset_manipulation_reduction0 Hcorr c' F aad' sizes) as [G|[E|[E|(ki & Hin & Hne & Ha)]]];
      [left; exact G|right; left; exact E|right; right; left; exact E|].
    right. right. right.
    destruct (Hmat ki Hin) as [E|Hmk]; [contradiction|].
    unfold first_accept in Ha.
    destruct (new_dec_reader hkdf src read_full ki aad' (mkSrc c' F)) as (o, s3) eqn:End.
    destruct o as [[[[k1 k2] pre] r0]|]; [|destruct Ha].
    destruct (read_query read_full (k_rparams ki pre) r0) as [[N c]|] eqn:Eq; [|destruct Ha].
    destruct (SDEC ki (k1, k2) N c) as [s|] eqn:Ed; [|exfalso; apply Ha; reflexivity].
    assert (Ek : (k1, k2) = derive hkdf ki (firstn (k_dk ki) (skipn 1 c')) aad').
    { pose proof (new_dec_reader_some hkdf _ _ _ _ _ _ _ _ End) as (Hlim & Hfb).
      pose proof End as End'.
      rewrite (new_dec_reader_ok hkdf ki aad' _ Hlim Hfb) in End'. cbn zeta in End'. cbn [srem] in End'.
      remember (firstn (k_dk ki) (skipn 1 c')) as salt0.
      remember (firstn nonce_prefix_size (skipn (1 + k_dk ki) c')) as pre0.
      remember (src_adv (mkSrc c' F) (hdr_len ki)) as s30.
      inversion End'. symmetry. apply surjective_pairing. }
    destruct (sk_eq_dec (k1, k2) sk) as [Esk|Esk].
    - right. exists ki. split; [exact Hin|]. split; [exact Hmk|]. rewrite <- Ek. exact Esk.
    - left. exists ki, k1, k2, pre, r0, s3, N, c, s. repeat split; auto.
      intros (E & _). contradiction.
  Qed.

  (* ---------------------------------------------------------------- *)
  (* the honest stream through the keyset-level reader                 *)
  (* ---------------------------------------------------------------- *)
  Hypothesis gcm_len : forall k n p, length (gcm_seal k n p) = length p + 16.
  Hypothesis gcm_inv : forall k n p, gcm_open k n (gcm_seal k n p) = Some p.
  Hypothesis ctr_len : forall k iv x, length (aes_ctr k iv x) = length x.
  Hypothesis ctr_inv : forall k iv x, aes_ctr k iv (aes_ctr k iv x) = x.
  Hypothesis hmac_len : forall h k m, length (hmac h k m) = digest_size h.
  Hypothesis Hin : In k keys.
  (* the other keys of the keyset do not accept the first segment they read from C *)
  Hypothesis Hdecoys : forall ki, In ki keys -> ki = k \/ ~ first_accept ki aad (mkSrc C None).

  Lemma own_segments_from_laws : own_segments_decrypt.
  Proof.
    intros i _. exact (seg_dec_enc gcm_seal gcm_open aes_ctr hmac gcm_len gcm_inv ctr_inv hmac_len k sk _ _ Hv).
  Qed.

  Lemma dr_spec_finds n k1 k2 pre st0 s3 st' b :
    new_dec_reader hkdf src read_full k aad (mkSrc C None) = (Some (k1, k2, pre, st0), s3) ->
    read (SDEC k (k1, k2)) read_full (k_rparams k pre) st0 n = (st', RData b) ->
    forall ks, (forall ki, In ki ks -> In ki keys) -> In k ks ->
      dr_spec hkdf gcm_open aes_ctr hmac ks aad (mkSrc C None) n = (Some (k, (k1, k2), pre, st'), RData b).
  Proof.
    intros End Er. induction ks as [|ki ks IH]; intros Hsub Hk; [destruct Hk|].
    assert (Hhead : ki = k -> dr_spec hkdf gcm_open aes_ctr hmac (ki :: ks) aad (mkSrc C None) n =
                              (Some (k, (k1, k2), pre, st'), RData b)).
    { intros ->. cbn [dr_spec]. rewrite End, Er. reflexivity. }
    destruct (Hdecoys ki (Hsub ki (or_introl eq_refl))) as [E|Hdead]; [exact (Hhead E)|].
    destruct Hk as [E|Hk]; [exact (Hhead E)|].
    specialize (IH (fun x Hx => Hsub x (or_intror Hx)) Hk).
    cbn [dr_spec].
    destruct (new_dec_reader hkdf src read_full ki aad (mkSrc C None)) as (o, s3') eqn:End'.
    destruct o as [[[[k1' k2'] pre'] st0']|]; [|exact IH].
    destruct (first_read_rejected ki aad _ k1' k2' pre' st0' s3' n (Hvs ki (Hsub ki (or_introl eq_refl))) End' Hdead)
      as (st'' & ->).
    exact IH.
  Qed.

  (* wherever the key sits in the keyset, the keyset-level reader behaves on the
     honest stream exactly as the single-key reader of that key *)
  Theorem keyset_read_honest : forall sizes,
    keyset_read keys aad (mkSrc C None) sizes = KREAD k aad (mkSrc C None) sizes.
  Proof.
    intros sizes. unfold keyset_read. rewrite keyset_reader_spec.
    pose proof (honest_constructor hkdf gcm_seal aes_ctr hmac k salt prefix aad p Hsalt Hpre Hb) as HC.
    destruct sizes as [|n ns].
    - unfold key_read. rewrite HC. reflexivity.
    - pose proof (key_read_honest hkdf gcm_seal gcm_open aes_ctr hmac gcm_len gcm_inv ctr_len ctr_inv hmac_len
                    k salt prefix aad p Hv Hsalt Hpre Hb [n]) as H1.
      unfold key_read in *. rewrite HC in *. cbn [drive] in *. cbn [spec_reads].
      destruct (read (SDEC k (fst sk, snd sk)) read_full (k_rparams k prefix) _ n) as (st', r) eqn:Er.
      destruct r as [b| | |].
      + rewrite (dr_spec_finds n _ _ _ _ _ st' b HC Er keys (fun x H => H) Hin).
        cbn [outcome]. rewrite <- drive_outcome. reflexivity.
      + apply read_eof_last in Er. discriminate.
      + destruct H1 as ([H|H] & _); discriminate.
      + destruct H1 as ([H|H] & _); discriminate.
  Qed.
End KeyReduction.

(* ------------------------------------------------------------------ *)
(* AES-CTR-HMAC: a forged segment is an HMAC forgery                    *)
(* (aes_ctr_hmac.go: tag = HMAC(hmacKey, nonce || ciphertext)[:tagSize]) *)
(* ------------------------------------------------------------------ *)
Lemma nonce_of_length nsz (pre : bytes) cnt last :
  length pre + 5 <= nsz -> length (nonce_of nsz pre cnt last) = nsz.
Proof.
  intros H. unfold nonce_of. rewrite !app_length, be_bytes_length, zeros_length. cbn [length]. lia.
Qed.

Lemma dec_exists_lt (Q : nat -> Prop) : (forall i, {Q i} + {~ Q i}) ->
  forall n, {exists i, i < n /\ Q i} + {~ exists i, i < n /\ Q i}.
Proof.
  intros Hd. induction n as [|n IH].
  - right. intros (i & Hi & _). lia.
  - destruct IH as [IH|IH].
    + left. destruct IH as (i & Hi & HQ). exists i. split; [lia|exact HQ].
    + destruct (Hd n) as [HQ|HQ].
      * left. exists n. split; [lia|exact HQ].
      * right. intros (i & Hi & HQi). destruct (Nat.eq_dec i n) as [->|Hne]; [contradiction|].
        apply IH. exists i. split; [lia|exact HQi].
Qed.

Section KeyPresentedNonce.
  Variable hkdf : hash -> bytes -> bytes -> bytes -> nat -> bytes.
  Variable gcm_open : bytes -> bytes -> bytes -> option bytes.
  Variable aes_ctr : bytes -> bytes -> bytes -> bytes.
  Variable hmac : hash -> bytes -> bytes -> bytes.

  Lemma key_presented_nonce_len k aad' s sizes N c :
    In (N, c) (key_presented hkdf gcm_open aes_ctr hmac k aad' s sizes) -> length N = k_nonce_size k.
  Proof.
    unfold key_presented.
    destruct (new_dec_reader hkdf src read_full k aad' s) as (o, s3) eqn:End.
    destruct o as [[[[k1 k2] pre] st]|]; [|intros []].
    pose proof (new_dec_reader_some hkdf _ _ _ _ _ _ _ _ End) as (Hlim & Hfb).
    rewrite (new_dec_reader_ok hkdf k aad' _ Hlim Hfb) in End. cbn zeta in End.
    remember (firstn nonce_prefix_size (skipn (1 + k_dk k) (srem s))) as pre0 eqn:Hp0.
    assert (Hpl : length pre0 <= nonce_prefix_size) by (rewrite Hp0; apply firstn_le_length).
    remember (src_adv s (hdr_len k)) as s30. remember (firstn (k_dk k) (skipn 1 (srem s))) as salt0.
    inversion End; subst pre. intros Hin.
    destruct (presented_nonce src read_full (k_rparams k pre0) _ _ _ _ _ Hin) as (cnt & last & ->).
    cbn [k_rparams r_nonce_size r_prefix]. apply nonce_of_length.
    unfold nonce_prefix_size in Hpl. destruct k; cbn [k_nonce_size]; lia.
  Qed.
End KeyPresentedNonce.

Section CtrHmacForgery.
  Variable hkdf : hash -> bytes -> bytes -> bytes -> nat -> bytes.
  Variable gcm_seal : bytes -> bytes -> bytes -> bytes.
  Variable gcm_open : bytes -> bytes -> bytes -> option bytes.
  Variable aes_ctr : bytes -> bytes -> bytes -> bytes.
  Variable hmac : hash -> bytes -> bytes -> bytes.
  Local Notation SENC := (seg_enc gcm_seal aes_ctr hmac).
  Local Notation SDEC := (seg_dec gcm_open aes_ctr hmac).

  Variables (mk : bytes) (h : hash) (dk : nat) (th : hash) (tag cseg foff : nat).
  Local Notation k := (CtrHmac mk h dk th tag cseg foff).
  Variables salt prefix aad p : bytes.
  Hypothesis Hpre : length prefix = nonce_prefix_size.
  Local Notation sk := (derive hkdf k salt aad).
  Local Notation ss := (segments (k_cseg k - k_tag k) (k_foff k + hdr_len k) p).
  Local Notation NI := (nonce_i k prefix p).
  Local Notation WRITTEN := (written hkdf gcm_seal aes_ctr hmac k salt prefix aad p).

  (* the (HMAC key, message) pairs the writer authenticated: nonce_i || AES-CTR body_i *)
  Definition maced (hk' x : bytes) : Prop :=
    hk' = snd sk /\ exists i, i < length ss /\ x = NI i ++ aes_ctr (fst sk) (NI i) (nth i ss []).

  (* t is the valid truncated HMAC, under hk', of a message the writer never authenticated under hk' *)
  Definition hmac_forgery (hk' x t : bytes) : Prop := t = firstn tag (hmac th hk' x) /\ ~ maced hk' x.

  Lemma maced_dec hk' x : {maced hk' x} + {~ maced hk' x}.
  Proof.
    unfold maced. destruct (bytes_eq_dec hk' (snd sk)) as [E|E]; [|right; tauto].
    destruct (dec_exists_lt (fun i => x = NI i ++ aes_ctr (fst sk) (NI i) (nth i ss []))
                (fun i => bytes_eq_dec _ _) (length ss)) as [H|H]; [left; auto|right; tauto].
  Qed.

  (* what NewAESCTRHMAC enforces (key_valid): 10 <= tag size <= digest size of the tag hash *)
  Hypothesis Hvk : key_valid k = true.

  Lemma ctr_tag_bounds : 10 <= tag /\ tag <= digest_size th.
  Proof.
    unfold key_valid in Hvk. apply andb_true_iff in Hvk. destruct Hvk as (_ & H).
    apply andb_true_iff in H. destruct H as (A & B). apply Nat.leb_le in A, B. auto.
  Qed.

  (* a segment that decrypts under (sk', N) without having been written carries an
     HMAC forgery (on a tag of the full tag size, at least 10 bytes) - unless sk'
     shares the HMAC half with the writer's session key but not the AES half (a
     partial HKDF collision) *)
  Theorem ctrhmac_seg_forgery_is_hmac_forgery : forall (sk' : bytes * bytes) (N c s : bytes),
    length N = 16 ->
    SDEC k sk' N c = Some s -> ~ WRITTEN sk' N c ->
    (hmac_forgery (snd sk') (N ++ firstn (length c - tag) c) (skipn (length c - tag) c) /\
     length (skipn (length c - tag) c) = tag /\ 10 <= tag) \/
    (snd sk' = snd sk /\ fst sk' <> fst sk).
  Proof.
    intros sk' N c s HN Hd Hnw. cbn [seg_dec] in Hd.
    destruct (Nat.ltb_spec (length c) tag) as [Hlt|Hge]; [discriminate|].
    set (body := firstn (length c - tag) c) in *. set (t := skipn (length c - tag) c) in *.
    destruct (beq t _) eqn:Eb; [|discriminate]. apply beq_eq in Eb.
    destruct (maced_dec (snd sk') (N ++ body)) as [Hm|Hm].
    2:{ left. split; [split; assumption|]. split; [unfold t; rewrite skipn_length; lia|exact (proj1 ctr_tag_bounds)]. }
    right. destruct Hm as (Ehk & i & Hi & Hx). split; [exact Ehk|].
    intros Eek. apply Hnw.
    assert (HNi : length (NI i) = 16).
    { unfold nonce_i. cbn [k_nonce_size]. apply nonce_of_length. rewrite Hpre. unfold nonce_prefix_size. lia. }
    apply app_inv_length in Hx; [|congruence]. destruct Hx as (EN & Ebody).
    split; [destruct sk' as [a b]; destruct (derive hkdf k salt aad) as [a' b']; cbn in *; congruence|].
    exists i. split; [exact Hi|]. split; [exact EN|].
    cbn [seg_enc]. rewrite <- (firstn_skipn (length c - tag) c). fold body t.
    rewrite Eb, Ehk, Ebody, EN. reflexivity.
  Qed.

  (* and conversely: an HMAC forgery on a presented pair IS a forged segment, so
     "no forged segment" refutes the HMAC-forgery disjunct *)
  Lemma hmac_forgery_is_seg_forgery :
    (forall h k m, length (hmac h k m) = digest_size h) ->
    forall (sk' : bytes * bytes) (N c : bytes),
      hmac_forgery (snd sk') (N ++ firstn (length c - tag) c) (skipn (length c - tag) c) ->
      (exists s, SDEC k sk' N c = Some s) /\ ~ WRITTEN sk' N c.
  Proof.
    intros hmac_len sk' N c (Ht & Hnm). destruct ctr_tag_bounds as (T1 & T2).
    assert (Htl : length (skipn (length c - tag) c) = tag).
    { rewrite Ht at 1. rewrite firstn_length, hmac_len. lia. }
    assert (Hge : tag <= length c).
    { destruct (Nat.le_gt_cases tag (length c)) as [H|H]; [exact H|].
      replace (length c - tag) with 0 in Htl by lia. cbn [skipn] in Htl. lia. }
    split.
    - cbn [seg_dec]. destruct (Nat.ltb_spec (length c) tag); [lia|].
      rewrite <- Ht, beq_refl. eexists; reflexivity.
    - intros (Esk & i & Hi & EN & Ec). apply Hnm. split; [rewrite Esk; reflexivity|].
      exists i. split; [exact Hi|]. rewrite EN at 1. f_equal.
      rewrite Ec at 1 2. cbn [seg_enc]. rewrite app_length, firstn_length, hmac_len.
      replace (length (aes_ctr (fst sk) N (nth i ss [])) + Nat.min tag (digest_size th) - tag)
        with (length (aes_ctr (fst sk) N (nth i ss []))) by lia.
      rewrite firstn_app, Nat.sub_diag, firstn_all, firstn_O, app_nil_r. rewrite EN. reflexivity.
  Qed.

  (* composed with the key-level reduction: for an AES-CTR-HMAC key the
     reduction bottoms out in "HMAC produced this tag on an input the writer
     never authenticated" *)
  Theorem ctrhmac_key_manipulation_reduction :
    length salt = k_dk k ->
    (N.of_nat (length ss) <= max_segments)%N ->
    own_segments_decrypt hkdf gcm_seal gcm_open aes_ctr hmac k salt prefix aad p ->
    forall (c' : bytes) (F : option nat) (aad' : bytes) (sizes : list nat),
      let sk' := derive hkdf k (salt_field k c') aad' in
      kgood hkdf gcm_seal aes_ctr hmac k salt prefix aad p c' aad' sizes
            (key_read hkdf gcm_open aes_ctr hmac src read_full k aad' (mkSrc c' F) sizes) \/
      (exists N c, In (N, c) (key_presented hkdf gcm_open aes_ctr hmac k aad' (mkSrc c' F) sizes) /\
                   hmac_forgery (snd sk') (N ++ firstn (length c - tag) c) (skipn (length c - tag) c) /\
                   length (skipn (length c - tag) c) = tag /\ 10 <= tag) \/
      hkdf_collision hkdf k salt aad c' aad' \/
      (snd sk' = snd sk /\ fst sk' <> fst sk).
  Proof.
    intros Hsalt Hb Hcorr c' F aad' sizes sk'.
    destruct (key_manipulation_reduction hkdf gcm_seal gcm_open aes_ctr hmac k salt prefix aad p Hvk Hsalt Hpre Hb
                Hcorr c' F aad' sizes) as [G|[(N & c & s & Hin & Hd & Hnw)|Hc]];
      [left; exact G| |right; right; left; exact Hc].
    pose proof (key_presented_nonce_len hkdf gcm_open aes_ctr hmac k aad' _ sizes N c Hin) as HN.
    destruct (ctrhmac_seg_forgery_is_hmac_forgery _ N c s HN Hd Hnw) as [Hf|Hp].
    - right. left. exists N, c. split; assumption.
    - right. right. right. exact Hp.
  Qed.
End CtrHmacForgery.
