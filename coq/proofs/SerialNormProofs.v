(* The per-type big-integer normalisation of model/Serial.v (what
   parse-then-serialize does to EC coordinates and RSA integers) is idempotent
   and preserves well-formedness; hence re-serialising ANY accepted key
   serialisation reaches a fixed point after one step. *)
From Coq Require Import List NArith Bool Lia ZifyN ZifyNat ZifyBool Arith.
From Tink Require Import Bytes ProtoWire ProtoWireProofs SerialTables Serial SerialProofs.
Import ListNotations.
Open Scope N_scope.

(* ---- field access algebra ---- *)
Lemma get_set s : forall m a v b,
  get_field s (set_field s m a v) b =
  if a =? b then match get_field s m a with Some (t, _) => Some (t, v) | None => None end
  else get_field s m b.
Proof.
  induction s as [|n t s IH]; intros m a v b.
  - cbn [set_field get_field]. destruct (a =? b); reflexivity.
  - destruct m as [|v0 m]; [cbn [set_field get_field]; destruct (a =? b); reflexivity|].
    cbn [set_field get_field]. destruct (n =? a) eqn:Ena.
    + apply N.eqb_eq in Ena. subst n. cbn [get_field]. destruct (a =? b) eqn:Eab; reflexivity.
    + cbn [get_field]. destruct (n =? b) eqn:Enb.
      * apply N.eqb_eq in Enb. subst n. rewrite N.eqb_sym in Ena. rewrite Ena. reflexivity.
      * apply IH.
Qed.

Lemma set_get_id s : forall m a t v, get_field s m a = Some (t, v) -> set_field s m a v = m.
Proof.
  induction s as [|n t0 s IH]; intros m a t v H; [reflexivity|].
  destruct m as [|v0 m]; [reflexivity|]. cbn [get_field set_field] in *.
  destruct (n =? a); [inversion H; reflexivity|]. f_equal. eapply IH. exact H.
Qed.

Lemma get_field_type s : forall m a t v, get_field s m a = Some (t, v) -> wf_msg s m = true -> wf_val t v = true.
Proof.
  induction s as [|n t0 s IH]; intros m a t v H Hw; destruct m as [|v0 m]; cbn [get_field wf_msg] in *; try discriminate.
  apply andb_true_iff in Hw. destruct Hw as [H1 H2].
  destruct (n =? a); [inversion H; subst; exact H1 | eapply IH; eassumption].
Qed.

Lemma wf_set s : forall m a t v0 v,
  wf_msg s m = true -> get_field s m a = Some (t, v0) -> wf_val t v = true ->
  wf_msg s (set_field s m a v) = true.
Proof.
  induction s as [|n t0 s IH]; intros m a t v0 v Hw Hg Hv; destruct m as [|u m]; cbn [get_field wf_msg set_field] in *; try discriminate.
  apply andb_true_iff in Hw. destruct Hw as [H1 H2].
  destruct (n =? a).
  - inversion Hg; subst. cbn [wf_msg]. rewrite Hv, H2. reflexivity.
  - cbn [wf_msg]. rewrite H1. cbn [andb]. eapply IH; eassumption.
Qed.

Lemma wf_default_mut :
  (forall t, wf_val t (default_val t) = true) /\ (forall s, wf_msg s (default_msg s) = true).
Proof.
  apply fty_schema_ind; try reflexivity.
  intros num t Ht s Hs. cbn [default_msg wf_msg]. rewrite Ht, Hs. reflexivity.
Qed.

(* ---- map_bytes ---- *)
Lemma get_bytes_some s m n b : get_bytes s m n = Some b -> get_field s m n = Some (TBytes, VBytes b).
Proof.
  unfold get_bytes. destruct (get_field s m n) as [[t v]|]; [|discriminate].
  destruct t, v; try discriminate. intros H. inversion H. reflexivity.
Qed.

Lemma map_bytes_some s m n f m' : map_bytes s m n f = Some m' ->
  exists b b', get_bytes s m n = Some b /\ f b = Some b' /\ m' = set_field s m n (VBytes b').
Proof.
  unfold map_bytes. destruct (get_bytes s m n) as [b|] eqn:E; [|discriminate].
  destruct (f b) as [b'|] eqn:F; [|discriminate]. intros H. inversion H. eauto.
Qed.

Lemma map_bytes_fix s m n f b : get_bytes s m n = Some b -> f b = Some b -> map_bytes s m n f = Some m.
Proof.
  intros G F. unfold map_bytes. rewrite G, F. f_equal. eapply set_get_id. apply get_bytes_some. exact G.
Qed.

Lemma get_bytes_set_same s m n b b' : get_bytes s m n = Some b -> get_bytes s (set_field s m n (VBytes b')) n = Some b'.
Proof.
  intros G. apply get_bytes_some in G. unfold get_bytes. rewrite get_set, N.eqb_refl, G. reflexivity.
Qed.

Lemma get_bytes_set_other s m a v b : a <> b -> get_bytes s (set_field s m a v) b = get_bytes s m b.
Proof. intros H. unfold get_bytes. rewrite get_set. apply N.eqb_neq in H. rewrite H. reflexivity. Qed.

Lemma get_field_set_other s m a v b : a <> b -> get_field s (set_field s m a v) b = get_field s m b.
Proof. intros H. rewrite get_set. apply N.eqb_neq in H. rewrite H. reflexivity. Qed.

Lemma wf_map_bytes s m n f m' : wf_msg s m = true -> map_bytes s m n f = Some m' -> wf_msg s m' = true.
Proof.
  intros Hw H. destruct (map_bytes_some _ _ _ _ _ H) as (b & b' & G & _ & ->).
  eapply wf_set; [exact Hw | apply get_bytes_some; exact G | reflexivity].
Qed.

(* ---- EC coordinates: idempotent without any assumption on the bytes ---- *)
Lemma fsb_pad x cs : length x = cs -> fixed_size_buffer x (cs + 1) = Some (0 :: x).
Proof.
  intros Hl. unfold fixed_size_buffer. rewrite Hl.
  replace (Nat.eqb cs (cs + 1)) with false by (symmetry; apply Nat.eqb_neq; lia).
  replace (Nat.ltb cs (cs + 1)) with true by (symmetry; apply Nat.ltb_lt; lia).
  replace (cs + 1 - cs)%nat with 1%nat by lia. reflexivity.
Qed.
Lemma fsb_strip x cs : length x = cs -> fixed_size_buffer (0 :: x) cs = Some x.
Proof.
  intros Hl. unfold fixed_size_buffer. cbn [length]. rewrite Hl.
  replace (Nat.eqb (S cs) cs) with false by (symmetry; apply Nat.eqb_neq; lia).
  replace (Nat.ltb (S cs) cs) with false by (symmetry; apply Nat.ltb_ge; lia).
  replace (S cs - cs)%nat with 1%nat by lia. reflexivity.
Qed.

Lemma ec_coord_norm_idem' cs b r : ec_coord_norm cs b = Some r -> ec_coord_norm cs r = Some r.
Proof.
  unfold ec_coord_norm. destruct (fixed_size_buffer b cs) as [x|] eqn:E; [|discriminate].
  destruct (fixed_size_buffer_some _ _ _ E) as (Hl & _ & _).
  rewrite (fsb_pad x cs Hl). intros H. inversion H; subst r. clear H.
  rewrite (fsb_strip x cs Hl). apply fsb_pad. exact Hl.
Qed.

Lemma ec_pub_norm_idem cs s m m' : ec_pub_norm cs s m = Some m' -> ec_pub_norm cs s m' = Some m'.
Proof.
  unfold ec_pub_norm. destruct (map_bytes s m 3 (ec_coord_norm cs)) as [m1|] eqn:E1; [|discriminate].
  intros E2.
  destruct (map_bytes_some _ _ _ _ _ E1) as (x & x' & Gx & Fx & ->).
  destruct (map_bytes_some _ _ _ _ _ E2) as (y & y' & Gy & Fy & ->).
  rewrite get_bytes_set_other in Gy by lia.
  set (m1 := set_field s m 3 (VBytes x')) in *.
  assert (G3 : get_bytes s (set_field s m1 4 (VBytes y')) 3 = Some x').
  { rewrite get_bytes_set_other by lia. unfold m1. eapply get_bytes_set_same. exact Gx. }
  assert (G4 : get_bytes s (set_field s m1 4 (VBytes y')) 4 = Some y').
  { eapply get_bytes_set_same. unfold m1. rewrite get_bytes_set_other by lia. exact Gy. }
  rewrite (map_bytes_fix _ _ 3 _ x' G3 (ec_coord_norm_idem' _ _ _ Fx)).
  apply (map_bytes_fix _ _ 4 _ y' G4 (ec_coord_norm_idem' _ _ _ Fy)).
Qed.

Lemma ec_pub_norm_wf cs s m m' : wf_msg s m = true -> ec_pub_norm cs s m = Some m' -> wf_msg s m' = true.
Proof.
  unfold ec_pub_norm. intros Hw. destruct (map_bytes s m 3 (ec_coord_norm cs)) as [m1|] eqn:E1; [|discriminate].
  intros E2. eapply wf_map_bytes; [|exact E2]. eapply wf_map_bytes; eassumption.
Qed.

(* fields other than 3 and 4 are untouched *)
Lemma ec_pub_norm_other cs s m m' n : ec_pub_norm cs s m = Some m' -> n <> 3 -> n <> 4 ->
  get_field s m' n = get_field s m n.
Proof.
  unfold ec_pub_norm. destruct (map_bytes s m 3 (ec_coord_norm cs)) as [m1|] eqn:E1; [|discriminate].
  intros E2 H3 H4.
  destruct (map_bytes_some _ _ _ _ _ E1) as (x & x' & _ & _ & ->).
  destruct (map_bytes_some _ _ _ _ _ E2) as (y & y' & _ & _ & ->).
  rewrite !get_field_set_other by lia. reflexivity.
Qed.

Lemma ec_priv_norm_idem cs s m m' : ec_priv_norm cs s m = Some m' -> ec_priv_norm cs s m' = Some m'.
Proof.
  unfold ec_priv_norm.
  destruct (get_field s m 2) as [[t v]|] eqn:G2; [|discriminate].
  destruct t; try discriminate. destruct v as [| |pm|]; try discriminate.
  set (pm0 := match pm with Some x => x | None => default_msg s0 end).
  destruct (ec_pub_norm cs s0 pm0) as [pm'|] eqn:EP; [|discriminate].
  intros E3. destruct (map_bytes_some _ _ _ _ _ E3) as (k & k' & Gk & Fk & ->).
  rewrite get_bytes_set_other in Gk by lia.
  set (m1 := set_field s m 2 (VMsg (Some pm'))) in *.
  assert (H2 : get_field s (set_field s m1 3 (VBytes k')) 2 = Some (TMsg s0, VMsg (Some pm'))).
  { rewrite get_field_set_other by lia. unfold m1. rewrite get_set, N.eqb_refl, G2. reflexivity. }
  rewrite H2. rewrite (ec_pub_norm_idem _ _ _ _ EP).
  rewrite (set_get_id _ _ _ _ _ H2).
  apply (map_bytes_fix _ _ 3 _ k').
  - eapply get_bytes_set_same. unfold m1. rewrite get_bytes_set_other by lia. exact Gk.
  - eapply ec_coord_norm_idem'. exact Fk.
Qed.

Lemma ec_priv_norm_wf cs s m m' : wf_msg s m = true -> ec_priv_norm cs s m = Some m' -> wf_msg s m' = true.
Proof.
  unfold ec_priv_norm. intros Hw.
  destruct (get_field s m 2) as [[t v]|] eqn:G2; [|discriminate].
  destruct t; try discriminate. destruct v as [| |pm|]; try discriminate.
  set (pm0 := match pm with Some x => x | None => default_msg s0 end).
  destruct (ec_pub_norm cs s0 pm0) as [pm'|] eqn:EP; [|discriminate].
  intros E3. eapply wf_map_bytes; [|exact E3].
  eapply wf_set; [exact Hw | exact G2 |]. cbn [wf_val].
  eapply ec_pub_norm_wf; [|exact EP].
  pose proof (get_field_type _ _ _ _ _ G2 Hw) as Hv. cbn [wf_val] in Hv.
  unfold pm0. destruct pm; [exact Hv | apply (proj2 wf_default_mut)].
Qed.

(* ---- RSA integers ---- *)
Lemma strip_zeros_app_zeros k b : strip_zeros (zeros k ++ b) = strip_zeros b.
Proof. induction k as [|k IH]; [reflexivity|]. change (zeros (S k)) with (0 :: zeros k). cbn [app strip_zeros]. exact IH. Qed.

Lemma pad_strip_idem n b r : pad_left (strip_zeros b) n = Some r -> pad_left (strip_zeros r) n = Some r.
Proof.
  unfold pad_left. destruct (Nat.leb (length (strip_zeros b)) n) eqn:E; [|discriminate].
  intros H. inversion H; subst r. clear H.
  rewrite strip_zeros_app_zeros, strip_zeros_idem, E. reflexivity.
Qed.

Definition idem (f : bytes -> option bytes) : Prop := forall b r, f b = Some r -> f r = Some r.

Lemma two_fields_idem s m m' a b f g : a <> b -> idem f -> idem g ->
  match map_bytes s m a f with Some m1 => map_bytes s m1 b g | None => None end = Some m' ->
  match map_bytes s m' a f with Some m1 => map_bytes s m1 b g | None => None end = Some m'.
Proof.
  intros Hab Hf Hg. destruct (map_bytes s m a f) as [m1|] eqn:E1; [|discriminate]. intros E2.
  destruct (map_bytes_some _ _ _ _ _ E1) as (x & x' & Gx & Fx & ->).
  destruct (map_bytes_some _ _ _ _ _ E2) as (y & y' & Gy & Fy & ->).
  rewrite get_bytes_set_other in Gy by exact Hab.
  set (m1 := set_field s m a (VBytes x')) in *.
  assert (Ga : get_bytes s (set_field s m1 b (VBytes y')) a = Some x').
  { rewrite get_bytes_set_other by (intros E; apply Hab; symmetry; exact E). unfold m1. eapply get_bytes_set_same. exact Gx. }
  assert (Gb : get_bytes s (set_field s m1 b (VBytes y')) b = Some y').
  { eapply get_bytes_set_same. unfold m1. rewrite get_bytes_set_other by exact Hab. exact Gy. }
  rewrite (map_bytes_fix _ _ a _ x' Ga (Hf _ _ Fx)).
  apply (map_bytes_fix _ _ b _ y' Gb (Hg _ _ Fy)).
Qed.

Lemma idem_strip : idem (fun b => Some (strip_zeros b)).
Proof. intros b r H. inversion H. rewrite strip_zeros_idem. reflexivity. Qed.
Lemma idem_strip_if (c : bool) : idem (fun b => Some (if c then strip_zeros b else b)).
Proof. intros b r H. inversion H. destruct c; [rewrite strip_zeros_idem|]; reflexivity. Qed.
Lemma idem_pad n : idem (fun b => pad_left (strip_zeros b) n).
Proof. intros b r H. eapply pad_strip_idem. exact H. Qed.

Lemma rsa_pub_norm_idem c s m m' : rsa_pub_norm c s m = Some m' -> rsa_pub_norm c s m' = Some m'.
Proof. unfold rsa_pub_norm. apply two_fields_idem; [lia | apply idem_strip_if | apply idem_strip]. Qed.

Lemma rsa_pub_norm_wf c s m m' : wf_msg s m = true -> rsa_pub_norm c s m = Some m' -> wf_msg s m' = true.
Proof.
  unfold rsa_pub_norm. intros Hw. destruct (map_bytes s m 3 _) as [m1|] eqn:E1; [|discriminate].
  intros E2. eapply wf_map_bytes; [|exact E2]. eapply wf_map_bytes; eassumption.
Qed.

Lemma rsa_pub_norm_other c s m m' n : rsa_pub_norm c s m = Some m' -> n <> 3 -> n <> 4 ->
  get_field s m' n = get_field s m n.
Proof.
  unfold rsa_pub_norm. destruct (map_bytes s m 3 _) as [m1|] eqn:E1; [|discriminate].
  intros E2 H3 H4.
  destruct (map_bytes_some _ _ _ _ _ E1) as (x & x' & _ & _ & ->).
  destruct (map_bytes_some _ _ _ _ _ E2) as (y & y' & _ & _ & ->).
  rewrite !get_field_set_other by lia. reflexivity.
Qed.

Ltac peel := unfold get_bytes; repeat rewrite get_set; cbn [N.eqb Pos.eqb].

Lemma rsa_priv_norm_idem c s m m' : rsa_priv_norm c s m = Some m' -> rsa_priv_norm c s m' = Some m'.
Proof.
  unfold rsa_priv_norm.
  destruct (get_field s m 2) as [[t v]|] eqn:G2; [|discriminate].
  destruct t; try discriminate. destruct v as [| |pm|]; try discriminate.
  set (pm0 := match pm with Some x => x | None => default_msg s0 end).
  destruct (rsa_pub_norm c s0 pm0) as [pm'|] eqn:EP; [|discriminate].
  destruct (get_bytes s0 pm' 3) as [n|] eqn:Gn; [|discriminate].
  destruct (get_bytes s m 4) as [p|] eqn:Gp; [|discriminate].
  destruct (get_bytes s m 5) as [q|] eqn:Gq; [|discriminate].
  set (p' := strip_zeros p). set (q' := strip_zeros q).
  destruct (map_bytes s _ 3 _) as [m3|] eqn:E3; [|discriminate].
  destruct (map_bytes s m3 6 _) as [m4|] eqn:E6; [|discriminate].
  destruct (map_bytes s m4 7 _) as [m5|] eqn:E7; [|discriminate].
  intros E8.
  destruct (map_bytes_some _ _ _ _ _ E3) as (d & d' & Gd & Fd & ->).
  destruct (map_bytes_some _ _ _ _ _ E6) as (dp & dp' & Gdp & Fdp & ->).
  destruct (map_bytes_some _ _ _ _ _ E7) as (dq & dq' & Gdq & Fdq & ->).
  destruct (map_bytes_some _ _ _ _ _ E8) as (cr & cr' & Gcr & Fcr & ->).
  repeat rewrite get_bytes_set_other in Gd by lia.
  repeat rewrite get_bytes_set_other in Gdp by lia.
  repeat rewrite get_bytes_set_other in Gdq by lia.
  repeat rewrite get_bytes_set_other in Gcr by lia.
  apply get_bytes_some in Gp, Gq, Gd, Gdp, Gdq, Gcr.
  (* the final message, field by field *)
  match goal with |- context [get_field s ?M 2] => set (mf := M) end.
  assert (H2 : get_field s mf 2 = Some (TMsg s0, VMsg (Some pm'))).
  { unfold mf. repeat rewrite get_set. cbn [N.eqb Pos.eqb]. rewrite G2. reflexivity. }
  assert (H4 : get_field s mf 4 = Some (TBytes, VBytes p')).
  { unfold mf. repeat rewrite get_set. cbn [N.eqb Pos.eqb]. rewrite Gp. reflexivity. }
  assert (H5 : get_field s mf 5 = Some (TBytes, VBytes q')).
  { unfold mf. repeat rewrite get_set. cbn [N.eqb Pos.eqb]. rewrite Gq. reflexivity. }
  assert (H3 : get_field s mf 3 = Some (TBytes, VBytes d')).
  { unfold mf. repeat rewrite get_set. cbn [N.eqb Pos.eqb]. rewrite Gd. reflexivity. }
  assert (H6 : get_field s mf 6 = Some (TBytes, VBytes dp')).
  { unfold mf. repeat rewrite get_set. cbn [N.eqb Pos.eqb]. rewrite Gdp. reflexivity. }
  assert (H7 : get_field s mf 7 = Some (TBytes, VBytes dq')).
  { unfold mf. repeat rewrite get_set. cbn [N.eqb Pos.eqb]. rewrite Gdq. reflexivity. }
  assert (H8 : get_field s mf 8 = Some (TBytes, VBytes cr')).
  { unfold mf. repeat rewrite get_set. cbn [N.eqb Pos.eqb]. rewrite Gcr. reflexivity. }
  clearbody mf.
  rewrite H2. rewrite (rsa_pub_norm_idem _ _ _ _ EP). rewrite Gn.
  unfold get_bytes at 1 2. rewrite H4, H5.
  assert (Ep : strip_zeros p' = p') by apply strip_zeros_idem.
  assert (Eq : strip_zeros q' = q') by apply strip_zeros_idem.
  rewrite Ep, Eq.
  rewrite (set_get_id _ _ _ _ _ H2), (set_get_id _ _ _ _ _ H4), (set_get_id _ _ _ _ _ H5).
  assert (B3 : get_bytes s mf 3 = Some d') by (unfold get_bytes; rewrite H3; reflexivity).
  assert (B6 : get_bytes s mf 6 = Some dp') by (unfold get_bytes; rewrite H6; reflexivity).
  assert (B7 : get_bytes s mf 7 = Some dq') by (unfold get_bytes; rewrite H7; reflexivity).
  assert (B8 : get_bytes s mf 8 = Some cr') by (unfold get_bytes; rewrite H8; reflexivity).
  rewrite (map_bytes_fix _ _ 3 _ d' B3 (idem_pad _ _ _ Fd)).
  rewrite (map_bytes_fix _ _ 6 _ dp' B6 (idem_pad _ _ _ Fdp)).
  rewrite (map_bytes_fix _ _ 7 _ dq' B7 (idem_pad _ _ _ Fdq)).
  apply (map_bytes_fix _ _ 8 _ cr' B8 (idem_pad _ _ _ Fcr)).
Qed.

Lemma rsa_priv_norm_wf c s m m' : wf_msg s m = true -> rsa_priv_norm c s m = Some m' -> wf_msg s m' = true.
Proof.
  unfold rsa_priv_norm. intros Hw.
  destruct (get_field s m 2) as [[t v]|] eqn:G2; [|discriminate].
  destruct t; try discriminate. destruct v as [| |pm|]; try discriminate.
  set (pm0 := match pm with Some x => x | None => default_msg s0 end).
  destruct (rsa_pub_norm c s0 pm0) as [pm'|] eqn:EP; [|discriminate].
  destruct (get_bytes s0 pm' 3) as [n|] eqn:Gn; [|discriminate].
  destruct (get_bytes s m 4) as [p|] eqn:Gp; [|discriminate].
  destruct (get_bytes s m 5) as [q|] eqn:Gq; [|discriminate].
  destruct (map_bytes s _ 3 _) as [m3|] eqn:E3; [|discriminate].
  destruct (map_bytes s m3 6 _) as [m4|] eqn:E6; [|discriminate].
  destruct (map_bytes s m4 7 _) as [m5|] eqn:E7; [|discriminate].
  intros E8.
  eapply wf_map_bytes; [|exact E8]. eapply wf_map_bytes; [|exact E7].
  eapply wf_map_bytes; [|exact E6]. eapply wf_map_bytes; [|exact E3].
  assert (W1 : wf_msg s (set_field s m 2 (VMsg (Some pm'))) = true).
  { eapply wf_set; [exact Hw | exact G2 |]. cbn [wf_val]. eapply rsa_pub_norm_wf; [|exact EP].
    pose proof (get_field_type _ _ _ _ _ G2 Hw) as Hv. cbn [wf_val] in Hv.
    unfold pm0. destruct pm; [exact Hv | apply (proj2 wf_default_mut)]. }
  apply get_bytes_some in Gp, Gq.
  apply (wf_set s _ 5 TBytes (VBytes q)); [| |reflexivity].
  - apply (wf_set s _ 4 TBytes (VBytes p)); [exact W1 | | reflexivity]. rewrite get_field_set_other by lia. exact Gp.
  - rewrite !get_field_set_other by lia. exact Gq.
Qed.

(* the public part of a normalised private key *)
Lemma ec_priv_norm_pub cs s m m' : ec_priv_norm cs s m = Some m' ->
  exists ps pm pm', get_field s m 2 = Some (TMsg ps, VMsg pm) /\
    ec_pub_norm cs ps (match pm with Some x => x | None => default_msg ps end) = Some pm' /\
    get_field s m' 2 = Some (TMsg ps, VMsg (Some pm')).
Proof.
  unfold ec_priv_norm.
  destruct (get_field s m 2) as [[t v]|] eqn:G2; [|discriminate].
  destruct t; try discriminate. destruct v as [| |pm|]; try discriminate.
  destruct (ec_pub_norm cs s0 _) as [pm'|] eqn:EP; [|discriminate].
  intros E3. destruct (map_bytes_some _ _ _ _ _ E3) as (k & k' & _ & _ & ->).
  exists s0, pm, pm'. repeat split; [exact EP|].
  rewrite get_field_set_other by lia. rewrite get_set, N.eqb_refl, G2. reflexivity.
Qed.

Lemma rsa_priv_norm_pub c s m m' : rsa_priv_norm c s m = Some m' ->
  exists ps pm pm', get_field s m 2 = Some (TMsg ps, VMsg pm) /\
    rsa_pub_norm c ps (match pm with Some x => x | None => default_msg ps end) = Some pm' /\
    get_field s m' 2 = Some (TMsg ps, VMsg (Some pm')).
Proof.
  unfold rsa_priv_norm.
  destruct (get_field s m 2) as [[t v]|] eqn:G2; [|discriminate].
  destruct t; try discriminate. destruct v as [| |pm|]; try discriminate.
  destruct (rsa_pub_norm c s0 _) as [pm'|] eqn:EP; [|discriminate].
  destruct (get_bytes s0 pm' 3) as [n|]; [|discriminate].
  destruct (get_bytes s m 4) as [p|]; [|discriminate].
  destruct (get_bytes s m 5) as [q|]; [|discriminate].
  destruct (map_bytes s _ 3 _) as [m3|] eqn:E3; [|discriminate].
  destruct (map_bytes s m3 6 _) as [m4|] eqn:E6; [|discriminate].
  destruct (map_bytes s m4 7 _) as [m5|] eqn:E7; [|discriminate].
  intros E8.
  destruct (map_bytes_some _ _ _ _ _ E3) as (? & ? & _ & _ & ->).
  destruct (map_bytes_some _ _ _ _ _ E6) as (? & ? & _ & _ & ->).
  destruct (map_bytes_some _ _ _ _ _ E7) as (? & ? & _ & _ & ->).
  destruct (map_bytes_some _ _ _ _ _ E8) as (? & ? & _ & _ & ->).
  exists s0, pm, pm'. repeat split; [exact EP|].
  rewrite !get_field_set_other by lia. rewrite get_set, N.eqb_refl, G2. reflexivity.
Qed.

(* fields other than 2..8 of a normalised private key are untouched *)
Lemma ec_priv_norm_other cs s m m' n : ec_priv_norm cs s m = Some m' -> n <> 2 -> n <> 3 ->
  get_field s m' n = get_field s m n.
Proof.
  unfold ec_priv_norm.
  destruct (get_field s m 2) as [[t v]|] eqn:G2; [|discriminate].
  destruct t; try discriminate. destruct v as [| |pm|]; try discriminate.
  destruct (ec_pub_norm cs s0 _) as [pm'|] eqn:EP; [|discriminate].
  intros E3 H2 H3. destruct (map_bytes_some _ _ _ _ _ E3) as (k & k' & _ & _ & ->).
  rewrite !get_field_set_other by lia. reflexivity.
Qed.

(* coordinate size is read from fields the normalisation does not touch *)
Lemma get_sub_eq s m m' n : get_field s m' n = get_field s m n -> get_sub s m' n = get_sub s m n.
Proof. unfold get_sub. intros ->. reflexivity. Qed.
Lemma get_int_eq s m m' n : get_field s m' n = get_field s m n -> get_int s m' n = get_int s m n.
Proof. unfold get_int. intros ->. reflexivity. Qed.

Lemma ecdsa_cs_stable cs s m m' : ec_pub_norm cs s m = Some m' -> ecdsa_cs s m' = ecdsa_cs s m.
Proof. intros H. unfold ecdsa_cs. rewrite (get_sub_eq s m m' 2); [reflexivity|]. eapply ec_pub_norm_other; [exact H | lia | lia]. Qed.
Lemma jwtecdsa_cs_stable cs s m m' : ec_pub_norm cs s m = Some m' -> jwtecdsa_cs s m' = jwtecdsa_cs s m.
Proof. intros H. unfold jwtecdsa_cs. rewrite (get_int_eq s m m' 2); [reflexivity|]. eapply ec_pub_norm_other; [exact H | lia | lia]. Qed.
Lemma ecies_cs_stable cs s m m' : ec_pub_norm cs s m = Some m' -> ecies_cs s m' = ecies_cs s m.
Proof. intros H. unfold ecies_cs. rewrite (get_sub_eq s m m' 2); [reflexivity|]. eapply ec_pub_norm_other; [exact H | lia | lia]. Qed.

Lemma on_pub_after s m ps pm' : get_field s m 2 = Some (TMsg ps, VMsg (Some pm')) -> on_pub s m = Some (ps, pm').
Proof. unfold on_pub, get_sub. intros ->. reflexivity. Qed.
Lemma on_pub_before s m ps pm : get_field s m 2 = Some (TMsg ps, VMsg pm) ->
  on_pub s m = Some (ps, match pm with Some x => x | None => default_msg ps end).
Proof. unfold on_pub, get_sub. intros ->. destruct pm; reflexivity. Qed.

Theorem normalise_idem k s m m' : normalise k s m = Some m' -> normalise k s m' = Some m'.
Proof.
  destruct k; cbn [normalise].
  - intros H. inversion H. reflexivity.
  - destruct (ecdsa_cs s m) as [cs|] eqn:E; [|discriminate]. intros H.
    rewrite (ecdsa_cs_stable _ _ _ _ H), E. eapply ec_pub_norm_idem. exact H.
  - destruct (on_pub s m) as [[ps pm0]|] eqn:EO; [|discriminate].
    destruct (ecdsa_cs ps pm0) as [cs|] eqn:E; [|discriminate]. intros H.
    destruct (ec_priv_norm_pub _ _ _ _ H) as (ps' & pm & pm' & G2 & EP & G2').
    rewrite (on_pub_before _ _ _ _ G2) in EO. inversion EO; subst ps pm0.
    rewrite (on_pub_after _ _ _ _ G2').
    replace (ecdsa_cs ps' pm') with (Some cs) by (symmetry; rewrite (ecdsa_cs_stable _ _ _ _ EP); exact E).
    eapply ec_priv_norm_idem. exact H.
  - destruct (jwtecdsa_cs s m) as [cs|] eqn:E; [|discriminate]. intros H.
    rewrite (jwtecdsa_cs_stable _ _ _ _ H), E. eapply ec_pub_norm_idem. exact H.
  - destruct (on_pub s m) as [[ps pm0]|] eqn:EO; [|discriminate].
    destruct (jwtecdsa_cs ps pm0) as [cs|] eqn:E; [|discriminate]. intros H.
    destruct (ec_priv_norm_pub _ _ _ _ H) as (ps' & pm & pm' & G2 & EP & G2').
    rewrite (on_pub_before _ _ _ _ G2) in EO. inversion EO; subst ps pm0.
    rewrite (on_pub_after _ _ _ _ G2').
    replace (jwtecdsa_cs ps' pm') with (Some cs) by (symmetry; rewrite (jwtecdsa_cs_stable _ _ _ _ EP); exact E).
    eapply ec_priv_norm_idem. exact H.
  - destruct (ecies_cs s m) as [[cs|]|] eqn:E; [| |discriminate]; intros H.
    + rewrite (ecies_cs_stable _ _ _ _ H), E. eapply ec_pub_norm_idem. exact H.
    + inversion H; subst m'. rewrite E. reflexivity.
  - destruct (on_pub s m) as [[ps pm0]|] eqn:EO; [|discriminate].
    destruct (ecies_cs ps pm0) as [[cs|]|] eqn:E; [| |discriminate]; intros H.
    + destruct (ec_priv_norm_pub _ _ _ _ H) as (ps' & pm & pm' & G2 & EP & G2').
      rewrite (on_pub_before _ _ _ _ G2) in EO. inversion EO; subst ps pm0.
      rewrite (on_pub_after _ _ _ _ G2').
      replace (ecies_cs ps' pm') with (Some (Some cs)) by (symmetry; rewrite (ecies_cs_stable _ _ _ _ EP); exact E).
      eapply ec_priv_norm_idem. exact H.
    + inversion H; subst m'. rewrite EO, E. reflexivity.
  - apply rsa_pub_norm_idem.
  - apply rsa_priv_norm_idem.
  - apply rsa_pub_norm_idem.
  - apply rsa_priv_norm_idem.
Qed.

Theorem normalise_wf k s m m' : wf_msg s m = true -> normalise k s m = Some m' -> wf_msg s m' = true.
Proof.
  intros Hw. destruct k; cbn [normalise].
  - intros H. inversion H; subst. exact Hw.
  - destruct (ecdsa_cs s m); [|discriminate]. apply ec_pub_norm_wf. exact Hw.
  - destruct (on_pub s m) as [[ps pm0]|]; [|discriminate]. destruct (ecdsa_cs ps pm0); [|discriminate].
    apply ec_priv_norm_wf. exact Hw.
  - destruct (jwtecdsa_cs s m); [|discriminate]. apply ec_pub_norm_wf. exact Hw.
  - destruct (on_pub s m) as [[ps pm0]|]; [|discriminate]. destruct (jwtecdsa_cs ps pm0); [|discriminate].
    apply ec_priv_norm_wf. exact Hw.
  - destruct (ecies_cs s m) as [[cs|]|]; [| |discriminate].
    + apply ec_pub_norm_wf. exact Hw.
    + intros H. inversion H; subst. exact Hw.
  - destruct (on_pub s m) as [[ps pm0]|]; [|discriminate]. destruct (ecies_cs ps pm0) as [[cs|]|]; [| |discriminate].
    + apply ec_priv_norm_wf. exact Hw.
    + intros H. inversion H; subst. exact Hw.
  - apply rsa_pub_norm_wf. exact Hw.
  - apply rsa_priv_norm_wf. exact Hw.
  - apply rsa_pub_norm_wf. exact Hw.
  - apply rsa_priv_norm_wf. exact Hw.
Qed.

(* ------------------------------------------------------------------ *)
(* Re-serialising ANY accepted serialisation of a registered type reaches a
   fixed point: the new serialisation parses to the same key, so a further
   serialisation is byte-identical.                                      *)
(* ------------------------------------------------------------------ *)
Lemma lookup_unique t k a b : lookup t k = Some a -> lookup t k = Some b -> a = b.
Proof. congruence. Qed.

Theorem reserialization_fixed_point url sch T s k s' :
  ktype_of url sch = Some T -> wf_schema sch = true ->
  parse_key T s = Some k -> serialize_key T k = Some s' ->
  N.of_nat (length (ks_value s')) < two64 ->
  parse_key T s' = Some k.
Proof.
  intros HT Hs Hp Hser Hl.
  assert (Hsch : kt_schema T = sch).
  { unfold ktype_of in HT. destruct (prefix_kind_of url); inversion HT. reflexivity. }
  (* the table facts of this URL *)
  unfold ktype_of, prefix_kind_of in HT.
  destruct (lookup_bytes prefix_maps url) as [[kind [custom [to_p [from_p from_kid]]]]|] eqn:E; [|discriminate].
  destruct (lookup_bytes_in _ _ _ E) as [u Hin].
  pose proof prefix_maps_ok as Hpm. rewrite forallb_forall in Hpm. specialize (Hpm _ Hin). unfold pm_ok in Hpm.
  (* unfold the first parse *)
  pose proof Hp as Hp0. unfold parse_key in Hp. rewrite Hsch in Hp.
  destruct (decode sch (ks_value s)) as [m|] eqn:Ed; [|discriminate].
  destruct (normalise (kt_norm T) sch m) as [m'|] eqn:En; [|discriminate].
  assert (Hwm : wf_msg sch m' = true) by (eapply normalise_wf; [eapply decode_wf; exact Ed | exact En]).
  assert (Hidem : normalise (kt_norm T) sch m' = Some m') by (eapply normalise_idem; exact En).
  assert (Hfields : forall v i, k = mkGkey (ks_url s) (ks_mat s) v i m' ->
            N.of_nat (length (encode (kt_schema T) (gk_fields k))) < two64).
  { intros v i ->. cbn [gk_fields]. unfold serialize_key in Hser. cbn [gk_fields gk_url gk_mat gk_variant gk_id] in Hser.
    rewrite Hsch in *.
    destruct (kt_prefix T) as [a b|c a b d e|].
    - destruct (lookup a v); [|discriminate]. apply new_key_serialization_some in Hser. destruct Hser as [-> _]. exact Hl.
    - destruct (lookup a v); [|discriminate]. apply new_key_serialization_some in Hser. destruct Hser as [-> _]. exact Hl.
    - apply new_key_serialization_some in Hser. destruct Hser as [-> _]. exact Hl. }
  destruct (kind =? 1) eqn:K1.
  - (* prefix ignored *)
    inversion HT; subst T. cbn [kt_prefix kt_schema kt_norm] in *. inversion Hp; subst k.
    eapply parse_serialize_key; cbn [kt_schema kt_norm kt_prefix gk_fields]; try eassumption.
    + eapply (Hfields 0 0). reflexivity.
    + unfold variant_ok. cbn [kt_prefix gk_variant gk_id]. auto.
  - destruct (kind =? 2) eqn:K2.
    + (* JWT *)
      destruct (lookup_bytes jwt_kid_paths url) as [path|]; [|discriminate].
      inversion HT; subst T. cbn [kt_prefix kt_schema kt_norm] in *.
      rewrite !andb_true_iff in Hpm. destruct Hpm as [[[_ S1] S2] NC].
      set (kid := has_path sch m' path) in *.
      destruct (lookup (if kid then from_kid else from_p) (ks_prefix s)) as [v|] eqn:Ev; [|discriminate].
      destruct (kid && negb (v =? custom)) eqn:Ek; [discriminate|]. inversion Hp; subst k.
      eapply parse_serialize_key; cbn [kt_schema kt_norm kt_prefix gk_fields]; try eassumption.
      * eapply (Hfields v (ks_id s)). reflexivity.
      * unfold variant_ok. cbn [kt_prefix kt_schema gk_fields gk_variant]. fold kid.
        assert (Hiff : kid = true <-> v = custom).
        { split.
          - intros Hk. rewrite Hk in Ek. cbn [andb] in Ek. apply negb_false_iff, N.eqb_eq in Ek. exact Ek.
          - intros ->. destruct kid eqn:Hk; [reflexivity|]. exfalso.
            rewrite forallb_forall in NC. specialize (NC _ (lookup_in _ _ _ Ev)). cbn [snd] in NC.
            rewrite N.eqb_refl in NC. discriminate. }
        split; [exact Hiff|].
        intros p' Hp'. destruct (v =? custom) eqn:Ec.
        -- apply N.eqb_eq in Ec. rewrite (proj2 Hiff Ec) in Ev.
           destruct (stable_ok_spec _ _ S2 _ _ Ev) as (p'' & A & B). rewrite (lookup_unique _ _ _ _ Hp' A). exact B.
        -- assert (Hk : kid = false).
           { destruct kid; [|reflexivity]. apply N.eqb_neq in Ec. exfalso. apply Ec. apply Hiff. reflexivity. }
           rewrite Hk in Ev.
           destruct (stable_ok_spec _ _ S1 _ _ Ev) as (p'' & A & B). rewrite (lookup_unique _ _ _ _ Hp' A). exact B.
    + (* tables *)
      inversion HT; subst T. cbn [kt_prefix kt_schema kt_norm] in *.
      rewrite !andb_true_iff in Hpm. destruct Hpm as [[_ _] S1].
      destruct (lookup from_p (ks_prefix s)) as [v|] eqn:Ev; [|discriminate]. inversion Hp; subst k.
      eapply parse_serialize_key; cbn [kt_schema kt_norm kt_prefix gk_fields]; try eassumption.
      * eapply (Hfields v (ks_id s)). reflexivity.
      * unfold variant_ok. cbn [kt_prefix gk_variant]. intros p' Hp'.
        destruct (stable_ok_spec _ _ S1 _ _ Ev) as (p'' & A & B). rewrite (lookup_unique _ _ _ _ Hp' A). exact B.
Qed.

(* ... in particular the third serialisation equals the second, byte for byte *)
Corollary reserialization_byte_identical url sch T s k s' :
  ktype_of url sch = Some T -> wf_schema sch = true ->
  parse_key T s = Some k -> serialize_key T k = Some s' ->
  N.of_nat (length (ks_value s')) < two64 ->
  exists k', parse_key T s' = Some k' /\ serialize_key T k' = Some s'.
Proof.
  intros. exists k. split; [eapply reserialization_fixed_point; eassumption | assumption].
Qed.
