(* Ties between the streaming-AEAD size constants REGENERATED from streamingaead/subtle
   (gen/RepoConsts.v) and the sizes the C07 model (model/Stream.v) is stated over. *)
From Coq Require Import NArith List String.
From Tink Require Import RepoConsts Stream.

(* every regenerated constant this file needs is named in a lemma below: if the translator
   cannot find one in the source its definition is missing and that lemma stops checking;
   constants of other properties do not matter here *)

Lemma tie_nonce_prefix_size :
  N.of_nat nonce_prefix_size = gen_stream_gcmhkdf_nonce_prefix_size /\
  N.of_nat nonce_prefix_size = gen_stream_ctrhmac_nonce_prefix_size.
Proof. split; reflexivity. Qed.

Lemma tie_nonce_size_gcm : forall m h d c o,
  N.of_nat (k_nonce_size (GcmHkdf m h d c o)) = gen_stream_gcmhkdf_nonce_size.
Proof. reflexivity. Qed.

Lemma tie_nonce_size_ctr : forall m h d th t c o,
  N.of_nat (k_nonce_size (CtrHmac m h d th t c o)) = gen_stream_ctrhmac_nonce_size.
Proof. reflexivity. Qed.

Lemma tie_tag_size_gcm : forall m h d c o,
  N.of_nat (k_tag (GcmHkdf m h d c o)) = gen_stream_gcmhkdf_tag_size.
Proof. reflexivity. Qed.
