(* Proofs about model/Rand.v (C20): the random fields of the outputs are
   disjoint, contiguous, full-length windows of the tape, mapped by the
   identity; key ids are the first unused 4-byte window. *)
From Coq Require Import List NArith Bool Arith Lia.
From Tink Require Import Bytes Manager ManagerProofs Rand.
Import ListNotations.
Open Scope N_scope.

(* ---- reads ------------------------------------------------------------- *)

Lemma read_spec n t w t' :
  read n t = Some (w, t') ->
  t = w ++ t' /\ length w = n /\ w = firstn n t /\ t' = skipn n t /\ (n <= length t)%nat.
Proof.
  unfold read. destruct (Nat.leb n (length t)) eqn:E; [|discriminate].
  apply Nat.leb_le in E. intros H; inversion H; subst.
  repeat split; auto.
  - symmetry. apply firstn_skipn.
  - apply firstn_length_le; auto.
Qed.

Lemma read_ok n t : (n <= length t)%nat -> read n t = Some (firstn n t, skipn n t).
Proof. intros H. unfold read. apply Nat.leb_le in H. rewrite H. reflexivity. Qed.

(* the windows a list of read sizes cuts out of a tape *)
Fixpoint windows (ns : list nat) (t : bytes) : list bytes :=
  match ns with
  | [] => []
  | n :: r => firstn n t :: windows r (skipn n t)
  end.

Lemma skipn_add (n m : nat) (l : bytes) : skipn m (skipn n l) = skipn (n + m) l.
Proof.
  revert l. induction n as [|n IH]; simpl; intros l; auto.
  destruct l; simpl; [destruct m; reflexivity | apply IH].
Qed.

Lemma nth_firstn_lt (j n : nat) (l : bytes) d : (j < n)%nat -> nth j (firstn n l) d = nth j l d.
Proof.
  revert j l. induction n as [|n IH]; intros j l H; [lia|].
  destruct l as [|x l]; [destruct j; reflexivity|].
  destruct j as [|j]; simpl; auto. apply IH. lia.
Qed.

Lemma nth_skipn_add (j k : nat) (l : bytes) d : nth j (skipn k l) d = nth (k + j) l d.
Proof.
  revert l. induction k as [|k IH]; intros l; simpl; auto.
  destruct l as [|x l]; [destruct j; reflexivity | apply IH].
Qed.

Definition sum (l : list nat) : nat := fold_right Nat.add 0%nat l.

Lemma sum_app a b : sum (a ++ b) = (sum a + sum b)%nat.
Proof. induction a; simpl; auto. rewrite IHa. lia. Qed.

(* ---- key ids ------------------------------------------------------------ *)

Lemma draw_id_fuel_spec fuel : forall u t w tr u' t',
  draw_id_fuel fuel u t = Some (w, tr, u', t') ->
  exists skipped,
    tr = skipped ++ [w] /\
    Forall (fun x => length x = 4%nat /\ In (be_val x) u) skipped /\
    length w = 4%nat /\ ~ In (be_val w) u /\ u' = be_val w :: u /\
    t = concat tr ++ t'.
Proof.
  induction fuel as [|f IH]; simpl; intros u t w tr u' t' H; [discriminate|].
  destruct (read 4 t) as [[w0 t1]|] eqn:R; [|discriminate].
  apply read_spec in R. destruct R as (Ht & Hl & _ & _ & _).
  destruct (mem (be_val w0) u) eqn:M.
  - destruct (draw_id_fuel f u t1) as [[[[w1 tr1] u1] t2]|] eqn:D; [|discriminate].
    inversion H; subst w1 tr u1 t2. clear H.
    destruct (IH _ _ _ _ _ _ D) as (sk & A & B & C & D1 & E & F).
    exists (w0 :: sk). repeat split; auto.
    + rewrite A. reflexivity.
    + constructor; auto. split; auto. apply mem_In; auto.
    + simpl. rewrite <- app_assoc. rewrite <- F. auto.
  - inversion H; subst. exists []. repeat split; auto.
    + intros Hin. apply mem_In in Hin. congruence.
    + simpl. rewrite app_nil_r. reflexivity.
Qed.

Lemma draw_id_spec u t w tr u' t' :
  draw_id u t = Some (w, tr, u', t') ->
  exists skipped,
    tr = skipped ++ [w] /\
    Forall (fun x => length x = 4%nat /\ In (be_val x) u) skipped /\
    length w = 4%nat /\ ~ In (be_val w) u /\ u' = be_val w :: u /\
    t = concat tr ++ t'.
Proof. apply draw_id_fuel_spec. Qed.

(* every window of a draw is 4 bytes *)
Lemma draw_id_trace_len u t w tr u' t' :
  draw_id u t = Some (w, tr, u', t') -> Forall (fun x => length x = 4%nat) tr.
Proof.
  intros H. apply draw_id_spec in H. destruct H as (sk & -> & B & C & _).
  apply Forall_app. split.
  - eapply Forall_impl; [|exact B]. simpl. tauto.
  - constructor; auto.
Qed.

Lemma id_words_read4 t w t1 : read 4 t = Some (w, t1) -> id_words t = be_val w :: id_words t1.
Proof.
  destruct t as [|a [|b [|c [|d r]]]]; try (unfold read; simpl; discriminate).
  intros H. apply read_spec in H. destruct H as (_ & _ & Hw & Ht & _).
  simpl in Hw, Ht. subst. reflexivity.
Qed.

(* draw_id is Manager.new_random_id run over the 4-byte words of the tape *)
Lemma draw_id_fuel_new_random_id fuel : forall u t w tr u' t' d,
  draw_id_fuel fuel u t = Some (w, tr, u', t') ->
  new_random_id u (id_words t) d = Some (be_val w, u', id_words t', (d + length tr)%nat).
Proof.
  induction fuel as [|f IH]; simpl; intros u t w tr u' t' d H; [discriminate|].
  destruct (read 4 t) as [[w0 t1]|] eqn:R; [|discriminate].
  rewrite (id_words_read4 _ _ _ R). simpl.
  destruct (mem (be_val w0) u) eqn:M.
  - destruct (draw_id_fuel f u t1) as [[[[w1 tr1] u1] t2]|] eqn:D; [|discriminate].
    inversion H; subst w1 tr u1 t2. clear H.
    rewrite (IH _ _ _ _ _ _ (S d) D). simpl. do 2 f_equal. lia.
  - inversion H; subst. simpl. do 2 f_equal. lia.
Qed.

Theorem draw_id_new_random_id u t w tr u' t' :
  draw_id u t = Some (w, tr, u', t') ->
  new_random_id u (id_words t) 0 = Some (be_val w, u', id_words t', length tr).
Proof. intros H. apply (draw_id_fuel_new_random_id _ _ _ _ _ _ _ 0%nat H). Qed.

(* the fuel is never the reason for failure: with 4 bytes left whose value is free, the draw succeeds *)
Lemma draw_id_fuel_enough fuel : forall u t,
  (length t < fuel)%nat ->
  draw_id_fuel fuel u t = None ->
  new_random_id u (id_words t) 0 = None.
Proof.
  induction fuel as [|f IH]; intros u t Hf; [lia|]. simpl.
  destruct (read 4 t) as [[w0 t1]|] eqn:R.
  - rewrite (id_words_read4 _ _ _ R). simpl.
    pose proof (read_spec _ _ _ _ R) as (Ht & Hl & _ & _ & _).
    destruct (mem (be_val w0) u) eqn:M; [|discriminate].
    destruct (draw_id_fuel f u t1) as [[[[w1 tr1] u1] t2]|] eqn:D; [discriminate|].
    intros _. assert (Hlt : (length t1 < f)%nat).
    { subst t. rewrite app_length in Hf. lia. }
    pose proof (IH u t1 Hlt D) as H0.
    (* the drawn counter does not influence success *)
    clear - H0. revert H0. generalize 0%nat at 1. generalize 1%nat.
    induction (id_words t1) as [|x l IHl]; simpl; auto.
    intros a b. destruct (mem x u); [apply IHl|discriminate].
  - intros _. destruct t as [|a [|b [|c [|d r]]]]; try reflexivity.
    unfold read in R. simpl in R. discriminate.
Qed.

(* ---- serving a list of requests ---------------------------------------- *)

Definition is_bytes (q : req) : bool := match q with QBytes _ => true | QId => false end.
Definition id_free (qs : list req) : bool := forallb is_bytes qs.

Lemma serve_spec q u t w tr u' t' :
  serve q u t = Some (w, tr, u', t') ->
  t = concat tr ++ t' /\ length w = req_len q /\ In w tr /\ incl u u' /\
  Forall (fun x => length x = req_len q) tr.
Proof.
  destruct q as [n|]; simpl.
  - destruct (read n t) as [[w0 t1]|] eqn:R; [|discriminate].
    intros H; inversion H; subst. apply read_spec in R. destruct R as (A & B & _).
    simpl. rewrite app_nil_r. repeat split; auto. apply incl_refl.
  - intros H. pose proof (draw_id_trace_len _ _ _ _ _ _ H) as HL.
    apply draw_id_spec in H. destruct H as (sk & A & B & C & D & E & F).
    repeat split; auto.
    + subst tr. apply in_or_app. right. simpl; auto.
    + subst u'. apply incl_tl, incl_refl.
Qed.

Lemma consume_spec qs : forall u t ws tr u' t',
  consume qs u t = Some (ws, tr, u', t') ->
  t = concat tr ++ t' /\
  Forall2 (fun q w => length w = req_len q) qs ws /\
  incl ws tr /\ incl u u'.
Proof.
  induction qs as [|q r IH]; simpl; intros u t ws tr u' t' H.
  - inversion H; subst. simpl. repeat split; auto; try apply incl_refl; try constructor.
  - destruct (serve q u t) as [[[[w tr1] u1] t1]|] eqn:S; [|discriminate].
    destruct (consume r u1 t1) as [[[[ws2 tr2] u2] t2]|] eqn:C; [|discriminate].
    inversion H; subst. clear H.
    apply serve_spec in S. destruct S as (A & B & C1 & D & _).
    destruct (IH _ _ _ _ _ _ C) as (E & F & G & I).
    repeat split.
    + rewrite concat_app, <- app_assoc, <- E. exact A.
    + constructor; auto.
    + intros x [Hx|Hx]; apply in_or_app; [left; subst; auto | right; auto].
    + eapply incl_tran; eauto.
Qed.

(* requests without an id draw: the windows are cut at fixed offsets *)
Lemma consume_id_free qs : forall u t ws tr u' t',
  id_free qs = true ->
  consume qs u t = Some (ws, tr, u', t') ->
  ws = windows (map req_len qs) t /\ tr = ws /\ u' = u /\
  t' = skipn (sum (map req_len qs)) t /\ (sum (map req_len qs) <= length t)%nat.
Proof.
  induction qs as [|q r IH]; simpl; intros u t ws tr u' t' Hf H.
  - inversion H; subst. repeat split; auto. lia.
  - apply andb_true_iff in Hf. destruct Hf as [Hq Hr].
    destruct q as [n|]; [|discriminate]. simpl in H.
    destruct (read n t) as [[w t1]|] eqn:R; [|discriminate].
    destruct (consume r u t1) as [[[[ws2 tr2] u2] t2]|] eqn:C; [|discriminate].
    inversion H; subst. clear H.
    apply read_spec in R. destruct R as (_ & B & Hw & Ht & Hle).
    destruct (IH _ _ _ _ _ _ Hr C) as (E & F & G & I & J).
    subst w t1. subst. simpl. repeat split; auto.
    + rewrite skipn_add. reflexivity.
    + rewrite skipn_length in J. lia.
Qed.

Lemma consume_id_free_ok qs : forall u t,
  id_free qs = true -> (sum (map req_len qs) <= length t)%nat ->
  consume qs u t = Some (windows (map req_len qs) t, windows (map req_len qs) t, u,
                         skipn (sum (map req_len qs)) t).
Proof.
  induction qs as [|q r IH]; simpl; intros u t Hf Hl; auto.
  apply andb_true_iff in Hf. destruct Hf as [Hq Hr].
  destruct q as [n|]; [|discriminate]. simpl in *.
  rewrite read_ok by lia. rewrite IH; auto.
  - rewrite skipn_add. reflexivity.
  - rewrite skipn_length. lia.
Qed.

Lemma windows_lengths ns : forall t, (sum ns <= length t)%nat -> map (@length N) (windows ns t) = ns.
Proof.
  induction ns as [|n r IH]; simpl; intros t H; auto.
  rewrite firstn_length_le by lia. f_equal. apply IH. rewrite skipn_length. lia.
Qed.

Lemma windows_concat ns : forall t, (sum ns <= length t)%nat -> concat (windows ns t) = firstn (sum ns) t.
Proof.
  induction ns as [|n r IH]; simpl; intros t H; auto.
  rewrite IH by (rewrite skipn_length; lia).
  rewrite <- (firstn_skipn n t) at 3.
  rewrite firstn_app, firstn_length_le by lia.
  rewrite firstn_firstn. replace (Nat.min (n + sum r) n) with n by lia.
  f_equal. f_equal. lia.
Qed.

(* ---- one call, a history of calls --------------------------------------- *)

Section P.
Variable pub : bytes -> bytes.

Definition call_id_free (c : call) : bool := id_free (requests c).
Definition call_sizes (c : call) : list nat := map req_len (requests c).
Definition call_len (c : call) : nat := sum (call_sizes c).

(* every call: output = field_of_call of windows of exactly the requested
   lengths, all of which were read from the tape by this call; the call
   consumed exactly its trace *)
Theorem exec_spec c s o tr s' :
  exec pub c s = Some (o, tr, s') ->
  r_tape s = concat tr ++ r_tape s' /\
  exists ws, o = field_of_call pub c ws /\
             Forall2 (fun q w => length w = req_len q) (requests c) ws /\
             incl ws tr.
Proof.
  unfold exec. intros H.
  assert (X : exists u0 ws u1 t1, consume (requests c) u0 (r_tape s) = Some (ws, tr, u1, t1)
                                  /\ o = field_of_call pub c ws /\ r_tape s' = t1).
  { destruct c;
    match type of H with
    | match consume ?q ?u ?t with _ => _ end = _ =>
        destruct (consume q u t) as [[[[ws tr0] u1] t1]|] eqn:C; [|discriminate];
        inversion H; subst; exists u, ws, u1, t1; auto
    end. }
  destruct X as (u0 & ws & u1 & t1 & C & Ho & Ht).
  apply consume_spec in C. destruct C as (A & B & D & _). subst.
  split; auto. exists ws. auto.
Qed.

Definition traces (res : list (output * list bytes)) : list bytes := concat (map snd res).

(* the tape is consumed contiguously: the windows of all calls, in order,
   followed by the unread rest, ARE the tape *)
Theorem run_partition cs : forall s res s',
  run pub cs s = Some (res, s') ->
  r_tape s = concat (traces res) ++ r_tape s'.
Proof.
  induction cs as [|c r IH]; simpl; intros s res s' H.
  - inversion H; subst. reflexivity.
  - destruct (exec pub c s) as [[[o tr] s1]|] eqn:E; [|discriminate].
    destruct (run pub r s1) as [[res2 s2]|] eqn:R; [|discriminate].
    inversion H; subst. clear H.
    apply exec_spec in E. destruct E as (A & _).
    apply IH in R. unfold traces in *. simpl.
    rewrite concat_app, <- app_assoc, <- R. exact A.
Qed.

Lemma run_length cs : forall s res s', run pub cs s = Some (res, s') -> length res = length cs.
Proof.
  induction cs as [|c r IH]; simpl; intros s res s' H.
  - inversion H; reflexivity.
  - destruct (exec pub c s) as [[[o tr] s1]|]; [|discriminate].
    destruct (run pub r s1) as [[res2 s2]|] eqn:R; [|discriminate].
    inversion H; subst. simpl. f_equal. eapply IH; eauto.
Qed.

(* pure list fact: in a partition, window j sits at the offset given by the
   lengths of the windows before it *)
Lemma partition_positions (ws : list bytes) : forall t rest j,
  t = concat ws ++ rest -> (j < length ws)%nat ->
  nth j ws [] = firstn (length (nth j ws [])) (skipn (length (concat (firstn j ws))) t).
Proof.
  induction ws as [|w r IH]; simpl; intros t rest j Ht Hj; [lia|].
  destruct j as [|j]; simpl.
  - subst t. rewrite <- app_assoc. rewrite firstn_app, firstn_all, Nat.sub_diag. simpl. rewrite app_nil_r. reflexivity.
  - subst t. rewrite <- app_assoc. rewrite app_length.
    rewrite skipn_app. rewrite skipn_all2 by lia. simpl.
    replace (length w + length (concat (firstn j r)) - length w)%nat with (length (concat (firstn j r))) by lia.
    apply (IH _ rest); auto. lia.
Qed.

Lemma offsets_step (ws : list bytes) j :
  (j < length ws)%nat ->
  length (concat (firstn (S j) ws)) = (length (concat (firstn j ws)) + length (nth j ws []))%nat.
Proof.
  revert j. induction ws as [|w r IH]; intros j Hj; [simpl in Hj; lia|].
  destruct j as [|j].
  - simpl. rewrite app_length. simpl. lia.
  - simpl in Hj.
    change (firstn (S (S j)) (w :: r)) with (w :: firstn (S j) r).
    change (firstn (S j) (w :: r)) with (w :: firstn j r).
    change (nth (S j) (w :: r) []) with (nth j r []).
    cbn [concat]. rewrite !app_length. rewrite IH by lia. lia.
Qed.

Lemma offsets_mono (ws : list bytes) i j :
  (i < j)%nat -> (j <= length ws)%nat ->
  (length (concat (firstn i ws)) + length (nth i ws []) <= length (concat (firstn j ws)))%nat.
Proof.
  intros Hij Hj. induction j as [|j IH]; [lia|].
  destruct (Nat.eq_dec i j) as [->|Hne].
  - rewrite offsets_step by lia. lia.
  - rewrite offsets_step by lia. specialize (IH ltac:(lia) ltac:(lia)). lia.
Qed.

(* Windows are pairwise disjoint and contiguous byte ranges of the tape:
   the j-th window read in a history (over all calls, rejected id draws
   included) is tape[off_j, off_j+len_j), off_(j+1) = off_j + len_j. *)
Theorem run_windows_positions cs s res s' :
  run pub cs s = Some (res, s') ->
  let ws := traces res in
  let off j := length (concat (firstn j ws)) in
  (forall j, (j < length ws)%nat ->
     nth j ws [] = firstn (length (nth j ws [])) (skipn (off j) (r_tape s)) /\
     off (S j) = (off j + length (nth j ws []))%nat) /\
  (forall i j, (i < j)%nat -> (j < length ws)%nat -> (off i + length (nth i ws []) <= off j)%nat).
Proof.
  intros H ws off. apply run_partition in H. split.
  - intros j Hj. split.
    + eapply partition_positions; eauto.
    + apply offsets_step; auto.
  - intros i j Hij Hj. apply offsets_mono; lia.
Qed.

(* ---- calls without an id draw: fixed offsets ---------------------------- *)

Lemma exec_id_free c s o tr s' :
  call_id_free c = true ->
  exec pub c s = Some (o, tr, s') ->
  tr = windows (call_sizes c) (r_tape s) /\
  o = field_of_call pub c tr /\
  s' = mkR (r_unavail s) (skipn (call_len c) (r_tape s)) /\
  (call_len c <= length (r_tape s))%nat.
Proof.
  unfold call_id_free, exec. intros Hf H.
  destruct c; try discriminate;
    match type of H with
    | match consume ?q ?u ?t with _ => _ end = _ =>
        destruct (consume q u t) as [[[[ws tr0] u1] t1]|] eqn:C; [|discriminate];
        inversion H; subst; apply consume_id_free in C; auto;
        destruct C as (A & B & C1 & D & E); subst; repeat split; auto
    end.
Qed.

Lemma exec_id_free_ok c s :
  call_id_free c = true -> (call_len c <= length (r_tape s))%nat ->
  exec pub c s = Some (field_of_call pub c (windows (call_sizes c) (r_tape s)),
                       windows (call_sizes c) (r_tape s),
                       mkR (r_unavail s) (skipn (call_len c) (r_tape s))).
Proof.
  unfold call_id_free, exec, call_len, call_sizes. intros Hf Hl.
  destruct c; try discriminate; rewrite consume_id_free_ok; auto.
Qed.

Definition offset (cs : list call) (i : nat) : nat := sum (map call_len (firstn i cs)).

(* THE i-th OUTPUT IS THE i-th WINDOW: in any history of calls that draw no
   key id, the i-th call's output is field_of_call applied to the windows
   that start where the (i-1)-th call's windows ended. *)
Theorem run_ith cs : forall s res s',
  forallb call_id_free cs = true ->
  run pub cs s = Some (res, s') ->
  forall i c, nth_error cs i = Some c ->
    let ws := windows (call_sizes c) (skipn (offset cs i) (r_tape s)) in
    nth_error res i = Some (field_of_call pub c ws, ws) /\
    map (@length N) ws = call_sizes c /\
    (offset cs i + call_len c <= length (r_tape s))%nat.
Proof.
  induction cs as [|c0 r IH]; simpl; intros s res s' Hf H i c Hi.
  - destruct i; discriminate.
  - apply andb_true_iff in Hf. destruct Hf as [Hc Hr].
    destruct (exec pub c0 s) as [[[o tr] s1]|] eqn:E; [|discriminate].
    destruct (run pub r s1) as [[res2 s2]|] eqn:R; [|discriminate].
    inversion H; subst. clear H.
    destruct (exec_id_free _ _ _ _ _ Hc E) as (A & B & C & D).
    destruct i as [|i]; simpl in *.
    + inversion Hi; subst c0. unfold offset. simpl. subst. repeat split; auto.
      apply windows_lengths. exact D.
    + destruct (IH _ _ _ Hr R i c Hi) as (X & Y & Z). subst s1. simpl in *.
      unfold offset in *. simpl. rewrite skipn_add in X, Y.
      repeat split; auto. rewrite skipn_length in Z. lia.
Qed.

(* ---- the window -> field map is the identity ---------------------------- *)

Local Arguments firstn : simpl never.
Local Arguments skipn : simpl never.

Lemma overwrite_fill p n w : length w = n -> overwrite (p ++ zeros n) (length p) w = p ++ w.
Proof.
  intros H. unfold overwrite.
  rewrite firstn_app, firstn_all, Nat.sub_diag. simpl. rewrite app_nil_r.
  rewrite skipn_all2; [rewrite app_nil_r; reflexivity|].
  rewrite app_length, zeros_length. lia.
Qed.

(* a partial fill would leave constant bytes: the premise above is needed *)
Lemma overwrite_short p n w :
  (length w < n)%nat ->
  overwrite (p ++ zeros n) (length p) w = p ++ w ++ zeros (n - length w).
Proof.
  intros H. unfold overwrite.
  rewrite firstn_app, firstn_all, Nat.sub_diag. simpl. rewrite app_nil_r.
  rewrite skipn_app, skipn_all2 by lia. simpl.
  replace (length p + length w - length p)%nat with (length w) by lia.
  unfold zeros. f_equal. f_equal.
  replace n with (length w + (n - length w))%nat at 1 by lia.
  rewrite repeat_app, skipn_app, skipn_all2 by (rewrite repeat_length; lia).
  rewrite repeat_length, Nat.sub_diag. reflexivity.
Qed.

Theorem encrypt_field sch p s o tr s' :
  exec pub (CEncrypt sch p) s = Some (o, tr, s') ->
  let iv := firstn (nonce_len sch) (r_tape s) in
  o = OBytes (p ++ iv) /\ tr = [iv] /\ length iv = nonce_len sch /\
  s' = mkR (r_unavail s) (skipn (nonce_len sch) (r_tape s)).
Proof.
  intros H iv. destruct (exec_id_free (CEncrypt sch p) _ _ _ _ eq_refl H) as (A & B & C & D).
  unfold call_len, call_sizes in *. simpl in *.
  assert (L : length iv = nonce_len sch) by (apply firstn_length_le; lia).
  subst. simpl. rewrite overwrite_fill by exact L.
  repeat split; auto. f_equal. f_equal. lia.
Qed.

Theorem new_writer_field dks s o tr s' :
  exec pub (CNewWriter dks) s = Some (o, tr, s') ->
  let salt := firstn dks (r_tape s) in
  let np := firstn 7 (skipn dks (r_tape s)) in
  o = OBytes ((N.of_nat (1 + dks + 7) mod 256) :: salt ++ np) /\ tr = [salt; np] /\
  length salt = dks /\ length np = 7%nat.
Proof.
  intros H salt np. destruct (exec_id_free (CNewWriter dks) _ _ _ _ eq_refl H) as (A & B & C & D).
  unfold call_len, call_sizes in *. simpl in *. subst. simpl.
  repeat split; auto.
  - apply firstn_length_le; lia.
  - apply firstn_length_le. rewrite skipn_length. lia.
Qed.

Theorem hpke_field p s o tr s' :
  exec pub (CHpkeEncrypt p) s = Some (o, tr, s') ->
  let sk := firstn 32 (r_tape s) in
  o = OBytes (p ++ pub sk) /\ tr = [sk] /\ length sk = 32%nat.
Proof.
  intros H sk. destruct (exec_id_free (CHpkeEncrypt p) _ _ _ _ eq_refl H) as (A & B & C & D).
  unfold call_len, call_sizes in *. simpl in *. subst. simpl.
  repeat split; auto. apply firstn_length_le; lia.
Qed.

Theorem ecies_field p sc n s o tr s' :
  exec pub (CEciesEncrypt p sc n) s = Some (o, tr, s') ->
  let iv := firstn n (skipn sc (r_tape s)) in
  o = OBytes (p ++ iv) /\ tr = [firstn sc (r_tape s); iv] /\ length iv = n /\
  length (firstn sc (r_tape s)) = sc.
Proof.
  intros H iv. destruct (exec_id_free (CEciesEncrypt p sc n) _ _ _ _ eq_refl H) as (A & B & C & D).
  unfold call_len, call_sizes in *. simpl in *. subst. simpl.
  repeat split; auto.
  - apply firstn_length_le. rewrite skipn_length. lia.
  - apply firstn_length_le; lia.
Qed.

(* key generation through a manager: id = first unused 4-byte word, the key
   material = the windows that follow it, each of the key type's size *)
Theorem add_key_field kt s o tr s' :
  exec pub (CAddKey kt) s = Some (o, tr, s') ->
  exists idw idtr t1,
    draw_id (r_unavail s) (r_tape s) = Some (idw, idtr, be_val idw :: r_unavail s, t1) /\
    let mat := windows (key_reads kt) t1 in
    o = OKey (be_val idw) mat /\ tr = idtr ++ mat /\
    map (@length N) mat = key_reads kt /\
    ~ In (be_val idw) (r_unavail s) /\
    r_unavail s' = be_val idw :: r_unavail s /\
    r_tape s' = skipn (sum (key_reads kt)) t1.
Proof.
  unfold exec. simpl.
  destruct (draw_id (r_unavail s) (r_tape s)) as [[[[idw idtr] u1] t1]|] eqn:D; [|discriminate].
  destruct (consume (map QBytes (key_reads kt)) u1 t1) as [[[[ws tr2] u2] t2]|] eqn:C; [|discriminate].
  intros H. inversion H; subst. clear H.
  assert (Hf : id_free (map QBytes (key_reads kt)) = true).
  { unfold id_free. rewrite forallb_forall. intros q Hq. apply in_map_iff in Hq.
    destruct Hq as (n & <- & _). reflexivity. }
  apply consume_id_free in C; auto.
  rewrite map_map in C. simpl in C. rewrite map_id in C.
  destruct C as (A & B & C1 & D1 & E). subst.
  pose proof (draw_id_spec _ _ _ _ _ _ D) as (sk & _ & _ & _ & Hn & Hu & _). subst u1.
  exists idw, idtr, t1. repeat split; auto.
  apply windows_lengths; auto.
Qed.

(* ---- corollaries: distinctness, no truncation, no constant byte --------- *)

(* windows of the requested lengths determine the field and vice versa *)
Lemma app_inj_len (A : Type) (a a' b b' : list A) :
  length a = length a' -> a ++ b = a' ++ b' -> a = a' /\ b = b'.
Proof.
  revert a'. induction a as [|x a IH]; destruct a' as [|y a']; simpl; intros L H; try discriminate; auto.
  inversion H; subst. destruct (IH a' ltac:(lia) H2). subst; auto.
Qed.

Theorem encrypt_field_injective sch p w w' :
  field_of_call pub (CEncrypt sch p) [w] = field_of_call pub (CEncrypt sch p) [w'] ->
  length w = nonce_len sch -> length w' = nonce_len sch -> w = w'.
Proof.
  simpl. intros H L L'. rewrite !overwrite_fill in H by auto.
  inversion H as [H1]. apply app_inv_head in H1. exact H1.
Qed.

Theorem new_writer_field_injective dks a b a' b' :
  field_of_call pub (CNewWriter dks) [a; b] = field_of_call pub (CNewWriter dks) [a'; b'] ->
  length a = length a' -> a = a' /\ b = b'.
Proof.
  simpl. intros H L. inversion H as [H1]. apply app_inj_len in H1; auto.
Qed.

Lemma be_val_inj4 (a b : bytes) :
  wfb a -> wfb b -> length a = 4%nat -> length b = 4%nat -> be_val a = be_val b -> a = b.
Proof.
  intros Wa Wb La Lb H.
  destruct a as [|a0 [|a1 [|a2 [|a3 [|]]]]]; try discriminate.
  destruct b as [|b0 [|b1 [|b2 [|b3 [|]]]]]; try discriminate.
  unfold be_val in H. cbn [rev app le_val] in H.
  repeat match goal with H : wfb (_ :: _) |- _ => inversion H; clear H; subst end.
  repeat match goal with H : Forall _ (_ :: _) |- _ => inversion H; clear H; subst end.
  cbv beta in *.
  assert (a3 = b3 /\ a2 = b2 /\ a1 = b1 /\ a0 = b0) by lia.
  intuition congruence.
Qed.

Theorem key_field_injective kt idw mat idw' mat' :
  field_of_call pub (CAddKey kt) (idw :: mat) = field_of_call pub (CAddKey kt) (idw' :: mat') ->
  wfb idw -> wfb idw' -> length idw = 4%nat -> length idw' = 4%nat ->
  idw = idw' /\ mat = mat'.
Proof.
  simpl. intros H W W' L L'. inversion H. split; auto. apply be_val_inj4; auto.
Qed.

(* every byte of the field is the tape byte at the same offset of the
   call's window: nothing truncated, padded or constant *)
Theorem encrypt_bytes_are_tape_bytes cs s res s' i sch p :
  forallb call_id_free cs = true ->
  run pub cs s = Some (res, s') ->
  nth_error cs i = Some (CEncrypt sch p) ->
  exists out, nth_error res i = Some (OBytes out, [skipn (length p) out]) /\
    length out = (length p + nonce_len sch)%nat /\
    firstn (length p) out = p /\
    forall j, (j < nonce_len sch)%nat ->
      nth (length p + j) out 0 = nth (offset cs i + j) (r_tape s) 0.
Proof.
  intros Hf H Hi. destruct (run_ith cs s res s' Hf H i _ Hi) as (A & B & C).
  unfold call_sizes, call_len in *. simpl in *.
  set (w := firstn (nonce_len sch) (skipn (offset cs i) (r_tape s))) in *.
  assert (L : length w = nonce_len sch) by (inversion B; auto).
  rewrite overwrite_fill in A by exact L.
  exists (p ++ w). repeat split.
  - rewrite A. rewrite skipn_app, skipn_all, Nat.sub_diag. reflexivity.
  - rewrite app_length. lia.
  - rewrite firstn_app, firstn_all, Nat.sub_diag. simpl. apply app_nil_r.
  - intros j Hj. rewrite app_nth2 by lia.
    replace (length p + j - length p)%nat with j by lia.
    unfold w. rewrite nth_firstn_lt by lia. apply nth_skipn_add.
Qed.

(* hence: two tapes that differ in one byte of the i-th window give outputs
   that differ in exactly that byte position of the field *)
Theorem encrypt_tape_sensitive cs s1 s2 res1 res2 s1' s2' i sch p j out1 out2 tr1 tr2 :
  forallb call_id_free cs = true ->
  run pub cs s1 = Some (res1, s1') -> run pub cs s2 = Some (res2, s2') ->
  nth_error cs i = Some (CEncrypt sch p) -> (j < nonce_len sch)%nat ->
  nth (offset cs i + j) (r_tape s1) 0 <> nth (offset cs i + j) (r_tape s2) 0 ->
  nth_error res1 i = Some (OBytes out1, tr1) -> nth_error res2 i = Some (OBytes out2, tr2) ->
  nth (length p + j) out1 0 <> nth (length p + j) out2 0.
Proof.
  intros Hf H1 H2 Hi Hj Hne E1 E2.
  destruct (encrypt_bytes_are_tape_bytes _ _ _ _ _ _ _ Hf H1 Hi) as (o1 & A1 & _ & _ & B1).
  destruct (encrypt_bytes_are_tape_bytes _ _ _ _ _ _ _ Hf H2 Hi) as (o2 & A2 & _ & _ & B2).
  rewrite E1 in A1. rewrite E2 in A2. inversion A1; inversion A2; subst.
  rewrite B1, B2 by auto. exact Hne.
Qed.

(* k encryptions under one key: the i-th nonce is tape[i*n, (i+1)*n) *)
Lemma offset_repeat c k i : (i <= k)%nat -> offset (repeat c k) i = (i * call_len c)%nat.
Proof.
  unfold offset. revert i. induction k as [|k IH]; intros i Hi.
  - assert (i = 0%nat) by lia. subst. reflexivity.
  - destruct i as [|i]; simpl; auto. rewrite IH by lia. reflexivity.
Qed.

Theorem encrypt_sequence sch p k s res s' :
  run pub (repeat (CEncrypt sch p) k) s = Some (res, s') ->
  forall i, (i < k)%nat ->
    let iv := firstn (nonce_len sch) (skipn (i * nonce_len sch) (r_tape s)) in
    nth_error res i = Some (OBytes (p ++ iv), [iv]) /\ length iv = nonce_len sch.
Proof.
  intros H i Hi iv.
  assert (Hf : forallb call_id_free (repeat (CEncrypt sch p) k) = true).
  { rewrite forallb_forall. intros c Hc. apply repeat_spec in Hc. subst. reflexivity. }
  assert (Hn : nth_error (repeat (CEncrypt sch p) k) i = Some (CEncrypt sch p)).
  { rewrite nth_error_repeat; auto. }
  destruct (run_ith _ _ _ _ Hf H i _ Hn) as (A & B & C).
  rewrite offset_repeat in A, B by lia.
  unfold call_len, call_sizes in *. simpl in *.
  replace (i * (nonce_len sch + 0))%nat with (i * nonce_len sch)%nat in * by lia.
  fold iv in A, B. assert (L : length iv = nonce_len sch) by (inversion B; auto).
  rewrite overwrite_fill in A by exact L. auto.
Qed.

(* distinct windows give distinct nonces *)
Corollary encrypt_sequence_distinct sch p k s res s' i j o1 o2 t1 t2 :
  run pub (repeat (CEncrypt sch p) k) s = Some (res, s') ->
  (i < k)%nat -> (j < k)%nat ->
  firstn (nonce_len sch) (skipn (i * nonce_len sch) (r_tape s)) <>
  firstn (nonce_len sch) (skipn (j * nonce_len sch) (r_tape s)) ->
  nth_error res i = Some (o1, t1) -> nth_error res j = Some (o2, t2) -> o1 <> o2.
Proof.
  intros H Hi Hj Hne E1 E2.
  destruct (encrypt_sequence _ _ _ _ _ _ H i Hi) as (A1 & _).
  destruct (encrypt_sequence _ _ _ _ _ _ H j Hj) as (A2 & _).
  rewrite E1 in A1. rewrite E2 in A2. inversion A1; inversion A2; subst.
  intros Heq. inversion Heq as [H1]. apply app_inv_head in H1. contradiction.
Qed.

(* ---- key ids handed out by one manager are pairwise distinct ------------ *)

Definition key_id (r : output * list bytes) : list N :=
  match fst r with OKey id _ => [id] | _ => [] end.
Definition is_add (c : call) : bool := match c with CAddKey _ => true | _ => false end.

Lemma exec_unavail_grows c s o tr s' :
  exec pub c s = Some (o, tr, s') -> incl (r_unavail s) (r_unavail s').
Proof.
  unfold exec. intros H.
  destruct c;
    match type of H with
    | match consume ?q ?u ?t with _ => _ end = _ =>
        destruct (consume q u t) as [[[[ws tr0] u1] t1]|] eqn:C; [|discriminate];
        inversion H; subst; simpl; try apply incl_refl;
        apply consume_spec in C; tauto
    end.
Qed.

(* ids of the keys added through the manager state (CNewHandle uses a manager of its own) *)
Definition added_ids (cs : list call) (res : list (output * list bytes)) : list N :=
  concat (map (fun cr => if is_add (fst cr) then key_id (snd cr) else []) (combine cs res)).

Theorem added_ids_distinct cs : forall s res s',
  run pub cs s = Some (res, s') ->
  NoDup (added_ids cs res) /\
  (forall id, In id (added_ids cs res) -> ~ In id (r_unavail s) /\ In id (r_unavail s')) /\
  incl (r_unavail s) (r_unavail s').
Proof.
  induction cs as [|c r IH]; simpl; intros s res s' H.
  - inversion H; subst. unfold added_ids. simpl. repeat split; try constructor; try tauto. apply incl_refl.
  - destruct (exec pub c s) as [[[o tr] s1]|] eqn:E; [|discriminate].
    destruct (run pub r s1) as [[res2 s2]|] eqn:R; [|discriminate].
    inversion H; subst. clear H.
    destruct (IH _ _ _ R) as (ND & FR & INC).
    pose proof (exec_unavail_grows _ _ _ _ _ E) as G.
    unfold added_ids. simpl. fold (added_ids r res2).
    destruct (is_add c) eqn:A.
    + destruct c; try discriminate.
      destruct (add_key_field _ _ _ _ _ E) as (idw & idtr & t1 & _ & Ho & _ & _ & Hn & Hu & _).
      subst o. unfold key_id. simpl.
      assert (In1 : In (be_val idw) (r_unavail s1)) by (rewrite Hu; simpl; auto).
      repeat split.
      * constructor; auto. intros Hin. apply FR in Hin. tauto.
      * destruct H as [<-|H]; auto. apply FR in H. intros Hc. apply (proj1 H). apply G. exact Hc.
      * destruct H as [<-|H]; [apply INC; auto | apply FR; auto].
      * eapply incl_tran; eauto.
    + simpl. repeat split; auto.
      * apply FR in H. intros Hc. apply (proj1 H). apply G. exact Hc.
      * apply FR; auto.
      * eapply incl_tran; eauto.
Qed.
End P.

(* ---- the same on the C11 manager model (model/Manager.v) ---------------- *)

Definition rid (r : result) : list N := match r with RId id => [id] | _ => [] end.
Definition not_from_handle (o : op) : bool := match o with OFromHandle _ => false | _ => true end.

Lemma step_rid_fresh s o s1 id :
  step s o = (s1, RId id) -> ~ In id (unavail (smgr s)) /\ In id (unavail (smgr s1)).
Proof.
  intros H.
  assert (AF : forall b c k, add_fresh s b c k = (s1, RId id) ->
                ~ In id (unavail (smgr s)) /\ In id (unavail (smgr s1))).
  { intros b c k. unfold add_fresh.
    destruct (new_random_id (unavail (smgr s)) (stape s) 0) as [[[[i u'] t'] d]|] eqn:E; [|discriminate].
    apply new_random_id_spec in E. destruct E as (Hn & Hu & _).
    destruct c; intros X; inversion X; subst; simpl; auto. }
  destruct o as [t|raw|req k|req k opts|i|i|i|i| |n]; simpl in H.
  - destruct t; try (eapply AF; eauto; fail); inversion H.
  - eapply AF; eauto.
  - destruct req as [i|]; [|eapply AF; eauto].
    destruct (mem i (unavail (smgr s))) eqn:M; inversion H; subst. simpl.
    split; auto. intros Hc. apply mem_In in Hc. congruence.
  - (* AddKeyWithOpts *)
    destruct (apply_opts req _ opts) as [p|]; [|inversion H].
    destruct (status_eqb (p_st p) UnknownStatus); [inversion H|].
    destruct (p_prim p && negb (status_eqb (p_st p) Enabled)); [inversion H|].
    destruct (p_has p).
    + destruct (mem (p_fixed p) (unavail (smgr s))) eqn:M; inversion H; subst. simpl.
      split; auto. intros Hc. apply mem_In in Hc. congruence.
    + destruct (new_random_id (unavail (smgr s)) (stape s) 0) as [[[[i u'] t'] d]|] eqn:E; [|inversion H].
      apply new_random_id_spec in E. destruct E as (Hn & Hu & _).
      inversion H; subst; simpl; auto.
  - destruct (find_entry _ i); [destruct (status_eqb _ _)|]; inversion H.
  - destruct (find_entry _ i); [destruct (_ || _)|]; inversion H.
  - destruct (find_entry _ i) as [e|]; [destruct (eprim e); [|destruct (_ || _)]|]; inversion H.
  - destruct (find_entry _ i) as [e|]; [destruct (eprim e)|]; inversion H.
  - destruct (make_handle _); inversion H.
  - destruct (nth_error _ n); inversion H.
Qed.

Theorem manager_ids_distinct ops : forall s s' rs,
  forallb not_from_handle ops = true ->
  Manager.run s ops = (s', rs) ->
  NoDup (concat (map rid rs)) /\
  (forall id, In id (concat (map rid rs)) -> ~ In id (unavail (smgr s))) /\
  incl (unavail (smgr s)) (unavail (smgr s')).
Proof.
  induction ops as [|o r IH]; simpl; intros s s' rs Hf H.
  - inversion H; subst. simpl. repeat split; try constructor; try tauto. apply incl_refl.
  - apply andb_true_iff in Hf. destruct Hf as [Ho Hr].
    destruct (step s o) as [s1 res] eqn:S. destruct (Manager.run s1 r) as [s2 rs2] eqn:R.
    inversion H; subst. clear H.
    destruct (IH _ _ _ Hr R) as (ND & FR & INC).
    assert (G : incl (unavail (smgr s)) (unavail (smgr s1))).
    { pose proof (unavail_grows s o) as X. rewrite S in X. apply X.
      intros k Hk. subst o. discriminate. }
    simpl. destruct res as [id| | |h| |]; simpl; try (repeat split; auto;
      [intros id0 Hin Hc; apply (FR id0 Hin); apply G; exact Hc | eapply incl_tran; eauto]).
    destruct (step_rid_fresh _ _ _ _ S) as (Hn & Hi).
    repeat split.
    + constructor; auto. intros Hin. apply (FR _ Hin). exact Hi.
    + intros id0 [<-|Hin]; auto. intros Hc. apply (FR _ Hin). apply G. exact Hc.
    + eapply incl_tran; eauto.
Qed.
