(* Bridges between the FIPS 205 transcription (model/SlhdsaFips.v) and the
   implementation model at the level of section 4 of the standard:
   loops, ceilings, toInt / toByte / base_2b (unbounded integers vs the Go
   uint32 / uint64 accumulators), the derived lengths, and the 32-byte ADRS
   with the Table 1 member functions vs the six-word record of
   model/SlhdsaAddr.v. *)
From Coq Require Import List NArith Bool Arith Lia ZifyN ZifyNat ZifyBool.
From Tink Require Import Bytes SlhdsaSupport SlhdsaAddr SlhdsaBase SlhdsaListProofs SlhdsaSupportProofs.
From Tink Require SlhdsaFips.
Import ListNotations.
Module F := SlhdsaFips.
Open Scope N_scope.

(* ---------- for loops ---------- *)
Lemma for_snoc {St} (body : nat -> St -> St) : forall cnt lo st,
  F.for_ lo (S cnt) body st = body (lo + cnt)%nat (F.for_ lo cnt body st).
Proof.
  induction cnt as [|cnt IH]; intros lo st.
  - simpl. rewrite Nat.add_0_r. reflexivity.
  - change (F.for_ lo (S (S cnt)) body st) with (F.for_ (S lo) (S cnt) body (body lo st)).
    rewrite IH. simpl. f_equal. lia.
Qed.

Lemma for_ext {St} (f g : nat -> St -> St) : forall cnt lo st,
  (forall i s, (lo <= i < lo + cnt)%nat -> f i s = g i s) -> F.for_ lo cnt f st = F.for_ lo cnt g st.
Proof.
  induction cnt as [|cnt IH]; intros lo st Hfg; simpl; auto.
  rewrite Hfg by lia. apply IH. intros; apply Hfg; lia.
Qed.

(* ---------- ceilings ---------- *)
Lemma ceil_div_eq x y : (1 <= y)%nat -> F.ceil_div x y = ((x + y - 1) / y)%nat.
Proof.
  intros Hy. unfold F.ceil_div.
  pose proof (Nat.div_mod x y ltac:(lia)) as D. pose proof (Nat.mod_upper_bound x y ltac:(lia)) as U.
  set (q := (x / y)%nat) in *. set (r := (x mod y)%nat) in *.
  destruct (Nat.eqb_spec r 0) as [E|E].
  - apply Nat.div_unique with (r := (y - 1)%nat); lia.
  - apply Nat.div_unique with (r := (r - 1)%nat); lia.
Qed.

Lemma ceil_div_8 x : F.ceil_div x 8 = ((x + 7) / 8)%nat.
Proof. rewrite ceil_div_eq by lia. f_equal. lia. Qed.

(* ceil(h/(8d)) = ceil(h'/8) and h/d = h' when h = d*h' *)
Lemma ceil_div_scaled hp d : (1 <= d)%nat -> F.ceil_div (d * hp) (8 * d) = ((hp + 7) / 8)%nat.
Proof.
  intros Hd. rewrite ceil_div_eq by lia.
  pose proof (Nat.div_mod (hp + 7) 8 ltac:(lia)) as D. pose proof (Nat.mod_upper_bound (hp + 7) 8 ltac:(lia)) as U.
  set (q := ((hp + 7) / 8)%nat) in *. set (r := ((hp + 7) mod 8)%nat) in *. clearbody q r.
  assert (E : (d * hp + 7 * d = 8 * (d * q) + d * r)%nat) by nia.
  assert (E2 : (d * r <= 7 * d)%nat) by nia.
  symmetry. apply Nat.div_unique with (r := (d * r + (d - 1))%nat); [lia|].
  replace (8 * d * q)%nat with (8 * (d * q))%nat by (clear; lia). lia.
Qed.

Lemma div_exact hp d : (1 <= d)%nat -> (d * hp / d = hp)%nat.
Proof. intros. rewrite Nat.mul_comm. apply Nat.div_mul. lia. Qed.

(* ---------- toByte ---------- *)
Lemma toByte_be x n : F.toByte x n = be_bytes n x.
Proof.
  unfold F.toByte, be_bytes.
  assert (G : forall cnt lo total Sb,
    snd (F.for_ lo cnt (fun _ '(total, Sb) => (N.shiftr total 8, (total mod 256) :: Sb)) (total, Sb))
    = rev (le_bytes cnt total) ++ Sb).
  { induction cnt as [|cnt IH]; intros lo total Sb; [reflexivity|].
    cbn [F.for_ le_bytes rev]. rewrite IH, N.shiftr_div_pow2. change (2 ^ 8) with 256.
    rewrite <- app_assoc. reflexivity. }
  rewrite G. apply app_nil_r.
Qed.

Lemma le_bytes_mod n x : le_bytes n (x mod 256 ^ N.of_nat n) = le_bytes n x.
Proof.
  revert x; induction n as [|n IH]; intros x; [reflexivity|].
  cbn [le_bytes]. replace (N.of_nat (S n)) with (1 + N.of_nat n) by lia.
  rewrite N.pow_add_r. change (256 ^ 1) with 256.
  assert (P : 0 < 256 ^ N.of_nat n) by (apply N.neq_0_lt_0, N.pow_nonzero; lia).
  rewrite N.mod_mul_r by lia.
  f_equal.
  - rewrite (N.mul_comm 256), N.mod_add by lia. apply N.mod_mod. lia.
  - rewrite <- (IH (x / 256)). f_equal.
    rewrite N.mul_comm, N.div_add by lia. rewrite (N.div_small (x mod 256)) by (apply N.mod_lt; lia). lia.
Qed.

Lemma be_bytes_mod n x : be_bytes n (x mod 256 ^ N.of_nat n) = be_bytes n x.
Proof. unfold be_bytes. rewrite le_bytes_mod. reflexivity. Qed.

Lemma be_bytes_mod_ge n x (e : nat) : (8 * n <= e)%nat -> be_bytes n (x mod 2 ^ N.of_nat e) = be_bytes n x.
Proof.
  intros H. rewrite <- (be_bytes_mod n (x mod _)), <- (be_bytes_mod n x). f_equal.
  rewrite pw_256. fold (pw e). replace e with (8 * n + (e - 8 * n))%nat by lia.
  destruct (digit_split x 0 (8 * n)) as [_ _].
  rewrite pw_add. pose proof (pw_pos (8 * n)). pose proof (pw_pos (e - 8 * n)).
  rewrite N.mod_mul_r by lia.
  rewrite (N.mul_comm (pw (8 * n))), N.mod_add by lia. apply N.mod_mod. lia.
Qed.

Lemma be_bytes4_u32 x : be_bytes 4 (u32 x) = be_bytes 4 x.
Proof. unfold u32. change 4294967296 with (2 ^ N.of_nat 32). apply be_bytes_mod_ge. lia. Qed.

Lemma le_bytes_app a b x : le_bytes (a + b) x = le_bytes a x ++ le_bytes b (x / 256 ^ N.of_nat a).
Proof.
  revert x; induction a as [|a IH]; intros x.
  - simpl. rewrite N.div_1_r. reflexivity.
  - cbn [Nat.add le_bytes app]. rewrite IH. do 2 f_equal.
    replace (N.of_nat (S a)) with (1 + N.of_nat a) by lia. rewrite N.pow_add_r. change (256 ^ 1) with 256.
    rewrite N.div_div by (try apply N.pow_nonzero; lia). reflexivity.
Qed.

(* toByte(t, 12) is four zero bytes and the uint64 when t < 2^64 *)
Lemma toByte12_u64 t : t < 2 ^ 64 -> F.toByte t 12 = zeros 4 ++ be_bytes 8 t.
Proof.
  intros H. rewrite toByte_be. unfold be_bytes. change 12%nat with (8 + 4)%nat.
  rewrite le_bytes_app, rev_app_distr. f_equal.
  change (256 ^ N.of_nat 8) with (2 ^ 64). rewrite N.div_small by exact H. reflexivity.
Qed.

(* ---------- toInt ---------- *)
Lemma skipn_cons_nth {A} (d : A) : forall lo (X : list A) b r, skipn lo X = b :: r -> nth lo X d = b /\ skipn (S lo) X = r.
Proof.
  induction lo as [|lo IH]; intros X b r E.
  - destruct X; simpl in E; inversion E; subst; auto.
  - destruct X as [|x X]; [simpl in E; discriminate|]. simpl in E. apply IH in E. exact E.
Qed.

Lemma skipn_nil_nth {A} (d : A) : forall lo (X : list A), skipn lo X = [] -> nth lo X d = d /\ skipn (S lo) X = [].
Proof.
  induction lo as [|lo IH]; intros X E.
  - destruct X; simpl in E; [auto|discriminate].
  - destruct X as [|x X]; [auto|]. simpl in E. apply IH in E. exact E.
Qed.

(* the Go loop (uint64 accumulator) computes Algorithm 2 modulo 2^64 *)
Lemma toInt_loop_fips X : forall cnt lo total T, total = T mod 2 ^ 64 ->
  toInt_loop (skipn lo X) cnt total = F.for_ lo cnt (fun i t => 256 * t + nth i X 0) T mod 2 ^ 64.
Proof.
  induction cnt as [|cnt IH]; intros lo total T E; [exact E|].
  cbn [toInt_loop F.for_].
  destruct (skipn lo X) as [|b r] eqn:Es.
  - destruct (skipn_nil_nth 0 _ _ Es) as [N1 N2]. rewrite N1, <- N2. apply IH.
    unfold u64. change 18446744073709551616 with (2 ^ 64). subst total.
    rewrite N.add_0_r, N.mul_mod_idemp_r by discriminate. reflexivity.
  - destruct (skipn_cons_nth 0 _ _ _ _ Es) as [N1 N2]. rewrite N1, <- N2. apply IH.
    unfold u64. change 18446744073709551616 with (2 ^ 64). subst total.
    rewrite <- N.add_mod_idemp_l, N.mul_mod_idemp_r, N.add_mod_idemp_l by discriminate. reflexivity.
Qed.

Lemma toInt_fips X k : SlhdsaSupport.toInt X k = F.toInt X k mod 2 ^ 64.
Proof. unfold SlhdsaSupport.toInt, F.toInt. apply (toInt_loop_fips X k 0%nat 0 0). reflexivity. Qed.

(* Algorithm 2 on exactly the bytes of X is the big-endian value *)
Lemma toInt_be_val_fips X : F.toInt X (length X) = be_val X.
Proof.
  unfold F.toInt. induction X as [|b X IH] using rev_ind; [reflexivity|].
  rewrite app_length, Nat.add_comm. cbn [length Nat.add]. rewrite for_snoc. cbn [Nat.add].
  rewrite app_nth2, Nat.sub_diag by lia. cbn [nth].
  rewrite (for_ext _ (fun i t => 256 * t + nth i X 0)) by (intros i s Hi; rewrite app_nth1 by lia; reflexivity).
  rewrite IH, be_val_app. cbn [length].
  replace (be_val [b]) with b by (unfold be_val; cbn [rev app le_val]; lia).
  change (N.of_nat 1) with 1. rewrite N.pow_1_r. lia.
Qed.

Lemma toInt_be_bytes k x : F.toInt (be_bytes k x) k = x mod 256 ^ N.of_nat k.
Proof.
  rewrite <- (be_bytes_length k x) at 2. rewrite toInt_be_val_fips. apply be_val_be_bytes.
Qed.

(* ---------- base_2b ---------- *)
Section BASE2B.
  Variable X : bytes.
  Variable b : nat.
  Hypothesis Hb : (b + 7 <= 32)%nat.

  Lemma fill_fuel : forall f x bits total, (b <= bits + 8 * f)%nat ->
    b2b_fill (S f) x b bits total = b2b_fill f x b bits total.
  Proof.
    induction f as [|f IH]; intros x bits total Hf.
    - cbn [b2b_fill]. destruct (Nat.ltb_spec bits b); [lia|reflexivity].
    - change (b2b_fill (S (S f)) x b bits total) with
        (if Nat.ltb bits b then match x with
           | [] => b2b_fill (S f) [] b (bits + 8) (u32 (total * 256))
           | c :: x' => b2b_fill (S f) x' b (bits + 8) (u32 (total * 256 + c)) end
         else (x, bits, total)).
      change (b2b_fill (S f) x b bits total) with
        (if Nat.ltb bits b then match x with
           | [] => b2b_fill f [] b (bits + 8) (u32 (total * 256))
           | c :: x' => b2b_fill f x' b (bits + 8) (u32 (total * 256 + c)) end
         else (x, bits, total)).
      destruct (Nat.ltb_spec bits b); [|reflexivity].
      destruct x; apply IH; lia.
  Qed.

  Lemma fill_bits : forall f x bits total, (b <= bits + 8 * f)%nat ->
    let r := b2b_fill f x b bits total in
    (b <= snd (fst r))%nat /\ (snd (fst r) <= Nat.max bits (b + 7))%nat.
  Proof.
    induction f as [|f IH]; intros x bits total Hf; cbn [b2b_fill].
    - simpl. lia.
    - destruct (Nat.ltb_spec bits b) as [L|L]; [|simpl; lia].
      destruct x as [|c x'].
      + specialize (IH [] (bits + 8)%nat (u32 (total * 256)) ltac:(lia)). cbv zeta in IH. lia.
      + specialize (IH x' (bits + 8)%nat (u32 (total * 256 + c)) ltac:(lia)). cbv zeta in IH. lia.
  Qed.

  (* same fuel: the Go fill loop (list consumed, uint32) simulates lines 4-8 (index, unbounded) *)
  Lemma fill_sim : forall f i bits total T, total = T mod 2 ^ 32 ->
    let r := b2b_fill f (skipn i X) b bits total in
    let s := F.b2b_while f X b (i, bits, T) in
    fst (fst r) = skipn (fst (fst s)) X /\ snd (fst r) = snd (fst s) /\ snd r = snd s mod 2 ^ 32.
  Proof.
    induction f as [|f IH]; intros i bits total T E; cbn [b2b_fill F.b2b_while]; [simpl; auto|].
    destruct (Nat.ltb_spec bits b) as [L|L]; [|simpl; auto].
    assert (Sh : forall c, u32 (total * 256 + c) = (N.shiftl T 8 + c) mod 2 ^ 32).
    { intros c. unfold u32. change 4294967296 with (2 ^ 32). subst total.
      rewrite N.shiftl_mul_pow2. change (2 ^ 8) with 256.
      rewrite <- N.add_mod_idemp_l, N.mul_mod_idemp_l, N.add_mod_idemp_l by discriminate. reflexivity. }
    destruct (skipn i X) as [|c r] eqn:Es.
    - destruct (skipn_nil_nth 0 _ _ Es) as [N1 N2]. rewrite N1.
      replace (u32 (total * 256)) with (u32 (total * 256 + 0)) by (f_equal; lia). rewrite Sh.
      rewrite <- N2. replace (S i) with (i + 1)%nat by lia. apply IH. reflexivity.
    - destruct (skipn_cons_nth 0 _ _ _ _ Es) as [N1 N2]. rewrite N1, Sh, <- N2.
      replace (S i) with (i + 1)%nat by lia. apply IH. reflexivity.
  Qed.

  Lemma base2b_loop_fips : forall out lo i bits total T acc, total = T mod 2 ^ 32 -> (bits <= 7)%nat ->
    snd (F.for_ lo out (fun _ '(st, baseb) =>
           let '(i, bits, total) := F.b2b_while b X b st in
           let bits := (bits - b)%nat in
           ((i, bits, total), baseb ++ [N.shiftr total (N.of_nat bits) mod 2 ^ N.of_nat b]))
         ((i, bits, T), acc))
    = acc ++ base2b_loop out (skipn i X) b bits total.
  Proof.
    induction out as [|out IH]; intros lo i bits total T acc E Hbits.
    - simpl. rewrite app_nil_r. reflexivity.
    - cbn [F.for_ base2b_loop].
      rewrite fill_fuel by lia.
      pose proof (fill_sim b i bits total T E) as S1. cbv zeta in S1.
      pose proof (fill_bits b (skipn i X) bits total ltac:(lia)) as S2. cbv zeta in S2.
      destruct (b2b_fill b (skipn i X) b bits total) as [[x' bits'] total'].
      destruct (F.b2b_while b X b (i, bits, T)) as [[i2 bits2] T2].
      simpl in S1, S2. destruct S1 as (A1 & A2 & A3). subst x' bits2.
      rewrite IH with (total := total') by (auto; lia).
      rewrite <- app_assoc. cbn [app]. do 2 f_equal.
      (* the digit *)
      rewrite N.land_ones, !N.shiftr_div_pow2. fold (pw (bits' - b)). fold (pw b).
      destruct (digit_split total' (bits' - b) b) as [D1 _]. destruct (digit_split T2 (bits' - b) b) as [D2 _].
      rewrite D1, D2. f_equal. subst total'.
      assert (Eb : (bits' - b + b = bits')%nat) by (clear - S2; lia).
      rewrite Eb.
      assert (Le : (bits' <= 32)%nat) by (clear - S2 Hb Hbits; lia).
      symmetry. exact (u32_mod_pw T2 bits' Le).
  Qed.

  Theorem base2b_fips : forall out, base2b X b out = F.base_2b X b out.
  Proof.
    intros out. unfold base2b. symmetry.
    exact (base2b_loop_fips out 0 0 0 0 0 [] eq_refl ltac:(lia)).
  Qed.
End BASE2B.

(* ---------- the derived lengths ---------- *)
Definition to_fips (P : params) : F.fips_params :=
  F.mkFP (p_n P) (p_h P) (p_d P) (p_hp P) (p_a P) (p_k P) (p_lgw P) (p_m P).

Lemma f_w_eq P : F.f_w (to_fips P) = p_w P.
Proof. reflexivity. Qed.
Lemma f_len1_eq P : (1 <= p_lgw P)%nat -> F.f_len1 (to_fips P) = p_len1 P.
Proof. intros H. unfold F.f_len1, p_len1. cbn [to_fips F.f_n F.f_lgw]. apply ceil_div_eq. exact H. Qed.
Lemma f_len2_eq P : (1 <= p_lgw P)%nat -> F.f_len2 (to_fips P) = p_len2 P.
Proof. intros H. unfold F.f_len2, p_len2. rewrite f_len1_eq, f_w_eq by exact H. reflexivity. Qed.
Lemma f_len_eq P : (1 <= p_lgw P)%nat -> F.f_len (to_fips P) = p_len P.
Proof. intros H. unfold F.f_len, p_len. rewrite f_len1_eq, f_len2_eq by exact H. reflexivity. Qed.

(* ---------- ADRS: the 32-byte string vs the six-word record ---------- *)
Ltac adrs_cbn :=
  cbn [adrs_bytes be_bytes le_bytes rev app zeros repeat F.sl firstn skipn Nat.sub
       a_layer a_tree a_typ a_kp a_w2 a_w3
       SlhdsaAddr.setLayerAddress SlhdsaAddr.setTreeAddress SlhdsaAddr.setTypeAndClear
       SlhdsaAddr.setKeyPairAddress SlhdsaAddr.setChainAddress SlhdsaAddr.setTreeHeight
       SlhdsaAddr.setHashAddress SlhdsaAddr.setTreeIndex].

Lemma AB_setLayer l ad : F.setLayerAddress l (adrs_bytes ad) = adrs_bytes (SlhdsaAddr.setLayerAddress l ad).
Proof. unfold F.setLayerAddress. rewrite toByte_be. destruct ad. adrs_cbn. reflexivity. Qed.

Lemma AB_setTree t ad : t < 2 ^ 64 -> F.setTreeAddress t (adrs_bytes ad) = adrs_bytes (SlhdsaAddr.setTreeAddress t ad).
Proof. intros H. unfold F.setTreeAddress. rewrite toByte12_u64 by exact H. destruct ad. adrs_cbn. reflexivity. Qed.

Lemma AB_setType y ad : F.setTypeAndClear y (adrs_bytes ad) = adrs_bytes (SlhdsaAddr.setTypeAndClear y ad).
Proof.
  unfold F.setTypeAndClear. rewrite !toByte_be. change (be_bytes 12 0) with (zeros 12).
  change (be_bytes 4 0) with (zeros 4). destruct ad. adrs_cbn. reflexivity.
Qed.

Lemma AB_setKP i ad : F.setKeyPairAddress i (adrs_bytes ad) = adrs_bytes (SlhdsaAddr.setKeyPairAddress i ad).
Proof. unfold F.setKeyPairAddress. rewrite toByte_be. destruct ad. adrs_cbn. reflexivity. Qed.

Lemma AB_setChain i ad : F.setChainAddress i (adrs_bytes ad) = adrs_bytes (SlhdsaAddr.setChainAddress i ad).
Proof. unfold F.setChainAddress. rewrite toByte_be. destruct ad. adrs_cbn. reflexivity. Qed.

Lemma AB_setHeight i ad : F.setTreeHeight i (adrs_bytes ad) = adrs_bytes (SlhdsaAddr.setTreeHeight i ad).
Proof. unfold F.setTreeHeight. rewrite toByte_be. destruct ad. adrs_cbn. reflexivity. Qed.

Lemma AB_setHash i ad : F.setHashAddress i (adrs_bytes ad) = adrs_bytes (SlhdsaAddr.setHashAddress i ad).
Proof. unfold F.setHashAddress. rewrite toByte_be. destruct ad. adrs_cbn. reflexivity. Qed.

Lemma AB_setIndex i ad : F.setTreeIndex i (adrs_bytes ad) = adrs_bytes (SlhdsaAddr.setTreeIndex i ad).
Proof. unfold F.setTreeIndex. rewrite toByte_be. destruct ad. adrs_cbn. reflexivity. Qed.

Lemma AB_getKP ad : F.getKeyPairAddress (adrs_bytes ad) = a_kp ad mod 2 ^ 32.
Proof.
  unfold F.getKeyPairAddress.
  replace (F.sl (adrs_bytes ad) 20 24) with (be_bytes 4 (a_kp ad)) by (destruct ad; adrs_cbn; reflexivity).
  apply toInt_be_bytes.
Qed.

Lemma AB_getIndex ad : F.getTreeIndex (adrs_bytes ad) = a_w3 ad mod 2 ^ 32.
Proof.
  unfold F.getTreeIndex.
  replace (F.sl (adrs_bytes ad) 28 32) with (be_bytes 4 (a_w3 ad)) by (destruct ad; adrs_cbn; reflexivity).
  apply toInt_be_bytes.
Qed.

(* a word and its reduction modulo 2^32 give the same address bytes *)
Lemma AB_kp_mod l t y kp w2 w3 : adrs_bytes (mkA l t y (kp mod 2 ^ 32) w2 w3) = adrs_bytes (mkA l t y kp w2 w3).
Proof. unfold adrs_bytes. cbn [a_layer a_tree a_typ a_kp a_w2 a_w3]. change (kp mod 2 ^ 32) with (u32 kp). rewrite be_bytes4_u32. reflexivity. Qed.

Lemma AB_zero : F.toByte 0 32 = adrs_bytes newAddress.
Proof. vm_compute. reflexivity. Qed.

(* section 11.2 ADRS^c is address.compress *)
Lemma AB_compress ad : F.ADRSc (adrs_bytes ad) = compress ad.
Proof. unfold F.ADRSc, compress. destruct ad. adrs_cbn. reflexivity. Qed.

Lemma AB_length ad : length (adrs_bytes ad) = 32%nat.
Proof. unfold adrs_bytes. rewrite !app_length, !be_bytes_length, zeros_length. reflexivity. Qed.
