(* Bit packing of the ML-DSA model (model/MldsaPoly.v): SimpleBitPack /
   SimpleBitUnpack and BitPack / BitUnpack are mutually inverse on their
   domains, and the encoded lengths. *)
From Coq Require Import List ZArith NArith Bool Arith Lia.
From Tink Require Import Bytes Wrap MldsaScalar MldsaScalarProofs MldsaKernels MldsaKernelsProofs MldsaPoly.
Import ListNotations.
Local Open Scope nat_scope.

(* ---- groups ---- *)
Lemma groups_fuel_enough {A} n : 0 < n -> forall f1 f2 (l : list A),
  length l <= f1 -> length l <= f2 -> groups_fuel f1 n l = groups_fuel f2 n l.
Proof.
  intros Hn. induction f1 as [|f1 IH]; intros f2 l H1 H2.
  - destruct l; [|simpl in H1; lia]. destruct f2; reflexivity.
  - destruct l as [|x l]; [destruct f2; reflexivity|].
    destruct f2 as [|f2]; [simpl in H2; lia|].
    cbn [groups_fuel]. f_equal. apply IH.
    + rewrite skipn_length. cbn [length] in *; lia.
    + rewrite skipn_length. cbn [length] in *; lia.
Qed.

Lemma groups_nil {A} n : @groups A n [] = [].
Proof. reflexivity. Qed.

Lemma groups_app {A} n (a b : list A) : 0 < n -> length a = n ->
  groups n (a ++ b) = a :: groups n b.
Proof.
  intros Hn Ha. unfold groups. rewrite app_length.
  destruct a as [|x a]; [simpl in Ha; lia|].
  cbn [length Nat.add groups_fuel app].
  change (x :: a ++ b) with ((x :: a) ++ b).
  rewrite firstn_app, firstn_all2 by (cbn [length] in *; lia).
  replace (n - length (x :: a)) with 0 by lia. rewrite firstn_O, app_nil_r. f_equal.
  rewrite skipn_app, skipn_all2 by (cbn [length] in *; lia).
  replace (n - length (x :: a)) with 0 by lia. cbn [skipn app].
  apply groups_fuel_enough; auto; cbn [length] in *; lia.
Qed.

Lemma groups_flat_map {A B} (f : A -> list B) n (l : list A) : 0 < n ->
  (forall x, length (f x) = n) -> groups n (flat_map f l) = map f l.
Proof.
  intros Hn Hf. induction l as [|x l IH]; [reflexivity|].
  cbn [flat_map map]. rewrite groups_app by auto. f_equal. exact IH.
Qed.

Lemma concat_groups {A} n (l : list A) : 0 < n -> concat (groups n l) = l.
Proof.
  intros Hn. unfold groups.
  assert (G : forall f (l : list A), length l <= f -> concat (groups_fuel f n l) = l).
  { induction f as [|f IH]; intros l0 H.
    - destruct l0; [reflexivity | simpl in H; lia].
    - destruct l0 as [|x l0]; [reflexivity|]. cbn [groups_fuel concat].
      rewrite IH; [apply firstn_skipn|]. rewrite skipn_length. cbn [length] in *; lia. }
  apply G. lia.
Qed.

(* every group of a list whose length is a multiple of n has n elements *)
Lemma groups_all_full {A} n (l : list A) m : 0 < n -> length l = m * n ->
  Forall (fun g => length g = n) (groups n l).
Proof.
  intros Hn. revert l. induction m as [|m IH]; intros l Hl.
  - destruct l; [constructor | simpl in Hl; lia].
  - rewrite <- (firstn_skipn n l). rewrite groups_app; auto.
    + constructor; [rewrite firstn_length; simpl in Hl; lia|].
      apply IH. rewrite skipn_length. simpl in Hl. lia.
    + rewrite firstn_length. simpl in Hl. lia.
Qed.

Lemma groups_length {A} n (l : list A) m : 0 < n -> length l = m * n -> length (groups n l) = m.
Proof.
  intros Hn. revert l. induction m as [|m IH]; intros l Hl.
  - destruct l; [reflexivity | simpl in Hl; lia].
  - rewrite <- (firstn_skipn n l). rewrite groups_app; auto.
    + cbn [length]. f_equal. apply IH. rewrite skipn_length. simpl in Hl. lia.
    + rewrite firstn_length. simpl in Hl. lia.
Qed.

(* ---- bits ---- *)
Lemma bits_of_length n x : length (bits_of n x) = n.
Proof. revert x; induction n; intros; simpl; auto. Qed.

Lemma val_of_nonneg bs : (0 <= val_of bs)%Z.
Proof. induction bs as [|b t IH]; cbn [val_of]; [lia|]. destruct b; cbn [Z.b2z]; lia. Qed.

Lemma val_of_bound bs : (val_of bs < 2 ^ Z.of_nat (length bs))%Z.
Proof.
  induction bs as [|b t IH]; [simpl; lia|].
  cbn [length val_of]. rewrite Nat2Z.inj_succ, Z.pow_succ_r by lia. destruct b; cbn [Z.b2z]; lia.
Qed.

Lemma bits_of_val_of bs : bits_of (length bs) (val_of bs) = bs.
Proof.
  induction bs as [|b t IH]; [reflexivity|].
  cbn [length bits_of val_of]. f_equal.
  - rewrite Z.odd_add_mul_2. destruct b; reflexivity.
  - rewrite Z.div2_div. replace (Z.b2z b + 2 * val_of t)%Z with (val_of t * 2 + Z.b2z b)%Z by lia.
    rewrite Z.div_add_l by lia. rewrite (Z.div_small (Z.b2z b)) by (destruct b; simpl; lia).
    rewrite Z.add_0_r. exact IH.
Qed.

Lemma val_of_bits_of n x : (0 <= x)%Z -> val_of (bits_of n x) = (x mod 2 ^ Z.of_nat n)%Z.
Proof.
  revert x; induction n as [|n IH]; intros x Hx.
  - simpl. rewrite Z.mod_1_r. reflexivity.
  - cbn [bits_of val_of]. rewrite IH by (rewrite Z.div2_div; apply Z.div_pos; lia).
    rewrite Nat2Z.inj_succ, Z.pow_succ_r by lia.
    rewrite Z.div2_div.
    rewrite (Z.rem_mul_r x 2 (2 ^ Z.of_nat n)) by lia.
    rewrite Zmod_odd. destruct (Z.odd x); simpl; lia.
Qed.

Lemma val_of_bits_of_small n x : (0 <= x < 2 ^ Z.of_nat n)%Z -> val_of (bits_of n x) = x.
Proof. intros H. rewrite val_of_bits_of by lia. apply Z.mod_small. exact H. Qed.

Lemma bits_of_byte_of_bits g : length g = 8 -> bits_of_byte (byte_of_bits g) = g.
Proof.
  intros H. unfold bits_of_byte, byte_of_bits.
  rewrite Z2N.id by apply val_of_nonneg. rewrite <- H. apply bits_of_val_of.
Qed.

Lemma byte_of_bits_lt g : length g = 8 -> (byte_of_bits g < 256)%N.
Proof.
  intros H. unfold byte_of_bits. pose proof (val_of_bound g) as B. pose proof (val_of_nonneg g) as P.
  rewrite H in B. change (2 ^ Z.of_nat 8)%Z with 256%Z in B. lia.
Qed.

(* ---- SimpleBitPack / SimpleBitUnpack ---- *)
Lemma flat_map_bits_length bits (p : poly) : length (flat_map (bits_of bits) p) = length p * bits.
Proof.
  induction p as [|c p IH]; [reflexivity|]. cbn [flat_map length].
  rewrite app_length, bits_of_length, IH. lia.
Qed.

(* encoded length: degree*bits/8 bytes *)
Theorem simpleBitPack_length bits p : length p = degree ->
  length (simpleBitPack bits p) = 32 * bits.
Proof.
  intros Hp. unfold simpleBitPack. rewrite map_length.
  apply groups_length; [lia|]. rewrite flat_map_bits_length, Hp. unfold degree. lia.
Qed.

Theorem simpleBitPack_wf bits p : length p = degree -> wfb (simpleBitPack bits p).
Proof.
  intros Hp. unfold simpleBitPack, wfb. apply Forall_map.
  eapply Forall_impl; [|apply (groups_all_full 8 _ (32 * bits))]; [| lia |].
  - intros g Hg. apply byte_of_bits_lt. exact Hg.
  - rewrite flat_map_bits_length, Hp. unfold degree. lia.
Qed.

Lemma unpack_pack_stream (s : list bool) m : length s = m * 8 ->
  flat_map bits_of_byte (map byte_of_bits (groups 8 s)) = s.
Proof.
  intros Hs. rewrite flat_map_concat_map, map_map.
  rewrite <- (concat_groups 8 s) at 2 by lia. f_equal.
  rewrite <- (map_id (groups 8 s)) at 2. apply map_ext_in.
  intros g Hg. apply bits_of_byte_of_bits.
  pose proof (groups_all_full 8 s m ltac:(lia) Hs) as F. rewrite Forall_forall in F. auto.
Qed.

Theorem simpleBitUnpack_simpleBitPack bits p :
  0 < bits -> length p = degree ->
  Forall (fun c => 0 <= c < 2 ^ Z.of_nat bits)%Z p ->
  simpleBitUnpack bits (simpleBitPack bits p) = p.
Proof.
  intros Hb Hp Hr. unfold simpleBitUnpack, simpleBitPack.
  rewrite (unpack_pack_stream _ (32 * bits)) by (rewrite flat_map_bits_length, Hp; unfold degree; lia).
  rewrite groups_flat_map by (auto using bits_of_length).
  rewrite map_map.
  replace (map (fun x => val_of (bits_of bits x)) p) with p.
  - rewrite Hp, Nat.sub_diag. cbn [repeat]. rewrite app_nil_r. rewrite <- Hp. apply firstn_all.
  - rewrite <- (map_id p) at 1. apply map_ext_in. intros c Hc.
    rewrite Forall_forall in Hr. symmetry. apply val_of_bits_of_small. auto.
Qed.

(* ---- BitPack / BitUnpack ---- *)
Theorem bitPack_length a bits p : length p = degree -> length (bitPack a bits p) = 32 * bits.
Proof. intros Hp. unfold bitPack, psubFrom. apply simpleBitPack_length. rewrite map_length. exact Hp. Qed.

(* coefficients c of Z_q with a - c (mod q) in [0, 2^bits): for a = eta,
   2^(d-1), gamma1 these are the ranges [-eta, eta], (-2^(d-1), 2^(d-1)],
   (-gamma1, gamma1] that FIPS 204 packs *)
Theorem bitUnpack_bitPack a bits p :
  0 < bits -> length p = degree -> (0 <= a < q)%Z ->
  Forall (fun c => 0 <= c < q /\ (a - c) mod q < 2 ^ Z.of_nat bits)%Z p ->
  bitUnpack a bits (bitPack a bits p) = p.
Proof.
  intros Hb Hp Ha Hr. unfold bitUnpack, bitPack.
  rewrite simpleBitUnpack_simpleBitPack; auto.
  - unfold psubFrom. rewrite map_map. rewrite <- (map_id p) at 2. apply map_ext_in.
    intros c Hc. rewrite Forall_forall in Hr. destruct (Hr c Hc) as [Rc _].
    rewrite (k_sub_spec a c) by auto.
    rewrite k_sub_spec; auto; [|apply Z.mod_pos_bound; unfold q; lia].
    unfold q in *. rewrite Zminus_mod_idemp_r. replace (a - (a - c))%Z with c by lia.
    apply Z.mod_small. lia.
  - unfold psubFrom. rewrite map_length. exact Hp.
  - unfold psubFrom. apply Forall_map. eapply Forall_impl; [|exact Hr].
    intros c [Rc Hc]. cbv beta. rewrite k_sub_spec by auto. split; [|exact Hc].
    apply Z.mod_pos_bound. unfold q. lia.
Qed.
