(* C04, strengthening round: the exact set of accepted configurations per
   construction path (necessity AND totality), the modified-message clause as a
   reduction to a truncated-MAC collision on different MAC inputs (one object,
   and two objects over the same key whose variants differ: the LEGACY 0x00
   suffix), and the as-coded HMAC of internal/mac/hmac tied to the raw MAC of
   model/Mac.v. *)
From Coq Require Import List NArith Bool Arith Lia.
From Tink Require Import Bytes Cmac Hmac Mac HmacCode CmacProofs HmacProofs MacProofs HmacCodeProofs.
Import ListNotations.
Open Scope N_scope.

(* the size rules, per construction path, in plain terms:
   HMAC: known hash, 10 <= tag <= digest size, key >= 16 bytes (every path);
   AES-CMAC: 10 <= tag <= 16 and key size 16/24/32 through mac/subtle, 32 through
   aescmac.NewMAC / mac.New (ValidateCMACParams), 16 or 32 through a key object wrapped by the
   factory adapter (aescmac.NewParameters then subtle.NewAESCMAC);
   key objects: a NO_PREFIX key has id requirement 0 *)
Definition in_range (p : path) (a : alg) (keylen tag : nat) (v : variant) (id : N) : Prop :=
  match a with
  | AHmac None => False
  | AHmac (Some h) => (10 <= tag <= digest_size h)%nat /\ (16 <= keylen)%nat
  | ACmac =>
      (10 <= tag <= 16)%nat /\
      match p with
      | PSubtle => keylen = 16%nat \/ keylen = 24%nat \/ keylen = 32%nat
      | PAdapter => keylen = 16%nat \/ keylen = 32%nat
      | PKey | PFactory => keylen = 32%nat
      end
  end /\
  match p with PSubtle => True | _ => v = VNoPrefix -> id = 0 end.

Lemma app_eq_split {A} (a b c d : list A) :
  a ++ b = c ++ d -> length b = length d -> a = c /\ b = d.
Proof.
  revert c. induction a as [|x a IH]; intros c E Hl.
  - destruct c as [|y c]; [auto|]. cbn in E. subst b. cbn in Hl. rewrite app_length in Hl. lia.
  - destruct c as [|y c].
    + cbn in E. subst d. cbn in Hl. rewrite app_length in Hl. lia.
    + cbn in E. inversion E; subst. destruct (IH c H1 Hl) as [-> ->]. auto.
Qed.

Section Build2.
  Variable Hash : hash_alg -> bytes -> bytes.
  Variable AES : bytes -> bytes -> bytes.
  Hypothesis Hash_len : forall h x, length (Hash h x) = digest_size h.
  Hypothesis AES_len : forall k b, length b = 16%nat -> length (AES k b) = 16%nat.
  Hypothesis AES_wf0 : forall k, wfb (AES k (zeros 16)).

  (* ---- accepted configurations: exact ---- *)
  Ltac acc_fwd :=
    let P := fresh "P" in let HP := fresh "HP" in let Hx := fresh "Hx" in
    intros [P HP];
    first [ discriminate HP
          | repeat split;
            first [ lia | exact I | (intros Hx; first [discriminate Hx | reflexivity | assumption]) ] ].
  Ltac acc_bwd :=
    let HA := fresh "HA" in let HI := fresh "HI" in
    intros [HA HI];
    first [ (eexists; reflexivity)
          | (exfalso; first [ lia | (match goal with n : _ <> 0 |- _ => apply n; apply HI; reflexivity end) ]) ].

  Theorem build_accepts_iff p a key tag v id :
    (exists P, build Hash AES p a key tag v id = Built P) <-> in_range p a (length key) tag v id.
  Proof.
    clear Hash_len AES_len AES_wf0.
    unfold in_range, build, key_mac, raw_new, hmac_new, cmac_new, params_ok, key_ok,
      hmac_validate, cmac_validate.
    rewrite Nat.eqb_refl.
    destruct a as [[h|]|].
    - (* HMAC, known hash *)
      destruct (Nat.ltb_spec (digest_size h) tag); destruct (Nat.ltb_spec tag 10);
        destruct (Nat.ltb_spec (length key) 16); cbn [negb andb orb];
        destruct p; cbn [negb andb orb];
        destruct v; cbn [is_noprefix andb negb]; destruct (N.eqb_spec id 0); cbn [negb andb orb];
        (split; [acc_fwd | acc_bwd]).
    - (* HMAC, unknown hash name *)
      destruct p; cbn [negb]; split; try (intros [P HP]; discriminate); intros [[] _].
    - (* AES-CMAC *)
      destruct (Nat.ltb_spec (length key) 16); destruct (Nat.ltb_spec tag 10);
        destruct (Nat.ltb_spec 16 tag);
        destruct (Nat.eqb_spec (length key) 32); destruct (Nat.eqb_spec (length key) 24);
        destruct (Nat.eqb_spec (length key) 16); try lia; cbn [negb andb orb];
        destruct p; cbn [negb andb orb];
        destruct v; cbn [is_noprefix andb negb]; destruct (N.eqb_spec id 0); cbn [negb andb orb];
        (split; [acc_fwd | acc_bwd]).
  Qed.

  (* ---- modified message: reduction to a truncated-MAC collision ---- *)
  Lemma std_tag_length p a key tag v id P :
    build Hash AES p a key tag v id = Built P ->
    forall x, length (firstn tag (std_mac Hash AES a key x)) = tag.
  Proof.
    intros HB x. destruct (build_raw Hash AES _ _ _ _ _ _ _ HB) as [r Hr].
    destruct (raw_new_ok Hash AES Hash_len AES_len AES_wf0 _ _ _ _ Hr) as [_ [_ [Hf [Hl _]]]].
    rewrite firstn_length. specialize (Hl x). rewrite Hf in Hl. lia.
  Qed.

  Lemma path_msg_inj p v m m' : path_msg p v m = path_msg p v m' -> m = m'.
  Proof.
    unfold path_msg, framed_msg. destruct p; [auto| | |];
      (destruct (is_legacy v); [apply app_inv_tail|auto]).
  Qed.

  (* Two MAC objects over the same algorithm, key bytes and tag size (possibly the same object,
     possibly another path / variant / id).  If the tag P computes for m is accepted by P' for m',
     then the two objects frame with the same output prefix and EITHER the MAC inputs coincide
     (message, with the 0x00 suffix when LEGACY) OR the truncated standard MAC collides on two
     different inputs, at a length of at least 10 bytes. *)
  Theorem cross_verify_reduction p p' a key tag v v' id id' P P' :
    build Hash AES p a key tag v id = Built P ->
    build Hash AES p' a key tag v' id' = Built P' ->
    forall m m', pverify P' (pcompute P m) m' = true ->
      path_prefix p v id = path_prefix p' v' id' /\
      (path_msg p v m = path_msg p' v' m' \/
       (path_msg p v m <> path_msg p' v' m' /\
        (10 <= tag)%nat /\
        length (firstn tag (std_mac Hash AES a key (path_msg p v m))) = tag /\
        firstn tag (std_mac Hash AES a key (path_msg p v m))
        = firstn tag (std_mac Hash AES a key (path_msg p' v' m')))).
  Proof.
    intros HB HB' m m' Hv.
    destruct (build_facts Hash AES Hash_len AES_len AES_wf0 _ _ _ _ _ _ _ HB) as [_ [_ [Hc [_ H10]]]].
    destruct (build_facts Hash AES Hash_len AES_len AES_wf0 _ _ _ _ _ _ _ HB') as [Hex' [_ [Hc' _]]].
    apply Hex' in Hv. rewrite Hc, Hc' in Hv.
    apply app_eq_split in Hv.
    - destruct Hv as [Hp Ht]. split; [exact Hp|].
      destruct (list_eq_dec N.eq_dec (path_msg p v m) (path_msg p' v' m')) as [E|NE]; [left; exact E|].
      right. split; [exact NE|]. split; [exact H10|]. split; [|exact Ht].
      eapply std_tag_length; eauto.
    - rewrite (std_tag_length _ _ _ _ _ _ _ HB), (std_tag_length _ _ _ _ _ _ _ HB'). reflexivity.
  Qed.

  (* one object: a modified message that verifies exhibits a collision *)
  Corollary modified_message_reduction p a key tag v id P :
    build Hash AES p a key tag v id = Built P ->
    forall m m', m <> m' -> pverify P (pcompute P m) m' = true ->
      path_msg p v m <> path_msg p v m' /\
      (10 <= tag)%nat /\
      length (firstn tag (std_mac Hash AES a key (path_msg p v m))) = tag /\
      firstn tag (std_mac Hash AES a key (path_msg p v m))
      = firstn tag (std_mac Hash AES a key (path_msg p v m')).
  Proof.
    intros HB m m' Hne Hv.
    destruct (cross_verify_reduction _ _ _ _ _ _ _ _ _ _ _ HB HB m m' Hv) as [_ [E|C]].
    - apply path_msg_inj in E. contradiction.
    - exact C.
  Qed.

  (* the same key under LEGACY and under a variant with the same output prefix (CRUNCHY, same id):
     the LEGACY tag of m is the other object's tag of m || 0x00 -- an identity of MAC inputs, not a
     collision -- and it is accepted for any OTHER message only through a collision *)
  Corollary legacy_suffix_cross_variant p p' a key tag id P P' :
    p <> PSubtle -> p' <> PSubtle ->
    build Hash AES p a key tag VLegacy id = Built P ->
    build Hash AES p' a key tag VCrunchy id = Built P' ->
    forall m,
      pverify P' (pcompute P m) (m ++ [0]) = true /\
      forall m', pverify P' (pcompute P m) m' = true -> m' <> m ++ [0] ->
        (10 <= tag)%nat /\
        firstn tag (std_mac Hash AES a key (m ++ [0])) = firstn tag (std_mac Hash AES a key m').
  Proof.
    intros Hp Hp' HB HB' m. split.
    - destruct (build_facts Hash AES Hash_len AES_len AES_wf0 _ _ _ _ _ _ _ HB) as [_ [_ [Hc _]]].
      destruct (build_facts Hash AES Hash_len AES_len AES_wf0 _ _ _ _ _ _ _ HB') as [Hex' [_ [Hc' _]]].
      apply Hex'. rewrite Hc, Hc'. destruct p, p'; try contradiction; reflexivity.
    - intros m' Hv Hne.
      destruct (cross_verify_reduction _ _ _ _ _ _ _ _ _ _ _ HB HB' m m' Hv) as [_ [E|C]].
      + exfalso. apply Hne. destruct p, p'; try contradiction; cbn in E; auto.
      + destruct C as [_ [H10 [_ Ht]]]. split; [exact H10|].
        destruct p, p'; try contradiction; exact Ht.
  Qed.

  (* ---- internal/mac/hmac as coded = the raw MAC of hmac_new ---- *)
  Section Coded.
    Variable St : Type.
    Variable h_init : St.
    Variable h_write : St -> bytes -> St.
    Variable h_sum : St -> bytes.
    Variable a : hash_alg.
    (* the hash.Hash that HashFunc() returns computes Hash a and has its block size *)
    Hypothesis stream_law :
      forall chunks, h_sum (fold_left h_write chunks h_init) = Hash a (concat chunks).

    Theorem tink_hmac_code_is_raw key tag r :
      hmac_new Hash (Some a) key tag = Ok r ->
      forall data,
        tink_hmac_compute St h_init h_write h_sum (block_size a) key tag data
        = raw_compute r (concat data) /\
        (forall mac, (forall x, wfb (Hash a x)) -> wfb mac ->
           tink_hmac_verify St h_init h_write h_sum (block_size a) key tag mac data
           = raw_verify r mac (concat data)).
    Proof.
      clear Hash_len AES_len AES_wf0.
      unfold hmac_new. destruct (negb (hmac_validate (Some a) (length key) tag)); [discriminate|].
      intros E. inversion E; subst r. intros data. split.
      - rewrite (tink_hmac_compute_spec St h_init h_write h_sum (block_size a) (Hash a) stream_law).
        reflexivity.
      - intros mac Hwf Hmac.
        rewrite (tink_hmac_verify_spec St h_init h_write h_sum (block_size a) (Hash a) stream_law) by assumption.
        reflexivity.
    Qed.
  End Coded.
End Build2.
