(* Ties between the constants REGENERATED from the Go source (gen/RepoConsts.v)
   and the hand-written constants the C05 model is stated over.  A source edit that
   changes a minimum or limit changes the regenerated definition and one of these
   lemmas stops checking. *)
From Coq Require Import NArith ZArith List String.
From Tink Require Import RepoConsts Prefix.
Open Scope N_scope.

(* every regenerated constant this file needs is named in a lemma below: if the translator
   cannot find one in the source its definition is missing and that lemma stops checking;
   constants of other properties do not matter here *)

(* C05: output prefix constants *)
Lemma tie_tink_start_byte : gen_tink_start_byte = Prefix.tink_start_byte. Proof. reflexivity. Qed.
Lemma tie_legacy_start_byte : gen_legacy_start_byte = Prefix.legacy_start_byte. Proof. reflexivity. Qed.

Lemma tie_nonraw_prefix_size : gen_nonraw_prefix_size = N.of_nat Prefix.nonraw_prefix_size. Proof. reflexivity. Qed.
