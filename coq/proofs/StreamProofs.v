(* Proofs about model/Stream.v (property C07). *)
From Coq Require Import List NArith Bool Arith Lia.
From Tink Require Import Bytes Stream.
Import ListNotations.
Open Scope nat_scope.

(* ------------------------------------------------------------------ *)
(* the toy segment cipher satisfies the laws the theorems assume       *)
(* ------------------------------------------------------------------ *)
Lemma map_lxor_invol k (s : bytes) :
  map (fun x => N.lxor x k) (map (fun x => N.lxor x k) s) = s.
Proof.
  induction s as [|x s IH]; simpl; [reflexivity|].
  rewrite N.lxor_assoc, N.lxor_nilpotent, N.lxor_0_r, IH. reflexivity.
Qed.

Lemma toy_len n s : length (toy_encs n s) = length s + 4.
Proof. unfold toy_encs. rewrite app_length, map_length, be_bytes_length. reflexivity. Qed.

Lemma toy_dec_enc n s : toy_decs n (toy_encs n s) = Some s.
Proof.
  unfold toy_decs. rewrite toy_len.
  destruct (Nat.ltb_spec (length s + 4) 4) as [H|H]; [lia|].
  replace (length s + 4 - 4) with (length (map (fun x => N.lxor x (toy_kb n)) s))
    by (rewrite map_length; lia).
  unfold toy_encs. rewrite firstn_app, Nat.sub_diag, firstn_all, firstn_O, app_nil_r.
  rewrite skipn_app, Nat.sub_diag, skipn_all, skipn_O, app_nil_l.
  rewrite map_lxor_invol, beq_refl. reflexivity.
Qed.

Lemma toy_dec_inj n c s : toy_decs n c = Some s -> c = toy_encs n s.
Proof.
  unfold toy_decs. destruct (Nat.ltb_spec (length c) 4) as [H|H]; [discriminate|].
  set (body := firstn (length c - 4) c). set (tag := skipn (length c - 4) c).
  destruct (beq tag _) eqn:E; [|discriminate]. intros Hs. inversion Hs; subst s; clear Hs.
  apply beq_eq in E. unfold toy_encs. rewrite map_lxor_invol, <- E.
  unfold body, tag. symmetry. apply firstn_skipn.
Qed.

(* ------------------------------------------------------------------ *)
(* nonces                                                              *)
(* ------------------------------------------------------------------ *)
Lemma gen_nonce_some sz pre c l : (c < max_segments)%N ->
  gen_nonce sz pre c l = Some (nonce_of sz pre c l).
Proof. intros H. unfold gen_nonce. destruct (N.leb_spec max_segments c); [lia|reflexivity]. Qed.

Lemma gen_nonce_none sz pre c l : (max_segments <= c)%N -> gen_nonce sz pre c l = None.
Proof. intros H. unfold gen_nonce. destruct (N.leb_spec max_segments c); [reflexivity|lia]. Qed.

Lemma be_bytes4_inj a b : (a < 4294967296)%N -> (b < 4294967296)%N ->
  be_bytes 4 a = be_bytes 4 b -> a = b.
Proof.
  intros Ha Hb E. apply (f_equal be_val) in E. rewrite !be_val_be_bytes in E.
  change (256 ^ N.of_nat 4)%N with 4294967296%N in E.
  rewrite !N.mod_small in E by assumption. exact E.
Qed.

Lemma app_inv_length {A} (a b c d : list A) : length a = length c -> a ++ b = c ++ d -> a = c /\ b = d.
Proof.
  revert c; induction a as [|x a IH]; destruct c as [|y c]; simpl; intros HL E; try discriminate; auto.
  inversion E; subst. destruct (IH c) as [-> ->]; auto.
Qed.

(* distinct (counter, last) pairs below the guard give distinct nonces *)
Lemma nonce_inj sz pre a la b lb : (a < max_segments)%N -> (b < max_segments)%N ->
  nonce_of sz pre a la = nonce_of sz pre b lb -> a = b /\ la = lb.
Proof.
  unfold nonce_of, max_segments. intros Ha Hb E.
  apply app_inv_head in E.
  apply app_inv_length in E; [|rewrite !be_bytes_length; reflexivity].
  destruct E as [E1 E2]. apply be_bytes4_inj in E1; try lia. split; [exact E1|].
  simpl in E2. inversion E2. destruct la, lb; auto; discriminate.
Qed.

(* ------------------------------------------------------------------ *)
(* the segmentation of the documented format                           *)
(* ------------------------------------------------------------------ *)
Section Segmentation.
  Variable seg off : nat.
  Hypothesis Hpos : 0 < seg - off.
  Local Notation L := (lim seg off).

  Lemma L_pos i : 0 < L i.
  Proof. unfold lim. destruct (i =? 0)%N; lia. Qed.

  (* every segment but the last exactly full, the last at most full *)
  Fixpoint wf_from (i : N) (ss : list bytes) : Prop :=
    match ss with
    | [] => False
    | s :: rest => match rest with
                   | [] => length s <= L i
                   | _ => length s = L i /\ wf_from (i + 1)%N rest
                   end
    end.

  Fixpoint full_from (i : N) (ss : list bytes) : Prop :=
    match ss with
    | [] => True
    | s :: rest => length s = L i /\ full_from (i + 1)%N rest
    end.

  Lemma segs_from_ne fuel i p : segs_from seg off fuel i p <> [].
  Proof. destruct fuel; simpl; [discriminate|]. destruct (_ <=? _); discriminate. Qed.

  Lemma segs_concat fuel : forall i p, concat (segs_from seg off fuel i p) = p.
  Proof.
    induction fuel as [|f IH]; intros i p; simpl; [apply app_nil_r|].
    destruct (length p <=? L i); simpl; [apply app_nil_r|].
    rewrite IH. apply firstn_skipn.
  Qed.

  Lemma segs_wf fuel : forall i p, length p <= fuel -> wf_from i (segs_from seg off fuel i p).
  Proof.
    induction fuel as [|f IH]; intros i p Hf; simpl.
    - lia.
    - destruct (Nat.leb_spec (length p) (L i)) as [H|H]; simpl; [exact H|].
      pose proof (L_pos i) as HL.
      assert (Hw : wf_from (i + 1)%N (segs_from seg off f (i + 1)%N (skipn (L i) p)))
        by (apply IH; rewrite skipn_length; lia).
      destruct (segs_from seg off f (i + 1)%N (skipn (L i) p)) eqn:E.
      + exfalso. eapply segs_from_ne; eauto.
      + split; [rewrite firstn_length; lia | exact Hw].
  Qed.

  Lemma segments_concat p : concat (segments seg off p) = p.
  Proof. apply segs_concat. Qed.
  Lemma segments_wf p : wf_from 0%N (segments seg off p).
  Proof. apply segs_wf. lia. Qed.

  Lemma full_from_app ss : forall i b, full_from i ss -> length b = L (i + N.of_nat (length ss))%N ->
    full_from i (ss ++ [b]).
  Proof.
    induction ss as [|s ss IH]; intros i b Hf Hb; simpl in *.
    - rewrite N.add_0_r in Hb. auto.
    - destruct Hf as [H1 H2]. split; [exact H1|]. apply IH; [exact H2|].
      rewrite Hb. f_equal. lia.
  Qed.

  (* full segments followed by a (non-empty unless alone) final buffer are THE segmentation *)
  Lemma segs_from_app ss : forall fuel i b,
    full_from i ss -> length b <= L (i + N.of_nat (length ss))%N -> (ss <> [] -> b <> []) ->
    length (concat ss ++ b) <= fuel ->
    segs_from seg off fuel i (concat ss ++ b) = ss ++ [b].
  Proof.
    induction ss as [|s ss IH]; intros fuel i b Hf Hb Hne Hfuel; simpl in *.
    - rewrite N.add_0_r in Hb. destruct fuel; simpl; [reflexivity|].
      destruct (Nat.leb_spec (length b) (L i)); [reflexivity|lia].
    - destruct Hf as [H1 H2]. pose proof (L_pos i) as HL.
      assert (Hb' : b <> []) by (apply Hne; discriminate).
      assert (Hbl : 0 < length b) by (destruct b; [congruence|simpl; lia]).
      rewrite <- app_assoc in *. rewrite app_length in Hfuel.
      destruct fuel as [|f]; [lia|]. simpl.
      rewrite app_length. rewrite app_length.
      destruct (Nat.leb_spec (length s + (length (concat ss) + length b)) (L i)); [lia|].
      rewrite <- H1. rewrite firstn_app, Nat.sub_diag, firstn_all, firstn_O, app_nil_r.
      rewrite skipn_app, Nat.sub_diag, skipn_all, skipn_O, app_nil_l.
      f_equal. apply IH; auto.
      + replace (i + 1 + N.of_nat (length ss))%N with (i + N.pos (Pos.of_succ_nat (length ss)))%N by lia. exact Hb.
      + rewrite app_length in *. lia.
  Qed.

  (* ... and something non-empty after full segments starts at least one more segment *)
  Lemma segs_len_lb ss : forall fuel i r,
    full_from i ss -> r <> [] -> length (concat ss ++ r) <= fuel ->
    length ss + 1 <= length (segs_from seg off fuel i (concat ss ++ r)).
  Proof.
    induction ss as [|s ss IH]; intros fuel i r Hf Hr Hfuel; simpl in *.
    - pose proof (segs_from_ne fuel i r). destruct (segs_from seg off fuel i r); [congruence|simpl; lia].
    - destruct Hf as [H1 H2]. pose proof (L_pos i) as HL.
      assert (Hrl : 0 < length r) by (destruct r; [congruence|simpl; lia]).
      rewrite <- app_assoc in *. rewrite app_length in Hfuel.
      destruct fuel as [|f]; [lia|]. simpl.
      rewrite app_length. rewrite app_length.
      destruct (Nat.leb_spec (length s + (length (concat ss) + length r)) (L i)); [lia|].
      rewrite <- H1. rewrite skipn_app, Nat.sub_diag, skipn_all, skipn_O, app_nil_l.
      simpl. apply le_n_S. apply IH; auto. rewrite app_length in *. lia.
  Qed.
End Segmentation.

(* ------------------------------------------------------------------ *)
(* encodings                                                           *)
(* ------------------------------------------------------------------ *)
Section Encoding.
  Variable encs : bytes -> bytes -> bytes.
  Variable ns : nat.
  Variable pre : bytes.

  (* all segments encrypted as non-last *)
  Fixpoint enc_nl (i : N) (ss : list bytes) : bytes :=
    match ss with
    | [] => []
    | s :: r => encs (nonce_of ns pre i false) s ++ enc_nl (i + 1)%N r
    end.

  Lemma enc_from_cons i s r : r <> [] ->
    enc_from encs ns pre i (s :: r) = encs (nonce_of ns pre i false) s ++ enc_from encs ns pre (i + 1)%N r.
  Proof. destruct r; [congruence|reflexivity]. Qed.

  Lemma enc_from_snoc ss : forall i b,
    enc_from encs ns pre i (ss ++ [b]) =
    enc_nl i ss ++ encs (nonce_of ns pre (i + N.of_nat (length ss))%N true) b.
  Proof.
    induction ss as [|s ss IH]; intros i b.
    - simpl. rewrite N.add_0_r. reflexivity.
    - change ((s :: ss) ++ [b]) with (s :: (ss ++ [b])).
      rewrite enc_from_cons by (destruct ss; discriminate).
      rewrite IH. simpl enc_nl. rewrite <- app_assoc.
      replace (i + 1 + N.of_nat (length ss))%N with (i + N.of_nat (length (s :: ss)))%N
        by (simpl length; lia). reflexivity.
  Qed.

  Lemma enc_nl_snoc ss : forall i b,
    enc_nl i (ss ++ [b]) = enc_nl i ss ++ encs (nonce_of ns pre (i + N.of_nat (length ss))%N false) b.
  Proof.
    induction ss as [|s ss IH]; intros i b; simpl.
    - rewrite N.add_0_r, app_nil_r. reflexivity.
    - rewrite IH, <- app_assoc.
      replace (i + 1 + N.of_nat (length ss))%N with (i + N.pos (Pos.of_succ_nat (length ss)))%N by lia.
      reflexivity.
  Qed.
End Encoding.

(* ------------------------------------------------------------------ *)
(* sink                                                                *)
(* ------------------------------------------------------------------ *)
Lemma sink_write_ok k c k' : sink_write k c = (k', true) ->
  sout k' = sout k ++ c /\ sfail k' = sfail k /\
  (forall f, sfail k = Some f -> length (sout k') <= f).
Proof.
  unfold sink_write. destruct (sfail k) as [f|] eqn:E.
  - destruct (Nat.leb_spec (length (sout k) + length c) f); intros HH; inversion HH; subst; simpl.
    repeat split; auto. intros f0 Hf. inversion Hf; subst. rewrite app_length. lia.
  - intros HH; inversion HH; subst; simpl. repeat split; auto. discriminate.
Qed.

Lemma sink_write_fail k c k' : sink_write k c = (k', false) -> sfail k <> None /\ sfail k' = sfail k.
Proof.
  unfold sink_write. destruct (sfail k) as [f|] eqn:E.
  - destruct (_ <=? _); intros HH; inversion HH; subst; simpl. split; [discriminate|reflexivity].
  - intros HH; inversion HH.
Qed.

(* ------------------------------------------------------------------ *)
(* Writer: write-partition independence and fault surfacing            *)
(* ------------------------------------------------------------------ *)
Section WriterProofs.
  Variable encs : bytes -> bytes -> bytes.
  Variable P : wparams.
  Hypothesis Hpos : 0 < w_seg P - w_off P.
  Local Notation L := (lim (w_seg P) (w_off P)).
  Local Notation segs := (segments (w_seg P) (w_off P)).
  Local Notation ENL := (enc_nl encs (w_nonce_size P) (w_prefix P)).
  Local Notation ENC := (encode_stream encs (w_nonce_size P) (w_prefix P) (w_seg P) (w_off P)).

  Lemma wlim_L c : wlim P c = Some (L c).
  Proof.
    unfold wlim, lim. destruct (c =? 0)%N; [|reflexivity].
    destruct (Nat.leb_spec (w_off P) (w_seg P)); [reflexivity|lia].
  Qed.

  (* st has accepted plaintext q; ne = what is known when the buffer is empty after a flush *)
  Definition WInvG (ne : Prop) (base : bytes) (F : option nat) (st : wst) (q : bytes) : Prop :=
    exists ss, full_from (w_seg P) (w_off P) 0%N ss /\ q = concat ss ++ wbuf st /\
      wcnt st = N.of_nat (length ss) /\ length (wbuf st) <= L (wcnt st) /\
      (ss <> [] -> wbuf st = [] -> ne) /\
      sout (wsink st) = base ++ ENL 0%N ss /\ wclosed st = false /\ sfail (wsink st) = F.

  Lemma WInvG_weaken (ne ne' : Prop) base F st q : (ne -> ne') -> WInvG ne base F st q -> WInvG ne' base F st q.
  Proof. intros H (ss & A & B & C & D & E & G). exists ss. repeat split; tauto. Qed.

  Lemma wloop_spec : forall fuel st p pos q rest base F,
    WInvG (p <> []) base F st q ->
    (N.of_nat (length (segs (q ++ p ++ rest))) <= max_segments)%N ->
    length p + 1 + (if length (wbuf st) <? L (wcnt st) then 0 else 1) <= fuel ->
    exists st',
      (wloop encs fuel P st p pos = (st', WOk (pos + length p)) /\ WInvG False base F st' (q ++ p))
      \/ (exists n, wloop encs fuel P st p pos = (st', WErr n) /\ F <> None).
  Proof.
    induction fuel as [|f IH]; intros st p pos q rest base F Hinv Hbound Hfuel.
    - destruct (length (wbuf st) <? L (wcnt st)); lia.
    - destruct Hinv as (ss & Hfull & Hq & Hcnt & Hlen & Hne & Hout & Hcl & Hsf).
      cbn [wloop]. rewrite wlim_L.
      destruct (Nat.ltb_spec (L (wcnt st)) (length (wbuf st))) as [Hx|_]; [lia|].
      set (n := Nat.min (L (wcnt st) - length (wbuf st)) (length p)).
      destruct (skipn n p) as [|b p2] eqn:Esk.
      + (* everything fits *)
        assert (Hn : n = length p).
        { assert (length (skipn n p) = 0) by (rewrite Esk; reflexivity).
          rewrite skipn_length in H. unfold n in *. lia. }
        rewrite Hn, firstn_all. eexists. left. split; [reflexivity|].
        exists ss. cbn [wbuf wcnt wclosed wsink]. repeat split; auto.
        * rewrite Hq, app_assoc. reflexivity.
        * rewrite app_length. unfold n in Hn. lia.
        * intros Hss Hb. apply app_eq_nil in Hb. destruct Hb as [Hb1 Hb2]. apply (Hne Hss Hb1 Hb2).
      + (* the buffer is full and more data follows: flush *)
        assert (Hsl : length (skipn n p) = length p - n) by apply skipn_length.
        rewrite Esk in Hsl. simpl length in Hsl.
        assert (Hn : n = L (wcnt st) - length (wbuf st)) by (unfold n in *; lia).
        set (fb := wbuf st ++ firstn n p).
        assert (Hfb : length fb = L (wcnt st)).
        { unfold fb. rewrite app_length, firstn_length. lia. }
        assert (Hfull' : full_from (w_seg P) (w_off P) 0%N (ss ++ [fb])).
        { apply full_from_app; auto. rewrite Hfb, Hcnt. reflexivity. }
        assert (Hsplit : q ++ p ++ rest = concat (ss ++ [fb]) ++ (b :: p2) ++ rest).
        { rewrite concat_app. simpl concat. rewrite app_nil_r. unfold fb. rewrite Hq.
          rewrite <- (firstn_skipn n p) at 1. rewrite Esk. rewrite <- !app_assoc. reflexivity. }
        assert (Hc : (wcnt st < max_segments)%N).
        { pose proof (segs_len_lb (w_seg P) (w_off P) Hpos (ss ++ [fb]) (length (q ++ p ++ rest)) 0%N
                        ((b :: p2) ++ rest) Hfull') as Hlb.
          rewrite <- Hsplit in Hlb. unfold segments in Hbound.
          specialize (Hlb ltac:(discriminate) ltac:(lia)).
          rewrite app_length in Hlb. simpl length in Hlb. lia. }
        rewrite (gen_nonce_some _ _ _ _ Hc).
        cbn [wbuf wcnt wclosed wsink]. fold fb.
        destruct (sink_write (wsink st) (encs (nonce_of (w_nonce_size P) (w_prefix P) (wcnt st) false) fb))
          as [k' [|]] eqn:Esw.
        * apply sink_write_ok in Esw. destruct Esw as (Ho & Hf' & _).
          set (st2 := mkW [] (wcnt st + 1)%N (wclosed st) k').
          assert (HL2 : 0 < L (wcnt st2)) by (apply L_pos; exact Hpos).
          destruct (IH st2 (b :: p2) (pos + n) (q ++ firstn n p) rest base F) as (st' & Hres).
          -- exists (ss ++ [fb]). unfold st2; cbn [wbuf wcnt wclosed wsink]. repeat split; auto.
             ++ rewrite concat_app. simpl concat. rewrite !app_nil_r. unfold fb. rewrite Hq, app_assoc. reflexivity.
             ++ rewrite app_length. simpl length. lia.
             ++ simpl. lia.
             ++ intros _ _. discriminate.
             ++ rewrite Ho, Hout, enc_nl_snoc, <- app_assoc, Hcnt. reflexivity.
             ++ congruence.
          -- rewrite <- app_assoc. rewrite <- Esk. rewrite (app_assoc (firstn n p)), firstn_skipn. exact Hbound.
          -- change (wbuf st2) with (@nil N). cbn [length].
             destruct (Nat.ltb_spec 0 (L (wcnt st2))); [|lia].
             destruct (Nat.ltb_spec (length (wbuf st)) (L (wcnt st))); lia.
          -- exists st'. destruct Hres as [[Hr Hi]|(m & Hr & HF)].
             ++ left. split.
                ** rewrite Hr. f_equal. f_equal. simpl length. lia.
                ** rewrite <- app_assoc in Hi. rewrite <- Esk, firstn_skipn in Hi. exact Hi.
             ++ right. exists m. auto.
        * apply sink_write_fail in Esw. destruct Esw as (Hnn & _).
          eexists. right. eexists. split; [reflexivity|congruence].
  Qed.

  Lemma wwrite_spec st p q rest base F :
    WInvG False base F st q ->
    (N.of_nat (length (segs (q ++ p ++ rest))) <= max_segments)%N ->
    exists st',
      (wwrite encs P st p = (st', WOk (length p)) /\ WInvG False base F st' (q ++ p))
      \/ (exists n, wwrite encs P st p = (st', WErr n) /\ F <> None).
  Proof.
    intros Hinv Hb. unfold wwrite.
    assert (Hcl : wclosed st = false) by (destruct Hinv as (ss & H); tauto).
    rewrite Hcl.
    apply (wloop_spec (length p + 2) st p 0 q rest base F); auto.
    - eapply WInvG_weaken; [|exact Hinv]. tauto.
    - destruct (_ <? _); lia.
  Qed.

  Definition all_ok (chunks : list bytes) (rs : list wres) : Prop :=
    rs = map (fun c => WOk (length c)) chunks.

  Lemma wwrites_spec : forall chunks st q base F,
    WInvG False base F st q ->
    (N.of_nat (length (segs (q ++ concat chunks))) <= max_segments)%N ->
    let '(st', rs) := wwrites encs P st chunks in
    (all_ok chunks rs /\ WInvG False base F st' (q ++ concat chunks))
    \/ (F <> None /\ exists n, In (WErr n) rs).
  Proof.
    induction chunks as [|c cs IH]; intros st q base F Hinv Hb; cbn [wwrites concat].
    - left. rewrite app_nil_r. split; [reflexivity|exact Hinv].
    - cbn [concat] in Hb.
      destruct (wwrite_spec st c q (concat cs) base F Hinv Hb) as (st1 & [[Hr Hi]|(n & Hr & HF)]); rewrite Hr.
      + specialize (IH st1 (q ++ c) base F Hi). rewrite <- app_assoc in IH. specialize (IH Hb).
        destruct (wwrites encs P st1 cs) as (st2, rs).
        destruct IH as [[Ha Hi2]|[HF (n & Hn)]].
        * left. split; [unfold all_ok in *; simpl; congruence | exact Hi2].
        * right. split; [exact HF|]. exists n. right. exact Hn.
      + destruct (wwrites encs P st1 cs) as (st2, rs). right. split; [exact HF|]. exists n. left. reflexivity.
  Qed.

  Lemma wclose_spec st q base F :
    WInvG False base F st q ->
    (N.of_nat (length (segs q)) <= max_segments)%N ->
    exists st',
      (wclose encs P st = (st', true) /\ sout (wsink st') = base ++ ENC q /\ wclosed st' = true /\
       (forall f, F = Some f -> length (sout (wsink st')) <= f))
      \/ (wclose encs P st = (st', false) /\ F <> None).
  Proof.
    intros (ss & Hfull & Hq & Hcnt & Hlen & Hne & Hout & Hcl & Hsf) Hb.
    assert (Hsegs : segs q = ss ++ [wbuf st]).
    { unfold segments. rewrite Hq. apply segs_from_app; auto.
      all: try (rewrite N.add_0_l, <- Hcnt; exact Hlen).
      all: try (intros H1 H2; exact (Hne H1 H2)). }
    rewrite Hsegs, app_length in Hb. simpl length in Hb.
    unfold wclose. rewrite Hcl. rewrite gen_nonce_some by lia.
    destruct (sink_write (wsink st) _) as [k' [|]] eqn:Esw.
    - apply sink_write_ok in Esw. destruct Esw as (Ho & Hf' & Hle).
      eexists. left. split; [reflexivity|]. cbn [wsink wclosed]. repeat split.
      + unfold encode_stream. rewrite Hsegs, enc_from_snoc, Ho, Hout, <- app_assoc, Hcnt. reflexivity.
      + intros f HF. apply Hle. congruence.
    - apply sink_write_fail in Esw. eexists. right. split; [reflexivity|]. destruct Esw. congruence.
  Qed.

  Lemma winv_init k : WInvG False (sout k) (sfail k) (mkW [] 0%N false k) [].
  Proof.
    exists []. cbn. repeat split; auto; try lia. rewrite app_nil_r. reflexivity.
  Qed.

  (* (a) for every list of Write arguments followed by Close *)
  Theorem write_partition_independent : forall k chunks st0,
    sfail k = None ->
    (N.of_nat (length (segs (concat chunks))) <= max_segments)%N ->
    new_writer P k = Some st0 ->
    let '(st1, rs) := wwrites encs P st0 chunks in
    let '(st2, ok) := wclose encs P st1 in
    all_ok chunks rs /\ ok = true /\ wclosed st2 = true /\
    sout (wsink st2) = sout k ++ ENC (concat chunks).
  Proof.
    intros k chunks st0 Hk Hb Hnew. unfold new_writer in Hnew.
    destruct (_ <? 5); [discriminate|]. inversion Hnew; subst st0; clear Hnew.
    pose proof (wwrites_spec chunks _ [] _ _ (winv_init k) Hb) as Hw.
    destruct (wwrites encs P (mkW [] 0%N false k) chunks) as (st1, rs).
    destruct Hw as [[Ha Hi]|[HF _]]; [|congruence].
    cbn [app] in Hi.
    destruct (wclose_spec st1 _ _ _ Hi Hb) as (st2 & [(Hc & Ho & Hcl & _)|(Hc & HF)]); [|congruence].
    rewrite Hc. auto.
  Qed.

  (* (d) a sink that cannot take the whole stream makes some call fail *)
  Theorem writer_fault_surfaces : forall k f chunks st0,
    sfail k = Some f -> f < length (sout k) + length (ENC (concat chunks)) ->
    (N.of_nat (length (segs (concat chunks))) <= max_segments)%N ->
    new_writer P k = Some st0 ->
    let '(st1, rs) := wwrites encs P st0 chunks in
    let '(st2, ok) := wclose encs P st1 in
    (exists n, In (WErr n) rs) \/ ok = false.
  Proof.
    intros k f chunks st0 Hk Hf Hb Hnew. unfold new_writer in Hnew.
    destruct (_ <? 5); [discriminate|]. inversion Hnew; subst st0; clear Hnew.
    pose proof (wwrites_spec chunks _ [] _ _ (winv_init k) Hb) as Hw.
    destruct (wwrites encs P (mkW [] 0%N false k) chunks) as (st1, rs).
    destruct Hw as [[Ha Hi]|[HF Hn]]; [|destruct (wclose encs P st1); left; exact Hn].
    cbn [app] in Hi.
    destruct (wclose_spec st1 _ _ _ Hi Hb) as (st2 & [(Hc & Ho & Hcl & Hle)|(Hc & HF)]); rewrite Hc.
    - exfalso. specialize (Hle f Hk). rewrite Ho, app_length in Hle. lia.
    - right. reflexivity.
  Qed.
End WriterProofs.

(* ------------------------------------------------------------------ *)
(* io.ReadFull over the modelled source                                *)
(* ------------------------------------------------------------------ *)
Lemma read_full_cases s want :
  (want <= length (srem s) /\ read_full s want = (src_adv s want, firstn want (srem s), RFok))
  \/ (sfailr s <> None /\ exists s' g, read_full s want = (s', g, RFfail))
  \/ (length (srem s) < want /\ exists k, (k = RFeof \/ k = RFuneof) /\
      read_full s want = (src_adv s (length (srem s)), srem s, k)).
Proof.
  unfold read_full. destruct (sfailr s) as [k|] eqn:Ef.
  - destruct (Nat.leb_spec want (Nat.min k (length (srem s)))) as [H|H].
    + left. split; [lia|reflexivity].
    + destruct (Nat.leb_spec k (length (srem s))) as [H2|H2].
      * right. left. split; [discriminate|]. eauto.
      * right. right. rewrite Nat.min_r in * by lia. split; [lia|].
        rewrite firstn_all. destruct (length (srem s) =? 0); eauto.
  - destruct (Nat.leb_spec want (length (srem s))) as [H|H].
    + left. split; [lia|reflexivity].
    + right. right. split; [lia|]. rewrite firstn_all. destruct (length (srem s) =? 0); eauto.
Qed.

Lemma skipn_skipn' {A} (l : list A) : forall a b, skipn a (skipn b l) = skipn (b + a) l.
Proof.
  induction l as [|x l IH]; intros a b.
  - now rewrite !skipn_nil.
  - destruct b; cbn; [reflexivity|]. apply IH.
Qed.

(* ------------------------------------------------------------------ *)
(* Reader: read-partition independence, fault surfacing                *)
(* ------------------------------------------------------------------ *)
Section ReaderProofs.
  Variable encs : bytes -> bytes -> bytes.
  Variable decs : bytes -> bytes -> option bytes.
  Variable P : rparams.
  Variable seg ov : nat.            (* plaintext segment size, ciphertext overhead per segment *)
  Hypothesis Hct : r_ctseg P = seg + ov.
  Hypothesis Hpos : 0 < seg - r_off P.
  Hypothesis Hov : 0 < ov.
  Hypothesis Hlen : forall n s, length (encs n s) = length s + ov.
  Hypothesis Hdec : forall n s, decs n (encs n s) = Some s.
  Local Notation off := (r_off P).
  Local Notation L := (lim seg off).
  Local Notation ENCF := (enc_from encs (r_nonce_size P) (r_prefix P)).
  Local Notation NONCE := (nonce_of (r_nonce_size P) (r_prefix P)).
  Local Notation WF := (wf_from seg off).
  Local Notation READ := (read decs read_full P).

  Lemma rlim_L c : rlim P c = Some (L c + ov + 1).
  Proof.
    unfold rlim, lim. rewrite Hct. destruct (c =? 0)%N; [|reflexivity].
    destruct (Nat.leb_spec off (seg + ov + 1)); [f_equal; lia|lia].
  Qed.

  Definition msr (cur : bytes) (rest : list bytes) : nat :=
    length cur + length (concat rest) + length rest.

  (* remaining plaintext = rest of the current segment ++ all later segments *)
  Definition Rel (fl : bool) (st : rst src) (cur : bytes) (rest : list bytes) : Prop :=
    skipn (rpos st) (rpt st) = cur /\ rpos st <= length (rpt st) /\
    (fl = false -> sfailr (rsrc st) = None) /\
    (if rlast st then rest = []
     else WF (rcnt st) rest /\
          rcarry st ++ srem (rsrc st) = ENCF (rcnt st) rest /\
          ((rcnt st = 0)%N -> rcarry st = []) /\ ((rcnt st <> 0)%N -> length (rcarry st) = 1) /\
          (rcnt st + N.of_nat (length rest) <= max_segments)%N).

  Lemma src_adv_fail fl s n : (fl = false -> sfailr s = None) -> (fl = false -> sfailr (src_adv s n) = None).
  Proof. intros H Hf. unfold src_adv. simpl. rewrite (H Hf). reflexivity. Qed.

  Lemma encf_cons2_len i (s2 : bytes) rest :
    exists x tl, ENCF (i + 1)%N (s2 :: rest) = x :: tl.
  Proof.
    destruct (ENCF (i + 1)%N (s2 :: rest)) as [|x tl] eqn:E; [|eauto].
    exfalso. apply (f_equal (@length N)) in E.
    destruct rest; cbn [enc_from] in E; [|rewrite app_length in E]; rewrite Hlen in E; simpl in E; lia.
  Qed.

  Lemma read_step fl st cur rest n : Rel fl st cur rest ->
    let '(st', r) := READ st n in
    match r with
    | RPanic => False
    | RErr => fl = true
    | REof => cur = [] /\ rest = []
    | RData b => exists cur' rest',
        cur ++ concat rest = b ++ cur' ++ concat rest' /\ Rel fl st' cur' rest' /\
        (msr cur' rest' <= msr cur rest) /\ (0 < n -> msr cur' rest' < msr cur rest)
    end.
  Proof.
    intros (Hcur & Hposn & Hfl & Hrest). unfold read.
    destruct (Nat.ltb_spec (rpos st) (length (rpt st))) as [Hlt|Hge].
    - (* serve from the current segment *)
      set (k := Nat.min n (length (rpt st) - rpos st)).
      exists (skipn k cur), rest. split; [|split; [|split]].
      + rewrite <- Hcur. rewrite app_assoc. f_equal. symmetry. apply firstn_skipn.
      + unfold Rel; cbn [rpt rpos rcarry rcnt rlast rsrc]. split; [|split; [|split]]; auto.
        * rewrite <- Hcur. rewrite skipn_skipn'. reflexivity.
        * unfold k; lia.
      + unfold msr. rewrite skipn_length. lia.
      + intros Hn. unfold msr. rewrite skipn_length. rewrite <- Hcur, skipn_length. unfold k. lia.
    - assert (Hc0 : cur = []) by (rewrite <- Hcur; apply skipn_all2; lia).
      destruct (rlast st) eqn:Eld.
      + split; [exact Hc0 | exact Hrest].
      + destruct Hrest as (Hwf & Hsrc & Hc1 & Hc2 & Hbnd).
        rewrite Hc0. clear Hc0 Hcur cur. rewrite rlim_L.
        assert (Hcl : length (rcarry st) <= 1).
        { destruct (N.eq_dec (rcnt st) 0) as [E|E]; [rewrite (Hc1 E); simpl; lia | rewrite (Hc2 E); lia]. }
        destruct (Nat.ltb_spec (L (rcnt st) + ov + 1) (length (rcarry st))) as [Hx|_]; [lia|].
        set (want := L (rcnt st) + ov + 1 - length (rcarry st)).
        destruct rest as [|s rest]; [destruct Hwf|].
        assert (Hcnt : (rcnt st < max_segments)%N) by (simpl length in Hbnd; lia).
        destruct rest as [|s2 rest].
        * (* s is the last segment: the source runs out *)
          cbn [wf_from enc_from] in Hwf, Hsrc.
          assert (Hsl : length (srem (rsrc st)) < want).
          { assert (length (rcarry st ++ srem (rsrc st)) = length s + ov) by (rewrite Hsrc; apply Hlen).
            rewrite app_length in H. unfold want. lia. }
          destruct (read_full_cases (rsrc st) want) as [(H1 & _)|[(Hnn & s' & g & Hr)|(_ & kk & Hk & Hr)]]; [lia| |].
          -- rewrite Hr. destruct fl; [reflexivity|]. exfalso. apply Hnn. auto.
          -- rewrite Hr.
             assert (Elast : match kk with RFok => false | _ => true end = true) by (destruct Hk; subst; reflexivity).
             assert (Hkk : match kk with
                           | RFfail => (mkR [] 0 (rcarry st) (rcnt st) (rlast st) (src_adv (rsrc st) (length (srem (rsrc st)))), RErr)
                           | _ => READ st n end = READ st n) by (destruct Hk; subst; reflexivity).
             clear Hkk.
             destruct Hk as [-> | ->]; cbn [negb andb];
             rewrite Hsrc, (gen_nonce_some _ _ _ _ Hcnt), Hdec;
             (exists (skipn (Nat.min n (length s)) s), []; split; [|split; [|split]];
              [ cbn [concat app]; rewrite !app_nil_r; symmetry; apply firstn_skipn
              | unfold Rel; cbn [rpt rpos rcarry rcnt rlast rsrc]; split; [|split; [|split]];
                [reflexivity | lia | apply src_adv_fail; exact Hfl | reflexivity]
              | unfold msr; cbn [concat length app]; rewrite skipn_length, app_nil_r; lia
              | intros _; unfold msr; cbn [concat length app]; rewrite skipn_length, app_nil_r; lia ]).
        * (* s is not last: a full buffer plus the look-ahead byte is available *)
          destruct Hwf as (Hls & Hwf').
          destruct (encf_cons2_len (rcnt st) s2 rest) as (x & tl & Etl).
          assert (Hsrc' : rcarry st ++ srem (rsrc st) = encs (NONCE (rcnt st) false) s ++ x :: tl).
          { rewrite Hsrc. rewrite enc_from_cons by discriminate. rewrite Etl. reflexivity. }
          assert (Hsl : want <= length (srem (rsrc st))).
          { apply (f_equal (@length N)) in Hsrc'. rewrite !app_length, Hlen in Hsrc'. simpl in Hsrc'.
            unfold want. lia. }
          destruct (read_full_cases (rsrc st) want) as [(_ & Hr)|[(Hnn & s' & g & Hr)|(H1 & _)]]; [| |lia].
          2:{ rewrite Hr. destruct fl; [reflexivity|]. exfalso. apply Hnn. auto. }
          rewrite Hr. cbn [negb andb].
          assert (Hbuf : rcarry st ++ firstn want (srem (rsrc st)) = encs (NONCE (rcnt st) false) s ++ [x]).
          { assert (E : rcarry st ++ firstn want (srem (rsrc st)) =
                        firstn (length (rcarry st) + want) (rcarry st ++ srem (rsrc st)))
              by (rewrite firstn_app_2; reflexivity).
            rewrite E, Hsrc'.
            replace (length (rcarry st) + want) with (length (encs (NONCE (rcnt st) false) s) + 1)
              by (rewrite Hlen; unfold want; lia).
            rewrite firstn_app_2. reflexivity. }
          rewrite Hbuf.
          assert (Hnz : (length (encs (NONCE (rcnt st) false) s ++ [x]) =? 0) = false)
            by (apply Nat.eqb_neq; rewrite app_length; simpl; lia).
          rewrite Hnz. rewrite removelast_last, (gen_nonce_some _ _ _ _ Hcnt), Hdec.
          exists (skipn (Nat.min n (length s)) s), (s2 :: rest). split; [|split; [|split]].
          -- change (concat (s :: s2 :: rest)) with (s ++ concat (s2 :: rest)).
             rewrite app_nil_l, app_assoc, firstn_skipn. reflexivity.
          -- unfold Rel; cbn [rpt rpos rcarry rcnt rlast rsrc]. split; [|split; [|split]];
               [reflexivity | lia | apply src_adv_fail; exact Hfl |].
             split; [exact Hwf'|]. split; [|split; [lia|split; [reflexivity|]]].
             ++ rewrite last_last. rewrite Etl. cbn [src_adv srem].
                assert (E2 : skipn want (srem (rsrc st)) =
                             skipn (length (rcarry st) + want) (rcarry st ++ srem (rsrc st))).
                { rewrite skipn_app. rewrite (skipn_all2 (n := length (rcarry st) + want) (rcarry st)) by lia.
                  replace (length (rcarry st) + want - length (rcarry st)) with want by lia. reflexivity. }
                rewrite E2, Hsrc'.
                replace (length (rcarry st) + want) with (length (encs (NONCE (rcnt st) false) s) + 1)
                  by (rewrite Hlen; unfold want; lia).
                rewrite skipn_app.
                rewrite (skipn_all2 (n := length (encs (NONCE (rcnt st) false) s) + 1)) by lia.
                replace (length (encs (NONCE (rcnt st) false) s) + 1 - length (encs (NONCE (rcnt st) false) s)) with 1 by lia.
                reflexivity.
             ++ simpl length in *. lia.
          -- unfold msr. change (concat (s :: s2 :: rest)) with (s ++ concat (s2 :: rest)).
             rewrite skipn_length, app_length. cbn [length]. lia.
          -- intros _. unfold msr. change (concat (s :: s2 :: rest)) with (s ++ concat (s2 :: rest)).
             rewrite skipn_length, app_length. cbn [length]. lia.
  Qed.

  Local Notation DRIVE := (drive decs read_full P).

  Lemma drive_spec fl : forall sizes st cur rest acc,
    Rel fl st cur rest ->
    let '(outb, f) := DRIVE sizes st acc in
    f <> Panicked /\ (f = Failed -> fl = true) /\
    (f = AtEof -> outb = acc ++ cur ++ concat rest) /\
    (exists tl, acc ++ cur ++ concat rest = outb ++ tl) /\
    (Forall (fun n => 0 < n) sizes -> msr cur rest < length sizes -> f <> Pending).
  Proof.
    induction sizes as [|n ns IH]; intros st cur rest acc HR; cbn [drive].
    - repeat split; try discriminate.
      + eexists; reflexivity.
      + intros _ H. simpl in H. lia.
    - pose proof (read_step fl st cur rest n HR) as Hs.
      destruct (READ st n) as (st', r). destruct r as [b| | |].
      + destruct Hs as (cur' & rest' & Heq & HR' & Hm1 & Hm2).
        specialize (IH st' cur' rest' (acc ++ b) HR').
        destruct (DRIVE ns st' (acc ++ b)) as (outb, f).
        destruct IH as (H1 & H2 & H3 & (tl & H4) & H5).
        split; [exact H1|]. split; [exact H2|]. split; [|split].
        * intros Hf. rewrite (H3 Hf), Heq, <- !app_assoc. reflexivity.
        * exists tl. rewrite Heq, <- H4, <- !app_assoc. reflexivity.
        * intros HF Hlt. inversion HF; subst. apply H5; auto. simpl in Hlt. specialize (Hm2 ltac:(assumption)). lia.
      + destruct Hs as (-> & ->). repeat split; try discriminate.
        * intros _. cbn. rewrite app_nil_r. reflexivity.
        * exists []. cbn. rewrite !app_nil_r. reflexivity.
      + repeat split; try discriminate; auto. eexists; reflexivity.
      + destruct Hs.
  Qed.

  Lemma rel_init fl F ss :
    WF 0%N ss -> (N.of_nat (length ss) <= max_segments)%N -> (fl = false -> F = None) ->
    Rel fl (mkR [] 0 [] 0%N false (mkSrc (ENCF 0%N ss) F)) [] ss.
  Proof.
    intros Hwf Hb HF. unfold Rel; cbn. repeat split; auto; try lia; try congruence.
  Qed.

  Local Notation ENC := (encode_stream encs (r_nonce_size P) (r_prefix P) seg off).
  Local Notation segs := (segments seg off).

  (* (b) every sequence of Read sizes over the honest stream *)
  Theorem read_partition_independent : forall sizes p st0,
    (N.of_nat (length (segs p)) <= max_segments)%N ->
    new_reader P (mkSrc (ENC p) None) = Some st0 ->
    let '(outb, f) := DRIVE sizes st0 [] in
    (f = AtEof \/ f = Pending) /\ (f = AtEof -> outb = p) /\ (exists tl, p = outb ++ tl) /\
    (Forall (fun n => 0 < n) sizes -> length p + length (segs p) < length sizes -> f = AtEof).
  Proof.
    intros sizes p st0 Hb Hnew. unfold new_reader in Hnew.
    destruct (_ <? 5); [discriminate|]. inversion Hnew; subst st0; clear Hnew.
    pose proof (drive_spec false sizes _ [] (segs p) []
                  (rel_init false None (segs p) (segments_wf seg off Hpos p) Hb (fun _ => eq_refl))) as H.
    unfold encode_stream.
    destruct (DRIVE sizes _ []) as (outb, f).
    destruct H as (H1 & H2 & H3 & (tl & H4) & H5).
    cbn [app] in *. rewrite (segments_concat seg off p) in *.
    assert (Hf : f = AtEof \/ f = Pending).
    { destruct f; auto; [specialize (H2 eq_refl); discriminate | congruence]. }
    split; [exact Hf|]. split; [exact H3|]. split; [eauto|].
    intros HF Hl. destruct Hf as [Hf|Hf]; [exact Hf|]. exfalso. apply (H5 HF); [|exact Hf].
    unfold msr. cbn [length]. rewrite (segments_concat seg off p). lia.
  Qed.

  (* (d) the honest stream read from a source that fails persistently at byte k *)
  Theorem reader_fault_prefix : forall sizes p k st0,
    (N.of_nat (length (segs p)) <= max_segments)%N ->
    new_reader P (mkSrc (ENC p) (Some k)) = Some st0 ->
    let '(outb, f) := DRIVE sizes st0 [] in
    f <> Panicked /\ (exists tl, p = outb ++ tl) /\ (f = AtEof -> outb = p) /\
    (Forall (fun n => 0 < n) sizes -> length p + length (segs p) < length sizes -> f <> Pending).
  Proof.
    intros sizes p k st0 Hb Hnew. unfold new_reader in Hnew.
    destruct (_ <? 5); [discriminate|]. inversion Hnew; subst st0; clear Hnew.
    pose proof (drive_spec true sizes _ [] (segs p) []
                  (rel_init true (Some k) (segs p) (segments_wf seg off Hpos p) Hb ltac:(discriminate))) as H.
    unfold encode_stream.
    destruct (DRIVE sizes _ []) as (outb, f).
    destruct H as (H1 & H2 & H3 & (tl & H4) & H5).
    cbn [app] in *. rewrite (segments_concat seg off p) in *.
    split; [exact H1|]. split; [eauto|]. split; [exact H3|].
    intros HF Hl. apply (H5 HF). unfold msr. cbn [length]. rewrite (segments_concat seg off p). lia.
  Qed.
End ReaderProofs.

(* a reader whose source fails persistently can never report a clean end of
   stream, whatever the data, parameters and segment cipher *)
Section ReaderFault.
  Variable decs : bytes -> bytes -> option bytes.
  Variable P : rparams.

  Definition Faulty (st : rst src) : Prop :=
    rlast st = false /\ exists k, sfailr (rsrc st) = Some k /\ k <= length (srem (rsrc st)).

  Lemma read_full_faulty s want k : sfailr s = Some k -> k <= length (srem s) ->
    let '(s', g, r) := read_full s want in
    (r = RFok \/ r = RFfail) /\ exists k', sfailr s' = Some k' /\ k' <= length (srem s').
  Proof.
    intros Hk Hle. unfold read_full. rewrite Hk. rewrite Nat.min_l by lia.
    destruct (Nat.leb_spec want k).
    - split; [auto|]. unfold src_adv. rewrite Hk. simpl. eexists. split; [reflexivity|]. rewrite skipn_length. lia.
    - destruct (Nat.leb_spec k (length (srem s))); [|lia].
      split; [auto|]. unfold src_adv. rewrite Hk. simpl. eexists. split; [reflexivity|]. rewrite skipn_length. lia.
  Qed.

  Lemma read_faulty st n : Faulty st ->
    let '(st', r) := read decs read_full P st n in r <> REof /\ Faulty st'.
  Proof.
    intros (Hl & k & Hk & Hle). unfold read.
    destruct (rpos st <? length (rpt st)).
    - split; [discriminate|]. split; cbn; eauto.
    - rewrite Hl. destruct (rlim P (rcnt st)) as [ctlim|].
      2:{ split; [discriminate|]. split; cbn; eauto. }
      destruct (ctlim <? length (rcarry st)).
      { split; [discriminate|]. split; cbn; eauto. }
      pose proof (read_full_faulty (rsrc st) (ctlim - length (rcarry st)) k Hk Hle) as Hrf.
      destruct (read_full (rsrc st) (ctlim - length (rcarry st))) as ((s', got), kk).
      destruct Hrf as ([-> | ->] & k' & Hk' & Hle').
      + cbn [negb andb]. destruct (length (rcarry st ++ got) =? 0).
        { split; [discriminate|]. split; cbn; eauto. }
        destruct (gen_nonce _ _ _ _).
        2:{ split; [discriminate|]. split; cbn; eauto. }
        destruct (decs _ _); (split; [discriminate|]; split; cbn; eauto).
      + split; [discriminate|]. split; cbn; eauto.
  Qed.

  Theorem reader_fault_never_eof : forall sizes st acc,
    Faulty st -> snd (drive decs read_full P sizes st acc) <> AtEof.
  Proof.
    induction sizes as [|n ns IH]; intros st acc HF; cbn [drive]; [discriminate|].
    pose proof (read_faulty st n HF) as H.
    destruct (read decs read_full P st n) as (st', r). destruct H as (Hr & HF').
    destruct r; try (cbn; discriminate); [apply IH; exact HF' | congruence].
  Qed.
End ReaderFault.

(* ------------------------------------------------------------------ *)
(* Linking: what the Writer emits is what the Reader theorem assumes    *)
(* ------------------------------------------------------------------ *)
Section RoundTrip.
  Variable encs : bytes -> bytes -> bytes.
  Variable decs : bytes -> bytes -> option bytes.
  Variable ov : nat.
  Hypothesis Hov : 0 < ov.
  Hypothesis Hlen : forall n s, length (encs n s) = length s + ov.
  Hypothesis Hdec : forall n s, decs n (encs n s) = Some s.

  Theorem stream_roundtrip : forall WP RP base chunks sizes w0,
    r_nonce_size RP = w_nonce_size WP -> r_prefix RP = w_prefix WP ->
    r_off RP = w_off WP -> r_ctseg RP = w_seg WP + ov ->
    0 < w_seg WP - w_off WP ->
    (N.of_nat (length (segments (w_seg WP) (w_off WP) (concat chunks))) <= max_segments)%N ->
    new_writer WP (mkSink base None) = Some w0 ->
    let '(w1, rs) := wwrites encs WP w0 chunks in
    let '(w2, ok) := wclose encs WP w1 in
    all_ok chunks rs /\ ok = true /\
    exists ct, sout (wsink w2) = base ++ ct /\
    forall r0, new_reader RP (mkSrc ct None) = Some r0 ->
    let '(outb, f) := drive decs read_full RP sizes r0 [] in
    (f = AtEof \/ f = Pending) /\ (f = AtEof -> outb = concat chunks) /\
    (exists tl, concat chunks = outb ++ tl) /\
    (Forall (fun n => 0 < n) sizes ->
     length (concat chunks) + length (segments (w_seg WP) (w_off WP) (concat chunks)) < length sizes -> f = AtEof).
  Proof.
    intros WP RP base chunks sizes w0 Hns Hpre Hoff Hct Hpos Hb Hnew.
    pose proof (write_partition_independent encs WP Hpos (mkSink base None) chunks w0 eq_refl Hb Hnew) as HW.
    destruct (wwrites encs WP w0 chunks) as (w1, rs). destruct (wclose encs WP w1) as (w2, ok).
    destruct HW as (Ha & Hok & _ & Hout). split; [exact Ha|]. split; [exact Hok|].
    eexists. split; [exact Hout|]. intros r0 Hr0.
    rewrite <- Hoff in Hpos, Hb.
    pose proof (read_partition_independent encs decs RP (w_seg WP) ov Hct Hpos Hov Hlen Hdec sizes (concat chunks) r0 Hb) as HR.
    rewrite Hns, Hpre, Hoff in HR. rewrite Hoff in Hb. specialize (HR Hr0).
    destruct (drive decs read_full RP sizes r0 []) as (outb, f). rewrite <- Hoff. rewrite Hoff. exact HR.
  Qed.
End RoundTrip.

(* ------------------------------------------------------------------ *)
(* real keys: AES-GCM-HKDF and AES-CTR-HMAC over the stdlib oracles     *)
(* ------------------------------------------------------------------ *)
Lemma read_full_app a rest : read_full (mkSrc (a ++ rest) None) (length a) = (mkSrc rest None, a, RFok).
Proof.
  unfold read_full. cbn [srem sfailr]. rewrite app_length.
  destruct (Nat.leb_spec (length a) (length a + length rest)); [|lia].
  unfold src_adv. cbn [srem sfailr].
  rewrite skipn_app, Nat.sub_diag, skipn_all, skipn_O, app_nil_l.
  rewrite firstn_app, Nat.sub_diag, firstn_all, firstn_O, app_nil_r. reflexivity.
Qed.

Lemma read_full_app' a rest n : n = length a ->
  read_full (mkSrc (a ++ rest) None) n = (mkSrc rest None, a, RFok).
Proof. intros ->. apply read_full_app. Qed.

Section KeyProofs.
  Variable hkdf : hash -> bytes -> bytes -> bytes -> nat -> bytes.
  Variable gcm_seal : bytes -> bytes -> bytes -> bytes.
  Variable gcm_open : bytes -> bytes -> bytes -> option bytes.
  Variable aes_ctr : bytes -> bytes -> bytes -> bytes.
  Variable hmac : hash -> bytes -> bytes -> bytes.
  Hypothesis gcm_len : forall k n p, length (gcm_seal k n p) = length p + 16.
  Hypothesis gcm_inv : forall k n p, gcm_open k n (gcm_seal k n p) = Some p.
  Hypothesis ctr_len : forall k iv x, length (aes_ctr k iv x) = length x.
  Hypothesis ctr_inv : forall k iv x, aes_ctr k iv (aes_ctr k iv x) = x.
  Hypothesis hmac_len : forall h k m, length (hmac h k m) = digest_size h.

  Local Notation SENC := (seg_enc gcm_seal aes_ctr hmac).
  Local Notation SDEC := (seg_dec gcm_open aes_ctr hmac).

  Lemma key_valid_facts k : key_valid k = true ->
    k_foff k + hdr_len k + k_tag k < k_cseg k /\ 0 < k_tag k /\
    match k with CtrHmac _ _ _ th t _ _ => t <= digest_size th | _ => True end.
  Proof.
    intros H. unfold key_valid in H.
    apply andb_true_iff in H. destruct H as [H He].
    apply andb_true_iff in H. destruct H as [H Hd].
    apply Nat.ltb_lt in Hd. split; [exact Hd|].
    destruct k; cbn [k_tag].
    - split; [lia|exact I].
    - apply andb_true_iff in He. destruct He as [A B]. apply Nat.leb_le in A, B. split; [lia|exact B].
  Qed.

  Lemma seg_enc_len k sk n s : key_valid k = true -> length (SENC k sk n s) = length s + k_tag k.
  Proof.
    intros Hv. destruct (key_valid_facts k Hv) as (_ & _ & Ht). destruct k; simpl.
    - apply gcm_len.
    - rewrite app_length, ctr_len, firstn_length, hmac_len. lia.
  Qed.

  Lemma seg_dec_enc k sk n s : key_valid k = true -> SDEC k sk n (SENC k sk n s) = Some s.
  Proof.
    intros Hv. destruct (key_valid_facts k Hv) as (_ & _ & Ht). destruct k; simpl.
    - rewrite gcm_len. destruct (Nat.ltb_spec (length s + 16) 16); [lia|]. apply gcm_inv.
    - set (c := aes_ctr (fst sk) n s). set (t := firstn tag (hmac th (snd sk) (n ++ c))).
      assert (Htl : length t = tag) by (unfold t; rewrite firstn_length, hmac_len; lia).
      rewrite app_length, Htl.
      destruct (Nat.ltb_spec (length c + tag) tag); [lia|].
      replace (length c + tag - tag) with (length c) by lia.
      rewrite firstn_app, Nat.sub_diag, firstn_all, firstn_O, app_nil_r.
      rewrite skipn_app, Nat.sub_diag, skipn_all, skipn_O, app_nil_l.
      fold t. rewrite beq_refl. unfold c. rewrite ctr_inv. reflexivity.
  Qed.

  (* header || segments, written through any partition and read back through any partition *)
  Theorem key_roundtrip : forall k salt prefix aad chunks sizes,
    key_valid k = true -> length salt = k_dk k -> length prefix = nonce_prefix_size ->
    (N.of_nat (length (segments (k_cseg k - k_tag k) (k_foff k + hdr_len k) (concat chunks))) <= max_segments)%N ->
    match new_enc_writer hkdf k (salt ++ prefix) aad (mkSink [] None) with
    | (Some (k1, k2, pre, w0), _) =>
      (k1, k2) = derive hkdf k salt aad /\ pre = prefix /\
      let '(w1, rs) := wwrites (SENC k (k1, k2)) (k_wparams k pre) w0 chunks in
      let '(w2, ok) := wclose (SENC k (k1, k2)) (k_wparams k pre) w1 in
      all_ok chunks rs /\ ok = true /\
      sout (wsink w2) =
        header k salt prefix ++
        encode_stream (SENC k (derive hkdf k salt aad)) (k_nonce_size k) prefix
                      (k_cseg k - k_tag k) (k_foff k + hdr_len k) (concat chunks) /\
      match new_dec_reader hkdf src read_full k aad (mkSrc (sout (wsink w2)) None) with
      | (Some (k1', k2', pre', r0), _) =>
        let '(outb, f) := drive (SDEC k (k1', k2')) read_full (k_rparams k pre') sizes r0 [] in
        (f = AtEof \/ f = Pending) /\ (f = AtEof -> outb = concat chunks) /\
        (exists tl, concat chunks = outb ++ tl) /\
        (Forall (fun n => 0 < n) sizes ->
         length (concat chunks) +
         length (segments (k_cseg k - k_tag k) (k_foff k + hdr_len k) (concat chunks)) < length sizes ->
         f = AtEof)
      | (None, _) => False
      end
    | (None, _) => False
    end.
  Proof.
    intros k salt prefix aad chunks sizes Hv Hsalt Hpre Hb.
    destruct (key_valid_facts k Hv) as (Hseg & Htag & _).
    unfold new_enc_writer.
    rewrite <- Hsalt, firstn_app, Nat.sub_diag, firstn_all, firstn_O, app_nil_r.
    rewrite skipn_app, Nat.sub_diag, skipn_all, skipn_O, app_nil_l.
    rewrite <- Hpre, firstn_all.
    cbn [sink_write sfail sout app].
    assert (Hnw : new_writer (k_wparams k prefix) (mkSink (header k salt prefix) None) =
                  Some (mkW [] 0%N false (mkSink (header k salt prefix) None))).
    { unfold new_writer, k_wparams. cbn [w_nonce_size w_prefix]. rewrite Hpre.
      destruct k; reflexivity. }
    rewrite Hnw. split; [destruct (derive hkdf k salt aad); reflexivity|]. split; [reflexivity|].
    rewrite <- surjective_pairing.
    set (sk := derive hkdf k salt aad).
    assert (Hpos : 0 < w_seg (k_wparams k prefix) - w_off (k_wparams k prefix)).
    { unfold k_wparams; cbn [w_seg w_off]. lia. }
    pose proof (write_partition_independent (SENC k sk) (k_wparams k prefix) Hpos
                  (mkSink (header k salt prefix) None) chunks _ eq_refl Hb Hnw) as HW.
    destruct (wwrites (SENC k sk) (k_wparams k prefix) _ chunks) as (w1, rs).
    destruct (wclose (SENC k sk) (k_wparams k prefix) w1) as (w2, ok).
    destruct HW as (Ha & Hok & _ & Hout). cbn [sout] in Hout.
    split; [exact Ha|]. split; [exact Hok|]. split; [exact Hout|].
    rewrite Hout. unfold new_dec_reader.
    unfold header at 1. rewrite <- !app_assoc.
    rewrite (read_full_app [(N.of_nat (hdr_len k) mod 256)%N]). rewrite beq_refl. cbn [negb].
    rewrite (read_full_app' salt _ (k_dk k)) by (symmetry; exact Hsalt).
    rewrite (read_full_app' prefix _ nonce_prefix_size) by (symmetry; exact Hpre).
    assert (Hnr : forall s : src, new_reader (k_rparams k prefix) s = Some (mkR [] 0 [] 0%N false s)).
    { intros s. unfold new_reader, k_rparams. cbn [r_nonce_size r_prefix]. rewrite Hpre.
      destruct k; reflexivity. }
    rewrite Hnr. rewrite <- surjective_pairing. fold sk.
    assert (Hct : r_ctseg (k_rparams k prefix) = (k_cseg k - k_tag k) + k_tag k)
      by (unfold k_rparams; cbn [r_ctseg]; lia).
    assert (Hpos' : 0 < (k_cseg k - k_tag k) - r_off (k_rparams k prefix))
      by (unfold k_rparams; cbn [r_off]; lia).
    pose proof (read_partition_independent (SENC k sk) (SDEC k sk) (k_rparams k prefix)
                  (k_cseg k - k_tag k) (k_tag k) Hct Hpos' Htag
                  (fun n s => seg_enc_len k sk n s Hv) (fun n s => seg_dec_enc k sk n s Hv)
                  sizes (concat chunks) _ Hb (Hnr _)) as HR.
    exact HR.
  Qed.
End KeyProofs.

(* ------------------------------------------------------------------ *)
(* (e) the "too many segments" guard                                   *)
(* ------------------------------------------------------------------ *)
Lemma guard_close encs P st : (max_segments <= wcnt st)%N -> wclosed st = false ->
  wclose encs P st = (st, false).
Proof. intros H Hc. unfold wclose. rewrite Hc, gen_nonce_none by exact H. reflexivity. Qed.

Lemma guard_write encs P st p : (max_segments <= wcnt st)%N -> wclosed st = false ->
  match snd (wwrite encs P st p) with
  | WOk n => n = length p /\ wcnt (fst (wwrite encs P st p)) = wcnt st /\
             wsink (fst (wwrite encs P st p)) = wsink st      (* everything fitted: nothing emitted *)
  | _ => True
  end.
Proof.
  intros H Hc. unfold wwrite. rewrite Hc.
  replace (length p + 2) with (S (length p + 1)) by lia. cbn [wloop].
  destruct (wlim P (wcnt st)) as [lim|]; [|exact I].
  destruct (lim <? length (wbuf st)); [exact I|].
  set (n := Nat.min _ _). destruct (skipn n p) eqn:E.
  - cbn. assert (length (skipn n p) = 0) by (rewrite E; reflexivity).
    rewrite skipn_length in H0. unfold n in *. repeat split. lia.
  - rewrite gen_nonce_none by exact H. exact I.
Qed.

Lemma guard_read decs P (st : rst src) n : (max_segments <= rcnt st)%N ->
  length (rpt st) <= rpos st -> rlast st = false ->
  match snd (read decs read_full P st n) with RData _ => False | _ => True end.
Proof.
  intros H Hp Hl. unfold read.
  destruct (Nat.ltb_spec (rpos st) (length (rpt st))); [lia|]. rewrite Hl.
  destruct (rlim P (rcnt st)); [|exact I].
  destruct (_ <? _); [exact I|].
  destruct (read_full _ _) as ((s', got), k).
  destruct k; cbn [negb andb snd]; try exact I;
    try (rewrite gen_nonce_none by exact H; exact I).
  destruct (_ =? 0); [exact I|]. rewrite gen_nonce_none by exact H. exact I.
Qed.

(* ------------------------------------------------------------------ *)
(* (c) manipulation: whatever bytes the reader is given                *)
(* ------------------------------------------------------------------ *)
Lemma read_full_split s w s' g k : read_full s w = (s', g, k) ->
  srem s = g ++ srem s' /\ (k = RFeof \/ k = RFuneof -> srem s' = []).
Proof.
  unfold read_full. destruct (_ <=? _).
  - intros H; inversion H; subst. cbn. split; [symmetry; apply firstn_skipn|]. intros [?|?]; discriminate.
  - destruct (sfailr s) as [f|] eqn:Ef.
    + destruct (Nat.leb_spec f (length (srem s))) as [Hf|Hf]; intros H; inversion H; subst; cbn.
      * split; [symmetry; apply firstn_skipn|]. intros [?|?]; discriminate.
      * split; [symmetry; apply firstn_skipn|]. intros _. apply skipn_all2. lia.
    + intros H; inversion H; subst; cbn. split; [symmetry; apply firstn_skipn|]. intros _. apply skipn_all.
Qed.

Lemma firstn_succ_nth {A} (l : list A) j d : j < length l -> firstn (S j) l = firstn j l ++ [nth j l d].
Proof.
  revert j; induction l as [|x l IH]; intros j H; simpl in *; [lia|].
  destruct j; [reflexivity|]. simpl. f_equal. apply IH. lia.
Qed.

Lemma concat_firstn_prefix (ss : list bytes) j : concat ss = concat (firstn j ss) ++ concat (skipn j ss).
Proof. rewrite <- concat_app, firstn_skipn. reflexivity. Qed.

Lemma encf_split_last encs ns pre (l : list bytes) j : j + 1 = length l ->
  enc_from encs ns pre 0%N l =
  enc_nl encs ns pre 0%N (firstn j l) ++ encs (nonce_of ns pre (N.of_nat j) true) (nth j l []).
Proof.
  intros H. rewrite <- (firstn_all l) at 1. rewrite <- H, Nat.add_1_r, (firstn_succ_nth l j []) by lia.
  rewrite enc_from_snoc, firstn_length, Nat.min_l by lia. rewrite N.add_0_l. reflexivity.
Qed.

Section Manipulation.
  Variable encs : bytes -> bytes -> bytes.
  Variable decs : bytes -> bytes -> option bytes.
  Variable P : rparams.
  Variable seg ov : nat.
  Hypothesis Hct : r_ctseg P = seg + ov.
  Hypothesis Hpos : 0 < seg - r_off P.
  Variable p : bytes.                  (* the plaintext that was encrypted under this session key *)
  Local Notation off := (r_off P).
  Local Notation ENCF := (enc_from encs (r_nonce_size P) (r_prefix P)).
  Local Notation ENL := (enc_nl encs (r_nonce_size P) (r_prefix P)).
  Local Notation NONCE := (nonce_of (r_nonce_size P) (r_prefix P)).
  Local Notation READ := (read decs read_full P).
  Local Notation DRIVE := (drive decs read_full P).
  Local Notation ss := (segments seg off p).
  Hypothesis Hb : (N.of_nat (length ss) <= max_segments)%N.
  (* authenticity of the segment cipher under this session key: the only
     (nonce, ciphertext) pairs that decrypt are the ones the writer produced *)
  Hypothesis Hauth : forall n c s, decs n c = Some s ->
    exists i, i < length ss /\ n = NONCE (N.of_nat i) (i + 1 =? length ss) /\
              s = nth i ss [] /\ c = encs n s.

  Definition MRel (c' : bytes) (j : nat) (st : rst src) (acc : bytes) : Prop :=
    rcnt st = N.of_nat j /\ rpos st <= length (rpt st) /\ length (rcarry st) <= 1 /\
    ((rcnt st = 0)%N -> rcarry st = []) /\
    acc ++ skipn (rpos st) (rpt st) = concat (firstn j ss) /\
    (if rlast st then j = length ss /\ c' = ENCF 0%N ss
     else j < length ss /\ c' = ENL 0%N (firstn j ss) ++ rcarry st ++ srem (rsrc st)).

  Definition mmsr (j : nat) (acc : bytes) : nat := (length ss - j) + (length p - length acc).

  Lemma acc_le c' j st acc : MRel c' j st acc -> length acc + length (skipn (rpos st) (rpt st)) <= length p.
  Proof.
    intros (_ & _ & _ & _ & H & _). apply (f_equal (@length N)) in H. rewrite app_length in H.
    rewrite H. rewrite <- (segments_concat seg off p) at 2.
    rewrite (concat_firstn_prefix ss j), app_length. lia.
  Qed.

  Lemma m_step c' j st acc n : MRel c' j st acc ->
    let '(st', r) := READ st n in
    match r with
    | RPanic => False
    | RErr => True
    | REof => c' = ENCF 0%N ss /\ acc = p
    | RData b => exists j', MRel c' j' st' (acc ++ b) /\
                 mmsr j' (acc ++ b) <= mmsr j acc /\ (0 < n -> mmsr j' (acc ++ b) < mmsr j acc)
    end.
  Proof.
    intros HR. pose proof (acc_le _ _ _ _ HR) as Hle.
    destruct HR as (Hcnt & Hp & Hcl & Hc0 & Hacc & Hst). unfold read.
    destruct (Nat.ltb_spec (rpos st) (length (rpt st))) as [Hlt|Hge].
    - (* serve *)
      set (k := Nat.min n (length (rpt st) - rpos st)).
      rewrite skipn_length in Hle.
      exists j. split; [|split].
      + unfold MRel; cbn [rpt rpos rcarry rcnt rlast rsrc]. repeat split; auto.
        * unfold k; lia.
        * rewrite <- Hacc, <- app_assoc. f_equal.
          rewrite <- (firstn_skipn k (skipn (rpos st) (rpt st))) at 2. f_equal. symmetry. apply skipn_skipn'.
      + unfold mmsr. rewrite app_length. lia.
      + intros Hn. unfold mmsr. rewrite app_length, firstn_length, skipn_length. unfold k. lia.
    - assert (Hsk : skipn (rpos st) (rpt st) = []) by (apply skipn_all2; lia).
      rewrite Hsk, app_nil_r in Hacc.
      destruct (rlast st) eqn:El.
      + destruct Hst as (Hj & Hc'). split; [exact Hc'|].
        rewrite Hacc, Hj, firstn_all. apply segments_concat.
      + destruct Hst as (Hj & Hc').
        assert (Hrl : exists ctlim, rlim P (rcnt st) = Some ctlim /\ length (rcarry st) <= ctlim).
        { unfold rlim. destruct (N.eqb_spec (rcnt st) 0) as [E|E].
          - rewrite (Hc0 E). destruct (Nat.leb_spec off (r_ctseg P + 1)); [|lia]. eexists; split; [reflexivity|simpl; lia].
          - eexists; split; [reflexivity|lia]. }
        destruct Hrl as (ctlim & -> & Hcl2).
        destruct (Nat.ltb_spec ctlim (length (rcarry st))); [lia|].
        destruct (read_full (rsrc st) (ctlim - length (rcarry st))) as ((s', got), k) eqn:Erf.
        apply read_full_split in Erf. destruct Erf as (Hsplit & Heof).
        destruct k; try exact I.
        * (* full read: not the last segment *)
          cbn [negb andb].
          destruct (Nat.eqb_spec (length (rcarry st ++ got)) 0) as [E0|E0]; [exact I|].
          destruct (gen_nonce _ _ _ _) as [nonce|] eqn:En; [|exact I].
          destruct (decs nonce _) as [pt|] eqn:Ed; [|exact I].
          unfold gen_nonce in En. destruct (N.leb_spec max_segments (rcnt st)); [discriminate|].
          inversion En; subst nonce; clear En.
          destruct (Hauth _ _ _ Ed) as (i & Hi & Hn & Hpt & Hc).
          apply nonce_inj in Hn; [|lia|lia]. destruct Hn as (Hij & Hlast).
          assert (i = j) by lia. subst i.
          symmetry in Hlast. apply Nat.eqb_neq in Hlast.
          assert (Hbuf : rcarry st ++ got = removelast (rcarry st ++ got) ++ [last (rcarry st ++ got) 0%N]).
          { apply app_removelast_last. intros E. rewrite E in E0. simpl in E0. lia. }
          exists (S j). split; [|split].
          -- unfold MRel; cbn [rpt rpos rcarry rcnt rlast rsrc]. repeat split.
             ++ lia.
             ++ lia.
             ++ simpl; lia.
             ++ intros E. lia.
             ++ rewrite <- app_assoc, firstn_skipn, Hacc, (firstn_succ_nth ss j []), concat_app by exact Hi.
                simpl. rewrite app_nil_r, Hpt. reflexivity.
             ++ lia.
             ++ rewrite Hc', Hsplit, (firstn_succ_nth ss j []) by exact Hi.
                rewrite enc_nl_snoc, firstn_length, Nat.min_l by lia.
                rewrite (app_assoc (rcarry st)), Hbuf, Hc, <- Hpt, <- !app_assoc.
                rewrite last_last, N.add_0_l, <- Hij. reflexivity.
          -- unfold mmsr. rewrite app_length. lia.
          -- intros _. unfold mmsr. rewrite app_length. lia.
        * (* io.EOF: last segment *)
          cbn [negb andb].
          destruct (gen_nonce _ _ _ _) as [nonce|] eqn:En; [|exact I].
          destruct (decs nonce _) as [pt|] eqn:Ed; [|exact I].
          unfold gen_nonce in En. destruct (N.leb_spec max_segments (rcnt st)); [discriminate|].
          inversion En; subst nonce; clear En.
          destruct (Hauth _ _ _ Ed) as (i & Hi & Hn & Hpt & Hc).
          apply nonce_inj in Hn; [|lia|lia]. destruct Hn as (Hij & Hlast).
          assert (i = j) by lia. subst i.
          symmetry in Hlast. apply Nat.eqb_eq in Hlast.
          exists (S j). split; [|split].
          -- unfold MRel; cbn [rpt rpos rcarry rcnt rlast rsrc]. repeat split; auto; try lia; try (intros; lia).
             ++ rewrite <- app_assoc, firstn_skipn, Hacc, (firstn_succ_nth ss j []), concat_app by exact Hi.
                simpl. rewrite app_nil_r, Hpt. reflexivity.
             ++ rewrite Hc', Hsplit, (Heof (or_introl eq_refl)), app_nil_r, Hc.
                rewrite (encf_split_last _ _ _ ss j Hlast), <- Hpt, <- Hij. reflexivity.
          -- unfold mmsr. rewrite app_length. lia.
          -- intros _. unfold mmsr. rewrite app_length. lia.
        * (* io.ErrUnexpectedEOF: last segment *)
          cbn [negb andb].
          destruct (gen_nonce _ _ _ _) as [nonce|] eqn:En; [|exact I].
          destruct (decs nonce _) as [pt|] eqn:Ed; [|exact I].
          unfold gen_nonce in En. destruct (N.leb_spec max_segments (rcnt st)); [discriminate|].
          inversion En; subst nonce; clear En.
          destruct (Hauth _ _ _ Ed) as (i & Hi & Hn & Hpt & Hc).
          apply nonce_inj in Hn; [|lia|lia]. destruct Hn as (Hij & Hlast).
          assert (i = j) by lia. subst i.
          symmetry in Hlast. apply Nat.eqb_eq in Hlast.
          exists (S j). split; [|split].
          -- unfold MRel; cbn [rpt rpos rcarry rcnt rlast rsrc]. repeat split; auto; try lia; try (intros; lia).
             ++ rewrite <- app_assoc, firstn_skipn, Hacc, (firstn_succ_nth ss j []), concat_app by exact Hi.
                simpl. rewrite app_nil_r, Hpt. reflexivity.
             ++ rewrite Hc', Hsplit, (Heof (or_intror eq_refl)), app_nil_r, Hc.
                rewrite (encf_split_last _ _ _ ss j Hlast), <- Hpt, <- Hij. reflexivity.
          -- unfold mmsr. rewrite app_length. lia.
          -- intros _. unfold mmsr. rewrite app_length. lia.
  Qed.

  Lemma m_drive c' : forall sizes j st acc,
    MRel c' j st acc ->
    let '(outb, f) := DRIVE sizes st acc in
    f <> Panicked /\ (exists tl, p = outb ++ tl) /\
    (f = AtEof -> c' = ENCF 0%N ss /\ outb = p) /\
    (Forall (fun n => 0 < n) sizes -> mmsr j acc < length sizes -> f <> Pending).
  Proof.
    induction sizes as [|n ns IH]; intros j st acc HR; cbn [drive].
    - pose proof (acc_le _ _ _ _ HR) as Hle.
      destruct HR as (_ & _ & _ & _ & Hacc & _).
      repeat split; try discriminate.
      + exists (skipn (rpos st) (rpt st) ++ concat (skipn j ss)).
        rewrite app_assoc, Hacc, <- concat_firstn_prefix. symmetry. apply segments_concat.
      + intros _ H. simpl in H. lia.
    - pose proof (m_step c' j st acc n HR) as Hs.
      destruct (READ st n) as (st', r). destruct r as [b| | |].
      + destruct Hs as (j' & HR' & Hm1 & Hm2).
        specialize (IH j' st' (acc ++ b) HR').
        destruct (DRIVE ns st' (acc ++ b)) as (outb, f).
        destruct IH as (H1 & H2 & H3 & H4). repeat split; auto.
        * apply H3; auto.
        * apply H3; auto.
        * intros HF Hlt. inversion HF; subst. apply H4; auto. simpl in Hlt. specialize (Hm2 ltac:(assumption)). lia.
      + destruct Hs as (Hc & Ha). repeat split; try discriminate; auto.
        exists []. rewrite app_nil_r. auto.
      + destruct HR as (_ & _ & _ & _ & Hacc & _). repeat split; try discriminate.
        exists (skipn (rpos st) (rpt st) ++ concat (skipn j ss)).
        rewrite app_assoc, Hacc, <- concat_firstn_prefix. symmetry. apply segments_concat.
      + destruct Hs.
  Qed.

  Lemma segs_ne : 0 < length ss.
  Proof.
    pose proof (segs_from_ne seg off (length p) 0%N p) as H. unfold segments.
    destruct (segs_from seg off (length p) 0%N p); [congruence|simpl; lia].
  Qed.

  (* (c) ANY byte string, any I/O behaviour of the source *)
  Theorem manipulation_detected : forall c' F sizes st0,
    new_reader P (mkSrc c' F) = Some st0 ->
    let '(outb, f) := DRIVE sizes st0 [] in
    f <> Panicked /\ (exists tl, p = outb ++ tl) /\
    (f = AtEof -> c' = encode_stream encs (r_nonce_size P) (r_prefix P) seg off p /\ outb = p) /\
    (Forall (fun n => 0 < n) sizes -> length ss + length p < length sizes -> f <> Pending).
  Proof.
    intros c' F sizes st0 Hnew. unfold new_reader in Hnew.
    destruct (_ <? 5); [discriminate|]. inversion Hnew; subst st0; clear Hnew.
    pose proof segs_ne as Hne.
    assert (HR : MRel c' 0 (mkR [] 0 [] 0%N false (mkSrc c' F)) []).
    { unfold MRel; cbn. repeat split; auto; lia. }
    pose proof (m_drive c' sizes 0 _ [] HR) as H.
    destruct (DRIVE sizes _ []) as (outb, f).
    destruct H as (H1 & H2 & H3 & H4). repeat split; auto.
    - apply H3; auto.
    - apply H3; auto.
    - intros HF Hl. apply H4; auto. unfold mmsr. simpl. lia.
  Qed.
End Manipulation.

(* other associated data / another key = a session key under which nothing
   was ever encrypted: nothing decrypts, so the first Read fails *)
Section NoKey.
  Variable decs : bytes -> bytes -> option bytes.
  Variable P : rparams.
  Hypothesis Hoff : r_off P <= r_ctseg P + 1.
  Hypothesis Hnone : forall n c, decs n c = None.

  Theorem nothing_decrypts : forall c' F n ns st0,
    new_reader P (mkSrc c' F) = Some st0 ->
    drive decs read_full P (n :: ns) st0 [] = ([], Failed).
  Proof.
    intros c' F n ns st0 Hnew. unfold new_reader in Hnew.
    destruct (_ <? 5); [discriminate|]. inversion Hnew; subst st0; clear Hnew.
    cbn [drive]. unfold read. cbn [rpos rpt rlast rcnt rcarry rsrc length].
    unfold rlim. cbn [N.eqb]. destruct (Nat.leb_spec (r_off P) (r_ctseg P + 1)); [|lia].
    cbn [Nat.ltb Nat.leb].
    destruct (read_full _ _) as ((s', got), k).
    destruct k; cbn [negb andb]; try reflexivity.
    - destruct (_ =? 0); [reflexivity|]. destruct (gen_nonce _ _ _ _); [|reflexivity]. rewrite Hnone. reflexivity.
    - destruct (gen_nonce _ _ _ _); [|reflexivity]. rewrite Hnone. reflexivity.
    - destruct (gen_nonce _ _ _ _); [|reflexivity]. rewrite Hnone. reflexivity.
  Qed.
End NoKey.

(* an instance of the authenticity premise: the ideal segment decrypter that
   accepts exactly the (nonce, ciphertext) pairs the writer produced for ss *)
Section IdealDecs.
  Variable encs : bytes -> bytes -> bytes.
  Variable ns : nat.
  Variable pre : bytes.
  Variable ss : list bytes.

  Fixpoint auth_lookup (i : nat) (rest : list bytes) (n c : bytes) : option bytes :=
    match rest with
    | [] => None
    | s :: r => let nn := nonce_of ns pre (N.of_nat i) (i + 1 =? length ss) in
                if beq n nn && beq c (encs nn s) then Some s else auth_lookup (S i) r n c
    end.
  Definition ideal_decs : bytes -> bytes -> option bytes := auth_lookup 0 ss.

  Lemma auth_lookup_sound : forall rest done i n c s,
    ss = done ++ rest -> length done = i -> auth_lookup i rest n c = Some s ->
    exists k, k < length ss /\ n = nonce_of ns pre (N.of_nat k) (k + 1 =? length ss) /\
              s = nth k ss [] /\ c = encs n s.
  Proof.
    induction rest as [|x rest IH]; intros done i n c s Hss Hi H; simpl in H; [discriminate|].
    destruct (beq n _ && beq c _) eqn:E.
    - inversion H; subst x; clear H. apply andb_true_iff in E. destruct E as [E1 E2].
      apply beq_eq in E1, E2. exists i. repeat split.
      + rewrite Hss, app_length. simpl. lia.
      + exact E1.
      + rewrite Hss, app_nth2 by lia. rewrite Hi, Nat.sub_diag. reflexivity.
      + rewrite E2, <- E1. reflexivity.
    - apply (IH (done ++ [x]) (S i) n c s); auto.
      + rewrite <- app_assoc. exact Hss.
      + rewrite app_length. simpl. lia.
  Qed.

  Lemma ideal_decs_auth n c s : ideal_decs n c = Some s ->
    exists k, k < length ss /\ n = nonce_of ns pre (N.of_nat k) (k + 1 =? length ss) /\
              s = nth k ss [] /\ c = encs n s.
  Proof. apply (auth_lookup_sound ss [] 0); reflexivity. Qed.
End IdealDecs.

(* ------------------------------------------------------------------ *)
(* (f) the keyset-level reader (decrypt_reader.go)                     *)
(* ------------------------------------------------------------------ *)
(* a reader only sees its source through rfull: sources related by a map h
   that commutes with rfull give the same results *)
Section Sim.
  Variables A B : Type.
  Variable fa : A -> nat -> A * bytes * rfk.
  Variable fb : B -> nat -> B * bytes * rfk.
  Variable h : A -> B.
  Hypothesis Hsim : forall a w, let '(a', g, r) := fa a w in fb (h a) w = (h a', g, r).

  Definition map_src (st : rst A) : rst B :=
    mkR (rpt st) (rpos st) (rcarry st) (rcnt st) (rlast st) (h (rsrc st)).

  Lemma read_sim decs P st n :
    let '(st', r) := read decs fa P st n in read decs fb P (map_src st) n = (map_src st', r).
  Proof.
    unfold read. cbn [map_src rpt rpos rcarry rcnt rlast rsrc].
    destruct (rpos st <? length (rpt st)); [reflexivity|].
    destruct (rlast st); [reflexivity|].
    destruct (rlim P (rcnt st)); [|reflexivity].
    destruct (_ <? length (rcarry st)); [reflexivity|].
    pose proof (Hsim (rsrc st) (n0 - length (rcarry st))) as H.
    destruct (fa (rsrc st) (n0 - length (rcarry st))) as ((a', g), k). rewrite H.
    destruct k; cbn [negb andb]; try reflexivity.
    - destruct (_ =? 0); [reflexivity|]. destruct (gen_nonce _ _ _ _); [|reflexivity].
      destruct (decs _ _); reflexivity.
    - destruct (gen_nonce _ _ _ _); [|reflexivity]. destruct (decs _ _); reflexivity.
    - destruct (gen_nonce _ _ _ _); [|reflexivity]. destruct (decs _ _); reflexivity.
  Qed.

  Lemma reads_sim decs P : forall sizes st,
    snd (reads decs fa P st sizes) = snd (reads decs fb P (map_src st) sizes).
  Proof.
    induction sizes as [|n ns IH]; intros st; cbn [reads]; [reflexivity|].
    pose proof (read_sim decs P st n) as H.
    destruct (read decs fa P st n) as (st1, r). rewrite H.
    specialize (IH st1).
    destruct (reads decs fa P st1 ns) as (st2, rs).
    destruct (reads decs fb P (map_src st1) ns) as (st2', rs'). cbn in *. congruence.
  Qed.

  Variable hkdf : hash -> bytes -> bytes -> bytes -> nat -> bytes.

  Definition map_opt (o : option (bytes * bytes * bytes * rst A)) : option (bytes * bytes * bytes * rst B) :=
    match o with Some (k1, k2, pre, st) => Some (k1, k2, pre, map_src st) | None => None end.

  Lemma new_dec_reader_sim k aad a :
    let '(o, a') := new_dec_reader hkdf A fa k aad a in
    new_dec_reader hkdf B fb k aad (h a) = (map_opt o, h a').
  Proof.
    unfold new_dec_reader.
    pose proof (Hsim a 1) as H1. destruct (fa a 1) as ((a1, hl), k1). rewrite H1.
    destruct k1; try reflexivity.
    destruct (negb _); [reflexivity|].
    pose proof (Hsim a1 (k_dk k)) as H2. destruct (fa a1 (k_dk k)) as ((a2, salt), k2). rewrite H2.
    destruct k2; try reflexivity.
    pose proof (Hsim a2 nonce_prefix_size) as H3. destruct (fa a2 nonce_prefix_size) as ((a3, pre), k3). rewrite H3.
    destruct k3; try reflexivity.
    unfold new_reader. destruct (_ <? 5); reflexivity.
  Qed.
End Sim.

(* anything true of the source and preserved by rfull is preserved by read
   and by new_dec_reader *)
Section SrcInv.
  Variable A : Type.
  Variable fa : A -> nat -> A * bytes * rfk.
  Variable I : A -> Prop.
  Hypothesis HI : forall a w, I a -> I (fst (fst (fa a w))).

  Lemma read_src_inv decs P st n : I (rsrc st) -> I (rsrc (fst (read decs fa P st n))).
  Proof.
    intros H. unfold read.
    destruct (rpos st <? length (rpt st)); [exact H|].
    destruct (rlast st); [exact H|].
    destruct (rlim P (rcnt st)); [|exact H].
    destruct (_ <? length (rcarry st)); [exact H|].
    pose proof (HI (rsrc st) (n0 - length (rcarry st)) H) as H'.
    destruct (fa (rsrc st) (n0 - length (rcarry st))) as ((a', g), k). cbn in H'.
    destruct k; cbn [negb andb]; try exact H'.
    - destruct (_ =? 0); [exact H'|]. destruct (gen_nonce _ _ _ _); [|exact H']. destruct (decs _ _); exact H'.
    - destruct (gen_nonce _ _ _ _); [|exact H']. destruct (decs _ _); exact H'.
    - destruct (gen_nonce _ _ _ _); [|exact H']. destruct (decs _ _); exact H'.
  Qed.

  Variable hkdf : hash -> bytes -> bytes -> bytes -> nat -> bytes.
  Lemma new_dec_reader_src_inv k aad a : I a ->
    I (snd (new_dec_reader hkdf A fa k aad a)) /\
    match fst (new_dec_reader hkdf A fa k aad a) with
    | Some (_, _, _, st) => rsrc st = snd (new_dec_reader hkdf A fa k aad a)
    | None => True
    end.
  Proof.
    intros H. unfold new_dec_reader.
    pose proof (HI a 1 H) as H1. destruct (fa a 1) as ((a1, hl), k1). cbn in H1.
    destruct k1; try (split; [exact H1|exact Logic.I]).
    destruct (negb _); [split; [exact H1|exact Logic.I]|].
    pose proof (HI a1 (k_dk k) H1) as H2. destruct (fa a1 (k_dk k)) as ((a2, salt), k2). cbn in H2.
    destruct k2; try (split; [exact H2|exact Logic.I]).
    pose proof (HI a2 nonce_prefix_size H2) as H3. destruct (fa a2 nonce_prefix_size) as ((a3, pre), k3). cbn in H3.
    destruct k3; try (split; [exact H3|exact Logic.I]).
    unfold new_reader. destruct (_ <? 5); (split; [exact H3|]); [exact Logic.I|reflexivity].
  Qed.
End SrcInv.

Lemma read_full_fail s w s' g k : read_full s w = (s', g, k) ->
  srem s = g ++ srem s' /\
  sfailr s' = match sfailr s with Some f => Some (f - length g) | None => None end /\
  (forall f, sfailr s = Some f -> length g <= f).
Proof.
  unfold read_full. destruct (sfailr s) as [f|] eqn:Ef.
  - destruct (Nat.leb_spec w (Nat.min f (length (srem s)))) as [Hw|Hw]; intros HH; inversion HH; subst; cbn;
      rewrite Ef, firstn_length; (split; [symmetry; apply firstn_skipn|]); split.
    + f_equal. lia.
    + intros f0 E; inversion E; subst. lia.
    + f_equal. lia.
    + intros f0 E; inversion E; subst. lia.
  - destruct (Nat.leb_spec w (length (srem s))); intros HH; inversion HH; subst; cbn; rewrite Ef;
      (split; [symmetry; apply firstn_skipn|]); split; auto; discriminate.
Qed.

Section KeysetReader.
  Variable hkdf : hash -> bytes -> bytes -> bytes -> nat -> bytes.
  Variable gcm_open : bytes -> bytes -> bytes -> option bytes.
  Variable aes_ctr : bytes -> bytes -> bytes -> bytes.
  Variable hmac : hash -> bytes -> bytes -> bytes.
  Local Notation SDEC := (seg_dec gcm_open aes_ctr hmac).

  (* what a consumer of the unreader still has in front of it *)
  Definition flat (u : ureader) : src :=
    mkSrc (skipn (upos u) (ubuf u) ++ srem (usrc u))
          (match sfailr (usrc u) with
           | Some k => Some (length (skipn (upos u) (ubuf u)) + k)
           | None => None
           end).

  Lemma urfull_flat u want :
    let '(u', g, r) := urfull u want in read_full (flat u) want = (flat u', g, r).
  Proof.
    unfold urfull. set (avail := skipn (upos u) (ubuf u)).
    destruct (Nat.leb_spec want (length avail)) as [Hw|Hw].
    - (* served from the replay buffer *)
      unfold read_full, flat. cbn [srem sfailr ubuf upos usrc]. fold avail.
      rewrite app_length.
      assert (Hsk : skipn (upos u + want) (ubuf u) = skipn want avail) by (unfold avail; symmetry; apply skipn_skipn').
      rewrite Hsk.
      assert (Hf : firstn want (avail ++ srem (usrc u)) = firstn want avail).
      { rewrite firstn_app. replace (want - length avail) with 0 by lia. rewrite firstn_O, app_nil_r. reflexivity. }
      assert (Hs : skipn want (avail ++ srem (usrc u)) = skipn want avail ++ srem (usrc u)).
      { rewrite skipn_app. replace (want - length avail) with 0 by lia. reflexivity. }
      destruct (sfailr (usrc u)) as [k|].
      + destruct (Nat.leb_spec want (Nat.min (length avail + k) (length avail + length (srem (usrc u))))); [|lia].
        unfold src_adv. cbn [srem sfailr]. rewrite Hf, Hs, skipn_length. repeat (f_equal; try lia).
      + destruct (Nat.leb_spec want (length avail + length (srem (usrc u)))); [|lia].
        unfold src_adv. cbn [srem sfailr]. rewrite Hf, Hs. reflexivity.
    - (* the wrapped reader is consulted *)
      set (m := want - length avail) in *.
      assert (Ew : want = length avail + m) by (unfold m; lia).
      assert (Hm : 0 < m) by (unfold m; lia).
      clearbody m. subst want. clear Hw.
      destruct (read_full (usrc u) m) as ((s', got), k) eqn:Erf.
      assert (Hfl : forall b', flat (mkU b' (length b') (udis u) s') = s').
      { intros b'. unfold flat. cbn [ubuf upos usrc]. rewrite skipn_all. cbn [app length Nat.add].
        destruct s' as [r [f|]]; reflexivity. }
      rewrite Hfl. clear Hfl.
      unfold read_full in *. unfold flat. cbn [srem sfailr]. fold avail. rewrite app_length.
      assert (Hf : forall m, firstn (length avail + m) (avail ++ srem (usrc u)) = avail ++ firstn m (srem (usrc u))).
      { intros m'. rewrite firstn_app, firstn_all2 by lia. f_equal. f_equal. lia. }
      assert (Hs : forall m, skipn (length avail + m) (avail ++ srem (usrc u)) = skipn m (srem (usrc u))).
      { intros m'. rewrite skipn_app, skipn_all2 by lia. cbn [app]. f_equal. lia. }
      destruct (sfailr (usrc u)) as [f|] eqn:Ef.
      + rewrite Nat.add_min_distr_l.
        set (lim := Nat.min f (length (srem (usrc u)))) in *.
        destruct (Nat.leb_spec m lim) as [H1|H1].
        * destruct (Nat.leb_spec (length avail + m) (length avail + lim)); [|lia].
          inversion Erf; subst. unfold src_adv. cbn [srem sfailr]. rewrite Ef, Hf, Hs.
          repeat (f_equal; try lia).
        * destruct (Nat.leb_spec (length avail + m) (length avail + lim)); [lia|].
          inversion Erf; subst. unfold src_adv. cbn [srem sfailr]. rewrite Ef, Hf, Hs.
          destruct (Nat.leb_spec f (length (srem (usrc u)))) as [H2|H2].
          -- destruct (Nat.leb_spec (length avail + f) (length avail + length (srem (usrc u)))); [|lia].
             repeat (f_equal; try lia).
          -- destruct (Nat.leb_spec (length avail + f) (length avail + length (srem (usrc u)))); [lia|].
             replace (length avail + f - (length avail + lim)) with (f - lim) by lia.
             destruct (Nat.eqb_spec lim 0) as [E0|E0].
             ++ destruct (Nat.eqb_spec (length avail) 0) as [E1|E1].
                ** destruct (Nat.eqb_spec (length avail + lim) 0); [reflexivity|lia].
                ** destruct (Nat.eqb_spec (length avail + lim) 0); [lia|reflexivity].
             ++ destruct (Nat.eqb_spec (length avail + lim) 0); [lia|reflexivity].
      + destruct (Nat.leb_spec m (length (srem (usrc u)))) as [H1|H1].
        * destruct (Nat.leb_spec (length avail + m) (length avail + length (srem (usrc u)))); [|lia].
          inversion Erf; subst. unfold src_adv. cbn [srem sfailr]. rewrite Ef, Hf, Hs. reflexivity.
        * destruct (Nat.leb_spec (length avail + m) (length avail + length (srem (usrc u)))); [lia|].
          inversion Erf; subst. unfold src_adv. cbn [srem sfailr]. rewrite Ef, Hf, Hs.
          destruct (Nat.eqb_spec (length (srem (usrc u))) 0) as [E0|E0].
          -- destruct (Nat.eqb_spec (length avail) 0) as [E1|E1].
             ++ destruct (Nat.eqb_spec (length avail + length (srem (usrc u))) 0); [reflexivity|lia].
             ++ destruct (Nat.eqb_spec (length avail + length (srem (usrc u))) 0); [lia|reflexivity].
          -- destruct (Nat.eqb_spec (length avail + length (srem (usrc u))) 0); [lia|reflexivity].
  Qed.

  (* everything the wrapped reader has delivered or still holds *)
  Definition whole (u : ureader) : src :=
    mkSrc (ubuf u ++ srem (usrc u))
          (match sfailr (usrc u) with Some k => Some (length (ubuf u) + k) | None => None end).
  Definition UI (c0 : src) (u : ureader) : Prop := udis u = false /\ whole u = c0.

  Lemma urfull_UI c0 u w : UI c0 u -> UI c0 (fst (fst (urfull u w))).
  Proof.
    intros (Hd & Hw). unfold urfull.
    destruct (_ <=? _); [split; assumption|].
    destruct (read_full (usrc u) _) as ((s', got), k) eqn:E. cbn [fst].
    apply read_full_fail in E. destruct E as (E1 & E2 & E3).
    rewrite Hd. split; [reflexivity|]. rewrite <- Hw. unfold whole. cbn [ubuf usrc].
    rewrite E1, E2, <- app_assoc. f_equal.
    destruct (sfailr (usrc u)) as [f|]; [|reflexivity].
    specialize (E3 f eq_refl). f_equal. rewrite app_length. lia.
  Qed.

  Lemma flat_start c0 u : UI c0 u -> upos u = 0 -> flat u = c0.
  Proof. intros (_ & Hw) Hp. rewrite <- Hw. unfold flat, whole. rewrite Hp. reflexivity. Qed.

  Lemma UI_unread c0 u : UI c0 u -> UI c0 (unread u) /\ upos (unread u) = 0.
  Proof. intros (Hd & Hw). repeat split; assumption. Qed.

  (* the specification: every candidate key is tried as a single-key reader on
     the WHOLE stream c0 from its beginning; the first one whose header check
     and first Read succeed wins *)
  Fixpoint dr_spec (keys : list skey) (aad : bytes) (c0 : src) (n : nat)
    : option (skey * (bytes * bytes) * bytes * rst src) * rres :=
    match keys with
    | [] => (None, RErr)
    | k :: ks =>
      match new_dec_reader hkdf src read_full k aad c0 with
      | (None, _) => dr_spec ks aad c0 n
      | (Some (k1, k2, pre, st), _) =>
        match read (SDEC k (k1, k2)) read_full (k_rparams k pre) st n with
        | (st', RData b) => (Some (k, (k1, k2), pre, st'), RData b)
        | (_, RPanic) => (None, RPanic)
        | (_, _) => dr_spec ks aad c0 n
        end
      end
    end.

  Local Notation DRTRY := (dr_try hkdf gcm_open aes_ctr hmac).
  Local Notation DRREAD := (dr_read hkdf gcm_open aes_ctr hmac).

  Lemma dr_try_spec aad n c0 : forall keys u, UI c0 u -> upos u = 0 ->
    let '(m, u', r) := DRTRY keys aad u n in
    r = snd (dr_spec keys aad c0 n) /\
    match m, fst (dr_spec keys aad c0 n) with
    | Some m, Some (k, sk, pre, st') =>
        m_key m = k /\ m_sk m = sk /\ m_prefix m = pre /\ map_src ureader src flat (m_st m) = st'
    | None, None => True
    | _, _ => False
    end.
  Proof.
    induction keys as [|k ks IH]; intros u HU Hp; cbn [dr_try dr_spec]; [split; [reflexivity|exact I]|].
    pose proof (new_dec_reader_sim ureader src urfull read_full flat urfull_flat hkdf k aad u) as Hs.
    pose proof (new_dec_reader_src_inv ureader urfull (UI c0) (urfull_UI c0) hkdf k aad u HU) as (Hi1 & Hi2).
    destruct (new_dec_reader hkdf ureader urfull k aad u) as (o, u1).
    rewrite (flat_start c0 u HU Hp) in Hs. rewrite Hs. cbn [fst snd] in Hi1, Hi2.
    destruct o as [[[[k1 k2] pre] st]|]; cbn [map_opt].
    - pose proof (read_sim ureader src urfull read_full flat urfull_flat (SDEC k (k1, k2)) (k_rparams k pre) st n) as Hr.
      assert (HU' : UI c0 (rsrc (fst (read (SDEC k (k1, k2)) urfull (k_rparams k pre) st n)))).
      { apply read_src_inv; [apply urfull_UI|]. rewrite Hi2. exact Hi1. }
      destruct (read (SDEC k (k1, k2)) urfull (k_rparams k pre) st n) as (st', r). rewrite Hr. cbn [fst] in HU'.
      destruct r as [b| | |].
      + split; [reflexivity|]. cbn [fst m_key m_sk m_prefix m_st]. repeat split.
      + destruct (UI_unread c0 _ HU') as (A & B). exact (IH _ A B).
      + destruct (UI_unread c0 _ HU') as (A & B). exact (IH _ A B).
      + split; [reflexivity|exact I].
    - destruct (UI_unread c0 _ Hi1) as (A & B). exact (IH _ A B).
  Qed.

  Fixpoint dr_reads (keys : list skey) (aad : bytes) (d : drst) (sizes : list nat) : list rres :=
    match sizes with
    | [] => []
    | n :: ns => let '(d', r) := DRREAD keys aad d n in r :: dr_reads keys aad d' ns
    end.

  Definition spec_reads (keys : list skey) (aad : bytes) (c0 : src) (sizes : list nat) : list rres :=
    match sizes with
    | [] => []
    | n :: ns =>
      match dr_spec keys aad c0 n with
      | (Some (k, sk, pre, st'), r) => r :: snd (reads (SDEC k sk) read_full (k_rparams k pre) st' ns)
      | (None, r) => r :: map (fun _ => RErr) ns
      end
    end.

  Lemma dr_reads_matched keys aad : forall ns d m, dr_m d = Some m ->
    dr_reads keys aad d ns =
    snd (reads (SDEC (m_key m) (m_sk m)) urfull (k_rparams (m_key m) (m_prefix m)) (m_st m) ns).
  Proof.
    induction ns as [|n ns IH]; intros d m Hm; cbn [dr_reads reads]; [reflexivity|].
    unfold dr_read. rewrite Hm.
    destruct (read (SDEC (m_key m) (m_sk m)) urfull (k_rparams (m_key m) (m_prefix m)) (m_st m) n) as (st', r).
    rewrite (IH (mkDR true (Some (mkM (m_key m) (m_sk m) (m_prefix m) st')) (dr_cr d))
                (mkM (m_key m) (m_sk m) (m_prefix m) st') eq_refl). cbn [m_key m_sk m_prefix m_st].
    destruct (reads _ _ _ st' ns). reflexivity.
  Qed.

  Lemma dr_reads_failed keys aad : forall ns d, dr_m d = None -> dr_attempted d = true ->
    dr_reads keys aad d ns = map (fun _ => RErr) ns.
  Proof.
    induction ns as [|n ns IH]; intros d Hm Ha; cbn [dr_reads map]; [reflexivity|].
    unfold dr_read. rewrite Hm, Ha. f_equal. apply IH; assumption.
  Qed.

  (* (f) for every first-Read size and every later Read *)
  Theorem keyset_reader_spec : forall keys aad c0 sizes,
    dr_reads keys aad (dr_new c0) sizes = spec_reads keys aad c0 sizes.
  Proof.
    intros keys aad c0 [|n ns]; [reflexivity|]. cbn [dr_reads spec_reads].
    unfold dr_read at 1. cbn [dr_new dr_m dr_attempted dr_cr].
    assert (HU : UI c0 (mkU [] 0 false c0)).
    { split; [reflexivity|]. unfold whole. cbn. destruct c0 as [r [f|]]; reflexivity. }
    pose proof (dr_try_spec aad n c0 keys _ HU eq_refl) as H.
    destruct (DRTRY keys aad (mkU [] 0 false c0) n) as ((m, u'), r).
    destruct H as (Hr & Hm). destruct (dr_spec keys aad c0 n) as (sp, r'). cbn [fst snd] in *. subst r'.
    destruct m as [m|]; destruct sp as [[[[k sk] pre] st']|]; try contradiction.
    - destruct Hm as (<- & <- & <- & <-). f_equal.
      rewrite (dr_reads_matched keys aad ns (mkDR true (Some m) (usrc u')) m eq_refl).
      apply (reads_sim ureader src urfull read_full flat urfull_flat).
    - f_equal. apply (dr_reads_failed keys aad ns (mkDR true None (usrc u'))); reflexivity.
  Qed.
End KeysetReader.
