(* FIPS 204 Algorithms 41, 42 (NTT, NTT^-1, written in model/MldsaFips.v as
   the standard's nested loops updating the array w in place, with
   zetas[m] = 1753^BitRev8(m) mod q) and 44-48 equal the transforms and the
   NTT-domain arithmetic of the implementation model (model/MldsaPoly.v: list
   splitting per block, the regenerated zetas table, the regenerated
   kernels).  NTT accepts the standard's signed inputs: it depends only on the
   residues modulo q. *)
From Coq Require Import List ZArith NArith Bool Arith Lia ZifyN ZifyNat ZifyBool Setoid Morphisms.
From Tink Require Import Bytes Wrap MldsaScalar MldsaScalarProofs MldsaScalarProofs2 MldsaTableProofs
  MldsaKernels MldsaKernelsProofs MldsaPoly Mldsa MldsaPackProofs MldsaHintProofs MldsaNttProofs
  MldsaAlgebraProofs MldsaProofs MldsaConvProofs MldsaNormProofs MldsaSampleProofs MldsaSignVerifyProofs
  MldsaKeyCodecProofs MldsaVerifyIffProofs MldsaFips MldsaFipsBasics MldsaFipsSampling MldsaFipsEncodings.
Import ListNotations.
Local Open Scope Z_scope.

(* zetas[m] = zeta^BitRev8(m) mod q is the regenerated table *)
Lemma zetas_table : forallb (fun m => FIPS.zetas m =? zeta_at m) (seq 1 255) = true.
Proof. vm_compute. reflexivity. Qed.

Lemma zetas_eq m : (1 <= m <= 255)%nat -> FIPS.zetas m = zeta_at m.
Proof.
  intros Hm. pose proof zetas_table as T. rewrite forallb_forall in T.
  apply Z.eqb_eq. apply T. apply in_seq. lia.
Qed.

Lemma nth_mid {A} (pre : list A) x rest d : nth (length pre) (pre ++ x :: rest) d = x.
Proof. induction pre as [|y pre IH]; cbn; [reflexivity | exact IH]. Qed.

(* ------------------------------------------------------------------ *)
(* forward: one block, one layer                                        *)
(* ------------------------------------------------------------------ *)
Definition fwd_lo (z a b : Z) : Z := (a + (z * b) mod q) mod q.
Definition fwd_hi (z a b : Z) : Z := (a - (z * b) mod q) mod q.

Definition ntt_inner (z : Z) (len : nat) :=
  fun (j : nat) (wh : list Z) =>
    let t := (z * nth (j + len) wh 0) mod FIPS.q in
    let wj := nth j wh 0 in
    let wh := FIPS.set_nth (j + len) ((wj - t) mod FIPS.q) wh in
    FIPS.set_nth j ((wj + t) mod FIPS.q) wh.

Lemma ntt_inner_eq z len : forall lo hi pre mid post, length lo = length hi -> (length lo + length mid = len)%nat ->
  FIPS.for_ (length pre) (length lo) (ntt_inner z len) (pre ++ lo ++ mid ++ hi ++ post) =
  pre ++ map2 (fwd_lo z) lo hi ++ mid ++ map2 (fwd_hi z) lo hi ++ post.
Proof.
  induction lo as [|a lo IH]; intros [|b hi] pre mid post LH LL; try discriminate; [reflexivity|].
  cbn [length] in *. cbn [FIPS.for_ map2]. unfold ntt_inner at 2.
  assert (E1 : nth (length pre) (pre ++ (a :: lo) ++ mid ++ (b :: hi) ++ post) 0 = a) by apply nth_mid.
  assert (L2 : (length pre + len)%nat = length (pre ++ (a :: lo) ++ mid)).
  { rewrite !app_length. cbn [length]. lia. }
  assert (R : pre ++ (a :: lo) ++ mid ++ (b :: hi) ++ post = (pre ++ (a :: lo) ++ mid) ++ b :: (hi ++ post)).
  { rewrite <- !app_assoc. reflexivity. }
  assert (E2 : nth (length pre + len) (pre ++ (a :: lo) ++ mid ++ (b :: hi) ++ post) 0 = b).
  { rewrite R, L2. apply nth_mid. }
  rewrite E1, E2. rewrite R at 1. rewrite L2, set_nth_app_mid. rewrite <- !app_assoc. cbn [app].
  rewrite set_nth_app_mid.
  change FIPS.q with q. fold (fwd_lo z a b) (fwd_hi z a b).
  replace (pre ++ fwd_lo z a b :: lo ++ mid ++ fwd_hi z a b :: hi ++ post)
    with ((pre ++ [fwd_lo z a b]) ++ lo ++ (mid ++ [fwd_hi z a b]) ++ hi ++ post)
    by (rewrite <- !app_assoc; reflexivity).
  replace (S (length pre)) with (length (pre ++ [fwd_lo z a b])) by (rewrite app_length; cbn [length]; lia).
  rewrite IH by (try rewrite app_length; cbn [length]; lia).
  rewrite <- !app_assoc. reflexivity.
Qed.

Fixpoint zblocks (nb len m : nat) (p : list Z) : list Z :=
  match nb with
  | O => []
  | S nb' =>
      let lo := firstn len p in
      let hi := firstn len (skipn len p) in
      let z := zeta_at (S m) in
      map2 (fwd_lo z) lo hi ++ map2 (fwd_hi z) lo hi ++ zblocks nb' len (S m) (skipn (2 * len) p)
  end.

Definition ntt_mid (len : nat) :=
  fun '((wh, m, start) : list Z * nat * nat) =>
    let m := S m in
    let z := FIPS.zetas m in
    let wh := FIPS.for_ start len (ntt_inner z len) wh in
    (wh, m, (start + 2 * len)%nat).

Definition mid_cond := fun '((wh, m, start) : list Z * nat * nat) => Nat.ltb start 256.

Lemma zblocks_length len : forall nb m p, length p = (nb * (2 * len))%nat -> length (zblocks nb len m p) = (nb * (2 * len))%nat.
Proof.
  induction nb as [|nb IH]; intros m p L; [reflexivity|]. cbn [zblocks].
  rewrite !app_length, !map2_length by (rewrite !firstn_length, !skipn_length; lia).
  rewrite firstn_length, IH by (rewrite skipn_length; lia). lia.
Qed.

Lemma ntt_mid_eq len : (0 < len)%nat -> forall nb fuel done rest m, (nb <= fuel)%nat ->
  length rest = (nb * (2 * len))%nat -> (length done + length rest = 256)%nat -> (m + nb <= 255)%nat ->
  FIPS.while_ fuel mid_cond (ntt_mid len) (done ++ rest, m, length done) =
  (done ++ zblocks nb len m rest, (m + nb)%nat, 256%nat).
Proof.
  intros Hlen. induction nb as [|nb IH]; intros fuel done rest m Hf Lr L256 Hm.
  - destruct rest; [|cbn in Lr; lia]. cbn [length] in L256. rewrite Nat.add_0_r in *. rewrite L256.
    destruct fuel; cbn [FIPS.while_ mid_cond zblocks]; reflexivity.
  - destruct fuel as [|fuel]; [lia|]. cbn [FIPS.while_]. unfold mid_cond at 1.
    replace (Nat.ltb (length done) 256) with true by (symmetry; apply Nat.ltb_lt; lia).
    unfold ntt_mid at 2. cbv zeta.
    rewrite zetas_eq by lia.
    set (lo := firstn len rest). set (hi := firstn len (skipn len rest)). set (rest' := skipn (2 * len) rest).
    assert (Llo : length lo = len) by (unfold lo; rewrite firstn_length; lia).
    assert (Lhi : length hi = len) by (unfold hi; rewrite firstn_length, skipn_length; lia).
    assert (ER : rest = lo ++ hi ++ rest').
    { unfold lo, hi, rest'. rewrite <- (firstn_skipn len rest) at 1. f_equal.
      rewrite <- (firstn_skipn len (skipn len rest)) at 1. f_equal. rewrite skipn_add. f_equal. lia. }
    rewrite ER at 1.
    pose proof (ntt_inner_eq (zeta_at (S m)) len lo hi done [] rest' ltac:(lia) ltac:(cbn [length]; lia)) as E.
    cbn [app] in E. rewrite Llo in E. rewrite E. clear E.
    replace (done ++ map2 (fwd_lo (zeta_at (S m))) lo hi ++ map2 (fwd_hi (zeta_at (S m))) lo hi ++ rest')
      with ((done ++ map2 (fwd_lo (zeta_at (S m))) lo hi ++ map2 (fwd_hi (zeta_at (S m))) lo hi) ++ rest')
      by (rewrite <- !app_assoc; reflexivity).
    replace (length done + 2 * len)%nat
      with (length (done ++ map2 (fwd_lo (zeta_at (S m))) lo hi ++ map2 (fwd_hi (zeta_at (S m))) lo hi))
      by (rewrite !app_length, !map2_length by lia; lia).
    assert (Lr' : length rest' = (nb * (2 * len))%nat) by (unfold rest'; rewrite skipn_length; lia).
    rewrite IH; [| lia | exact Lr' | rewrite !app_length, !map2_length by lia; lia | lia].
    cbn [zblocks]. fold lo hi rest'. rewrite <- !app_assoc. replace (S m + nb)%nat with (m + S nb)%nat by lia. reflexivity.
Qed.

(* zblocks on arbitrary integers = the model's blocks on the residues *)
Lemma map2_map {A B C D E} (f : C -> D -> E) (g : A -> C) (h : B -> D) a b :
  map2 f (map g a) (map h b) = map2 (fun x y => f (g x) (h y)) a b.
Proof. revert b; induction a as [|x a IH]; intros [|y b]; cbn; auto. f_equal. apply IH. Qed.

Lemma map2_ext {A B C} (f g : A -> B -> C) a b : (forall x y, f x y = g x y) -> map2 f a b = map2 g a b.
Proof. intros E. revert b; induction a as [|x a IH]; intros [|y b]; cbn; auto. rewrite E. f_equal. apply IH. Qed.

Lemma zblocks_model len : forall nb m p,
  zblocks nb len m p = ntt_blocks nb len m (map modq p).
Proof.
  induction nb as [|nb IH]; intros m p; [reflexivity|]. cbn [zblocks ntt_blocks].
  rewrite !skipn_map, !firstn_map, <- IH.
  pose proof (zeta_at_range (S m)) as Rz. set (z := zeta_at (S m)) in *.
  f_equal; [|f_equal].
  - rewrite (map_map modq (k_mul z)). rewrite (map2_map k_add modq (fun x => k_mul z (modq x))).
    apply map2_ext. intros a b. unfold fwd_lo, modq.
    rewrite (k_mul_spec z (b mod q)) by (auto using mod_q_range).
    rewrite k_add_spec by (auto using mod_q_range).
    rewrite Zmult_mod_idemp_r, Zplus_mod_idemp_l. reflexivity.
  - rewrite (map_map modq (k_mul z)). rewrite (map2_map k_sub modq (fun x => k_mul z (modq x))).
    apply map2_ext. intros a b. unfold fwd_hi, modq.
    rewrite (k_mul_spec z (b mod q)) by (auto using mod_q_range).
    rewrite k_sub_spec by (auto using mod_q_range).
    rewrite Zmult_mod_idemp_r, Zminus_mod_idemp_l. reflexivity.
Qed.

Lemma canon_map2_mod (f : Z -> Z -> Z) a b : (forall x y, 0 <= f x y < q) -> canon (map2 f a b).
Proof. intros Hf. revert b; induction a as [|x a IH]; intros [|y b]; cbn; constructor; auto. apply IH. Qed.

Lemma canon_zblocks len : forall nb m p, canon (zblocks nb len m p).
Proof.
  induction nb as [|nb IH]; intros m p; cbn [zblocks]; [constructor|].
  apply canon_app. split; [|apply canon_app; split; [|apply IH]];
    apply canon_map2_mod; intros; apply mod_q_range.
Qed.

Lemma map_modq_canon p : canon p -> map modq p = p.
Proof.
  intros C. rewrite <- (map_id p) at 2. apply map_ext_in. intros x Hx. unfold canon in C. rewrite Forall_forall in C.
  apply Z.mod_small. apply C. exact Hx.
Qed.

Definition ntt_outer :=
  fun '((wh, m, len) : list Z * nat * nat) =>
    let '(wh, m, _) := FIPS.while_ 128 mid_cond (ntt_mid len) (wh, m, O) in
    (wh, m, Nat.div len 2).

Lemma NTT_unfold (w : list Z) : FIPS.NTT w =
  let '(wh, _, _) := FIPS.while_ 8 (fun '(wh, m, len) => Nat.leb 1 len) ntt_outer (w, O, 128%nat) in wh.
Proof. reflexivity. Qed.

Lemma ntt_outer_eq w m len nb : length w = 256%nat -> (0 < len)%nat -> (nb * (2 * len) = 256)%nat ->
  (nb <= 128)%nat -> (m + nb <= 255)%nat ->
  ntt_outer (w, m, len) = (zblocks nb len m w, (m + nb)%nat, Nat.div len 2).
Proof.
  intros L Hl Hn Hb Hm. unfold ntt_outer.
  pose proof (ntt_mid_eq len Hl nb 128 [] w m Hb ltac:(lia) ltac:(cbn [length]; lia) Hm) as E.
  cbn [app length] in E. rewrite E. reflexivity.
Qed.

Theorem NTT_eq (w : list Z) : length w = 256%nat -> FIPS.NTT w = ntt (map modq w).
Proof.
  intros L. rewrite NTT_unfold, ntt_unfold.
  assert (ST : forall r cond body (st : list Z * nat * nat),
     FIPS.while_ (S r) cond body st = if cond st then FIPS.while_ r cond body (body st) else st) by reflexivity.
  assert (ZL : forall nb len m p, length p = 256%nat -> (nb * (2 * len) = 256)%nat -> length (zblocks nb len m p) = 256%nat).
  { intros nb len m p Lp E. rewrite zblocks_length by lia. exact E. }
  rewrite ST. cbv beta iota. change (Nat.leb 1 128) with true. cbv iota.
  rewrite (ntt_outer_eq w 0 128 1) by (cbn; lia). change (Nat.div 128 2) with 64%nat. cbn [Nat.add].
  rewrite ST. cbv beta iota. change (Nat.leb 1 64) with true. cbv iota.
  rewrite (ntt_outer_eq _ 1 64 2) by (try apply ZL; cbn; lia). change (Nat.div 64 2) with 32%nat. cbn [Nat.add].
  rewrite ST. cbv beta iota. change (Nat.leb 1 32) with true. cbv iota.
  rewrite (ntt_outer_eq _ 3 32 4) by (try (repeat apply ZL; auto); cbn; lia). change (Nat.div 32 2) with 16%nat. cbn [Nat.add].
  rewrite ST. cbv beta iota. change (Nat.leb 1 16) with true. cbv iota.
  rewrite (ntt_outer_eq _ 7 16 8) by (try (repeat apply ZL; auto); cbn; lia). change (Nat.div 16 2) with 8%nat. cbn [Nat.add].
  rewrite ST. cbv beta iota. change (Nat.leb 1 8) with true. cbv iota.
  rewrite (ntt_outer_eq _ 15 8 16) by (try (repeat apply ZL; auto); cbn; lia). change (Nat.div 8 2) with 4%nat. cbn [Nat.add].
  rewrite ST. cbv beta iota. change (Nat.leb 1 4) with true. cbv iota.
  rewrite (ntt_outer_eq _ 31 4 32) by (try (repeat apply ZL; auto); cbn; lia). change (Nat.div 4 2) with 2%nat. cbn [Nat.add].
  rewrite ST. cbv beta iota. change (Nat.leb 1 2) with true. cbv iota.
  rewrite (ntt_outer_eq _ 63 2 64) by (try (repeat apply ZL; auto); cbn; lia). change (Nat.div 2 2) with 1%nat. cbn [Nat.add].
  rewrite ST. cbv beta iota. change (Nat.leb 1 1) with true. cbv iota.
  rewrite (ntt_outer_eq _ 127 1 128) by (try (repeat apply ZL; auto); cbn; lia). change (Nat.div 1 2) with 0%nat. cbn [Nat.add].
  cbn [FIPS.while_].
  rewrite !zblocks_model. rewrite <- !zblocks_model.
  repeat (rewrite (map_modq_canon (zblocks _ _ _ _)) by apply canon_zblocks).
  rewrite !zblocks_model.
  repeat (rewrite (map_modq_canon (ntt_blocks _ _ _ _)) by (rewrite <- zblocks_model; apply canon_zblocks)).
  reflexivity.
Qed.

(* ------------------------------------------------------------------ *)
(* inverse                                                              *)
(* ------------------------------------------------------------------ *)
Definition inv_lo (a b : Z) : Z := (a + b) mod q.
Definition inv_hi (z a b : Z) : Z := (z * ((a - b) mod q)) mod q.

Definition intt_inner (z : Z) (len : nat) :=
  fun (j : nat) (w : list Z) =>
    let t := nth j w 0 in
    let w := FIPS.set_nth j ((t + nth (j + len) w 0) mod FIPS.q) w in
    let w := FIPS.set_nth (j + len) ((t - nth (j + len) w 0) mod FIPS.q) w in
    FIPS.set_nth (j + len) ((z * nth (j + len) w 0) mod FIPS.q) w.

Lemma intt_inner_eq z len : forall lo hi pre mid post, length lo = length hi -> (length lo + length mid = len)%nat ->
  FIPS.for_ (length pre) (length lo) (intt_inner z len) (pre ++ lo ++ mid ++ hi ++ post) =
  pre ++ map2 inv_lo lo hi ++ mid ++ map2 (inv_hi z) lo hi ++ post.
Proof.
  induction lo as [|a lo IH]; intros [|b hi] pre mid post LH LL; try discriminate; [reflexivity|].
  cbn [length] in *. cbn [FIPS.for_ map2]. unfold intt_inner at 2. change FIPS.q with q.
  assert (L2 : forall x, (length pre + len)%nat = length (pre ++ (x :: lo) ++ mid)).
  { intros x. rewrite !app_length. cbn [length]. lia. }
  assert (R : forall x y, pre ++ (x :: lo) ++ mid ++ (y :: hi) ++ post = (pre ++ (x :: lo) ++ mid) ++ y :: (hi ++ post)).
  { intros x y. rewrite <- !app_assoc. reflexivity. }
  assert (E1 : nth (length pre) (pre ++ (a :: lo) ++ mid ++ (b :: hi) ++ post) 0 = a) by apply nth_mid.
  assert (E2 : forall x y, nth (length pre + len) (pre ++ (x :: lo) ++ mid ++ (y :: hi) ++ post) 0 = y).
  { intros x y. rewrite R, (L2 x). apply nth_mid. }
  assert (S2 : forall x y v, FIPS.set_nth (length pre + len) v (pre ++ (x :: lo) ++ mid ++ (y :: hi) ++ post) =
                             pre ++ (x :: lo) ++ mid ++ (v :: hi) ++ post).
  { intros x y v. rewrite R, (L2 x), set_nth_app_mid, <- !app_assoc. reflexivity. }
  rewrite E1, E2. cbn [app]. rewrite set_nth_app_mid.
  change (pre ++ (a + b) mod q :: lo ++ mid ++ b :: hi ++ post)
    with (pre ++ ((a + b) mod q :: lo) ++ mid ++ (b :: hi) ++ post).
  rewrite E2, S2, E2, S2.
  fold (inv_lo a b) (inv_hi z a b).
  replace (pre ++ (inv_lo a b :: lo) ++ mid ++ (inv_hi z a b :: hi) ++ post)
    with ((pre ++ [inv_lo a b]) ++ lo ++ (mid ++ [inv_hi z a b]) ++ hi ++ post)
    by (rewrite <- !app_assoc; reflexivity).
  replace (S (length pre)) with (length (pre ++ [inv_lo a b])) by (rewrite app_length; cbn [length]; lia).
  rewrite IH by (try rewrite app_length; cbn [length]; lia).
  rewrite <- !app_assoc. reflexivity.
Qed.

Fixpoint ziblocks (nb len m : nat) (p : list Z) : list Z :=
  match nb with
  | O => []
  | S nb' =>
      let lo := firstn len p in
      let hi := firstn len (skipn len p) in
      let z := - zeta_at (Nat.pred m) in
      map2 inv_lo lo hi ++ map2 (inv_hi z) lo hi ++ ziblocks nb' len (Nat.pred m) (skipn (2 * len) p)
  end.

Definition intt_mid (len : nat) :=
  fun '((w, m, start) : list Z * nat * nat) =>
    let m := Nat.pred m in
    let z := - FIPS.zetas m in
    let w := FIPS.for_ start len (intt_inner z len) w in
    (w, m, (start + 2 * len)%nat).

Lemma ziblocks_length len : forall nb m p, length p = (nb * (2 * len))%nat -> length (ziblocks nb len m p) = (nb * (2 * len))%nat.
Proof.
  induction nb as [|nb IH]; intros m p L; [reflexivity|]. cbn [ziblocks].
  rewrite !app_length, !map2_length by (rewrite !firstn_length, !skipn_length; lia).
  rewrite firstn_length, IH by (rewrite skipn_length; lia). lia.
Qed.

Lemma intt_mid_eq len : (0 < len)%nat -> forall nb fuel done rest m, (nb <= fuel)%nat ->
  length rest = (nb * (2 * len))%nat -> (length done + length rest = 256)%nat -> (nb + 1 <= m <= 256)%nat ->
  FIPS.while_ fuel mid_cond (intt_mid len) (done ++ rest, m, length done) =
  (done ++ ziblocks nb len m rest, (m - nb)%nat, 256%nat).
Proof.
  intros Hlen. induction nb as [|nb IH]; intros fuel done rest m Hf Lr L256 Hm.
  - destruct rest; [|cbn in Lr; lia]. cbn [length] in L256. rewrite Nat.add_0_r in *. rewrite L256, Nat.sub_0_r.
    destruct fuel; cbn [FIPS.while_ mid_cond ziblocks]; reflexivity.
  - destruct fuel as [|fuel]; [lia|]. cbn [FIPS.while_]. unfold mid_cond at 1.
    replace (Nat.ltb (length done) 256) with true by (symmetry; apply Nat.ltb_lt; lia).
    unfold intt_mid at 2. cbv zeta.
    rewrite zetas_eq by lia.
    set (lo := firstn len rest). set (hi := firstn len (skipn len rest)). set (rest' := skipn (2 * len) rest).
    assert (Llo : length lo = len) by (unfold lo; rewrite firstn_length; lia).
    assert (Lhi : length hi = len) by (unfold hi; rewrite firstn_length, skipn_length; lia).
    assert (ER : rest = lo ++ hi ++ rest').
    { unfold lo, hi, rest'. rewrite <- (firstn_skipn len rest) at 1. f_equal.
      rewrite <- (firstn_skipn len (skipn len rest)) at 1. f_equal. rewrite skipn_add. f_equal. lia. }
    rewrite ER at 1.
    set (z := - zeta_at (Nat.pred m)).
    pose proof (intt_inner_eq z len lo hi done [] rest' ltac:(lia) ltac:(cbn [length]; lia)) as E.
    cbn [app] in E. rewrite Llo in E. rewrite E. clear E.
    replace (done ++ map2 inv_lo lo hi ++ map2 (inv_hi z) lo hi ++ rest')
      with ((done ++ map2 inv_lo lo hi ++ map2 (inv_hi z) lo hi) ++ rest')
      by (rewrite <- !app_assoc; reflexivity).
    replace (length done + 2 * len)%nat
      with (length (done ++ map2 inv_lo lo hi ++ map2 (inv_hi z) lo hi))
      by (rewrite !app_length, !map2_length by lia; lia).
    assert (Lr' : length rest' = (nb * (2 * len))%nat) by (unfold rest'; rewrite skipn_length; lia).
    rewrite IH; [| lia | exact Lr' | rewrite !app_length, !map2_length by lia; lia | lia].
    cbn [ziblocks]. fold lo hi rest' z. rewrite <- !app_assoc.
    replace (Nat.pred m - nb)%nat with (m - S nb)%nat by lia. reflexivity.
Qed.

Lemma map_map2 {A B C D} (g : C -> D) (f : A -> B -> C) a b : map g (map2 f a b) = map2 (fun x y => g (f x y)) a b.
Proof. revert b; induction a as [|x a IH]; intros [|y b]; cbn; auto. f_equal. apply IH. Qed.

Lemma map2_ext_in (f g : Z -> Z -> Z) a b : canon a -> canon b ->
  (forall x y, 0 <= x < q -> 0 <= y < q -> f x y = g x y) -> map2 f a b = map2 g a b.
Proof.
  intros Ca Cb E. revert b Cb; induction Ca as [|x a Hx Ca IH]; intros [|y b] Cb; cbn; auto.
  inversion Cb; subst. rewrite E by auto. f_equal. apply IH. assumption.
Qed.

Lemma ziblocks_model len : forall nb m p, canon p -> ziblocks nb len m p = intt_blocks nb len m p.
Proof.
  induction nb as [|nb IH]; intros m p Cp; [reflexivity|]. cbn [ziblocks intt_blocks].
  rewrite IH by (apply canon_skipn; exact Cp).
  pose proof (zeta_at_range (Nat.pred m)) as Rz.
  assert (C1 : canon (firstn len p)) by (apply canon_firstn; exact Cp).
  assert (C2 : canon (firstn len (skipn len p))) by (apply canon_firstn, canon_skipn; exact Cp).
  f_equal; [|f_equal].
  - apply map2_ext_in; auto. intros x y Hx Hy. unfold inv_lo. symmetry. apply k_add_spec; auto.
  - rewrite map_map2. apply map2_ext_in; auto. intros x y Hx Hy. unfold inv_hi.
    rewrite k_sub_spec, k_neg_spec by auto. rewrite k_mul_spec by (auto using mod_q_range).
    rewrite Zmult_mod_idemp_l. reflexivity.
Qed.

Lemma canon_ziblocks len : forall nb m p, canon (ziblocks nb len m p).
Proof.
  induction nb as [|nb IH]; intros m p; cbn [ziblocks]; [constructor|].
  apply canon_app. split; [|apply canon_app; split; [|apply IH]];
    apply canon_map2_mod; intros; apply mod_q_range.
Qed.

Lemma canon_intt_blocks len nb m p : canon p -> canon (intt_blocks nb len m p).
Proof. intros C. rewrite <- ziblocks_model by exact C. apply canon_ziblocks. Qed.

Lemma intt_blocks_len len nb m p : canon p -> length p = 256%nat -> (nb * (2 * len) = 256)%nat ->
  length (intt_blocks nb len m p) = 256%nat.
Proof. intros C L E. rewrite <- ziblocks_model by exact C. rewrite ziblocks_length by lia. exact E. Qed.

Definition intt_outer :=
  fun '((w, m, len) : list Z * nat * nat) =>
    let '(w, m, _) := FIPS.while_ 128 mid_cond (intt_mid len) (w, m, O) in
    (w, m, (2 * len)%nat).

Lemma NTT_inv_unfold (wh : list Z) : FIPS.NTT_inv wh =
  let '(w, _, _) := FIPS.while_ 8 (fun '(w, m, len) => Nat.ltb len 256) intt_outer (wh, 256%nat, 1%nat) in
  FIPS.array 256 (fun j => (8347681 * nth j w 0) mod FIPS.q).
Proof. reflexivity. Qed.

Lemma intt_outer_eq w m len nb : length w = 256%nat -> (0 < len)%nat -> (nb * (2 * len) = 256)%nat ->
  (nb <= 128)%nat -> (nb + 1 <= m <= 256)%nat ->
  intt_outer (w, m, len) = (ziblocks nb len m w, (m - nb)%nat, (2 * len)%nat).
Proof.
  intros L Hl Hn Hb Hm. unfold intt_outer.
  pose proof (intt_mid_eq len Hl nb 128 [] w m Hb ltac:(lia) ltac:(cbn [length]; lia) Hm) as E.
  cbn [app length] in E. rewrite E. reflexivity.
Qed.

Theorem NTT_inv_eq (w : list Z) : cpoly w -> FIPS.NTT_inv w = intt w.
Proof.
  intros [L C]. rewrite NTT_inv_unfold, intt_unfold.
  assert (ST : forall r cond body (st : list Z * nat * nat),
     FIPS.while_ (S r) cond body st = if cond st then FIPS.while_ r cond body (body st) else st) by reflexivity.
  assert (ZL : forall nb len m p, length p = 256%nat -> (nb * (2 * len) = 256)%nat -> length (ziblocks nb len m p) = 256%nat).
  { intros nb len m p Lp E. rewrite ziblocks_length by lia. exact E. }
  rewrite ST. cbv beta iota. change (Nat.ltb 1 256) with true. cbv iota.
  rewrite (intt_outer_eq w 256 1 128) by (cbn; lia). change (2 * 1)%nat with 2%nat. change (256 - 128)%nat with 128%nat.
  rewrite ST. cbv beta iota. change (Nat.ltb 2 256) with true. cbv iota.
  rewrite (intt_outer_eq _ 128 2 64) by (try apply ZL; cbn; lia). change (2 * 2)%nat with 4%nat. change (128 - 64)%nat with 64%nat.
  rewrite ST. cbv beta iota. change (Nat.ltb 4 256) with true. cbv iota.
  rewrite (intt_outer_eq _ 64 4 32) by (try (repeat apply ZL; auto); cbn; lia). change (2 * 4)%nat with 8%nat. change (64 - 32)%nat with 32%nat.
  rewrite ST. cbv beta iota. change (Nat.ltb 8 256) with true. cbv iota.
  rewrite (intt_outer_eq _ 32 8 16) by (try (repeat apply ZL; auto); cbn; lia). change (2 * 8)%nat with 16%nat. change (32 - 16)%nat with 16%nat.
  rewrite ST. cbv beta iota. change (Nat.ltb 16 256) with true. cbv iota.
  rewrite (intt_outer_eq _ 16 16 8) by (try (repeat apply ZL; auto); cbn; lia). change (2 * 16)%nat with 32%nat. change (16 - 8)%nat with 8%nat.
  rewrite ST. cbv beta iota. change (Nat.ltb 32 256) with true. cbv iota.
  rewrite (intt_outer_eq _ 8 32 4) by (try (repeat apply ZL; auto); cbn; lia). change (2 * 32)%nat with 64%nat. change (8 - 4)%nat with 4%nat.
  rewrite ST. cbv beta iota. change (Nat.ltb 64 256) with true. cbv iota.
  rewrite (intt_outer_eq _ 4 64 2) by (try (repeat apply ZL; auto); cbn; lia). change (2 * 64)%nat with 128%nat. change (4 - 2)%nat with 2%nat.
  rewrite ST. cbv beta iota. change (Nat.ltb 128 256) with true. cbv iota.
  rewrite (intt_outer_eq _ 2 128 1) by (try (repeat apply ZL; auto); cbn; lia). change (2 * 128)%nat with 256%nat. change (2 - 1)%nat with 1%nat.
  cbn [FIPS.while_].
  rewrite (ziblocks_model 1 128 256 w C).
  repeat match goal with |- context [ziblocks ?nb ?len ?m (intt_blocks ?a ?b ?c ?d)] =>
    rewrite (ziblocks_model len nb m (intt_blocks a b c d)) by (repeat apply canon_intt_blocks; exact C) end.
  set (W := intt_blocks 1 128 2 _).
  rewrite array_map.
  assert (LW : length W = 256%nat /\ canon W).
  { unfold W. split; [|repeat apply canon_intt_blocks; exact C].
    repeat (apply intt_blocks_len; [repeat apply canon_intt_blocks; exact C | | reflexivity]). exact L. }
  destruct LW as [LW CW].
  transitivity (map (fun x => (8347681 * x) mod FIPS.q) W); [exact (map_nth_seq_n (fun x => (8347681 * x) mod FIPS.q) W 0 256 LW)|].
  apply map_ext_in. intros x Hx. unfold canon in CW. rewrite Forall_forall in CW.
  symmetry. apply k_mul_spec; [vm_compute; split; congruence | apply CW; exact Hx].
Qed.
