(* Proofs about model/Hpke.v and model/Xwing.v. *)
From Coq Require Import List NArith Bool Arith Lia ZifyN ZifyNat ZifyBool.
From Tink Require Import Bytes Xwing Hpke.
Import ListNotations.
Open Scope N_scope.

(* ------------------------------------------------------------------ *)
(* generic facts: outcome, slices, fixed-width encodings               *)
(* ------------------------------------------------------------------ *)
Lemma bind_ok {A B} (o : outcome A) (f : A -> outcome B) b :
  bind o f = Ok b -> exists a, o = Ok a /\ f a = Ok b.
Proof. destruct o; simpl; intros H; try discriminate. eauto. Qed.

Lemma bind_not_panic {A B} (o : outcome A) (f : A -> outcome B) :
  o <> Panic -> (forall a, o = Ok a -> f a <> Panic) -> bind o f <> Panic.
Proof. destruct o; simpl; intros H1 H2; auto; try congruence. Qed.

Lemma slice_ok lo hi s x :
  slice lo hi s = Ok x -> (lo <= hi)%nat /\ (hi <= length s)%nat /\ x = firstn (hi - lo) (skipn lo s).
Proof.
  unfold slice. destruct (Nat.leb lo hi) eqn:E1; destruct (Nat.leb hi (length s)) eqn:E2; simpl; intros H; try discriminate.
  inversion H. apply Nat.leb_le in E1. apply Nat.leb_le in E2. auto.
Qed.

Lemma slice_in_range lo hi s : (lo <= hi)%nat -> (hi <= length s)%nat ->
  slice lo hi s = Ok (firstn (hi - lo) (skipn lo s)).
Proof.
  intros H1 H2. unfold slice.
  apply Nat.leb_le in H1. apply Nat.leb_le in H2. rewrite H1, H2. reflexivity.
Qed.

Lemma slice_not_panic lo hi s : (lo <= hi)%nat -> (hi <= length s)%nat -> slice lo hi s <> Panic.
Proof. intros. rewrite slice_in_range by assumption. discriminate. Qed.

Lemma slice_head a b : slice 0 (length a) (a ++ b) = Ok a.
Proof.
  rewrite slice_in_range; [|lia|rewrite app_length; lia].
  simpl. rewrite Nat.sub_0_r. rewrite firstn_app, Nat.sub_diag, firstn_all. simpl. rewrite app_nil_r. reflexivity.
Qed.

Lemma slice_tail a b : slice (length a) (length (a ++ b)) (a ++ b) = Ok b.
Proof.
  rewrite slice_in_range; [|rewrite app_length; lia|lia].
  rewrite skipn_app, skipn_all, Nat.sub_diag. simpl.
  rewrite app_length. replace (length a + length b - length a)%nat with (length b) by lia.
  rewrite firstn_all. reflexivity.
Qed.

Lemma slice_mid a b c : slice (length a) (length a + length b) (a ++ b ++ c) = Ok b.
Proof.
  rewrite slice_in_range; [|lia|rewrite !app_length; lia].
  rewrite skipn_app, skipn_all, Nat.sub_diag. simpl.
  replace (length a + length b - length a)%nat with (length b) by lia.
  rewrite firstn_app, Nat.sub_diag, firstn_all. simpl. rewrite app_nil_r. reflexivity.
Qed.

Lemma slice_split n s : (n <= length s)%nat ->
  exists a b, s = a ++ b /\ length a = n /\ slice 0 n s = Ok a /\ slice n (length s) s = Ok b.
Proof.
  intros H. exists (firstn n s), (skipn n s).
  assert (L : length (firstn n s) = n) by (rewrite firstn_length; lia).
  split; [symmetry; apply firstn_skipn|]. split; [exact L|].
  split.
  - rewrite slice_in_range by lia. simpl. rewrite Nat.sub_0_r. reflexivity.
  - rewrite slice_in_range by lia. rewrite firstn_all2; [reflexivity|]. rewrite skipn_length. lia.
Qed.

Lemma app_inv_length {A} (a b c d : list A) : a ++ b = c ++ d -> length a = length c -> a = c /\ b = d.
Proof.
  revert c; induction a as [|x a IH]; destruct c as [|y c]; simpl; intros H L; try discriminate; auto.
  inversion H; subst. destruct (IH c H2) as [-> ->]; auto.
Qed.

Lemma bytes_eq_dec (a b : bytes) : {a = b} + {a <> b}.
Proof. apply list_eq_dec. apply N.eq_dec. Qed.

Lemma beq_false a b : beq a b = false <-> a <> b.
Proof.
  split.
  - intros H E. apply beq_eq in E. congruence.
  - intros H. destruct (beq a b) eqn:E; auto. apply beq_eq in E. contradiction.
Qed.

Lemma xorb_zeros_l a n : n = length a -> xorb (zeros n) a = a.
Proof. intros ->. rewrite xorb_comm. apply xorb_zeros_r. lia. Qed.

(* be_bytes 2 is injective below 2^16 *)
Lemma be_bytes2_inj x y : x < 65536 -> y < 65536 -> be_bytes 2 x = be_bytes 2 y -> x = y.
Proof.
  intros Hx Hy H.
  assert (E : be_val (be_bytes 2 x) = be_val (be_bytes 2 y)) by (rewrite H; reflexivity).
  rewrite !be_val_be_bytes in E. change (256 ^ N.of_nat 2) with 65536 in E.
  rewrite !N.mod_small in E by assumption. exact E.
Qed.

(* ------------------------------------------------------------------ *)
(* identifiers, suite ids, labels                                      *)
(* ------------------------------------------------------------------ *)
Lemma compute_nonce_seq0 bn : compute_nonce bn 0 = Ok bn.
Proof.
  unfold compute_nonce. cbn. rewrite Nat.sub_0_r, app_nil_r.
  rewrite xorb_zeros_l; reflexivity.
Qed.

Lemma kem_id_inj k k' : kem_id k = kem_id k' -> k = k'.
Proof. destruct k, k'; simpl; intros H; try reflexivity; discriminate. Qed.
Lemma kdf_id_inj d d' : kdf_id d = kdf_id d' -> d = d'.
Proof. destruct d, d'; simpl; intros H; try reflexivity; discriminate. Qed.
Lemma aead_id_inj a a' : aead_id a = aead_id a' -> a = a'.
Proof. destruct a, a'; simpl; intros H; try reflexivity; discriminate. Qed.
Lemma kem_id_16 k : kem_id k < 65536. Proof. destruct k; simpl; lia. Qed.
Lemma kdf_id_16 d : kdf_id d < 65536. Proof. destruct d; simpl; lia. Qed.
Lemma aead_id_16 a : aead_id a < 65536. Proof. destruct a; simpl; lia. Qed.

Lemma hpke_suite_id_length k d a : length (hpke_suite_id k d a) = 10%nat.
Proof. unfold hpke_suite_id. rewrite !app_length, !be_bytes_length. reflexivity. Qed.
Lemma kem_suite_id_length k : length (kem_suite_id k) = 5%nat.
Proof. unfold kem_suite_id. rewrite !app_length, !be_bytes_length. reflexivity. Qed.

Lemma hpke_suite_id_inj k d a k' d' a' :
  hpke_suite_id k d a = hpke_suite_id k' d' a' -> k = k' /\ d = d' /\ a = a'.
Proof.
  unfold hpke_suite_id. intros H.
  apply app_inv_head in H.
  apply app_inv_length in H; [|rewrite !be_bytes_length; reflexivity]. destruct H as [H1 H].
  apply app_inv_length in H; [|rewrite !be_bytes_length; reflexivity]. destruct H as [H2 H3].
  apply be_bytes2_inj in H1; auto using kem_id_16.
  apply be_bytes2_inj in H2; auto using kdf_id_16.
  apply be_bytes2_inj in H3; auto using aead_id_16.
  auto using kem_id_inj, kdf_id_inj, aead_id_inj.
Qed.

Lemma kem_suite_id_inj k k' : kem_suite_id k = kem_suite_id k' -> k = k'.
Proof.
  unfold kem_suite_id. intros H. apply app_inv_head in H.
  apply be_bytes2_inj in H; auto using kem_id_16, kem_id_inj.
Qed.

(* KEM-level and HPKE-level suite ids never coincide (domain separation) *)
Lemma kem_hpke_suite_id_disjoint k k' d a : kem_suite_id k <> hpke_suite_id k' d a.
Proof.
  intros H. apply (f_equal (@length N)) in H.
  rewrite kem_suite_id_length, hpke_suite_id_length in H. discriminate.
Qed.

(* labelInfo: succeeds exactly below 2^16, and the first two bytes are the
   big-endian requested length *)
Lemma label_info_ok label info suite len b :
  label_info label info suite len = Ok b ->
  N.of_nat len < 65536 /\ be_val (firstn 2 b) = N.of_nat len /\
  b = be_bytes 2 (N.of_nat len) ++ s_hpke_v1 ++ suite ++ label ++ info.
Proof.
  unfold label_info. destruct (N.ltb_spec (N.of_nat len) 65536); intros E; [|discriminate].
  assert (Hb : b = be_bytes 2 (N.of_nat len) ++ s_hpke_v1 ++ suite ++ label ++ info) by congruence.
  clear E. subst b.
  split; [assumption|]. split; [|reflexivity].
  rewrite firstn_app. rewrite be_bytes_length. simpl (2 - 2)%nat. simpl (firstn 0 _). rewrite app_nil_r.
  rewrite firstn_all2 by (rewrite be_bytes_length; lia).
  rewrite be_val_be_bytes. change (256 ^ N.of_nat 2) with 65536. apply N.mod_small. assumption.
Qed.

Lemma label_info_err label info suite len :
  65536 <= N.of_nat len -> label_info label info suite len = Err.
Proof. unfold label_info. intros H. destruct (N.ltb_spec (N.of_nat len) 65536); [lia|reflexivity]. Qed.

Lemma label_info_never_panics label info suite len : label_info label info suite len <> Panic.
Proof. unfold label_info. destruct (N.ltb _ _); discriminate. Qed.

(* for one suite (ids have fixed width) and one label the labelled strings are
   injective in the payload *)
Lemma label_ikm_inj label suite x y : label_ikm label x suite = label_ikm label y suite -> x = y.
Proof. unfold label_ikm. intros H. repeat apply app_inv_head in H. exact H. Qed.

Lemma label_info_inj label suite len x y bx :
  label_info label x suite len = Ok bx -> label_info label y suite len = Ok bx -> x = y.
Proof.
  intros Hx Hy. apply label_info_ok in Hx. apply label_info_ok in Hy.
  destruct Hx as (_ & _ & ->). destruct Hy as (_ & _ & H). repeat apply app_inv_head in H. exact H.
Qed.

(* ------------------------------------------------------------------ *)
(* theorems over arbitrary oracles satisfying the stated laws          *)
(* ------------------------------------------------------------------ *)
Ltac inv_bind H :=
  let a := fresh "v" in let H1 := fresh H "a" in let H2 := fresh H "b" in
  apply bind_ok in H; destruct H as (a & H1 & H2).

Section HpkeTheorems.
  Variable extract : hash -> bytes -> bytes -> bytes.
  Variable expand : hash -> bytes -> bytes -> nat -> bytes.
  Variable dh : kem -> bytes -> bytes -> option bytes.
  Variable dh_pub : kem -> bytes -> option bytes.
  Variable mlkem_decap : kem -> bytes -> bytes -> option bytes.
  Variable mlkem_encap : kem -> bytes -> bytes -> option (bytes * bytes).
  Variable mlkem_pub : kem -> bytes -> option bytes.
  Variable shake256 : bytes -> nat -> bytes.
  Variable sha3_256 : bytes -> bytes.
  Variable seal : aead -> bytes -> bytes -> bytes -> bytes -> bytes.
  Variable open : aead -> bytes -> bytes -> bytes -> bytes -> option bytes.

  Notation Encap := (encap extract expand dh dh_pub mlkem_encap sha3_256).
  Notation Decap := (decap extract expand dh dh_pub mlkem_decap shake256 sha3_256).
  Notation PubOf := (public_from_private dh_pub mlkem_pub shake256).
  Notation KeySchedule := (key_schedule extract expand).
  Notation ContextSeal := (context_seal seal).
  Notation ContextOpen := (context_open open).
  Notation RawEncrypt := (raw_encrypt extract expand dh dh_pub mlkem_encap sha3_256 seal).
  Notation RawDecrypt := (raw_decrypt extract expand dh dh_pub mlkem_decap shake256 sha3_256 open).
  Notation Encrypt := (hpke_encrypt extract expand dh dh_pub mlkem_encap sha3_256 seal).
  Notation Decrypt := (hpke_decrypt extract expand dh dh_pub mlkem_decap shake256 sha3_256 open).
  Notation Recompute := (hpke_recompute extract expand dh dh_pub mlkem_decap shake256 sha3_256 seal).


  (* ---- laws of the stdlib primitives (hypotheses of the theorems) ---- *)
  (* HKDF-Expand returns as many bytes as asked *)
  Hypothesis expand_len : forall h prk info n, length (expand h prk info n) = n.
  (* Diffie-Hellman commutes on genuine public keys *)
  Hypothesis dh_comm : forall k a b A B, is_dhkem k = true ->
    dh_pub k a = Some A -> dh_pub k b = Some B -> dh k a B = dh k b A.
  (* public keys and accepted private keys have the lengths of the group *)
  Hypothesis dh_pub_len : forall k sk p, is_dhkem k = true ->
    dh_pub k sk = Some p -> length p = n_pk k /\ length sk = n_sk k.
  (* ML-KEM correctness and sizes *)
  Hypothesis mlkem_correct : forall k seed pk coins ss ct, is_mlkem k = true ->
    mlkem_pub k seed = Some pk -> mlkem_encap k pk coins = Some (ss, ct) ->
    mlkem_decap k seed ct = Some ss /\ length ct = n_enc k.
  Hypothesis mlkem_pub_len : forall k seed pk, is_mlkem k = true ->
    mlkem_pub k seed = Some pk -> length pk = n_pk k /\ length seed = 64%nat.
  (* AEAD: Open inverts Seal, and accepts nothing else *)
  Hypothesis open_seal : forall a k n ad p, open a k n ad (seal a k n ad p) = Some p.
  Hypothesis open_sound : forall a k n ad c p, open a k n ad c = Some p -> c = seal a k n ad p.

  Lemma dh_comm' k a b A B : dh_pub k a = Some A -> dh_pub k b = Some B -> is_dhkem k = true ->
    dh k a B = dh k b A.
  Proof. intros; apply dh_comm; auto. Qed.
  Lemma dh_pub_len' k sk p : dh_pub k sk = Some p -> is_dhkem k = true ->
    length p = n_pk k /\ length sk = n_sk k.
  Proof. intros; apply dh_pub_len; auto. Qed.
  Lemma mlkem_correct' k seed pk coins ss ct :
    mlkem_pub k seed = Some pk -> mlkem_encap k pk coins = Some (ss, ct) -> is_mlkem k = true ->
    mlkem_decap k seed ct = Some ss /\ length ct = n_enc k.
  Proof. intros; eapply mlkem_correct; eauto. Qed.
  Lemma mlkem_pub_len' k seed pk : mlkem_pub k seed = Some pk -> is_mlkem k = true ->
    length pk = n_pk k /\ length seed = 64%nat.
  Proof. intros; eapply mlkem_pub_len; eauto. Qed.

  (* ---- the KEM law, derived for every KEM ---- *)
  Lemma xw_expand_ok sk seedM skX :
    xw_expand shake256 sk = Ok (seedM, skX) -> length sk = 32%nat.
  Proof.
    unfold xw_expand. destruct (Nat.eqb_spec (length sk) xw_secret_key_size); simpl; intros H; [|discriminate].
    exact e.
  Qed.

  Lemma kem_law k skR pkR eph ss enc :
    PubOf k skR = Ok pkR -> Encap k pkR eph = Ok (ss, enc) ->
    Decap k enc skR = Ok ss /\ length enc = n_enc k /\ length skR = n_sk k.
  Proof.
    intros Hpub Henc.
    destruct k.
    1-4: (
      unfold public_from_private in Hpub; unfold encap in Henc; unfold decap; cbv beta iota in Hpub, Henc |- *;
      destruct (dh_pub _ skR) as [p|] eqn:Ep; [|discriminate];
      assert (p = pkR) by congruence; subst p;
      destruct (dh _ eph pkR) as [dhv|] eqn:Ed; [|discriminate];
      destruct (dh_pub _ eph) as [e|] eqn:Ee; [|discriminate];
      inv_bind Henc; assert (v = ss /\ e = enc) as [-> ->] by (split; congruence);
      rewrite (dh_comm' _ skR eph pkR enc Ep Ee eq_refl), Ed;
      destruct (dh_pub_len' _ _ _ Ee eq_refl) as [L1 _]; destruct (dh_pub_len' _ _ _ Ep eq_refl) as [_ L2];
      auto).
    1-2: (
      unfold public_from_private in Hpub; unfold encap in Henc; unfold decap; cbv beta iota in Hpub, Henc |- *;
      destruct (mlkem_pub _ skR) as [p|] eqn:Ep; [|discriminate];
      assert (p = pkR) by congruence; subst p;
      destruct (mlkem_encap _ pkR eph) as [[s c]|] eqn:Ee; [|discriminate];
      assert (s = ss /\ c = enc) as [-> ->] by (split; congruence);
      destruct (mlkem_correct' _ _ _ _ _ _ Ep Ee eq_refl) as [D L]; rewrite D;
      destruct (mlkem_pub_len' _ _ _ Ep eq_refl) as [_ L2]; auto).
    (* X-Wing *)
    unfold public_from_private in Hpub; unfold encap in Henc; unfold decap; cbv beta iota in Hpub, Henc |- *.
    unfold xw_pub, xw_public in Hpub. unfold xw_enc, xw_encap in Henc. unfold xw_dec, xw_decap.
    inv_bind Hpub. destruct v as [seedM skX].
    pose proof (xw_expand_ok _ _ _ Hpuba) as Lsk.
    destruct (mlkem_pub MLKEM768 seedM) as [pkM|] eqn:EpM; [|discriminate].
    destruct (dh_pub X25519 skX) as [pkX|] eqn:EpX; [|discriminate].
    assert (pkR = pkM ++ pkX) by congruence. subst pkR. clear Hpubb.
    destruct (mlkem_pub_len' _ _ _ EpM eq_refl) as [LpkM _].
    assert (LpkM' : length pkM = mlkem768_ek_size) by (rewrite LpkM; reflexivity).
    destruct (Nat.eqb_spec (length (pkM ++ pkX)) xw_public_key_size) as [Lpk|]; [|discriminate].
    cbv beta iota in Henc. unfold negb in Henc.
    rewrite <- LpkM' in Henc.
    rewrite slice_head in Henc. cbn [bind] in Henc. rewrite slice_tail in Henc. cbn [bind] in Henc.
    destruct (dh_pub X25519 (firstn 32 eph)) as [ctX|] eqn:EctX; [|discriminate].
    destruct (dh X25519 (firstn 32 eph) pkX) as [ssX|] eqn:EssX; [|discriminate].
    destruct (mlkem_encap MLKEM768 pkM (skipn 32 eph)) as [[ssM ctM]|] eqn:EM; [|discriminate].
    assert (ss = xw_combiner sha3_256 ssM ssX ctX pkX /\ enc = ctM ++ ctX) as [-> ->] by (split; congruence).
    destruct (mlkem_correct' _ _ _ _ _ _ EpM EM eq_refl) as [DM LctM].
    destruct (dh_pub_len' _ _ _ EctX eq_refl) as [LctX _].
    assert (LctM' : length ctM = mlkem768_ct_size) by (rewrite LctM; reflexivity).
    assert (Lenc : length (ctM ++ ctX) = xw_ciphertext_size) by (rewrite app_length, LctM, LctX; reflexivity).
    rewrite Lenc at 1. rewrite Nat.eqb_refl. unfold negb. cbv iota.
    rewrite Hpuba. cbn [bind]. cbv beta iota.
    rewrite <- LctM'.
    rewrite slice_head. cbn [bind]. rewrite slice_tail. cbn [bind].
    rewrite DM. rewrite (dh_comm' X25519 skX (firstn 32 eph) pkX ctX EpX EctX eq_refl), EssX, EpX.
    split; [reflexivity|]. split; [rewrite Lenc; reflexivity|rewrite Lsk; reflexivity].
  Qed.
  (* ---- key schedule and single-shot context ---- *)
  Lemma labeled_expand_ok h prk info label suite n x :
    labeled_expand expand h prk info label suite n = Ok x ->
    exists li, label_info label info suite n = Ok li /\ x = expand h prk li n /\ length x = n.
  Proof.
    unfold labeled_expand. intros H. inv_bind H. exists v. split; [assumption|].
    destruct (Nat.ltb (255 * hash_len h) n); [discriminate|].
    assert (x = expand h prk v n) by congruence. subst x. split; [reflexivity|apply expand_len].
  Qed.

  Lemma labeled_expand_never_panics h prk info label suite n :
    labeled_expand expand h prk info label suite n <> Panic.
  Proof.
    unfold labeled_expand. apply bind_not_panic; [apply label_info_never_panics|].
    intros li _. destruct (Nat.ltb _ _); discriminate.
  Qed.

  Lemma key_schedule_lengths k d a ss info key bn :
    KeySchedule k d a ss info = Ok (key, bn) -> length key = n_k a /\ length bn = n_n a.
  Proof.
    unfold key_schedule. intros H. inv_bind H. inv_bind Hb.
    assert (v = key /\ v0 = bn) as [-> ->] by (split; congruence).
    apply labeled_expand_ok in Ha. apply labeled_expand_ok in Hba.
    destruct Ha as (_ & _ & _ & L1). destruct Hba as (_ & _ & _ & L2). auto.
  Qed.

  Lemma key_schedule_never_panics k d a ss info : KeySchedule k d a ss info <> Panic.
  Proof.
    unfold key_schedule. apply bind_not_panic; [apply labeled_expand_never_panics|].
    intros key _. apply bind_not_panic; [apply labeled_expand_never_panics|]. discriminate.
  Qed.

  Lemma increment_seq_0 a : increment_seq a 0 = Ok 1.
  Proof. destruct a; reflexivity. Qed.

  Lemma aead_open_sound a key nonce ct p :
    aead_open open a key nonce ct [] = Ok p -> ct = seal a key nonce [] p.
  Proof.
    unfold aead_open. intros H. destruct a;
      repeat match type of H with context [if ?c then _ else _] => destruct c eqn:?; try discriminate H end;
      destruct (open _ key nonce [] ct) as [q|] eqn:E; try discriminate H;
      assert (q = p) by congruence; subst q; apply open_sound in E; exact E.
  Qed.

  Lemma aead_open_seal a key nonce pt ct :
    aead_seal seal a key nonce pt [] = Ok ct ->
    ct = seal a key nonce [] pt /\ aead_open open a key nonce ct [] = Ok pt.
  Proof.
    unfold aead_seal, aead_open. intros H. destruct a;
      repeat match type of H with context [if ?c then _ else _] => destruct c eqn:?; try discriminate H end;
      match type of H with Ok ?x = Ok _ => assert (E : ct = x) by congruence end; subst ct;
      rewrite open_seal; auto.
  Qed.

  Lemma aead_seal_never_panics a key nonce pt : length nonce = n_n a -> aead_seal seal a key nonce pt [] <> Panic.
  Proof.
    intros L. unfold aead_seal. destruct a;
      repeat match goal with |- context [if ?c then _ else _] => destruct c eqn:?; try discriminate end.
    rewrite L in *. discriminate.
  Qed.

  Lemma aead_open_never_panics a key nonce ct : length nonce = n_n a -> aead_open open a key nonce ct [] <> Panic.
  Proof.
    intros L. unfold aead_open. destruct a;
      repeat match goal with |- context [if ?c then _ else _] => destruct c eqn:?; try discriminate end;
      try (destruct (open _ _ _ _ _); discriminate).
    rewrite L in *. discriminate.
  Qed.

  Lemma context_open_sound a key bn ct p :
    ContextOpen a key bn ct = Ok p -> ct = seal a key bn [] p.
  Proof.
    unfold context_open. rewrite compute_nonce_seq0. cbn [bind]. intros H. inv_bind H.
    rewrite increment_seq_0 in Hb. cbn [bind] in Hb. assert (v = p) by congruence. subst v.
    apply aead_open_sound in Ha. exact Ha.
  Qed.

  Lemma context_seal_open a key bn pt ct :
    ContextSeal a key bn pt = Ok ct -> ct = seal a key bn [] pt /\ ContextOpen a key bn ct = Ok pt.
  Proof.
    unfold context_seal, context_open. rewrite compute_nonce_seq0. cbn [bind]. intros H. inv_bind H.
    rewrite increment_seq_0 in Hb. cbn [bind] in Hb. assert (v = ct) by congruence. subst v.
    apply aead_open_seal in Ha. destruct Ha as [-> Ho]. split; [reflexivity|].
    rewrite Ho. cbn [bind]. rewrite increment_seq_0. reflexivity.
  Qed.

  Lemma context_seal_never_panics a key bn pt : length bn = n_n a -> ContextSeal a key bn pt <> Panic.
  Proof.
    intros L. unfold context_seal. rewrite compute_nonce_seq0. cbn [bind].
    apply bind_not_panic; [apply aead_seal_never_panics; exact L|].
    intros ct _. rewrite increment_seq_0. discriminate.
  Qed.

  Lemma context_open_never_panics a key bn ct : length bn = n_n a -> ContextOpen a key bn ct <> Panic.
  Proof.
    intros L. unfold context_open. rewrite compute_nonce_seq0. cbn [bind].
    apply bind_not_panic; [apply aead_open_never_panics; exact L|].
    intros p _. rewrite increment_seq_0. discriminate.
  Qed.

  (* when does sealing succeed: always for ChaCha20-Poly1305, below the GCM limit for AES-GCM *)
  Lemma context_seal_succeeds a key bn pt :
    length key = n_k a -> length bn = n_n a -> N.of_nat (length pt) <= gcm_max_plaintext ->
    ContextSeal a key bn pt = Ok (seal a key bn [] pt).
  Proof.
    intros Lk Ln Lp. unfold context_seal. rewrite compute_nonce_seq0. cbn [bind].
    unfold aead_seal. rewrite Lk, Ln.
    destruct (N.ltb_spec gcm_max_plaintext (N.of_nat (length pt))); [lia|].
    destruct a; cbn; reflexivity.
  Qed.
  Lemma context_open_of_seal a key bn p :
    length key = n_k a -> length bn = n_n a -> ContextOpen a key bn (seal a key bn [] p) = Ok p.
  Proof.
    intros Lk Ln. unfold context_open. rewrite compute_nonce_seq0. cbn [bind].
    unfold aead_open. rewrite Lk, Ln, open_seal.
    destruct a; cbn [negb Nat.eqb n_k n_n]; rewrite ?Nat.eqb_refl; cbn [negb bind]; rewrite increment_seq_0; reflexivity.
  Qed.

  (* ---- raw encrypt / decrypt ---- *)
  Lemma raw_encrypt_ok k d a pkR eph info pt c :
    RawEncrypt k d a pkR eph info pt = Ok c ->
    exists ss enc key bn, Encap k pkR eph = Ok (ss, enc) /\ KeySchedule k d a ss info = Ok (key, bn) /\
      c = enc ++ seal a key bn [] pt.
  Proof.
    unfold raw_encrypt. destruct (Nat.eqb (length pkR) 0); [discriminate|]. intros H.
    inv_bind H. destruct v as [ss enc]. inv_bind Hb. destruct v as [key bn]. inv_bind Hbb.
    apply context_seal_open in Hbba. destruct Hbba as [-> _].
    exists ss, enc, key, bn. repeat split; auto. congruence.
  Qed.

  Lemma raw_decrypt_iff k d a skR c info p : length skR <> 0%nat ->
    (RawDecrypt k d a skR c info = Ok p <->
     exists enc ss key bn, length enc = n_enc k /\ Decap k enc skR = Ok ss /\
       KeySchedule k d a ss info = Ok (key, bn) /\ c = enc ++ seal a key bn [] p).
  Proof.
    intros Lsk. unfold raw_decrypt.
    destruct (Nat.eqb_spec (length skR) 0) as [E|_]; [contradiction|].
    split.
    - destruct (Nat.ltb_spec (length c) (n_enc k)) as [|Lc]; [discriminate|].
      destruct (slice_split (n_enc k) c Lc) as (enc & act & -> & Lenc & S1 & S2).
      rewrite S1, S2. cbn [bind]. intros H.
      inv_bind H. rename v into ss. inv_bind Hb. destruct v as [key bn].
      apply context_open_sound in Hbb. subst act.
      exists enc, ss, key, bn. auto.
    - intros (enc & ss & key & bn & Lenc & Hd & Hk & ->).
      destruct (Nat.ltb_spec (length (enc ++ seal a key bn [] p)) (n_enc k)) as [L|_];
        [rewrite app_length in L; lia|].
      rewrite <- Lenc. rewrite slice_head, slice_tail. cbn [bind].
      rewrite Hd. cbn [bind]. rewrite Hk. cbn [bind].
      destruct (key_schedule_lengths _ _ _ _ _ _ _ Hk) as [Lk Ln].
      apply context_open_of_seal; assumption.
  Qed.

  Lemma raw_decrypt_never_panics k d a skR c info :
    (forall enc, length enc = n_enc k -> Decap k enc skR <> Panic) ->
    RawDecrypt k d a skR c info <> Panic.
  Proof.
    intros Hdec. unfold raw_decrypt.
    destruct (Nat.eqb (length skR) 0); [discriminate|].
    destruct (Nat.ltb_spec (length c) (n_enc k)) as [|Lc]; [discriminate|].
    destruct (slice_split (n_enc k) c Lc) as (enc & act & -> & Lenc & S1 & S2).
    rewrite S1, S2. cbn [bind].
    apply bind_not_panic; [apply Hdec; exact Lenc|]. intros ss _.
    apply bind_not_panic; [apply key_schedule_never_panics|]. intros [key bn] Hk.
    apply key_schedule_lengths in Hk. apply context_open_never_panics. apply Hk.
  Qed.

  (* decapsulation never panics on an encapsulated key of the KEM's length *)
  Lemma dhkem_derive_never_panics k dhv e p : dhkem_derive extract expand k dhv e p <> Panic.
  Proof. unfold dhkem_derive, extract_and_expand. apply labeled_expand_never_panics. Qed.

  Lemma decap_never_panics k enc skR : length enc = n_enc k -> Decap k enc skR <> Panic.
  Proof.
    intros L. destruct k; unfold decap; cbv beta iota.
    1-4: (destruct (dh _ skR enc); [|discriminate]; destruct (dh_pub _ skR); [|discriminate];
          apply dhkem_derive_never_panics).
    1-2: (destruct (mlkem_decap _ skR enc); discriminate).
    unfold xw_dec, xw_decap.
    destruct (negb (Nat.eqb (length enc) xw_ciphertext_size)); [discriminate|].
    apply bind_not_panic.
    { unfold xw_expand. destruct (negb _); discriminate. }
    intros [seedM skX] _.
    assert (L' : length enc = xw_ciphertext_size) by (rewrite L; reflexivity).
    apply bind_not_panic; [apply slice_not_panic; [lia|rewrite L'; unfold mlkem768_ct_size, xw_ciphertext_size; lia]|].
    intros ctM _.
    apply bind_not_panic; [apply slice_not_panic; [rewrite L'; unfold mlkem768_ct_size, xw_ciphertext_size; lia|lia]|].
    intros ctX _.
    destruct (mlkem_decap _ _ _); [|discriminate]. destruct (dh _ _ _); [|discriminate].
    destruct (dh_pub _ _); discriminate.
  Qed.

  (* ---- with the output prefix ---- *)
  Theorem hpke_decrypt_iff k d a prefix skR c info p : length skR <> 0%nat ->
    (Decrypt k d a prefix skR c info = Ok p <->
     exists enc ss key bn, length enc = n_enc k /\ Decap k enc skR = Ok ss /\
       KeySchedule k d a ss info = Ok (key, bn) /\ c = prefix ++ enc ++ seal a key bn [] p).
  Proof.
    intros Lsk. unfold hpke_decrypt. split.
    - destruct (Nat.ltb_spec (length c) (length prefix)) as [|Lc]; [discriminate|].
      destruct (slice_split (length prefix) c Lc) as (pf & rest & -> & Lpf & S1 & S2).
      rewrite S1, S2. cbn [bind].
      destruct (beq prefix pf) eqn:E; [|discriminate]. apply beq_eq in E. subst pf. cbn [negb].
      intros H. apply (raw_decrypt_iff _ _ _ _ _ _ _ Lsk) in H.
      destruct H as (enc & ss & key & bn & L & Hd & Hk & ->). exists enc, ss, key, bn. auto.
    - intros (enc & ss & key & bn & L & Hd & Hk & ->).
      destruct (Nat.ltb_spec (length (prefix ++ enc ++ seal a key bn [] p)) (length prefix)) as [L'|_];
        [rewrite app_length in L'; lia|].
      rewrite slice_head, slice_tail. cbn [bind]. rewrite beq_refl. cbn [negb].
      apply (raw_decrypt_iff _ _ _ _ _ _ _ Lsk). exists enc, ss, key, bn. auto.
  Qed.

  Theorem hpke_round_trip k d a prefix skR pkR eph info pt c :
    PubOf k skR = Ok pkR ->
    Encrypt k d a prefix pkR eph info pt = Ok c ->
    Decrypt k d a prefix skR c info = Ok pt.
  Proof.
    intros Hpub H. unfold hpke_encrypt in H. inv_bind H. rename v into raw.
    assert (c = prefix ++ raw) by congruence. subst c.
    apply raw_encrypt_ok in Ha. destruct Ha as (ss & enc & key & bn & He & Hk & ->).
    destruct (kem_law _ _ _ _ _ _ Hpub He) as (Hd & Lenc & Lsk).
    apply hpke_decrypt_iff; [rewrite Lsk; destruct k; discriminate|].
    exists enc, ss, key, bn. auto.
  Qed.

  (* the ciphertext determines itself: recomputing it from the encapsulated key
     it carries, the private key, info and plaintext gives the same bytes *)
  Theorem hpke_recompute_eq k d a prefix skR pkR eph info pt c :
    PubOf k skR = Ok pkR ->
    Encrypt k d a prefix pkR eph info pt = Ok c ->
    Recompute k d a prefix skR c info pt = Ok c.
  Proof.
    intros Hpub H. unfold hpke_encrypt in H. inv_bind H. rename v into raw.
    assert (c = prefix ++ raw) by congruence. subst c.
    unfold raw_encrypt in Ha. destruct (Nat.eqb (length pkR) 0); [discriminate|].
    inv_bind Ha. destruct v as [ss enc]. inv_bind Hab. destruct v as [key bn]. inv_bind Habb.
    assert (raw = enc ++ v) by congruence. subst raw.
    destruct (kem_law _ _ _ _ _ _ Hpub Haa) as (Hd & Lenc & Lsk).
    unfold hpke_recompute. rewrite <- Lenc. rewrite slice_mid. cbn [bind].
    rewrite Hd. cbn [bind]. rewrite Haba. cbn [bind]. rewrite Habba. reflexivity.
  Qed.

  Theorem hpke_decrypt_never_panics k d a prefix skR c info :
    Decrypt k d a prefix skR c info <> Panic.
  Proof.
    unfold hpke_decrypt.
    destruct (Nat.ltb_spec (length c) (length prefix)) as [|Lc]; [discriminate|].
    destruct (slice_split (length prefix) c Lc) as (pf & rest & -> & Lpf & S1 & S2).
    rewrite S1, S2. cbn [bind]. destruct (negb (beq prefix pf)); [discriminate|].
    apply raw_decrypt_never_panics. intros enc L. apply decap_never_panics. exact L.
  Qed.
  (* Encrypt never panics either *)
  Lemma encap_never_panics k pkR eph : Encap k pkR eph <> Panic.
  Proof.
    destruct k; unfold encap; cbv beta iota.
    1-4: (destruct (dh _ eph pkR); [|discriminate]; destruct (dh_pub _ eph); [|discriminate];
          apply bind_not_panic; [apply dhkem_derive_never_panics|discriminate]).
    1-2: (destruct (mlkem_encap _ pkR eph); discriminate).
    unfold xw_enc, xw_encap.
    destruct (Nat.eqb_spec (length pkR) xw_public_key_size) as [L|]; [|discriminate]. cbn [negb].
    apply bind_not_panic; [apply slice_not_panic; [lia|rewrite L; unfold mlkem768_ek_size, xw_public_key_size; lia]|].
    intros pkM _.
    apply bind_not_panic; [apply slice_not_panic; [rewrite L; unfold mlkem768_ek_size, xw_public_key_size; lia|lia]|].
    intros pkX _.
    destruct (dh_pub _ _); [|discriminate]. destruct (dh _ _ _); [|discriminate].
    destruct (mlkem_encap _ _ _) as [[? ?]|]; discriminate.
  Qed.

  Theorem hpke_encrypt_never_panics k d a prefix pkR eph info pt :
    Encrypt k d a prefix pkR eph info pt <> Panic.
  Proof.
    unfold hpke_encrypt. apply bind_not_panic; [|discriminate].
    unfold raw_encrypt. destruct (Nat.eqb (length pkR) 0); [discriminate|].
    apply bind_not_panic; [apply encap_never_panics|]. intros [ss enc] _.
    apply bind_not_panic; [apply key_schedule_never_panics|]. intros [key bn] Hk.
    apply key_schedule_lengths in Hk.
    apply bind_not_panic; [apply context_seal_never_panics; apply Hk|discriminate].
  Qed.

  (* ---------------------------------------------------------------- *)
  (* symbolic binding: a tampered (enc, info, key) is accepted only if *)
  (* one of the primitives exhibits an explicit collision              *)
  (* SUPERSEDED by proofs/HpkeBinding.v: [expand_collision] below      *)
  (* quantifies the output length, n = 0 makes it provable outright     *)
  (* (HpkeBinding.old_expand_collision_trivial), so the theorems of     *)
  (* this block that conclude "... \/ expand_collision" are vacuous and *)
  (* no longer appear in props/C06.v.  hpke_binding_prefix and          *)
  (* hpke_binding_payload (no collision disjunct) are still used.       *)
  (* ---------------------------------------------------------------- *)
  Definition extract_collision : Prop :=
    exists h x s x' s', (x <> x' \/ s <> s') /\ extract h x s = extract h x' s'.
  Definition expand_collision : Prop :=
    exists h prk i prk' i' n, (prk <> prk' \/ i <> i') /\ expand h prk i n = expand h prk' i' n.
  Definition seal_collision : Prop :=
    exists a k n p k' n' p', (k <> k' \/ n <> n' \/ p <> p') /\ seal a k n [] p = seal a k' n' [] p'.
  (* two different encapsulated keys that decapsulate to the same shared secret *)
  Definition decap_collision (k : kem) (skR : bytes) : Prop :=
    exists enc enc' ss, enc <> enc' /\ length enc = n_enc k /\ length enc' = n_enc k /\
      Decap k enc skR = Ok ss /\ Decap k enc' skR = Ok ss.

  Lemma extract_eq h x s x' s' : extract h x s = extract h x' s' -> (x = x' /\ s = s') \/ extract_collision.
  Proof.
    intros E. destruct (bytes_eq_dec x x') as [Ex|Nx].
    - destruct (bytes_eq_dec s s') as [Es|Ns]; [left; auto|right; exists h, x, s, x', s'; auto].
    - right; exists h, x, s, x', s'; auto.
  Qed.

  Lemma expand_eq h p i p' i' n : expand h p i n = expand h p' i' n -> (p = p' /\ i = i') \/ expand_collision.
  Proof.
    intros E. destruct (bytes_eq_dec p p') as [Ep|Np].
    - destruct (bytes_eq_dec i i') as [Ei|Ni]; [left; auto|right; exists h, p, i, p', i', n; auto].
    - right; exists h, p, i, p', i', n; auto.
  Qed.

  Lemma seal_eq a k n p k' n' p' : seal a k n [] p = seal a k' n' [] p' ->
    (k = k' /\ n = n' /\ p = p') \/ seal_collision.
  Proof.
    intros E.
    destruct (bytes_eq_dec k k') as [Ek|Nk]; [|right; exists a, k, n, p, k', n', p'; auto].
    destruct (bytes_eq_dec n n') as [En|Nn]; [|right; exists a, k, n, p, k', n', p'; auto].
    destruct (bytes_eq_dec p p') as [Ep|Np]; [|right; exists a, k, n, p, k', n', p'; auto].
    left; auto.
  Qed.

  (* equal AEAD keys out of the key schedule force equal shared secrets and infos *)
  Lemma key_schedule_key_inj k d a ss info ss' info' key bn bn' :
    KeySchedule k d a ss info = Ok (key, bn) -> KeySchedule k d a ss' info' = Ok (key, bn') ->
    (ss = ss' /\ info = info') \/ extract_collision \/ expand_collision.
  Proof.
    unfold key_schedule. intros H H'.
    inv_bind H. inv_bind Hb. inv_bind H'. inv_bind H'b.
    assert (v = key) by congruence. assert (v1 = key) by congruence. subst v v1.
    clear Hbb H'bb Hba H'ba.
    apply labeled_expand_ok in Ha. apply labeled_expand_ok in H'a.
    destruct Ha as (li & Hli & Ek & _). destruct H'a as (li' & Hli' & Ek' & _).
    rewrite Ek in Ek'. apply expand_eq in Ek'. destruct Ek' as [[Es El]|C]; [|auto].
    subst li'. pose proof (label_info_inj _ _ _ _ _ _ Hli Hli') as Ectx.
    unfold key_schedule_context in Ectx. injection Ectx as Ectx. apply app_inv_head in Ectx.
    unfold labeled_extract in Es, Ectx.
    apply extract_eq in Es. apply extract_eq in Ectx.
    destruct Es as [[_ Es]|C]; [|auto]. destruct Ectx as [[Ei _]|C]; [|auto].
    apply label_ikm_inj in Ei. auto.
  Qed.

  Definition collision_somewhere (k : kem) (skR : bytes) : Prop :=
    extract_collision \/ expand_collision \/ seal_collision \/ decap_collision k skR.

  (* the honest ciphertext, taken apart *)
  Lemma encrypt_shape k d a prefix skR pkR eph info pt c :
    PubOf k skR = Ok pkR -> Encrypt k d a prefix pkR eph info pt = Ok c ->
    exists enc ss key bn, length enc = n_enc k /\ Decap k enc skR = Ok ss /\
      KeySchedule k d a ss info = Ok (key, bn) /\ c = prefix ++ enc ++ seal a key bn [] pt /\
      length skR <> 0%nat.
  Proof.
    intros Hpub H. unfold hpke_encrypt in H. inv_bind H. rename v into raw.
    assert (c = prefix ++ raw) by congruence. subst c.
    apply raw_encrypt_ok in Ha. destruct Ha as (ss & enc & key & bn & He & Hk & ->).
    destruct (kem_law _ _ _ _ _ _ Hpub He) as (Hd & Lenc & Lsk).
    exists enc, ss, key, bn. repeat split; auto. rewrite Lsk. destruct k; discriminate.
  Qed.

  (* change of the encapsulated key and/or the context info, payload untouched *)
  Theorem hpke_binding_enc_info k d a prefix skR pkR eph info pt c enc payload enc' info' p' :
    PubOf k skR = Ok pkR ->
    Encrypt k d a prefix pkR eph info pt = Ok c ->
    c = prefix ++ enc ++ payload -> length enc = n_enc k -> length enc' = n_enc k ->
    (enc' <> enc \/ info' <> info) ->
    Decrypt k d a prefix skR (prefix ++ enc' ++ payload) info' = Ok p' ->
    collision_somewhere k skR.
  Proof.
    intros Hpub Henc Hc Le Le' Hne Hdec.
    destruct (encrypt_shape _ _ _ _ _ _ _ _ _ _ Hpub Henc) as (enc0 & ss & key & bn & L0 & Hd & Hk & Hc0 & Lsk).
    rewrite Hc in Hc0. apply app_inv_head in Hc0.
    apply app_inv_length in Hc0; [|congruence]. destruct Hc0 as [<- Hpay].
    apply (hpke_decrypt_iff _ _ _ _ _ _ _ _ Lsk) in Hdec.
    destruct Hdec as (enc1 & ss' & key' & bn' & L1 & Hd' & Hk' & Hc1).
    apply app_inv_head in Hc1. apply app_inv_length in Hc1; [|congruence]. destruct Hc1 as [<- Hpay'].
    rewrite Hpay in Hpay'. apply seal_eq in Hpay'.
    destruct Hpay' as [(<- & <- & <-)|C]; [|right; right; left; exact C].
    destruct (key_schedule_key_inj _ _ _ _ _ _ _ _ _ _ Hk Hk') as [[<- <-]|[C|C]];
      [|left; exact C|right; left; exact C].
    destruct Hne as [Hne|Hne]; [|contradiction].
    right; right; right. exists enc, enc', ss. repeat split; auto.
  Qed.

  (* for the Diffie-Hellman KEMs the KEM context enc || pkR rules a decapsulation
     collision out symbolically *)
  Lemma dhkem_decap_shape k enc skR ss : is_dhkem k = true -> Decap k enc skR = Ok ss ->
    exists prk pkR li, dh_pub k skR = Some pkR /\
      label_info l_shared_secret (enc ++ pkR) (kem_suite_id k) (hash_len (kem_hash k)) = Ok li /\
      ss = expand (kem_hash k) prk li (hash_len (kem_hash k)).
  Proof.
    intros Hk H. destruct k; try discriminate; unfold decap in H; cbv beta iota in H;
      (destruct (dh _ skR enc) as [dhv|]; [|discriminate]);
      (destruct (dh_pub _ skR) as [pkR|] eqn:Ep; [|discriminate]);
      unfold dhkem_derive, extract_and_expand in H; apply labeled_expand_ok in H;
      destruct H as (li & Hli & -> & _);
      eexists; exists pkR, li; (split; [reflexivity|split; [exact Hli|reflexivity]]).
  Qed.

  Lemma dhkem_no_decap_collision k skR : is_dhkem k = true -> decap_collision k skR -> expand_collision.
  Proof.
    intros Hk (enc & enc' & ss & Hne & L & L' & H & H').
    apply dhkem_decap_shape in H; [|assumption]. apply dhkem_decap_shape in H'; [|assumption].
    destruct H as (prk & pkR & li & Ep & Hli & Es). destruct H' as (prk' & pkR' & li' & Ep' & Hli' & Es').
    assert (pkR' = pkR) by congruence. subst pkR'.
    rewrite Es in Es'. apply expand_eq in Es'. destruct Es' as [[_ El]|C]; [|exact C].
    subst li'. pose proof (label_info_inj _ _ _ _ _ _ Hli Hli') as E.
    apply app_inv_tail in E. contradiction.
  Qed.

  Theorem hpke_binding_enc_info_dhkem k d a prefix skR pkR eph info pt c enc payload enc' info' p' :
    is_dhkem k = true ->
    PubOf k skR = Ok pkR ->
    Encrypt k d a prefix pkR eph info pt = Ok c ->
    c = prefix ++ enc ++ payload -> length enc = n_enc k -> length enc' = n_enc k ->
    (enc' <> enc \/ info' <> info) ->
    Decrypt k d a prefix skR (prefix ++ enc' ++ payload) info' = Ok p' ->
    extract_collision \/ expand_collision \/ seal_collision.
  Proof.
    intros Hk Hpub Henc Hc Le Le' Hne Hdec.
    destruct (hpke_binding_enc_info _ _ _ _ _ _ _ _ _ _ _ _ _ _ _ Hpub Henc Hc Le Le' Hne Hdec) as [C|[C|[C|C]]]; auto.
    right; left. eapply dhkem_no_decap_collision; eauto.
  Qed.

  (* decryption with another private key (DHKEM): the recipient public key is part of the KEM context *)
  Theorem hpke_binding_other_key_dhkem k d a prefix skR pkR skR' pkR' eph info pt c p' :
    is_dhkem k = true ->
    PubOf k skR = Ok pkR -> PubOf k skR' = Ok pkR' -> pkR' <> pkR ->
    Encrypt k d a prefix pkR eph info pt = Ok c ->
    Decrypt k d a prefix skR' c info = Ok p' ->
    extract_collision \/ expand_collision \/ seal_collision.
  Proof.
    intros Hk Hpub Hpub' Hne Henc Hdec.
    destruct (encrypt_shape _ _ _ _ _ _ _ _ _ _ Hpub Henc) as (enc & ss & key & bn & L & Hd & Hks & -> & Lsk).
    assert (Lsk' : length skR' <> 0%nat).
    { destruct k; try discriminate; unfold public_from_private in Hpub'; cbv beta iota in Hpub';
        (destruct (dh_pub _ skR') eqn:E; [|discriminate]);
        destruct (dh_pub_len' _ _ _ E eq_refl) as [_ L']; rewrite L'; discriminate. }
    apply (hpke_decrypt_iff _ _ _ _ _ _ _ _ Lsk') in Hdec.
    destruct Hdec as (enc1 & ss' & key' & bn' & L1 & Hd' & Hk' & Hc1).
    apply app_inv_head in Hc1. apply app_inv_length in Hc1; [|congruence]. destruct Hc1 as [<- Hpay].
    apply seal_eq in Hpay. destruct Hpay as [(<- & <- & <-)|C]; [|auto].
    destruct (key_schedule_key_inj _ _ _ _ _ _ _ _ _ _ Hks Hk') as [[<- _]|[C|C]]; auto.
    apply dhkem_decap_shape in Hd; [|assumption]. apply dhkem_decap_shape in Hd'; [|assumption].
    destruct Hd as (prk & pk1 & li & Ep & Hli & Es). destruct Hd' as (prk' & pk2 & li' & Ep' & Hli' & Es').
    assert (pk1 = pkR /\ pk2 = pkR') as [-> ->].
    { destruct k; try discriminate; unfold public_from_private in Hpub, Hpub'; cbv beta iota in Hpub, Hpub';
        rewrite Ep in Hpub; rewrite Ep' in Hpub'; split; congruence. }
    rewrite Es in Es'. apply expand_eq in Es'. destruct Es' as [[_ El]|C]; [|auto].
    subst li'. pose proof (label_info_inj _ _ _ _ _ _ Hli Hli') as E.
    apply app_inv_head in E. congruence.
  Qed.

  (* a different output prefix (other key id or other variant byte) is rejected outright *)
  Theorem hpke_binding_prefix k d a prefix skR prefix' rest info :
    length prefix' = length prefix -> prefix' <> prefix ->
    Decrypt k d a prefix skR (prefix' ++ rest) info = Err.
  Proof.
    intros L Hne. unfold hpke_decrypt.
    destruct (Nat.ltb_spec (length (prefix' ++ rest)) (length prefix)) as [|_]; [reflexivity|].
    rewrite <- L. rewrite slice_head. cbn [bind].
    assert (E : beq prefix prefix' = false) by (apply beq_false; congruence).
    rewrite E. reflexivity.
  Qed.

  (* a changed payload is accepted only as a genuine seal, under the very key and
     nonce of the honest ciphertext, of the (different) plaintext it returns *)
  Theorem hpke_binding_payload k d a prefix skR pkR eph info pt c enc payload payload' p' :
    PubOf k skR = Ok pkR ->
    Encrypt k d a prefix pkR eph info pt = Ok c ->
    c = prefix ++ enc ++ payload -> length enc = n_enc k -> payload' <> payload ->
    Decrypt k d a prefix skR (prefix ++ enc ++ payload') info = Ok p' ->
    exists key bn, payload = seal a key bn [] pt /\ payload' = seal a key bn [] p' /\ p' <> pt.
  Proof.
    intros Hpub Henc Hc Le Hne Hdec.
    destruct (encrypt_shape _ _ _ _ _ _ _ _ _ _ Hpub Henc) as (enc0 & ss & key & bn & L0 & Hd & Hk & Hc0 & Lsk).
    rewrite Hc in Hc0. apply app_inv_head in Hc0.
    apply app_inv_length in Hc0; [|congruence]. destruct Hc0 as [<- Hpay].
    apply (hpke_decrypt_iff _ _ _ _ _ _ _ _ Lsk) in Hdec.
    destruct Hdec as (enc1 & ss' & key' & bn' & L1 & Hd' & Hk' & Hc1).
    apply app_inv_head in Hc1. apply app_inv_length in Hc1; [|congruence]. destruct Hc1 as [<- Hpay'].
    assert (ss' = ss) by congruence. subst ss'.
    assert (key' = key /\ bn' = bn) as [-> ->] by (split; congruence).
    exists key, bn. repeat split; auto. intros ->. congruence.
  Qed.

  (* the same, as an outcome: a changed encapsulated key / info yields Err unless
     the tampered computation collides with the honest one in a primitive *)
  Corollary hpke_binding_enc_info_err k d a prefix skR pkR eph info pt c enc payload enc' info' :
    PubOf k skR = Ok pkR ->
    Encrypt k d a prefix pkR eph info pt = Ok c ->
    c = prefix ++ enc ++ payload -> length enc = n_enc k -> length enc' = n_enc k ->
    (enc' <> enc \/ info' <> info) ->
    Decrypt k d a prefix skR (prefix ++ enc' ++ payload) info' = Err \/ collision_somewhere k skR.
  Proof.
    intros Hpub Henc Hc Le Le' Hne.
    destruct (Decrypt k d a prefix skR (prefix ++ enc' ++ payload) info') as [p'| |] eqn:E; [|left; reflexivity|].
    - right. exact (hpke_binding_enc_info _ _ _ _ _ _ _ _ _ _ _ _ _ _ _ Hpub Henc Hc Le Le' Hne E).
    - exfalso. exact (hpke_decrypt_never_panics _ _ _ _ _ _ _ E).
  Qed.
End HpkeTheorems.

Section XwingBinding.
  Variable extract : hash -> bytes -> bytes -> bytes.
  Variable expand : hash -> bytes -> bytes -> nat -> bytes.
  Variable dh : kem -> bytes -> bytes -> option bytes.
  Variable dh_pub : kem -> bytes -> option bytes.
  Variable mlkem_decap : kem -> bytes -> bytes -> option bytes.
  Variable shake256 : bytes -> nat -> bytes.
  Variable sha3_256 : bytes -> bytes.

  (* X-Wing: a decapsulation collision is a SHA3-256 collision of the combiner or an
     ML-KEM-768 ciphertext collision (ctX and pkX are inputs of the combiner) *)
  Definition sha3_collision : Prop := exists x y, x <> y /\ sha3_256 x = sha3_256 y.
  Definition mlkem_ct_collision : Prop :=
    exists k seed ct ct' ss, ct <> ct' /\ mlkem_decap k seed ct = Some ss /\ mlkem_decap k seed ct' = Some ss.

  Lemma xw_dec_shape enc skR ss : decap extract expand dh dh_pub mlkem_decap shake256 sha3_256 XWING enc skR = Ok ss ->
    exists seedM skX ctM ctX ssM ssX pkX,
      xw_expand shake256 skR = Ok (seedM, skX) /\ enc = ctM ++ ctX /\ length ctM = mlkem768_ct_size /\
      length enc = xw_ciphertext_size /\
      mlkem_decap MLKEM768 seedM ctM = Some ssM /\ dh X25519 skX ctX = Some ssX /\ dh_pub X25519 skX = Some pkX /\
      ss = sha3_256 (ssM ++ ssX ++ ctX ++ pkX ++ xwing_label).
  Proof.
    unfold decap; cbv beta iota. unfold xw_dec, xw_decap.
    destruct (Nat.eqb_spec (length enc) xw_ciphertext_size) as [L|]; [|discriminate]. cbn [negb].
    intros H. inv_bind H. destruct v as [seedM skX].
    assert (Lc : (mlkem768_ct_size <= length enc)%nat) by (rewrite L; unfold mlkem768_ct_size, xw_ciphertext_size; lia).
    destruct (slice_split mlkem768_ct_size enc Lc) as (ctM & ctX & E & LM & S1 & S2).
    rewrite S1, S2 in Hb. cbn [bind] in Hb.
    destruct (mlkem_decap MLKEM768 seedM ctM) as [ssM|] eqn:EM; [|discriminate].
    destruct (dh X25519 skX ctX) as [ssX|] eqn:EX; [|discriminate].
    destruct (dh_pub X25519 skX) as [pkX|] eqn:EP; [|discriminate].
    exists seedM, skX, ctM, ctX, ssM, ssX, pkX. unfold xw_combiner in Hb.
    repeat split; auto. congruence.
  Qed.

  Lemma xwing_no_decap_collision skR :
    (forall seed ct ss, mlkem_decap MLKEM768 seed ct = Some ss -> length ss = 32%nat) ->
    (forall sk pk ss, dh X25519 sk pk = Some ss -> length ss = 32%nat) ->
    decap_collision extract expand dh dh_pub mlkem_decap shake256 sha3_256 XWING skR -> sha3_collision \/ mlkem_ct_collision.
  Proof.
    intros LM LX (enc & enc' & ss & Hne & L & L' & H & H').
    apply xw_dec_shape in H. apply xw_dec_shape in H'.
    destruct H as (seedM & skX & ctM & ctX & ssM & ssX & pkX & Ex & Ee & LcM & Le & DM & DX & PX & Es).
    destruct H' as (seedM' & skX' & ctM' & ctX' & ssM' & ssX' & pkX' & Ex' & Ee' & LcM' & Le' & DM' & DX' & PX' & Es').
    assert (seedM' = seedM /\ skX' = skX) as [-> ->] by (split; congruence).
    assert (pkX' = pkX) by congruence. subst pkX'.
    rewrite Es in Es'.
    destruct (bytes_eq_dec (ssM ++ ssX ++ ctX ++ pkX ++ xwing_label) (ssM' ++ ssX' ++ ctX' ++ pkX ++ xwing_label)) as [E|N];
      [|left; eexists; eexists; split; [exact N|exact Es']].
    apply app_inv_length in E; [|rewrite (LM _ _ _ DM), (LM _ _ _ DM'); reflexivity]. destruct E as [EM E].
    apply app_inv_length in E; [|rewrite (LX _ _ _ DX), (LX _ _ _ DX'); reflexivity]. destruct E as [_ E].
    assert (LcX : length ctX = length ctX').
    { apply (f_equal (@length N)) in Ee. apply (f_equal (@length N)) in Ee'. rewrite app_length in Ee, Ee'. lia. }
    apply app_inv_length in E; [|exact LcX]. destruct E as [EX _].
    subst ssM' ctX'. right. exists MLKEM768, seedM, ctM, ctM', ssM. repeat split; auto.
    intros ->. apply Hne. congruence.
  Qed.

End XwingBinding.

(* ------------------------------------------------------------------ *)
(* a toy instance of the oracles: the laws are jointly satisfiable     *)
(* ------------------------------------------------------------------ *)
Definition toy_sum (b : bytes) : N := fold_left N.add b 0 mod 256.
Definition toy_extract (h : hash) (ikm salt : bytes) : bytes := ikm ++ salt.
Definition toy_expand (h : hash) (prk info : bytes) (n : nat) : bytes := repeat (toy_sum (prk ++ info)) n.
Definition toy_dh (k : kem) (a B : bytes) : option bytes := Some [7].
Definition toy_dh_pub (k : kem) (sk : bytes) : option bytes :=
  if Nat.eqb (length sk) (n_sk k) then Some (zeros (n_pk k)) else None.
Definition toy_mlkem_decap (k : kem) (seed ct : bytes) : option bytes := Some [9].
Definition toy_mlkem_encap (k : kem) (pk coins : bytes) : option (bytes * bytes) := Some ([9], zeros (n_enc k)).
Definition toy_mlkem_pub (k : kem) (seed : bytes) : option bytes :=
  if Nat.eqb (length seed) 64 then Some (zeros (n_pk k)) else None.
Definition toy_shake256 (m : bytes) (n : nat) : bytes := zeros n.
Definition toy_sha3 (m : bytes) : bytes := zeros 32.
(* a "cipher" that writes key and nonce in front of the plaintext: Open checks them *)
Definition toy_seal (a : aead) (k n ad p : bytes) : bytes := k ++ n ++ p.
Definition toy_open (a : aead) (k n ad c : bytes) : option bytes :=
  if beq (firstn (length k + length n) c) (k ++ n) then Some (skipn (length k + length n) c) else None.

Lemma toy_expand_len h prk info n : length (toy_expand h prk info n) = n.
Proof. apply repeat_length. Qed.
Lemma toy_dh_comm k a b A B : is_dhkem k = true ->
  toy_dh_pub k a = Some A -> toy_dh_pub k b = Some B -> toy_dh k a B = toy_dh k b A.
Proof. reflexivity. Qed.
Lemma toy_dh_pub_len k sk p : is_dhkem k = true ->
  toy_dh_pub k sk = Some p -> length p = n_pk k /\ length sk = n_sk k.
Proof.
  intros _. unfold toy_dh_pub. destruct (Nat.eqb_spec (length sk) (n_sk k)); [|discriminate].
  intros H. injection H as <-. rewrite zeros_length. auto.
Qed.
Lemma toy_mlkem_correct k seed pk coins ss ct : is_mlkem k = true ->
  toy_mlkem_pub k seed = Some pk -> toy_mlkem_encap k pk coins = Some (ss, ct) ->
  toy_mlkem_decap k seed ct = Some ss /\ length ct = n_enc k.
Proof.
  intros _ _ H. unfold toy_mlkem_encap in H. injection H as <- <-. rewrite zeros_length. auto.
Qed.
Lemma toy_mlkem_pub_len k seed pk : is_mlkem k = true ->
  toy_mlkem_pub k seed = Some pk -> length pk = n_pk k /\ length seed = 64%nat.
Proof.
  intros _. unfold toy_mlkem_pub. destruct (Nat.eqb_spec (length seed) 64); [|discriminate].
  intros H. injection H as <-. rewrite zeros_length. auto.
Qed.
Lemma toy_open_seal a k n ad p : toy_open a k n ad (toy_seal a k n ad p) = Some p.
Proof.
  unfold toy_open, toy_seal. rewrite app_assoc.
  rewrite <- (app_length k n). rewrite firstn_app, Nat.sub_diag, firstn_all. simpl. rewrite app_nil_r.
  rewrite beq_refl. rewrite skipn_app, Nat.sub_diag, skipn_all. reflexivity.
Qed.
Lemma toy_open_sound a k n ad c p : toy_open a k n ad c = Some p -> c = toy_seal a k n ad p.
Proof.
  unfold toy_open, toy_seal. destruct (beq _ _) eqn:E; [|discriminate]. intros H. injection H as <-.
  apply beq_eq in E. rewrite app_assoc, <- E. symmetry. apply firstn_skipn.
Qed.
