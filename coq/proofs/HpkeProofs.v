(* Proofs about model/Hpke.v and model/Xwing.v. *)
From Coq Require Import List NArith Bool Arith Lia ZifyN ZifyNat ZifyBool.
From Tink Require Import Bytes Xwing Hpke.
Import ListNotations.
Open Scope N_scope.

(* ------------------------------------------------------------------ *)
(* generic facts: outcome, slices, fixed-width encodings               *)
(* ------------------------------------------------------------------ *)
Lemma bind_ok {A B} (o : outcome A) (f : A -> outcome B) b :
  bind o f = Ok b -> exists a, o = Ok a /\ f a = Ok b.
Proof. destruct o; simpl; intros H; try discriminate. eauto. Qed.

Lemma bind_not_panic {A B} (o : outcome A) (f : A -> outcome B) :
  o <> Panic -> (forall a, o = Ok a -> f a <> Panic) -> bind o f <> Panic.
Proof. destruct o; simpl; intros H1 H2; auto; try congruence. Qed.

Lemma slice_ok lo hi s x :
  slice lo hi s = Ok x -> (lo <= hi)%nat /\ (hi <= length s)%nat /\ x = firstn (hi - lo) (skipn lo s).
Proof.
  unfold slice. destruct (Nat.leb lo hi) eqn:E1; destruct (Nat.leb hi (length s)) eqn:E2; simpl; intros H; try discriminate.
  inversion H. apply Nat.leb_le in E1. apply Nat.leb_le in E2. auto.
Qed.

Lemma slice_in_range lo hi s : (lo <= hi)%nat -> (hi <= length s)%nat ->
  slice lo hi s = Ok (firstn (hi - lo) (skipn lo s)).
Proof.
  intros H1 H2. unfold slice.
  apply Nat.leb_le in H1. apply Nat.leb_le in H2. rewrite H1, H2. reflexivity.
Qed.

Lemma slice_not_panic lo hi s : (lo <= hi)%nat -> (hi <= length s)%nat -> slice lo hi s <> Panic.
Proof. intros. rewrite slice_in_range by assumption. discriminate. Qed.

Lemma slice_head a b : slice 0 (length a) (a ++ b) = Ok a.
Proof.
  rewrite slice_in_range; [|lia|rewrite app_length; lia].
  simpl. rewrite Nat.sub_0_r. rewrite firstn_app, Nat.sub_diag, firstn_all. simpl. rewrite app_nil_r. reflexivity.
Qed.

Lemma slice_tail a b : slice (length a) (length (a ++ b)) (a ++ b) = Ok b.
Proof.
  rewrite slice_in_range; [|rewrite app_length; lia|lia].
  rewrite skipn_app, skipn_all, Nat.sub_diag. simpl.
  rewrite app_length. replace (length a + length b - length a)%nat with (length b) by lia.
  rewrite firstn_all. reflexivity.
Qed.

Lemma slice_mid a b c : slice (length a) (length a + length b) (a ++ b ++ c) = Ok b.
Proof.
  rewrite slice_in_range; [|lia|rewrite !app_length; lia].
  rewrite skipn_app, skipn_all, Nat.sub_diag. simpl.
  replace (length a + length b - length a)%nat with (length b) by lia.
  rewrite firstn_app, Nat.sub_diag, firstn_all. simpl. rewrite app_nil_r. reflexivity.
Qed.

Lemma slice_split n s : (n <= length s)%nat ->
  exists a b, s = a ++ b /\ length a = n /\ slice 0 n s = Ok a /\ slice n (length s) s = Ok b.
Proof.
  intros H. exists (firstn n s), (skipn n s).
  assert (L : length (firstn n s) = n) by (rewrite firstn_length; lia).
  split; [symmetry; apply firstn_skipn|]. split; [exact L|].
  split.
  - rewrite slice_in_range by lia. simpl. rewrite Nat.sub_0_r. reflexivity.
  - rewrite slice_in_range by lia. rewrite firstn_all2; [reflexivity|]. rewrite skipn_length. lia.
Qed.

Lemma app_inv_length {A} (a b c d : list A) : a ++ b = c ++ d -> length a = length c -> a = c /\ b = d.
Proof.
  revert c; induction a as [|x a IH]; destruct c as [|y c]; simpl; intros H L; try discriminate; auto.
  inversion H; subst. destruct (IH c H2) as [-> ->]; auto.
Qed.

Lemma bytes_eq_dec (a b : bytes) : {a = b} + {a <> b}.
Proof. apply list_eq_dec. apply N.eq_dec. Qed.

Lemma beq_false a b : beq a b = false <-> a <> b.
Proof.
  split.
  - intros H E. apply beq_eq in E. congruence.
  - intros H. destruct (beq a b) eqn:E; auto. apply beq_eq in E. contradiction.
Qed.

Lemma xorb_zeros_l a n : n = length a -> xorb (zeros n) a = a.
Proof. intros ->. rewrite xorb_comm. apply xorb_zeros_r. lia. Qed.

(* be_bytes 2 is injective below 2^16 *)
Lemma be_bytes2_inj x y : x < 65536 -> y < 65536 -> be_bytes 2 x = be_bytes 2 y -> x = y.
Proof.
  intros Hx Hy H.
  assert (E : be_val (be_bytes 2 x) = be_val (be_bytes 2 y)) by (rewrite H; reflexivity).
  rewrite !be_val_be_bytes in E. change (256 ^ N.of_nat 2) with 65536 in E.
  rewrite !N.mod_small in E by assumption. exact E.
Qed.

(* ------------------------------------------------------------------ *)
(* identifiers, suite ids, labels                                      *)
(* ------------------------------------------------------------------ *)
Lemma compute_nonce_seq0 bn : compute_nonce bn 0 = Ok bn.
Proof.
  unfold compute_nonce. cbn. rewrite Nat.sub_0_r, app_nil_r.
  rewrite xorb_zeros_l; reflexivity.
Qed.

Lemma kem_id_inj k k' : kem_id k = kem_id k' -> k = k'.
Proof. destruct k, k'; simpl; intros H; try reflexivity; discriminate. Qed.
Lemma kdf_id_inj d d' : kdf_id d = kdf_id d' -> d = d'.
Proof. destruct d, d'; simpl; intros H; try reflexivity; discriminate. Qed.
Lemma aead_id_inj a a' : aead_id a = aead_id a' -> a = a'.
Proof. destruct a, a'; simpl; intros H; try reflexivity; discriminate. Qed.
Lemma kem_id_16 k : kem_id k < 65536. Proof. destruct k; simpl; lia. Qed.
Lemma kdf_id_16 d : kdf_id d < 65536. Proof. destruct d; simpl; lia. Qed.
Lemma aead_id_16 a : aead_id a < 65536. Proof. destruct a; simpl; lia. Qed.

Lemma hpke_suite_id_length k d a : length (hpke_suite_id k d a) = 10%nat.
Proof. unfold hpke_suite_id. rewrite !app_length, !be_bytes_length. reflexivity. Qed.
Lemma kem_suite_id_length k : length (kem_suite_id k) = 5%nat.
Proof. unfold kem_suite_id. rewrite !app_length, !be_bytes_length. reflexivity. Qed.

Lemma hpke_suite_id_inj k d a k' d' a' :
  hpke_suite_id k d a = hpke_suite_id k' d' a' -> k = k' /\ d = d' /\ a = a'.
Proof.
  unfold hpke_suite_id. intros H.
  apply app_inv_head in H.
  apply app_inv_length in H; [|rewrite !be_bytes_length; reflexivity]. destruct H as [H1 H].
  apply app_inv_length in H; [|rewrite !be_bytes_length; reflexivity]. destruct H as [H2 H3].
  apply be_bytes2_inj in H1; auto using kem_id_16.
  apply be_bytes2_inj in H2; auto using kdf_id_16.
  apply be_bytes2_inj in H3; auto using aead_id_16.
  auto using kem_id_inj, kdf_id_inj, aead_id_inj.
Qed.

Lemma kem_suite_id_inj k k' : kem_suite_id k = kem_suite_id k' -> k = k'.
Proof.
  unfold kem_suite_id. intros H. apply app_inv_head in H.
  apply be_bytes2_inj in H; auto using kem_id_16, kem_id_inj.
Qed.

(* KEM-level and HPKE-level suite ids never coincide (domain separation) *)
Lemma kem_hpke_suite_id_disjoint k k' d a : kem_suite_id k <> hpke_suite_id k' d a.
Proof.
  intros H. apply (f_equal (@length N)) in H.
  rewrite kem_suite_id_length, hpke_suite_id_length in H. discriminate.
Qed.

(* labelInfo: succeeds exactly below 2^16, and the first two bytes are the
   big-endian requested length *)
Lemma label_info_ok label info suite len b :
  label_info label info suite len = Ok b ->
  N.of_nat len < 65536 /\ be_val (firstn 2 b) = N.of_nat len /\
  b = be_bytes 2 (N.of_nat len) ++ s_hpke_v1 ++ suite ++ label ++ info.
Proof.
  unfold label_info. destruct (N.ltb_spec (N.of_nat len) 65536); intros E; [|discriminate].
  assert (Hb : b = be_bytes 2 (N.of_nat len) ++ s_hpke_v1 ++ suite ++ label ++ info) by congruence.
  clear E. subst b.
  split; [assumption|]. split; [|reflexivity].
  rewrite firstn_app. rewrite be_bytes_length. simpl (2 - 2)%nat. simpl (firstn 0 _). rewrite app_nil_r.
  rewrite firstn_all2 by (rewrite be_bytes_length; lia).
  rewrite be_val_be_bytes. change (256 ^ N.of_nat 2) with 65536. apply N.mod_small. assumption.
Qed.

Lemma label_info_err label info suite len :
  65536 <= N.of_nat len -> label_info label info suite len = Err.
Proof. unfold label_info. intros H. destruct (N.ltb_spec (N.of_nat len) 65536); [lia|reflexivity]. Qed.

Lemma label_info_never_panics label info suite len : label_info label info suite len <> Panic.
Proof. unfold label_info. destruct (N.ltb _ _); discriminate. Qed.

(* for one suite (ids have fixed width) and one label the labelled strings are
   injective in the payload *)
Lemma label_ikm_inj label suite x y : label_ikm label x suite = label_ikm label y suite -> x = y.
Proof. unfold label_ikm. intros H. repeat apply app_inv_head in H. exact H. Qed.

Lemma label_info_inj label suite len x y bx :
  label_info label x suite len = Ok bx -> label_info label y suite len = Ok bx -> x = y.
Proof.
  intros Hx Hy. apply label_info_ok in Hx. apply label_info_ok in Hy.
  destruct Hx as (_ & _ & ->). destruct Hy as (_ & _ & H). repeat apply app_inv_head in H. exact H.
Qed.
