(* C14 — OutputPrefixType WITH_ID_REQUIREMENT (5), accepted by keyset.Validate
   since /repo 4b80d2c: what the readers do with it.  It is the ML-DSA variant
   NoPrefixWithPrehashID; every other parser decides for itself. *)
From Coq Require Import String Ascii List NArith Bool Lia.
From Tink Require Import Bytes UntrustedConsts Untrusted UntrustedSpec UntrustedProofs.
Import ListNotations.
Open Scope list_scope.
Open Scope N_scope.

(* Validate itself no longer refuses prefix 5 *)
Theorem validate_key_accepts_prefix5 kd st id :
  known_status st = true -> validate_key (Some (mkPK (Some kd) st id pt_with_id_requirement)) = true.
Proof. intros H. cbn. exact H. Qed.

(* an unregistered type URL with prefix 5: the fallback key refuses it
   (calculateOutputPrefix: unknown output prefix type) - an error, not a panic *)
Theorem prefix5_unregistered_rejected (L : stdlib) kd idreq :
  modelled_url kd = false -> parse_key L kd pt_with_id_requirement idreq = Err.
Proof.
  intros H. unfold modelled_url in H.
  repeat match type of H with _ || _ = false => let H2 := fresh "U" in apply orb_false_iff in H; destruct H as [H H2] end.
  unfold Untrusted.parse_key, Untrusted.parse_key_base, parse_key_more. cbv zeta.
  repeat match goal with U : url_is kd ?u = false |- _ => rewrite U; clear U end.
  reflexivity.
Qed.

(* a standard library that refuses everything (ML-DSA public keys, AES-GCM and
   streaming keys need none of it) *)
Definition p5_std : stdlib :=
  mkStd (fun _ _ => false) (fun _ _ => None) (fun _ => []) (fun _ _ => None) (fun _ _ => [])
        (fun _ _ _ _ _ => None) (fun _ _ _ _ _ _ _ _ => false) (fun _ _ => []).

(* MlDsaPublicKey { version = 1; key_value = 2; params = 3 { ml_dsa_instance = 1 } }: ML-DSA-44, 1312 bytes *)
Definition p5_mldsa_value : bytes := [18; 160; 10] ++ repeat 7 1312%nat ++ [26; 2; 8; 3].
Definition p5_key (url value : bytes) (mat id : N) : option pkey :=
  Some (mkPK (Some (mkKD url value mat)) st_enabled id pt_with_id_requirement).

(* on an ML-DSA public key: accepted, with the key id as id requirement, a
   verifier is created, and the no-secrets import accepts it too *)
Example prefix5_mldsa_public_accepted :
  let ks := mkKS 9 [p5_key u_mldsa_pub p5_mldsa_value km_public 9] in
  validate (Some ks) = true
  /\ exists e, handle_from_proto p5_std (Some ks) = Ok [e]
       /\ ekey e = PMlDsaPub /\ ereq e = Some 9 /\ shown_prefix e = 5 /\ prim_ok p5_std (ekey e) = Ok true
       /\ handle_no_secrets p5_std (Some ks) = Ok [e].
Proof.
  cbv zeta. split; [vm_compute; reflexivity|]. eexists.
  split; [vm_compute; reflexivity|]. repeat split; vm_compute; reflexivity.
Qed.

(* on a registered type whose parser does not know it (AES-GCM): Validate lets
   the keyset through and the key's parser refuses it *)
Example prefix5_symmetric_rejected_by_its_parser :
  let ks := mkKS 9 [p5_key u_aes_gcm ([26; 16] ++ repeat 7 16%nat) km_symmetric 9] in
  validate (Some ks) = true /\ handle_from_proto p5_std (Some ks) = Err /\ handle_no_secrets p5_std (Some ks) = Err.
Proof. cbv zeta. repeat split; vm_compute; reflexivity. Qed.

(* on an unregistered URL: an error from the fallback key *)
Example prefix5_unregistered_rejected_example :
  let ks := mkKS 9 [p5_key [120; 121] [1; 2; 3] km_remote 9] in
  validate (Some ks) = true /\ handle_from_proto p5_std (Some ks) = Err.
Proof. cbv zeta. repeat split; vm_compute; reflexivity. Qed.

(* ------------------------------------------------------------------ *)
(* ML-DSA / JWT ML-DSA private keys (transcribed in the second audit round):
   an accepted private key holds a 32-byte seed whose generated public key is
   the public key the message carries (mismatched parts are rejected)      *)
(* ------------------------------------------------------------------ *)
Lemma mldsa_priv_consistent (L : stdlib) kd prefix idreq d :
  parse_mldsa_priv L kd prefix idreq = Ok d ->
  let fs := fields_or_nil (kd_value kd) in
  blen (get_len 2 fs) = 32
  /\ mldsa_pub L (get_u32 1 (get_sub 3 (get_sub 3 fs))) (get_len 2 fs) = get_len 2 (get_sub 3 fs)
  /\ kd_mat kd = km_private /\ d = PMlDsaPriv.
Proof.
  unfold parse_mldsa_priv. cbv zeta.
  destruct (negb (kd_mat kd =? km_private)) eqn:M; [discriminate|].
  destruct (negb (wire_ok _ _)); [discriminate|].
  destruct (negb (_ && _)); [discriminate|].
  destruct (negb (blen _ =? mldsa_seed_size)) eqn:S; [discriminate|].
  destruct (beq _ _) eqn:B; [|discriminate]. intros H. inversion H.
  apply negb_false_iff, N.eqb_eq in M, S. apply beq_eq in B. auto.
Qed.

Lemma jwt_mldsa_priv_consistent (L : stdlib) kd prefix idreq d :
  parse_jwt_mldsa_priv L kd prefix idreq = Ok d ->
  let fs := fields_or_nil (kd_value kd) in
  blen (get_len 2 fs) = 32
  /\ mldsa_pub L (jwt_mldsa_instance (get_u32 2 (get_sub 3 fs))) (get_len 2 fs) = get_len 3 (get_sub 3 fs)
  /\ kd_mat kd = km_private /\ d = PJwtMlDsaPriv.
Proof.
  unfold parse_jwt_mldsa_priv. cbv zeta.
  destruct (negb (kd_mat kd =? km_private)) eqn:M; [discriminate|].
  destruct (negb (wire_ok _ _)); [discriminate|].
  destruct (negb (_ && _)); [discriminate|].
  destruct (negb (blen _ =? mldsa_seed_size)) eqn:S; [discriminate|].
  destruct (beq _ _) eqn:B; [|discriminate]. intros H. inversion H.
  apply negb_false_iff, N.eqb_eq in M, S. apply beq_eq in B. auto.
Qed.

(* ------------------------------------------------------------------ *)
(* composite ML-DSA keys (transcribed in the fourth round)             *)
(* ------------------------------------------------------------------ *)
Section Composite.
Variable L : stdlib.

(* what an accepted composite key is made of: both nested key data were
   accepted by the parser of their own type (prefix RAW, no id requirement),
   the nested ML-DSA key is of the composite's instance, the combination is a
   supported one, and the classical key object has exactly the parameters the
   classical algorithm prescribes *)
Theorem composite_parts private kd prefix idreq d :
  parse_composite L private kd prefix idreq = Ok d ->
  let fs := fields_or_nil (kd_value kd) in
  let inst := get_u32 1 (get_sub 4 fs) in
  let alg := get_u32 2 (get_sub 4 fs) in
  let mkd := keydata_of (get_sub 2 fs) in
  let ckd := keydata_of (get_sub 3 fs) in
  kd_mat kd = (if private then km_private else km_public)
  /\ composite_supported inst alg = true
  /\ (if private then parse_mldsa_priv L mkd pt_raw 0 = Ok PMlDsaPriv /\ get_u32 1 (get_sub 3 (get_sub 3 (fields_or_nil (kd_value mkd)))) = inst
      else parse_mldsa_pub mkd pt_raw 0 = Ok PMlDsaPub /\ get_u32 1 (get_sub 3 (fields_or_nil (kd_value mkd))) = inst)
  /\ exists cd, parse_key_base L ckd pt_raw 0 = Ok cd /\ composite_of_classical private alg cd = Ok d.
Proof.
  unfold parse_composite. cbv zeta.
  destruct (negb (kd_mat kd =? _)) eqn:M; [discriminate|]. destruct (negb (wire_ok _ _)); [discriminate|].
  match goal with |- (if negb ?c then Err else _) = Ok _ -> _ => destruct c eqn:C; [|discriminate] end. cbn [negb].
  intros H. apply bind_ok in H. destruct H as [m [Hm H]]. revert H.
  match goal with |- (if ?c then Err else _) = Ok _ -> _ => destruct c; [discriminate|] end.
  intros H. apply bind_ok in H. destruct H as [cd [Hc H]]. revert H.
  match goal with |- (if negb ?c then Err else _) = Ok _ -> _ => destruct c eqn:I; [|discriminate] end. cbn [negb]. intros H.
  apply negb_false_iff, N.eqb_eq in M. apply N.eqb_eq in I.
  rewrite !andb_true_iff in C. destruct C as [[[_ S] _] _].
  split; [exact M|]. split; [exact S|]. split; [|exists cd; auto].
  destruct private.
  - destruct (url_is _ u_mldsa_priv); [|discriminate]. split; [|exact I].
    rewrite Hm. f_equal. destruct (mldsa_priv_consistent L _ _ _ _ Hm) as (_ & _ & _ & E). exact E.
  - destruct (url_is _ u_mldsa_pub); [|discriminate]. split; [|exact I].
    rewrite Hm. f_equal. revert Hm. unfold parse_mldsa_pub.
    repeat match goal with |- (if ?c then Err else _) = Ok _ -> _ => destruct c; [discriminate|] end.
    intros Hm. apply okb_ok in Hm. apply Hm.
Qed.

(* strength of the classical half: RSA moduli of 3072 or 4096 bits with e = 65537,
   ECDSA with a hash at least as strong as the curve and DER signatures *)
Theorem composite_classical_strength private alg cd d :
  composite_of_classical private alg cd = Ok d ->
  match cd with
  | PRsaPssPub bits e _ _ | PRsaPkcs1Pub bits e _ | PRsaPriv _ bits e _ _ => (bits = 3072 \/ bits = 4096) /\ e = 65537
  | PEcdsaPub c h enc _ | PEcdsaPriv c h enc _ _ => curve_level c <= hash_level h /\ enc = enc_der
  | _ => True
  end.
Proof.
  unfold composite_of_classical.
  destruct cd; try exact (fun _ => I); try (destruct pss); intros H; apply okb_ok in H; destruct H as [C _];
    unfold comp_pss_ok, comp_pkcs1_ok, comp_ecdsa_ok, rsa_f4, comp_rsa_bits_a, comp_rsa_bits_b,
      calg_rsa3072_pss, calg_rsa4096_pss, calg_rsa3072_pkcs1, calg_rsa4096_pkcs1,
      calg_ecdsa_p256, calg_ecdsa_p384, calg_ecdsa_p521, c_p256, c_p384, c_p521, h_sha256, h_sha384, h_sha512, enc_der in *;
    rewrite ?andb_true_iff, ?orb_true_iff, ?andb_true_iff in C; rewrite ?N.eqb_eq in C;
    unfold curve_level, hash_level;
    repeat match goal with H : _ /\ _ |- _ => destruct H | H : _ \/ _ |- _ => destruct H end; subst; cbn; lia.
Qed.

End Composite.
