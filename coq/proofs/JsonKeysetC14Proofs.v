(* C14 - the JSON readers (model/JsonKeysetC14.v): for ALL byte strings they
   never panic, and return an error or a well-formed handle. *)
From Coq Require Import List NArith Bool.
From Tink Require Import Bytes UntrustedConsts Untrusted UntrustedSpec UntrustedParams UntrustedParamsSpec
  UntrustedParamsProofs Json JsonKeyset JsonKeysetProofs JsonKeysetC14.
Import ListNotations.
Open Scope N_scope.

Section Readers.
  Variable L : stdlib.

  Theorem xread_json_np s : xread_json L s <> Panic.
  Proof. apply xread_proto_np. Qed.
  Theorem xread_json_no_secrets_np s : xread_json_no_secrets L s <> Panic.
  Proof. apply xhandle_no_secrets_np. Qed.
  Theorem xread_json_encrypted_np kek s ad : xread_json_encrypted L kek s ad <> Panic.
  Proof.
    unfold xread_json_encrypted. destruct (encrypted_of_json_text s) as [e|]; [|discriminate].
    destruct (kek (je_ct e) ad) as [pt|]; [|discriminate].
    destruct (decode_keyset pt); [apply xhandle_from_proto_np|discriminate].
  Qed.

  (* an accepted text is the text of a message protojson accepts, that message
     is a well-formed keyset, and the handle holds its keys in order *)
  Theorem xread_json_wf s h : xread_json L s = Ok h ->
    exists jks, keyset_of_json_text s = Some jks /\ xaccepted_as (keyset_of_j jks) h.
  Proof.
    unfold xread_json, json_keyset. intros H. apply xread_proto_wf in H. destruct H as [k [E A]].
    destruct (keyset_of_json_text s) as [jks|]; [|discriminate]. inversion E; subst k. exists jks. auto.
  Qed.

  Theorem xread_json_no_secrets_wf s h : xread_json_no_secrets L s = Ok h ->
    exists jks, keyset_of_json_text s = Some jks /\ has_secrets (keyset_of_j jks) = false
      /\ xaccepted_as (keyset_of_j jks) h /\ xhandle_has_secrets h = false.
  Proof.
    unfold xread_json_no_secrets, json_keyset. intros H. apply xhandle_no_secrets_wf in H.
    destruct H as [k [E A]]. destruct (keyset_of_json_text s) as [jks|]; [|discriminate].
    inversion E; subst k. exists jks. auto.
  Qed.

  Theorem xread_json_encrypted_wf kek s ad h : xread_json_encrypted L kek s ad = Ok h ->
    exists e pt k, encrypted_of_json_text s = Some e /\ kek (je_ct e) ad = Some pt
      /\ decode_keyset pt = Some k /\ xaccepted_as k h.
  Proof.
    unfold xread_json_encrypted. destruct (encrypted_of_json_text s) as [e|]; [|discriminate].
    destruct (kek (je_ct e) ad) as [pt|] eqn:D; [|discriminate].
    destruct (decode_keyset pt) as [k|] eqn:K; [|discriminate]. intros H.
    apply xhandle_from_proto_wf in H. destruct H as [k' [E A]]. inversion E; subst. exists e, pt, k'. auto.
  Qed.

  (* text that protojson refuses, and text whose message is not a well-formed keyset: an error *)
  Theorem xread_json_refused s : keyset_of_json_text s = None ->
    xread_json L s = Err /\ xread_json_no_secrets L s = Err.
  Proof. unfold xread_json, xread_json_no_secrets, json_keyset. intros ->. split; reflexivity. Qed.

  Theorem xread_json_malformed s jks : keyset_of_json_text s = Some jks -> ~ wf_keyset (keyset_of_j jks) ->
    xread_json L s = Err /\ xread_json_no_secrets L s = Err.
  Proof.
    unfold xread_json, xread_json_no_secrets, json_keyset. intros -> W. cbn [option_map].
    destruct (xmalformed_rejected_everywhere L _ W) as [A [B _]]. split; assumption.
  Qed.

  Theorem xread_json_encrypted_refused kek s ad : encrypted_of_json_text s = None ->
    xread_json_encrypted L kek s ad = Err.
  Proof. unfold xread_json_encrypted. intros ->. reflexivity. Qed.
End Readers.
