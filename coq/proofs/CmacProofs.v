(* Proofs about model/Cmac.v:
   - mulByX (byte-wise shift with carry, as coded) = dbl (RFC 4493 2.3 on the
     128-bit integer) for every well-formed 16-byte block;
   - cmac_impl (the Go loop) = cmac_spec (RFC 4493 2.4) for every message;
   - length / well-formedness of the outputs. *)
From Coq Require Import List NArith Bool Arith Lia.
From Tink Require Import Bytes Cmac.
Import ListNotations.
Open Scope N_scope.

(* ------------------------------------------------------------------ *)
(* big-endian value, head first *)
Fixpoint bev (l : bytes) : N :=
  match l with [] => 0 | x :: t => x * 256 ^ N.of_nat (length t) + bev t end.

Lemma le_val_app a b : le_val (a ++ b) = le_val a + 256 ^ N.of_nat (length a) * le_val b.
Proof.
  induction a as [|x a IH]; cbn [app le_val length].
  - rewrite N.pow_0_r. lia.
  - rewrite IH, Nnat.Nat2N.inj_succ, N.pow_succ_r'. lia.
Qed.

Lemma be_val_bev l : be_val l = bev l.
Proof.
  unfold be_val. induction l as [|x l IH]; cbn [rev bev].
  - reflexivity.
  - rewrite le_val_app, rev_length, IH. cbn [le_val]. lia.
Qed.

Lemma pow256_pos n : 0 < 256 ^ n.
Proof. apply N.neq_0_lt_0. apply N.pow_nonzero. lia. Qed.

Lemma bev_lt l : wfb l -> bev l < 256 ^ N.of_nat (length l).
Proof.
  induction l as [|x l IH]; intros Hw; cbn [bev length].
  - rewrite N.pow_0_r. lia.
  - inversion Hw; subst. specialize (IH H2).
    rewrite Nnat.Nat2N.inj_succ, N.pow_succ_r'.
    pose proof (pow256_pos (N.of_nat (length l))). nia.
Qed.

Lemma le_val_lt l : wfb l -> le_val l < 256 ^ N.of_nat (length l).
Proof.
  induction l as [|x l IH]; intros Hw; cbn [le_val length].
  - rewrite N.pow_0_r. lia.
  - inversion Hw; subst. specialize (IH H2).
    rewrite Nnat.Nat2N.inj_succ, N.pow_succ_r'. nia.
Qed.

Lemma divmod_256 x v : x < 256 -> (x + 256 * v) mod 256 = x /\ (x + 256 * v) / 256 = v.
Proof.
  intros Hx. split.
  - rewrite (N.mul_comm 256 v), N.mod_add by lia. apply N.mod_small; assumption.
  - rewrite (N.mul_comm 256 v), N.div_add by lia. rewrite N.div_small by assumption. lia.
Qed.

Lemma le_bytes_le_val l : wfb l -> le_bytes (length l) (le_val l) = l.
Proof.
  induction l as [|x l IH]; intros Hw; cbn [le_val length le_bytes].
  - reflexivity.
  - inversion Hw; subst. destruct (divmod_256 x (le_val l) H1) as [-> ->].
    rewrite IH by assumption. reflexivity.
Qed.

Lemma be_bytes_be_val l : wfb l -> be_bytes (length l) (be_val l) = l.
Proof.
  intros Hw. unfold be_bytes, be_val.
  rewrite <- (rev_length l), le_bytes_le_val by (apply Forall_rev; exact Hw).
  apply rev_involutive.
Qed.

(* ------------------------------------------------------------------ *)
(* bit facts on bytes *)
Lemma lor_double_bit c b : b < 2 -> N.lor (2 * c) b = 2 * c + b.
Proof.
  intros Hb. assert (b = 0 \/ b = 1) as [-> | ->] by lia.
  - rewrite N.lor_0_r. lia.
  - destruct c as [|p]; reflexivity.
Qed.

Lemma shl_byte x : (N.shiftl x 1) mod 256 = 2 * (x mod 128).
Proof.
  rewrite N.shiftl_mul_pow2. change (2 ^ 1) with 2. change 256 with (2 * 128).
  rewrite (N.mul_comm x 2). rewrite N.mul_mod_distr_l by lia. reflexivity.
Qed.

Lemma shr7_byte y : N.shiftr y 7 = y / 128.
Proof. rewrite N.shiftr_div_pow2. reflexivity. Qed.

Lemma byte_split x : x = 128 * (x / 128) + x mod 128.
Proof. apply N.div_mod. lia. Qed.

Lemma byte_hi_lt x : x < 256 -> x / 128 < 2.
Proof. intros H. apply N.div_lt_upper_bound; lia. Qed.

Lemma lxor_low_byte z v m : z < 256 -> m < 256 ->
  N.lxor (z + 256 * v) m = N.lxor z m + 256 * v.
Proof.
  intros Hz Hm.
  pose proof (lxor_lt_256 z m Hz Hm) as Hl.
  destruct (divmod_256 z v Hz) as [Hmod Hdiv].
  rewrite (N.div_mod (N.lxor (z + 256 * v) m) 256) by lia.
  assert (Hq : N.lxor (z + 256 * v) m / 256 = v).
  { change 256 with (2 ^ 8). rewrite <- N.shiftr_div_pow2, N.shiftr_lxor, !N.shiftr_div_pow2.
    change (2 ^ 8) with 256. rewrite Hdiv, (N.div_small m 256) by assumption. apply N.lxor_0_r. }
  assert (Hr : N.lxor (z + 256 * v) m mod 256 = N.lxor z m).
  { rewrite <- Hmod at 2. rewrite <- (N.mod_small m 256) at 2 by assumption.
    change 256 with (2 ^ 8). apply N.bits_inj. intros i.
    destruct (N.lt_ge_cases i 8).
    - rewrite N.mod_pow2_bits_low, !N.lxor_spec, !N.mod_pow2_bits_low by assumption. reflexivity.
    - rewrite N.mod_pow2_bits_high, N.lxor_spec, !N.mod_pow2_bits_high by assumption. reflexivity. }
  rewrite Hq, Hr. lia.
Qed.

(* ------------------------------------------------------------------ *)
(* shl1_bytes: the byte loop of mulByX computes 2*x, dropping the top bit *)
Lemma shl1_length l : length (shl1_bytes l) = length l.
Proof.
  induction l as [|x t IH]; [reflexivity|]. destruct t as [|y t']; [reflexivity|].
  cbn [shl1_bytes length] in *. rewrite IH. reflexivity.
Qed.

Lemma shl1_head_eq x y : y < 256 ->
  N.lor ((N.shiftl x 1) mod 256) (N.shiftr y 7) = 2 * (x mod 128) + y / 128.
Proof.
  intros Hy. rewrite shl_byte, shr7_byte. apply lor_double_bit. apply byte_hi_lt; assumption.
Qed.

Lemma shl1_wf l : wfb l -> wfb (shl1_bytes l).
Proof.
  induction l as [|x t IH]; intros Hw; [constructor|].
  destruct t as [|y t'].
  - cbn [shl1_bytes]. constructor; [|constructor]. apply N.mod_lt. lia.
  - inversion Hw as [|? ? Hx Ht]; subst. inversion Ht as [|? ? Hy Ht']; subst.
    cbn [shl1_bytes]. constructor; [|apply IH; assumption].
    rewrite shl1_head_eq by assumption.
    pose proof (N.mod_lt x 128). pose proof (byte_hi_lt y Hy). lia.
Qed.

Lemma shl1_bev l : wfb l -> l <> [] ->
  bev (shl1_bytes l) + (hd 0 l / 128) * 256 ^ N.of_nat (length l) = 2 * bev l.
Proof.
  induction l as [|x t IH]; intros Hw Hne; [congruence|].
  destruct t as [|y t'].
  - cbn [shl1_bytes bev hd length]. rewrite shl_byte.
    change (N.of_nat 0) with 0. change (N.of_nat 1) with 1. rewrite N.pow_0_r, N.pow_1_r.
    pose proof (byte_split x). lia.
  - inversion Hw as [|? ? Hx Ht]; subst. inversion Ht as [|? ? Hy Ht']; subst.
    assert (Hne' : y :: t' <> []) by discriminate.
    specialize (IH Ht Hne').
    change (shl1_bytes (x :: y :: t')) with
      (N.lor ((N.shiftl x 1) mod 256) (N.shiftr y 7) :: shl1_bytes (y :: t')).
    rewrite shl1_head_eq by assumption.
    cbn [bev hd] in *. rewrite shl1_length.
    set (P := 256 ^ N.of_nat (length (y :: t'))) in *.
    replace (256 ^ N.of_nat (length (x :: y :: t'))) with (256 * P)
      by (unfold P; cbn [length]; rewrite (Nnat.Nat2N.inj_succ (S (length t'))), N.pow_succ_r'; reflexivity).
    set (S1 := bev (shl1_bytes (y :: t'))) in *.
    set (B := bev (y :: t')) in *.
    cbn [bev] in B.
    pose proof (byte_split x).
    nia.
Qed.

(* xor into the last byte = xor of the integer with a value below 256 *)
Lemma xor_last_length l m : length (xor_last l m) = length l.
Proof.
  unfold xor_last. destruct (rev l) as [|z r] eqn:E.
  - apply (f_equal (@length N)) in E. rewrite rev_length in E. simpl in *. lia.
  - apply (f_equal (@length N)) in E. rewrite rev_length in E.
    rewrite rev_length. cbn [length] in *. lia.
Qed.

Lemma xor_last_be l m : wfb l -> l <> [] -> m < 256 ->
  be_bytes (length l) (N.lxor (be_val l) m) = xor_last l m.
Proof.
  intros Hw Hne Hm. unfold xor_last, be_val, be_bytes.
  assert (Hwr : wfb (rev l)) by (apply Forall_rev; exact Hw).
  rewrite <- (rev_length l).
  destruct (rev l) as [|z r] eqn:E.
  - exfalso. apply Hne. rewrite <- (rev_involutive l), E. reflexivity.
  - inversion Hwr as [|? ? Hz Hr]; subst. cbn [le_val length le_bytes].
    rewrite lxor_low_byte by assumption.
    destruct (divmod_256 (N.lxor z m) (le_val r) (lxor_lt_256 z m Hz Hm)) as [-> ->].
    rewrite le_bytes_le_val by assumption. reflexivity.
Qed.

Lemma xor_last_wf l m : wfb l -> m < 256 -> wfb (xor_last l m).
Proof.
  intros Hw Hm. unfold xor_last.
  assert (Hwr : wfb (rev l)) by (apply Forall_rev; exact Hw).
  destruct (rev l) as [|z r]; [constructor|].
  inversion Hwr; subst. apply Forall_rev. constructor; [apply lxor_lt_256|]; assumption.
Qed.

Lemma mulByX_length b : length (mulByX b) = length b.
Proof. unfold mulByX. rewrite xor_last_length, shl1_length. reflexivity. Qed.

Lemma mulByX_wf b : wfb b -> wfb (mulByX b).
Proof.
  intros H. unfold mulByX. apply xor_last_wf; [apply shl1_wf; exact H|].
  destruct (N.eqb _ 1); lia.
Qed.

Lemma dbl_length b : length (dbl b) = 16%nat.
Proof. unfold dbl. apply be_bytes_length. Qed.

Lemma dbl_wf b : wfb (dbl b).
Proof. unfold dbl. apply be_bytes_wf. Qed.

(* mulByX as coded is RFC 4493's  (L << 1) [xor Rb if MSB(L)=1]  on 128 bits *)
Theorem mulByX_dbl b : wfb b -> length b = 16%nat -> mulByX b = dbl b.
Proof.
  intros Hw Hl.
  assert (Hne : b <> []) by (intros ->; discriminate).
  pose proof (shl1_bev b Hw Hne) as Hs.
  pose proof (bev_lt _ (shl1_wf b Hw)) as Hlt. rewrite shl1_length in Hlt.
  rewrite Hl in Hs, Hlt.
  assert (Hhd : hd 0 b < 256) by (destruct b; [discriminate|]; inversion Hw; assumption).
  pose proof (byte_hi_lt _ Hhd) as Hc.
  set (c := hd 0 b / 128) in *.
  set (s := shl1_bytes b) in *.
  change (256 ^ N.of_nat 16) with (2 ^ 128) in *.
  unfold mulByX, dbl. rewrite shr7_byte. fold c. fold s.
  rewrite be_val_bev.
  assert (Hy : (2 * bev b) mod 2 ^ 128 = bev s).
  { rewrite <- Hs, N.mod_add by (apply N.pow_nonzero; lia). apply N.mod_small. exact Hlt. }
  assert (Htb : N.testbit (bev b) 127 = N.eqb c 1).
  { rewrite N.testbit_eqb.
    assert (Hq : bev b / 2 ^ 127 = c).
    { rewrite <- (N.div_mul_cancel_l (bev b) (2 ^ 127) 2) by (try apply N.pow_nonzero; lia).
      change (2 * 2 ^ 127) with (2 ^ 128). rewrite <- Hs.
      rewrite N.div_add by (apply N.pow_nonzero; lia). rewrite N.div_small by exact Hlt. lia. }
    rewrite Hq. assert (c = 0 \/ c = 1) as [-> | ->] by lia; reflexivity. }
  rewrite Hy, Htb.
  assert (Hsl : length s = 16%nat) by (unfold s; rewrite shl1_length; exact Hl).
  assert (Hsne : s <> []) by (intros E; rewrite E in Hsl; discriminate).
  rewrite <- Hsl.
  destruct (N.eqb c 1).
  - rewrite <- be_val_bev. apply eq_sym, xor_last_be; [apply shl1_wf; exact Hw | exact Hsne | lia].
  - rewrite <- (N.lxor_0_r (bev s)), <- be_val_bev.
    apply eq_sym, xor_last_be; [apply shl1_wf; exact Hw | exact Hsne | lia].
Qed.

(* ------------------------------------------------------------------ *)
(* chunks *)
Lemma chunks_fuel_nil f n : chunks_fuel f n [] = [].
Proof. destruct f; reflexivity. Qed.

Lemma chunks_fuel_indep n : (0 < n)%nat -> forall f1 f2 b,
  (length b <= f1)%nat -> (length b <= f2)%nat -> chunks_fuel f1 n b = chunks_fuel f2 n b.
Proof.
  intros Hn. induction f1 as [|f1 IH]; intros f2 b H1 H2.
  - destruct b; [|simpl in H1; lia]. rewrite !chunks_fuel_nil. reflexivity.
  - destruct b as [|x b]; [rewrite !chunks_fuel_nil; reflexivity|].
    destruct f2 as [|f2]; [simpl in H2; lia|].
    cbn [chunks_fuel]. f_equal. apply IH.
    + rewrite skipn_length. cbn [length] in *. lia.
    + rewrite skipn_length. cbn [length] in *. lia.
Qed.

Lemma chunks_nil n : chunks n [] = [].
Proof. reflexivity. Qed.

Lemma chunks_cons n b : (0 < n)%nat -> b <> [] ->
  chunks n b = firstn n b :: chunks n (skipn n b).
Proof.
  intros Hn Hb. unfold chunks. destruct b as [|x b]; [congruence|].
  cbn [length chunks_fuel]. f_equal. apply chunks_fuel_indep; auto.
  rewrite skipn_length. cbn [length]. lia.
Qed.

Lemma chunks_small n b : b <> [] -> (length b <= n)%nat -> chunks n b = [b].
Proof.
  intros Hb Hl. assert (0 < n)%nat by (destruct b; [congruence|simpl in Hl; lia]).
  rewrite chunks_cons by assumption.
  rewrite firstn_all2 by assumption. rewrite skipn_all2 by assumption. reflexivity.
Qed.

Lemma skipn_skipn_add {A} a b (l : list A) : skipn a (skipn b l) = skipn (b + a) l.
Proof.
  revert l; induction b as [|b IH]; intros l; [reflexivity|].
  destruct l as [|x l]; [rewrite !skipn_nil; reflexivity|]. cbn [skipn Nat.add]. apply IH.
Qed.

(* number of blocks the Go loop processes *)
Definition nblocks (len : nat) : nat :=
  let nb := (len / 16)%nat in
  if (Nat.ltb 0 len && Nat.eqb (len mod 16) 0)%bool then (nb - 1)%nat else nb.

Lemma nblocks_bounds len : (0 < len)%nat ->
  (16 * nblocks len < len /\ len <= 16 * nblocks len + 16)%nat.
Proof.
  intros Hpos. unfold nblocks.
  pose proof (Nat.div_mod len 16 ltac:(lia)) as Hdm.
  pose proof (Nat.mod_upper_bound len 16 ltac:(lia)) as Hub.
  destruct (Nat.ltb_spec 0 len); [|lia]. cbn [andb].
  destruct (Nat.eqb_spec (len mod 16) 0) as [Hz|Hz].
  - rewrite Hz in Hdm. assert (1 <= len / 16)%nat by lia. lia.
  - lia.
Qed.

(* ------------------------------------------------------------------ *)
(* the loop of Compute = CBC-MAC fold over the leading blocks *)
Section CmacEq.
  Variable E : bytes -> bytes.

  Definition cstep (x blk : bytes) : bytes := E (xorb x blk).

  Lemma cbc_loop_chunks : forall n out data, (16 * n <= length data)%nat ->
    cbc_loop E n out data
      = (fold_left cstep (firstn n (chunks 16 data)) out, skipn (16 * n) data)
    /\ chunks 16 data = firstn n (chunks 16 data) ++ chunks 16 (skipn (16 * n) data).
  Proof.
    induction n as [|n IH]; intros out data Hl.
    - rewrite Nat.mul_0_r. cbn [cbc_loop firstn fold_left skipn app]. split; reflexivity.
    - assert (Hne : data <> []) by (intros ->; simpl in Hl; lia).
      rewrite (chunks_cons 16 data) by (auto; lia).
      cbn [cbc_loop firstn fold_left]. unfold BlockSize.
      assert (Hl' : (16 * n <= length (skipn 16 data))%nat) by (rewrite skipn_length; lia).
      destruct (IH (E (xorb (firstn 16 data) out)) (skipn 16 data) Hl') as [H1 H2].
      replace (16 * S n)%nat with (16 + 16 * n)%nat by lia.
      rewrite <- skipn_skipn_add. split.
      + rewrite H1. unfold cstep at 3. rewrite (xorb_comm out). reflexivity.
      + rewrite <- app_comm_cons. f_equal. exact H2.
  Qed.

  Lemma pad_block_spec r : pad_block r = pad_spec r.
  Proof.
    unfold pad_block, pad_spec, BlockSize.
    replace (16 - length r - 1)%nat with (15 - length r)%nat by lia. reflexivity.
  Qed.

  Hypothesis E0_wf : wfb (E (zeros 16)).
  Hypothesis E0_len : length (E (zeros 16)) = 16%nat.

  Lemma k1_spec : k1 E = K1_spec E.
  Proof. unfold k1, K1_spec, BlockSize. apply mulByX_dbl; assumption. Qed.

  Lemma k2_spec : k2 E = K2_spec E.
  Proof.
    unfold k2, K2_spec. rewrite k1_spec. apply mulByX_dbl.
    - apply dbl_wf.
    - apply dbl_length.
  Qed.

  Lemma cmac_impl_unfold m :
    cmac_impl E m =
      let '(output, rest) := cbc_loop E (nblocks (length m)) (zeros 16) m in
      let lastBlock := if Nat.eqb (length rest) 16 then xorb rest (k1 E)
                       else xorb (pad_block rest) (k2 E) in
      E (xorb output lastBlock).
  Proof. reflexivity. Qed.

  Theorem cmac_impl_spec : forall m, cmac_impl E m = cmac_spec E m.
  Proof.
    intros m. rewrite cmac_impl_unfold. unfold cmac_spec.
    destruct m as [|x m'] eqn:Em.
    - (* empty message *)
      cbn [length]. change (nblocks 0) with 0%nat. cbn [cbc_loop length Nat.eqb].
      rewrite chunks_nil. cbn [rev]. rewrite k2_spec, pad_block_spec.
      rewrite xorb_comm. reflexivity.
    - rewrite <- Em. assert (Hpos : (0 < length m)%nat) by (rewrite Em; simpl; lia).
      destruct (nblocks_bounds _ Hpos) as [Hlo Hhi].
      set (nb := nblocks (length m)) in *.
      destruct (cbc_loop_chunks nb (zeros 16) m ltac:(lia)) as [Hloop Hch].
      rewrite Hloop.
      set (rest := skipn (16 * nb) m) in *.
      assert (Hrl : length rest = (length m - 16 * nb)%nat) by (unfold rest; apply skipn_length).
      assert (Hrne : rest <> []) by (intros E0; rewrite E0 in Hrl; simpl in Hrl; lia).
      rewrite (chunks_small 16 rest Hrne ltac:(lia)) in Hch.
      set (blocks := firstn nb (chunks 16 m)) in *.
      rewrite Hch, rev_app_distr. cbn [rev app]. rewrite rev_involutive.
      rewrite k1_spec, k2_spec, pad_block_spec.
      rewrite xorb_comm. reflexivity.
  Qed.
End CmacEq.

(* ------------------------------------------------------------------ *)
(* output length: E maps 16-byte blocks to 16-byte blocks *)
Section CmacLen.
  Variable E : bytes -> bytes.
  Hypothesis E_len : forall b, length b = 16%nat -> length (E b) = 16%nat.

  Lemma k1_length : length (k1 E) = 16%nat.
  Proof. unfold k1. rewrite mulByX_length. apply E_len. apply zeros_length. Qed.

  Lemma k2_length : length (k2 E) = 16%nat.
  Proof. unfold k2. rewrite mulByX_length. apply k1_length. Qed.

  Lemma cbc_loop_out_length : forall n out data, (16 * n <= length data)%nat ->
    length out = 16%nat -> length (fst (cbc_loop E n out data)) = 16%nat.
  Proof.
    induction n as [|n IH]; intros out data Hl Ho; [exact Ho|].
    cbn [cbc_loop]. unfold BlockSize. apply IH.
    - rewrite skipn_length. lia.
    - apply E_len. rewrite xorb_length, firstn_length. lia.
  Qed.

  Theorem cmac_impl_length m : length (cmac_impl E m) = 16%nat.
  Proof.
    rewrite cmac_impl_unfold.
    set (nb := nblocks (length m)).
    assert (Hb : (16 * nb <= length m /\ length m <= 16 * nb + 16)%nat).
    { destruct (Nat.eq_dec (length m) 0) as [Hz|Hz].
      - unfold nb. rewrite Hz. change (nblocks 0) with 0%nat. lia.
      - destruct (nblocks_bounds (length m) ltac:(lia)). fold nb in H, H0. lia. }
    destruct Hb as [Hlo Hhi].
    destruct (cbc_loop_chunks E nb (zeros 16) m Hlo) as [Hloop _].
    pose proof (cbc_loop_out_length nb (zeros 16) m Hlo (zeros_length 16)) as Hol.
    rewrite Hloop in Hol. rewrite Hloop. cbn [fst] in Hol. cbv beta iota.
    set (out := fold_left (cstep E) (firstn nb (chunks 16 m)) (zeros 16)) in *.
    set (rest := skipn (16 * nb) m).
    assert (Hrl : length rest = (length m - 16 * nb)%nat) by (unfold rest; apply skipn_length).
    apply E_len. rewrite xorb_length, Hol.
    destruct (Nat.eqb_spec (length rest) 16) as [H16|H16].
    - rewrite xorb_length, H16, k1_length. reflexivity.
    - rewrite xorb_length, k2_length. unfold pad_block, BlockSize.
      rewrite !app_length, zeros_length. cbn [length]. lia.
  Qed.
End CmacLen.
