(* Witnesses for the theorems of MldsaVerifyIffProofs / MldsaCompositeProofs:
   with the toy XOF of MldsaSignVerifyExamples (which satisfies the only law
   used, the output-length law) the hypotheses are met and BOTH sides of the
   accept-set equivalences are inhabited: a generated key and a produced
   signature are accepted; a one-byte change of c~ and a truncation are
   rejected; an XOF that runs out gives no answer; a composite signature is
   accepted exactly when the classical part is accepted too; a prehash
   signature is accepted by the ordinary verifier.  Evaluated inside Coq on
   the model. *)
From Coq Require Import List ZArith NArith Bool Arith Lia.
From Tink Require Import Bytes MldsaPoly Mldsa MldsaPackProofs MldsaSignVerifyProofs MldsaKeyCodecProofs
  MldsaSignVerifyExamples MldsaVerifyIffProofs MldsaCompositeProofs.
Import ListNotations.

Lemma wfb_forallb s : forallb (fun b => N.ltb b 256) s = true -> wfb s.
Proof.
  intros H. unfold wfb. apply Forall_forall. intros x Hx. rewrite forallb_forall in H.
  apply N.ltb_lt. apply H. exact Hx.
Qed.

(* ---- ML-DSA-44 ---- *)
Definition ex_kp44 := Eval vm_compute in keyGenInternal ex_shake128 ex_shake256 MLDSA44 [].
Definition ex_pk44 : publicKey := match ex_kp44 with Some (pk, _) => pk | None => mkPK [] [] [] end.
Definition ex_sk44 : secretKey := match ex_kp44 with Some (_, sk) => sk | None => mkSK [] [] [] [] [] [] end.
Definition ex_sig44 : bytes := Eval vm_compute in
  match sign ex_shake128 ex_shake256 MLDSA44 1 ex_sk44 [] [] [] with Some (Some s) => s | _ => [] end.

Lemma ex_keygen44 : keyGenInternal ex_shake128 ex_shake256 MLDSA44 [] = Some (ex_pk44, ex_sk44).
Proof. vm_compute. reflexivity. Qed.

Lemma ex_accept_set_inhabited :
  params_ok MLDSA44 /\ pk_ok MLDSA44 ex_pk44 /\ wfb ex_sig44 /\ length ex_sig44 = 2420%nat /\
  (* accepted *)
  verify ex_shake128 ex_shake256 MLDSA44 ex_pk44 [] ex_sig44 [] = Some true /\
  (* first byte of c~ changed: rejected *)
  verify ex_shake128 ex_shake256 MLDSA44 ex_pk44 [] (1%N :: tl ex_sig44) [] = Some false /\
  (* truncated: rejected *)
  verify ex_shake128 ex_shake256 MLDSA44 ex_pk44 [] (tl ex_sig44) [] = Some false /\
  (* context too long: rejected *)
  verify ex_shake128 ex_shake256 MLDSA44 ex_pk44 [] ex_sig44 (zeros 256) = Some false /\
  (* wrong output prefix: rejected; right one: accepted *)
  tinkVerify ex_shake128 ex_shake256 MLDSA44 [1%N] (pkEncode ex_pk44) (1%N :: ex_sig44) [] = Some true /\
  tinkVerify ex_shake128 ex_shake256 MLDSA44 [1%N] (pkEncode ex_pk44) (2%N :: ex_sig44) [] = Some false /\
  (* a SHAKE128 stream that runs out: no answer *)
  verify (fun _ _ => []) ex_shake256 MLDSA44 ex_pk44 [] ex_sig44 [] = None.
Proof.
  split; [left; reflexivity|].
  split; [exact (generated_pk_ok ex_shake128 ex_shake256 MLDSA44 [] ex_pk44 ex_sk44 ex_shake256_length
                   (or_introl eq_refl) ex_keygen44)|].
  split; [apply wfb_forallb; vm_compute; reflexivity|].
  vm_compute. repeat split; reflexivity.
Qed.

(* ---- prehash (external mu), ML-DSA-44 ---- *)
Lemma ex_prehash_inhabited :
  match signPrehash ex_shake128 ex_shake256 MLDSA44 1 ex_sk44 7
          (computePrehash ex_shake256 (pk_tr ex_pk44) 7 [42%N]) [] with
  | Some (Some s) => tinkVerify ex_shake128 ex_shake256 MLDSA44 [] (pkEncode ex_pk44) s [42%N] = Some true
  | _ => False
  end /\
  (* a prehash computed for another key id is refused *)
  signPrehash ex_shake128 ex_shake256 MLDSA44 1 ex_sk44 7
    (computePrehash ex_shake256 (pk_tr ex_pk44) 8 [42%N]) [] = None.
Proof. vm_compute. split; reflexivity. Qed.

(* ---- composite, ML-DSA-65 + a toy classical verifier ---- *)
Definition ex_mask65 : bytes := bitPack (gamma1 MLDSA65) (zBits MLDSA65) zero_poly.
Definition ex_shake256_65 (m : bytes) (n : nat) : bytes := if Nat.eqb n 640 then ex_mask65 else zeros n.

Lemma ex_shake256_65_length m n : length (ex_shake256_65 m n) = n.
Proof.
  unfold ex_shake256_65. destruct (Nat.eqb n 640) eqn:E; [|apply zeros_length].
  apply Nat.eqb_eq in E. subst n. unfold ex_mask65. rewrite bitPack_length by reflexivity. reflexivity.
Qed.

Definition ex_sha512 (m : bytes) : bytes := zeros 64.
Definition ex_classical (pk msg sig : bytes) : bool := beq sig [7%N].
Definition ex_label : bytes := [65; 66]%N.

Definition ex_kp65 := Eval vm_compute in keyGenInternal ex_shake128 ex_shake256_65 MLDSA65 [].
Definition ex_pk65 : publicKey := match ex_kp65 with Some (pk, _) => pk | None => mkPK [] [] [] end.
Definition ex_sk65 : secretKey := match ex_kp65 with Some (_, sk) => sk | None => mkSK [] [] [] [] [] [] end.
Definition ex_sig65 : bytes := Eval vm_compute in
  match compositeSignMldsaPart ex_shake128 ex_shake256_65 MLDSA65 ex_sha512 1 ex_sk65 ex_label [1%N] [] with
  | Some (Some s) => s | _ => [] end.

Lemma ex_composite_inhabited :
  (forall m n, length (ex_shake256_65 m n) = n) /\ params_ok MLDSA65 /\
  keyGenInternal ex_shake128 ex_shake256_65 MLDSA65 [] = Some (ex_pk65, ex_sk65) /\
  compositeSignMldsaPart ex_shake128 ex_shake256_65 MLDSA65 ex_sha512 1 ex_sk65 ex_label [1%N] [] = Some (Some ex_sig65) /\
  length ex_sig65 = 3309%nat /\
  (* both components good: accepted *)
  compositeVerify ex_shake128 ex_shake256_65 MLDSA65 ex_sha512 ex_classical [9%N] (pkEncode ex_pk65) [] ex_label
    ([9%N] ++ ex_sig65 ++ [7%N]) [1%N] = Some true /\
  (* classical component bad: rejected *)
  compositeVerify ex_shake128 ex_shake256_65 MLDSA65 ex_sha512 ex_classical [9%N] (pkEncode ex_pk65) [] ex_label
    ([9%N] ++ ex_sig65 ++ [8%N]) [1%N] = Some false /\
  (* ML-DSA component bad: rejected although the classical one is good *)
  compositeVerify ex_shake128 ex_shake256_65 MLDSA65 ex_sha512 ex_classical [9%N] (pkEncode ex_pk65) [] ex_label
    ([9%N] ++ (1%N :: tl ex_sig65) ++ [7%N]) [1%N] = Some false /\
  (* too short for an ML-DSA signature: rejected *)
  compositeVerify ex_shake128 ex_shake256_65 MLDSA65 ex_sha512 ex_classical [9%N] (pkEncode ex_pk65) [] ex_label
    ([9%N] ++ [7%N]) [1%N] = Some false.
Proof.
  split; [exact ex_shake256_65_length|]. split; [right; left; reflexivity|].
  vm_compute. repeat split; reflexivity.
Qed.

(* ---- the FIPS 204 transcription on a toy XOF with the XOF laws ---- *)
From Tink Require Import MldsaFips MldsaFipsSampling MldsaFipsTop.

(* a lawful toy XOF: the output for message m is the first n bytes of the
   stream  base(m) ++ 0 0 0 ...  (so a shorter request is a prefix of a longer
   one), with base = 64 ones for the 96-byte message K || rnd || mu (so that
   rho'' differs from ExpandS's all-zero seed), the packed mask y = 0 for the
   66-byte ExpandMask messages rho'' || IntegerToBytes(kappa + r, 2), and
   nothing otherwise *)
Definition lx_base (m : bytes) : bytes :=
  if Nat.eqb (length m) 96 then repeat 1%N 64
  else if Nat.eqb (length m) 66 && N.eqb (nth 0 m 0%N) 1 then ex_mask
  else [].
Definition lx_shake256 (m : bytes) (n : nat) : bytes := firstn n (lx_base m ++ zeros n).

Lemma firstn_pad_prefix (base : bytes) a b : firstn a (firstn (a + b) (base ++ zeros (a + b))) = firstn a (base ++ zeros a).
Proof.
  rewrite firstn_firstn. replace (Nat.min a (a + b)) with a by lia.
  unfold zeros. rewrite repeat_app, app_assoc, firstn_app.
  rewrite app_length, repeat_length. replace (a - (length base + a))%nat with 0%nat by lia.
  rewrite firstn_O, app_nil_r. reflexivity.
Qed.

Lemma lx_shake256_laws : xof_laws lx_shake256.
Proof.
  split; intros; unfold lx_shake256.
  - rewrite firstn_length, app_length, zeros_length. lia.
  - apply wfb_firstn. apply wfb_app. split; [|apply zeros_wf].
    unfold lx_base. destruct (Nat.eqb (length m) 96); [apply Forall_forall; intros x Hx; apply repeat_spec in Hx; subst; reflexivity|].
    destruct (_ && _); [|constructor]. unfold ex_mask. apply simpleBitPack_wf. unfold psubFrom. rewrite map_length. reflexivity.
  - apply firstn_pad_prefix.
Qed.

Lemma ex_shake128_laws : xof_laws ex_shake128.
Proof.
  split; intros; unfold ex_shake128; [apply zeros_length | apply zeros_wf |].
  unfold zeros. rewrite repeat_app, firstn_app, repeat_length, Nat.sub_diag, firstn_O, app_nil_r.
  rewrite <- (repeat_length 0%N a) at 1. apply firstn_all.
Qed.

Definition lx_kp := Eval vm_compute in keyGenInternal ex_shake128 lx_shake256 MLDSA44 [].
Definition lx_pk : publicKey := match lx_kp with Some (pk, _) => pk | None => mkPK [] [] [] end.
Definition lx_sk : secretKey := match lx_kp with Some (_, sk) => sk | None => mkSK [] [] [] [] [] [] end.
Definition lx_pkb : bytes := Eval vm_compute in pkEncode lx_pk.
Definition lx_skb : bytes := Eval vm_compute in skEncode MLDSA44 lx_sk.
Definition lx_sig : bytes := Eval vm_compute in
  match sign ex_shake128 lx_shake256 MLDSA44 1 lx_sk [] [] [] with Some (Some s) => s | _ => [] end.

Lemma ex_fips_inhabited :
  xof_laws lx_shake256 /\ xof_laws ex_shake128 /\
  FIPS.KeyGen_internal lx_shake256 ex_shake128 FIPS.ML_DSA_44 672 1536 [] = Some (lx_pkb, lx_skb) /\
  length lx_pkb = 1312%nat /\ length lx_skb = 2560%nat /\
  FIPS.Sign lx_shake256 ex_shake128 FIPS.ML_DSA_44 672 1024 1 lx_skb [] [] [] = Some (Some lx_sig) /\
  length lx_sig = 2420%nat /\
  FIPS.Verify lx_shake256 ex_shake128 FIPS.ML_DSA_44 672 1024 lx_pkb [] lx_sig [] = Some true /\
  FIPS.Verify lx_shake256 ex_shake128 FIPS.ML_DSA_44 672 1024 lx_pkb [] (1%N :: tl lx_sig) [] = Some false.
Proof.
  assert (HP : params_ok MLDSA44) by (left; reflexivity).
  split; [exact lx_shake256_laws|]. split; [exact ex_shake128_laws|].
  split.
  { change FIPS.ML_DSA_44 with (fips_of MLDSA44).
    rewrite <- (KeyGen_internal_eq lx_shake256 ex_shake128 lx_shake256_laws ex_shake128_laws MLDSA44 HP []).
    vm_compute. reflexivity. }
  split; [reflexivity|]. split; [reflexivity|].
  assert (Dsk : skDecode MLDSA44 lx_skb = Some lx_sk) by (vm_compute; reflexivity).
  assert (Dpk : pkDecode lx_shake256 MLDSA44 lx_pkb = Some lx_pk) by (vm_compute; reflexivity).
  split.
  { change FIPS.ML_DSA_44 with (fips_of MLDSA44).
    rewrite <- (Sign_eq lx_shake256 ex_shake128 lx_shake256_laws ex_shake128_laws MLDSA44 HP lx_skb lx_sk 1 [] [] [] Dsk).
    vm_compute. reflexivity. }
  split; [reflexivity|].
  split.
  { change FIPS.ML_DSA_44 with (fips_of MLDSA44).
    rewrite <- (Verify_eq lx_shake256 ex_shake128 lx_shake256_laws ex_shake128_laws MLDSA44 HP lx_pkb lx_pk [] lx_sig [] Dpk eq_refl).
    vm_compute. reflexivity. }
  change FIPS.ML_DSA_44 with (fips_of MLDSA44).
  rewrite <- (Verify_eq lx_shake256 ex_shake128 lx_shake256_laws ex_shake128_laws MLDSA44 HP lx_pkb lx_pk [] (1%N :: tl lx_sig) [] Dpk eq_refl).
  vm_compute. reflexivity.
Qed.
