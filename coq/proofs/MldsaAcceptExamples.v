(* Witnesses for the theorems of MldsaVerifyIffProofs / MldsaCompositeProofs:
   with the toy XOF of MldsaSignVerifyExamples (which satisfies the only law
   used, the output-length law) the hypotheses are met and BOTH sides of the
   accept-set equivalences are inhabited: a generated key and a produced
   signature are accepted; a one-byte change of c~ and a truncation are
   rejected; an XOF that runs out gives no answer; a composite signature is
   accepted exactly when the classical part is accepted too; a prehash
   signature is accepted by the ordinary verifier.  Evaluated inside Coq on
   the model. *)
From Coq Require Import List ZArith NArith Bool Arith Lia.
From Tink Require Import Bytes MldsaPoly Mldsa MldsaPackProofs MldsaSignVerifyProofs MldsaKeyCodecProofs
  MldsaSignVerifyExamples MldsaVerifyIffProofs MldsaCompositeProofs.
Import ListNotations.

Lemma wfb_forallb s : forallb (fun b => N.ltb b 256) s = true -> wfb s.
Proof.
  intros H. unfold wfb. apply Forall_forall. intros x Hx. rewrite forallb_forall in H.
  apply N.ltb_lt. apply H. exact Hx.
Qed.

(* ---- ML-DSA-44 ---- *)
Definition ex_kp44 := Eval vm_compute in keyGenInternal ex_shake128 ex_shake256 MLDSA44 [].
Definition ex_pk44 : publicKey := match ex_kp44 with Some (pk, _) => pk | None => mkPK [] [] [] end.
Definition ex_sk44 : secretKey := match ex_kp44 with Some (_, sk) => sk | None => mkSK [] [] [] [] [] [] end.
Definition ex_sig44 : bytes := Eval vm_compute in
  match sign ex_shake128 ex_shake256 MLDSA44 1 ex_sk44 [] [] [] with Some (Some s) => s | _ => [] end.

Lemma ex_keygen44 : keyGenInternal ex_shake128 ex_shake256 MLDSA44 [] = Some (ex_pk44, ex_sk44).
Proof. vm_compute. reflexivity. Qed.

Lemma ex_accept_set_inhabited :
  params_ok MLDSA44 /\ pk_ok MLDSA44 ex_pk44 /\ wfb ex_sig44 /\ length ex_sig44 = 2420%nat /\
  (* accepted *)
  verify ex_shake128 ex_shake256 MLDSA44 ex_pk44 [] ex_sig44 [] = Some true /\
  (* first byte of c~ changed: rejected *)
  verify ex_shake128 ex_shake256 MLDSA44 ex_pk44 [] (1%N :: tl ex_sig44) [] = Some false /\
  (* truncated: rejected *)
  verify ex_shake128 ex_shake256 MLDSA44 ex_pk44 [] (tl ex_sig44) [] = Some false /\
  (* context too long: rejected *)
  verify ex_shake128 ex_shake256 MLDSA44 ex_pk44 [] ex_sig44 (zeros 256) = Some false /\
  (* wrong output prefix: rejected; right one: accepted *)
  tinkVerify ex_shake128 ex_shake256 MLDSA44 [1%N] (pkEncode ex_pk44) (1%N :: ex_sig44) [] = Some true /\
  tinkVerify ex_shake128 ex_shake256 MLDSA44 [1%N] (pkEncode ex_pk44) (2%N :: ex_sig44) [] = Some false /\
  (* a SHAKE128 stream that runs out: no answer *)
  verify (fun _ _ => []) ex_shake256 MLDSA44 ex_pk44 [] ex_sig44 [] = None.
Proof.
  split; [left; reflexivity|].
  split; [exact (generated_pk_ok ex_shake128 ex_shake256 MLDSA44 [] ex_pk44 ex_sk44 ex_shake256_length
                   (or_introl eq_refl) ex_keygen44)|].
  split; [apply wfb_forallb; vm_compute; reflexivity|].
  vm_compute. repeat split; reflexivity.
Qed.

(* ---- prehash (external mu), ML-DSA-44 ---- *)
Lemma ex_prehash_inhabited :
  match signPrehash ex_shake128 ex_shake256 MLDSA44 1 ex_sk44 7
          (computePrehash ex_shake256 (pk_tr ex_pk44) 7 [42%N]) [] with
  | Some (Some s) => tinkVerify ex_shake128 ex_shake256 MLDSA44 [] (pkEncode ex_pk44) s [42%N] = Some true
  | _ => False
  end /\
  (* a prehash computed for another key id is refused *)
  signPrehash ex_shake128 ex_shake256 MLDSA44 1 ex_sk44 7
    (computePrehash ex_shake256 (pk_tr ex_pk44) 8 [42%N]) [] = None.
Proof. vm_compute. split; reflexivity. Qed.

(* ---- composite, ML-DSA-65 + a toy classical verifier ---- *)
Definition ex_mask65 : bytes := bitPack (gamma1 MLDSA65) (zBits MLDSA65) zero_poly.
Definition ex_shake256_65 (m : bytes) (n : nat) : bytes := if Nat.eqb n 640 then ex_mask65 else zeros n.

Lemma ex_shake256_65_length m n : length (ex_shake256_65 m n) = n.
Proof.
  unfold ex_shake256_65. destruct (Nat.eqb n 640) eqn:E; [|apply zeros_length].
  apply Nat.eqb_eq in E. subst n. unfold ex_mask65. rewrite bitPack_length by reflexivity. reflexivity.
Qed.

Definition ex_sha512 (m : bytes) : bytes := zeros 64.
Definition ex_classical (pk msg sig : bytes) : bool := beq sig [7%N].
Definition ex_label : bytes := [65; 66]%N.

Definition ex_kp65 := Eval vm_compute in keyGenInternal ex_shake128 ex_shake256_65 MLDSA65 [].
Definition ex_pk65 : publicKey := match ex_kp65 with Some (pk, _) => pk | None => mkPK [] [] [] end.
Definition ex_sk65 : secretKey := match ex_kp65 with Some (_, sk) => sk | None => mkSK [] [] [] [] [] [] end.
Definition ex_sig65 : bytes := Eval vm_compute in
  match compositeSignMldsaPart ex_shake128 ex_shake256_65 MLDSA65 ex_sha512 1 ex_sk65 ex_label [1%N] [] with
  | Some (Some s) => s | _ => [] end.

Lemma ex_composite_inhabited :
  (forall m n, length (ex_shake256_65 m n) = n) /\ params_ok MLDSA65 /\
  keyGenInternal ex_shake128 ex_shake256_65 MLDSA65 [] = Some (ex_pk65, ex_sk65) /\
  compositeSignMldsaPart ex_shake128 ex_shake256_65 MLDSA65 ex_sha512 1 ex_sk65 ex_label [1%N] [] = Some (Some ex_sig65) /\
  length ex_sig65 = 3309%nat /\
  (* both components good: accepted *)
  compositeVerify ex_shake128 ex_shake256_65 MLDSA65 ex_sha512 ex_classical [9%N] (pkEncode ex_pk65) [] ex_label
    ([9%N] ++ ex_sig65 ++ [7%N]) [1%N] = Some true /\
  (* classical component bad: rejected *)
  compositeVerify ex_shake128 ex_shake256_65 MLDSA65 ex_sha512 ex_classical [9%N] (pkEncode ex_pk65) [] ex_label
    ([9%N] ++ ex_sig65 ++ [8%N]) [1%N] = Some false /\
  (* ML-DSA component bad: rejected although the classical one is good *)
  compositeVerify ex_shake128 ex_shake256_65 MLDSA65 ex_sha512 ex_classical [9%N] (pkEncode ex_pk65) [] ex_label
    ([9%N] ++ (1%N :: tl ex_sig65) ++ [7%N]) [1%N] = Some false /\
  (* too short for an ML-DSA signature: rejected *)
  compositeVerify ex_shake128 ex_shake256_65 MLDSA65 ex_sha512 ex_classical [9%N] (pkEncode ex_pk65) [] ex_label
    ([9%N] ++ [7%N]) [1%N] = Some false.
Proof.
  split; [exact ex_shake256_65_length|]. split; [right; left; reflexivity|].
  vm_compute. repeat split; reflexivity.
Qed.
