(* The algebraic identity behind ML-DSA verification, for the model of
   mldsa.go (model/Mldsa.v): with t = A*s1 + s2, (t1, t0) = Power2Round(t) and
   z = y + c*s1, the value the verifier recomputes,
        w' = intt( A^ o ntt(z) - ntt(c) o ntt(t1 * 2^d) ),
   equals  w - c*s2 + c*t0  with w = A*y — where every product is computed as
   the code does (ntt, pointwise multiplication, intt).  Uses: both transforms
   are additive and mutually inverse (MldsaNttProofs), pointwise ring laws in
   Z_q, linearity of the matrix-vector fold, and Power2Round. *)
From Coq Require Import List ZArith NArith Bool Arith Lia Setoid Morphisms.
From Tink Require Import Bytes Wrap MldsaScalar MldsaScalarProofs MldsaTableProofs
  MldsaKernels MldsaKernelsProofs MldsaPoly Mldsa MldsaNttProofs.
Import ListNotations.
Local Open Scope Z_scope.

Definition cpoly (p : poly) : Prop := length p = 256%nat /\ canon p.
Definition cvec (n : nat) (v : list poly) : Prop := length v = n /\ Forall cpoly v.

(* ---- closure ---- *)
Lemma canon_map2_mul a b : canon a -> canon b -> canon (map2 k_mul a b).
Proof.
  intros Ha. revert b. induction Ha as [|x a Hx Ha IH]; intros b Hb; destruct b as [|y b]; try constructor.
  - inversion Hb; subst. apply k_mul_range; auto.
  - inversion Hb; subst. apply IH; auto.
Qed.

Lemma cpoly_padd a b : cpoly a -> cpoly b -> cpoly (padd a b).
Proof. intros [La Ca] [Lb Cb]. split; [unfold padd; rewrite map2_length; lia | apply canon_map2_add; auto]. Qed.
Lemma cpoly_psub a b : cpoly a -> cpoly b -> cpoly (psub a b).
Proof. intros [La Ca] [Lb Cb]. split; [unfold psub; rewrite map2_length; lia | apply canon_map2_sub; auto]. Qed.
Lemma cpoly_pmul a b : cpoly a -> cpoly b -> cpoly (pmul a b).
Proof. intros [La Ca] [Lb Cb]. split; [unfold pmul; rewrite map2_length; lia | apply canon_map2_mul; auto]. Qed.
Lemma cpoly_ntt a : cpoly a -> cpoly (ntt a).
Proof. intros [La Ca]. apply ntt_props; auto. Qed.
Lemma cpoly_intt a : cpoly a -> cpoly (intt a).
Proof. intros [La Ca]. apply intt_props; auto. Qed.
Lemma cpoly_zero : cpoly zero_poly.
Proof. split; [reflexivity|]. unfold zero_poly, canon. apply Forall_forall. intros x Hx. apply repeat_spec in Hx. subst. unfold q. lia. Qed.
#[global] Hint Resolve cpoly_padd cpoly_psub cpoly_pmul cpoly_ntt cpoly_intt cpoly_zero : cpoly.

(* ---- pointwise ring laws ---- *)
(* direct inductions (few lists) *)
Lemma pmul_padd_r c a b : cpoly c -> cpoly a -> cpoly b -> pmul c (padd a b) = padd (pmul c a) (pmul c b).
Proof.
  intros [Lc Cc] [La Ca] [Lb Cb]. unfold pmul, padd. revert Lc La Lb. generalize 256%nat as n.
  revert a b Ca Cb. induction Cc as [|x c Hx Cc IH]; intros a b Ca Cb n Lc La Lb; destruct a, b; simpl in *; try reflexivity; try lia.
  inv_canon. f_equal; [kspec; cong_ring|]. eapply IH; eauto.
Qed.

Lemma pmul_psub_r c a b : cpoly c -> cpoly a -> cpoly b -> pmul c (psub a b) = psub (pmul c a) (pmul c b).
Proof.
  intros [Lc Cc] [La Ca] [Lb Cb]. unfold pmul, psub. revert Lc La Lb. generalize 256%nat as n.
  revert a b Ca Cb. induction Cc as [|x c Hx Cc IH]; intros a b Ca Cb n Lc La Lb; destruct a, b; simpl in *; try reflexivity; try lia.
  inv_canon. f_equal; [kspec; cong_ring|]. eapply IH; eauto.
Qed.

Lemma pmul_swap a c b : cpoly a -> cpoly c -> cpoly b -> pmul a (pmul c b) = pmul c (pmul a b).
Proof.
  intros [La Ca] [Lc Cc] [Lb Cb]. unfold pmul. revert Lc La Lb. generalize 256%nat as n.
  revert c b Cc Cb. induction Ca as [|x a Hx Ca IH]; intros c b Cc Cb n Lc La Lb; destruct c, b; simpl in *; try reflexivity; try lia.
  inv_canon. f_equal; [kspec; cong_ring|]. eapply IH; eauto.
Qed.

Lemma acc_add x1 x2 m u w : cpoly x1 -> cpoly x2 -> cpoly m -> cpoly u -> cpoly w ->
  padd (padd x1 x2) (pmul m (padd u w)) = padd (padd x1 (pmul m u)) (padd x2 (pmul m w)).
Proof.
  intros [L1 C1] [L2 C2] [Lm Cm] [Lu Cu] [Lw Cw]. unfold pmul, padd. revert L1 L2 Lm Lu Lw. generalize 256%nat as n.
  revert x2 m u w C2 Cm Cu Cw. induction C1 as [|x x1 Hx C1 IH]; intros x2 m u w C2 Cm Cu Cw n L1 L2 Lm Lu Lw;
    destruct x2, m, u, w; simpl in *; try reflexivity; try lia.
  inv_canon. f_equal; [kspec; cong_ring|]. eapply IH; eauto.
Qed.

Lemma acc_scal c x m w : cpoly c -> cpoly x -> cpoly m -> cpoly w ->
  padd (pmul c x) (pmul m (pmul c w)) = pmul c (padd x (pmul m w)).
Proof.
  intros [Lc Cc] [Lx Cx] [Lm Cm] [Lw Cw]. unfold pmul, padd. revert Lc Lx Lm Lw. generalize 256%nat as n.
  revert x m w Cx Cm Cw. induction Cc as [|y c Hy Cc IH]; intros x m w Cx Cm Cw n Lc Lx Lm Lw;
    destruct x, m, w; simpl in *; try reflexivity; try lia.
  inv_canon. f_equal; [kspec; cong_ring|]. eapply IH; eauto.
Qed.

Lemma final_identity X C S T : cpoly X -> cpoly C -> cpoly S -> cpoly T ->
  psub (padd X C) (psub (padd C S) T) = padd (psub X S) T.
Proof.
  intros [LX CX] [LC CC] [LS CS] [LT CT]. unfold psub, padd. revert LX LC LS LT. generalize 256%nat as n.
  revert C S T CC CS CT. induction CX as [|x X Hx CX IH]; intros C S T CC CS CT n LX LC LS LT;
    destruct C, S, T; simpl in *; try reflexivity; try lia.
  inv_canon. f_equal; [kspec; cong_ring|]. eapply IH; eauto.
Qed.

Lemma padd_zero_zero : padd zero_poly zero_poly = zero_poly.
Proof. vm_compute. reflexivity. Qed.

Lemma pmul_zero c : cpoly c -> pmul c zero_poly = zero_poly.
Proof.
  intros [Lc Cc]. unfold pmul, zero_poly, degree. revert Lc. generalize 256%nat as n.
  induction Cc as [|x c Hx Cc IH]; intros n Lc; destruct n; simpl in *; try reflexivity; try lia.
  f_equal; [rewrite k_mul_spec by (auto; unfold q; lia); rewrite Z.mul_0_r; reflexivity|]. apply IH. lia.
Qed.

(* ---- vectors ---- *)
Lemma cvec_cons n p v : cvec (S n) (p :: v) <-> cpoly p /\ cvec n v.
Proof.
  unfold cvec. split.
  - intros [L F]. inversion F; subst. simpl in L. split; [assumption | split; [lia | assumption]].
  - intros [Hp [L F]]. split; [simpl; lia | constructor; auto].
Qed.

Lemma cvec_map2 (f : poly -> poly -> poly) n a b :
  (forall x y, cpoly x -> cpoly y -> cpoly (f x y)) -> cvec n a -> cvec n b -> cvec n (map2 f a b).
Proof.
  intros Hf. revert a b. induction n as [|n IH]; intros a b [La Fa] [Lb Fb]; destruct a, b; simpl in *; try lia.
  - split; [reflexivity | constructor].
  - inversion Fa; inversion Fb; subst. apply cvec_cons. split; [auto|]. apply IH; split; auto; lia.
Qed.

Lemma cvec_map (f : poly -> poly) n a : (forall x, cpoly x -> cpoly (f x)) -> cvec n a -> cvec n (map f a).
Proof.
  intros Hf [La Fa]. split; [rewrite map_length; exact La|]. apply Forall_map. eapply Forall_impl; [|exact Fa]. auto.
Qed.

Lemma cvec_vadd n a b : cvec n a -> cvec n b -> cvec n (vadd a b).
Proof. apply cvec_map2. auto with cpoly. Qed.
Lemma cvec_vsub n a b : cvec n a -> cvec n b -> cvec n (vsub a b).
Proof. apply cvec_map2. auto with cpoly. Qed.
Lemma cvec_vntt n a : cvec n a -> cvec n (vntt a).
Proof. apply cvec_map. auto with cpoly. Qed.
Lemma cvec_vintt n a : cvec n a -> cvec n (vintt a).
Proof. apply cvec_map. auto with cpoly. Qed.
Lemma cvec_vscalarMul n c a : cpoly c -> cvec n a -> cvec n (vscalarMul c a).
Proof. intros Hc. apply cvec_map. auto with cpoly. Qed.
#[global] Hint Resolve cvec_vadd cvec_vsub cvec_vntt cvec_vintt cvec_vscalarMul : cpoly.

(* componentwise transfer of a binary / unary law to vectors *)
Lemma vec_ext2 (F G : poly -> poly -> poly) n a b :
  (forall x y, cpoly x -> cpoly y -> F x y = G x y) -> cvec n a -> cvec n b -> map2 F a b = map2 G a b.
Proof.
  intros H. revert a b. induction n as [|n IH]; intros a b [La Fa] [Lb Fb]; destruct a, b; simpl in *; try lia; [reflexivity|].
  inversion Fa; inversion Fb; subst. f_equal; [auto|]. apply IH; split; auto; lia.
Qed.

Lemma vntt_vadd n a b : cvec n a -> cvec n b -> vntt (vadd a b) = vadd (vntt a) (vntt b).
Proof.
  revert a b. induction n as [|n IH]; intros a b [La Fa] [Lb Fb]; destruct a, b; simpl in *; try lia; [reflexivity|].
  inversion Fa as [|? ? [L1 C1] Fa']; inversion Fb as [|? ? [L2 C2] Fb']; subst.
  unfold vntt, vadd in *. cbn [map map2]. f_equal; [apply ntt_add; auto|]. apply IH; split; auto; lia.
Qed.
Lemma vntt_vsub n a b : cvec n a -> cvec n b -> vntt (vsub a b) = vsub (vntt a) (vntt b).
Proof.
  revert a b. induction n as [|n IH]; intros a b [La Fa] [Lb Fb]; destruct a, b; simpl in *; try lia; [reflexivity|].
  inversion Fa as [|? ? [L1 C1] Fa']; inversion Fb as [|? ? [L2 C2] Fb']; subst.
  unfold vntt, vsub in *. cbn [map map2]. f_equal; [apply ntt_sub; auto|]. apply IH; split; auto; lia.
Qed.
Lemma vintt_vadd n a b : cvec n a -> cvec n b -> vintt (vadd a b) = vadd (vintt a) (vintt b).
Proof.
  revert a b. induction n as [|n IH]; intros a b [La Fa] [Lb Fb]; destruct a, b; simpl in *; try lia; [reflexivity|].
  inversion Fa as [|? ? [L1 C1] Fa']; inversion Fb as [|? ? [L2 C2] Fb']; subst.
  unfold vintt, vadd in *. cbn [map map2]. f_equal; [apply intt_add; auto|]. apply IH; split; auto; lia.
Qed.
Lemma vintt_vsub n a b : cvec n a -> cvec n b -> vintt (vsub a b) = vsub (vintt a) (vintt b).
Proof.
  revert a b. induction n as [|n IH]; intros a b [La Fa] [Lb Fb]; destruct a, b; simpl in *; try lia; [reflexivity|].
  inversion Fa as [|? ? [L1 C1] Fa']; inversion Fb as [|? ? [L2 C2] Fb']; subst.
  unfold vintt, vsub in *. cbn [map map2]. f_equal; [apply intt_sub; auto|]. apply IH; split; auto; lia.
Qed.
Lemma vntt_vintt n a : cvec n a -> vntt (vintt a) = a.
Proof.
  intros [La Fa]. unfold vntt, vintt. rewrite map_map. rewrite <- (map_id a) at 2. apply map_ext_in.
  intros p Hp. rewrite Forall_forall in Fa. destruct (Fa p Hp). apply ntt_intt; auto.
Qed.

Lemma vscalarMul_vadd n c a b : cpoly c -> cvec n a -> cvec n b ->
  vscalarMul c (vadd a b) = vadd (vscalarMul c a) (vscalarMul c b).
Proof.
  intros Hc. revert a b. induction n as [|n IH]; intros a b [La Fa] [Lb Fb]; destruct a, b; simpl in *; try lia; [reflexivity|].
  inversion Fa; inversion Fb; subst. unfold vscalarMul, vadd in *. cbn [map map2].
  f_equal; [apply pmul_padd_r; auto|]. apply IH; split; auto; lia.
Qed.
Lemma vscalarMul_vsub n c a b : cpoly c -> cvec n a -> cvec n b ->
  vscalarMul c (vsub a b) = vsub (vscalarMul c a) (vscalarMul c b).
Proof.
  intros Hc. revert a b. induction n as [|n IH]; intros a b [La Fa] [Lb Fb]; destruct a, b; simpl in *; try lia; [reflexivity|].
  inversion Fa; inversion Fb; subst. unfold vscalarMul, vsub in *. cbn [map map2].
  f_equal; [apply pmul_psub_r; auto|]. apply IH; split; auto; lia.
Qed.

(* ---- the matrix-vector fold ---- *)
Definition rowmul (row v : list poly) : poly :=
  fold_left (fun acc mv => padd acc (pmul (fst mv) (snd mv))) (combine row v) zero_poly.

Lemma mmul_rows m v : mmul m v = map (fun row => rowmul row v) m.
Proof. reflexivity. Qed.

Lemma fold_cpoly row v acc n : cvec n row -> cvec n v -> cpoly acc ->
  cpoly (fold_left (fun acc mv => padd acc (pmul (fst mv) (snd mv))) (combine row v) acc).
Proof.
  revert row v acc. induction n as [|n IH]; intros row v acc [Lr Fr] [Lv Fv] Ha; destruct row, v; simpl in *; try lia; auto.
  inversion Fr; inversion Fv; subst. apply IH; [split; auto; lia | split; auto; lia | auto with cpoly].
Qed.

Lemma rowmul_cpoly n row v : cvec n row -> cvec n v -> cpoly (rowmul row v).
Proof. intros. eapply fold_cpoly; eauto with cpoly. Qed.

Lemma fold_add n : forall row u w acc1 acc2, cvec n row -> cvec n u -> cvec n w -> cpoly acc1 -> cpoly acc2 ->
  fold_left (fun acc mv => padd acc (pmul (fst mv) (snd mv))) (combine row (vadd u w)) (padd acc1 acc2) =
  padd (fold_left (fun acc mv => padd acc (pmul (fst mv) (snd mv))) (combine row u) acc1)
       (fold_left (fun acc mv => padd acc (pmul (fst mv) (snd mv))) (combine row w) acc2).
Proof.
  induction n as [|n IH]; intros row u w acc1 acc2 [Lr Fr] [Lu Fu] [Lw Fw] H1 H2;
    destruct row, u, w; simpl in *; try lia; [reflexivity|].
  inversion Fr; inversion Fu; inversion Fw; subst. unfold vadd in *. cbn [map2 combine fold_left fst snd].
  rewrite acc_add by auto. apply IH; try (split; auto; lia); auto with cpoly.
Qed.

Lemma fold_scal n c : cpoly c -> forall row w acc, cvec n row -> cvec n w -> cpoly acc ->
  fold_left (fun acc mv => padd acc (pmul (fst mv) (snd mv))) (combine row (vscalarMul c w)) (pmul c acc) =
  pmul c (fold_left (fun acc mv => padd acc (pmul (fst mv) (snd mv))) (combine row w) acc).
Proof.
  intros Hc. induction n as [|n IH]; intros row w acc [Lr Fr] [Lw Fw] Ha;
    destruct row, w; simpl in *; try lia; [reflexivity|].
  inversion Fr; inversion Fw; subst. unfold vscalarMul in *. cbn [map combine fold_left fst snd].
  rewrite acc_scal by auto. apply IH; try (split; auto; lia); auto with cpoly.
Qed.

Definition cmat (k l : nat) (m : list (list poly)) : Prop := length m = k /\ Forall (cvec l) m.

Lemma cvec_mmul k l m v : cmat k l m -> cvec l v -> cvec k (mmul m v).
Proof.
  intros [Lm Fm] Hv. rewrite mmul_rows. split; [rewrite map_length; exact Lm|].
  apply Forall_map. eapply Forall_impl; [|exact Fm]. intros row Hr. eapply rowmul_cpoly; eauto.
Qed.
#[global] Hint Resolve cvec_mmul : cpoly.

Lemma mmul_vadd k l m u w : cmat k l m -> cvec l u -> cvec l w ->
  mmul m (vadd u w) = vadd (mmul m u) (mmul m w).
Proof.
  intros [Lm Fm] Hu Hw. rewrite !mmul_rows. unfold vadd at 2. clear Lm.
  induction Fm as [|row m Hr Fm IH]; [reflexivity|]. cbn [map map2]. f_equal; [|exact IH].
  unfold rowmul. rewrite <- padd_zero_zero at 1. eapply fold_add; eauto with cpoly.
Qed.

Lemma mmul_vscalarMul k l m c w : cmat k l m -> cpoly c -> cvec l w ->
  mmul m (vscalarMul c w) = vscalarMul c (mmul m w).
Proof.
  intros [Lm Fm] Hc Hw. rewrite !mmul_rows. unfold vscalarMul at 2. rewrite map_map. clear Lm.
  induction Fm as [|row m Hr Fm IH]; [reflexivity|]. cbn [map]. f_equal; [|exact IH].
  unfold rowmul. rewrite <- (pmul_zero c Hc) at 1. eapply fold_scal; eauto with cpoly.
Qed.

(* ---- Power2Round on vectors: t1 * 2^d = t - t0 ---- *)
Ltac Zify.zify_post_hook ::= Z.div_mod_to_equations.
Lemma power2Round_scalar a : 0 <= a < q ->
  k_scalePower2 (fst (k_power2Round a)) = k_sub a (snd (k_power2Round a)) /\
  0 <= snd (k_power2Round a) < q.
Proof.
  intros Ha. rewrite k_power2Round_eq, power2Round_spec by auto. cbn [fst snd].
  rewrite k_scalePower2_eq.
  set (c := cmod a 8192).
  assert (Hc : -4096 < c <= 4096 /\ a - c = 8192 * ((a - c) / 8192) /\ 0 <= (a - c) / 8192 < 1024).
  { unfold c, cmod, q in *. change (8192 / 2) with 4096.
    destruct (a mod 8192 <=? 4096) eqn:E; [apply Z.leb_le in E | apply Z.leb_gt in E]; lia. }
  destruct Hc as (Hc1 & Hd & Hr1).
  split; [|apply mod_q_range].
  rewrite scalePower2_spec by exact Hr1.
  rewrite k_sub_spec by (auto using mod_q_range).
  rewrite Zminus_mod_idemp_r. rewrite Z.mod_small by (unfold q in *; lia). lia.
Qed.
Ltac Zify.zify_post_hook ::= idtac.

Lemma power2Round_poly t : cpoly t ->
  pscalePower2 (fst (ppower2Round t)) = psub t (snd (ppower2Round t)) /\ cpoly (snd (ppower2Round t)).
Proof.
  intros [Lt Ct]. unfold ppower2Round, pscalePower2, psub, cpoly. cbn [fst snd]. rewrite !map_map.
  split; [|split; [rewrite map_length; exact Lt|]].
  - clear Lt. induction Ct as [|a t Ha Ct IH]; [reflexivity|]. cbn [map map2]. f_equal; [|exact IH].
    apply power2Round_scalar. exact Ha.
  - apply Forall_map. eapply Forall_impl; [|exact Ct]. intros a Ha. apply power2Round_scalar. exact Ha.
Qed.

Lemma vec_final_identity k : forall X C SS T, cvec k X -> cvec k C -> cvec k SS -> cvec k T ->
  vsub (vadd X C) (vsub (vadd C SS) T) = vadd (vsub X SS) T.
Proof.
  induction k as [|k IH]; intros X C SS T [LX FX] [LC FC] [LS FS] [LT FT];
    destruct X, C, SS, T; simpl in *; try lia; [reflexivity|].
  inversion FX; inversion FC; inversion FS; inversion FT; subst.
  unfold vsub, vadd in *. cbn [map2]. f_equal; [apply final_identity; auto|].
  apply IH; split; auto; lia.
Qed.

(* ---- the identity ---- *)
Theorem verify_recomputes_w k l (Ah : list (list poly)) (s1 s2 y : list poly) (c : poly) :
  cmat k l Ah -> cvec l s1 -> cvec k s2 -> cvec l y -> cpoly c ->
  let s1h := vntt s1 in let s2h := vntt s2 in
  let t := vadd (vintt (mmul Ah s1h)) s2 in
  let t1 := map fst (map ppower2Round t) in
  let t0 := map snd (map ppower2Round t) in
  let t0h := vntt t0 in
  let ch := ntt c in
  let w := vintt (mmul Ah (vntt y)) in
  let cs1 := vintt (vscalarMul ch s1h) in
  let cs2 := vintt (vscalarMul ch s2h) in
  let ct0 := vintt (vscalarMul ch t0h) in
  let z := vadd y cs1 in
  vintt (vsub (mmul Ah (vntt z)) (vscalarMul ch (vntt (map pscalePower2 t1)))) = vadd (vsub w cs2) ct0.
Proof.
  intros HA Hs1 Hs2 Hy Hc. cbv zeta.
  set (s1h := vntt s1). set (s2h := vntt s2). set (yh := vntt y). set (ch := ntt c).
  assert (Hs1h : cvec l s1h) by (unfold s1h; auto with cpoly).
  assert (Hs2h : cvec k s2h) by (unfold s2h; auto with cpoly).
  assert (Hyh : cvec l yh) by (unfold yh; auto with cpoly).
  assert (Hch : cpoly ch) by (unfold ch; auto with cpoly).
  set (As1 := mmul Ah s1h). assert (HAs1 : cvec k As1) by (unfold As1; eauto with cpoly).
  set (t := vadd (vintt As1) s2). assert (Ht : cvec k t) by (unfold t; auto with cpoly).
  (* Power2Round *)
  assert (HP : map pscalePower2 (map fst (map ppower2Round t)) = vsub t (map snd (map ppower2Round t)) /\
               cvec k (map snd (map ppower2Round t))).
  { destruct Ht as [Lt Ft]. clear - Lt Ft. revert k Lt. induction Ft as [|p t Hp Ft IH]; intros k Lt.
    - simpl in *. subst. split; [reflexivity | split; [reflexivity | constructor]].
    - destruct k; simpl in Lt; [lia|]. destruct (IH k ltac:(lia)) as [I1 I2].
      destruct (power2Round_poly p Hp) as [P1 P2]. cbn [map]. unfold vsub in *. cbn [map2]. split.
      + f_equal; auto.
      + apply cvec_cons. split; auto. }
  destruct HP as [HP Ht0]. rewrite HP.
  set (t0 := map snd (map ppower2Round t)) in *. set (t0h := vntt t0).
  assert (Ht0h : cvec k t0h) by (unfold t0h; auto with cpoly).
  (* ntt z *)
  assert (Hcs1h : cvec l (vscalarMul ch s1h)) by auto with cpoly.
  rewrite (vntt_vadd l) by auto with cpoly. rewrite (vntt_vintt l) by auto. fold yh.
  rewrite (mmul_vadd k l) by auto. rewrite (mmul_vscalarMul k l) by auto. fold As1.
  (* ntt (t - t0) *)
  rewrite (vntt_vsub k) by auto. unfold t at 1. rewrite (vntt_vadd k) by auto with cpoly.
  rewrite (vntt_vintt k) by auto. fold s2h t0h.
  rewrite (vscalarMul_vsub k), (vscalarMul_vadd k) by auto with cpoly.
  set (X := mmul Ah yh). assert (HX : cvec k X) by (unfold X; eauto with cpoly).
  set (C := vscalarMul ch As1). set (SS := vscalarMul ch s2h). set (T := vscalarMul ch t0h).
  assert (HC : cvec k C) by (unfold C; auto with cpoly).
  assert (HS : cvec k SS) by (unfold SS; auto with cpoly).
  assert (HT : cvec k T) by (unfold T; auto with cpoly).
  rewrite (vec_final_identity k X C SS T) by auto.
  rewrite (vintt_vadd k), (vintt_vsub k) by auto with cpoly. reflexivity.
Qed.
