(* Proofs about the tokenizer of model/Json.v (property C09, JSON text layer).
   Every token lexer is LOCAL: when it succeeds on s = pre ++ rest it has read
   exactly pre, and it gives the same token on pre ++ y for every y that may
   follow that kind of token.  From this: the text consumed is valid UTF-8,
   whitespace between tokens and around the text never matters, and nothing
   but whitespace can follow an accepted text. *)
From Coq Require Import List NArith ZArith Bool Lia ZifyN ZifyNat ZifyBool Arith.
From Tink Require Import Bytes Base64url Jwt Json.
Import ListNotations.
Open Scope N_scope.

Ltac Zify.zify_post_hook ::= Z.div_mod_to_equations.

(* ================= small tools ================= *)
Definition all_ws (w : bytes) : bool := forallb is_ws w.

Lemma utf8_valid_cons x t :
  utf8_valid (x :: t) =
    if x <? 128 then utf8_valid t
    else if inr 194 223 x then
      match t with
      | y :: t1 => cont y && utf8_valid t1
      | _ => false
      end
    else if inr 224 239 x then
      match t with
      | y :: z :: t2 =>
          (if x =? 224 then inr 160 191 y else if x =? 237 then inr 128 159 y else cont y)
          && cont z && utf8_valid t2
      | _ => false
      end
    else if inr 240 244 x then
      match t with
      | y :: z :: w :: t3 =>
          (if x =? 240 then inr 144 191 y else if x =? 244 then inr 128 143 y else cont y)
          && cont z && cont w && utf8_valid t3
      | _ => false
      end
    else false.
Proof. reflexivity. Qed.

Lemma utf8_ascii_cons x t : x < 128 -> utf8_valid (x :: t) = utf8_valid t.
Proof. intros H. rewrite utf8_valid_cons. replace (x <? 128) with true by lia. reflexivity. Qed.

(* appending after a valid prefix *)
Lemma utf8_valid_app a b : utf8_valid a = true -> utf8_valid (a ++ b) = utf8_valid b.
Proof.
  remember (length a) as n eqn:Hn. revert a Hn.
  induction n as [n IH] using lt_wf_ind. intros a Hn H.
  destruct a as [|x t]; [reflexivity|].
  rewrite utf8_valid_cons in H. rewrite <- app_comm_cons, utf8_valid_cons.
  destruct (x <? 128).
  - apply (IH (length t)); [cbn in Hn; lia|reflexivity|exact H].
  - destruct (inr 194 223 x).
    + destruct t as [|y t1]; [discriminate|].
      apply andb_true_iff in H. destruct H as [Hy H].
      cbn [app]. rewrite Hy. cbn [andb].
      apply (IH (length t1)); [cbn in Hn; lia|reflexivity|exact H].
    + destruct (inr 224 239 x).
      * destruct t as [|y [|z t2]]; try discriminate.
        apply andb_true_iff in H. destruct H as [Hyz H].
        cbn [app]. rewrite Hyz. cbn [andb].
        apply (IH (length t2)); [cbn in Hn; lia|reflexivity|exact H].
      * destruct (inr 240 244 x); [|discriminate].
        destruct t as [|y [|z [|w t3]]]; try discriminate.
        apply andb_true_iff in H. destruct H as [Hyzw H].
        cbn [app]. rewrite Hyzw. cbn [andb].
        apply (IH (length t3)); [cbn in Hn; lia|reflexivity|exact H].
Qed.

Lemma utf8_valid_app_true a b : utf8_valid a = true -> utf8_valid b = true -> utf8_valid (a ++ b) = true.
Proof. intros Ha Hb. rewrite utf8_valid_app by exact Ha. exact Hb. Qed.

Lemma utf8_ascii s : Forall (fun c => c < 128) s -> utf8_valid s = true.
Proof.
  induction s as [|c t IH]; intros H; [reflexivity|].
  inversion H; subst. rewrite utf8_ascii_cons by assumption. auto.
Qed.

(* ---- whitespace ---- *)
Lemma is_ws_lt c : is_ws c = true -> c < 128.
Proof. unfold is_ws. lia. Qed.

Lemma skip_ws_all w : all_ws w = true -> forall s, skip_ws (w ++ s) = skip_ws s.
Proof.
  induction w as [|c w IH]; intros H s; [reflexivity|].
  cbn [all_ws forallb] in H. apply andb_true_iff in H. destruct H as [Hc Hw].
  cbn [app skip_ws]. rewrite Hc. apply IH. exact Hw.
Qed.

Lemma skip_ws_nil w : all_ws w = true -> skip_ws w = [].
Proof. intros H. rewrite <- (app_nil_r w), skip_ws_all by exact H. reflexivity. Qed.

(* s = its leading whitespace ++ skip_ws s *)
Lemma skip_ws_split s : exists w, all_ws w = true /\ s = w ++ skip_ws s.
Proof.
  induction s as [|c t [w [Hw E]]].
  - exists []. split; reflexivity.
  - cbn [skip_ws]. destruct (is_ws c) eqn:Hc.
    + exists (c :: w). split; [cbn [all_ws forallb]; rewrite Hc; exact Hw|].
      cbn [app]. rewrite <- E. reflexivity.
    + exists []. split; reflexivity.
Qed.

Lemma skip_ws_head s c t : skip_ws s = c :: t -> is_ws c = false.
Proof.
  induction s as [|x s IH]; cbn [skip_ws]; [discriminate|].
  destruct (is_ws x) eqn:Hx; [exact IH|]. intros E. inversion E; subst. exact Hx.
Qed.

Lemma skip_ws_id c t : is_ws c = false -> skip_ws (c :: t) = c :: t.
Proof. intros H. cbn [skip_ws]. rewrite H. reflexivity. Qed.

Lemma skip_ws_length s : (length (skip_ws s) <= length s)%nat.
Proof.
  induction s as [|c t IH]; [cbn; lia|]. cbn [skip_ws]. destruct (is_ws c); cbn [length]; lia.
Qed.

Lemma all_ws_app a b : all_ws (a ++ b) = all_ws a && all_ws b.
Proof. apply forallb_app. Qed.

Lemma all_ws_utf8 w : all_ws w = true -> utf8_valid w = true.
Proof.
  intros H. apply utf8_ascii. apply Forall_forall. intros c Hc.
  apply is_ws_lt. unfold all_ws in H. rewrite forallb_forall in H. auto.
Qed.

(* ---- heads ---- *)
Definition hd_ok (P : N -> bool) (y : bytes) : bool :=
  match y with [] => true | c :: _ => P c end.

Lemma delim_next_app r x : r <> [] -> delim_next (r ++ x) = delim_next r.
Proof. destruct r; [congruence|reflexivity]. Qed.

Lemma delim_next_ws w : all_ws w = true -> delim_next w = true.
Proof.
  destruct w as [|c w]; [reflexivity|]. cbn [all_ws forallb delim_next]. intros H.
  apply andb_true_iff in H. destruct H as [H _]. unfold is_ws in H. unfold is_not_delim, is_digit. lia.
Qed.

Lemma not_delim_digit c : is_digit c = true -> is_not_delim c = true.
Proof. unfold is_not_delim. intros ->. repeat rewrite orb_true_r. reflexivity. Qed.

(* ================= strings ================= *)

(* code points and their encodings *)
Lemma hexval_lt c v : hexval c = Some v -> v < 16 /\ c < 128.
Proof.
  unfold hexval, is_digit. destruct ((48 <=? c) && (c <=? 57)) eqn:A.
  - intros E. inversion E. lia.
  - destruct ((97 <=? c) && (c <=? 102)) eqn:B.
    + intros E. inversion E. lia.
    + destruct ((65 <=? c) && (c <=? 70)) eqn:C; [|discriminate]. intros E. inversion E. lia.
Qed.

Lemma hex4_lt a b c d u : hex4 a b c d = Some u ->
  u < 65536 /\ a < 128 /\ b < 128 /\ c < 128 /\ d < 128.
Proof.
  unfold hex4.
  destruct (hexval a) as [x|] eqn:Ea; [|discriminate].
  destruct (hexval b) as [y|] eqn:Eb; [|discriminate].
  destruct (hexval c) as [z|] eqn:Ec; [|discriminate].
  destruct (hexval d) as [w|] eqn:Ed; [|discriminate].
  intros E. inversion E; subst.
  apply hexval_lt in Ea, Eb, Ec, Ed. lia.
Qed.

Lemma utf8_enc_valid u : is_surrogate u = false -> u < 1114112 -> utf8_valid (utf8_enc u) = true.
Proof.
  unfold is_surrogate, utf8_enc. intros S L.
  destruct (u <? 128) eqn:A.
  { rewrite utf8_ascii_cons by lia. reflexivity. }
  destruct (u <? 2048) eqn:B.
  { rewrite utf8_valid_cons.
    replace (192 + u / 64 <? 128) with false by lia.
    replace (inr 194 223 (192 + u / 64)) with true by (unfold inr; lia).
    replace (cont (128 + u mod 64)) with true by (unfold cont, inr; lia). reflexivity. }
  destruct (u <? 65536) eqn:C.
  { rewrite utf8_valid_cons.
    replace (224 + u / 4096 <? 128) with false by lia.
    replace (inr 194 223 (224 + u / 4096)) with false by (unfold inr; lia).
    replace (inr 224 239 (224 + u / 4096)) with true by (unfold inr; lia).
    replace (cont (128 + u mod 64)) with true by (unfold cont, inr; lia).
    destruct (224 + u / 4096 =? 224) eqn:D.
    - replace (inr 160 191 (128 + (u / 64) mod 64)) with true by (unfold inr; lia). reflexivity.
    - destruct (224 + u / 4096 =? 237) eqn:F.
      + replace (inr 128 159 (128 + (u / 64) mod 64)) with true by (unfold inr; lia). reflexivity.
      + replace (cont (128 + (u / 64) mod 64)) with true by (unfold cont, inr; lia). reflexivity. }
  rewrite utf8_valid_cons.
  replace (240 + u / 262144 <? 128) with false by lia.
  replace (inr 194 223 (240 + u / 262144)) with false by (unfold inr; lia).
  replace (inr 224 239 (240 + u / 262144)) with false by (unfold inr; lia).
  replace (inr 240 244 (240 + u / 262144)) with true by (unfold inr; lia).
  replace (cont (128 + u mod 64)) with true by (unfold cont, inr; lia).
  replace (cont (128 + (u / 64) mod 64)) with true by (unfold cont, inr; lia).
  destruct (240 + u / 262144 =? 240) eqn:D.
  - replace (inr 144 191 (128 + (u / 4096) mod 64)) with true by (unfold inr; lia). reflexivity.
  - destruct (240 + u / 262144 =? 244) eqn:F.
    + replace (inr 128 143 (128 + (u / 4096) mod 64)) with true by (unfold inr; lia). reflexivity.
    + replace (cont (128 + (u / 4096) mod 64)) with true by (unfold cont, inr; lia). reflexivity.
Qed.

Lemma pair_cp_range hi lo : is_high hi = true -> is_low lo = true ->
  is_surrogate (pair_cp hi lo) = false /\ pair_cp hi lo < 1114112.
Proof. unfold is_high, is_low, is_surrogate, pair_cp. lia. Qed.

Lemma simple_escape_lt e c : simple_escape e = Some c -> c < 128 /\ e < 128.
Proof.
  unfold simple_escape.
  repeat match goal with |- context [if ?b then _ else _] => destruct b eqn:? end;
    intros E; inversion E; lia.
Qed.

Lemma push_some pre r o rest : push pre r = Some (o, rest) ->
  exists o', r = Some (o', rest) /\ o = pre ++ o'.
Proof. destruct r as [[o' r']|]; cbn; [|discriminate]. intros E. inversion E; subst. eauto. Qed.

(* one unfolding of lex_string (cbn would unfold the recursive calls on
   constructor-headed tails as well) *)
Lemma lex_string_cons x t :
  lex_string (x :: t) =

    if x =? 34 then Some ([], t)
    else if x =? 92 then
      match t with
      | [] => None
      | e :: t1 =>
        match simple_escape e with
        | Some c => push [c] (lex_string t1)
        | None =>
          if e =? 117 then
            match t1 with
            | a :: b :: c :: d :: t2 =>
              match hex4 a b c d with
              | None => None
              | Some u =>
                if is_surrogate u then
                  match t2 with
                  | bs :: uu :: a2 :: b2 :: c2 :: d2 :: t3 =>
                    if (bs =? 92) && (uu =? 117) then
                      match hex4 a2 b2 c2 d2 with
                      | Some lo =>
                        if is_high u && is_low lo then push (utf8_enc (pair_cp u lo)) (lex_string t3)
                        else None
                      | None => None
                      end
                    else None
                  | _ => None
                  end
                else push (utf8_enc u) (lex_string t2)
              end
            | _ => None
            end
          else None
        end
      end
    else if x <? 32 then None
    else if x <? 128 then push [x] (lex_string t)
    else if inr 194 223 x then
      match t with
      | y :: t1 => if cont y then push [x; y] (lex_string t1) else None
      | _ => None
      end
    else if inr 224 239 x then
      match t with
      | y :: z :: t2 =>
        if (if x =? 224 then inr 160 191 y else if x =? 237 then inr 128 159 y else cont y) && cont z
        then push [x; y; z] (lex_string t2) else None
      | _ => None
      end
    else if inr 240 244 x then
      match t with
      | y :: z :: w :: t3 =>
        if (if x =? 240 then inr 144 191 y else if x =? 244 then inr 128 143 y else cont y)
           && cont z && cont w
        then push [x; y; z; w] (lex_string t3) else None
      | _ => None
      end
    else None.
Proof. reflexivity. Qed.

Lemma last_app_ne (a b : bytes) d : b <> [] -> last (a ++ b) d = last b d.
Proof.
  intros NE. induction a as [|x a IH]; [reflexivity|].
  cbn [app]. destruct (a ++ b) eqn:E.
  - destruct a; cbn in E; [congruence|discriminate].
  - rewrite <- E in *. cbn [last]. rewrite E. rewrite <- E. exact IH.
Qed.

Lemma utf8_one x : x < 128 -> utf8_valid [x] = true.
Proof. intros H. rewrite utf8_ascii_cons by exact H. reflexivity. Qed.

(* ---- the grammar of a string literal (RFC 8259 section 7, as protojson reads it) ----
   one item of the text between the quotes, and the bytes it stands for *)
Inductive str_item : bytes -> bytes -> Prop :=
| SI_ascii x :            (* unescaped: any ASCII byte from 0x20 on except quote and backslash *)
    (x <? 32) = false -> (x <? 128) = true -> (x =? 34) = false -> (x =? 92) = false ->
    str_item [x] [x]
| SI_utf8_2 x y :         (* unescaped: one well-formed UTF-8 character of 2, 3 or 4 bytes *)
    inr 194 223 x = true -> cont y = true -> str_item [x; y] [x; y]
| SI_utf8_3 x y z :
    inr 224 239 x = true ->
    (if x =? 224 then inr 160 191 y else if x =? 237 then inr 128 159 y else cont y) && cont z = true ->
    str_item [x; y; z] [x; y; z]
| SI_utf8_4 x y z w :
    inr 240 244 x = true ->
    (if x =? 240 then inr 144 191 y else if x =? 244 then inr 128 143 y else cont y) && cont z && cont w = true ->
    str_item [x; y; z; w] [x; y; z; w]
| SI_simple e c :         (* backslash and one of  quote backslash / b f n r t *)
    simple_escape e = Some c -> str_item [92; e] [c]
| SI_u a b c d u :        (* \uXXXX, four hex digits, not a surrogate: the UTF-8 encoding of the code point *)
    hex4 a b c d = Some u -> is_surrogate u = false -> str_item [92; 117; a; b; c; d] (utf8_enc u)
| SI_pair a b c d a2 b2 c2 d2 hi lo :   (* a high surrogate escape directly followed by a low one *)
    hex4 a b c d = Some hi -> hex4 a2 b2 c2 d2 = Some lo -> is_high hi = true -> is_low lo = true ->
    str_item [92; 117; a; b; c; d; 92; 117; a2; b2; c2; d2] (utf8_enc (pair_cp hi lo)).

Inductive str_body : bytes -> bytes -> Prop :=
| SB_nil : str_body [] []
| SB_cons t o ts os : str_item t o -> str_body ts os -> str_body (t ++ ts) (o ++ os).

(* the lexer on one item *)
Lemma str_item_lex t o : str_item t o -> forall z, lex_string (t ++ z) = push o (lex_string z).
Proof.
  intros SI z. destruct SI as [x C A Q B|x y R2 Cy|x y z0 R3 Cyz|x y z0 w R4 Cyzw|e c SE|a b c d u HX SU
                              |a b c d a2 b2 c2 d2 hi lo HX HX2 Hh Hl];
    cbn [app]; rewrite lex_string_cons; cbv beta iota.
  - rewrite Q, B, C, A. reflexivity.
  - assert (x <? 128 = false /\ (x <? 32) = false /\ (x =? 34) = false /\ (x =? 92) = false) as [A [C [Q B]]]
      by (unfold inr in R2; lia).
    rewrite Q, B, C, A, R2, Cy. reflexivity.
  - assert (x <? 128 = false /\ (x <? 32) = false /\ (x =? 34) = false /\ (x =? 92) = false
            /\ inr 194 223 x = false) as [A [C [Q [B R2]]]] by (unfold inr in *; lia).
    rewrite Q, B, C, A, R2, R3, Cyz. reflexivity.
  - assert (x <? 128 = false /\ (x <? 32) = false /\ (x =? 34) = false /\ (x =? 92) = false
            /\ inr 194 223 x = false /\ inr 224 239 x = false) as [A [C [Q [B [R2 R3]]]]] by (unfold inr in *; lia).
    rewrite Q, B, C, A, R2, R3, R4, Cyzw. reflexivity.
  - change (92 =? 34) with false. change (92 =? 92) with true. cbv iota. rewrite SE. reflexivity.
  - change (92 =? 34) with false. change (92 =? 92) with true. cbv iota.
    change (simple_escape 117) with (@None N). cbv iota. change (117 =? 117) with true. cbv iota.
    rewrite HX, SU. reflexivity.
  - change (92 =? 34) with false. change (92 =? 92) with true. cbv iota.
    change (simple_escape 117) with (@None N). cbv iota. change (117 =? 117) with true. cbv iota.
    assert (SU : is_surrogate hi = true) by (unfold is_high, is_surrogate in *; lia).
    rewrite HX, SU. change ((92 =? 92) && (117 =? 117)) with true. cbv iota.
    rewrite HX2, Hh, Hl. reflexivity.
Qed.

(* an item is not empty, is valid UTF-8 text and stands for valid UTF-8 *)
Lemma str_item_facts t o : str_item t o -> t <> [] /\ utf8_valid t = true /\ utf8_valid o = true.
Proof.
  intros SI. destruct SI as [x C A Q B|x y R2 Cy|x y z0 R3 Cyz|x y z0 w R4 Cyzw|e c SE|a b c d u HX SU
                            |a b c d a2 b2 c2 d2 hi lo HX HX2 Hh Hl].
  - split; [discriminate|]. split; apply utf8_one; lia.
  - assert (V : utf8_valid [x; y] = true).
    { rewrite utf8_valid_cons. replace (x <? 128) with false by (unfold inr in R2; lia). rewrite R2, Cy. reflexivity. }
    split; [discriminate|]. split; exact V.
  - assert (V : utf8_valid [x; y; z0] = true).
    { rewrite utf8_valid_cons. replace (x <? 128) with false by (unfold inr in R3; lia).
      replace (inr 194 223 x) with false by (unfold inr in *; lia). rewrite R3, Cyz. reflexivity. }
    split; [discriminate|]. split; exact V.
  - assert (V : utf8_valid [x; y; z0; w] = true).
    { rewrite utf8_valid_cons. replace (x <? 128) with false by (unfold inr in R4; lia).
      replace (inr 194 223 x) with false by (unfold inr in *; lia).
      replace (inr 224 239 x) with false by (unfold inr in *; lia). rewrite R4, Cyzw. reflexivity. }
    split; [discriminate|]. split; exact V.
  - apply simple_escape_lt in SE. split; [discriminate|].
    split; [apply utf8_ascii; repeat constructor; lia|apply utf8_one; lia].
  - apply hex4_lt in HX as HL. split; [discriminate|].
    split; [apply utf8_ascii; repeat constructor; lia|apply utf8_enc_valid; [assumption|lia]].
  - apply hex4_lt in HX as HL. apply hex4_lt in HX2 as HL2.
    destruct (pair_cp_range hi lo Hh Hl) as [PS PL]. split; [discriminate|].
    split; [apply utf8_ascii; repeat constructor; lia|apply utf8_enc_valid; assumption].
Qed.

(* completeness: every body of the grammar, closed by a quote, is read as what it stands for *)
Theorem lex_string_complete body o : str_body body o -> forall r, lex_string (body ++ 34 :: r) = Some (o, r).
Proof.
  induction 1 as [|t o ts os SI SB IH]; intros r.
  - reflexivity.
  - rewrite <- app_assoc, (str_item_lex t o SI), IH. reflexivity.
Qed.

(* what a successful string lexer has read: pre = a body of the grammar and the
   closing quote; valid UTF-8; the decoded string is valid UTF-8; and the
   result does not depend on what follows *)
Definition string_local (s o r : bytes) : Prop :=
  exists pre, s = pre ++ r /\ last pre 0 = 34 /\ pre <> []
    /\ utf8_valid pre = true /\ utf8_valid o = true
    /\ (forall y, lex_string (pre ++ y) = Some (o, y))
    /\ exists body, pre = body ++ [34] /\ str_body body o.

Lemma string_local_step consumed piece t o' r :
  str_item consumed piece ->
  string_local t o' r ->
  string_local (consumed ++ t) (piece ++ o') r.
Proof.
  intros SI [pre [E [L [NE [U [UO [F [body [EB SB]]]]]]]]].
  destruct (str_item_facts _ _ SI) as [NC [Hc Hp]].
  exists (consumed ++ pre). split; [rewrite E, app_assoc; reflexivity|].
  split; [rewrite last_app_ne; assumption|].
  split; [destruct consumed; cbn; [congruence|discriminate]|].
  split; [apply utf8_valid_app_true; assumption|].
  split; [apply utf8_valid_app_true; assumption|].
  split; [intros y; rewrite <- app_assoc, (str_item_lex _ _ SI), F; reflexivity|].
  exists (consumed ++ body). split; [rewrite EB, app_assoc; reflexivity|constructor; assumption].
Qed.

Lemma lex_string_local s : forall o r, lex_string s = Some (o, r) -> string_local s o r.
Proof.
  remember (length s) as n eqn:Hn. revert s Hn.
  induction n as [n IH] using lt_wf_ind. intros s Hn o r H.
  destruct s as [|x t]; [discriminate|].
  rewrite lex_string_cons in H.
  destruct (x =? 34) eqn:Q.
  { inversion H; subst. exists [x]. apply N.eqb_eq in Q. subst x.
    split; [reflexivity|]. split; [reflexivity|]. split; [discriminate|]. split; [reflexivity|].
    split; [reflexivity|]. split; [intros y; reflexivity|]. exists []. split; [reflexivity|constructor]. }
  destruct (x =? 92) eqn:B.
  { apply N.eqb_eq in B. subst x.
    destruct t as [|e t1]; [discriminate|].
    destruct (simple_escape e) as [c|] eqn:SE.
    { apply push_some in H. destruct H as [o' [H ->]].
      change (92 :: e :: t1) with ([92; e] ++ t1).
      apply string_local_step; [constructor; exact SE|].
      apply (IH (length t1)); [cbn in Hn; lia|reflexivity|exact H]. }
    destruct (e =? 117) eqn:U; [|discriminate]. apply N.eqb_eq in U. subst e.
    destruct t1 as [|a [|b [|c [|d t2]]]]; try discriminate.
    destruct (hex4 a b c d) as [u|] eqn:HX; [|discriminate].
    destruct (is_surrogate u) eqn:SU.
    { destruct t2 as [|bs [|uu [|a2 [|b2 [|c2 [|d2 t3]]]]]]; try discriminate.
      destruct ((bs =? 92) && (uu =? 117)) eqn:BU; [|discriminate].
      apply andb_true_iff in BU. destruct BU as [B1 B2]. apply N.eqb_eq in B1, B2. subst bs uu.
      destruct (hex4 a2 b2 c2 d2) as [lo|] eqn:HX2; [|discriminate].
      destruct (is_high u && is_low lo) eqn:HLo; [|discriminate].
      apply andb_true_iff in HLo. destruct HLo as [Hh Hl].
      apply push_some in H. destruct H as [o' [H ->]].
      change (92 :: 117 :: a :: b :: c :: d :: 92 :: 117 :: a2 :: b2 :: c2 :: d2 :: t3)
        with ([92; 117; a; b; c; d; 92; 117; a2; b2; c2; d2] ++ t3).
      apply string_local_step; [econstructor; eassumption|].
      apply (IH (length t3)); [cbn in Hn; lia|reflexivity|exact H]. }
    apply push_some in H. destruct H as [o' [H ->]].
    change (92 :: 117 :: a :: b :: c :: d :: t2) with ([92; 117; a; b; c; d] ++ t2).
    apply string_local_step; [constructor; assumption|].
    apply (IH (length t2)); [cbn in Hn; lia|reflexivity|exact H]. }
  destruct (x <? 32) eqn:C; [discriminate|].
  destruct (x <? 128) eqn:A.
  { apply push_some in H. destruct H as [o' [H ->]].
    change (x :: t) with ([x] ++ t).
    apply string_local_step; [constructor; assumption|].
    apply (IH (length t)); [cbn in Hn; lia|reflexivity|exact H]. }
  destruct (inr 194 223 x) eqn:R2.
  { destruct t as [|y t1]; [discriminate|].
    destruct (cont y) eqn:Cy; [|discriminate].
    apply push_some in H. destruct H as [o' [H ->]].
    change (x :: y :: t1) with ([x; y] ++ t1).
    apply string_local_step; [constructor; assumption|].
    apply (IH (length t1)); [cbn in Hn; lia|reflexivity|exact H]. }
  destruct (inr 224 239 x) eqn:R3.
  { destruct t as [|y [|z t2]]; try discriminate.
    destruct ((if x =? 224 then inr 160 191 y else if x =? 237 then inr 128 159 y else cont y) && cont z) eqn:Cyz;
      [|discriminate].
    apply push_some in H. destruct H as [o' [H ->]].
    change (x :: y :: z :: t2) with ([x; y; z] ++ t2).
    apply string_local_step; [constructor; assumption|].
    apply (IH (length t2)); [cbn in Hn; lia|reflexivity|exact H]. }
  destruct (inr 240 244 x) eqn:R4; [|discriminate].
  destruct t as [|y [|z [|w t3]]]; try discriminate.
  destruct ((if x =? 240 then inr 144 191 y else if x =? 244 then inr 128 143 y else cont y) && cont z && cont w) eqn:Cyzw;
    [|discriminate].
  apply push_some in H. destruct H as [o' [H ->]].
  change (x :: y :: z :: w :: t3) with ([x; y; z; w] ++ t3).
  apply string_local_step; [constructor; assumption|].
  apply (IH (length t3)); [cbn in Hn; lia|reflexivity|exact H].
Qed.

(* the string lexer accepts EXACTLY the bodies of the grammar closed by a quote *)
Theorem lex_string_grammar s o r :
  lex_string s = Some (o, r) <-> exists body, s = body ++ 34 :: r /\ str_body body o.
Proof.
  split.
  - intros H. destruct (lex_string_local _ _ _ H) as [pre [E [_ [_ [_ [_ [_ [body [EB SB]]]]]]]]].
    exists body. split; [|exact SB]. rewrite E, EB, <- app_assoc. reflexivity.
  - intros [body [-> SB]]. apply lex_string_complete. exact SB.
Qed.

(* ================= numbers ================= *)
Definition nondigit (c : N) : bool := negb (is_digit c).
(* bytes of a scalar token: ASCII, not whitespace *)
Definition plainb (c : N) : bool := negb (is_ws c) && (c <? 128).
Definition plain (p : bytes) : bool := forallb plainb p.

Lemma plain_app a b : plain (a ++ b) = plain a && plain b.
Proof. apply forallb_app. Qed.

Lemma plain_utf8 p : plain p = true -> utf8_valid p = true.
Proof.
  intros H. apply utf8_ascii. apply Forall_forall. intros c Hc.
  unfold plain in H. rewrite forallb_forall in H. specialize (H c Hc). unfold plainb in H. lia.
Qed.

Lemma plain_last p : p <> [] -> plain p = true -> is_ws (last p 0) = false.
Proof.
  intros NE H. unfold plain in H. rewrite forallb_forall in H.
  assert (I : In (last p 0) p).
  { destruct p as [|x p]; [congruence|]. clear. revert x.
    induction p as [|y p IH]; intros x; [left; reflexivity|].
    change (last (x :: y :: p) 0) with (last (y :: p) 0). right. apply IH. }
  specialize (H _ I). unfold plainb in H. apply andb_true_iff in H. destruct H as [H _].
  apply negb_true_iff in H. exact H.
Qed.

Lemma digit_plain c : is_digit c = true -> plainb c = true.
Proof. unfold is_digit, plainb, is_ws. lia. Qed.

Lemma digits_plain ds : forallb is_digit ds = true -> plain ds = true.
Proof.
  unfold plain. rewrite !forallb_forall. intros H c Hc. apply digit_plain. auto.
Qed.

Lemma hd_ok_app P a b : hd_ok P (a ++ b) = match a with [] => hd_ok P b | c :: _ => P c end.
Proof. destruct a; reflexivity. Qed.

Lemma span_digits_spec s : forall ds r, span_digits s = (ds, r) ->
  s = ds ++ r /\ forallb is_digit ds = true /\ hd_ok nondigit r = true.
Proof.
  induction s as [|c t IH]; intros ds r H; cbn [span_digits] in H.
  - inversion H; subst. repeat split.
  - destruct (is_digit c) eqn:D.
    + destruct (span_digits t) as [ds' r'] eqn:E. inversion H; subst.
      destruct (IH _ _ eq_refl) as [E1 [E2 E3]]. repeat split.
      * cbn [app]. rewrite <- E1. reflexivity.
      * cbn [forallb]. rewrite D, E2. reflexivity.
      * exact E3.
    + inversion H; subst. repeat split. cbn [hd_ok]. unfold nondigit. rewrite D. reflexivity.
Qed.

Lemma span_digits_app ds y : forallb is_digit ds = true -> hd_ok nondigit y = true ->
  span_digits (ds ++ y) = (ds, y).
Proof.
  induction ds as [|c ds IH]; intros H Y.
  - cbn [app]. destruct y as [|c y]; [reflexivity|]. cbn [span_digits].
    cbn [hd_ok] in Y. unfold nondigit in Y. apply negb_true_iff in Y. rewrite Y. reflexivity.
  - cbn [forallb] in H. apply andb_true_iff in H. destruct H as [Hc Hd].
    cbn [app span_digits]. rewrite Hc, IH by assumption. reflexivity.
Qed.

(* one stage of the number lexer: has read pre (plain bytes that start as the
   stage must), and reads the same on pre ++ z when z starts with a byte on
   which the stage stops *)
Lemma lex_int_local s ip r : lex_int s = Some (ip, r) ->
  s = ip ++ r /\ ip <> [] /\ plain ip = true /\ hd_ok is_digit ip = true
  /\ forall z, hd_ok nondigit z = true -> lex_int (ip ++ z) = Some (ip, z).
Proof.
  unfold lex_int. destruct s as [|c t]; [discriminate|].
  destruct (c =? 48) eqn:Z.
  - apply N.eqb_eq in Z. subst c. intros E. inversion E; subst.
    split; [reflexivity|]. split; [discriminate|]. split; [reflexivity|]. split; [reflexivity|].
    intros z _. reflexivity.
  - destruct (is_digit c) eqn:D; [|discriminate].
    destruct (span_digits t) as [ds r'] eqn:S. intros E. inversion E; subst.
    destruct (span_digits_spec _ _ _ S) as [E1 [E2 E3]].
    split; [cbn [app]; rewrite <- E1; reflexivity|]. split; [discriminate|]. split; [|split].
    + cbn [plain forallb]. rewrite digit_plain by exact D. apply digits_plain. exact E2.
    + exact D.
    + intros z Hz. cbn [app]. rewrite Z, D, span_digits_app by assumption. reflexivity.
Qed.

Definition stops_frac (c : N) : bool := nondigit c && negb (c =? 46).
Lemma lex_frac_local s fr r : lex_frac s = (fr, r) ->
  exists pre, s = pre ++ r /\ plain pre = true /\ hd_ok (fun c => c =? 46) pre = true
    /\ forall z, hd_ok stops_frac z = true -> lex_frac (pre ++ z) = (fr, z).
Proof.
  assert (NONE : forall z, hd_ok stops_frac z = true -> lex_frac z = ([], z)).
  { intros z Hz. unfold lex_frac. destruct z as [|p [|d t]]; try reflexivity.
    cbn [hd_ok] in Hz. unfold stops_frac in Hz.
    replace (p =? 46) with false by lia. reflexivity. }
  unfold lex_frac. destruct s as [|p [|d t]].
  - intros E. inversion E; subst. exists []. repeat split. exact NONE.
  - intros E. inversion E; subst. exists []. repeat split. exact NONE.
  - destruct ((p =? 46) && is_digit d) eqn:C.
    + destruct (span_digits t) as [ds r'] eqn:S. intros E. inversion E; subst.
      destruct (span_digits_spec _ _ _ S) as [E1 [E2 E3]].
      apply andb_true_iff in C. destruct C as [Cp Cd].
      exists (p :: d :: ds). repeat split.
      * cbn [app]. rewrite <- E1. reflexivity.
      * cbn [plain forallb]. rewrite (digit_plain d) by exact Cd.
        replace (plainb p) with true by (unfold plainb, is_ws; lia). apply digits_plain. exact E2.
      * exact Cp.
      * intros z Hz. cbn [app]. unfold lex_frac. rewrite Cp, Cd. cbn [andb].
        rewrite span_digits_app; [reflexivity|exact E2|].
        destruct z; [reflexivity|]. cbn [hd_ok] in *. unfold stops_frac in Hz.
        apply andb_true_iff in Hz. apply Hz.
    + intros E. inversion E; subst. exists []. repeat split. exact NONE.
Qed.

Definition stops_exp (c : N) : bool := nondigit c && negb (c =? 101) && negb (c =? 69).
Definition is_e (c : N) : bool := (c =? 101) || (c =? 69).
Lemma lex_exp_local s ex r : lex_exp s = (ex, r) ->
  exists pre, s = pre ++ r /\ plain pre = true /\ hd_ok is_e pre = true
    /\ forall z, hd_ok stops_exp z = true -> lex_exp (pre ++ z) = (ex, z).
Proof.
  assert (NONE : forall z, hd_ok stops_exp z = true -> lex_exp z = (None, z)).
  { intros z Hz. unfold lex_exp. destruct z as [|e [|c t]]; try reflexivity.
    cbn [hd_ok] in Hz. unfold stops_exp in Hz.
    replace ((e =? 101) || (e =? 69)) with false by lia. reflexivity. }
  assert (ND : forall z, hd_ok stops_exp z = true -> hd_ok nondigit z = true).
  { intros z Hz. destruct z; [reflexivity|]. cbn [hd_ok] in *. unfold stops_exp in Hz.
    apply andb_true_iff in Hz. destruct Hz as [Hz _]. apply andb_true_iff in Hz. apply Hz. }
  unfold lex_exp. destruct s as [|e [|c t1]].
  - intros E. inversion E; subst. exists []. repeat split. exact NONE.
  - intros E. inversion E; subst. exists []. repeat split. exact NONE.
  - destruct ((e =? 101) || (e =? 69)) eqn:Ee.
    2:{ intros E. inversion E; subst. exists []. repeat split. exact NONE. }
    assert (Pe : plainb e = true) by (unfold plainb, is_ws; lia).
    destruct (is_digit c) eqn:Dc.
    { destruct (span_digits t1) as [ds r'] eqn:S. intros E. inversion E; subst.
      destruct (span_digits_spec _ _ _ S) as [E1 [E2 E3]].
      exists (e :: c :: ds). repeat split.
      - cbn [app]. rewrite <- E1. reflexivity.
      - cbn [plain forallb]. rewrite Pe, (digit_plain c) by exact Dc. apply digits_plain. exact E2.
      - exact Ee.
      - intros z Hz. cbn [app]. unfold lex_exp. rewrite Ee, Dc.
        rewrite span_digits_app; [reflexivity|exact E2|apply ND; exact Hz]. }
    destruct ((c =? 43) || (c =? 45)) eqn:Sg.
    2:{ intros E. inversion E; subst. exists []. repeat split. exact NONE. }
    destruct t1 as [|d t2].
    { intros E. inversion E; subst. exists []. repeat split. exact NONE. }
    destruct (is_digit d) eqn:Dd.
    2:{ intros E. inversion E; subst. exists []. repeat split. exact NONE. }
    destruct (span_digits t2) as [ds r'] eqn:S. intros E. inversion E; subst.
    destruct (span_digits_spec _ _ _ S) as [E1 [E2 E3]].
    exists (e :: c :: d :: ds). repeat split.
    + cbn [app]. rewrite <- E1. reflexivity.
    + cbn [plain forallb]. rewrite Pe, (digit_plain d) by exact Dd.
      replace (plainb c) with true by (unfold plainb, is_ws; lia). apply digits_plain. exact E2.
    + exact Ee.
    + intros z Hz. cbn [app]. unfold lex_exp. rewrite Ee, Dc, Sg, Dd.
      rewrite span_digits_app; [reflexivity|exact E2|apply ND; exact Hz].
Qed.

Lemma delim_stops y : delim_next y = true ->
  hd_ok stops_exp y = true /\ hd_ok stops_frac y = true /\ hd_ok nondigit y = true.
Proof.
  destruct y as [|c y]; [repeat split|]. cbn [delim_next hd_ok].
  unfold is_not_delim, stops_exp, stops_frac, nondigit, is_digit. lia.
Qed.

Definition lex_unsigned (neg : bool) (s1 : bytes) : option (numlit * bytes) :=
  match lex_int s1 with
  | None => None
  | Some (ip, s2) =>
    let (fr, s3) := lex_frac s2 in
    let (ex, s4) := lex_exp s3 in
    if delim_next s4 then Some (mkLit neg ip fr ex, s4) else None
  end.

Lemma lex_unsigned_local neg s l r : lex_unsigned neg s = Some (l, r) ->
  exists pre, s = pre ++ r /\ pre <> [] /\ plain pre = true /\ hd_ok is_digit pre = true
    /\ delim_next r = true
    /\ forall y, delim_next y = true -> lex_unsigned neg (pre ++ y) = Some (l, y).
Proof.
  unfold lex_unsigned.
  destruct (lex_int s) as [[ip s2]|] eqn:LI; [|discriminate].
  destruct (lex_frac s2) as [fr s3] eqn:LF.
  destruct (lex_exp s3) as [ex s4] eqn:LE.
  destruct (delim_next s4) eqn:DN; [|discriminate].
  intros E. inversion E; subst l r. clear E.
  destruct (lex_int_local _ _ _ LI) as [E1 [NEi [Pi [Hi Fi]]]].
  destruct (lex_frac_local _ _ _ LF) as [pf [E2 [Pf [Hf Ff]]]].
  destruct (lex_exp_local _ _ _ LE) as [pe [E3 [Pe [He Fe]]]].
  exists (ip ++ pf ++ pe).
  split; [rewrite E1, E2, E3, <- !app_assoc; reflexivity|].
  split; [destruct ip; [congruence|discriminate]|].
  split; [rewrite !plain_app, Pi, Pf, Pe; reflexivity|].
  split; [destruct ip; [congruence|exact Hi]|].
  split; [exact DN|].
  intros y Hy. destruct (delim_stops y Hy) as [Y1 [Y2 Y3]].
  (* the tail after each stage starts with a byte on which the stage stops *)
  assert (Z3 : hd_ok stops_frac (pe ++ y) = true).
  { rewrite hd_ok_app. destruct pe as [|c pe]; [exact Y2|]. cbn [hd_ok] in He.
    unfold is_e in He. unfold stops_frac, nondigit, is_digit. lia. }
  assert (Z2 : hd_ok nondigit (pf ++ pe ++ y) = true).
  { rewrite hd_ok_app. destruct pf as [|c pf].
    - destruct (pe ++ y); [reflexivity|]. cbn [hd_ok app] in *. unfold stops_frac in Z3.
      apply andb_true_iff in Z3. apply Z3.
    - cbn [hd_ok] in Hf. unfold nondigit, is_digit. lia. }
  rewrite <- !app_assoc.
  rewrite (Fi _ Z2), (Ff _ Z3), (Fe _ Y1), Hy. reflexivity.
Qed.

Definition number_local (s : bytes) (l : numlit) (r : bytes) : Prop :=
  exists pre, s = pre ++ r /\ pre <> [] /\ plain pre = true /\ delim_next r = true
    /\ forall y, delim_next y = true -> lex_number (pre ++ y) = Some (l, y).

Lemma lex_number_unsigned c t :
  lex_number (c :: t) = if c =? 45 then lex_unsigned true t else lex_unsigned false (c :: t).
Proof. unfold lex_number, lex_unsigned. destruct (c =? 45); reflexivity. Qed.

Lemma lex_number_local s l r : lex_number s = Some (l, r) -> number_local s l r.
Proof.
  destruct s as [|c t]; [discriminate|].
  rewrite lex_number_unsigned. destruct (c =? 45) eqn:M; intros H.
  - destruct (lex_unsigned_local _ _ _ _ H) as [pre [E [NE [P [Hd [DN F]]]]]].
    exists (c :: pre).
    split; [cbn [app]; rewrite <- E; reflexivity|]. split; [discriminate|].
    split; [cbn [plain forallb]; replace (plainb c) with true by (unfold plainb, is_ws; lia); exact P|].
    split; [exact DN|].
    intros y Hy. cbn [app]. rewrite lex_number_unsigned, M. apply F. exact Hy.
  - destruct (lex_unsigned_local _ _ _ _ H) as [pre [E [NE [P [Hd [DN F]]]]]].
    exists pre. split; [exact E|]. split; [exact NE|]. split; [exact P|]. split; [exact DN|].
    intros y Hy. destruct pre as [|c' pre]; [congruence|].
    cbn [app] in *. inversion E; subst c'.
    rewrite lex_number_unsigned, M. apply F. exact Hy.
Qed.

(* ---- the grammar of a number literal (RFC 8259 section 6), declaratively ---- *)
Definition digits_ok (ds : bytes) : Prop := forallb is_digit ds = true.
(* "0", or a non-zero digit followed by digits *)
Definition int_ok (ip : bytes) : Prop :=
  ip = [48] \/ exists c ds, ip = c :: ds /\ is_digit c = true /\ c <> 48 /\ digits_ok ds.
Definition expo_ok (ex : option (bool * bytes)) : Prop :=
  match ex with None => True | Some (_, ds) => ds <> [] /\ digits_ok ds end.
Definition lit_ok (l : numlit) : Prop := int_ok (nl_int l) /\ digits_ok (nl_frac l) /\ expo_ok (nl_exp l).

(* no fraction, or '.' and the (one or more) fraction digits *)
Definition frac_text (fr : bytes) : bytes := match fr with [] => [] | _ => 46 :: fr end.
(* no exponent, or e / E, an optional sign (+ or nothing: positive; -: negative) and the digits *)
Inductive exp_text : option (bool * bytes) -> bytes -> Prop :=
| ET_none : exp_text None []
| ET_some e sg neg ds :
    is_e e = true -> (sg = [] /\ neg = false) \/ (sg = [43] /\ neg = false) \/ (sg = [45] /\ neg = true) ->
    exp_text (Some (neg, ds)) (e :: sg ++ ds).
Definition num_spells (l : numlit) (txt : bytes) : Prop :=
  exists et, exp_text (nl_exp l) et
    /\ txt = (if nl_neg l then [45] else []) ++ nl_int l ++ frac_text (nl_frac l) ++ et.

Lemma lex_int_shape s ip r : lex_int s = Some (ip, r) -> s = ip ++ r /\ int_ok ip.
Proof.
  unfold lex_int. destruct s as [|c t]; [discriminate|].
  destruct (c =? 48) eqn:Z.
  - apply N.eqb_eq in Z. subst c. intros E. inversion E; subst. split; [reflexivity|left; reflexivity].
  - destruct (is_digit c) eqn:D; [|discriminate].
    destruct (span_digits t) as [ds r'] eqn:S. intros E. inversion E; subst.
    destruct (span_digits_spec _ _ _ S) as [E1 [E2 E3]].
    split; [cbn [app]; rewrite <- E1; reflexivity|]. right. exists c, ds. repeat split; try assumption. lia.
Qed.

Lemma lex_int_ok ip z : int_ok ip -> hd_ok nondigit z = true -> lex_int (ip ++ z) = Some (ip, z).
Proof.
  intros [->|[c [ds [-> [D [NZ DS]]]]]] Hz; [reflexivity|].
  unfold lex_int. cbn [app]. replace (c =? 48) with false by lia.
  rewrite D, span_digits_app by assumption. reflexivity.
Qed.

Lemma lex_frac_shape s fr r : lex_frac s = (fr, r) -> s = frac_text fr ++ r /\ digits_ok fr.
Proof.
  unfold lex_frac. destruct s as [|p [|d t]]; try (intros E; inversion E; subst; split; reflexivity).
  destruct ((p =? 46) && is_digit d) eqn:C; [|intros E; inversion E; subst; split; reflexivity].
  destruct (span_digits t) as [ds r'] eqn:S. intros E. inversion E; subst.
  destruct (span_digits_spec _ _ _ S) as [E1 [E2 E3]].
  apply andb_true_iff in C. destruct C as [Cp Cd]. apply N.eqb_eq in Cp. subst p.
  split; [cbn [frac_text app]; rewrite <- E1; reflexivity|].
  unfold digits_ok. cbn [forallb]. rewrite Cd, E2. reflexivity.
Qed.

Lemma lex_frac_text fr z : digits_ok fr -> hd_ok stops_frac z = true -> lex_frac (frac_text fr ++ z) = (fr, z).
Proof.
  intros D Hz. destruct fr as [|d ds].
  - cbn [frac_text app]. unfold lex_frac. destruct z as [|p [|d t]]; try reflexivity.
    cbn [hd_ok] in Hz. unfold stops_frac in Hz. replace (p =? 46) with false by lia. reflexivity.
  - unfold digits_ok in D. cbn [forallb] in D. apply andb_true_iff in D. destruct D as [Dd Ds].
    cbn [frac_text app]. unfold lex_frac. change (46 =? 46) with true. rewrite Dd. cbn [andb].
    rewrite span_digits_app; [reflexivity|exact Ds|].
    destruct z; [reflexivity|]. cbn [hd_ok] in *. unfold stops_frac in Hz.
    apply andb_true_iff in Hz. apply Hz.
Qed.

Lemma lex_exp_shape s ex r : lex_exp s = (ex, r) -> exists et, s = et ++ r /\ exp_text ex et /\ expo_ok ex.
Proof.
  assert (NONE : forall s0, exists et, s0 = et ++ s0 /\ exp_text None et /\ expo_ok None).
  { intros s0. exists []. repeat split. constructor. }
  unfold lex_exp. destruct s as [|e [|c t1]]; try (intros E; inversion E; subst; apply NONE).
  destruct ((e =? 101) || (e =? 69)) eqn:Ee; [|intros E; inversion E; subst; apply NONE].
  destruct (is_digit c) eqn:Dc.
  { destruct (span_digits t1) as [ds r'] eqn:S. intros E. inversion E; subst.
    destruct (span_digits_spec _ _ _ S) as [E1 [E2 E3]].
    exists (e :: [] ++ c :: ds). split; [cbn [app]; rewrite <- E1; reflexivity|].
    split; [constructor; [exact Ee|left; auto]|].
    split; [discriminate|]. unfold digits_ok. cbn [forallb]. rewrite Dc, E2. reflexivity. }
  destruct ((c =? 43) || (c =? 45)) eqn:Sg; [|intros E; inversion E; subst; apply NONE].
  destruct t1 as [|d t2]; [intros E; inversion E; subst; apply NONE|].
  destruct (is_digit d) eqn:Dd; [|intros E; inversion E; subst; apply NONE].
  destruct (span_digits t2) as [ds r'] eqn:S. intros E. inversion E; subst.
  destruct (span_digits_spec _ _ _ S) as [E1 [E2 E3]].
  exists (e :: [c] ++ d :: ds). split; [cbn [app]; rewrite <- E1; reflexivity|].
  split.
  - constructor; [exact Ee|]. destruct (c =? 45) eqn:M.
    + right. right. split; [f_equal; lia|reflexivity].
    + right. left. split; [f_equal; lia|reflexivity].
  - split; [discriminate|]. unfold digits_ok. cbn [forallb]. rewrite Dd, E2. reflexivity.
Qed.

Lemma lex_exp_text ex et z : exp_text ex et -> expo_ok ex -> hd_ok stops_exp z = true ->
  lex_exp (et ++ z) = (ex, z).
Proof.
  intros T OK Hz.
  assert (ND : hd_ok nondigit z = true).
  { destruct z; [reflexivity|]. cbn [hd_ok] in *. unfold stops_exp in Hz.
    apply andb_true_iff in Hz. destruct Hz as [Hz _]. apply andb_true_iff in Hz. apply Hz. }
  destruct T as [|e sg neg ds Ee SG].
  - cbn [app]. unfold lex_exp. destruct z as [|e [|c t]]; try reflexivity.
    cbn [hd_ok] in Hz. unfold stops_exp in Hz.
    replace ((e =? 101) || (e =? 69)) with false by lia. reflexivity.
  - cbn [expo_ok] in OK. destruct OK as [NE D]. destruct ds as [|d ds]; [congruence|].
    unfold digits_ok in D. cbn [forallb] in D. apply andb_true_iff in D. destruct D as [Dd Ds].
    unfold is_e in Ee.
    destruct SG as [[-> ->]|[[-> ->]|[-> ->]]]; cbn [app]; unfold lex_exp; rewrite Ee.
    + rewrite Dd, span_digits_app by assumption. reflexivity.
    + change (is_digit 43) with false. change ((43 =? 43) || (43 =? 45)) with true. cbv iota.
      rewrite Dd, span_digits_app by assumption. reflexivity.
    + change (is_digit 45) with false. change ((45 =? 43) || (45 =? 45)) with true. cbv iota.
      rewrite Dd, span_digits_app by assumption. reflexivity.
Qed.

(* the number lexer accepts EXACTLY the spellings of well-formed literals that
   are followed by a delimiter or the end of the text *)
Theorem lex_number_grammar s l r :
  lex_number s = Some (l, r) <->
  exists txt, s = txt ++ r /\ num_spells l txt /\ lit_ok l /\ delim_next r = true.
Proof.
  split.
  - intros H.
    assert (G : forall neg s1, lex_unsigned neg s1 = Some (l, r) ->
              exists et, exp_text (nl_exp l) et /\ nl_neg l = neg
                /\ s1 = nl_int l ++ frac_text (nl_frac l) ++ et ++ r /\ lit_ok l /\ delim_next r = true).
    { intros neg s1. unfold lex_unsigned.
      destruct (lex_int s1) as [[ip s2]|] eqn:LI; [|discriminate].
      destruct (lex_frac s2) as [fr s3] eqn:LF. destruct (lex_exp s3) as [ex s4] eqn:LE.
      destruct (delim_next s4) eqn:DN; [|discriminate]. intros E. inversion E; subst l r. clear E.
      destruct (lex_int_shape _ _ _ LI) as [E1 I1]. destruct (lex_frac_shape _ _ _ LF) as [E2 I2].
      destruct (lex_exp_shape _ _ _ LE) as [et [E3 [I3 I4]]].
      exists et. cbn [nl_exp nl_neg nl_int nl_frac]. split; [exact I3|]. split; [reflexivity|].
      split; [rewrite E1, E2, E3; reflexivity|]. split; [repeat split; assumption|exact DN]. }
    destruct s as [|c t]; [discriminate|]. rewrite lex_number_unsigned in H.
    destruct (c =? 45) eqn:M.
    + apply N.eqb_eq in M. subst c. destruct (G _ _ H) as [et [T [N0 [E [OK DN]]]]].
      exists (45 :: nl_int l ++ frac_text (nl_frac l) ++ et).
      split; [cbn [app]; rewrite E, <- !app_assoc; reflexivity|].
      split; [exists et; split; [exact T|rewrite N0; reflexivity]|]. split; assumption.
    + destruct (G _ _ H) as [et [T [N0 [E [OK DN]]]]].
      exists (nl_int l ++ frac_text (nl_frac l) ++ et).
      split; [rewrite E, <- !app_assoc; reflexivity|].
      split; [exists et; split; [exact T|rewrite N0; reflexivity]|]. split; assumption.
  - intros [txt [-> [[et [T ->]] [[I1 [I2 I3]] DN]]]].
    destruct (delim_stops r DN) as [Y1 [Y2 Y3]].
    assert (Z3 : hd_ok stops_frac (et ++ r) = true).
    { rewrite hd_ok_app. destruct T as [|e sg neg ds Ee SG]; [exact Y2|].
      unfold is_e in Ee. unfold stops_frac, nondigit, is_digit. lia. }
    assert (Z2 : hd_ok nondigit (frac_text (nl_frac l) ++ et ++ r) = true).
    { rewrite hd_ok_app. destruct (nl_frac l) as [|d ds]; cbn [frac_text].
      - destruct (et ++ r); [reflexivity|]. cbn [hd_ok] in *. unfold stops_frac in Z3.
        apply andb_true_iff in Z3. apply Z3.
      - reflexivity. }
    assert (U : lex_unsigned (nl_neg l) (nl_int l ++ frac_text (nl_frac l) ++ et ++ r) = Some (l, r)).
    { unfold lex_unsigned. rewrite (lex_int_ok _ _ I1 Z2), (lex_frac_text _ _ I2 Z3), (lex_exp_text _ _ _ T I3 Y1), DN.
      destruct l; reflexivity. }
    destruct (nl_neg l) eqn:NG.
    + rewrite <- !app_assoc. cbn [app]. rewrite lex_number_unsigned. change (45 =? 45) with true. cbv iota.
      exact U.
    + cbn [app]. rewrite <- !app_assoc.
      destruct I1 as [E0|[c [ds [E0 [D [NZ DS]]]]]]; rewrite E0 in *; cbn [app] in *; rewrite lex_number_unsigned.
      * change (48 =? 45) with false. cbv iota. exact U.
      * replace (c =? 45) with false by (unfold is_digit in D; lia). exact U.
Qed.

(* ================= literals ================= *)
Lemma strip_prefix_spec p : forall s r, strip_prefix p s = Some r <-> s = p ++ r.
Proof.
  induction p as [|a p IH]; intros s r; cbn [strip_prefix app].
  - split; intros H; [inversion H; reflexivity|subst; reflexivity].
  - destruct s as [|b s]; [split; discriminate|].
    destruct (a =? b) eqn:E.
    + apply N.eqb_eq in E. subst b. rewrite IH. split; intros H; [subst; reflexivity|inversion H; reflexivity].
    + split; [discriminate|]. intros H. inversion H. lia.
Qed.

Lemma strip_prefix_app p r : strip_prefix p (p ++ r) = Some r.
Proof. apply strip_prefix_spec. reflexivity. Qed.

(* ================= one token ================= *)
Definition needs_delim (tok : token) : bool :=
  match tok with TNull | TBool _ | TNum _ _ => true | _ => false end.
Definition tok_follow (tok : token) (y : bytes) : bool :=
  if needs_delim tok then delim_next y else true.
Definition tok_utf8 (tok : token) : bool :=
  match tok with TStr s => utf8_valid s | _ => true end.

Lemma tok_follow_app tok r x : r <> [] -> tok_follow tok (r ++ x) = tok_follow tok r.
Proof. intros NE. unfold tok_follow. destruct (needs_delim tok); [apply delim_next_app; exact NE|reflexivity]. Qed.

Lemma tok_follow_ws tok w : all_ws w = true -> tok_follow tok w = true.
Proof. intros H. unfold tok_follow. destruct (needs_delim tok); [apply delim_next_ws; exact H|reflexivity]. Qed.

Section Lex.
  Variable num : numlit -> option (Z * bytes).

  Definition lex_one' (s : bytes) : option (token * bytes) :=
    match s with c :: t => lex_one num c t | [] => None end.

  Definition token_local (s : bytes) (tok : token) (r : bytes) : Prop :=
    exists pre, s = pre ++ r /\ pre <> [] /\ is_ws (last pre 0) = false /\ is_ws (hd 0 pre) = false
      /\ utf8_valid pre = true /\ tok_utf8 tok = true /\ tok_follow tok r = true
      /\ forall y, tok_follow tok y = true -> lex_one' (pre ++ y) = Some (tok, y).

  Lemma punct_local c t tok :
    is_ws c = false -> c < 128 -> needs_delim tok = false -> tok_utf8 tok = true ->
    (forall y, lex_one num c y = Some (tok, y)) -> token_local (c :: t) tok t.
  Proof.
    intros W L ND U F. exists [c].
    split; [reflexivity|]. split; [discriminate|]. split; [exact W|]. split; [exact W|].
    split; [apply utf8_one; exact L|]. split; [exact U|].
    split; [unfold tok_follow; rewrite ND; reflexivity|].
    intros y _. cbn [app lex_one']. apply F.
  Qed.

  Lemma literal_local c name tok t tok' r :
    is_ws c = false -> c < 128 -> plain name = true -> needs_delim tok = true -> tok_utf8 tok = true ->
    (forall y, lex_one num c y = lex_literal name tok y) ->
    lex_literal name tok t = Some (tok', r) -> token_local (c :: t) tok' r.
  Proof.
    intros W L P ND U F H. unfold lex_literal in H.
    destruct (strip_prefix name t) as [r'|] eqn:SP; [|discriminate].
    destruct (delim_next r') eqn:DN; [|discriminate]. inversion H; subst tok' r'. clear H.
    apply strip_prefix_spec in SP. subst t.
    exists (c :: name).
    split; [reflexivity|]. split; [discriminate|].
    split.
    { apply plain_last; [discriminate|]. cbn [plain forallb]. unfold plainb at 1. rewrite W.
      replace (c <? 128) with true by lia. exact P. }
    split; [exact W|].
    split; [rewrite utf8_ascii_cons by exact L; apply plain_utf8; exact P|].
    split; [exact U|].
    split; [unfold tok_follow; rewrite ND; exact DN|].
    intros y Hy. cbn [app lex_one']. rewrite F. unfold lex_literal.
    rewrite strip_prefix_app. unfold tok_follow in Hy. rewrite ND in Hy. rewrite Hy. reflexivity.
  Qed.

  Lemma lex_one_local c t tok r : lex_one num c t = Some (tok, r) -> token_local (c :: t) tok r.
  Proof.
    unfold lex_one.
    destruct (c =? 123) eqn:Q1.
    { intros E. inversion E; subst. apply punct_local; try reflexivity; try (unfold is_ws; lia).
      intros y. unfold lex_one. rewrite Q1. reflexivity. }
    destruct (c =? 125) eqn:Q2.
    { intros E. inversion E; subst. apply punct_local; try reflexivity; try (unfold is_ws; lia).
      intros y. unfold lex_one. rewrite Q1, Q2. reflexivity. }
    destruct (c =? 91) eqn:Q3.
    { intros E. inversion E; subst. apply punct_local; try reflexivity; try (unfold is_ws; lia).
      intros y. unfold lex_one. rewrite Q1, Q2, Q3. reflexivity. }
    destruct (c =? 93) eqn:Q4.
    { intros E. inversion E; subst. apply punct_local; try reflexivity; try (unfold is_ws; lia).
      intros y. unfold lex_one. rewrite Q1, Q2, Q3, Q4. reflexivity. }
    destruct (c =? 44) eqn:Q5.
    { intros E. inversion E; subst. apply punct_local; try reflexivity; try (unfold is_ws; lia).
      intros y. unfold lex_one. rewrite Q1, Q2, Q3, Q4, Q5. reflexivity. }
    destruct (c =? 58) eqn:Q6.
    { intros E. inversion E; subst. apply punct_local; try reflexivity; try (unfold is_ws; lia).
      intros y. unfold lex_one. rewrite Q1, Q2, Q3, Q4, Q5, Q6. reflexivity. }
    destruct (c =? 34) eqn:Q7.
    { destruct (lex_string t) as [[s r']|] eqn:LS; [|discriminate].
      intros E. inversion E; subst tok r'. clear E.
      destruct (lex_string_local _ _ _ LS) as [pre [E [L [NE [U [UO [F _]]]]]]].
      exists (c :: pre).
      split; [cbn [app]; rewrite <- E; reflexivity|]. split; [discriminate|].
      split.
      { change (c :: pre) with ([c] ++ pre). rewrite last_app_ne by exact NE. rewrite L. reflexivity. }
      split; [unfold is_ws; cbn [hd]; lia|].
      split; [rewrite utf8_ascii_cons by lia; exact U|].
      split; [exact UO|]. split; [reflexivity|].
      intros y _. cbn [app lex_one']. unfold lex_one. rewrite Q1, Q2, Q3, Q4, Q5, Q6, Q7, F. reflexivity. }
    destruct (c =? 110) eqn:Q8.
    { apply literal_local; try reflexivity; try (unfold is_ws; lia).
      intros y. unfold lex_one. rewrite Q1, Q2, Q3, Q4, Q5, Q6, Q7, Q8. reflexivity. }
    destruct (c =? 116) eqn:Q9.
    { apply literal_local; try reflexivity; try (unfold is_ws; lia).
      intros y. unfold lex_one. rewrite Q1, Q2, Q3, Q4, Q5, Q6, Q7, Q8, Q9. reflexivity. }
    destruct (c =? 102) eqn:Q10.
    { apply literal_local; try reflexivity; try (unfold is_ws; lia).
      intros y. unfold lex_one. rewrite Q1, Q2, Q3, Q4, Q5, Q6, Q7, Q8, Q9, Q10. reflexivity. }
    destruct ((c =? 45) || is_digit c) eqn:Q11; [|discriminate].
    destruct (lex_number (c :: t)) as [[l r']|] eqn:LN; [|discriminate].
    destruct (num_value num l) as [[z x]|] eqn:NV; [|discriminate].
    intros E. inversion E; subst tok r'. clear E.
    destruct (lex_number_local _ _ _ LN) as [pre [E [NE [P [DN F]]]]].
    assert (Hc : hd 0 pre = c).
    { destruct pre; [congruence|]. cbn [app] in E. inversion E. reflexivity. }
    exists pre.
    split; [exact E|]. split; [exact NE|]. split; [apply plain_last; assumption|].
    split; [rewrite Hc; unfold is_ws, is_digit in *; lia|].
    split; [apply plain_utf8; exact P|]. split; [reflexivity|]. split; [exact DN|].
    intros y Hy. destruct pre as [|c' pre]; [congruence|]. cbn [hd] in Hc. subst c'.
    cbn [app lex_one']. unfold lex_one. rewrite Q1, Q2, Q3, Q4, Q5, Q6, Q7, Q8, Q9, Q10, Q11.
    change (c :: pre ++ y) with ((c :: pre) ++ y). rewrite (F y Hy), NV. reflexivity.
  Qed.

  (* ================= the token loop ================= *)
  Lemma lex_one_shrinks c t tok r : lex_one num c t = Some (tok, r) -> (length r <= length t)%nat.
  Proof.
    intros H. destruct (lex_one_local _ _ _ _ H) as [pre [E [NE _]]].
    apply (f_equal (@length N)) in E. rewrite app_length in E. cbn [length] in E.
    destruct pre; [congruence|]. cbn [length] in E. lia.
  Qed.

  Lemma lex_f_fuel : forall n m s, (length s < n)%nat -> (length s < m)%nat -> lex_f num n s = lex_f num m s.
  Proof.
    induction n as [|n IH]; intros m s Hn Hm; [lia|].
    destruct m as [|m]; [lia|]. cbn [lex_f].
    pose proof (skip_ws_length s) as SL.
    destruct (skip_ws s) as [|c t] eqn:SK; [reflexivity|].
    destruct (lex_one num c t) as [[tok r]|] eqn:L1; [|reflexivity].
    apply lex_one_shrinks in L1. cbn [length] in SL.
    rewrite (IH m r) by lia. reflexivity.
  Qed.

  (* the loop without fuel *)
  Lemma lex_eq s :
    lex num s = match skip_ws s with
                | [] => Some []
                | c :: t => match lex_one num c t with
                            | None => None
                            | Some (tok, r) => match lex num r with
                                               | Some ts => Some (tok :: ts)
                                               | None => None
                                               end
                            end
                end.
  Proof.
    unfold lex at 1. cbn [lex_f].
    pose proof (skip_ws_length s) as SL.
    destruct (skip_ws s) as [|c t] eqn:SK; [reflexivity|].
    destruct (lex_one num c t) as [[tok r]|] eqn:L1; [|reflexivity].
    apply lex_one_shrinks in L1. cbn [length] in SL. unfold lex.
    rewrite (lex_f_fuel (length s) (S (length r)) r) by lia. reflexivity.
  Qed.

  Lemma lex_nil : lex num [] = Some [].
  Proof. reflexivity. Qed.

  (* ---- leading whitespace ---- *)
  Lemma lex_skip_ws w s : all_ws w = true -> lex num (w ++ s) = lex num s.
  Proof. intros H. rewrite (lex_eq (w ++ s)), (lex_eq s), skip_ws_all by exact H. reflexivity. Qed.

  Lemma lex_all_ws w : all_ws w = true -> lex num w = Some [].
  Proof. intros H. rewrite lex_eq, skip_ws_nil by exact H. reflexivity. Qed.

  (* ---- what may follow a token sequence ---- *)
  Definition ends_ok (ts : list token) (x : bytes) : bool :=
    match ts with [] => true | _ => tok_follow (last ts TComma) x end.

  (* THE concatenation lemma: if s1 is a sequence of whole tokens and x may
     follow its last token, lexing s1 ++ x is lexing s1 and then x *)
  Lemma lex_app s1 : forall ts1 x, lex num s1 = Some ts1 -> ends_ok ts1 x = true ->
    lex num (s1 ++ x) = match lex num x with Some ts2 => Some (ts1 ++ ts2) | None => None end.
  Proof.
    remember (length s1) as n eqn:Hn. revert s1 Hn.
    induction n as [n IH] using lt_wf_ind. intros s1 Hn ts1 x H EO.
    destruct (skip_ws_split s1) as [w [Hw Es]].
    rewrite lex_eq in H.
    destruct (skip_ws s1) as [|c t] eqn:SK.
    { inversion H; subst ts1. rewrite Es, app_nil_r, lex_skip_ws by exact Hw.
      destruct (lex num x); reflexivity. }
    destruct (lex_one num c t) as [[tok r]|] eqn:L1; [|discriminate].
    destruct (lex num r) as [ts'|] eqn:LR; [|discriminate].
    inversion H; subst ts1. clear H.
    destruct (lex_one_local _ _ _ _ L1) as [pre [E [NE [Lw [Hw' [U [TU [TF F]]]]]]]].
    assert (LenR : (length r < n)%nat).
    { subst n. rewrite Es, app_length, E, app_length. destruct pre; [congruence|]. cbn [length]. lia. }
    rewrite Es, <- app_assoc, lex_skip_ws by exact Hw.
    assert (TF' : tok_follow tok (r ++ x) = true).
    { destruct r as [|cr r'].
      - rewrite lex_nil in LR. inversion LR; subst ts'. cbn [app]. cbn [ends_ok last] in EO. exact EO.
      - rewrite tok_follow_app by discriminate. exact TF. }
    specialize (F _ TF'). destruct pre as [|c' pre']; [congruence|]. cbn [hd] in Hw'.
    rewrite E, <- app_assoc. cbn [app lex_one'] in F |- *.
    rewrite lex_eq, skip_ws_id by exact Hw'. rewrite F.
    assert (EO' : ends_ok ts' x = true).
    { destruct ts' as [|t0 ts'']; [reflexivity|]. cbn [ends_ok] in *.
      change (last (tok :: t0 :: ts'') TComma) with (last (t0 :: ts'') TComma) in EO. exact EO. }
    rewrite (IH (length r) LenR r eq_refl ts' x LR EO').
    destruct (lex num x); reflexivity.
  Qed.

  (* ---- trailing whitespace: both directions ---- *)
  Lemma ends_ok_ws ts w : all_ws w = true -> ends_ok ts w = true.
  Proof. intros H. destruct ts; [reflexivity|]. cbn [ends_ok]. apply tok_follow_ws. exact H. Qed.

  Lemma lex_trailing_ws_some s w ts : all_ws w = true -> lex num s = Some ts -> lex num (s ++ w) = Some ts.
  Proof.
    intros Hw H. rewrite (lex_app s ts w H (ends_ok_ws ts w Hw)), lex_all_ws by exact Hw.
    rewrite app_nil_r. reflexivity.
  Qed.

  (* pre ++ r' = a ++ w with w whitespace and pre ending in a non-whitespace
     byte: pre lies inside a *)
  Lemma split_before_ws (pre r' a w : bytes) :
    pre ++ r' = a ++ w -> all_ws w = true -> pre <> [] -> is_ws (last pre 0) = false ->
    exists r, a = pre ++ r /\ r' = r ++ w.
  Proof.
    intros E Hw NE L. apply app_eq_app in E. destruct E as [l [[E1 E2]|[E1 E2]]].
    - (* pre = a ++ l, w = l ++ r' *)
      destruct l as [|x l].
      + rewrite app_nil_r in E1. cbn [app] in E2. exists []. subst. split; [rewrite app_nil_r; reflexivity|reflexivity].
      + exfalso. subst pre w. rewrite last_app_ne in L by discriminate.
        rewrite all_ws_app in Hw. apply andb_true_iff in Hw. destruct Hw as [Hl _].
        assert (I : In (last (x :: l) 0) (x :: l)).
        { clear. revert x. induction l as [|y l IH]; intros x; [left; reflexivity|].
          change (last (x :: y :: l) 0) with (last (y :: l) 0). right. apply IH. }
        unfold all_ws in Hl. rewrite forallb_forall in Hl. rewrite (Hl _ I) in L. discriminate.
    - exists l. split; assumption.
  Qed.

  Lemma lex_trailing_ws_back s : forall w ts, all_ws w = true -> lex num (s ++ w) = Some ts -> lex num s = Some ts.
  Proof.
    remember (length s) as n eqn:Hn. revert s Hn.
    induction n as [n IH] using lt_wf_ind. intros s Hn w ts Hw H.
    destruct (skip_ws_split s) as [w0 [Hw0 Es]].
    rewrite Es, <- app_assoc, lex_skip_ws in H by exact Hw0.
    rewrite (lex_eq s).
    destruct (skip_ws s) as [|c t] eqn:SK.
    { cbn [app] in H. rewrite lex_all_ws in H by exact Hw. exact H. }
    rewrite lex_eq in H. cbn [app] in H. rewrite skip_ws_id in H by (eapply skip_ws_head; exact SK).
    destruct (lex_one num c (t ++ w)) as [[tok r']|] eqn:L1; [|discriminate].
    destruct (lex num r') as [ts'|] eqn:LR; [|discriminate].
    inversion H; subst ts. clear H.
    destruct (lex_one_local _ _ _ _ L1) as [pre [E [NE [Lw [Hw' [U [TU [TF F]]]]]]]].
    change (c :: t ++ w) with ((c :: t) ++ w) in E. symmetry in E.
    destruct (split_before_ws _ _ _ _ E Hw NE Lw) as [r [Ea Er]].
    assert (TFr : tok_follow tok r = true).
    { destruct r as [|cr r0].
      - unfold tok_follow. destruct (needs_delim tok); reflexivity.
      - subst r'. rewrite tok_follow_app in TF by discriminate. exact TF. }
    specialize (F _ TFr). rewrite <- Ea in F. cbn [lex_one'] in F. rewrite F.
    assert (LenR : (length r < n)%nat).
    { subst n. rewrite Es, app_length, Ea, app_length. destruct pre; [congruence|]. cbn [length]. lia. }
    subst r'. rewrite (IH (length r) LenR r eq_refl w ts' Hw LR). reflexivity.
  Qed.

  (* JSON whitespace after the text never changes the token sequence, nor
     whether there is one *)
  Theorem lex_trailing_ws s w : all_ws w = true -> lex num (s ++ w) = lex num s.
  Proof.
    intros Hw. destruct (lex num (s ++ w)) as [ts|] eqn:A.
    - symmetry. eapply lex_trailing_ws_back; eassumption.
    - destruct (lex num s) as [ts|] eqn:B; [|reflexivity].
      rewrite (lex_trailing_ws_some s w ts Hw B) in A. discriminate.
  Qed.

  (* whitespace between two token sequences *)
  Theorem lex_ws_between s1 w s2 ts1 : all_ws w = true -> w <> [] -> lex num s1 = Some ts1 ->
    lex num (s1 ++ w ++ s2) = match lex num s2 with Some ts2 => Some (ts1 ++ ts2) | None => None end.
  Proof.
    intros Hw NE H.
    rewrite (lex_app s1 ts1 (w ++ s2) H).
    - rewrite lex_skip_ws by exact Hw. reflexivity.
    - destruct ts1; [reflexivity|]. cbn [ends_ok]. rewrite tok_follow_app by exact NE.
      apply tok_follow_ws. exact Hw.
  Qed.

  (* ---- everything the tokenizer accepts is valid UTF-8, and so is every string it produces ---- *)
  Theorem lex_utf8 s : forall ts, lex num s = Some ts ->
    utf8_valid s = true /\ forallb tok_utf8 ts = true.
  Proof.
    remember (length s) as n eqn:Hn. revert s Hn.
    induction n as [n IH] using lt_wf_ind. intros s Hn ts H.
    destruct (skip_ws_split s) as [w [Hw Es]].
    rewrite lex_eq in H.
    destruct (skip_ws s) as [|c t] eqn:SK.
    { inversion H; subst ts. rewrite Es, app_nil_r. split; [apply all_ws_utf8; exact Hw|reflexivity]. }
    destruct (lex_one num c t) as [[tok r]|] eqn:L1; [|discriminate].
    destruct (lex num r) as [ts'|] eqn:LR; [|discriminate].
    inversion H; subst ts. clear H.
    destruct (lex_one_local _ _ _ _ L1) as [pre [E [NE [Lw [Hw' [U [TU [TF F]]]]]]]].
    assert (LenR : (length r < n)%nat).
    { subst n. rewrite Es, app_length, E, app_length. destruct pre; [congruence|]. cbn [length]. lia. }
    destruct (IH (length r) LenR r eq_refl ts' LR) as [Ur Ut].
    split.
    - rewrite Es, E. apply utf8_valid_app_true; [apply all_ws_utf8; exact Hw|].
      apply utf8_valid_app_true; assumption.
    - cbn [forallb]. rewrite TU, Ut. reflexivity.
  Qed.

  (* a text that starts (after whitespace) with a byte that starts no token has no tokens *)
  Lemma lex_first_token s ts : lex num s = Some ts ->
    match skip_ws s with
    | [] => ts = []
    | c :: t => exists tok r ts', lex_one num c t = Some (tok, r) /\ ts = tok :: ts'
    end.
  Proof.
    rewrite lex_eq. destruct (skip_ws s) as [|c t]; [intros E; inversion E; reflexivity|].
    destruct (lex_one num c t) as [[tok r]|]; [|discriminate].
    destruct (lex num r) as [ts'|]; [|discriminate]. intros E. inversion E. eauto.
  Qed.
End Lex.

(* ================= the tokenizer against a declarative grammar ================= *)
Section Grammar.
  Variable num : numlit -> option (Z * bytes).

  (* the text of one token *)
  Inductive tok_text : token -> bytes -> Prop :=
  | TT_lbrace : tok_text TLBrace [123]
  | TT_rbrace : tok_text TRBrace [125]
  | TT_lbrack : tok_text TLBrack [91]
  | TT_rbrack : tok_text TRBrack [93]
  | TT_comma : tok_text TComma [44]
  | TT_colon : tok_text TColon [58]
  | TT_null : tok_text TNull [110; 117; 108; 108]
  | TT_true : tok_text (TBool true) [116; 114; 117; 101]
  | TT_false : tok_text (TBool false) [102; 97; 108; 115; 101]
  | TT_str body o : str_body body o -> tok_text (TStr o) (34 :: body ++ [34])
  | TT_num l txt z x : num_spells l txt -> lit_ok l -> num_value num l = Some (z, x) -> tok_text (TNum z x) txt.

  (* a text spells a token sequence: whitespace, the text of a token, (a
     delimiter or the end after a literal or a number), and so on; whitespace
     at the end *)
  Inductive spells : list token -> bytes -> Prop :=
  | SP_nil w : all_ws w = true -> spells [] w
  | SP_cons w tok txt rest ts :
      all_ws w = true -> tok_text tok txt -> tok_follow tok rest = true -> spells ts rest ->
      spells (tok :: ts) (w ++ txt ++ rest).

  Lemma num_spells_head l txt : num_spells l txt -> lit_ok l ->
    exists c t, txt = c :: t /\ ((c =? 45) || is_digit c) = true.
  Proof.
    intros [et [_ ->]] [I _]. destruct (nl_neg l).
    - exists 45. eexists. split; [reflexivity|reflexivity].
    - destruct I as [E|[c [ds [E [D _]]]]]; rewrite E; cbn [app].
      + exists 48. eexists. split; reflexivity.
      + exists c. eexists. split; [reflexivity|]. rewrite D. apply orb_true_r.
  Qed.

  (* completeness of one token *)
  Lemma lex_one_complete tok txt rest : tok_text tok txt -> tok_follow tok rest = true ->
    exists c t, txt ++ rest = c :: t /\ is_ws c = false /\ lex_one num c t = Some (tok, rest).
  Proof.
    intros T F. destruct T as [| | | | | | | | |body o SB|l txt z x NS OK NV];
      try (eexists; eexists; split; [reflexivity|]; split; reflexivity).
    - exists 110, (lit_ull ++ rest). split; [reflexivity|]. split; [reflexivity|].
      change (lex_one num 110 (lit_ull ++ rest)) with (lex_literal lit_ull TNull (lit_ull ++ rest)).
      unfold lex_literal. rewrite strip_prefix_app. unfold tok_follow in F. cbn [needs_delim] in F. rewrite F. reflexivity.
    - exists 116, (lit_rue ++ rest). split; [reflexivity|]. split; [reflexivity|].
      change (lex_one num 116 (lit_rue ++ rest)) with (lex_literal lit_rue (TBool true) (lit_rue ++ rest)).
      unfold lex_literal. rewrite strip_prefix_app. unfold tok_follow in F. cbn [needs_delim] in F. rewrite F. reflexivity.
    - exists 102, (lit_alse ++ rest). split; [reflexivity|]. split; [reflexivity|].
      change (lex_one num 102 (lit_alse ++ rest)) with (lex_literal lit_alse (TBool false) (lit_alse ++ rest)).
      unfold lex_literal. rewrite strip_prefix_app. unfold tok_follow in F. cbn [needs_delim] in F. rewrite F. reflexivity.
    - exists 34, ((body ++ [34]) ++ rest). split; [reflexivity|]. split; [reflexivity|].
      change (lex_one num 34 ((body ++ [34]) ++ rest))
        with (match lex_string ((body ++ [34]) ++ rest) with Some (s, r) => Some (TStr s, r) | None => None end).
      rewrite <- app_assoc. cbn [app]. rewrite (lex_string_complete body o SB). reflexivity.
    - destruct (num_spells_head l txt NS OK) as [c [t [E H]]]. subst txt.
      exists c, (t ++ rest). split; [reflexivity|].
      split; [unfold is_ws, is_digit in *; lia|].
      assert (LN : lex_number ((c :: t) ++ rest) = Some (l, rest)).
      { apply lex_number_grammar. exists (c :: t). unfold tok_follow in F. cbn [needs_delim] in F. auto. }
      unfold lex_one. unfold is_digit in H.
      replace (c =? 123) with false by lia. replace (c =? 125) with false by lia.
      replace (c =? 91) with false by lia. replace (c =? 93) with false by lia.
      replace (c =? 44) with false by lia. replace (c =? 58) with false by lia.
      replace (c =? 34) with false by lia. replace (c =? 110) with false by lia.
      replace (c =? 116) with false by lia. replace (c =? 102) with false by lia.
      replace ((c =? 45) || is_digit c) with true by (unfold is_digit; lia).
      cbn [app] in LN. rewrite LN, NV. reflexivity.
  Qed.

  (* soundness of one token *)
  Lemma lex_one_text c t tok r : lex_one num c t = Some (tok, r) ->
    exists txt, c :: t = txt ++ r /\ tok_text tok txt /\ tok_follow tok r = true.
  Proof.
    intros H. pose proof (lex_one_local num _ _ _ _ H) as [pre [_ [_ [_ [_ [_ [_ [TF _]]]]]]]].
    unfold lex_one in H.
    destruct (c =? 123) eqn:Q1; [apply N.eqb_eq in Q1; subst; inversion H; subst; exists [123]; repeat split; constructor|].
    destruct (c =? 125) eqn:Q2; [apply N.eqb_eq in Q2; subst; inversion H; subst; exists [125]; repeat split; constructor|].
    destruct (c =? 91) eqn:Q3; [apply N.eqb_eq in Q3; subst; inversion H; subst; exists [91]; repeat split; constructor|].
    destruct (c =? 93) eqn:Q4; [apply N.eqb_eq in Q4; subst; inversion H; subst; exists [93]; repeat split; constructor|].
    destruct (c =? 44) eqn:Q5; [apply N.eqb_eq in Q5; subst; inversion H; subst; exists [44]; repeat split; constructor|].
    destruct (c =? 58) eqn:Q6; [apply N.eqb_eq in Q6; subst; inversion H; subst; exists [58]; repeat split; constructor|].
    destruct (c =? 34) eqn:Q7.
    { apply N.eqb_eq in Q7. subst c. destruct (lex_string t) as [[s r']|] eqn:LS; [|discriminate].
      inversion H; subst tok r'. apply lex_string_grammar in LS. destruct LS as [body [-> SB]].
      exists (34 :: body ++ [34]). split; [cbn [app]; rewrite <- app_assoc; reflexivity|].
      split; [constructor; exact SB|reflexivity]. }
    assert (LIT : forall nm tk (cc : N), lex_literal nm tk t = Some (tok, r) ->
                    tok = tk /\ cc :: t = (cc :: nm) ++ r).
    { intros nm tk cc L. unfold lex_literal in L. destruct (strip_prefix nm t) as [r'|] eqn:SP; [|discriminate].
      destruct (delim_next r'); [|discriminate]. inversion L; subst. apply strip_prefix_spec in SP. subst t.
      split; reflexivity. }
    destruct (c =? 110) eqn:Q8.
    { apply N.eqb_eq in Q8. subst c. destruct (LIT _ _ 110 H) as [-> E].
      exists (110 :: lit_ull). split; [exact E|]. split; [constructor|exact TF]. }
    destruct (c =? 116) eqn:Q9.
    { apply N.eqb_eq in Q9. subst c. destruct (LIT _ _ 116 H) as [-> E].
      exists (116 :: lit_rue). split; [exact E|]. split; [constructor|exact TF]. }
    destruct (c =? 102) eqn:Q10.
    { apply N.eqb_eq in Q10. subst c. destruct (LIT _ _ 102 H) as [-> E].
      exists (102 :: lit_alse). split; [exact E|]. split; [constructor|exact TF]. }
    destruct ((c =? 45) || is_digit c); [|discriminate].
    destruct (lex_number (c :: t)) as [[l r']|] eqn:LN; [|discriminate].
    destruct (num_value num l) as [[z x]|] eqn:NV; [|discriminate].
    inversion H; subst tok r'. apply lex_number_grammar in LN. destruct LN as [txt [E [NS [OK DN]]]].
    exists txt. split; [exact E|]. split; [econstructor; eassumption|exact DN].
  Qed.

  (* THE tokenizer theorem: lex accepts exactly the texts of the grammar *)
  Theorem lex_grammar s : forall ts, lex num s = Some ts <-> spells ts s.
  Proof.
    intros ts. split.
    - revert ts. remember (length s) as n eqn:Hn. revert s Hn.
      induction n as [n IH] using lt_wf_ind. intros s Hn ts H.
      destruct (skip_ws_split s) as [w [Hw Es]]. rewrite lex_eq in H.
      destruct (skip_ws s) as [|c t] eqn:SK.
      { inversion H; subst ts. rewrite Es, app_nil_r. constructor. exact Hw. }
      destruct (lex_one num c t) as [[tok r]|] eqn:L1; [|discriminate].
      destruct (lex num r) as [ts'|] eqn:LR; [|discriminate]. inversion H; subst ts. clear H.
      destruct (lex_one_text _ _ _ _ L1) as [txt [E [T F]]].
      pose proof (lex_one_shrinks num _ _ _ _ L1) as LS.
      rewrite Es, E. constructor; try assumption.
      apply (IH (length r)); [|reflexivity|exact LR].
      subst n. rewrite Es, app_length. cbn [length]. lia.
    - induction 1 as [w Hw|w tok txt rest ts Hw T F SP IH].
      + apply lex_all_ws. exact Hw.
      + rewrite lex_skip_ws by exact Hw.
        destruct (lex_one_complete tok txt rest T F) as [c [t [E [W L1]]]].
        rewrite E, lex_eq, skip_ws_id by exact W. rewrite L1, IH. reflexivity.
  Qed.
End Grammar.
