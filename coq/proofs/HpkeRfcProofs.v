(* Tink's HPKE (model/Hpke.v, written after the Go code) = RFC 9180 base mode
   (model/HpkeRfc.v, written after the RFC), for all inputs.

   The RFC-side primitives (hash of each KDF, DH and pk() on serialized keys,
   AEAD Seal/Open) are arbitrary functions; Tink's model is run on the
   primitives they induce:
     extract h ikm salt      := HKDF-Extract (RFC 5869, model/Hkdf.v) over the hash,
                                arguments in x/crypto's order
     expand h prk info n     := HKDF-Expand read for n bytes
     dh k, dh_pub k          := DH, PK of the RFC KEM that Tink's KEM id names
     seal a, open a          := Seal, Open of the RFC AEAD that Tink's AEAD id names.
   Laws used: the hash of a KDF returns Nh bytes; DH succeeds only on keys of the
   lengths Nsk / Npk of Table 2 (DeserializePrivateKey / DeserializePublicKey). *)
From Coq Require Import String List NArith Bool Arith Lia ZifyN ZifyNat ZifyBool.
From Tink Require Import Bytes Hmac Hkdf HkdfProofs Xwing Hpke HpkeProofs HpkeRfc.
Import ListNotations.
Open Scope N_scope.

Definition out {A} (o : option A) : outcome A := match o with Some x => Ok x | None => Err end.

(* ---- the correspondence of the identifier types ---- *)
Definition rfc_kdf_of_hash (h : hash) : option kdf_alg :=
  match h with SHA256 => Some KDF_HKDF_SHA256 | SHA384 => Some KDF_HKDF_SHA384 | SHA512 => Some KDF_HKDF_SHA512 | _ => None end.
Definition rfc_kem (k : kem) : option kem_alg :=
  match k with
  | P256 => Some KEM_P256_SHA256 | P384 => Some KEM_P384_SHA384 | P521 => Some KEM_P521_SHA512
  | X25519 => Some KEM_X25519_SHA256 | _ => None
  end.
Definition rfc_kdf (d : kdf) : kdf_alg :=
  match d with HKDF_SHA256 => KDF_HKDF_SHA256 | HKDF_SHA384 => KDF_HKDF_SHA384 | HKDF_SHA512 => KDF_HKDF_SHA512 end.
Definition rfc_aead (a : aead) : aead_alg :=
  match a with AES128GCM => AEAD_AES_128_GCM | AES256GCM => AEAD_AES_256_GCM | CHACHA20POLY1305 => AEAD_ChaCha20Poly1305 end.
Definition rfc_pq_kem (k : kem) : option pq_kem_alg :=
  match k with MLKEM768 => Some KEM_ML_KEM_768 | MLKEM1024 => Some KEM_ML_KEM_1024 | XWING => Some KEM_X_WING | _ => None end.

(* ---- the primitives Tink's model is run on ---- *)
Definition t_block (h : hash) : nat := match h with SHA384 | SHA512 => 128 | _ => 64 end%nat.
Definition t_hash (Hash : kdf_alg -> bytes -> bytes) (h : hash) : bytes -> bytes :=
  match rfc_kdf_of_hash h with Some D => Hash D | None => fun _ => [] end.
Definition t_extract Hash (h : hash) (ikm salt : bytes) : bytes :=
  hkdf_extract (t_hash Hash h) (t_block h) salt ikm.
Definition t_expand Hash (h : hash) (prk info : bytes) (n : nat) : bytes :=
  match hkdf_expand (t_hash Hash h) (t_block h) (hash_len h) prk info n with Some x => x | None => [] end.
Definition t_dh (DH : kem_alg -> bytes -> bytes -> option bytes) (k : kem) (sk pk : bytes) : option bytes :=
  match rfc_kem k with Some K => DH K sk pk | None => None end.
Definition t_dh_pub (PK : kem_alg -> bytes -> option bytes) (k : kem) (sk : bytes) : option bytes :=
  match rfc_kem k with Some K => PK K sk | None => None end.
Definition t_seal (S : aead_alg -> bytes -> bytes -> bytes -> bytes -> bytes) (a : aead) := S (rfc_aead a).
Definition t_open (O : aead_alg -> bytes -> bytes -> bytes -> bytes -> option bytes) (a : aead) := O (rfc_aead a).

(* ---- encodings ---- *)
Lemma i2osp2_be_bytes x : i2osp_digits 2 x = be_bytes 2 x.
Proof.
  unfold be_bytes. cbn [i2osp_digits le_bytes rev app].
  change (256 ^ N.of_nat 1) with 256. change (256 ^ N.of_nat 0) with 1. rewrite N.div_1_r. reflexivity.
Qed.

Lemma I2OSP_2 n : I2OSP n 2 = if N.ltb n 65536 then Some (be_bytes 2 n) else None.
Proof. unfold I2OSP. change (256 ^ N.of_nat 2) with 65536. rewrite i2osp2_be_bytes. reflexivity. Qed.

Lemma i2osp_digits_0 n : i2osp_digits n 0 = zeros n.
Proof.
  induction n as [|n IH]; [reflexivity|]. cbn [i2osp_digits]. rewrite IH.
  rewrite N.div_0_l by (apply N.pow_nonzero; discriminate). reflexivity.
Qed.

Lemma I2OSP_0 n : I2OSP 0 n = Some (zeros n).
Proof.
  unfold I2OSP. rewrite i2osp_digits_0.
  assert (H : 0 < 256 ^ N.of_nat n) by (apply N.neq_0_lt_0; apply N.pow_nonzero; discriminate).
  apply N.ltb_lt in H. rewrite H. reflexivity.
Qed.

(* the ASCII strings *)
Lemma ascii_constants :
  s_hpke_v1 = ascii_bytes "HPKE-v1" /\ s_KEM = ascii_bytes "KEM" /\ s_HPKE = ascii_bytes "HPKE" /\
  l_eae_prk = ascii_bytes "eae_prk" /\ l_shared_secret = ascii_bytes "shared_secret" /\
  l_psk_id_hash = ascii_bytes "psk_id_hash" /\ l_info_hash = ascii_bytes "info_hash" /\
  l_secret = ascii_bytes "secret" /\ l_key = ascii_bytes "key" /\ l_base_nonce = ascii_bytes "base_nonce" /\
  xwing_label = XWingLabel.
Proof. repeat split; reflexivity. Qed.

(* the suite ids *)
Lemma kem_suite_id_rfc k K : rfc_kem k = Some K -> kem_suite_id k = dhkem_suite_id K.
Proof. destruct k; intros H; inversion H; reflexivity. Qed.
Lemma hpke_suite_id_rfc k d a : hpke_suite_id k d a = hpke_suite (kem_id k) (rfc_kdf d) (rfc_aead a).
Proof. destruct k, d, a; reflexivity. Qed.

(* the tables *)
Lemma kem_table_rfc k K : rfc_kem k = Some K ->
  kem_id k = r_id (kem_table K) /\ n_secret k = r_Nsecret (kem_table K) /\ n_enc k = r_Nenc (kem_table K) /\
  n_pk k = r_Npk (kem_table K) /\ n_sk k = r_Nsk (kem_table K) /\
  rfc_kdf_of_hash (kem_hash k) = Some (kem_kdf K) /\ hash_len (kem_hash k) = r_Nsecret (kem_table K).
Proof. destruct k; intros H; inversion H; repeat split; reflexivity. Qed.
Lemma pq_kem_table_rfc k K : rfc_pq_kem k = Some K ->
  kem_id k = r_id (pq_kem_table K) /\ n_secret k = r_Nsecret (pq_kem_table K) /\ n_enc k = r_Nenc (pq_kem_table K) /\
  n_pk k = r_Npk (pq_kem_table K) /\ n_sk k = r_Nsk (pq_kem_table K).
Proof. destruct k; intros H; inversion H; repeat split; reflexivity. Qed.
Lemma kdf_table_rfc d : kdf_id d = rfc_kdf_id (rfc_kdf d) /\ rfc_kdf_of_hash (kdf_hash d) = Some (rfc_kdf d) /\
  hash_len (kdf_hash d) = Nh (rfc_kdf d).
Proof. destruct d; repeat split; reflexivity. Qed.
Lemma aead_table_rfc a : aead_id a = rfc_aead_id (rfc_aead a) /\ n_k a = Nk (rfc_aead a) /\ n_n a = Nn (rfc_aead a).
Proof. destruct a; repeat split; reflexivity. Qed.

Lemma hash_tables h D : rfc_kdf_of_hash h = Some D -> hash_len h = Nh D /\ t_block h = hash_block D.
Proof. destruct h; intros H; inversion H; split; reflexivity. Qed.

Lemma Nh_pos D : (0 < Nh D)%nat.
Proof. destruct D; simpl; lia. Qed.
Lemma Npk_pos K : (0 < r_Npk (kem_table K))%nat /\ (0 < r_Nsk (kem_table K))%nat.
Proof. destruct K; simpl; lia. Qed.

(* (inside the Section below no [lia]: it would drag every Section variable into
   the statements of the lemmas) *)
Section Equality.
  Variable Hash : kdf_alg -> bytes -> bytes.
  Variable DH : kem_alg -> bytes -> bytes -> option bytes.
  Variable PK : kem_alg -> bytes -> option bytes.
  Variable AeadSeal : aead_alg -> bytes -> bytes -> bytes -> bytes -> bytes.
  Variable AeadOpen : aead_alg -> bytes -> bytes -> bytes -> bytes -> option bytes.
  (* Tink-side primitives that play no role for a DHKEM / are the KEM itself for ML-KEM and X-Wing *)
  Variable mlkem_decap : kem -> bytes -> bytes -> option bytes.
  Variable mlkem_encap : kem -> bytes -> bytes -> option (bytes * bytes).
  Variable mlkem_pub : kem -> bytes -> option bytes.
  Variable shake256 : bytes -> nat -> bytes.
  Variable sha3_256 : bytes -> bytes.

  Hypothesis Hash_len : forall D x, length (Hash D x) = Nh D.

  Notation Textract := (t_extract Hash).
  Notation Texpand := (t_expand Hash).
  Notation Tdh := (t_dh DH).
  Notation Tpub := (t_dh_pub PK).
  Notation Tseal := (t_seal AeadSeal).
  Notation Topen := (t_open AeadOpen).

  (* ---- section 4 ---- *)
  Lemma t_hash_eq h D : rfc_kdf_of_hash h = Some D -> t_hash Hash h = Hash D.
  Proof. unfold t_hash. intros ->. reflexivity. Qed.

  Lemma labeled_extract_rfc h D suite salt ikm lb ls :
    rfc_kdf_of_hash h = Some D -> lb = ascii_bytes ls ->
    labeled_extract Textract h salt ikm lb suite = LabeledExtract Hash D suite salt ls ikm.
  Proof.
    intros HD ->. destruct (hash_tables _ _ HD) as [_ Hb].
    unfold labeled_extract, t_extract, LabeledExtract, Extract, label_ikm, concat. cbn [List.concat].
    rewrite app_nil_r. rewrite (t_hash_eq _ _ HD), Hb. reflexivity.
  Qed.

  Lemma labeled_expand_rfc h D suite prk info lb ls n :
    rfc_kdf_of_hash h = Some D -> lb = ascii_bytes ls ->
    labeled_expand Texpand h prk info lb suite n = out (LabeledExpand Hash D suite prk ls info n).
  Proof.
    intros HD ->. destruct (hash_tables _ _ HD) as [Hl Hb].
    unfold labeled_expand, label_info, LabeledExpand. rewrite I2OSP_2.
    destruct (N.ltb (N.of_nat n) 65536); [|reflexivity]. cbn [bind].
    unfold Expand, t_expand, concat. cbn [List.concat]. rewrite app_nil_r.
    rewrite (t_hash_eq _ _ HD), Hb, Hl.
    unfold hkdf_expand. destruct (Nat.ltb (255 * Nh D) n); reflexivity.
  Qed.

  Lemma LabeledExpand_length D suite prk ls info n x :
    LabeledExpand Hash D suite prk ls info n = Some x -> length x = n.
  Proof.
    unfold LabeledExpand. destruct (I2OSP (N.of_nat n) 2); [|discriminate]. unfold Expand. intros H.
    eapply hkdf_expand_length; [apply Hash_len|apply Nh_pos|exact H].
  Qed.

  (* ---- section 5.1: the key schedule ---- *)
  Lemma exp_never_fails D suite prk info :
    exists x, LabeledExpand Hash D suite prk "exp" info (Nh D) = Some x.
  Proof.
    unfold LabeledExpand. rewrite I2OSP_2.
    assert (E1 : N.ltb (N.of_nat (Nh D)) 65536 = true) by (destruct D; reflexivity). rewrite E1.
    unfold Expand, hkdf_expand.
    assert (E2 : Nat.ltb (255 * Nh D) (Nh D) = false) by (destruct D; reflexivity). rewrite E2. eauto.
  Qed.

  Theorem key_schedule_rfc k d a ss info :
    key_schedule Textract Texpand k d a ss info =
    out (option_map (fun c => (c_key c, c_base_nonce c))
           (KeySchedule Hash (kem_id k) (rfc_kdf d) (rfc_aead a) mode_base ss info default_psk default_psk_id)).
  Proof.
    destruct (kdf_table_rfc d) as (_ & HD & _). destruct (aead_table_rfc a) as (_ & Ek & En).
    destruct ascii_constants as (_ & _ & _ & _ & _ & C1 & C2 & C3 & C4 & C5 & _).
    unfold key_schedule, KeySchedule.
    change (VerifyPSKInputs mode_base default_psk default_psk_id) with true. cbn [negb].
    rewrite hpke_suite_id_rfc.
    rewrite !(labeled_extract_rfc _ _ _ _ _ _ "psk_id_hash" HD C1).
    rewrite !(labeled_extract_rfc _ _ _ _ _ _ "info_hash" HD C2).
    rewrite !(labeled_extract_rfc _ _ _ _ _ _ "secret" HD C3).
    rewrite (labeled_expand_rfc _ _ _ _ _ _ "key" _ HD C4).
    rewrite (labeled_expand_rfc _ _ _ _ _ _ "base_nonce" _ HD C5).
    rewrite Ek, En.
    unfold key_schedule_context, base_mode, mode_base, concat, default_psk, default_psk_id. cbn [List.concat].
    rewrite app_nil_r.
    change ([0] ++ ?x) with (0 :: x).
    match goal with |- context [LabeledExpand Hash ?D ?s ?p "exp" ?i (Nh ?D)] =>
      destruct (exp_never_fails D s p i) as (e & ->) end.
    match goal with |- context [LabeledExpand Hash ?D ?s ?p "key" ?i ?n] =>
      destruct (LabeledExpand Hash D s p "key" i n) as [key|]; [|reflexivity] end.
    cbn [out bind].
    match goal with |- context [LabeledExpand Hash ?D ?s ?p "base_nonce" ?i ?n] =>
      destruct (LabeledExpand Hash D s p "base_nonce" i n) as [bn|]; reflexivity end.
  Qed.

  Lemma KeySchedule_lengths kid D A mode ss info psk psk_id c :
    KeySchedule Hash kid D A mode ss info psk psk_id = Some c ->
    length (c_key c) = Nk A /\ length (c_base_nonce c) = Nn A /\ c_seq c = 0.
  Proof.
    unfold KeySchedule. destruct (negb _); [discriminate|].
    destruct (LabeledExpand _ _ _ _ "key" _ _) as [key|] eqn:E1; [|discriminate].
    destruct (LabeledExpand _ _ _ _ "base_nonce" _ _) as [bn|] eqn:E2; [|discriminate].
    destruct (LabeledExpand _ _ _ _ "exp" _ _) as [e|]; [|discriminate].
    intros H. injection H as <-. cbn.
    apply LabeledExpand_length in E1. apply LabeledExpand_length in E2. auto.
  Qed.

  (* ---- section 5.2: single-shot Seal / Open on a fresh context ---- *)
  Lemma ComputeNonce_0 A c : length (c_base_nonce c) = Nn A -> ComputeNonce A c 0 = Some (c_base_nonce c).
  Proof.
    intros L. unfold ComputeNonce. rewrite I2OSP_0. unfold xor. rewrite xorb_zeros_r by (rewrite L; apply Nat.le_refl). reflexivity.
  Qed.

  Lemma context_seal_rfc a c pt :
    length (c_key c) = Nk (rfc_aead a) -> length (c_base_nonce c) = Nn (rfc_aead a) -> c_seq c = 0 ->
    (a = CHACHA20POLY1305 -> N.of_nat (length pt) <= P_MAX AEAD_ChaCha20Poly1305) ->
    context_seal Tseal a (c_key c) (c_base_nonce c) pt = out (ContextSeal AeadSeal (rfc_aead a) c [] pt).
  Proof.
    intros Lk Ln Hs Hc. unfold context_seal, ContextSeal. rewrite Hs, (ComputeNonce_0 _ _ Ln).
    rewrite compute_nonce_seq0. cbn [bind]. rewrite increment_seq_0.
    unfold IncrementSeq. rewrite Hs.
    unfold aead_seal, t_seal. rewrite Lk, Ln.
    destruct a; cbn [rfc_aead Nk Nn n_k n_n Nat.eqb negb P_MAX] in *.
    - change (2 ^ 36 - 31) with gcm_max_plaintext.
      destruct (N.ltb gcm_max_plaintext (N.of_nat (length pt))); reflexivity.
    - change (2 ^ 36 - 31) with gcm_max_plaintext.
      destruct (N.ltb gcm_max_plaintext (N.of_nat (length pt))); reflexivity.
    - specialize (Hc eq_refl).
      destruct (N.ltb_spec 274877906880 (N.of_nat (length pt))) as [Hlt|]; [|reflexivity].
      exfalso. exact (N.lt_irrefl _ (N.le_lt_trans _ _ _ Hc Hlt)).
  Qed.

  Lemma context_open_rfc a c ct :
    length (c_key c) = Nk (rfc_aead a) -> length (c_base_nonce c) = Nn (rfc_aead a) -> c_seq c = 0 ->
    context_open Topen a (c_key c) (c_base_nonce c) ct = out (ContextOpen AeadOpen (rfc_aead a) c [] ct).
  Proof.
    intros Lk Ln Hs. unfold context_open, ContextOpen. rewrite Hs, (ComputeNonce_0 _ _ Ln).
    rewrite compute_nonce_seq0. cbn [bind].
    unfold IncrementSeq. rewrite Hs.
    unfold aead_open, t_open. rewrite Lk, Ln.
    destruct a; cbn [rfc_aead Nk Nn n_k n_n Nat.eqb negb];
      (destruct (AeadOpen _ (c_key c) (c_base_nonce c) [] ct); cbn [bind out]; [rewrite increment_seq_0|]; reflexivity).
  Qed.

  (* ---- sections 5.1.1 and 6.1, generic in the KEM ---- *)
  Section OverKEM.
    Variable k : kem.
    Variable E : bytes -> bytes -> option (bytes * bytes).
    Variable Dc : bytes -> bytes -> option bytes.
    Notation TEncap := (encap Textract Texpand Tdh Tpub mlkem_encap sha3_256).
    Notation TDecap := (decap Textract Texpand Tdh Tpub mlkem_decap shake256 sha3_256).
    Hypothesis encap_is : forall pkR eph, TEncap k pkR eph = out (E pkR eph).
    Hypothesis decap_is : forall enc skR, TDecap k enc skR = out (Dc enc skR).

    Lemma raw_encrypt_over_kem d a pkR eph info pt :
      (a = CHACHA20POLY1305 -> N.of_nat (length pt) <= P_MAX AEAD_ChaCha20Poly1305) ->
      raw_encrypt Textract Texpand Tdh Tpub mlkem_encap sha3_256 Tseal k d a pkR eph info pt =
      if Nat.eqb (length pkR) 0 then Err else
      out (option_map (fun r => fst r ++ snd r)
             (SealBase Hash AeadSeal (kem_id k) E (rfc_kdf d) (rfc_aead a) pkR eph info [] pt)).
    Proof.
      intros Hc. unfold raw_encrypt. destruct (Nat.eqb (length pkR) 0); [reflexivity|].
      unfold SealBase, SetupBaseS. rewrite encap_is.
      destruct (E pkR eph) as [[ss enc]|]; [|reflexivity]. cbn [out bind].
      rewrite key_schedule_rfc.
      destruct (KeySchedule _ _ _ _ _ _ _ _ _) as [c|] eqn:EK; [|reflexivity]. cbn [option_map out bind].
      destruct (KeySchedule_lengths _ _ _ _ _ _ _ _ _ EK) as (Lk & Ln & Hs).
      rewrite (context_seal_rfc _ _ _ Lk Ln Hs Hc).
      destruct (ContextSeal _ _ _ _ _) as [ct|]; reflexivity.
    Qed.

    Lemma raw_decrypt_over_kem d a skR c info :
      raw_decrypt Textract Texpand Tdh Tpub mlkem_decap shake256 sha3_256 Topen k d a skR c info =
      if Nat.eqb (length skR) 0 then Err else
      if Nat.ltb (length c) (n_enc k) then Err else
      out (OpenBase Hash AeadOpen (kem_id k) Dc (rfc_kdf d) (rfc_aead a)
             (firstn (n_enc k) c) skR info [] (skipn (n_enc k) c)).
    Proof.
      unfold raw_decrypt. destruct (Nat.eqb (length skR) 0); [reflexivity|].
      destruct (Nat.ltb_spec (length c) (n_enc k)) as [|Lc]; [reflexivity|].
      destruct (slice_split (n_enc k) c Lc) as (enc & act & Ec & Lenc & S1 & S2).
      rewrite S1, S2. cbn [bind].
      assert (E1 : firstn (n_enc k) c = enc).
      { rewrite Ec, <- Lenc. rewrite firstn_app, Nat.sub_diag, firstn_all. simpl. apply app_nil_r. }
      assert (E2 : skipn (n_enc k) c = act).
      { rewrite Ec, <- Lenc. rewrite skipn_app, skipn_all, Nat.sub_diag. reflexivity. }
      rewrite E1, E2. unfold OpenBase, SetupBaseR. rewrite decap_is.
      destruct (Dc enc skR) as [ss|]; [|reflexivity]. cbn [out bind].
      rewrite key_schedule_rfc.
      destruct (KeySchedule _ _ _ _ _ _ _ _ _) as [cx|] eqn:EK; [|reflexivity]. cbn [option_map out bind].
      destruct (KeySchedule_lengths _ _ _ _ _ _ _ _ _ EK) as (Lk & Ln & Hs).
      apply context_open_rfc; assumption.
    Qed.
  End OverKEM.

  (* ---- section 4.1: DHKEM ---- *)
  Lemma dhkem_derive_rfc k K dhv enc pkR : rfc_kem k = Some K ->
    dhkem_derive Textract Texpand k dhv enc pkR = out (ExtractAndExpand Hash K dhv (concat [enc; pkR])).
  Proof.
    intros HK. destruct (kem_table_rfc _ _ HK) as (_ & _ & _ & _ & _ & HD & Hl).
    destruct ascii_constants as (_ & _ & _ & C1 & C2 & _).
    unfold dhkem_derive, extract_and_expand, ExtractAndExpand.
    rewrite (labeled_expand_rfc _ _ _ _ _ _ "shared_secret" _ HD C2).
    rewrite (labeled_extract_rfc _ _ _ _ _ _ "eae_prk" HD C1).
    rewrite (kem_suite_id_rfc _ _ HK), Hl.
    unfold concat. cbn [List.concat]. rewrite app_nil_r. reflexivity.
  Qed.

  Theorem dhkem_encap_rfc k K pkR eph : rfc_kem k = Some K ->
    encap Textract Texpand Tdh Tpub mlkem_encap sha3_256 k pkR eph = out (DHKEM_Encap Hash DH PK K pkR eph).
  Proof.
    intros HK. unfold DHKEM_Encap.
    assert (E1 : Tdh k eph pkR = DH K eph pkR) by (unfold t_dh; rewrite HK; reflexivity).
    assert (E2 : Tpub k eph = PK K eph) by (unfold t_dh_pub; rewrite HK; reflexivity).
    destruct k; try discriminate; unfold encap; cbv beta iota; rewrite E1, E2;
      (destruct (DH K eph pkR) as [dhv|]; [|reflexivity]);
      (destruct (PK K eph) as [enc|]; [|reflexivity]);
      rewrite (dhkem_derive_rfc _ _ _ _ _ HK);
      destruct (ExtractAndExpand Hash K dhv (concat [enc; pkR])); reflexivity.
  Qed.

  Theorem dhkem_decap_rfc k K enc skR : rfc_kem k = Some K ->
    decap Textract Texpand Tdh Tpub mlkem_decap shake256 sha3_256 k enc skR = out (DHKEM_Decap Hash DH PK K enc skR).
  Proof.
    intros HK. unfold DHKEM_Decap.
    assert (E1 : Tdh k skR enc = DH K skR enc) by (unfold t_dh; rewrite HK; reflexivity).
    assert (E2 : Tpub k skR = PK K skR) by (unfold t_dh_pub; rewrite HK; reflexivity).
    destruct k; try discriminate; unfold decap; cbv beta iota; rewrite E1, E2;
      (destruct (DH K skR enc) as [dhv|]; [|reflexivity]);
      (destruct (PK K skR) as [pkRm|]; [|reflexivity]);
      apply (dhkem_derive_rfc _ _ _ _ _ HK).
  Qed.

  (* DeserializePrivateKey / DeserializePublicKey accept exactly Nsk / Npk bytes *)
  Hypothesis DH_lengths : forall K sk pk s, DH K sk pk = Some s ->
    length sk = r_Nsk (kem_table K) /\ length pk = r_Npk (kem_table K).

  (* ---- headline: Tink HPKE with a DHKEM = RFC 9180 SealBase / OpenBase ---- *)
  Theorem hpke_raw_encrypt_is_SealBase k K d a pkR eph info pt : rfc_kem k = Some K ->
    (a = CHACHA20POLY1305 -> N.of_nat (length pt) <= P_MAX AEAD_ChaCha20Poly1305) ->
    raw_encrypt Textract Texpand Tdh Tpub mlkem_encap sha3_256 Tseal k d a pkR eph info pt =
    out (option_map (fun r => fst r ++ snd r)
           (SealBase_DHKEM Hash DH PK AeadSeal K (rfc_kdf d) (rfc_aead a) pkR eph info [] pt)).
  Proof.
    intros HK Hc. destruct (kem_table_rfc _ _ HK) as (Eid & _).
    rewrite (raw_encrypt_over_kem k (DHKEM_Encap Hash DH PK K) (fun pk e => dhkem_encap_rfc _ _ pk e HK) d a pkR eph info pt Hc).
    unfold SealBase_DHKEM. rewrite <- Eid.
    destruct (Nat.eqb_spec (length pkR) 0) as [L0|]; [|reflexivity].
    (* an empty public key: DeserializePublicKey fails *)
    unfold SealBase, SetupBaseS, DHKEM_Encap.
    destruct (DH K eph pkR) as [s|] eqn:Ed; [|reflexivity].
    apply DH_lengths in Ed. destruct Ed as [_ Ed]. destruct (Npk_pos K) as [P _].
    rewrite <- Ed, L0 in P. inversion P.
  Qed.

  Theorem hpke_raw_decrypt_is_OpenBase k K d a skR c info : rfc_kem k = Some K ->
    raw_decrypt Textract Texpand Tdh Tpub mlkem_decap shake256 sha3_256 Topen k d a skR c info =
    if Nat.ltb (length c) (r_Nenc (kem_table K)) then Err else
    out (OpenBase_DHKEM Hash DH PK AeadOpen K (rfc_kdf d) (rfc_aead a)
           (firstn (r_Nenc (kem_table K)) c) skR info [] (skipn (r_Nenc (kem_table K)) c)).
  Proof.
    intros HK. destruct (kem_table_rfc _ _ HK) as (Eid & _ & Eenc & _).
    rewrite (raw_decrypt_over_kem k (DHKEM_Decap Hash DH PK K) (fun e s => dhkem_decap_rfc _ _ e s HK) d a skR c info).
    unfold OpenBase_DHKEM. rewrite <- Eid, <- Eenc.
    destruct (Nat.eqb_spec (length skR) 0) as [L0|]; [|reflexivity].
    destruct (Nat.ltb (length c) (n_enc k)); [reflexivity|].
    unfold OpenBase, SetupBaseR, DHKEM_Decap.
    destruct (DH K skR (firstn (n_enc k) c)) as [s|] eqn:Ed; [|reflexivity].
    apply DH_lengths in Ed. destruct Ed as [Ed _]. destruct (Npk_pos K) as [_ P].
    rewrite <- Ed, L0 in P. inversion P.
  Qed.

  (* with Tink's output prefix: prefix || enc || ct, and the prefix check before OpenBase *)
  Theorem hpke_encrypt_is_prefix_SealBase k K d a prefix pkR eph info pt : rfc_kem k = Some K ->
    (a = CHACHA20POLY1305 -> N.of_nat (length pt) <= P_MAX AEAD_ChaCha20Poly1305) ->
    hpke_encrypt Textract Texpand Tdh Tpub mlkem_encap sha3_256 Tseal k d a prefix pkR eph info pt =
    out (option_map (fun r => prefix ++ fst r ++ snd r)
           (SealBase_DHKEM Hash DH PK AeadSeal K (rfc_kdf d) (rfc_aead a) pkR eph info [] pt)).
  Proof.
    intros HK Hc. unfold hpke_encrypt. rewrite (hpke_raw_encrypt_is_SealBase _ _ _ _ _ _ _ _ HK Hc).
    destruct (SealBase_DHKEM _ _ _ _ _ _ _ _ _ _ _ _); reflexivity.
  Qed.

  Theorem hpke_decrypt_is_prefix_OpenBase k K d a prefix skR rest info : rfc_kem k = Some K ->
    hpke_decrypt Textract Texpand Tdh Tpub mlkem_decap shake256 sha3_256 Topen k d a prefix skR (prefix ++ rest) info =
    if Nat.ltb (length rest) (r_Nenc (kem_table K)) then Err else
    out (OpenBase_DHKEM Hash DH PK AeadOpen K (rfc_kdf d) (rfc_aead a)
           (firstn (r_Nenc (kem_table K)) rest) skR info [] (skipn (r_Nenc (kem_table K)) rest)).
  Proof.
    intros HK. unfold hpke_decrypt.
    destruct (Nat.ltb_spec (length (prefix ++ rest)) (length prefix)) as [L|_].
    { exfalso. rewrite app_length in L. exact (Nat.lt_irrefl _ (Nat.le_lt_trans _ _ _ (Nat.le_add_r _ _) L)). }
    rewrite slice_head, slice_tail. cbn [bind]. rewrite beq_refl. cbn [negb].
    apply hpke_raw_decrypt_is_OpenBase. exact HK.
  Qed.
  (* ---------------------------------------------------------------- *)
  (* ML-KEM-768 / ML-KEM-1024 (KEM ids 0x0041 / 0x0042) and X-Wing      *)
  (* (0x647a): RFC 9180 over the KEM itself - the shared secret is the  *)
  (* KEM's own, there is no DH ExtractAndExpand                          *)
  (* ---------------------------------------------------------------- *)
  Theorem mlkem_raw_encrypt_is_SealBase k K d a pkR eph info pt : is_mlkem k = true -> rfc_pq_kem k = Some K ->
    (a = CHACHA20POLY1305 -> N.of_nat (length pt) <= P_MAX AEAD_ChaCha20Poly1305) ->
    raw_encrypt Textract Texpand Tdh Tpub mlkem_encap sha3_256 Tseal k d a pkR eph info pt =
    if Nat.eqb (length pkR) 0 then Err else
    out (option_map (fun r => fst r ++ snd r)
           (SealBase Hash AeadSeal (r_id (pq_kem_table K)) (mlkem_encap k) (rfc_kdf d) (rfc_aead a) pkR eph info [] pt)).
  Proof.
    intros Hm HK Hc. destruct (pq_kem_table_rfc _ _ HK) as (Eid & _). rewrite <- Eid.
    apply raw_encrypt_over_kem; [|exact Hc].
    intros pk e. destruct k; try discriminate; unfold encap; destruct (mlkem_encap _ pk e); reflexivity.
  Qed.

  Theorem mlkem_raw_decrypt_is_OpenBase k K d a skR c info : is_mlkem k = true -> rfc_pq_kem k = Some K ->
    raw_decrypt Textract Texpand Tdh Tpub mlkem_decap shake256 sha3_256 Topen k d a skR c info =
    if Nat.eqb (length skR) 0 then Err else
    if Nat.ltb (length c) (r_Nenc (pq_kem_table K)) then Err else
    out (OpenBase Hash AeadOpen (r_id (pq_kem_table K)) (fun enc sk => mlkem_decap k sk enc) (rfc_kdf d) (rfc_aead a)
           (firstn (r_Nenc (pq_kem_table K)) c) skR info [] (skipn (r_Nenc (pq_kem_table K)) c)).
  Proof.
    intros Hm HK. destruct (pq_kem_table_rfc _ _ HK) as (Eid & _ & Eenc & _). rewrite <- Eid, <- Eenc.
    apply raw_decrypt_over_kem.
    intros enc sk. destruct k; try discriminate; unfold decap; destruct (mlkem_decap _ sk enc); reflexivity.
  Qed.

  (* X-Wing: model/Xwing.v (after hybrid/internal/xwing/xwing.go) against the
     transcription of draft-connolly-cfrg-xwing-kem-10 in model/HpkeRfc.v *)
  Notation XEncap := (XWing_EncapsulateDerand sha3_256 (mlkem_encap MLKEM768) (Tdh X25519) (Tpub X25519)).
  Notation XDecap := (XWing_Decapsulate shake256 sha3_256 (mlkem_pub MLKEM768) (mlkem_decap MLKEM768) (Tdh X25519) (Tpub X25519)).

  Lemma octets_0 b n : octets b 0 n = firstn n b.
  Proof. unfold octets. rewrite Nat.sub_0_r. reflexivity. Qed.

  Lemma combiner_draft ssM ssX ctX pkX :
    xw_combiner sha3_256 ssM ssX ctX pkX = Combiner sha3_256 ssM ssX ctX pkX.
  Proof.
    unfold xw_combiner, Combiner, concat. cbn [List.concat]. rewrite app_nil_r.
    destruct ascii_constants as (_ & _ & _ & _ & _ & _ & _ & _ & _ & _ & ->). reflexivity.
  Qed.

  (* the model reads its explicit randomness as ek_X || (ML-KEM coins), the draft's
     eseed is (ML-KEM coins) || ek_X *)
  Theorem xwing_encap_draft pk ekX coins : length ekX = 32%nat -> length coins = 32%nat ->
    encap Textract Texpand Tdh Tpub mlkem_encap sha3_256 XWING pk (ekX ++ coins) = out (XEncap pk (coins ++ ekX)).
  Proof.
    intros Le Lc.
    assert (A1 : firstn 32 (ekX ++ coins) = ekX).
    { rewrite <- Le. rewrite firstn_app, Nat.sub_diag, firstn_all. simpl. apply app_nil_r. }
    assert (A2 : skipn 32 (ekX ++ coins) = coins).
    { rewrite <- Le. rewrite skipn_app, skipn_all, Nat.sub_diag. reflexivity. }
    assert (A3 : octets (coins ++ ekX) 32 64 = ekX).
    { unfold octets. replace (skipn 32 (coins ++ ekX)) with ekX
        by (rewrite <- Lc; rewrite skipn_app, skipn_all, Nat.sub_diag; reflexivity).
      apply firstn_all2. rewrite Le. apply Nat.le_refl. }
    assert (A4 : octets (coins ++ ekX) 0 32 = coins).
    { rewrite octets_0. rewrite <- Lc. rewrite firstn_app, Nat.sub_diag, firstn_all. simpl. apply app_nil_r. }
    unfold encap, xw_enc, xw_encap, XWing_EncapsulateDerand, xw_public_key_size, mlkem768_ek_size.
    destruct (Nat.eqb_spec (length pk) 1216) as [L|]; [|reflexivity]. cbn [negb].
    rewrite slice_in_range by (rewrite ?L; apply Nat.leb_le; reflexivity). cbn [bind].
    rewrite slice_in_range by (rewrite ?L; apply Nat.leb_le; reflexivity). cbn [bind].
    rewrite L, A1, A2, A3, A4. rewrite octets_0.
    change (octets pk 1184 1216) with (firstn 32 (skipn 1184 pk)).
    change (1184 - 0)%nat with 1184%nat. change (skipn 0 pk) with pk. change (1216 - 1184)%nat with 32%nat.
    destruct (Tpub X25519 ekX) as [ctX|]; [|reflexivity].
    destruct (Tdh X25519 ekX (firstn 32 (skipn 1184 pk))) as [ssX|]; [|reflexivity].
    destruct (mlkem_encap MLKEM768 (firstn 1184 pk) coins) as [[ssM ctM]|]; [|reflexivity].
    rewrite combiner_draft. unfold concat. cbn [List.concat out]. rewrite app_nil_r. reflexivity.
  Qed.

  (* SHAKE-256 returns as many bytes as asked; ML-KEM KeyGen_internal is total on 64-byte seeds *)
  Hypothesis shake_len : forall m n, length (shake256 m n) = n.
  Hypothesis mlkem_keygen_total : forall seed, length seed = 64%nat -> mlkem_pub MLKEM768 seed <> None.

  Theorem xwing_decap_draft ct sk :
    decap Textract Texpand Tdh Tpub mlkem_decap shake256 sha3_256 XWING ct sk = out (XDecap ct sk).
  Proof.
    unfold decap, xw_dec, xw_decap, XWing_Decapsulate, expandDecapsulationKey, xw_expand,
      xw_ciphertext_size, xw_secret_key_size, mlkem768_ct_size.
    destruct (Nat.eqb_spec (length ct) 1120) as [L|]; [|reflexivity]. cbn [negb].
    destruct (Nat.eqb_spec (length sk) 32) as [Ls|]; [|reflexivity]. cbn [negb bind].
    rewrite slice_in_range by (rewrite ?L; apply Nat.leb_le; reflexivity). cbn [bind].
    rewrite slice_in_range by (rewrite ?L; apply Nat.leb_le; reflexivity). cbn [bind].
    rewrite L. rewrite !octets_0. unfold octets. change (1088 - 0)%nat with 1088%nat. change (skipn 0 ct) with ct.
    change (1120 - 1088)%nat with 32%nat. change (96 - 64)%nat with 32%nat.
    set (e := shake256 sk 96).
    destruct (mlkem_pub MLKEM768 (firstn 64 e)) as [pkM|] eqn:EM.
    2: { exfalso. revert EM. apply mlkem_keygen_total. rewrite firstn_length. unfold e. rewrite shake_len. reflexivity. }
    destruct (Tpub X25519 (firstn 32 (skipn 64 e))) as [pkX|].
    - destruct (mlkem_decap MLKEM768 (firstn 64 e) (firstn 1088 ct)) as [ssM|]; [|reflexivity].
      destruct (Tdh X25519 (firstn 32 (skipn 64 e)) (firstn 32 (skipn 1088 ct))) as [ssX|]; [|reflexivity].
      rewrite combiner_draft. reflexivity.
    - destruct (mlkem_decap MLKEM768 (firstn 64 e) (firstn 1088 ct)) as [ssM|]; [|reflexivity].
      destruct (Tdh X25519 (firstn 32 (skipn 64 e)) (firstn 32 (skipn 1088 ct))) as [ssX|]; reflexivity.
  Qed.

  Theorem xwing_raw_decrypt_is_OpenBase d a skR c info :
    raw_decrypt Textract Texpand Tdh Tpub mlkem_decap shake256 sha3_256 Topen XWING d a skR c info =
    if Nat.eqb (length skR) 0 then Err else
    if Nat.ltb (length c) (r_Nenc (pq_kem_table KEM_X_WING)) then Err else
    out (OpenBase Hash AeadOpen (r_id (pq_kem_table KEM_X_WING)) XDecap (rfc_kdf d) (rfc_aead a)
           (firstn (r_Nenc (pq_kem_table KEM_X_WING)) c) skR info [] (skipn (r_Nenc (pq_kem_table KEM_X_WING)) c)).
  Proof.
    change (r_id (pq_kem_table KEM_X_WING)) with (kem_id XWING).
    change (r_Nenc (pq_kem_table KEM_X_WING)) with (n_enc XWING).
    apply raw_decrypt_over_kem. intros enc sk. apply xwing_decap_draft.
  Qed.

  Theorem xwing_raw_encrypt_is_SealBase d a pkR ekX coins info pt :
    length ekX = 32%nat -> length coins = 32%nat ->
    (a = CHACHA20POLY1305 -> N.of_nat (length pt) <= P_MAX AEAD_ChaCha20Poly1305) ->
    raw_encrypt Textract Texpand Tdh Tpub mlkem_encap sha3_256 Tseal XWING d a pkR (ekX ++ coins) info pt =
    if Nat.eqb (length pkR) 0 then Err else
    out (option_map (fun r => fst r ++ snd r)
           (SealBase Hash AeadSeal (r_id (pq_kem_table KEM_X_WING)) (fun pk _ => XEncap pk (coins ++ ekX))
              (rfc_kdf d) (rfc_aead a) pkR [] info [] pt)).
  Proof.
    intros Le Lc Hc. change (r_id (pq_kem_table KEM_X_WING)) with (kem_id XWING).
    unfold raw_encrypt. destruct (Nat.eqb (length pkR) 0); [reflexivity|].
    unfold SealBase, SetupBaseS. rewrite (xwing_encap_draft _ _ _ Le Lc).
    destruct (XEncap pkR (coins ++ ekX)) as [[ss enc]|]; [|reflexivity]. cbn [out bind].
    rewrite key_schedule_rfc.
    destruct (KeySchedule _ _ _ _ _ _ _ _ _) as [cx|] eqn:EK; [|reflexivity]. cbn [option_map out bind].
    destruct (KeySchedule_lengths _ _ _ _ _ _ _ _ _ EK) as (Lk & Ln & Hs).
    rewrite (context_seal_rfc _ _ _ Lk Ln Hs Hc).
    destruct (ContextSeal _ _ _ _ _) as [ctx|]; reflexivity.
  Qed.
End Equality.
