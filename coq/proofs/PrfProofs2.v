(* C15, strengthening round: the PRF-set theorem over keyset HISTORIES (any handle any
   keyset.Manager history returns), and the as-coded HMAC / HKDF of crypto/hmac and
   x/crypto/hkdf tied to the PRFs of model/Prf.v. *)
From Coq Require Import List NArith Bool Arith Lia.
From Tink Require Import Bytes Cmac Hmac Hkdf Prf Manager PrfHandle HmacCode HkdfCode.
From Tink Require Import CmacProofs HmacProofs HkdfProofs PrfProofs ManagerProofs HmacCodeProofs HkdfCodeProofs.
Import ListNotations.
Open Scope N_scope.

(* ---- the unique primary of a well-formed handle ---- *)
Lemma unique_primary (h : handle) : count_prim h = 1%nat ->
  exists pe, In pe h /\ eprim pe = true /\ forall e, In e h -> eprim e = true -> e = pe.
Proof.
  unfold count_prim. intros Hc.
  destruct (filter eprim h) as [|pe [|x l]] eqn:Ef; try discriminate.
  assert (Hin : In pe (filter eprim h)) by (rewrite Ef; left; reflexivity).
  apply filter_In in Hin. exists pe. split; [tauto|]. split; [tauto|].
  intros e He Hp. assert (Hin' : In e (filter eprim h)) by (apply filter_In; auto).
  rewrite Ef in Hin'. destruct Hin' as [E|[]]. auto.
Qed.

Lemma fold_pick (f : entry -> bool) (pe : entry) : forall l acc,
  (forall e, In e l -> f e = true -> e = pe) ->
  fold_left (fun a e => if f e then eid e else a) l acc = if existsb f l then eid pe else acc.
Proof.
  induction l as [|x l IH]; intros acc Hu; [reflexivity|]. cbn [fold_left existsb].
  rewrite IH by (intros e He; apply Hu; right; exact He).
  destruct (f x) eqn:Fx; cbn [orb].
  - rewrite (Hu x (or_introl eq_refl) Fx). destruct (existsb f l); reflexivity.
  - reflexivity.
Qed.

Lemma handle_primary_wf (h : handle) pe :
  In pe h -> eprim pe = true -> est pe = Enabled ->
  (forall e, In e h -> eprim e = true -> e = pe) ->
  handle_primary h = eid pe.
Proof.
  intros Hin Hp Hs Hu. unfold handle_primary.
  rewrite (fold_pick (fun e => status_eqb (est e) Enabled && eprim e) pe).
  - assert (E : existsb (fun e => status_eqb (est e) Enabled && eprim e) h = true).
    { apply existsb_exists. exists pe. split; [exact Hin|]. rewrite Hs, Hp. reflexivity. }
    rewrite E. reflexivity.
  - intros e He Hf. apply andb_true_iff in Hf. apply Hu; tauto.
Qed.

(* ---- which keys the constructors accept, exactly ---- *)
Definition prf_key_in_range (k : prf_kind) (keylen : nat) : Prop :=
  match k with
  | KHmac (Some _) => (16 <= keylen)%nat                       (* ValidateHMACPRFParams *)
  | KHkdf (Some SHA256) _ | KHkdf (Some SHA512) _ => (32 <= keylen)%nat   (* ValidateHKDFPRFParams *)
  | KCmac => keylen = 32%nat                                    (* ValidateAESCMACPRFParams *)
  | _ => False
  end.

Definition prf_subtle_in_range (k : prf_kind) (keylen : nat) : Prop :=
  match k with
  | KHmac (Some _) | KHkdf (Some _) _ => True
  | KCmac => keylen = 16%nat \/ keylen = 24%nat \/ keylen = 32%nat
  | _ => False
  end.

Theorem key_prf_accepts_iff Hash AES k key :
  (exists p, key_prf Hash AES k key = Ok p) <-> prf_key_in_range k (length key).
Proof.
  unfold key_prf, subtle_new, prf_key_in_range.
  destruct k as [[h|]|[h|] salt|].
  - destruct (Nat.ltb_spec (length key) 16); cbn [negb andb];
      (split; [intros [p Hp]; try discriminate; lia | intros Hr; try lia; eexists; reflexivity]).
  - cbn [negb andb]. rewrite andb_false_r. cbn [negb]. split; [intros [p Hp]; discriminate|intros []].
  - destruct (Nat.ltb_spec (length key) 32); destruct h; cbn [negb andb];
      (split; [intros [p Hp]; try discriminate; lia | intros Hr; try lia; try contradiction; eexists; reflexivity]).
  - cbn [negb andb]. rewrite andb_false_r. cbn [negb]. split; [intros [p Hp]; discriminate|intros []].
  - destruct (Nat.eqb_spec (length key) 32) as [E|NE]; cbn [negb].
    + rewrite E. cbn. split; [auto|intros _; eexists; reflexivity].
    + split; [intros [p Hp]; discriminate|intros E; contradiction].
Qed.

Theorem subtle_new_accepts_iff Hash AES k key :
  (exists p, subtle_new Hash AES k key = Ok p) <-> prf_subtle_in_range k (length key).
Proof.
  unfold subtle_new, prf_subtle_in_range.
  destruct k as [[h|]|[h|] salt|];
    try (split; [auto|intros _; eexists; reflexivity]);
    try (split; [intros [p Hp]; discriminate|intros []]).
  destruct (Nat.eqb_spec (length key) 32); destruct (Nat.eqb_spec (length key) 24);
    destruct (Nat.eqb_spec (length key) 16); cbn [negb orb];
    (split; [intros [p Hp]; try discriminate; lia | intros Hr; try lia; eexists; reflexivity]).
Qed.

Section Hist.
  Variable Hash : hash_alg -> bytes -> bytes.
  Variable AES : bytes -> bytes -> bytes.
  Hypothesis Hash_len : forall h x, length (Hash h x) = digest_size h.
  Hypothesis AES_len : forall k b, length b = 16%nat -> length (AES k b) = 16%nat.
  Hypothesis AES_wf0 : forall k, wfb (AES k (zeros 16)).
  Variable keyobj : N -> prf_kind * bytes.

  Lemma in_handle_entries h id k key :
    In (id, PEnabled, k, key) (handle_entries keyobj h) <->
    exists e, In e h /\ eid e = id /\ est e = Enabled /\ keyobj (ekey e) = (k, key).
  Proof.
    unfold handle_entries. rewrite in_map_iff. split.
    - intros (e & E & He). inversion E as [[E1 E2 E3 E4]]. exists e. split; [exact He|]. split; [reflexivity|].
      split; [destruct (est e); try discriminate E2; reflexivity|]. apply surjective_pairing.
    - intros (e & He & Hid & Hs & Hk). exists e. split; [|exact He]. rewrite Hid, Hs, Hk. reflexivity.
  Qed.

  Lemma enabled_ids_handle h : NoDup (map eid h) -> NoDup (enabled_ids (handle_entries keyobj h)).
  Proof.
    clear. unfold enabled_ids, handle_entries. induction h as [|e h IH]; intros Hnd; [constructor|].
    inversion Hnd as [|? ? Hnin Hnd']; subst. cbn [map flat_map].
    destruct (pstatus (est e)); cbn [app]; [|apply IH; exact Hnd'].
    constructor; [|apply IH; exact Hnd'].
    intros Hin. apply Hnin. clear - Hin. induction h as [|x h IH]; [contradiction|].
    cbn [map flat_map] in Hin. apply in_app_or in Hin. destruct Hin as [Hin|Hin].
    - destruct (pstatus (est x)); [|contradiction]. destruct Hin as [E|[]]. left. exact E.
    - right. apply IH. exact Hin.
  Qed.

  (* the static theorem, with the distinct-ids premise discharged by well-formedness and
     the primary id COMPUTED from the handle as the factory does *)
  Theorem prf_set_of_wf_handle h set :
    wf_handle h -> prf_set_of_handle Hash AES keyobj h = Some set ->
    (exists pe, In pe h /\ eprim pe = true /\ est pe = Enabled /\
                (forall e, In e h -> eprim e = true -> e = pe) /\
                primary_id set = eid pe /\
                exists p, truncates Hash AES p (fst (keyobj (ekey pe))) (snd (keyobj (ekey pe))) /\
                          forall input n, compute_primary set input n = p input n) /\
    NoDup (map fst (prfs set)) /\
    (forall id, In id (map fst (prfs set)) <-> exists e, In e h /\ est e = Enabled /\ eid e = id) /\
    (forall e, In e h -> est e = Enabled ->
       exists p, set_lookup (prfs set) (eid e) = Some p /\
                 truncates Hash AES p (fst (keyobj (ekey e))) (snd (keyobj (ekey e)))).
  Proof.
    intros [HE Hc] Hs. destruct (unique_primary h Hc) as (pe & Hin & Hp & Hu).
    pose proof (ei_prim_enabled _ HE pe Hin Hp) as Hen.
    unfold prf_set_of_handle in Hs. rewrite (handle_primary_wf h pe Hin Hp Hen Hu) in Hs.
    destruct (new_prf_set_facts Hash AES Hash_len AES_len AES_wf0 _ _ _ Hs
                (enabled_ids_handle h (ei_nodup _ HE))) as (F1 & F2 & F3 & F4 & F5).
    split; [|split; [exact F2|split]].
    - exists pe. split; [exact Hin|]. split; [exact Hp|]. split; [exact Hen|]. split; [exact Hu|].
      split; [exact F1|].
      destruct (F5 (fst (keyobj (ekey pe))) (snd (keyobj (ekey pe)))) as (p & Ht & Hcp).
      + apply in_handle_entries. exists pe. repeat split; auto. apply surjective_pairing.
      + exists p. split; assumption.
    - intros id. rewrite F3. split.
      + intros (k & key & Hk). apply in_handle_entries in Hk. destruct Hk as (e & He & Hid & Hst & _).
        exists e. auto.
      + intros (e & He & Hst & Hid). exists (fst (keyobj (ekey e))), (snd (keyobj (ekey e))).
        apply in_handle_entries. exists e. repeat split; auto. apply surjective_pairing.
    - intros e He Hst. apply F4. apply in_handle_entries. exists e. repeat split; auto. apply surjective_pairing.
  Qed.

  (* over HISTORIES: whatever sequence of manager operations (Add*, SetPrimary, Enable, Disable,
     Delete, Handle, NewManagerFromHandle) produced the handle *)
  Theorem prf_set_after_history h0 tape ops s' rs h set :
    (forall x, h0 = Some x -> wf_handle x) ->
    run (init_state h0 tape) ops = (s', rs) -> In (RHandle h) rs ->
    prf_set_of_handle Hash AES keyobj h = Some set ->
    (exists pe, In pe h /\ eprim pe = true /\ est pe = Enabled /\
                (forall e, In e h -> eprim e = true -> e = pe) /\
                primary_id set = eid pe /\
                exists p, truncates Hash AES p (fst (keyobj (ekey pe))) (snd (keyobj (ekey pe))) /\
                          forall input n, compute_primary set input n = p input n) /\
    NoDup (map fst (prfs set)) /\
    (forall id, In id (map fst (prfs set)) <-> exists e, In e h /\ est e = Enabled /\ eid e = id) /\
    (forall e, In e h -> est e = Enabled ->
       exists p, set_lookup (prfs set) (eid e) = Some p /\
                 truncates Hash AES p (fst (keyobj (ekey e))) (snd (keyobj (ekey e)))).
  Proof.
    intros H0 Hrun Hin. apply prf_set_of_wf_handle.
    eapply run_handles_wf; [apply init_inv; exact H0|exact Hrun|exact Hin].
  Qed.

  (* ---- crypto/hmac and x/crypto/hkdf as coded = the PRFs of model/Prf.v ---- *)
  Section Coded.
    Variable St : Type.
    Variable h_init : St.
    Variable h_write : St -> bytes -> St.
    Variable h_sum : St -> bytes.
    Variable marshalable : bool.
    Variable a : hash_alg.
    Hypothesis stream_law :
      forall chunks, h_sum (fold_left h_write chunks h_init) = Hash a (concat chunks).

    (* prf/subtle/hmac.go ComputePRF *)
    Theorem hmac_prf_code_is_model key data n :
      tink_hmac_prf_code St h_init h_write h_sum (block_size a) (digest_size a) key data n
      = hmac_prf Hash a key data n.
    Proof.
      unfold tink_hmac_prf_code, hmac_prf.
      rewrite (hmac_code_is_rfc2104 St h_init h_write h_sum (block_size a) (Hash a) stream_law).
      cbn [concat]. rewrite app_nil_r. reflexivity.
    Qed.

    (* prf/subtle/hkdf.go ComputePRF: nil and empty salt alike *)
    Theorem hkdf_prf_code_is_model key salt data n :
      tink_hkdf_prf_code St h_init h_write h_sum (block_size a) marshalable (digest_size a)
        key (Some salt) data n = hkdf_prf Hash a key salt data n /\
      tink_hkdf_prf_code St h_init h_write h_sum (block_size a) marshalable (digest_size a)
        key (match salt with [] => None | _ => Some salt end) data n = hkdf_prf Hash a key salt data n.
    Proof.
      pose proof (digest_pos a) as Hp.
      rewrite !(tink_hkdf_prf_code_spec St h_init h_write h_sum (block_size a) marshalable (Hash a)
                 (digest_size a) stream_law (Hash_len a) Hp).
      unfold hkdf_prf. split; [reflexivity|].
      destruct salt as [|x s]; [|reflexivity]. cbn [salt_of].
      rewrite <- (hkdf_empty_salt (Hash a) (block_size a) (digest_size a)) by apply digest_le_block.
      reflexivity.
    Qed.

    (* subtle/hkdf.go ComputeHKDF *)
    Theorem compute_hkdf_code_is_model key salt info n :
      tink_compute_hkdf_code St h_init h_write h_sum (block_size a) marshalable (digest_size a)
        key salt info n = compute_hkdf Hash (Some a) key salt info n.
    Proof.
      pose proof (digest_pos a) as Hp.
      rewrite (tink_compute_hkdf_code_spec St h_init h_write h_sum (block_size a) marshalable (Hash a)
                 (digest_size a) stream_law (Hash_len a) Hp).
      reflexivity.
    Qed.
  End Coded.
End Hist.
