(* Top-level proofs about model/Slhdsa.v: index bounds of the digest split,
   signature length, wrong-length rejection and
       verify pk m (sign sk m rnd) = true
   for arbitrary hash functions (with the output-length laws) and every
   parameter record satisfying params_wf. *)
From Coq Require Import List NArith Bool Arith Lia ZifyN ZifyNat.
From Tink Require Import Bytes SlhdsaSupport SlhdsaAddr SlhdsaBase SlhdsaWots SlhdsaXmss SlhdsaFors SlhdsaHt Slhdsa
  SlhdsaSpec SlhdsaListProofs SlhdsaSupportProofs SlhdsaWotsProofs SlhdsaXmssProofs SlhdsaForsProofs SlhdsaHtProofs.
Import ListNotations.
Open Scope N_scope.

(* what the structure needs of a parameter record: the hypertree has d >= 1
   layers of height hp and total height h = d * hp *)
Definition params_wf (P : params) : Prop := p_h P = (p_d P * p_hp P)%nat /\ (1 <= p_d P)%nat.

Section TOP.
  Variable P : params.
  Variable HS : hashes.
  Notation n := (p_n P).

  (* ---------- lengths ---------- *)
  Lemma forsNodeS_length : hashes_ok P HS -> forall z l t kp sk pk i, length (forsNodeS HS l t kp sk pk z i) = n.
  Proof. intros OK z; destruct z; intros; simpl; [apply (hF_len _ _ OK)|apply (hH_len _ _ OK)]. Qed.

  Lemma forsSignS_length : hashes_ok P HS -> forall l t kp indices sk pk,
    length (forsSignS P HS l t kp indices sk pk) = (p_k P * ((p_a P + 1) * n))%nat.
  Proof.
    intros OK *. unfold forsSignS. apply flat_map_seq_length. intros i _. cbv zeta.
    rewrite app_length. unfold forsSkS. rewrite (hPrf_len _ _ OK).
    rewrite (flat_map_seq_length _ 0 (p_a P) n) by (intros; apply forsNodeS_length; auto). lia.
  Qed.

  (* ---------- index bounds ---------- *)
  Lemma toInt_loop_lt : forall k x total, total < 2 ^ 64 -> toInt_loop x k total < 2 ^ 64.
  Proof.
    induction k as [|k IH]; intros x total Ht; simpl; auto.
    destruct x; apply IH; unfold u64; apply N.mod_lt; discriminate.
  Qed.

  Lemma toInt_lt : forall x k, toInt x k < 2 ^ 64.
  Proof. intros. apply toInt_loop_lt. reflexivity. Qed.

  Lemma split_digest_leaf_lt : forall digest md idxTree idxLeaf,
    split_digest P digest = (md, idxTree, idxLeaf) -> idxLeaf < 2 ^ N.of_nat (p_hp P).
  Proof.
    unfold split_digest. intros digest md idxTree idxLeaf E. inversion E; subst.
    rewrite N.land_ones. apply N.mod_lt. apply N.pow_nonzero. lia.
  Qed.

  Lemma split_digest_tree_lt : forall digest md idxTree idxLeaf,
    split_digest P digest = (md, idxTree, idxLeaf) -> idxTree < 2 ^ N.of_nat (p_h P - p_hp P).
  Proof.
    unfold split_digest. intros digest md idxTree idxLeaf E. inversion E; subst. clear E.
    destruct (Nat.eqb_spec (p_h P - p_hp P) 64) as [e|e].
    - rewrite e. apply toInt_lt.
    - rewrite N.land_ones. apply N.mod_lt. apply N.pow_nonzero. lia.
  Qed.

  (* ---------- signature length ---------- *)
  Theorem signInternal_length : hashes_ok P HS -> params_wf P -> forall skSeed skPrf pkSeed pkRoot msg addrnd,
    length (signInternal P HS skSeed skPrf pkSeed pkRoot msg addrnd) = sig_len P.
  Proof.
    intros OK [Hh Hd] *. unfold signInternal.
    destruct (split_digest P _) as [[md idxTree] idxLeaf].
    destruct (forsSign_spec P HS md skSeed pkSeed (forsAdrs idxTree idxLeaf) eq_refl) as [A B].
    destruct (forsSign P HS md skSeed pkSeed (forsAdrs idxTree idxLeaf)) as [sigFors ad1]. simpl in A.
    destruct (forsPkFromSig P HS sigFors md pkSeed ad1) as [pkFors ad2].
    rewrite !app_length, (hPrfMsg_len _ _ OK), A, forsSignS_length, htSign_spec, htSignS_length by auto.
    unfold sig_len, xmssSigSize. rewrite Hh. nia.
  Qed.

  (* ---------- wrong length => reject ---------- *)
  Theorem verifyInternal_wrong_length : forall pkSeed pkRoot msg sig,
    length sig <> sig_len P -> verifyInternal P HS pkSeed pkRoot msg sig = false.
  Proof.
    intros * H. unfold verifyInternal. destruct (Nat.eqb_spec (length sig) (sig_len P)); [contradiction|reflexivity].
  Qed.

  (* ---------- sign then verify ---------- *)
  Theorem verify_sign_internal : hashes_ok P HS -> params_wf P -> forall skSeed skPrf pkSeed msg addrnd,
    verifyInternal P HS pkSeed (keygenRoot P HS skSeed pkSeed) msg
      (signInternal P HS skSeed skPrf pkSeed (keygenRoot P HS skSeed pkSeed) msg addrnd) = true.
  Proof.
    intros OK WF skSeed skPrf pkSeed msg addrnd.
    pose proof (signInternal_length OK WF skSeed skPrf pkSeed (keygenRoot P HS skSeed pkSeed) msg addrnd) as Hlen.
    destruct WF as [Hh Hd].
    unfold verifyInternal. rewrite Hlen, Nat.eqb_refl. cbn [negb].
    unfold signInternal in *.
    set (R := hPrfMsg HS skPrf addrnd msg) in *.
    assert (HR : length R = n) by apply (hPrfMsg_len _ _ OK).
    set (digest := hHMsg HS R pkSeed (keygenRoot P HS skSeed pkSeed) msg) in *.
    destruct (split_digest P digest) as [[md idxTree] idxLeaf] eqn:Esd.
    pose proof (split_digest_leaf_lt _ _ _ _ Esd) as Lleaf.
    pose proof (split_digest_tree_lt _ _ _ _ Esd) as Ltree.
    destruct (forsSign_spec P HS md skSeed pkSeed (forsAdrs idxTree idxLeaf) eq_refl) as [A B].
    destruct (forsSign P HS md skSeed pkSeed (forsAdrs idxTree idxLeaf)) as [sigFors ad1]. simpl in A, B.
    assert (Ht1 : a_typ ad1 = T_FORSTREE) by (unfold eq23 in B; simpl in B; intuition congruence).
    destruct (forsPkFromSig_spec P HS sigFors md pkSeed ad1 Ht1) as [A1 B1].
    destruct (forsPkFromSig P HS sigFors md pkSeed ad1) as [pkFors ad2]. simpl in A1.
    assert (HF : length sigFors = (p_k P * ((p_a P + 1) * n))%nat) by (rewrite A; apply forsSignS_length; auto).
    (* parse the signature back *)
    rewrite firstn_app_exact by lia. fold digest. rewrite Esd.
    rewrite (skipn_app_exact R) by lia.
    rewrite firstn_app_exact by nia.
    replace ((1 + p_k P * (1 + p_a P)) * n)%nat with (length R + length sigFors)%nat by nia.
    rewrite app_assoc, skipn_app_exact by (rewrite app_length; reflexivity).
    (* the FORS public key recomputed from a fresh address is the one signed *)
    destruct (forsPkFromSig_spec P HS sigFors md pkSeed (forsAdrs idxTree idxLeaf) eq_refl) as [A2 B2].
    destruct (forsPkFromSig P HS sigFors md pkSeed (forsAdrs idxTree idxLeaf)) as [pkFors' ad3]. simpl in A2.
    assert (E : pkFors' = pkFors).
    { rewrite A1, A2. destruct B as (b1 & b2 & b3 & b4). rewrite b1, b2, b4. reflexivity. }
    rewrite E.
    unfold keygenRoot. apply ht_complete; auto.
    replace ((p_d P - 1) * p_hp P)%nat with (p_h P - p_hp P)%nat by nia. exact Ltree.
  Qed.

  (* ---------- verifyInternal in the shape of FIPS 205 Algorithm 20 ---------- *)
  Definition verifyInternalS (pkSeed pkRoot msg sig : bytes) : bool :=
    let forsIdx := (1 + p_k P * (1 + p_a P))%nat in
    if negb (Nat.eqb (length sig) (sig_len P)) then false else
    let R := firstn n sig in
    let sigFors := firstn (forsIdx * n - n) (skipn n sig) in
    let sigHT := skipn (forsIdx * n) sig in
    let '(md, idxTree, idxLeaf) := split_digest P (hHMsg HS R pkSeed pkRoot msg) in
    htVerifyS P HS (forsPkFromSigS P HS 0 idxTree idxLeaf (base2b md (p_a P) (p_k P)) sigFors pkSeed)
              sigHT pkSeed idxTree idxLeaf pkRoot.

  Theorem verifyInternal_fips : forall pkSeed pkRoot msg sig,
    verifyInternal P HS pkSeed pkRoot msg sig = verifyInternalS pkSeed pkRoot msg sig.
  Proof.
    intros. unfold verifyInternal, verifyInternalS.
    destruct (negb (length sig =? sig_len P)%nat); [reflexivity|].
    destruct (split_digest P _) as [[md idxTree] idxLeaf].
    match goal with |- context [forsPkFromSig P HS ?s md pkSeed ?a] =>
      destruct (forsPkFromSig_spec P HS s md pkSeed a eq_refl) as [A B];
      destruct (forsPkFromSig P HS s md pkSeed a) as [pkFors ad1] end.
    simpl in A. rewrite htVerify_spec, A. reflexivity.
  Qed.

  (* ---------- the API level: keys as encoded, context wrapper ---------- *)
  Theorem verify_sign : hashes_ok P HS -> params_wf P -> forall skSeed skPrf pkSeed msg ctx addrnd,
    length skSeed = n -> length skPrf = n -> length pkSeed = n -> (length ctx <= 255)%nat ->
    let sk := keygen P HS skSeed skPrf pkSeed in
    let pk := skipn (2 * n) sk in
    exists sig, sign P HS sk msg ctx addrnd = Some sig /\ length sig = sig_len P
                /\ verify P HS pk msg sig ctx = Some true.
  Proof.
    intros OK WF skSeed skPrf pkSeed msg ctx addrnd H1 H2 H3 Hc sk pk.
    assert (Hroot : length (keygenRoot P HS skSeed pkSeed) = n).
    { unfold keygenRoot. rewrite (proj1 (xmssNode_spec _ _ _ _ _ _ _)). apply xmssNodeS_length; auto. }
    assert (Hsk : length sk = (4 * n)%nat) by (unfold sk, keygen; rewrite !app_length; lia).
    assert (Epk : pk = pkSeed ++ keygenRoot P HS skSeed pkSeed).
    { unfold pk, sk, keygen. rewrite app_assoc. apply skipn_app_exact. rewrite app_length. lia. }
    unfold sign, verify. rewrite Hsk, Nat.eqb_refl. cbn [negb].
    destruct (Nat.ltb_spec 255 (length ctx)) as [L|L]; [lia|].
    eexists. split; [reflexivity|]. split; [apply signInternal_length; auto|].
    rewrite Epk, app_length, H3, Hroot. replace (n + n)%nat with (2 * n)%nat by lia. rewrite Nat.eqb_refl. cbn [negb].
    f_equal.
    rewrite firstn_app_exact, skipn_app_exact by lia.
    unfold sk, keygen.
    rewrite firstn_app_exact by lia.
    rewrite (skipn_app_exact skSeed) by lia. rewrite firstn_app_exact by lia.
    replace (2 * n)%nat with (length (skSeed ++ skPrf)) by (rewrite app_length; lia).
    rewrite (app_assoc skSeed skPrf), skipn_app_exact by reflexivity. rewrite firstn_app_exact by lia.
    replace (3 * n)%nat with (length ((skSeed ++ skPrf) ++ pkSeed)) by (rewrite !app_length; lia).
    rewrite (app_assoc (skSeed ++ skPrf) pkSeed), skipn_app_exact by reflexivity.
    rewrite firstn_all2 by lia.
    apply verify_sign_internal; auto.
  Qed.
End TOP.
