(* HintBitPack / HintBitUnpack of the ML-DSA model (model/MldsaPoly.v):
   round trip, and strictness — HintBitUnpack accepts exactly the canonical
   encodings, so every hint vector has exactly one accepted encoding. *)
From Coq Require Import List ZArith NArith Bool Arith Lia.
From Tink Require Import Bytes MldsaPoly.
Import ListNotations.
Local Open Scope nat_scope.

Definition binary (p : poly) : Prop := Forall (fun c => c = 0%Z \/ c = 1%Z) p.
Definition weight (h : list poly) : nat := length (concat (map (nz_positions 0%N) h)).

(* ---- strictly increasing byte lists ---- *)
Lemma strict_inc_cons x l : strict_inc (x :: l) = true <->
  (match l with [] => True | y :: _ => (x < y)%N end) /\ strict_inc l = true.
Proof.
  destruct l as [|y l]; cbn [strict_inc].
  - tauto.
  - rewrite andb_true_iff, N.ltb_lt. tauto.
Qed.

Lemma strict_inc_lb x l : strict_inc (x :: l) = true -> Forall (fun y => (x < y)%N) l.
Proof.
  revert x. induction l as [|y l IH]; intros x H; [constructor|].
  apply strict_inc_cons in H. destruct H as [Hxy Hl]. constructor; [exact Hxy|].
  eapply Forall_impl; [|apply IH; exact Hl]. intros z Hz. cbv beta in *. lia.
Qed.

Lemma strict_inc_tail x l : strict_inc (x :: l) = true -> strict_inc l = true.
Proof. intros H. apply strict_inc_cons in H. tauto. Qed.

(* ---- nz_positions ---- *)
Lemma nz_positions_bounds p : forall s,
  Forall (fun x => (s <= x < s + N.of_nat (length p))%N) (nz_positions s p) /\
  strict_inc (nz_positions s p) = true.
Proof.
  induction p as [|c t IH]; intros s; [split; [constructor | reflexivity]|].
  cbn [nz_positions length]. destruct (IH (s + 1)%N) as [B SI0].
  assert (B' : Forall (fun x => (s + 1 <= x < s + N.of_nat (S (length t)))%N) (nz_positions (s + 1) t)).
  { eapply Forall_impl; [|exact B]. intros x Hx. cbv beta in *. lia. }
  destruct (Z.eqb c 0).
  - split; [|exact SI0]. eapply Forall_impl; [|exact B']. intros x Hx. cbv beta in *. lia.
  - split.
    + constructor; [lia|]. eapply Forall_impl; [|exact B']. intros x Hx. cbv beta in *. lia.
    + apply strict_inc_cons. split; [|exact SI0].
      destruct (nz_positions (s + 1) t) as [|y l] eqn:E; [exact I|].
      inversion B' as [|? ? Hy _]. lia.
Qed.

Lemma existsb_eqb_false (x : N) l : Forall (fun y => x <> y) l -> existsb (N.eqb x) l = false.
Proof.
  induction 1 as [|y l Hy _ IH]; [reflexivity|]. cbn [existsb]. rewrite IH.
  destruct (N.eqb_spec x y); [contradiction | reflexivity].
Qed.

(* decoding the positions of a 0/1 polynomial gives it back *)
Lemma poly_of_nz_gen p : binary p -> forall s,
  map (fun j => if existsb (N.eqb (N.of_nat j)) (nz_positions (N.of_nat s) p) then 1%Z else 0%Z)
      (seq s (length p)) = p.
Proof.
  induction 1 as [|c t Hc Ht IH]; intros s; [reflexivity|].
  cbn [length seq map nz_positions].
  replace (N.of_nat s + 1)%N with (N.of_nat (S s)) by lia.
  destruct (nz_positions_bounds t (N.of_nat (S s))) as [B _].
  assert (NS : existsb (N.eqb (N.of_nat s)) (nz_positions (N.of_nat (S s)) t) = false).
  { apply existsb_eqb_false. eapply Forall_impl; [|exact B]. intros x Hx. cbv beta in *. lia. }
  destruct Hc as [-> | ->]; cbn [Z.eqb].
  - rewrite NS. f_equal. apply IH.
  - cbn [existsb]. rewrite N.eqb_refl. cbn [orb]. f_equal.
    rewrite <- (IH (S s)) at 2. apply map_ext_in. intros j Hj. apply in_seq in Hj.
    cbn [existsb]. destruct (N.eqb_spec (N.of_nat j) (N.of_nat s)); [lia | reflexivity].
Qed.

Lemma poly_of_nz p : binary p -> length p = degree -> poly_of_positions (nz_positions 0%N p) = p.
Proof.
  intros Hb Hl. unfold poly_of_positions. rewrite <- Hl. exact (poly_of_nz_gen p Hb 0).
Qed.

(* the positions of a decoded row are the row, when it is strictly increasing *)
Lemma nz_of_poly_gen n : forall s row,
  strict_inc row = true ->
  Forall (fun x => (N.of_nat s <= x < N.of_nat (s + n))%N) row ->
  nz_positions (N.of_nat s)
    (map (fun j => if existsb (N.eqb (N.of_nat j)) row then 1%Z else 0%Z) (seq s n)) = row.
Proof.
  induction n as [|n IH]; intros s row Hs Hr.
  - destruct row as [|x r]; [reflexivity|]. inversion Hr as [|? ? Hx _]. lia.
  - cbn [seq map nz_positions].
    replace (N.of_nat s + 1)%N with (N.of_nat (S s)) by lia.
    destruct row as [|x r].
    + cbn [existsb Z.eqb]. apply (IH (S s) []); [reflexivity | constructor].
    + inversion Hr as [|? ? Hx Hr']. subst.
      pose proof (strict_inc_lb _ _ Hs) as LB.
      destruct (N.eqb_spec (N.of_nat s) x) as [E|NE].
      * cbn [existsb]. rewrite E, N.eqb_refl. cbn [orb Z.eqb]. f_equal.
        transitivity (nz_positions (N.of_nat (S s))
          (map (fun j => if existsb (N.eqb (N.of_nat j)) r then 1%Z else 0%Z) (seq (S s) n))).
        -- f_equal. apply map_ext_in. intros j Hj. apply in_seq in Hj.
           destruct (N.eqb_spec (N.of_nat j) x); [lia | reflexivity].
        -- apply IH; [eapply strict_inc_tail; eauto|].
           rewrite Forall_forall in *. intros y Hy. specialize (LB y Hy). specialize (Hr' y Hy). lia.
      * assert (F : existsb (N.eqb (N.of_nat s)) (x :: r) = false).
        { apply existsb_eqb_false. constructor; [exact NE|].
          eapply Forall_impl; [|exact LB]. intros y Hy. cbv beta in *. lia. }
        rewrite F. cbn [Z.eqb]. apply (IH (S s) (x :: r) Hs).
        constructor; [lia|]. rewrite Forall_forall in *. intros y Hy.
        specialize (LB y Hy). specialize (Hr' y Hy). lia.
Qed.

Lemma nz_of_poly row : strict_inc row = true -> wfb row ->
  nz_positions 0%N (poly_of_positions row) = row.
Proof.
  intros Hs Hw. unfold poly_of_positions. apply (nz_of_poly_gen degree 0 row Hs).
  eapply Forall_impl; [|exact Hw]. intros x Hx. cbv beta in *. unfold degree. lia.
Qed.

Lemma poly_of_positions_binary row : binary (poly_of_positions row).
Proof.
  unfold binary, poly_of_positions. apply Forall_map. apply Forall_forall. intros j _.
  destruct (existsb _ _); auto.
Qed.

Lemma poly_of_positions_length row : length (poly_of_positions row) = degree.
Proof. unfold poly_of_positions. rewrite map_length, seq_length. reflexivity. Qed.

(* ---- counts ---- *)
Lemma hint_counts_length index rows : length (hint_counts index rows) = length rows.
Proof. revert index; induction rows; intros; simpl; auto. Qed.

(* ---- the row loop on a canonical encoding ---- *)
Lemma hint_rows_canonical omega : omega <= 255 -> forall rows pre post,
  Forall (fun r => strict_inc r = true) rows ->
  length pre + length (concat rows) <= omega ->
  hint_rows omega (pre ++ concat rows ++ post) (hint_counts (length pre) rows) (length pre) =
  Ok (map poly_of_positions rows, length pre + length (concat rows)).
Proof.
  intros Ho. induction rows as [|r rows IH]; intros pre post Hs Hl.
  - cbn [hint_counts hint_rows map concat length]. rewrite Nat.add_0_r. reflexivity.
  - inversion Hs as [|? ? Hr Hs']. subst.
    cbn [concat] in *. rewrite app_length in Hl.
    cbn [hint_counts hint_rows].
    set (e := length pre + length r).
    rewrite N.mod_small by lia. rewrite Nat2N.id.
    replace (Nat.ltb e (length pre)) with false by (symmetry; apply Nat.ltb_ge; lia).
    replace (Nat.ltb omega e) with false by (symmetry; apply Nat.ltb_ge; lia).
    cbn [orb].
    replace (firstn (e - length pre) (skipn (length pre) (pre ++ (r ++ concat rows) ++ post))) with r.
    2:{ rewrite skipn_app, skipn_all, Nat.sub_diag. cbn [skipn app].
        rewrite <- app_assoc. rewrite firstn_app. replace (e - length pre) with (length r) by lia.
        rewrite firstn_all, Nat.sub_diag, firstn_O, app_nil_r. reflexivity. }
    rewrite Hr.
    specialize (IH (pre ++ r) post Hs').
    rewrite app_length in IH. fold e in IH.
    replace ((pre ++ r) ++ concat rows ++ post) with (pre ++ (r ++ concat rows) ++ post) in IH
      by (rewrite <- !app_assoc; reflexivity).
    rewrite IH by lia. cbn [map]. f_equal. f_equal. rewrite app_length. unfold e. lia.
Qed.

Lemma forallb_zeros n : forallb (N.eqb 0%N) (zeros n) = true.
Proof. unfold zeros. induction n; simpl; auto. Qed.

Lemma forallb_zero_is_zeros l : forallb (N.eqb 0%N) l = true -> l = zeros (length l).
Proof.
  unfold zeros. induction l as [|x l IH]; [reflexivity|]. cbn [forallb length repeat].
  rewrite andb_true_iff. intros [Hx Hl]. apply N.eqb_eq in Hx. subst. f_equal. auto.
Qed.

(* Round trip: every hint vector of weight <= omega decodes from its encoding *)
Theorem hintBitUnpack_hintBitPack omega k h :
  omega <= 255 -> length h = k ->
  Forall (fun p => binary p /\ length p = degree) h ->
  weight h <= omega ->
  hintBitUnpack omega k (hintBitPack omega h) = Ok h.
Proof.
  intros Ho Hk Hh Hw. unfold hintBitUnpack, hintBitPack, weight in *.
  set (rows := map (nz_positions 0%N) h) in *.
  set (idx := concat rows) in *.
  assert (Hlen : length (idx ++ zeros (omega - length idx) ++ hint_counts 0 rows) = omega + k).
  { rewrite !app_length, zeros_length, hint_counts_length. unfold rows. rewrite map_length. lia. }
  rewrite Hlen, Nat.eqb_refl. cbn [negb].
  assert (F : firstn omega (idx ++ zeros (omega - length idx) ++ hint_counts 0 rows) =
              idx ++ zeros (omega - length idx)).
  { rewrite app_assoc. rewrite firstn_app.
    rewrite app_length, zeros_length. replace (omega - (length idx + (omega - length idx))) with 0 by lia.
    rewrite firstn_O, app_nil_r. apply firstn_all2. rewrite app_length, zeros_length. lia. }
  assert (SK : skipn omega (idx ++ zeros (omega - length idx) ++ hint_counts 0 rows) = hint_counts 0 rows).
  { rewrite app_assoc. rewrite skipn_app.
    rewrite app_length, zeros_length. replace (omega - (length idx + (omega - length idx))) with 0 by lia.
    rewrite skipn_all2 by (rewrite app_length, zeros_length; lia). reflexivity. }
  rewrite F, SK.
  pose proof (hint_rows_canonical omega Ho rows [] (zeros (omega - length idx))) as R.
  cbn [app length Nat.add] in R. fold idx in R. rewrite R.
  - rewrite skipn_app, skipn_all, Nat.sub_diag. cbn [skipn app]. rewrite forallb_zeros.
    f_equal. unfold rows. rewrite map_map. rewrite <- (map_id h) at 2. apply map_ext_in.
    intros p Hp. rewrite Forall_forall in Hh. destruct (Hh p Hp). apply poly_of_nz; auto.
  - unfold rows. apply Forall_map. apply Forall_forall. intros p _. apply nz_positions_bounds.
  - exact Hw.
Qed.

Lemma skipn_add {A} a b (l : list A) : skipn a (skipn b l) = skipn (a + b) l.
Proof.
  revert l. induction b as [|b IH]; intros l; [rewrite Nat.add_0_r; reflexivity|].
  destruct l as [|x l]; [rewrite !skipn_nil; reflexivity|].
  rewrite Nat.add_succ_r. cbn [skipn]. apply IH.
Qed.

Lemma firstn_add_split {A} a b (l : list A) : firstn (a + b) l = firstn a l ++ firstn b (skipn a l).
Proof.
  revert l. induction a as [|a IH]; intros l; [reflexivity|].
  destruct l as [|x l]; [destruct b; reflexivity|]. cbn [Nat.add firstn skipn app]. f_equal. apply IH.
Qed.

(* ---- strictness: whatever decodes is the canonical encoding ---- *)
Lemma hint_rows_sound omega idx : wfb idx -> length idx = omega -> forall cnts index ps fin,
  wfb cnts -> index <= omega ->
  hint_rows omega idx cnts index = Ok (ps, fin) ->
  exists rows,
    ps = map poly_of_positions rows /\
    Forall (fun r => strict_inc r = true /\ wfb r) rows /\
    index <= fin /\ fin <= omega /\
    concat rows = firstn (fin - index) (skipn index idx) /\
    cnts = hint_counts index rows.
Proof.
  intros Hw Hlen. induction cnts as [|e t IH]; intros index ps fin Hc Hi H.
  - cbn [hint_rows] in H. inversion H; subst. exists []. repeat split; auto; try lia.
    rewrite Nat.sub_diag. reflexivity.
  - cbn [hint_rows] in H. inversion Hc as [|? ? He Hc']. subst.
    destruct (Nat.ltb (N.to_nat e) index || Nat.ltb (length idx) (N.to_nat e))%bool eqn:E; [discriminate|].
    apply orb_false_iff in E. destruct E as [E1 E2]. apply Nat.ltb_ge in E1, E2.
    destruct (strict_inc _) eqn:SI; [|discriminate].
    destruct (hint_rows (length idx) idx t (N.to_nat e)) as [[ps' fin']| |] eqn:R; try discriminate.
    inversion H; subst. clear H.
    destruct (IH _ _ _ Hc' E2 R) as (rows & -> & Hrows & Hfin1 & Hfin2 & Hcat & Hcnt).
    set (row := firstn (N.to_nat e - index) (skipn index idx)) in *.
    assert (Lrow : length row = N.to_nat e - index).
    { unfold row. rewrite firstn_length, skipn_length. lia. }
    exists (row :: rows). repeat split.
    + constructor; [split; [exact SI|]|exact Hrows].
      unfold row. apply wfb_firstn, wfb_skipn. exact Hw.
    + lia.
    + lia.
    + cbn [concat]. rewrite Hcat. unfold row.
      assert (SK : skipn (N.to_nat e) idx = skipn (N.to_nat e - index) (skipn index idx)).
      { rewrite skipn_add. f_equal. lia. }
      rewrite SK, <- firstn_add_split. f_equal. lia.
    + cbn [hint_counts]. rewrite Lrow.
      replace (index + (N.to_nat e - index)) with (N.to_nat e) by lia.
      rewrite N2Nat.id. rewrite N.mod_small by exact He. f_equal. exact Hcnt.
Qed.

Theorem hintBitUnpack_strict omega k enc h :
  wfb enc -> hintBitUnpack omega k enc = Ok h ->
  enc = hintBitPack omega h /\ weight h <= omega /\ length h = k /\
  Forall (fun p => binary p /\ length p = degree) h.
Proof.
  intros Hw H. unfold hintBitUnpack in H.
  destruct (Nat.eqb (length enc) (omega + k)) eqn:L; [|discriminate]. apply Nat.eqb_eq in L.
  cbn [negb] in H.
  set (idx := firstn omega enc) in *. set (cnts := skipn omega enc) in *.
  assert (Li : length idx = omega) by (unfold idx; rewrite firstn_length; lia).
  assert (Lc : length cnts = k) by (unfold cnts; rewrite skipn_length; lia).
  destruct (hint_rows omega idx cnts 0) as [[ps fin]| |] eqn:R; try discriminate.
  destruct (forallb (N.eqb 0%N) (skipn fin idx)) eqn:Z; [|discriminate].
  inversion H; subst ps. clear H.
  destruct (hint_rows_sound omega idx (wfb_firstn _ _ Hw) Li cnts 0 h fin (wfb_skipn _ _ Hw) ltac:(lia) R)
    as (rows & -> & Hrows & _ & Hfin & Hcat & Hcnt).
  rewrite Nat.sub_0_r in Hcat. cbn [skipn] in Hcat.
  assert (Hnz : map (nz_positions 0%N) (map poly_of_positions rows) = rows).
  { rewrite map_map. rewrite <- (map_id rows) at 2. apply map_ext_in. intros r Hr.
    rewrite Forall_forall in Hrows. destruct (Hrows r Hr). apply nz_of_poly; auto. }
  assert (Lcat : length (concat rows) = fin).
  { rewrite Hcat, firstn_length. lia. }
  repeat split.
  - unfold hintBitPack. rewrite Hnz.
    rewrite <- (firstn_skipn omega enc) at 1. fold idx cnts.
    rewrite <- (firstn_skipn fin idx) at 1. rewrite <- Hcat.
    rewrite <- app_assoc. f_equal. rewrite Lcat.
    rewrite (forallb_zero_is_zeros _ Z). rewrite skipn_length, Li. f_equal. exact Hcnt.
  - unfold weight. rewrite Hnz, Lcat. exact Hfin.
  - rewrite map_length. rewrite Hcnt in Lc. rewrite hint_counts_length in Lc. exact Lc.
  - apply Forall_map. apply Forall_forall. intros r _.
    split; [apply poly_of_positions_binary | apply poly_of_positions_length].
Qed.

(* consequences: a hint vector has at most one accepted encoding ... *)
Corollary hintBitUnpack_injective omega k e1 e2 h :
  wfb e1 -> wfb e2 -> hintBitUnpack omega k e1 = Ok h -> hintBitUnpack omega k e2 = Ok h -> e1 = e2.
Proof.
  intros W1 W2 H1 H2.
  destruct (hintBitUnpack_strict _ _ _ _ W1 H1) as [-> _].
  destruct (hintBitUnpack_strict _ _ _ _ W2 H2) as [-> _]. reflexivity.
Qed.

(* ... and the iff form: accepted <-> canonical encoding of a vector of weight <= omega *)
Theorem hintBitUnpack_iff omega k enc h :
  omega <= 255 -> wfb enc ->
  (hintBitUnpack omega k enc = Ok h <->
   enc = hintBitPack omega h /\ weight h <= omega /\ length h = k /\
   Forall (fun p => binary p /\ length p = degree) h).
Proof.
  intros Ho Hw. split.
  - apply hintBitUnpack_strict; auto.
  - intros (-> & W & L & B). apply hintBitUnpack_hintBitPack; auto.
Qed.
