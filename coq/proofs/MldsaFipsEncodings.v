(* FIPS 204 Algorithms 20-28 (HintBitPack, HintBitUnpack, pkEncode, pkDecode,
   skEncode, skDecode, sigEncode, sigDecode, w1Encode) of model/MldsaFips.v
   equal the encodings of the implementation model (model/MldsaPoly.v,
   model/Mldsa.v), byte for byte.  The standard's signed coefficients
   (s1, s2, t0, z mod+- q) correspond to the canonical representatives of the
   implementation model (x |-> x mod q). *)
From Coq Require Import List ZArith NArith Bool Arith Lia ZifyN ZifyNat ZifyBool.
From Tink Require Import Bytes Wrap MldsaScalar MldsaScalarProofs MldsaScalarProofs2 MldsaTableProofs
  MldsaKernels MldsaKernelsProofs MldsaPoly Mldsa MldsaPackProofs MldsaHintProofs MldsaNttProofs
  MldsaAlgebraProofs MldsaProofs MldsaConvProofs MldsaNormProofs MldsaSampleProofs MldsaSignVerifyProofs
  MldsaKeyCodecProofs MldsaVerifyIffProofs MldsaFips MldsaFipsBasics MldsaFipsSampling.
Import ListNotations.
Local Open Scope Z_scope.

(* ------------------------------------------------------------------ *)
(* Algorithm 20                                                         *)
(* ------------------------------------------------------------------ *)
Lemma set_nth_app_mid {A} (pre : list A) v x rest :
  FIPS.set_nth (length pre) v (pre ++ x :: rest) = pre ++ v :: rest.
Proof. induction pre as [|y pre IH]; cbn; [reflexivity | f_equal; exact IH]. Qed.

Lemma zeros_S n : zeros (S n) = 0%N :: zeros n.
Proof. reflexivity. Qed.

Lemma zeros_app n m : zeros (n + m) = zeros n ++ zeros m.
Proof. unfold zeros. apply repeat_app. Qed.

Definition hbp_inner (p : poly) :=
  fun (j : nat) '((y, Index) : bytes * nat) =>
    if nth j p 0 =? 0 then (y, Index) else (FIPS.set_nth Index (N.of_nat j) y, S Index).

Lemma hbp_inner_eq p post : length p = 256%nat -> forall cnt j0 pre r, (j0 + cnt = 256)%nat ->
  (length (nz_positions (N.of_nat j0) (skipn j0 p)) <= r)%nat ->
  FIPS.for_ j0 cnt (hbp_inner p) (pre ++ zeros r ++ post, length pre) =
  (pre ++ nz_positions (N.of_nat j0) (skipn j0 p) ++
     zeros (r - length (nz_positions (N.of_nat j0) (skipn j0 p))) ++ post,
   (length pre + length (nz_positions (N.of_nat j0) (skipn j0 p)))%nat).
Proof.
  intros Lp. induction cnt as [|cnt IH]; intros j0 pre r Hj Hr.
  - rewrite skipn_all2 by lia. cbn [FIPS.for_ nz_positions app length]. rewrite Nat.sub_0_r, Nat.add_0_r. reflexivity.
  - cbn [FIPS.for_]. unfold hbp_inner at 2.
    rewrite (skipn_cons_nth p j0 0) in * by lia. cbn [nz_positions] in *.
    replace (N.of_nat j0 + 1)%N with (N.of_nat (S j0)) in * by lia.
    destruct (nth j0 p 0 =? 0).
    + apply IH; [lia | exact Hr].
    + cbn [length] in Hr. destruct r as [|r]; [lia|].
      rewrite zeros_S. cbn [app]. rewrite set_nth_app_mid.
      replace (pre ++ N.of_nat j0 :: zeros r ++ post) with ((pre ++ [N.of_nat j0]) ++ zeros r ++ post)
        by (rewrite <- app_assoc; reflexivity).
      replace (S (length pre)) with (length (pre ++ [N.of_nat j0])) by (rewrite app_length; cbn [length]; lia).
      rewrite IH by lia. rewrite app_length. cbn [length app]. rewrite <- !app_assoc. cbn [app].
      f_equal. lia.
Qed.

Definition hbp_outer (P : FIPS.params) (h : list poly) :=
  fun (i : nat) '((y, Index) : bytes * nat) =>
    let '(y, Index) := FIPS.for_ 0 256 (hbp_inner (nth i h [])) (y, Index) in
    (FIPS.set_nth (FIPS.omega P + i) (N.of_nat Index) y, Index).

Lemma hint_counts_app index a b :
  hint_counts index (a ++ b) = hint_counts index a ++ hint_counts (index + length (concat a)) b.
Proof.
  revert index. induction a as [|r a IH]; intros index; cbn [app hint_counts concat length]; [rewrite Nat.add_0_r; reflexivity|].
  f_equal. rewrite IH. rewrite app_length. f_equal. f_equal. lia.
Qed.

Lemma hbp_outer_eq P h : Forall (fun p => length p = 256%nat) h -> (FIPS.omega P <= 255)%nat ->
  forall cnt i A C, (i + cnt = length h)%nat -> length C = i ->
  (length A + length (concat (map (nz_positions 0%N) (skipn i h))) <= FIPS.omega P)%nat ->
  fst (FIPS.for_ i cnt (hbp_outer P h) (A ++ zeros (FIPS.omega P - length A) ++ C ++ zeros cnt, length A)) =
  let rows := map (nz_positions 0%N) (skipn i h) in
  A ++ concat rows ++ zeros (FIPS.omega P - length A - length (concat rows)) ++ C ++ hint_counts (length A) rows.
Proof.
  intros Fh Ho. induction cnt as [|cnt IH]; intros i A C Hi LC Hw.
  - rewrite skipn_all2 by lia. cbn [FIPS.for_ fst map concat app length hint_counts].
    rewrite Nat.sub_0_r. reflexivity.
  - cbn [FIPS.for_]. unfold hbp_outer at 2.
    rewrite (skipn_cons_nth h i []) in * by lia. cbn [map concat] in *. cbv zeta.
    set (p := nth i h []) in *. set (row := nz_positions 0%N p) in *.
    assert (Lp : length p = 256%nat).
    { rewrite Forall_forall in Fh. apply Fh. unfold p. apply nth_In. lia. }
    rewrite app_length in Hw.
    pose proof (hbp_inner_eq p (C ++ zeros (S cnt)) Lp 256 0 A (FIPS.omega P - length A) eq_refl) as E.
    cbn [skipn] in E. change (N.of_nat 0) with 0%N in E. fold row in E.
    match goal with |- context [FIPS.for_ 0 256 ?b ?st] => rewrite (E ltac:(lia) : FIPS.for_ 0 256 b st = _) end. clear E.
    (* the count byte *)
    rewrite zeros_S.
    replace (A ++ row ++ zeros (FIPS.omega P - length A - length row) ++ C ++ 0%N :: zeros cnt)
      with ((A ++ row ++ zeros (FIPS.omega P - length A - length row) ++ C) ++ 0%N :: zeros cnt)
      by (rewrite <- !app_assoc; reflexivity).
    replace (FIPS.omega P + i)%nat with (length (A ++ row ++ zeros (FIPS.omega P - length A - length row) ++ C))
      by (rewrite !app_length, zeros_length; lia).
    rewrite set_nth_app_mid.
    set (A' := A ++ row). set (c := N.of_nat (length A + length row)).
    replace ((A ++ row ++ zeros (FIPS.omega P - length A - length row) ++ C) ++ c :: zeros cnt)
      with (A' ++ zeros (FIPS.omega P - length A') ++ (C ++ [c]) ++ zeros cnt).
    2:{ unfold A'. rewrite app_length, <- !app_assoc. cbn [app]. do 3 f_equal. f_equal. lia. }
    replace (length A + length row)%nat with (length A') by (unfold A'; rewrite app_length; reflexivity).
    rewrite IH; [| lia | rewrite app_length; cbn [length]; lia | unfold A'; rewrite app_length; lia].
    cbv zeta. unfold A'. rewrite !app_length, <- !app_assoc. cbn [app hint_counts].
    do 2 f_equal. f_equal. f_equal; [f_equal; lia|]. f_equal. f_equal.
    unfold c. rewrite N.mod_small by lia. reflexivity.
Qed.

Theorem HintBitPack_eq P h : length h = p_k P -> Forall (fun p => length p = 256%nat) h ->
  (p_omega P <= 255)%nat -> (weight h <= p_omega P)%nat ->
  FIPS.HintBitPack (fips_of P) h = hintBitPack (p_omega P) h.
Proof.
  intros Lh Fh Ho Hw. unfold FIPS.HintBitPack, hintBitPack, weight in *. cbn [FIPS.k FIPS.omega fips_of].
  pose proof (hbp_outer_eq (fips_of P) h Fh Ho (p_k P) 0 [] [] ltac:(cbn; lia) eq_refl) as E.
  cbn [skipn app length FIPS.omega fips_of] in E. rewrite Nat.sub_0_r in E.
  replace (repeat 0%N (p_omega P + p_k P)) with (zeros (p_omega P) ++ zeros (p_k P)) by (rewrite <- zeros_app; reflexivity).
  etransitivity; [exact (E ltac:(cbn [length]; lia))|]. reflexivity.
Qed.

(* ------------------------------------------------------------------ *)
(* Algorithm 21                                                         *)
(* ------------------------------------------------------------------ *)
Definition set_pos (hi : poly) (b : N) : poly := FIPS.set_nth (N.to_nat b) 1 hi.

Lemma hbu_row_prev (y : bytes) First : forall n Index hi, (First < Index)%nat -> (Index + n <= length y)%nat ->
  FIPS.HintBitUnpack_row n y First Index hi =
  if strict_inc (nth (Index - 1) y 0%N :: firstn n (skipn Index y))
  then Some (fold_left set_pos (firstn n (skipn Index y)) hi, (Index + n)%nat) else None.
Proof.
  induction n as [|n IH]; intros Index hi HF HL.
  - cbn [FIPS.HintBitUnpack_row firstn strict_inc fold_left]. rewrite Nat.add_0_r. reflexivity.
  - cbn [FIPS.HintBitUnpack_row]. rewrite (skipn_cons_nth y Index 0%N) by lia.
    replace (Nat.ltb First Index) with true by (symmetry; apply Nat.ltb_lt; exact HF). cbn [andb firstn].
    set (p := nth (Index - 1) y 0%N). set (c := nth Index y 0%N).
    change (strict_inc (p :: c :: firstn n (skipn (S Index) y))) with
      (N.ltb p c && strict_inc (c :: firstn n (skipn (S Index) y)))%bool.
    replace (N.ltb p c) with (negb (N.leb c p)) by (destruct (N.leb c p) eqn:E; cbn [negb]; symmetry;
      [apply N.ltb_ge; apply N.leb_le in E; exact E | apply N.ltb_lt; apply N.leb_gt in E; exact E]).
    destruct (N.leb c p); cbn [negb andb]; [reflexivity|].
    rewrite IH by lia. replace (S Index - 1)%nat with Index by lia. fold c.
    cbn [fold_left]. replace (S Index + n)%nat with (Index + S n)%nat by lia. reflexivity.
Qed.

Lemma hbu_row_eq (y : bytes) First n hi : (First + n <= length y)%nat ->
  FIPS.HintBitUnpack_row n y First First hi =
  if strict_inc (firstn n (skipn First y))
  then Some (fold_left set_pos (firstn n (skipn First y)) hi, (First + n)%nat) else None.
Proof.
  intros HL. destruct n as [|n].
  - cbn [FIPS.HintBitUnpack_row firstn strict_inc fold_left]. rewrite Nat.add_0_r. reflexivity.
  - cbn [FIPS.HintBitUnpack_row]. rewrite Nat.ltb_irrefl. cbn [andb].
    rewrite (skipn_cons_nth y First 0%N) by lia. cbn [firstn fold_left].
    rewrite hbu_row_prev by lia. replace (S First - 1)%nat with First by lia.
    replace (S First + n)%nat with (First + S n)%nat by lia. reflexivity.
Qed.

Lemma nth_poly_of_positions row j : (j < 256)%nat ->
  nth j (poly_of_positions row) 0 = if existsb (N.eqb (N.of_nat j)) row then 1 else 0.
Proof.
  intros Hj. unfold poly_of_positions.
  rewrite (nth_indep _ 0 ((fun j => if existsb (N.eqb (N.of_nat j)) row then 1 else 0) 0%nat))
    by (rewrite map_length, seq_length; exact Hj).
  rewrite (map_nth (fun j => if existsb (N.eqb (N.of_nat j)) row then 1 else 0)), seq_nth by exact Hj. reflexivity.
Qed.

Lemma upd_overflow {A} i (v : A) l : (length l <= i)%nat -> upd i v l = l.
Proof. revert i; induction l as [|x l IH]; intros [|i] H; cbn in *; try lia; auto. f_equal. apply IH. lia. Qed.

Lemma set_pos_poly_of_positions pre b : set_pos (poly_of_positions pre) b = poly_of_positions (pre ++ [b]).
Proof.
  unfold set_pos. change (@FIPS.set_nth Z) with (@upd Z).
  apply (nth_ext _ _ 0 0); [rewrite upd_length, !poly_of_positions_length; reflexivity|].
  rewrite upd_length, poly_of_positions_length. unfold degree. intros j Hj.
  rewrite (nth_poly_of_positions (pre ++ [b])) by exact Hj. rewrite existsb_app. cbn [existsb]. rewrite orb_false_r.
  destruct (Nat.lt_ge_cases (N.to_nat b) 256) as [Hb | Hb].
  - rewrite nth_upd by (rewrite poly_of_positions_length; exact Hb).
    rewrite nth_poly_of_positions by exact Hj.
    destruct (Nat.eqb j (N.to_nat b)) eqn:E; [apply Nat.eqb_eq in E | apply Nat.eqb_neq in E].
    + replace (N.eqb (N.of_nat j) b) with true by (symmetry; apply N.eqb_eq; lia). rewrite orb_true_r. reflexivity.
    + replace (N.eqb (N.of_nat j) b) with false by (symmetry; apply N.eqb_neq; lia). rewrite orb_false_r. reflexivity.
  - rewrite upd_overflow by (rewrite poly_of_positions_length; exact Hb).
    rewrite nth_poly_of_positions by exact Hj.
    replace (N.eqb (N.of_nat j) b) with false by (symmetry; apply N.eqb_neq; lia). rewrite orb_false_r. reflexivity.
Qed.

Lemma fold_set_pos row : forall pre, fold_left set_pos row (poly_of_positions pre) = poly_of_positions (pre ++ row).
Proof.
  induction row as [|b row IH]; intros pre; cbn [fold_left]; [rewrite app_nil_r; reflexivity|].
  rewrite set_pos_poly_of_positions, IH, <- app_assoc. reflexivity.
Qed.

Lemma fold_set_pos_zero row : fold_left set_pos row (repeat 0 256) = poly_of_positions row.
Proof. change (repeat 0 256) with (poly_of_positions []). apply fold_set_pos. Qed.

Lemma hint_rows_fin omega idx : forall c index ps fin, (index <= omega)%nat ->
  hint_rows omega idx c index = Ok (ps, fin) -> (fin <= omega)%nat.
Proof.
  induction c as [|e c IH]; intros index ps fin Hi H; cbn [hint_rows] in H; [inversion H; subst; exact Hi|].
  destruct (Nat.ltb (N.to_nat e) index || Nat.ltb omega (N.to_nat e))%bool eqn:EC; [discriminate|].
  apply orb_false_iff in EC. destruct EC as [_ E2]. apply Nat.ltb_ge in E2.
  destruct (strict_inc _); [|discriminate].
  destruct (hint_rows omega idx c (N.to_nat e)) as [[ps' fin']| |] eqn:R; try discriminate.
  inversion H; subst. eapply IH; [|exact R]. exact E2.
Qed.

Section HintUnpack.
  Variable P : params.
  Variable y : bytes.
  Hypothesis Ly : length y = (p_omega P + p_k P)%nat.
  Let omega := p_omega P.
  Let idx := firstn omega y.
  Let cnts := skipn omega y.

  Definition hbu_body (i : nat) (st : option (list poly * nat)) : option (list poly * nat) :=
    FIPS.obind st (fun '(h, Index) =>
      let e := N.to_nat (nth (omega + i) y 0%N) in
      if Nat.ltb e Index || Nat.ltb omega e then None else
      let First := Index in
      FIPS.obind (FIPS.HintBitUnpack_row (e - Index) y First Index (repeat 0 256)) (fun '(hi, Index) =>
        Some (h ++ [hi], Index))).

  Lemma hbu_rows_eq : forall cnt i h0 Index, (i + cnt = p_k P)%nat -> (Index <= omega)%nat ->
    FIPS.for_ i cnt hbu_body (Some (h0, Index)) =
    match hint_rows omega idx (skipn i cnts) Index with
    | Ok (ps, fin) => Some (h0 ++ ps, fin)
    | _ => None
    end.
  Proof.
    assert (Lc : length cnts = p_k P) by (unfold cnts; rewrite skipn_length; unfold omega; lia).
    induction cnt as [|cnt IH]; intros i h0 Index Hi HI.
    - rewrite skipn_all2 by lia. cbn [FIPS.for_ hint_rows]. rewrite app_nil_r. reflexivity.
    - cbn [FIPS.for_]. unfold hbu_body at 2. cbn [FIPS.obind].
      rewrite (skipn_cons_nth cnts i 0%N) by lia. cbn [hint_rows].
      replace (nth i cnts 0%N) with (nth (omega + i) y 0%N) by (unfold cnts; rewrite nth_skipn; reflexivity).
      set (e := N.to_nat (nth (omega + i) y 0%N)).
      destruct (Nat.ltb e Index || Nat.ltb omega e)%bool eqn:EC.
      { unfold hbu_body. rewrite for_opt_none. reflexivity. }
      apply orb_false_iff in EC. destruct EC as [E1 E2]. apply Nat.ltb_ge in E1, E2.
      rewrite hbu_row_eq by lia.
      replace (firstn (e - Index) (skipn Index idx)) with (firstn (e - Index) (skipn Index y)).
      2:{ unfold idx. rewrite skipn_firstn_comm, firstn_firstn. f_equal. lia. }
      destruct (strict_inc (firstn (e - Index) (skipn Index y))); cbn [FIPS.obind].
      + rewrite fold_set_pos_zero. replace (Index + (e - Index))%nat with e by lia.
        rewrite IH by lia.
        destruct (hint_rows omega idx (skipn (S i) cnts) e) as [[ps fin]| |]; [|reflexivity|reflexivity].
        rewrite <- app_assoc. reflexivity.
      + unfold hbu_body. rewrite for_opt_none. reflexivity.
  Qed.

  Lemma hbu_tail_eq (h : list poly) : forall cnt Index, (Index + cnt <= length y)%nat ->
    FIPS.for_ Index cnt (fun i r => FIPS.obind r (fun h => if N.eqb (nth i y 0%N) 0 then Some h else None)) (Some h) =
    if forallb (N.eqb 0%N) (firstn cnt (skipn Index y)) then Some h else None.
  Proof.
    induction cnt as [|cnt IH]; intros Index HL; [reflexivity|].
    cbn [FIPS.for_ FIPS.obind]. rewrite (skipn_cons_nth y Index 0%N) by lia. cbn [firstn forallb].
    rewrite (N.eqb_sym 0%N). destruct (N.eqb (nth Index y 0%N) 0); cbn [andb].
    - apply IH. lia.
    - apply (for_opt_none (fun i h => if N.eqb (nth i y 0%N) 0 then Some h else None)).
  Qed.

  Theorem HintBitUnpack_eq :
    FIPS.HintBitUnpack (fips_of P) y =
    match hintBitUnpack (p_omega P) (p_k P) y with Ok h => Some h | _ => None end.
  Proof.
    unfold FIPS.HintBitUnpack, hintBitUnpack. cbn [FIPS.k FIPS.omega fips_of].
    rewrite Ly, Nat.eqb_refl. cbn [negb]. fold omega idx cnts.
    pose proof (hbu_rows_eq (p_k P) 0 [] 0 eq_refl ltac:(lia)) as E. unfold hbu_body in E. cbn [skipn app] in E.
    match goal with |- FIPS.obind ?X _ = _ =>
      replace X with (match hint_rows omega idx cnts 0 with Ok (ps, fin) => Some (ps, fin) | _ => None end)
        by (symmetry; exact E) end. clear E.
    destruct (hint_rows omega idx cnts 0) as [[ps fin]| |] eqn:ER; cbn [FIPS.obind]; [|reflexivity|reflexivity].
    assert (Hfin : (fin <= omega)%nat) by (eapply hint_rows_fin; [|exact ER]; lia).
    rewrite hbu_tail_eq by (unfold omega in *; lia).
    replace (firstn (omega - fin) (skipn fin y)) with (skipn fin idx)
      by (unfold idx; rewrite skipn_firstn_comm; reflexivity).
    destruct (forallb (N.eqb 0%N) (skipn fin idx)); reflexivity.
  Qed.
End HintUnpack.

(* ------------------------------------------------------------------ *)
(* Algorithms 22-28                                                     *)
(* ------------------------------------------------------------------ *)
Lemma pieces_as_slices n cnt o (X : bytes) :
  pieces n cnt (skipn o X) = map (fun i => FIPS.sl X (o + i * n) (o + i * n + n)) (seq 0 cnt).
Proof.
  unfold pieces. apply map_ext. intros i. rewrite sl_firstn_skipn, skipn_add. f_equal. f_equal. lia.
Qed.

Lemma slice_length (X : bytes) o n i cnt : (i < cnt)%nat -> (o + cnt * n <= length X)%nat ->
  length (FIPS.sl X (o + i * n) (o + i * n + n)) = n.
Proof. intros Hi HL. rewrite sl_firstn_skipn, firstn_length, skipn_length. nia. Qed.

Lemma for_concat {A} (g : A -> bytes) (v : list A) d n z0 : length v = n ->
  FIPS.for_ 0 n (fun i z => z ++ g (nth i v d)) z0 = z0 ++ concat (map g v).
Proof. intros L. rewrite (for_append (fun i => g (nth i v d))). f_equal. f_equal. exact (map_nth_seq_n g v d n L). Qed.

Lemma t1_width : FIPS.bitlen (2 ^ (Z.of_nat (FIPS.bitlen (FIPS.q - 1)) - FIPS.d) - 1) = t1Bits /\
  (32 * (FIPS.bitlen (FIPS.q - 1) - Z.to_nat FIPS.d))%nat = (32 * t1Bits)%nat /\
  FIPS.bitlen (2 ^ (FIPS.d - 1) - 1 + 2 ^ (FIPS.d - 1)) = dBits /\ (32 * Z.to_nat FIPS.d)%nat = (32 * dBits)%nat /\
  2 ^ (FIPS.d - 1) = 4096 /\ Z.shiftl 1 (mldsa_d - 1) = 4096.
Proof. repeat split; reflexivity. Qed.

Theorem w1Encode_eq P (FF : ffacts P) w1 : length w1 = p_k P -> Forall (fun p => length p = 256%nat) w1 ->
  FIPS.w1Encode (fips_of P) w1 = w1Encode P w1.
Proof.
  intros L F. destruct FF as [_ _ W _ _]. unfold FIPS.w1Encode, w1Encode. cbn [FIPS.k FIPS.gamma2 fips_of].
  rewrite (for_concat (fun p => FIPS.SimpleBitPack p ((FIPS.q - 1) / (2 * p_gamma2 P) - 1)) w1 [] (p_k P) [] L).
  cbn [app]. f_equal. apply map_ext_in. intros p Hp. rewrite Forall_forall in F.
  rewrite SimpleBitPack_eq by (apply F; exact Hp). rewrite W. reflexivity.
Qed.

Theorem pkEncode_eq P rho t1 : length rho = 32%nat -> length t1 = p_k P -> Forall (fun p => length p = 256%nat) t1 ->
  FIPS.pkEncode (fips_of P) rho t1 = pkEncodeRaw rho t1.
Proof.
  intros Lr L F. destruct t1_width as (W1 & _). unfold FIPS.pkEncode, pkEncodeRaw. cbn [FIPS.k fips_of].
  rewrite (for_concat (fun p => FIPS.SimpleBitPack p (2 ^ (Z.of_nat (FIPS.bitlen (FIPS.q - 1)) - FIPS.d) - 1)) t1 [] (p_k P) rho L).
  rewrite (firstn_pad_exact 32 rho Lr). f_equal. f_equal. apply map_ext_in. intros p Hp. rewrite Forall_forall in F.
  rewrite SimpleBitPack_eq by (apply F; exact Hp). rewrite W1. reflexivity.
Qed.

Theorem pkDecode_eq (H : bytes -> nat -> bytes) P enc : length enc = publicKeyLength P ->
  pkDecode H P enc = Some (mkPK (fst (FIPS.pkDecode (fips_of P) enc)) (snd (FIPS.pkDecode (fips_of P) enc)) (H enc 64%nat)).
Proof.
  intros L. destruct t1_width as (W1 & W2 & _). unfold pkDecode, FIPS.pkDecode. rewrite L, Nat.eqb_refl.
  cbn [negb fst snd FIPS.k fips_of]. f_equal. f_equal.
  rewrite array_map, W2, pieces_as_slices, map_map. apply map_ext_in. intros i Hi. apply in_seq in Hi.
  rewrite SimpleBitUnpack_eq; rewrite W1; [reflexivity | unfold t1Bits; cbn; lia |].
  apply (slice_length enc 32 (32 * t1Bits) i (p_k P)); [lia|]. rewrite L. unfold publicKeyLength. lia.
Qed.

Definition sranges (B1 B2 : Z) (v : list poly) : Prop :=
  Forall (fun p => length p = 256%nat /\ Forall (fun x => B1 <= x <= B2) p) v.

Lemma map_BitPack_eq a b c v : 0 <= b < q -> FIPS.bitlen (a + b) = c -> sranges (b - q + 1) b v ->
  map (fun p => FIPS.BitPack p a b) v = map (bitPack b c) (map (map modq) v).
Proof.
  intros Hb Hc R. rewrite map_map. apply map_ext_in. intros p Hp. unfold sranges in R. rewrite Forall_forall in R.
  destruct (R p Hp) as [Lp Rp]. rewrite BitPack_eq; [rewrite Hc; reflexivity | exact Lp | exact Hb |].
  eapply Forall_impl; [|exact Rp]. cbv beta. intros x Hx. lia.
Qed.

Lemma sranges_weaken B1 B2 C1 C2 v : C1 <= B1 -> B2 <= C2 -> sranges B1 B2 v -> sranges C1 C2 v.
Proof.
  intros H1 H2 R. eapply Forall_impl; [|exact R]. intros p [Lp Rp]. split; [exact Lp|].
  eapply Forall_impl; [|exact Rp]. cbv beta. intros x Hx. lia.
Qed.

Theorem skEncode_eq P (FF : ffacts P) rho K tr s1 s2 t0 :
  length rho = 32%nat -> length K = 32%nat -> length tr = 64%nat ->
  length s1 = p_l P -> length s2 = p_k P -> length t0 = p_k P ->
  sranges (- p_eta P) (p_eta P) s1 -> sranges (- p_eta P) (p_eta P) s2 -> sranges (-4095) 4096 t0 ->
  FIPS.skEncode (fips_of P) rho K tr s1 s2 t0 =
  skEncode P (mkSK rho K tr (map (map modq) s1) (map (map modq) s2) (map (map modq) t0)).
Proof.
  intros Lr LK Lt L1 L2 L3 R1 R2 R3. destruct FF as [(E1 & E2 & E3 & E4 & E5) _ _ _ _].
  destruct t1_width as (_ & _ & W3 & _ & W5 & W6).
  unfold FIPS.skEncode, skEncode. cbn [FIPS.k FIPS.l FIPS.eta fips_of sk_rho sk_K sk_tr sk_s1 sk_s2 sk_t0].
  rewrite (for_concat (fun p => FIPS.BitPack p (p_eta P) (p_eta P)) s1 [] (p_l P) _ L1).
  rewrite (for_concat (fun p => FIPS.BitPack p (p_eta P) (p_eta P)) s2 [] (p_k P) _ L2).
  rewrite (for_concat (fun p => FIPS.BitPack p (2 ^ (FIPS.d - 1) - 1) (2 ^ (FIPS.d - 1))) t0 [] (p_k P) _ L3).
  rewrite (firstn_pad_exact 32 rho Lr), (firstn_pad_exact 32 K LK), (firstn_pad_exact 64 tr Lt).
  rewrite (map_BitPack_eq (p_eta P) (p_eta P) (p_etaBits P) s1 E4 E1) by (eapply sranges_weaken; [| |exact R1]; unfold q in *; lia).
  rewrite (map_BitPack_eq (p_eta P) (p_eta P) (p_etaBits P) s2 E4 E1) by (eapply sranges_weaken; [| |exact R2]; unfold q in *; lia).
  rewrite W5, W6.
  rewrite (map_BitPack_eq (4096 - 1) 4096 dBits t0 ltac:(unfold q; lia) W3 ltac:(eapply sranges_weaken; [| |exact R3]; unfold q; lia)).
  rewrite <- !app_assoc. reflexivity.
Qed.

Lemma map_BitUnpack_eq a b c (X : bytes) o cnt : (0 < c)%nat -> FIPS.bitlen (a + b) = c -> 0 <= b < q ->
  2 ^ Z.of_nat c <= q -> (o + cnt * (32 * c) <= length X)%nat ->
  map (bitUnpack b c) (pieces (32 * c) cnt (skipn o X)) =
  map (map modq) (FIPS.array cnt (fun i => FIPS.BitUnpack (FIPS.sl X (o + i * (32 * c)) (o + i * (32 * c) + 32 * c)) a b)) /\
  sranges (b - 2 ^ Z.of_nat c + 1) b (FIPS.array cnt (fun i => FIPS.BitUnpack (FIPS.sl X (o + i * (32 * c)) (o + i * (32 * c) + 32 * c)) a b)).
Proof.
  intros Hc Ec Hb H2 HL. rewrite array_map, pieces_as_slices, !map_map. split.
  - apply map_ext_in. intros i Hi. apply in_seq in Hi.
    destruct (BitUnpack_eq (FIPS.sl X (o + i * (32 * c)) (o + i * (32 * c) + 32 * c)) a b) as (U1 & _);
      rewrite ?Ec; auto. { apply (slice_length X o (32 * c) i cnt); lia. }
    rewrite Ec in U1. symmetry. exact U1.
  - apply Forall_map. apply Forall_forall. intros i Hi. apply in_seq in Hi.
    destruct (BitUnpack_eq (FIPS.sl X (o + i * (32 * c)) (o + i * (32 * c) + 32 * c)) a b) as (_ & U2 & U3);
      rewrite ?Ec; auto. { apply (slice_length X o (32 * c) i cnt); lia. }
    rewrite Ec in U2. split; [exact U3|]. eapply Forall_impl; [|exact U2]. cbv beta. intros x Hx. lia.
Qed.

Theorem skDecode_eq P (FF : ffacts P) enc : length enc = secretKeyLength P ->
  let '(rho, K, tr, s1, s2, t0) := FIPS.skDecode (fips_of P) enc in
  skDecode P enc = Some (mkSK rho K tr (map (map modq) s1) (map (map modq) s2) (map (map modq) t0)).
Proof.
  intros L. destruct FF as [(E1 & E2 & E3 & E4 & E5) _ _ _ _].
  destruct t1_width as (_ & _ & W3 & W4 & W5 & W6).
  unfold FIPS.skDecode, skDecode. cbn [FIPS.k FIPS.l FIPS.eta fips_of]. rewrite L, Nat.eqb_refl. cbn [negb].
  replace (2 * p_eta P) with (p_eta P + p_eta P) by lia. rewrite E1, W4, W5, W6.
  unfold secretKeyLength in L.
  set (we := (32 * p_etaBits P)%nat) in *.
  destruct (map_BitUnpack_eq (p_eta P) (p_eta P) (p_etaBits P) enc 128 (p_l P) E2 E1 E4 E3 ltac:(fold we; lia)) as [U1 _].
  destruct (map_BitUnpack_eq (p_eta P) (p_eta P) (p_etaBits P) enc (128 + p_l P * we) (p_k P) E2 E1 E4 E3 ltac:(fold we; lia)) as [U2 _].
  destruct (map_BitUnpack_eq (4096 - 1) 4096 dBits enc (128 + p_l P * we + p_k P * we) (p_k P) ltac:(cbn; lia) W3
              ltac:(unfold q; lia) ltac:(vm_compute; congruence) ltac:(fold we; lia)) as [U3 _].
  fold we in U1, U2.
  rewrite !skipn_add.
  replace (p_l P * we + 128)%nat with (128 + p_l P * we)%nat by lia.
  replace (p_l P * we + p_k P * we + 128)%nat with (128 + p_l P * we + p_k P * we)%nat by lia.
  rewrite U1, U2, U3. reflexivity.
Qed.

Theorem sigEncode_eq P (FF : ffacts P) (PF : pfacts P) ct zs h :
  length ct = ctLen P -> length zs = p_l P -> sranges (- gamma1 P + 1) (gamma1 P) zs ->
  length h = p_k P -> Forall (fun p => length p = 256%nat) h -> (weight h <= p_omega P)%nat ->
  FIPS.sigEncode (fips_of P) ct zs h = sigEncode P ct (map (map modq) zs) h.
Proof.
  intros Lc Lz Rz Lh Fh Wh. destruct FF as [_ [Z1 _] _ _ _]. destruct PF as [_ Ho (G1 & G2 & G3) _ _ _].
  unfold FIPS.sigEncode, sigEncode. cbn [FIPS.l FIPS.gamma1 fips_of].
  rewrite (for_concat (fun p => FIPS.BitPack p (gamma1 P - 1) (gamma1 P)) zs [] (p_l P) _ Lz).
  rewrite (firstn_pad_exact (ctLen P) ct Lc).
  rewrite (map_BitPack_eq (gamma1 P - 1) (gamma1 P) (zBits P) zs ltac:(lia) Z1 ltac:(eapply sranges_weaken; [| |exact Rz]; lia)).
  rewrite HintBitPack_eq by auto. rewrite <- app_assoc. reflexivity.
Qed.

Theorem sigDecode_eq P (FF : ffacts P) (PF : pfacts P) sigma : length sigma = signatureLength P ->
  sigDecode P sigma =
  match FIPS.sigDecode (fips_of P) sigma with
  | (ct, z, Some h) => Some (ct, map (map modq) z, h)
  | (_, _, None) => None
  end /\
  sranges (- gamma1 P + 1) (gamma1 P) (snd (fst (FIPS.sigDecode (fips_of P) sigma))).
Proof.
  intros L. destruct FF as [_ [Z1 Z2] _ _ LAM]. destruct PF as [_ Ho (G1 & G2 & G3) _ _ _].
  rewrite sigDecode_unfold. unfold FIPS.sigDecode. cbn [FIPS.k FIPS.l FIPS.gamma1 FIPS.lambda FIPS.omega fips_of fst snd].
  rewrite L, Nat.eqb_refl. cbn [negb]. rewrite Z2, <- LAM.
  assert (L' : length sigma = (ctLen P + p_l P * (32 * zBits P) + p_omega P + p_k P)%nat).
  { rewrite L. unfold signatureLength, zBits. lia. }
  destruct (map_BitUnpack_eq (gamma1 P - 1) (gamma1 P) (zBits P) sigma (ctLen P) (p_l P)
              ltac:(unfold zBits; lia) Z1 ltac:(lia) ltac:(lia) ltac:(lia)) as [U1 U2].
  split.
  - rewrite U1.
    replace (FIPS.sl sigma (ctLen P + p_l P * (32 * zBits P)) (ctLen P + p_l P * (32 * zBits P) + p_omega P + p_k P))
      with (skipn (ctLen P + p_l P * 32 * zBits P) sigma).
    2:{ replace (ctLen P + p_l P * (32 * zBits P) + p_omega P + p_k P)%nat with
          (ctLen P + p_l P * (32 * zBits P) + (p_omega P + p_k P))%nat by lia.
        rewrite sl_firstn_skipn. rewrite firstn_all2 by (rewrite skipn_length; lia). f_equal. lia. }
    rewrite HintBitUnpack_eq by (rewrite skipn_length; lia).
    unfold FIPS.sl. rewrite Nat.sub_0_r. cbn [skipn].
    destruct (hintBitUnpack (p_omega P) (p_k P) (skipn (ctLen P + p_l P * 32 * zBits P) sigma)); reflexivity.
  - eapply sranges_weaken; [| |exact U2]; lia.
Qed.
