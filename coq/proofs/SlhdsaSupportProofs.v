(* Proofs about model/SlhdsaSupport.v: toInt / toByte / base2b. *)
From Coq Require Import List NArith Bool Arith Lia ZifyN ZifyNat.
From Tink Require Import Bytes SlhdsaSupport.
Import ListNotations.
Open Scope N_scope.

(* every digit base2b returns is below 2^b *)
Lemma base2b_loop_lt : forall out x b bits total,
  Forall (fun d => d < 2 ^ N.of_nat b) (base2b_loop out x b bits total).
Proof.
  induction out as [|out IH]; intros x b bits total; cbn [base2b_loop]; [constructor|].
  destruct (b2b_fill (S b) x b bits total) as [[x' bits'] total'].
  constructor; [|apply IH].
  rewrite N.land_ones. apply N.mod_lt. apply N.pow_nonzero. lia.
Qed.

Lemma base2b_lt : forall x b out, Forall (fun d => d < 2 ^ N.of_nat b) (base2b x b out).
Proof. intros. apply base2b_loop_lt. Qed.

Lemma base2b_loop_length : forall out x b bits total, length (base2b_loop out x b bits total) = out.
Proof.
  induction out as [|out IH]; intros; cbn [base2b_loop]; auto.
  destruct (b2b_fill (S b) x b bits total) as [[x' bits'] total']. simpl. f_equal. apply IH.
Qed.

Lemma base2b_length : forall x b out, length (base2b x b out) = out.
Proof. intros. apply base2b_loop_length. Qed.
