(* Proofs about model/SlhdsaSupport.v: toInt / toByte / base2b. *)
From Coq Require Import List NArith Bool Arith Lia ZifyN ZifyNat.
From Tink Require Import Bytes SlhdsaSupport.
Import ListNotations.
Open Scope N_scope.

(* every digit base2b returns is below 2^b *)
Lemma base2b_loop_lt : forall out x b bits total,
  Forall (fun d => d < 2 ^ N.of_nat b) (base2b_loop out x b bits total).
Proof.
  induction out as [|out IH]; intros x b bits total; cbn [base2b_loop]; [constructor|].
  destruct (b2b_fill (S b) x b bits total) as [[x' bits'] total'].
  constructor; [|apply IH].
  rewrite N.land_ones. apply N.mod_lt. apply N.pow_nonzero. lia.
Qed.

Lemma base2b_lt : forall x b out, Forall (fun d => d < 2 ^ N.of_nat b) (base2b x b out).
Proof. intros. apply base2b_loop_lt. Qed.

Lemma base2b_loop_length : forall out x b bits total, length (base2b_loop out x b bits total) = out.
Proof.
  induction out as [|out IH]; intros; cbn [base2b_loop]; auto.
  destruct (b2b_fill (S b) x b bits total) as [[x' bits'] total']. simpl. f_equal. apply IH.
Qed.

Lemma base2b_length : forall x b out, length (base2b x b out) = out.
Proof. intros. apply base2b_loop_length. Qed.

(* ---------- big-endian values ---------- *)
Lemma le_val_app a b : le_val (a ++ b) = le_val a + 256 ^ N.of_nat (length a) * le_val b.
Proof.
  induction a as [|x a IH].
  - cbn [app le_val length]. change (N.of_nat 0) with 0. rewrite N.pow_0_r. lia.
  - cbn [app le_val]. rewrite IH. replace (N.of_nat (length (x :: a))) with (1 + N.of_nat (length a)) by (cbn [length]; lia).
    rewrite N.pow_add_r. change (256 ^ 1) with 256. lia.
Qed.

Lemma be_val_app c x : be_val (c ++ x) = be_val c * 256 ^ N.of_nat (length x) + be_val x.
Proof. unfold be_val. rewrite rev_app_distr, le_val_app, rev_length. lia. Qed.

Lemma be_val_cons b x : be_val (b :: x) = b * 256 ^ N.of_nat (length x) + be_val x.
Proof. change (b :: x) with ([b] ++ x). rewrite be_val_app. unfold be_val at 1. simpl. lia. Qed.

Lemma be_val_lt x : wfb x -> be_val x < 256 ^ N.of_nat (length x).
Proof.
  induction x as [|b x IH]; intros H.
  - simpl. reflexivity.
  - inversion H; subst. rewrite be_val_cons. specialize (IH H3).
    replace (N.of_nat (length (b :: x))) with (1 + N.of_nat (length x)) by (cbn [length]; lia).
    rewrite N.pow_add_r. change (256 ^ 1) with 256. nia.
Qed.

(* ---------- toInt ---------- *)
Lemma toInt_loop_val : forall k x total, (k <= length x)%nat -> wfb x ->
  total * 256 ^ N.of_nat k + (256 ^ N.of_nat k - 1) < 2 ^ 64 ->
  toInt_loop x k total = total * 256 ^ N.of_nat k + be_val (firstn k x).
Proof.
  induction k as [|k IH]; intros x total Hk Hw Hb.
  - simpl. unfold be_val. simpl. lia.
  - destruct x as [|b x]; [simpl in Hk; lia|]. inversion Hw; subst.
    cbn [toInt_loop firstn]. rewrite be_val_cons, firstn_length_le by (simpl in Hk; lia).
    replace (N.of_nat (S k)) with (1 + N.of_nat k) in * by lia.
    rewrite N.pow_add_r in *. change (256 ^ 1) with 256 in *.
    assert (P0 : 0 < 256 ^ N.of_nat k) by (apply N.neq_0_lt_0, N.pow_nonzero; lia).
    assert (E : u64 (256 * total + b) = 256 * total + b).
    { unfold u64. apply N.mod_small. change 18446744073709551616 with (2 ^ 64). nia. }
    rewrite E. rewrite IH; [lia|simpl in Hk; lia|auto|nia].
Qed.

(* toInt is the big-endian value of the first n bytes (n <= 8: no uint64 wrap) *)
Theorem toInt_be_val : forall x k, (k <= 8)%nat -> (k <= length x)%nat -> wfb x -> toInt x k = be_val (firstn k x).
Proof.
  intros x k H8 Hk Hw. unfold toInt. rewrite (toInt_loop_val k x 0 Hk Hw); [lia|].
  assert (256 ^ N.of_nat k <= 256 ^ 8) by (apply N.pow_le_mono_r; lia).
  change (256 ^ 8) with (2 ^ 64) in H. assert (0 < 256 ^ N.of_nat k) by (apply N.neq_0_lt_0, N.pow_nonzero; lia). lia.
Qed.

(* toInt inverts toByte on the bytes toByte writes *)
Theorem toInt_toByte : forall v k, (k <= 8)%nat -> toInt (toByte v k) k = (v mod 2 ^ 32) mod 256 ^ N.of_nat k.
Proof.
  intros v k H8. unfold toByte. rewrite toInt_be_val; auto using be_bytes_wf; [|rewrite be_bytes_length; lia].
  rewrite firstn_all2 by (rewrite be_bytes_length; lia). apply be_val_be_bytes.
Qed.

(* ---------- base2b: the value equation ---------- *)
Definition pw (k : nat) : N := 2 ^ N.of_nat k.
Lemma pw_add a b : pw (a + b) = pw a * pw b.
Proof. unfold pw. rewrite Nat2N.inj_add, N.pow_add_r. reflexivity. Qed.
Lemma pw_pos k : 0 < pw k.
Proof. apply N.neq_0_lt_0, N.pow_nonzero. lia. Qed.
Lemma pw_256 k : 256 ^ N.of_nat k = pw (8 * k).
Proof. unfold pw. rewrite Nat2N.inj_mul, N.pow_mul_r. reflexivity. Qed.
Lemma pw_le a b : (a <= b)%nat -> pw a <= pw b.
Proof. intros. unfold pw. apply N.pow_le_mono_r; lia. Qed.

(* (y mod 2^32) mod 2^k = y mod 2^k for k <= 32 *)
Lemma u32_mod_pw y k : (k <= 32)%nat -> u32 y mod pw k = y mod pw k.
Proof.
  intros H. unfold u32. change 4294967296 with (pw 32).
  replace 32%nat with (k + (32 - k))%nat by lia. rewrite pw_add.
  pose proof (pw_pos k). pose proof (pw_pos (32 - k)).
  rewrite N.mod_mul_r by lia. rewrite (N.mul_comm (pw k)), N.mod_add by lia. apply N.mod_mod. lia.
Qed.

(* (t*256 + c) mod 2^(s+8) = (t mod 2^s)*256 + c *)
Lemma shift_in_byte t c s : c < 256 -> (t * 256 + c) mod pw (s + 8) = (t mod pw s) * 256 + c.
Proof.
  intros Hc. rewrite Nat.add_comm, pw_add. change (pw 8) with 256.
  pose proof (pw_pos s).
  rewrite N.mod_mul_r by lia.
  replace ((t * 256 + c) mod 256) with c by (rewrite N.add_comm, N.mod_add by lia; symmetry; apply N.mod_small; auto).
  replace ((t * 256 + c) / 256) with t by (rewrite N.div_add_l by lia; rewrite (N.div_small c 256) by auto; lia).
  lia.
Qed.

(* the fill loop: consumes a prefix c of x, bits' = bits + 8|c| >= b, and the
   low bits' bits of total' are the low bits bits of total followed by c *)
Lemma b2b_fill_spec : forall fuel x b bits total,
  wfb x -> (b <= bits + 8 * fuel)%nat -> (b <= bits + 8 * length x)%nat -> (b + 7 <= 32)%nat ->
  exists c x' bits' total',
    b2b_fill fuel x b bits total = (x', bits', total') /\ x = c ++ x' /\ bits' = (bits + 8 * length c)%nat /\
    (b <= bits')%nat /\ (bits' <= Nat.max bits (b + 7))%nat /\
    total' mod pw bits' = (total mod pw bits) * 256 ^ N.of_nat (length c) + be_val c.
Proof.
  induction fuel as [|fuel IH]; intros x b bits total Hw Hf Hx Hb.
  - exists [], x, bits, total. simpl. repeat split; try lia. unfold be_val; simpl. lia.
  - cbn [b2b_fill]. destruct (Nat.ltb_spec bits b) as [L|L].
    + destruct x as [|c0 x1]; [simpl in Hx; lia|]. inversion Hw; subst.
      destruct (IH x1 b (bits + 8)%nat (u32 (total * 256 + c0)) H2 ltac:(lia) ltac:(simpl in Hx; lia) Hb)
        as (c & x' & bits' & total' & E & Ex & Eb & Hge & Hle & Hv).
      exists (c0 :: c), x', bits', total'. rewrite E. repeat split; auto.
      * simpl. congruence.
      * simpl. lia.
      * lia.
      * rewrite Hv, u32_mod_pw by lia. rewrite shift_in_byte by auto.
        rewrite be_val_cons. replace (N.of_nat (length (c0 :: c))) with (1 + N.of_nat (length c)) by (cbn [length]; lia).
        rewrite N.pow_add_r. change (256 ^ 1) with 256. lia.
    + exists [], x, bits, total. simpl. repeat split; try lia. unfold be_val; simpl. lia.
Qed.

Definition digits_val (b : nat) (ds : list N) : N := fold_left (fun acc d => acc * pw b + d) ds 0.

Lemma digits_fold b ds : forall acc,
  fold_left (fun acc d => acc * pw b + d) ds acc = acc * pw (b * length ds) + digits_val b ds.
Proof.
  unfold digits_val. induction ds as [|d ds IH]; intros acc.
  - simpl. rewrite Nat.mul_0_r. change (pw 0) with 1. lia.
  - cbn [fold_left length]. rewrite IH, (IH (0 * pw b + d)).
    replace (b * S (length ds))%nat with (b + b * length ds)%nat by lia. rewrite pw_add. lia.
Qed.

(* (t / 2^s) mod 2^b and t mod 2^s in terms of r = t mod 2^(s+b) *)
Lemma digit_split t s b : (t / pw s) mod pw b = (t mod pw (s + b)) / pw s /\ t mod pw s = (t mod pw (s + b)) mod pw s.
Proof.
  pose proof (pw_pos s). pose proof (pw_pos b).
  rewrite pw_add. rewrite N.mod_mul_r by lia. split.
  - rewrite N.mul_comm, N.div_add by lia. rewrite (N.div_small (t mod pw s)) by (apply N.mod_lt; lia). lia.
  - rewrite N.mul_comm, N.mod_add by lia. rewrite N.mod_mod by lia. reflexivity.
Qed.

Lemma base2b_loop_val : forall out x b bits total,
  wfb x -> (b + 7 <= 32)%nat -> (bits <= 7)%nat -> (out * b <= bits + 8 * length x)%nat ->
  digits_val b (base2b_loop out x b bits total)
  = ((total mod pw bits) * 256 ^ N.of_nat (length x) + be_val x) / pw (bits + 8 * length x - out * b).
Proof.
  induction out as [|out IH]; intros x b bits total Hw Hb Hbits Hx.
  - cbn [base2b_loop]. unfold digits_val. simpl fold_left. symmetry. apply N.div_small.
    rewrite Nat.mul_0_l, Nat.sub_0_r, pw_add, <- pw_256.
    pose proof (be_val_lt x Hw). pose proof (N.mod_lt total (pw bits) ltac:(pose proof (pw_pos bits); lia)). nia.
  - cbn [base2b_loop].
    destruct (b2b_fill_spec (S b) x b bits total Hw ltac:(lia) ltac:(lia) Hb)
      as (c & x' & bits' & total' & E & Ex & Eb & Hge & Hle & Hv).
    rewrite E. subst x. apply wfb_app in Hw. destruct Hw as [Hwc Hwx'].
    rewrite app_length in *.
    set (s := (bits' - b)%nat). assert (Es : bits' = (s + b)%nat) by (unfold s; lia).
    assert (Hs7 : (s <= 7)%nat) by (unfold s; lia). clearbody s.
    unfold digits_val. cbn [fold_left]. rewrite digits_fold. fold (digits_val b).
    rewrite base2b_loop_length.
    rewrite IH by (auto; clear - Hx Eb Es Hs7; cbn [Nat.mul] in *; lia).
    rewrite N.shiftr_div_pow2, N.land_ones. fold (pw s). fold (pw b).
    destruct (digit_split total' s b) as [D1 D2]. rewrite <- Es in D1, D2. rewrite D1, D2.
    set (r' := total' mod pw bits') in *.
    (* the whole remaining bit string *)
    rewrite be_val_app.
    replace ((total mod pw bits) * 256 ^ N.of_nat (length c + length x') + (be_val c * 256 ^ N.of_nat (length x') + be_val x'))
      with (r' * 256 ^ N.of_nat (length x') + be_val x')
      by (rewrite Hv, Nat2N.inj_add, N.pow_add_r; lia).
    set (L := 256 ^ N.of_nat (length x')).
    set (W'' := (r' mod pw s) * L + be_val x').
    pose proof (pw_pos s) as Ps.
    assert (Er : r' = (r' / pw s) * pw s + r' mod pw s) by (rewrite N.mul_comm; apply N.div_mod; lia).
    assert (HW : r' * L + be_val x' = (r' / pw s) * pw (s + 8 * length x') + W'').
    { unfold W''. rewrite pw_add, <- pw_256. fold L. rewrite Er at 1. lia. }
    rewrite HW.
    set (S' := (s + 8 * length x' - out * b)%nat).
    assert (N1 : (bits + 8 * (length c + length x') - S out * b = S')%nat).
    { unfold S'. clear - Eb Es Hx. cbn [Nat.mul] in *. lia. }
    assert (N2 : (s + 8 * length x' = out * b + S')%nat).
    { unfold S'. clear - Eb Es Hx. cbn [Nat.mul] in *. lia. }
    rewrite N1, N2.
    rewrite pw_add. pose proof (pw_pos S').
    rewrite N.mul_assoc, N.div_add_l by lia.
    replace (0 * pw b + r' / pw s) with (r' / pw s) by lia.
    replace (b * out)%nat with (out * b)%nat by lia. reflexivity.
Qed.

(* FIPS 205 Algorithm 4: the outLen digits base2b returns are the first
   outLen*b bits of x read as a big-endian number in base 2^b — for every b up
   to 25 the uint32 accumulator of the Go loop never loses a bit that matters *)
Theorem base2b_value : forall x b out,
  wfb x -> (b <= 25)%nat -> (out * b <= 8 * length x)%nat ->
  digits_val b (base2b x b out) = be_val x / 2 ^ N.of_nat (8 * length x - out * b)
  /\ Forall (fun d => d < 2 ^ N.of_nat b) (base2b x b out) /\ length (base2b x b out) = out.
Proof.
  intros x b out Hw Hb Hx. split; [|split; [apply base2b_lt|apply base2b_length]].
  unfold base2b. rewrite base2b_loop_val by (auto; lia).
  change (pw 0) with 1. rewrite N.mod_1_r. simpl (0 * _ + _). reflexivity.
Qed.
