(* C13 — second layer of proofs (stretch round): the handle a writer was given
   is the handle a reader returns; the classification of key material by type
   URL for all 41 transcribed key types; the encrypted keyset (right key: the handle comes
   back; wrong key or AD: reduction to the AEAD opening the ciphertext). *)
From Coq Require Import String Ascii List Arith NArith Bool Lia ZifyN ZifyNat ZifyBool.
From Tink Require Import Bytes UntrustedConsts Untrusted UntrustedSpec UntrustedProofs Secrets SecretsProofs SecretsWireProofs.
From Tink Require UntrustedPrefix5Proofs.
Import ListNotations.
Open Scope list_scope.
Open Scope N_scope.

(* ------------------------------------------------------------------ *)
(* sizes: parts of a serialisation are no longer than the whole        *)
(* ------------------------------------------------------------------ *)
Lemma blen_le_lt a b : (length a <= length b)%nat -> blen b < two64 -> blen a < two64.
Proof. unfold blen. lia. Qed.

Lemma enc_len_field_len n b : (length b <= length (enc_len_field n b))%nat.
Proof. unfold enc_len_field. rewrite !app_length. lia. Qed.

Lemma enc_bytes_field_len n b : (length b <= length (enc_bytes_field n b))%nat.
Proof. unfold enc_bytes_field. destruct b; [cbn; lia | apply enc_len_field_len]. Qed.

Lemma ser_keydata_len kd :
  (length (kd_url kd) <= length (ser_keydata kd))%nat /\ (length (kd_value kd) <= length (ser_keydata kd))%nat.
Proof.
  unfold ser_keydata. rewrite !app_length.
  pose proof (enc_bytes_field_len 1 (kd_url kd)). pose proof (enc_bytes_field_len 2 (kd_value kd)). lia.
Qed.

Lemma ser_key_len k kd : k_data k = Some kd -> (length (ser_keydata kd) <= length (ser_key k))%nat.
Proof.
  intros E. unfold ser_key. rewrite E, !app_length. pose proof (enc_len_field_len 1 (ser_keydata kd)). lia.
Qed.

Lemma flat_map_len {A} (f : A -> bytes) l x : In x l -> (length (f x) <= length (flat_map f l))%nat.
Proof.
  induction l as [|y l IH]; intros H; [destruct H|]. cbn [flat_map]. rewrite app_length.
  destruct H as [->|H]; [lia|]. specialize (IH H). lia.
Qed.

Lemma ser_keyset_len pr pks k : In k pks -> (length (ser_key k) <= length (ser_keyset (mkKS pr (map Some pks))))%nat.
Proof.
  intros H. rewrite ser_keyset_some, app_length.
  pose proof (flat_map_len (fun k => enc_len_field 2 (ser_key k)) pks k H) as F. cbv beta in F.
  pose proof (enc_len_field_len 2 (ser_key k)). lia.
Qed.

(* the only size premise needed: the whole serialisation is shorter than 2^64 bytes *)
Theorem decode_ser_keyset_total pr pks :
  pr < two32 -> Forall wire_key pks ->
  blen (ser_keyset (mkKS pr (map Some pks))) < two64 ->
  decode_keyset (ser_keyset (mkKS pr (map Some pks))) = Some (mkKS pr (map Some pks)).
Proof.
  intros Hp Hw Hz.
  assert (Hk : Forall (fun k => blen (ser_key k) < two64) pks).
  { apply Forall_forall. intros k Hin. eapply blen_le_lt; [apply (ser_keyset_len pr pks k Hin) | exact Hz]. }
  apply decode_ser_keyset; try assumption.
  apply Forall_forall. intros k Hin. unfold key_sizes. destruct (k_data k) as [kd|] eqn:E; [|exact I].
  rewrite Forall_forall in Hk. specialize (Hk k Hin).
  assert (Hd : blen (ser_keydata kd) < two64) by (eapply blen_le_lt; [apply (ser_key_len k kd E) | exact Hk]).
  destruct (ser_keydata_len kd) as [L1 L2].
  repeat split; [eapply blen_le_lt; [exact L1 | exact Hd] | eapply blen_le_lt; [exact L2 | exact Hd] | exact Hd].
Qed.

(* a keyset as the generated Go type holds it: no nil key, uint32 / enum fields
   in range, type URLs valid UTF-8 (proto.Marshal refuses anything else) *)
Definition wire_keyset (ks : keyset) : Prop :=
  ks_primary ks < two32 /\ Forall (fun k => exists pk, k = Some pk /\ wire_key pk) (ks_keys ks).

Lemma wire_keyset_shape ks : wire_keyset ks ->
  exists pks, ks = mkKS (ks_primary ks) (map Some pks) /\ Forall wire_key pks.
Proof.
  destruct ks as [pr keys]. intros [_ H]. cbn [ks_primary ks_keys] in *.
  induction H as [|k t (pk & -> & Hk) _ (pks & E & F)].
  - exists []. split; [reflexivity | constructor].
  - exists (pk :: pks). inversion E as [E']. split; [cbn [map]; rewrite <- E'; reflexivity | constructor; assumption].
Qed.

Theorem decode_ser_wire_keyset ks :
  wire_keyset ks -> blen (ser_keyset ks) < two64 -> decode_keyset (ser_keyset ks) = Some ks.
Proof.
  intros W Hz. destruct (wire_keyset_shape ks W) as (pks & E & F). destruct W as [Hp _].
  rewrite E in *. cbn [ks_primary] in *. apply decode_ser_keyset_total; assumption.
Qed.

(* ------------------------------------------------------------------ *)
(* everything proto.Unmarshal returns is such a keyset                 *)
(* ------------------------------------------------------------------ *)
Lemma u32_lt v : u32 v < two32.
Proof. unfold u32, two32. apply N.mod_lt. lia. Qed.

Lemma in_payloads_flat n qs x :
  In x (payloads n (flat_map fields_or_nil qs)) -> exists q, In q qs /\ In x (payloads n (fields_or_nil q)).
Proof.
  induction qs as [|q qs IH]; cbn [flat_map]; [intros []|].
  rewrite payloads_app. intros H. apply in_app_or in H. destruct H as [H|H].
  - exists q. split; [left; reflexivity | exact H].
  - destruct (IH H) as (q' & A & B). exists q'. split; [right; exact A | exact B].
Qed.

Lemma last_in_or_default {A} (l : list A) d : last l d = d \/ In (last l d) l.
Proof.
  induction l as [|x l IH]; [left; reflexivity|]. destruct l as [|y l'].
  - right. left. reflexivity.
  - change (last (x :: y :: l') d) with (last (y :: l') d). destruct IH as [IH|IH]; [left; exact IH | right; right; exact IH].
Qed.

Lemma utf8_nil : utf8_valid [] = true.
Proof. reflexivity. Qed.

(* the type URL of a decoded key is valid UTF-8: every occurrence of the
   string field was checked, and the getter returns one of them (or "") *)
Lemma decoded_url_valid p : wire_ok sch_key p = true ->
  utf8_valid (get_len 1 (get_sub 1 (fields_or_nil p))) = true.
Proof.
  rewrite wire_ok_key_unfold. destruct (fields p) as [fs|] eqn:F; [|discriminate].
  rewrite (fields_or_nil_some _ _ F). rewrite !andb_true_r. intros H. rewrite forallb_forall in H.
  unfold get_len, get_sub. destruct (last_in_or_default (payloads 1 (flat_map fields_or_nil (payloads 1 fs))) []) as [E|E].
  - rewrite E. apply utf8_nil.
  - apply in_payloads_flat in E. destruct E as (q & Hq & Hx). specialize (H q Hq).
    rewrite wire_ok_keydata_unfold in H. destruct (fields q) as [fq|] eqn:Fq; [|discriminate].
    rewrite (fields_or_nil_some _ _ Fq) in Hx. cbn [andb] in H. rewrite andb_true_r in H.
    rewrite forallb_forall in H. apply H. exact Hx.
Qed.

Theorem decode_keyset_wire b ks : decode_keyset b = Some ks -> wire_keyset ks.
Proof.
  unfold decode_keyset. destruct (wire_ok sch_keyset b) eqn:W; [|discriminate]. intros H. inversion H; subst ks. clear H.
  rewrite wire_ok_keyset_unfold in W. destruct (fields b) as [fs|] eqn:F; [|discriminate].
  rewrite (fields_or_nil_some _ _ F). rewrite !andb_true_r in W. rewrite forallb_forall in W.
  unfold keyset_of, wire_keyset. cbn [ks_primary ks_keys]. split; [apply u32_lt|].
  apply Forall_forall. intros k Hk. apply in_map_iff in Hk. destruct Hk as (p & <- & Hp).
  eexists. split; [reflexivity|]. unfold wire_key, key_of. cbn [k_status k_id k_prefix k_data].
  repeat split; try apply u32_lt.
  destruct (has_sub 1 (fields_or_nil p)); [|exact I]. unfold keydata_of. cbn [kd_url kd_mat].
  split; [apply decoded_url_valid; apply W; exact Hp | apply u32_lt].
Qed.

(* ------------------------------------------------------------------ *)
(* from the handle back to the keyset it was made from                 *)
(* ------------------------------------------------------------------ *)
Section Handles.
Variable L : stdlib.
Notation handle_from_proto := (handle_from_proto L).
Notation to_entries := (to_entries L).

Definition entry_full_of (primary : N) (k : option pkey) (e : entry) : Prop :=
  entry_of primary k e /\
  exists pk kd, k = Some pk /\ k_data pk = Some kd /\ eurl e = kd_url kd /\ evalue e = kd_value kd
    /\ emat e = kd_mat kd /\ ptag (ekey e) = url_tag (kd_url kd)
    /\ shown_prefix e = reported_prefix (kd_url kd) (k_prefix pk).

Lemma to_entries_full primary keys es :
  to_entries primary keys = Ok es -> Forall2 (entry_full_of primary) keys es.
Proof.
  revert es. induction keys as [|[k|] t IH]; simpl; intros es H.
  - inversion H. constructor.
  - apply bind_ok in H. destruct H as [e [He H]]. apply bind_ok in H. destruct H as [es' [Hes H]].
    inversion H; subst. constructor; [|apply IH; exact Hes]. split.
    + eapply to_entry_shape. exact He.
    + apply to_entry_info in He. destruct He as [kd [A [B [C [D [E F]]]]]]. exists k, kd. auto 10.
  - discriminate.
Qed.

Lemma full_info primary keys es : Forall2 (entry_full_of primary) keys es -> Forall2 (entry_info_of primary) keys es.
Proof.
  induction 1 as [|k e keys es [A (pk & kd & B & C & D & _ & _ & _ & G)] _ IH]; constructor; [|exact IH].
  split; [exact A|]. exists pk, kd. auto.
Qed.

(* what handle_from_proto returns, entry by entry *)
Lemma handle_from_proto_full ks h : handle_from_proto (Some ks) = Ok h ->
  Forall2 (entry_full_of (ks_primary ks)) (ks_keys ks) h /\ (exists e, In e h /\ eprim e = true).
Proof.
  unfold Untrusted.handle_from_proto. destruct (validate (Some ks)); [|discriminate].
  intros H. apply bind_ok in H. destruct H as [es [Hes H]].
  unfold new_from_entries in H. destruct (existsb _ es); [discriminate|].
  destruct (existsb eprim es) eqn:P; [|discriminate]. inversion H; subst h.
  split; [apply to_entries_full; exact Hes | apply existsb_exists in P; exact P].
Qed.

(* The material type and prefix type of every entry are those registered for
   its type URL (for the 41 transcribed key types; the label it came with for
   any other URL): has_secrets-relevant classification by type URL. *)
Theorem out_material_by_url ks h : handle_from_proto (Some ks) = Ok h ->
  Forall (fun e => out_material e = url_material (eurl e) (emat e)
                   /\ shown_prefix e = reported_prefix (eurl e) (eprefix e)) h.
Proof.
  intros H. destruct (handle_from_proto_full _ _ H) as [F _]. clear H.
  induction F as [|k e keys es [(pk0 & E0 & _ & _ & _ & Hp & _) (pk & kd & E & D & U & V & M & T & P)] _ IH];
    constructor; [|exact IH].
  subst k. inversion E; subst pk0. rewrite out_material_tag, T, U, P, Hp. split; reflexivity.
Qed.

(* an entry carries the labels its serializer writes *)
Definition canonical_entry (e : entry) : Prop := emat e = out_material e /\ eprefix e = shown_prefix e.
Definition canonical_labels (h : handle) : Prop := Forall canonical_entry h.

(* entriesToProtoKeyset inverts keysetToEntries on such handles *)
Theorem proto_of_handle_inverse ks h :
  handle_from_proto (Some ks) = Ok h -> canonical_labels h -> proto_of_handle h = ks.
Proof.
  intros H C. destruct (handle_from_proto_full _ _ H) as [F P].
  destruct ks as [pr keys]. cbn [ks_primary ks_keys] in *. unfold proto_of_handle. f_equal.
  - eapply primary_id_of_entries; [apply full_info; exact F | exact P].
  - clear P H. unfold canonical_labels in C.
    induction F as [|k e keys es [(pk0 & E0 & Hi & Hs & _ & Hp & _) (pk & kd & E & D & U & V & M & _ & _)] _ IH];
      [reflexivity|].
    inversion C as [|? ? [Cm Cp] Ct]; subst. cbn [map]. rewrite (IH Ct). f_equal.
    inversion E; subst pk0. unfold proto_key_of_entry. rewrite <- Cm, <- Cp, U, V, M, Hi, Hs, Hp.
    destruct pk as [d st id pf]. cbn [k_data k_status k_id k_prefix] in *. rewrite D. destruct kd. reflexivity.
Qed.

(* reading back what entriesToProtoKeyset + Marshal wrote gives the handle back *)
Theorem reread_handle ks h :
  handle_from_proto (Some ks) = Ok h -> wire_keyset ks -> canonical_labels h ->
  blen (ser_keyset (proto_of_handle h)) < two64 ->
  decode_keyset (ser_keyset (proto_of_handle h)) = Some (proto_of_handle h)
  /\ handle_from_proto (Some (proto_of_handle h)) = Ok h.
Proof.
  intros H W C Z. rewrite (proto_of_handle_inverse ks h H C) in *. split; [apply decode_ser_wire_keyset; assumption | exact H].
Qed.

(* handles that came off the wire *)
Theorem read_is_wire b h : read L b = Ok h ->
  exists ks, decode_keyset b = Some ks /\ wire_keyset ks /\ handle_from_proto (Some ks) = Ok h.
Proof.
  unfold read. destruct (decode_keyset b) as [ks|] eqn:D; [|discriminate].
  destruct (ks_keys ks); [discriminate|]. intros H. exists ks. split; [reflexivity|].
  split; [eapply decode_keyset_wire; exact D | exact H].
Qed.

(* ---- the no-secrets APIs, with the handle (/repo b141c20) ---- *)
Theorem no_secrets_ok_iff ks h :
  handle_no_secrets L (Some ks) = Ok h <->
  (handle_from_proto (Some ks) = Ok h /\ Forall (fun k => public_or_remote (key_material k)) (ks_keys ks)
   /\ Forall (fun e => public_or_remote (out_material e)) h).
Proof.
  rewrite handle_no_secrets_spec, <- has_secrets_iff, <- handle_has_secrets_iff. destruct (has_secrets ks).
  - split; [discriminate | intros (_ & X & _); discriminate].
  - destruct (handle_from_proto (Some ks)) as [h0| |]; try (split; [discriminate | intros (X & _); discriminate]).
    destruct (handle_has_secrets h0) eqn:S.
    + split; [discriminate | intros (X & _ & Y); inversion X; subst; congruence].
    + split; [intros X; inversion X; subst; auto | intros (X & _); exact X].
Qed.

Theorem read_no_secrets_ok_iff b h :
  read_no_secrets L b = Ok h <->
  exists ks, decode_keyset b = Some ks /\ handle_from_proto (Some ks) = Ok h
             /\ Forall (fun k => public_or_remote (key_material k)) (ks_keys ks)
             /\ Forall (fun e => public_or_remote (out_material e)) h.
Proof.
  unfold Untrusted.read_no_secrets. destruct (decode_keyset b) as [ks|].
  - rewrite no_secrets_ok_iff. split.
    + intros (A & B & C). exists ks. auto.
    + intros (ks' & E & A & B & C). inversion E; subst. auto.
  - split; [discriminate | intros (ks' & E & _); discriminate].
Qed.

(* Keysets whose labels and key objects are public/remote only: the no-secrets
   APIs return exactly the handle the cleartext construction returns. *)
Theorem no_secrets_apis_return_the_handle ks h :
  handle_from_proto (Some ks) = Ok h ->
  Forall (fun k => public_or_remote (key_material k)) (ks_keys ks) ->
  Forall (fun e => public_or_remote (out_material e)) h ->
  handle_no_secrets L (Some ks) = Ok h
  /\ forall b, decode_keyset b = Some ks -> read_no_secrets L b = Ok h /\ read L b = Ok h.
Proof.
  intros H P Q. split; [apply no_secrets_ok_iff; auto|].
  intros b D. split; [apply read_no_secrets_ok_iff; exists ks; auto|].
  unfold read. rewrite D. destruct (ks_keys ks) eqn:E; [|exact H].
  exfalso. unfold Untrusted.handle_from_proto, validate in H. rewrite E in H. discriminate.
Qed.

(* WriteWithNoSecrets then ReadWithNoSecrets: the same handle *)
Theorem write_then_read_no_secrets ks h :
  handle_from_proto (Some ks) = Ok h -> wire_keyset ks -> canonical_labels h ->
  Forall (fun e => public_or_remote (out_material e)) h ->
  blen (ser_keyset (proto_of_handle h)) < two64 ->
  write_no_secrets h = Ok (ser_keyset (proto_of_handle h))
  /\ read_no_secrets L (ser_keyset (proto_of_handle h)) = Ok h.
Proof.
  intros H W C P Z. destruct (reread_handle ks h H W C Z) as [D R].
  assert (Hne : h <> []).
  { intros ->. destruct (handle_from_proto_full _ _ H) as [_ (e & [] & _)]. }
  assert (S : has_secrets (proto_of_handle h) = false).
  { apply has_secrets_iff. unfold proto_of_handle. cbn [ks_keys]. rewrite Forall_map.
    cbn [key_material proto_key_of_entry k_data kd_mat]. exact P. }
  split.
  - unfold write_no_secrets. destruct h; [congruence|]. cbv zeta. rewrite S. reflexivity.
  - apply read_no_secrets_ok_iff. exists (proto_of_handle h). split; [exact D|]. split; [exact R|].
    split; [apply has_secrets_iff; exact S | exact P].
Qed.

End Handles.

(* ------------------------------------------------------------------ *)
(* material by type URL: the table, and which parsers check the label  *)
(* ------------------------------------------------------------------ *)
Definition symmetric_urls : list bytes :=
  [u_hmac; u_aes_cmac; u_aes_gcm; u_aes_gcm_siv; u_aes_ctr_hmac; u_aes_siv; u_hkdf_prf; u_hmac_prf; u_aes_cmac_prf;
   u_chacha; u_xchacha; u_xaes_gcm; u_stream_gcm_hkdf; u_stream_ctr_hmac; u_jwt_hmac].
Definition private_urls : list bytes :=
  [u_ecdsa_priv; u_ed25519_priv; u_rsa_pkcs1_priv; u_rsa_pss_priv; u_ecies_priv; u_hpke_priv; u_jwt_ecdsa_priv;
   u_jwt_rsa_pkcs1_priv; u_jwt_rsa_pss_priv; u_slhdsa_priv; u_mldsa_priv; u_jwt_mldsa_priv; u_composite_priv].
Definition public_urls : list bytes :=
  [u_ecdsa_pub; u_rsa_pkcs1_pub; u_rsa_pss_pub; u_ed25519_pub; u_ecies_pub; u_hpke_pub; u_jwt_ecdsa_pub;
   u_jwt_rsa_pkcs1_pub; u_jwt_rsa_pss_pub; u_jwt_mldsa_pub; u_mldsa_pub; u_slhdsa_pub; u_composite_pub].

(* 15 + 13 + 13 = the 41 transcribed key types; every other URL keeps its label *)
Theorem url_material_table :
  Forall (fun u => forall label, url_material u label = km_symmetric) symmetric_urls
  /\ Forall (fun u => forall label, url_material u label = km_private) private_urls
  /\ Forall (fun u => forall label, url_material u label = km_public) public_urls
  /\ (forall u label, url_tag u = 0 -> url_material u label = label)
  /\ (forall u, url_tag u = 0 <-> ~ In u (symmetric_urls ++ private_urls ++ public_urls)).
Proof.
  split; [repeat constructor; intros label; vm_compute; reflexivity|].
  split; [repeat constructor; intros label; vm_compute; reflexivity|].
  split; [repeat constructor; intros label; vm_compute; reflexivity|].
  split; [intros u label E; unfold url_material; rewrite E; reflexivity|].
  intros u. split.
  - intros E Hin. cbn [app symmetric_urls private_urls public_urls In] in Hin.
    repeat (destruct Hin as [<-|Hin]; [vm_compute in E; discriminate|]). exact Hin.
  - intros Hn. unfold url_tag.
    repeat match goal with
    | |- (if beq u ?x then _ else _) = 0 =>
        let E := fresh "E" in destruct (beq u x) eqn:E;
        [exfalso; apply Hn; apply beq_eq in E; subst u; cbn [app symmetric_urls private_urls public_urls In]; tauto|]
    end.
    reflexivity.
Qed.

(* the kinds whose parser compares KeyData.key_material_type with the type's
   own material: all but HMAC, AES-CMAC, the three PRFs and the fallback key *)
Definition label_checked (t : N) : bool := negb (memt t [0; 1; 2; 7; 8; 9]).

Section Labels.
Variable L : stdlib.

Ltac lab_done :=
  unfold url_is in *;
  first [ match goal with H : beq (kd_url _) _ = true |- _ => apply beq_eq in H; rewrite H end
        | unfold url_tag;
          repeat match goal with H : beq (kd_url _) _ = false |- _ => rewrite H; clear H end ];
  match goal with |- label_checked ?t = true -> _ => let v := eval vm_compute in t in change t with v end;
  let C := fresh in intros C; try discriminate C; clear C;
  match goal with |- _ = material_of_tag ?t ?l => let v := eval vm_compute in (material_of_tag t 0) in change (material_of_tag t l) with v end;
  match goal with H : negb (kd_mat _ =? _) = false |- _ => apply negb_false_iff, N.eqb_eq in H; exact H end.

Ltac labk :=
  repeat match goal with
  | |- (if url_is ?k ?u then _ else _) = Ok _ -> _ => let U := fresh "U" in destruct (url_is k u) eqn:U
  | |- (if ?c then _ else _) = Ok _ -> _ => let C := fresh "C" in destruct c eqn:C
  | |- okb _ _ = Ok _ -> _ => intros _; lab_done
  | |- bind _ _ = Ok _ -> _ =>
      let H := fresh in let a := fresh in intros H; apply bind_ok in H; destruct H as [a [_ H]]; revert H; cbv beta
  | |- Ok _ = Ok _ -> _ => intros _; lab_done
  | |- Err = Ok _ -> _ => discriminate
  | |- Panic = Ok _ -> _ => discriminate
  | |- (let (_, _) := ?p in _) = Ok _ -> _ => destruct p
  | |- match ?o with Some _ => _ | None => _ end = Ok _ -> _ => destruct o
  end.

Lemma parse_key_base_label kd p i d : parse_key_base L kd p i = Ok d ->
  url_is kd u_composite_pub = false -> url_is kd u_composite_priv = false ->
  label_checked (url_tag (kd_url kd)) = true -> kd_mat kd = material_of_tag (url_tag (kd_url kd)) (kd_mat kd).
Proof.
  intros H C1 C2. revert H.
  unfold Untrusted.parse_key_base, parse_key_more, parse_ed25519_pub, parse_ed25519_priv, parse_rsa_priv,
    parse_ecies_pub, parse_ecies_priv, parse_hpke_pub, parse_hpke_priv,
    parse_stream_gcm_hkdf, parse_stream_ctr_hmac, parse_jwt_hmac, parse_jwt_ecdsa_pub, parse_jwt_ecdsa_priv,
    parse_jwt_rsa_pub, parse_mldsa_pub, parse_slhdsa_pub, parse_slhdsa_priv,
    parse_jwt_rsa_priv, parse_jwt_mldsa_pub, parse_mldsa_priv, parse_jwt_mldsa_priv, ed25519_from_seed.
  cbv zeta. labk.
Qed.

Lemma parse_key_label kd p i d : parse_key L kd p i = Ok d ->
  label_checked (url_tag (kd_url kd)) = true -> kd_mat kd = material_of_tag (url_tag (kd_url kd)) (kd_mat kd).
Proof.
  unfold Untrusted.parse_key. destruct (url_is kd u_composite_pub) eqn:C1.
  - intros H _. apply parse_composite_kind in H. destruct H as (M & _). rewrite M.
    unfold url_is in C1. apply beq_eq in C1. rewrite C1. vm_compute. reflexivity.
  - destruct (url_is kd u_composite_priv) eqn:C2.
    + intros H _. apply parse_composite_kind in H. destruct H as (M & _). rewrite M.
      unfold url_is in C2. apply beq_eq in C2. rewrite C2. vm_compute. reflexivity.
    + intros H. eapply parse_key_base_label; eassumption.
Qed.

(* an accepted key of a label-checking type carries the material label of its type *)
Theorem accepted_label_is_material ks h : handle_from_proto L (Some ks) = Ok h ->
  Forall (fun e => label_checked (url_tag (eurl e)) = true -> emat e = out_material e) h.
Proof.
  unfold Untrusted.handle_from_proto. destruct (validate (Some ks)); [|discriminate].
  intros H. apply bind_ok in H. destruct H as [es [Hes H]].
  unfold new_from_entries in H. destruct (existsb _ es); [discriminate|].
  destruct (existsb eprim es); [|discriminate]. inversion H; subst h. clear H.
  revert es Hes. generalize (ks_keys ks) as keys. induction keys as [|[k|] t IH]; cbn [Untrusted.to_entries]; intros es H.
  - inversion H. constructor.
  - apply bind_ok in H. destruct H as [e [He H]]. apply bind_ok in H. destruct H as [es' [Hes H]].
    inversion H; subst. constructor; [|apply IH; exact Hes].
    unfold Untrusted.to_entry in He. destruct (k_data k) as [kd|]; [|discriminate].
    apply bind_ok in He. destruct He as [d [Hd He]]. destruct (negb _); [discriminate|]. inversion He; subst e.
    rewrite out_material_tag. cbn [eurl emat ekey]. rewrite (parse_key_tag L _ _ _ _ Hd). apply parse_key_label with (1 := Hd).
  - discriminate.
Qed.

(* a key object that serialises to public or remote material came in with a
   public or remote label (public key types check the label, the fallback key
   keeps it, every other kind serialises to symmetric or private material) *)
Lemma public_material_public_label ks h : handle_from_proto L (Some ks) = Ok h ->
  Forall (fun e => public_or_remote (out_material e) -> public_or_remote (emat e)) h.
Proof.
  intros H. pose proof (accepted_label_is_material ks h H) as A. pose proof (out_material_by_url L ks h H) as M.
  clear H. induction M as [|e t [Me _] _ IH]; [constructor|].
  inversion A as [|? ? Ae At]; subst. constructor; [|apply IH; exact At].
  intros P. destruct (label_checked (url_tag (eurl e))) eqn:C.
  - rewrite (Ae eq_refl). exact P.
  - unfold label_checked in C. apply negb_false_iff in C. unfold memt in C. apply existsb_exists in C.
    destruct C as (x & Hx & E). apply N.eqb_eq in E. subst x.
    rewrite Me in P. unfold url_material in P.
    cbn [In] in Hx. destruct Hx as [X|[X|[X|[X|[X|[X|[]]]]]]]; rewrite <- X in P; vm_compute in P;
      [exact P | | | | |]; destruct P; discriminate.
Qed.

(* THE no-secrets import theorem, all 41 transcribed key types and the
   fallback key (/repo b141c20; before it the five parsers that ignore the
   label let mislabelled symmetric keys in): on a keyset the cleartext
   construction accepts as h, NewHandleWithNoSecrets returns h iff every key
   object serialises to public or remote material, iff WriteWithNoSecrets
   writes h; otherwise it is an error. *)
Theorem no_secrets_import_iff_export ks h :
  handle_from_proto L (Some ks) = Ok h ->
  (handle_no_secrets L (Some ks) = Ok h <-> Forall (fun e => public_or_remote (out_material e)) h)
  /\ (handle_no_secrets L (Some ks) = Ok h <-> exists b, write_no_secrets h = Ok b)
  /\ (handle_no_secrets L (Some ks) = Err <-> Exists (fun e => ~ public_or_remote (url_material (eurl e) (emat e))) h).
Proof.
  intros H.
  pose proof (public_material_public_label ks h H) as PL.
  pose proof (out_material_by_url L ks h H) as M.
  destruct (handle_from_proto_full L ks h H) as [F (e0 & Hin0 & _)].
  assert (Hne : h <> []) by (intros ->; destruct Hin0).
  assert (Q : Forall (fun e => public_or_remote (out_material e)) h ->
              Forall (fun k => public_or_remote (key_material k)) (ks_keys ks)).
  { clear H Hin0 Hne M. induction F as [|k e keys es [_ (pk & kd & -> & D & _ & _ & Mt & _)] _ IH]; [constructor|].
    inversion PL as [|? ? Pe Pt]; subst. intros X. inversion X as [|? ? Xe Xt]; subst.
    constructor; [|apply IH; assumption]. cbn [key_material]. rewrite D, <- Mt. apply Pe. exact Xe. }
  assert (I : handle_no_secrets L (Some ks) = Ok h <-> Forall (fun e => public_or_remote (out_material e)) h).
  { rewrite no_secrets_ok_iff. split; [tauto | intros X; auto]. }
  split; [exact I|]. split; [rewrite I; symmetry; apply write_no_secrets_iff; exact Hne|].
  assert (E : Forall (fun e => public_or_remote (out_material e)) h
              <-> Forall (fun e => public_or_remote (url_material (eurl e) (emat e))) h).
  { clear -M. induction M as [|e t [Me _] _ IH]; [split; constructor|].
    rewrite !Forall_cons_iff, Me. tauto. }
  split.
  - intros Herr. apply neg_Forall_Exists_neg.
    + intros e. unfold public_or_remote. destruct (N.eq_dec (url_material (eurl e) (emat e)) 3);
        destruct (N.eq_dec (url_material (eurl e) (emat e)) 4); (left; tauto) || (right; tauto).
    + intros Hall. apply E, I in Hall. congruence.
  - intros Hex. destruct (handle_no_secrets L (Some ks)) as [h'| |] eqn:R; [| reflexivity |].
    + exfalso. apply no_secrets_ok_iff in R. destruct R as (R0 & _ & R). rewrite H in R0. inversion R0; subst h'.
      apply E in R. rewrite Exists_exists in Hex. destruct Hex as (e & Hin & Hn). rewrite Forall_forall in R. exact (Hn (R e Hin)).
    + exfalso. exact (handle_no_secrets_np L _ R).
Qed.

(* every handle a no-secrets reader returns can be written by WriteWithNoSecrets
   and holds no key whose serializer writes symmetric or private material *)
Theorem no_secrets_handle_is_exportable ks h :
  handle_no_secrets L ks = Ok h ->
  (exists b, write_no_secrets h = Ok b) /\ Forall (fun e => public_or_remote (out_material e)) h.
Proof.
  intros R. destruct (handle_no_secrets_inv L ks h R) as [H S]. apply handle_has_secrets_iff in S.
  split; [|exact S]. apply write_no_secrets_iff; [|exact S].
  destruct ks as [k|]; [|discriminate]. destruct (handle_from_proto_full L k h H) as [_ (e & Hin & _)].
  intros ->. destruct Hin.
Qed.

End Labels.

(* The witness of the former finding (an HmacKey labelled ASYMMETRIC_PUBLIC):
   the cleartext reader accepts it, the key object holds symmetric material,
   and the no-secrets import now refuses it, as the export always did. *)
Definition refuting_std : stdlib :=
  mkStd (fun _ _ => false) (fun _ _ => None) (fun _ => []) (fun _ _ => None) (fun _ _ => [])
        (fun _ _ _ _ _ => None) (fun _ _ _ _ _ _ _ _ => false) (fun _ _ => []).
Definition mislabelled_hmac_keyset : keyset :=
  mkKS 7 [Some (mkPK (Some (mkKD u_hmac ([18; 4; 8; 3; 16; 16] ++ [26; 16] ++ repeat 9 16%nat) km_public))
                     st_enabled 7 pt_tink)].

Theorem mislabelled_symmetric_key_rejected_at_import :
  exists h e,
    handle_from_proto refuting_std (Some mislabelled_hmac_keyset) = Ok h
    /\ has_secrets mislabelled_hmac_keyset = false
    /\ In e h /\ out_material e = km_symmetric
    /\ handle_no_secrets refuting_std (Some mislabelled_hmac_keyset) = Err
    /\ read_no_secrets refuting_std (ser_keyset mislabelled_hmac_keyset) = Err
    /\ write_no_secrets h = Err.
Proof.
  eexists. eexists.
  split; [vm_compute; reflexivity|]. split; [vm_compute; reflexivity|].
  split; [left; reflexivity|]. split; [vm_compute; reflexivity|].
  split; [vm_compute; reflexivity|]. split; vm_compute; reflexivity.
Qed.

(* ------------------------------------------------------------------ *)
(* the encrypted keyset                                                *)
(* ------------------------------------------------------------------ *)
Section Encrypted2.
Variable L : stdlib.
Variable K : Type.
Variable aead_enc : K -> bytes -> bytes -> bytes -> bytes.     (* key, iv, plaintext, associated data *)
Variable aead_dec : K -> bytes -> bytes -> option bytes.       (* key, ciphertext, associated data *)
Notation read_encrypted k := (read_encrypted L (aead_dec k)).

(* Unconditionally (any function pair, no law): whoever reads what Write wrote
   has made the AEAD open exactly the ciphertext Write produced, under the key
   and associated data of the READER, and the opened plaintext is a keyset
   accepted as the returned handle. *)
Theorem read_of_written_opens_the_ciphertext k k' h iv ad ad' b h' :
  write_encrypted_binary (aead_enc k) h iv ad = Ok b ->
  blen (encrypted_ct (aead_enc k) h iv ad) < two64 ->
  read_encrypted k' b ad' = Ok h' ->
  exists pt ks, aead_dec k' (aead_enc k iv (ser_keyset (proto_of_handle h)) ad) ad' = Some pt
    /\ decode_keyset pt = Some ks /\ accepted_as ks h'.
Proof.
  unfold write_encrypted_binary. destruct h as [|e0 t]; [discriminate|]. intros H S R. inversion H; subst b.
  apply read_encrypted_wf in R. destruct R as (ct & pt & ks & D & A & B & C).
  rewrite written_binary_decodes in D by exact S. inversion D; subst ct. exists pt, ks. auto.
Qed.

(* The event "the key-encryption AEAD opens ciphertext ct under (k', ad') and
   what it returns is a keyset the reader accepts".  When (k', ad') is not the
   pair that produced ct this is a key / associated-data COMMITMENT failure of
   the AEAD on this ciphertext.  AES-GCM, ChaCha20-Poly1305 and AES-GCM-SIV are
   not committing: for them the event is excluded only computationally, for
   honestly chosen keys - no theorem here claims it cannot happen. *)
Definition opens_to_a_keyset (k' : K) (ad' ct : bytes) : Prop :=
  exists pt ks h', aead_dec k' ct ad' = Some pt /\ decode_keyset pt = Some ks /\ accepted_as ks h'.

(* Reduction: a reader that returns a handle under another key or other
   associated data than Write used exhibits that event on the ciphertext Write
   produced (the EncryptedKeyset framing hands the reader exactly that
   ciphertext). *)
Theorem wrong_key_or_ad_read_is_commitment_failure k k' h iv ad ad' b h' :
  write_encrypted_binary (aead_enc k) h iv ad = Ok b ->
  blen (encrypted_ct (aead_enc k) h iv ad) < two64 ->
  (k' <> k \/ ad' <> ad) ->
  read_encrypted k' b ad' = Ok h' ->
  opens_to_a_keyset k' ad' (encrypted_ct (aead_enc k) h iv ad).
Proof.
  intros W S _ R. destruct (read_of_written_opens_the_ciphertext _ _ _ _ _ _ _ _ W S R) as (pt & ks & A & B & C).
  exists pt, ks, h'. auto.
Qed.

(* Corollary under a hypothesis about THIS ciphertext only: if it does not
   open under (k', ad'), or opens to bytes that are no keyset, the read is an
   error. *)
Theorem wrong_key_or_ad_rejected_when_ciphertext_does_not_open k k' h iv ad ad' b :
  write_encrypted_binary (aead_enc k) h iv ad = Ok b ->
  blen (encrypted_ct (aead_enc k) h iv ad) < two64 ->
  (aead_dec k' (encrypted_ct (aead_enc k) h iv ad) ad' = None
   \/ forall pt, aead_dec k' (encrypted_ct (aead_enc k) h iv ad) ad' = Some pt -> decode_keyset pt = None) ->
  read_encrypted k' b ad' = Err.
Proof.
  intros W S N. destruct (read_encrypted k' b ad') as [h'| |] eqn:R; [| reflexivity |].
  - exfalso. destruct (read_of_written_opens_the_ciphertext _ _ _ _ _ _ _ _ W S R) as (pt & ks & A & B & _).
    unfold encrypted_ct in N. destruct N as [N|N]; [congruence | rewrite (N pt A) in B; discriminate].
  - exfalso. exact (read_encrypted_np L _ _ _ R).
Qed.

(* With the right key and associated data, for an AEAD whose Decrypt inverts
   Encrypt, the reader returns THE handle that was written. *)
Hypothesis aead_correct : forall k iv pt ad, aead_dec k (aead_enc k iv pt ad) ad = Some pt.

Theorem right_key_reads_the_handle k ks h iv ad b :
  handle_from_proto L (Some ks) = Ok h -> wire_keyset ks -> canonical_labels h ->
  write_encrypted_binary (aead_enc k) h iv ad = Ok b ->
  blen (encrypted_ct (aead_enc k) h iv ad) < two64 ->
  blen (ser_keyset (proto_of_handle h)) < two64 ->
  read_encrypted k b ad = Ok h.
Proof.
  intros H W C Hw S Z. destruct (reread_handle L ks h H W C Z) as [D R].
  unfold write_encrypted_binary in Hw. destruct h as [|e0 t]; [discriminate|]. inversion Hw; subst b.
  unfold Untrusted.read_encrypted. rewrite written_binary_decodes by exact S.
  unfold encrypted_ct. rewrite aead_correct, D. exact R.
Qed.

(* in particular for every handle that was itself read from bytes *)
Corollary right_key_reads_the_handle_read k b0 h iv ad b :
  read L b0 = Ok h -> canonical_labels h ->
  write_encrypted_binary (aead_enc k) h iv ad = Ok b ->
  blen (encrypted_ct (aead_enc k) h iv ad) < two64 ->
  blen (ser_keyset (proto_of_handle h)) < two64 ->
  read_encrypted k b ad = Ok h.
Proof.
  intros R. destruct (read_is_wire L b0 h R) as (ks & _ & W & H). intros. eapply right_key_reads_the_handle; eassumption.
Qed.

End Encrypted2.

(* ------------------------------------------------------------------ *)
(* A composite ML-DSA PUBLIC key the parser accepts holds a classical PUBLIC
   key (since /repo bcdec3e; before it NewPublicKey only compared the
   classical key's parameters, which a private key of the same parameters
   satisfies, so that a "public" key could carry - and WriteWithNoSecrets
   write out - a private seed: finding composite_public_key_carries_private_key). *)
(* ------------------------------------------------------------------ *)
Definition classical_public_kind (d : pkd) : bool :=
  match d with
  | PEd25519Pub | PEcdsaPub _ _ _ _ | PRsaPssPub _ _ _ _ | PRsaPkcs1Pub _ _ _ => true
  | _ => false
  end.

Section CompositePublic.
Variable L : stdlib.

Ltac pub_done :=
  cbn [classical_public_kind]; let K := fresh in intros K; try discriminate K;
  match goal with H : negb (kd_mat _ =? km_public) = false |- _ => apply negb_false_iff, N.eqb_eq in H; exact H end.

Ltac pubk :=
  repeat match goal with
  | |- (if ?c then _ else _) = Ok _ -> _ => let C := fresh "C" in destruct c eqn:C
  | |- okb _ _ = Ok _ -> _ => let H := fresh in intros H; apply okb_ok in H; destruct H as [_ ->]; pub_done
  | |- bind _ _ = Ok _ -> _ =>
      let H := fresh in let a := fresh in intros H; apply bind_ok in H; destruct H as [a [_ H]]; revert H; cbv beta
  | |- Ok _ = Ok _ -> _ => let H := fresh in intros H; inversion H; pub_done
  | |- Err = Ok _ -> _ => discriminate
  | |- Panic = Ok _ -> _ => discriminate
  | |- (let (_, _) := ?p in _) = Ok _ -> _ => destruct p
  | |- match ?o with Some _ => _ | None => _ end = Ok _ -> _ => destruct o
  end.

(* a classical public key object comes from key data labelled ASYMMETRIC_PUBLIC *)
Lemma classical_public_kind_label kd p i d : parse_key_base L kd p i = Ok d ->
  classical_public_kind d = true -> kd_mat kd = km_public.
Proof.
  unfold Untrusted.parse_key_base, parse_key_more, parse_ed25519_pub, parse_ed25519_priv, parse_rsa_priv,
    parse_ecies_pub, parse_ecies_priv, parse_hpke_pub, parse_hpke_priv,
    parse_stream_gcm_hkdf, parse_stream_ctr_hmac, parse_jwt_hmac, parse_jwt_ecdsa_pub, parse_jwt_ecdsa_priv,
    parse_jwt_rsa_pub, parse_mldsa_pub, parse_slhdsa_pub, parse_slhdsa_priv,
    parse_jwt_rsa_priv, parse_jwt_mldsa_pub, parse_mldsa_priv, parse_jwt_mldsa_priv, ed25519_from_seed.
  cbv zeta. pubk.
Qed.

Theorem composite_public_key_holds_public_classical_key kd prefix idreq d :
  parse_composite L false kd prefix idreq = Ok d ->
  let ckd := keydata_of (get_sub 3 (fields_or_nil (kd_value kd))) in
  let mkd := keydata_of (get_sub 2 (fields_or_nil (kd_value kd))) in
  kd_mat kd = km_public
  /\ parse_mldsa_pub mkd pt_raw 0 = Ok PMlDsaPub /\ kd_mat mkd = km_public
  /\ exists cd, parse_key_base L ckd pt_raw 0 = Ok cd /\ classical_public_kind cd = true /\ kd_mat ckd = km_public.
Proof.
  intros H. destruct (UntrustedPrefix5Proofs.composite_parts L false kd prefix idreq d H) as (M & _ & (Pm & _) & cd & Pc & C).
  cbv zeta. split; [exact M|]. split; [exact Pm|]. split.
  - revert Pm. unfold parse_mldsa_pub. destruct (negb (kd_mat _ =? km_public)) eqn:E; [discriminate|].
    intros _. apply negb_false_iff, N.eqb_eq in E. exact E.
  - exists cd. split; [exact Pc|].
    assert (K : classical_public_kind cd = true).
    { revert C. unfold composite_of_classical. destruct cd; try discriminate; try reflexivity;
        try (destruct pss); intros C; apply okb_ok in C; destruct C as [C _]; discriminate C. }
    split; [exact K | eapply classical_public_kind_label; eassumption].
Qed.

End CompositePublic.

(* the witness of the finding: an ML-DSA-65 / Ed25519 composite public key whose
   classical slot holds an Ed25519 private key (Ed25519 public key of a seed =
   the seed, for this example's standard library) is refused at parse, by every
   entry point *)
Definition cw_std : stdlib :=
  mkStd (fun _ _ => false) (fun _ _ => None) (fun seed => seed) (fun _ _ => None) (fun _ _ => [])
        (fun _ _ _ _ _ => None) (fun _ _ _ _ _ _ _ _ => false) (fun _ _ => []).
Definition cw_seed : bytes := repeat 94 32%nat.
Definition cw_mldsa_pub_value : bytes := enc_bytes_field 2 (repeat 7 1952%nat) ++ enc_len_field 3 [8; 1].
Definition cw_ed25519_priv_value : bytes := enc_bytes_field 2 cw_seed ++ enc_len_field 3 (enc_bytes_field 2 cw_seed).
Definition cw_ed25519_pub_value : bytes := enc_bytes_field 2 cw_seed.
Definition cw_composite_value (classical : keydata) : bytes :=
  enc_len_field 2 (ser_keydata (mkKD u_mldsa_pub cw_mldsa_pub_value km_public))
  ++ enc_len_field 3 (ser_keydata classical)
  ++ enc_len_field 4 [8; 1; 16; 1].
Definition cw_keyset (classical : keydata) : keyset :=
  mkKS 9 [Some (mkPK (Some (mkKD u_composite_pub (cw_composite_value classical) km_public)) st_enabled 9 pt_tink)].
Definition cw_private_classical : keydata := mkKD u_ed25519_priv cw_ed25519_priv_value km_private.
Definition cw_public_classical : keydata := mkKD u_ed25519_pub cw_ed25519_pub_value km_public.

Theorem composite_public_key_with_private_classical_key_rejected :
  (* the nested private key is a perfectly good Ed25519 private key on its own *)
  parse_key_base cw_std cw_private_classical pt_raw 0 = Ok (PEd25519Priv cw_seed)
  /\ has_secrets (cw_keyset cw_private_classical) = false
  /\ handle_from_proto cw_std (Some (cw_keyset cw_private_classical)) = Err
  /\ handle_no_secrets cw_std (Some (cw_keyset cw_private_classical)) = Err
  /\ read_no_secrets cw_std (ser_keyset (cw_keyset cw_private_classical)) = Err
  (* with the public key in the slot the same keyset is accepted, imported and exported *)
  /\ exists h, handle_no_secrets cw_std (Some (cw_keyset cw_public_classical)) = Ok h
        /\ write_no_secrets h = Ok (ser_keyset (cw_keyset cw_public_classical)).
Proof.
  split; [vm_compute; reflexivity|]. split; [vm_compute; reflexivity|]. split; [vm_compute; reflexivity|].
  split; [vm_compute; reflexivity|]. split; [vm_compute; reflexivity|].
  exists (match handle_from_proto cw_std (Some (cw_keyset cw_public_classical)) with Ok h => h | _ => [] end).
  split; vm_compute; reflexivity.
Qed.
