(* C16 — SLH-DSA keys and signatures conform to FIPS 205 on every input.
   Only statements + `exact`; proofs live in proofs/Slhdsa*Proofs.v.

   The model (model/Slhdsa*.v) follows internal/signature/slhdsa: one mutable
   address threaded through chain / WOTS+ / XMSS / FORS / hypertree, the
   digest split with its masks, the key encodings.  The six hash functions
   are ABSTRACT (a record `hashes`); the only law assumed of them is their
   output length (`hashes_ok`), which the SHA2 / SHAKE instantiations of
   hash.go satisfy given the digest sizes of the stdlib primitives.  All
   theorems therefore hold for arbitrary hash functions: they are about the
   address bookkeeping, index extraction, chunking and tree recomputation. *)
From Coq Require Import List NArith Bool Arith.
From Tink Require Import Bytes SlhdsaSupport SlhdsaAddr SlhdsaBase SlhdsaWots SlhdsaXmss SlhdsaFors SlhdsaHt
  Slhdsa SlhdsaHash SlhdsaParams SlhdsaSpec
  SlhdsaSupportProofs SlhdsaWotsProofs SlhdsaXmssProofs SlhdsaForsProofs SlhdsaHtProofs SlhdsaProofs SlhdsaParamsProofs
  SlhdsaFipsSupport SlhdsaFipsLayers SlhdsaFipsTop SlhdsaFipsHash ConstsTieC16 SlhdsaTwelve SlhdsaForgery SlhdsaApiProofs SlhdsaTargetSubset.
From Tink Require SlhdsaFips.
Import ListNotations.
Open Scope N_scope.

(* === every produced signature verifies ================================= *)

(* For every parameter record with h = d*hp and d >= 1, every hash family with
   n-byte outputs, all n-byte seeds, every message, every context of at most
   255 bytes and every randomizer: Sign succeeds on the generated key, the
   signature has the FIPS 205 size, and Verify under the generated public key
   accepts it. *)
Theorem C16_verify_accepts_every_signature :
  forall (P : params) (HS : hashes), hashes_ok P HS -> params_wf P ->
  forall skSeed skPrf pkSeed msg ctx addrnd,
    length skSeed = p_n P -> length skPrf = p_n P -> length pkSeed = p_n P -> (length ctx <= 255)%nat ->
    let sk := keygen P HS skSeed skPrf pkSeed in
    let pk := skipn (2 * p_n P) sk in
    exists sig, sign P HS sk msg ctx addrnd = Some sig /\ length sig = sig_len P
                /\ verify P HS pk msg sig ctx = Some true.
Proof. exact verify_sign. Qed.
Print Assumptions C16_verify_accepts_every_signature.

(* The same for the twelve parameter sets with the hash.go instantiations,
   from nothing but the digest lengths of SHA-256, SHA-512, SHAKE256, HMAC. *)
Theorem C16_twelve_sets_verify_accept_every_signature :
  forall (sha256 sha512 : bytes -> bytes) (shake256 : bytes -> nat -> bytes) (hmac256 hmac512 : bytes -> bytes -> bytes),
    (forall m, length (sha256 m) = 32%nat) -> (forall m, length (sha512 m) = 64%nat) ->
    (forall m l, length (shake256 m l) = l) ->
    (forall k m, length (hmac256 k m) = 32%nat) -> (forall k m, length (hmac512 k m) = 64%nat) ->
  forall s, In s all_sets ->
    let P := fst s in
    let HS := mk_hashes sha256 sha512 shake256 hmac256 hmac512 (snd s) P in
  forall skSeed skPrf pkSeed msg ctx addrnd,
    length skSeed = p_n P -> length skPrf = p_n P -> length pkSeed = p_n P -> (length ctx <= 255)%nat ->
    let sk := keygen P HS skSeed skPrf pkSeed in
    exists sig, sign P HS sk msg ctx addrnd = Some sig /\ length sig = sig_len P
                /\ verify P HS (skipn (2 * p_n P) sk) msg sig ctx = Some true.
Proof.
  intros sha256 sha512 shake256 hmac256 hmac512 H1 H2 H3 H4 H5 s Hs P HS.
  destruct (all_sets_wf s Hs) as [WF Hn].
  exact (verify_sign P HS (mk_hashes_ok _ _ _ _ _ H1 H2 H3 H4 H5 (snd s) P Hn) WF).
Qed.
Print Assumptions C16_twelve_sets_verify_accept_every_signature.

(* signInternal / verifyInternal as coded (key = the three seeds + root) *)
Theorem C16_verifyInternal_signInternal :
  forall P HS, hashes_ok P HS -> params_wf P -> forall skSeed skPrf pkSeed msg addrnd,
    verifyInternal P HS pkSeed (keygenRoot P HS skSeed pkSeed) msg
      (signInternal P HS skSeed skPrf pkSeed (keygenRoot P HS skSeed pkSeed) msg addrnd) = true.
Proof. exact verify_sign_internal. Qed.
Print Assumptions C16_verifyInternal_signInternal.

(* === lengths =========================================================== *)

Theorem C16_signature_length :
  forall P HS, hashes_ok P HS -> params_wf P -> forall skSeed skPrf pkSeed pkRoot msg addrnd,
    length (signInternal P HS skSeed skPrf pkSeed pkRoot msg addrnd) = sig_len P.
Proof. exact signInternal_length. Qed.
Print Assumptions C16_signature_length.

(* a signature of any other length is rejected, whatever the hash functions *)
Theorem C16_wrong_length_rejected :
  forall P HS pkSeed pkRoot msg sig, length sig <> sig_len P -> verifyInternal P HS pkSeed pkRoot msg sig = false.
Proof. exact verifyInternal_wrong_length. Qed.
Print Assumptions C16_wrong_length_rejected.

(* === index extraction =================================================== *)

(* every digest yields idx_leaf < 2^h' and idx_tree < 2^(h-h') *)
Theorem C16_index_bounds :
  forall P digest md idxTree idxLeaf, split_digest P digest = (md, idxTree, idxLeaf) ->
    idxLeaf < 2 ^ N.of_nat (p_hp P) /\ idxTree < 2 ^ N.of_nat (p_h P - p_hp P).
Proof.
  intros P digest md idxTree idxLeaf H. split;
    [exact (split_digest_leaf_lt P _ _ _ _ H) | exact (split_digest_tree_lt P _ _ _ _ H)].
Qed.
Print Assumptions C16_index_bounds.

(* every base-w digit (message digits and checksum digits) is at most w-1 *)
Theorem C16_wots_digits_below_w :
  forall P msg i, nth i (wotsChecksum P msg) 0 <= N.of_nat (p_w P) - 1.
Proof. exact wotsChecksum_digit. Qed.
Print Assumptions C16_wots_digits_below_w.

(* === support functions ================================================= *)

(* base_2^b (FIPS 205 Algorithm 4): the digits are the first outLen*b bits of x
   as a big-endian base-2^b number, each below 2^b — for every width up to 25
   bits, although the Go loop keeps its accumulator in a wrapping uint32 *)
Theorem C16_base2b_value :
  forall x b out, wfb x -> (b <= 25)%nat -> (out * b <= 8 * length x)%nat ->
    digits_val b (base2b x b out) = be_val x / 2 ^ N.of_nat (8 * length x - out * b)
    /\ Forall (fun d => d < 2 ^ N.of_nat b) (base2b x b out) /\ length (base2b x b out) = out.
Proof. exact base2b_value. Qed.
Print Assumptions C16_base2b_value.

Theorem C16_toInt_big_endian :
  forall x k, (k <= 8)%nat -> (k <= length x)%nat -> wfb x -> toInt x k = be_val (firstn k x).
Proof. exact toInt_be_val. Qed.
Print Assumptions C16_toInt_big_endian.

Theorem C16_toInt_toByte :
  forall v k, (k <= 8)%nat -> toInt (toByte v k) k = (v mod 2 ^ 32) mod 256 ^ N.of_nat k.
Proof. exact toInt_toByte. Qed.
Print Assumptions C16_toInt_toByte.

(* WOTS+ checksum (Algorithm 7 lines 3-8): what follows the message digits is
   exactly len2 digits below w whose base-w value is sum_i (w-1-msg_i) — the
   left shift, toByte and base_2^b lose nothing; the premises hold for all
   twelve sets (C16_parameter_sets_wellformed) *)
Theorem C16_wots_checksum_digits :
  forall P, (1 <= p_lgw P <= 25)%nat -> (p_len2 P * p_lgw P <= 32)%nat -> forall msg,
    exists cs, wotsChecksum P msg = base2b msg (p_lgw P) (p_len1 P) ++ cs
      /\ length cs = p_len2 P
      /\ Forall (fun d => d < 2 ^ N.of_nat (p_lgw P)) cs
      /\ digits_val (p_lgw P) cs = csum_spec P (base2b msg (p_lgw P) (p_len1 P)).
Proof. exact wotsChecksum_value. Qed.
Print Assumptions C16_wots_checksum_digits.

(* === the layers, as coded (mutable address included) ==================== *)

Theorem C16_chain_compose :
  forall (HS : hashes) a b x i pk ad,
    chain HS (fst (chain HS x i a pk ad)) (i + N.of_nat a) b pk (snd (chain HS x i a pk ad))
    = chain HS x i (a + b) pk ad.
Proof. exact chain_compose. Qed.
Print Assumptions C16_chain_compose.

(* WOTS+: the public key recomputed from a signature is the generated one,
   for any three WOTS_HASH addresses agreeing on layer, tree and key pair *)
Theorem C16_wots_pkFromSig_sign :
  forall P HS, hashes_ok P HS -> forall msg sk pk ad ad1 ad2,
    a_typ ad = T_WOTSHASH -> eq23 ad1 ad -> eq23 ad2 ad ->
    fst (wotsPkFromSig P HS (fst (wotsSign P HS msg sk pk ad)) msg pk ad1) = fst (wotsPkGen P HS sk pk ad2).
Proof. exact wots_complete. Qed.
Print Assumptions C16_wots_pkFromSig_sign.

(* XMSS: for EVERY leaf index below 2^h' the signature leads back to the root *)
Theorem C16_xmss_pkFromSig_sign :
  forall P HS, hashes_ok P HS -> forall msg sk idx pk ad ad1 ad2,
    eqlt ad1 ad -> eqlt ad2 ad -> idx < 2 ^ N.of_nat (p_hp P) ->
    fst (xmssPkFromSig P HS idx (fst (xmssSign P HS msg sk idx pk ad)) msg pk ad1)
    = fst (xmssNode P HS (p_hp P) sk 0 pk ad2).
Proof. exact xmss_complete. Qed.
Print Assumptions C16_xmss_pkFromSig_sign.

(* FORS: for every digest the public key recomputed from forsSign's output is
   Tl over the k roots (node i at height a) of the FORS trees *)
Theorem C16_fors_pkFromSig_sign :
  forall P HS, hashes_ok P HS -> forall md sk pk ad ad1,
    a_typ ad = T_FORSTREE -> eq23 ad1 ad ->
    fst (forsPkFromSig P HS (fst (forsSign P HS md sk pk ad)) md pk ad1)
    = forsPkS P HS (a_layer ad) (a_tree ad) (a_kp ad) sk pk.
Proof. exact fors_complete. Qed.
Print Assumptions C16_fors_pkFromSig_sign.

(* hypertree: htVerify accepts htSign against the root keygen computes, for
   every in-range (idxTree, idxLeaf) *)
Theorem C16_ht_verify_sign :
  forall P HS, hashes_ok P HS -> (1 <= p_d P)%nat -> forall msg sk pk idxTree idxLeaf,
    idxLeaf < 2 ^ N.of_nat (p_hp P) -> idxTree < 2 ^ N.of_nat ((p_d P - 1) * p_hp P) ->
    htVerify P HS msg (htSign P HS msg sk pk idxTree idxLeaf) pk idxTree idxLeaf
      (fst (xmssNode P HS (p_hp P) sk 0 pk (setLayerAddress (N.of_nat (p_d P - 1)) newAddress))) = true.
Proof. exact ht_complete. Qed.
Print Assumptions C16_ht_verify_sign.

(* === the Go-shaped (address-threading) functions compute the FIPS-shaped
       ones (explicit addresses, model/SlhdsaSpec.v) ======================= *)

Theorem C16_threaded_equals_fips_shape :
  forall P HS,
    (forall z sk i pk ad, fst (xmssNode P HS z sk i pk ad) = xmssNodeS P HS (a_layer ad) (a_tree ad) sk pk z i) /\
    (forall msg sk idx pk ad, fst (xmssSign P HS msg sk idx pk ad) = xmssSignS P HS (a_layer ad) (a_tree ad) msg sk idx pk) /\
    (forall idx sig msg pk ad, fst (xmssPkFromSig P HS idx sig msg pk ad) = xmssPkFromSigS P HS (a_layer ad) (a_tree ad) idx sig msg pk) /\
    (forall md sk pk ad, a_typ ad = T_FORSTREE ->
       fst (forsSign P HS md sk pk ad) = forsSignS P HS (a_layer ad) (a_tree ad) (a_kp ad) (base2b md (p_a P) (p_k P)) sk pk) /\
    (forall sig md pk ad, a_typ ad = T_FORSTREE ->
       fst (forsPkFromSig P HS sig md pk ad) = forsPkFromSigS P HS (a_layer ad) (a_tree ad) (a_kp ad) (base2b md (p_a P) (p_k P)) sig pk) /\
    (forall sk pk, keygenRoot P HS sk pk = pkRootS P HS sk pk) /\
    (forall msg sk pk idxTree idxLeaf, htSign P HS msg sk pk idxTree idxLeaf = htSignS P HS msg sk pk idxTree idxLeaf) /\
    (forall msg sigHT pk idxTree idxLeaf root, htVerify P HS msg sigHT pk idxTree idxLeaf root = htVerifyS P HS msg sigHT pk idxTree idxLeaf root).
Proof.
  intros P HS. repeat split; intros.
  - apply xmssNode_spec. - apply xmssSign_spec. - apply xmssPkFromSig_spec.
  - apply forsSign_spec; auto. - apply forsPkFromSig_spec; auto.
  - unfold keygenRoot, pkRootS. rewrite (proj1 (xmssNode_spec _ _ _ _ _ _ _)). reflexivity.
  - apply htSign_spec. - apply htVerify_spec.
Qed.
Print Assumptions C16_threaded_equals_fips_shape.

(* verifyInternal is Algorithm 20 on the FIPS-shaped functions: length check,
   split, digest, FORS public key from the signature, hypertree verification *)
Theorem C16_verifyInternal_fips_shape :
  forall P HS pkSeed pkRoot msg sig,
    verifyInternal P HS pkSeed pkRoot msg sig = verifyInternalS P HS pkSeed pkRoot msg sig.
Proof. exact verifyInternal_fips. Qed.
Print Assumptions C16_verifyInternal_fips_shape.

(* === the parameter sets ================================================= *)

(* all twelve sets: h = d*hp, d >= 1, n <= 32, h-hp <= 64, hp < 32, 1 <= lgw <= 25,
   len2*lgw <= 32, a <= 25, m = ceil(k*a/8) + ceil((h-hp)/8) + ceil(hp/8) *)
Theorem C16_parameter_sets_wellformed : forallb set_ok all_sets = true.
Proof. exact all_sets_ok. Qed.
Print Assumptions C16_parameter_sets_wellformed.

(* n, w, len1, len2, len, signature / public key / secret key sizes *)
Theorem C16_derived_values :
  derived param128s = [16; 16; 32; 3; 35; 7856; 32; 64] /\
  derived param128f = [16; 16; 32; 3; 35; 17088; 32; 64] /\
  derived param192s = [24; 16; 48; 3; 51; 16224; 48; 96] /\
  derived param192f = [24; 16; 48; 3; 51; 35664; 48; 96] /\
  derived param256s = [32; 16; 64; 3; 67; 29792; 64; 128] /\
  derived param256f = [32; 16; 64; 3; 67; 49856; 64; 128].
Proof. exact derived_values. Qed.
Print Assumptions C16_derived_values.

(* === non-vacuity ======================================================== *)
(* A toy hash family (a polynomial checksum modulo 65521) on a toy parameter record satisfies the
   premises; on it sign/verify compute: the genuine signature is accepted,
   the signature with one byte changed and a changed message are rejected. *)
Definition toyP : params := mkParams 2 4 2 2 2 2 2 3.
Definition toy_sum (l : bytes) : N := fold_left (fun acc b => (acc * 31 + b + 1) mod 65521) l 7.
Definition toy_mix (l : bytes) : bytes := let s := toy_sum l in [s mod 256; s / 256].
Definition toyHS : hashes :=
  mkHashes (fun r s t m => let x := toy_sum (r ++ s ++ t ++ m) in [x mod 256; (3 * x + 1) mod 256; (5 * x + 2) mod 256])
           (fun p s a => toy_mix (p ++ adrs_bytes a ++ s))
           (fun s o m => toy_mix (s ++ o ++ m))
           (fun p a x => toy_mix (p ++ compress a ++ x))
           (fun p a x => toy_mix (p ++ adrs_bytes a ++ x))
           (fun p a x => toy_mix (p ++ adrs_bytes a ++ x)).

Example C16_nonvacuous :
  hashes_ok toyP toyHS /\ params_wf toyP /\
  let sk := keygen toyP toyHS [1; 2] [3; 4] [5; 6] in
  let pk := skipn 4 sk in
  match sign toyP toyHS sk [9; 9; 9] [7] [8; 8] with
  | Some sig => verify toyP toyHS pk [9; 9; 9] sig [7] = Some true
                /\ verify toyP toyHS pk [9; 9; 8] sig [7] = Some false
                /\ verify toyP toyHS pk [9; 9; 9] (firstn 10 sig ++ [N.lxor (nth 10 sig 0) 1] ++ skipn 11 sig) [7] = Some false
                /\ verify toyP toyHS pk [9; 9; 9] (firstn 10 sig) [7] = Some false
  | None => False
  end.
Proof.
  split; [constructor; intros; reflexivity|]. split; [split; [reflexivity|apply le_S, le_n]|].
  vm_compute. repeat split.
Qed.


(* ========================================================================
   STRETCH ROUND: the implementation model computes FIPS 205 as the standard
   writes it.

   model/SlhdsaFips.v (module F below) is a transcription of FIPS 205 made
   from the text of the standard, independently of the Go code and of the
   implementation model: unbounded integers; toInt / toByte / base_2b as
   Algorithms 2-4; ADRS as a 32-byte string with the Table 1 member functions
   as byte splices, passed BY VALUE; Algorithms 5-20, 22, 24 line by line with
   the slices the standard writes (getSK, getAUTH, getXMSSSignature, getR, ...),
   h/d, the ceilings, the digest split with `mod 2^(h-h/d)`; sections 11.1 /
   11.2.1 / 11.2.2 (ADRS^c, Trunc_n, MGF1 of RFC 8017); Table 2 as literals.
   It shares nothing with model/Slhdsa*.v except the type `bytes`.
   ======================================================================== *)

(* A family of the six functions over address RECORDS (what the implementation
   model takes) that agrees pointwise with a family over 32-byte ADRS strings
   (what the standard takes).  hash.go's functions use adrs[:] or
   adrs.compress() only, so every instantiation is of this form
   (C16_hash_go_is_fips_section_11). *)

(* Algorithm 19: for every parameter record satisfying fips_wf (h = d*h', d >= 1,
   h-h' <= 64, h' <= 32, 1 <= lg_w <= 25, a <= 25, len2*lg_w <= 32, k*2^a <= 2^32),
   every pair of agreeing hash families, ALL byte strings as seeds, root,
   message and randomizer (no length premise): signInternal = slh_sign_internal. *)
Theorem C16_signInternal_is_fips_alg19 :
  forall P HS HF, hashes_agree HS HF -> fips_wf P = true ->
  forall skSeed skPrf pkSeed pkRoot msg addrnd,
    signInternal P HS skSeed skPrf pkSeed pkRoot msg addrnd
    = F.slh_sign_internal (to_fips P) HF msg (skSeed, skPrf, pkSeed, pkRoot) addrnd.
Proof. exact signInternal_fips. Qed.
Print Assumptions C16_signInternal_is_fips_alg19.

(* Algorithm 20, for ALL byte strings as key, message and signature *)
Theorem C16_verifyInternal_is_fips_alg20 :
  forall P HS HF, hashes_agree HS HF -> fips_wf P = true ->
  forall pkSeed pkRoot msg sig,
    verifyInternal P HS pkSeed pkRoot msg sig = F.slh_verify_internal (to_fips P) HF msg sig (pkSeed, pkRoot).
Proof. exact verifyInternal_fips_alg20. Qed.
Print Assumptions C16_verifyInternal_is_fips_alg20.

(* Algorithm 18 (and the section 9.1 encoding of its secret key) *)
Theorem C16_keygen_is_fips_alg18 :
  forall P HS HF, hashes_agree HS HF -> fips_wf P = true ->
  forall skSeed skPrf pkSeed,
    F.slh_keygen_internal (to_fips P) HF skSeed skPrf pkSeed
    = ((skSeed, skPrf, pkSeed, keygenRoot P HS skSeed pkSeed), (pkSeed, keygenRoot P HS skSeed pkSeed))
    /\ keygen P HS skSeed skPrf pkSeed = F.sk_encode (fst (F.slh_keygen_internal (to_fips P) HF skSeed skPrf pkSeed)).
Proof.
  intros P HS HF AG WF skSeed skPrf pkSeed.
  split; [exact (keygen_fips P HS HF AG WF _ _ _)|exact (keygen_encoded_fips P HS HF AG WF _ _ _)].
Qed.
Print Assumptions C16_keygen_is_fips_alg18.

(* Algorithms 22 / 24 (context string: M' = toByte(0,1) || toByte(|ctx|,1) || ctx || M,
   |ctx| > 255 refused) around the section 9.1 key decodings, for ALL byte strings *)
Theorem C16_sign_verify_are_fips_alg22_alg24 :
  forall P HS HF, hashes_agree HS HF -> fips_wf P = true ->
  (forall sk msg ctx addrnd,
     sign P HS sk msg ctx addrnd
     = match F.sk_decode (to_fips P) sk with
       | Some SK => F.slh_sign (to_fips P) HF msg ctx SK addrnd
       | None => None
       end) /\
  (forall pk msg sig ctx,
     verify P HS pk msg sig ctx
     = match F.pk_decode (to_fips P) pk with
       | Some PK => Some (F.slh_verify (to_fips P) HF msg sig ctx PK)
       | None => None
       end).
Proof. intros P HS HF AG WF. split; [exact (sign_fips P HS HF AG WF)|exact (verify_fips P HS HF AG WF)]. Qed.
Print Assumptions C16_sign_verify_are_fips_alg22_alg24.

(* the Tink layer: output prefix (0x01 || toByte(id,4) or empty) around slh_sign / slh_verify
   with the empty context *)
Theorem C16_tink_layer_is_prefix_around_fips :
  forall P HS HF, hashes_agree HS HF -> fips_wf P = true ->
  (forall tv id pk msg sig,
     tink_verify P HS tv id pk msg sig
     = match F.pk_decode (to_fips P) pk with
       | None => None
       | Some PK =>
         let pre := tink_prefix_spec tv id in
         Some (if beq (F.sl sig 0 (length pre)) pre
               then F.slh_verify (to_fips P) HF msg (F.sl sig (length pre) (length sig)) [] PK else false)
       end) /\
  (forall tv id sk msg addrnd,
     tink_sign P HS tv id sk msg addrnd
     = match F.sk_decode (to_fips P) sk with
       | None => None
       | Some SK => match F.slh_sign (to_fips P) HF msg [] SK addrnd with
                    | Some s => Some (tink_prefix_spec tv id ++ s)
                    | None => None
                    end
       end).
Proof. intros P HS HF AG WF. split; [exact (tink_verify_fips P HS HF AG WF)|exact (tink_sign_fips P HS HF AG WF)]. Qed.
Print Assumptions C16_tink_layer_is_prefix_around_fips.

(* the building blocks (section 4): toByte, toInt, base_2b, the ceilings and
   lengths, the ADRS member functions and the compressed address *)
Theorem C16_section4_functions_are_fips :
  (forall x k, SlhdsaSupport.toByte x k = F.toByte (u32 x) k) /\
  (forall X k, SlhdsaSupport.toInt X k = F.toInt X k mod 2 ^ 64) /\
  (forall X b out, (b + 7 <= 32)%nat -> base2b X b out = F.base_2b X b out) /\
  (forall P, (1 <= p_lgw P)%nat ->
     F.f_len1 (to_fips P) = p_len1 P /\ F.f_len2 (to_fips P) = p_len2 P /\ F.f_len (to_fips P) = p_len P) /\
  (forall ad l t y i,
     F.setLayerAddress l (adrs_bytes ad) = adrs_bytes (setLayerAddress l ad) /\
     (t < 2 ^ 64 -> F.setTreeAddress t (adrs_bytes ad) = adrs_bytes (setTreeAddress t ad)) /\
     F.setTypeAndClear y (adrs_bytes ad) = adrs_bytes (setTypeAndClear y ad) /\
     F.setKeyPairAddress i (adrs_bytes ad) = adrs_bytes (setKeyPairAddress i ad) /\
     F.setChainAddress i (adrs_bytes ad) = adrs_bytes (setChainAddress i ad) /\
     F.setTreeHeight i (adrs_bytes ad) = adrs_bytes (setTreeHeight i ad) /\
     F.setHashAddress i (adrs_bytes ad) = adrs_bytes (setHashAddress i ad) /\
     F.setTreeIndex i (adrs_bytes ad) = adrs_bytes (setTreeIndex i ad) /\
     F.getKeyPairAddress (adrs_bytes ad) = a_kp ad mod 2 ^ 32 /\
     F.getTreeIndex (adrs_bytes ad) = a_w3 ad mod 2 ^ 32 /\
     F.ADRSc (adrs_bytes ad) = compress ad /\ length (adrs_bytes ad) = 32%nat) /\
  F.toByte 0 32 = adrs_bytes newAddress.
Proof. exact section4_functions_fips. Qed.
Print Assumptions C16_section4_functions_are_fips.

(* hash.go = FIPS 205 section 11 (11.1 SHAKE, 11.2.1 SHA2 category 1, 11.2.2 SHA2
   categories 3 and 5), given the digest lengths of SHA-256 and SHA-512 (MGF1 rounds) *)
Theorem C16_hash_go_is_fips_section_11 :
  forall (sha256 sha512 : bytes -> bytes) (shake256 : bytes -> nat -> bytes) (hmac256 hmac512 : bytes -> bytes -> bytes),
    (forall m, length (sha256 m) = 32%nat) -> (forall m, length (sha512 m) = 64%nat) ->
  forall hk P,
    hashes_agree (mk_hashes sha256 sha512 shake256 hmac256 hmac512 hk P)
                 (fips_inst sha256 sha512 shake256 hmac256 hmac512 (family_of hk) (p_n P) (p_m P)).
Proof. exact mk_hashes_fips. Qed.
Print Assumptions C16_hash_go_is_fips_section_11.

(* === the parameter sets are Table 2 of FIPS 205 ========================== *)

(* the twelve regenerated sets (gen/SlhdsaParams.v, from slhdsa.go), in order:
   section-11 family, (n, h, d, h', a, k, lg_w, m), public key bytes 2n and the
   signature length verifyInternal checks = the twelve literal rows of Table 2 *)
Theorem C16_parameter_sets_are_fips_table2 : map row_of all_sets = F.table2.
Proof. exact tie_all_sets. Qed.
Print Assumptions C16_parameter_sets_are_fips_table2.

(* Table 2 agrees with the standard's own formulas: pk = 2n, sig = (1+k(1+a)+h+d*len)*n,
   m = ceil(k*a/8)+ceil((h-h/d)/8)+ceil(h/(8d)), h = d*h', w = 16, len = 2n+3 *)
Theorem C16_table2_consistent_with_fips_formulas : forallb row_consistent F.table2 = true.
Proof. exact table2_consistent. Qed.
Print Assumptions C16_table2_consistent_with_fips_formulas.

Theorem C16_parameter_sets_lengths_are_table2 :
  forall s, In s all_sets ->
  exists fam fp pkb sigb, In (fam, fp, pkb, sigb) F.table2 /\ to_fips (fst s) = fp /\ family_of (snd s) = fam /\
    N.of_nat (2 * p_n (fst s)) = pkb /\ N.of_nat (4 * p_n (fst s)) = 2 * pkb /\ N.of_nat (sig_len (fst s)) = sigb.
Proof. exact tie_lengths. Qed.
Print Assumptions C16_parameter_sets_lengths_are_table2.

Theorem C16_parameter_sets_fips_wf : forallb (fun s => fips_wf (fst s)) all_sets = true.
Proof. exact all_sets_fips_wf. Qed.
Print Assumptions C16_parameter_sets_fips_wf.

(* === all twelve sets, as instantiated by hash.go, compute FIPS 205 ======= *)
Theorem C16_twelve_sets_compute_fips_205 :
  forall (sha256 sha512 : bytes -> bytes) (shake256 : bytes -> nat -> bytes) (hmac256 hmac512 : bytes -> bytes -> bytes),
    (forall m, length (sha256 m) = 32%nat) -> (forall m, length (sha512 m) = 64%nat) ->
  forall s, In s all_sets ->
    let P := fst s in
    let FP := to_fips P in
    let HS := mk_hashes sha256 sha512 shake256 hmac256 hmac512 (snd s) P in
    let HF := fips_inst sha256 sha512 shake256 hmac256 hmac512 (family_of (snd s)) (F.f_n FP) (F.f_m FP) in
    In (row_of s) F.table2 /\
    (forall skSeed skPrf pkSeed,
       keygen P HS skSeed skPrf pkSeed = F.sk_encode (fst (F.slh_keygen_internal FP HF skSeed skPrf pkSeed))) /\
    (forall skSeed skPrf pkSeed pkRoot msg addrnd,
       signInternal P HS skSeed skPrf pkSeed pkRoot msg addrnd
       = F.slh_sign_internal FP HF msg (skSeed, skPrf, pkSeed, pkRoot) addrnd) /\
    (forall pkSeed pkRoot msg sig,
       verifyInternal P HS pkSeed pkRoot msg sig = F.slh_verify_internal FP HF msg sig (pkSeed, pkRoot)) /\
    (forall sk msg ctx addrnd,
       sign P HS sk msg ctx addrnd
       = match F.sk_decode FP sk with Some SK => F.slh_sign FP HF msg ctx SK addrnd | None => None end) /\
    (forall pk msg sig ctx,
       verify P HS pk msg sig ctx
       = match F.pk_decode FP pk with Some PK => Some (F.slh_verify FP HF msg sig ctx PK) | None => None end).
Proof. exact twelve_sets_compute_fips. Qed.
Print Assumptions C16_twelve_sets_compute_fips_205.

(* key-pair consistency for the twelve sets: the generated secret key is
   SK.seed || SK.prf || PK.seed || PK.root with PK.root the root Algorithm 18
   computes from (SK.seed, PK.seed) under THIS set's functions, the public key
   is its last 2n bytes PK.seed || PK.root, both have the Table 2 sizes, and
   that public key is the one under which verify recomputes the root: it
   accepts every signature the secret key produces. *)
Theorem C16_twelve_sets_keypair_consistency :
  forall (sha256 sha512 : bytes -> bytes) (shake256 : bytes -> nat -> bytes) (hmac256 hmac512 : bytes -> bytes -> bytes),
    (forall m, length (sha256 m) = 32%nat) -> (forall m, length (sha512 m) = 64%nat) ->
    (forall m l, length (shake256 m l) = l) ->
    (forall k m, length (hmac256 k m) = 32%nat) -> (forall k m, length (hmac512 k m) = 64%nat) ->
  forall s, In s all_sets ->
    let P := fst s in
    let FP := to_fips P in
    let HS := mk_hashes sha256 sha512 shake256 hmac256 hmac512 (snd s) P in
    let HF := fips_inst sha256 sha512 shake256 hmac256 hmac512 (family_of (snd s)) (F.f_n FP) (F.f_m FP) in
  forall skSeed skPrf pkSeed,
    length skSeed = p_n P -> length skPrf = p_n P -> length pkSeed = p_n P ->
    let sk := keygen P HS skSeed skPrf pkSeed in
    let pk := skipn (2 * p_n P) sk in
    let root := snd (snd (F.slh_keygen_internal FP HF skSeed skPrf pkSeed)) in
    sk = skSeed ++ skPrf ++ pkSeed ++ root /\ pk = pkSeed ++ root /\
    length sk = (4 * p_n P)%nat /\ length pk = (2 * p_n P)%nat /\
    forall msg ctx addrnd, (length ctx <= 255)%nat ->
      exists sig, sign P HS sk msg ctx addrnd = Some sig /\ verify P HS pk msg sig ctx = Some true.
Proof. exact twelve_sets_keypair. Qed.
Print Assumptions C16_twelve_sets_keypair_consistency.

(* === a signature of the wrong length is rejected, at every layer ========= *)
Theorem C16_wrong_length_rejected_by_verify :
  forall P HS pk msg sig ctx, length sig <> sig_len P ->
    verify P HS pk msg sig ctx = if Nat.eqb (length pk) (2 * p_n P) then Some false else None.
Proof. exact verify_wrong_length. Qed.
Print Assumptions C16_wrong_length_rejected_by_verify.

Theorem C16_wrong_length_rejected_by_tink_verify :
  forall P HS tv id pk msg sig, length sig <> (length (tink_prefix tv id) + sig_len P)%nat ->
    tink_verify P HS tv id pk msg sig = if Nat.eqb (length pk) (2 * p_n P) then Some false else None.
Proof. exact tink_verify_wrong_length. Qed.
Print Assumptions C16_wrong_length_rejected_by_tink_verify.

(* the Tink verifier accepts exactly prefix || s with s accepted by Verify(msg, s, ctx = empty) *)
Theorem C16_tink_verify_accepts_iff :
  forall P HS tv id pk msg sig,
    tink_verify P HS tv id pk msg sig = Some true <->
    exists s, sig = tink_prefix tv id ++ s /\ verify P HS pk msg s [] = Some true.
Proof. exact tink_verify_accepts_iff. Qed.
Print Assumptions C16_tink_verify_accepts_iff.

(* === "any modification of a signature is rejected", as a reduction ======= *)
(* BOTH events of the reductions are LOCATED: booleans computed from the two given
   signatures (proofs/SlhdsaForgery.v).  Unlocated existentials are free -- "there
   exist x <> y with F/H/T_l(x) = (y)" by pigeonhole under the output laws (third
   audit), "there exist two WOTS+ signatures ..." for the holder of the chain
   starts (C16_unlocated_switch_would_be_free) -- and would make the theorems say
   nothing.
   located_collision P HS pkSeed pkRoot msg sig sig' : the traces (function among
   F/H/T_l, ADRS, input) of the verifications of sig and of sig' (for the selectors
   of (msg, sig)) contain two calls of the SAME function with the SAME ADRS on
   DIFFERENT inputs of EQUAL length with EQUAL outputs (C16_located_collision_meaning).
   sig_switch P HS pkSeed pkRoot msg sig sig' : at some hypertree layer the WOTS+
   parts of the XMSS blocks of sig and sig' lead to the SAME WOTS+ public key
   although the base-w digit strings (message digits ++ checksum digits) of the
   values the two verifications sign there DIFFER.
   Premises: hashes_ok (output lengths), params_wf, hashes_wfb (outputs are byte
   strings), digits_wf (len1*lg_w = 8n, 1 <= lg_w <= 25, len2*lg_w <= 32; the twelve
   sets satisfy it).
   Two accepted (message, signature) pairs under one public key whose digests select
   the same FORS indices / tree / leaf have the same body SIG_FORS || SIG_HT, or the
   located switch is true of them, or the located collision is true of them. *)
Theorem C16_two_accepted_signatures_reduction :
  forall P HS, hashes_ok P HS -> params_wf P -> hashes_wfb HS -> digits_wf P ->
  forall pkSeed pkRoot msg sig msg' sig',
    verifyInternal P HS pkSeed pkRoot msg sig = true ->
    verifyInternal P HS pkSeed pkRoot msg' sig' = true ->
    selectors P HS pkSeed pkRoot msg sig = selectors P HS pkSeed pkRoot msg' sig' ->
    sig_body P sig = sig_body P sig' \/ sig_switch P HS pkSeed pkRoot msg sig sig' = true
    \/ located_collision P HS pkSeed pkRoot msg sig sig' = true.
Proof. exact two_accepted_signatures. Qed.
Print Assumptions C16_two_accepted_signatures_reduction.

(* what located_collision = true says (the two entries are IN the two traces) *)
Theorem C16_located_collision_meaning :
  forall P HS pkSeed pkRoot msg sig sig', located_collision P HS pkSeed pkRoot msg sig sig' = true ->
  let sel := selectors P HS pkSeed pkRoot msg sig in
  exists k ad x y, In (k, ad, x) (sig_trace P HS pkSeed sel sig) /\ In (k, ad, y) (sig_trace P HS pkSeed sel sig') /\
    x <> y /\ length x = length y /\ (0 < length x)%nat /\ call_out HS pkSeed (k, ad, x) = call_out HS pkSeed (k, ad, y).
Proof. intros P HS pkSeed pkRoot msg sig sig' H. exact (cb_sound HS pkSeed _ _ H). Qed.
Print Assumptions C16_located_collision_meaning.

(* same key, same message, same randomizer R, different signature, both accepted *)
Theorem C16_modified_signature_reduction :
  forall P HS, hashes_ok P HS -> params_wf P -> hashes_wfb HS -> digits_wf P ->
  (forall pkSeed pkRoot msg sig sig',
     verifyInternal P HS pkSeed pkRoot msg sig = true -> verifyInternal P HS pkSeed pkRoot msg sig' = true ->
     firstn (p_n P) sig = firstn (p_n P) sig' -> sig <> sig' ->
     sig_switch P HS pkSeed pkRoot msg sig sig' = true \/ located_collision P HS pkSeed pkRoot msg sig sig' = true) /\
  (forall pk msg ctx sig sig',
     verify P HS pk msg sig ctx = Some true -> verify P HS pk msg sig' ctx = Some true ->
     firstn (p_n P) sig = firstn (p_n P) sig' -> sig <> sig' ->
     sig_switch P HS (firstn (p_n P) pk) (skipn (p_n P) pk) (wrap_msg msg ctx) sig sig' = true
     \/ located_collision P HS (firstn (p_n P) pk) (skipn (p_n P) pk) (wrap_msg msg ctx) sig sig' = true) /\
  (forall tv id pk msg sig sig',
     tink_verify P HS tv id pk msg sig = Some true -> tink_verify P HS tv id pk msg sig' = Some true ->
     firstn (length (tink_prefix tv id) + p_n P) sig = firstn (length (tink_prefix tv id) + p_n P) sig' -> sig <> sig' ->
     sig_switch P HS (firstn (p_n P) pk) (skipn (p_n P) pk) (wrap_msg msg [])
       (skipn (length (tink_prefix tv id)) sig) (skipn (length (tink_prefix tv id)) sig') = true
     \/ located_collision P HS (firstn (p_n P) pk) (skipn (p_n P) pk) (wrap_msg msg [])
       (skipn (length (tink_prefix tv id)) sig) (skipn (length (tink_prefix tv id)) sig') = true).
Proof.
  intros P HS OK PW WB DW. split; [exact (modified_signature_accepted P HS OK PW WB DW)|].
  split; [exact (verify_modified_signature P HS OK PW WB DW)|exact (tink_verify_modified_signature P HS OK PW WB DW)].
Qed.
Print Assumptions C16_modified_signature_reduction.

(* the same for the twelve sets as instantiated by hash.go, from laws of the
   stdlib primitives only (digest lengths; outputs are byte strings) *)
Theorem C16_twelve_sets_modified_signature_reduction :
  forall (sha256 sha512 : bytes -> bytes) (shake256 : bytes -> nat -> bytes) (hmac256 hmac512 : bytes -> bytes -> bytes),
    (forall m, length (sha256 m) = 32%nat) -> (forall m, length (sha512 m) = 64%nat) ->
    (forall m l, length (shake256 m l) = l) ->
    (forall k m, length (hmac256 k m) = 32%nat) -> (forall k m, length (hmac512 k m) = 64%nat) ->
    (forall m, wfb (sha256 m)) -> (forall m, wfb (sha512 m)) -> (forall m l, wfb (shake256 m l)) ->
  forall s, In s all_sets ->
    let P := fst s in
    let HS := mk_hashes sha256 sha512 shake256 hmac256 hmac512 (snd s) P in
  forall pkSeed pkRoot msg sig sig',
    verifyInternal P HS pkSeed pkRoot msg sig = true -> verifyInternal P HS pkSeed pkRoot msg sig' = true ->
    firstn (p_n P) sig = firstn (p_n P) sig' -> sig <> sig' ->
    sig_switch P HS pkSeed pkRoot msg sig sig' = true \/ located_collision P HS pkSeed pkRoot msg sig sig' = true.
Proof. exact twelve_sets_modified_signature. Qed.
Print Assumptions C16_twelve_sets_modified_signature_reduction.

(* what a located switch is, at the place that sig_switch_find COMPUTES (layer j,
   WOTS+ address (l, t, kp), the two values M, M' signed there) and at the chains
   that first_lt COMPUTES (the first chain where the digit of M is below that of M',
   and the first where it is above): the WOTS+ parts of the two j-th XMSS blocks
   are related by chain walking IN BOTH DIRECTIONS (`walks`): at chain i the value
   of sig' is the image of the value of sig under m'_i - m_i >= 1 applications of F,
   and at chain i' the value of sig is the image of the value of sig' under
   m_i' - m'_i' >= 1 applications -- or the located collision is true.  Both
   searches succeed whenever sig_switch is true (the digit strings form an
   antichain); sig_switch_find = None exactly when sig_switch = false. *)
Theorem C16_located_switch_is_chain_walking_both_ways :
  forall P HS, hashes_ok P HS -> params_wf P -> digits_wf P ->
  forall pkSeed pkRoot msg sig sig',
    length sig = sig_len P -> length sig' = sig_len P ->
    match sig_switch_find P HS pkSeed pkRoot msg sig sig' with
    | None => sig_switch P HS pkSeed pkRoot msg sig sig' = false
    | Some (j, l, t, kp, M, M') =>
      sig_switch P HS pkSeed pkRoot msg sig sig' = true /\ (j < p_d P)%nat /\
      let X := gchunk (xmssSigSize P) j (sig_ht P sig) in let X' := gchunk (xmssSigSize P) j (sig_ht P sig') in
      exists i i', first_lt (wotsChecksum P M) (wotsChecksum P M') = Some i /\
                   first_lt (wotsChecksum P M') (wotsChecksum P M) = Some i' /\ (i < p_len P)%nat /\ (i' < p_len P)%nat /\
        (walks P HS pkSeed l t kp M M' X X' i i' \/ located_collision P HS pkSeed pkRoot msg sig sig' = true)
    end.
Proof. intros P HS OK PW DW. exact (sig_switch_walk P HS OK PW DW). Qed.
Print Assumptions C16_located_switch_is_chain_walking_both_ways.

(* the WOTS+ checksum (Algorithm 7 lines 3-7): two different digit strings are
   incomparable -- some digit goes up and some digit goes down *)
Theorem C16_wots_digit_strings_are_an_antichain :
  forall P, digits_wf P -> forall M M', wotsChecksum P M <> wotsChecksum P M' ->
    (exists i, (i < p_len P)%nat /\ nth i (wotsChecksum P M) 0 < nth i (wotsChecksum P M') 0) /\
    (exists i, (i < p_len P)%nat /\ nth i (wotsChecksum P M') 0 < nth i (wotsChecksum P M) 0).
Proof. exact checksum_antichain. Qed.
Print Assumptions C16_wots_digit_strings_are_an_antichain.

(* why the switch is LOCATED: without reference to the two given signatures,
   "two WOTS+ signatures on values with different digits and the same WOTS+ public
   key" exist for EVERY hash family and every two values (the holder of the chain
   start values signs both) -- such a disjunct would be true for free *)
Theorem C16_unlocated_switch_would_be_free :
  forall P HS pk, hashes_ok P HS -> forall l t kp M M' sk,
    wotsPkFromSigS P HS l t kp (wotsChecksum P M) (wotsSignS P HS l t kp (wotsChecksum P M) sk pk) pk
    = wotsPkFromSigS P HS l t kp (wotsChecksum P M') (wotsSignS P HS l t kp (wotsChecksum P M') sk pk) pk.
Proof. exact unlocated_switch_is_free. Qed.
Print Assumptions C16_unlocated_switch_would_be_free.

(* === modifications that change the digest: the target-subset event ======= *)
(* For a key pair generated from (SK.seed, PK.seed): ANY signature sig' accepted for
   a message msg is compared with genuine_sig = the signature Algorithm 19 produces
   for msg once its randomizer is fixed to R' = sig'[0:n] (signInternal is genuine_sig
   at R = PRF_msg(...), C16_signInternal_is_genuine_sig).  Both verify for the same
   digest, hence sig' has the GENUINE body, or the located switch / the located
   collision is true of (genuine_sig, sig').  No earlier signature appears, and the
   digest may select any hypertree leaf. *)
Theorem C16_accepted_signature_vs_key_holders_signature :
  forall P HS, hashes_ok P HS -> params_wf P -> hashes_wfb HS -> digits_wf P ->
  forall skSeed pkSeed msg sig',
    let pkRoot := keygenRoot P HS skSeed pkSeed in
    verifyInternal P HS pkSeed pkRoot msg sig' = true ->
    let g := genuine_sig P HS skSeed pkSeed pkRoot msg (firstn (p_n P) sig') in
    sig_body P g = sig_body P sig' \/ sig_switch P HS pkSeed pkRoot msg g sig' = true
    \/ located_collision P HS pkSeed pkRoot msg g sig' = true.
Proof. exact accepted_vs_genuine. Qed.
Print Assumptions C16_accepted_signature_vs_key_holders_signature.

(* ... and having the genuine body means: for each of the k FORS indices the digest
   of (R', msg) selects, sig' reveals exactly the secret PRF(PK.seed, SK.seed, FORS_PRF
   address of that leaf) (and the key holder's authentication paths and hypertree
   signature).  So a forger without a switch or a collision needs, for ALL k indices
   of its digest, secret values it can only have from earlier signatures whose digests
   selected the same leaves: the target-subset event of H_msg, explicitly. *)
Theorem C16_genuine_body_reveals_the_prf_secrets :
  forall P HS, hashes_ok P HS -> params_wf P ->
  forall skSeed pkSeed msg sig' md it il,
    let pkRoot := keygenRoot P HS skSeed pkSeed in
    length sig' = sig_len P ->
    split_digest P (hHMsg HS (firstn (p_n P) sig') pkSeed pkRoot msg) = (md, it, il) ->
    sig_body P (genuine_sig P HS skSeed pkSeed pkRoot msg (firstn (p_n P) sig')) = sig_body P sig' ->
    sig_fors P sig' = forsSignS P HS 0 it il (base2b md (p_a P) (p_k P)) skSeed pkSeed /\
    sig_ht P sig' = htSignS P HS (forsPkS P HS 0 it il skSeed pkSeed) skSeed pkSeed it il /\
    forall i, (i < p_k P)%nat ->
      fors_sk P i (sig_fors P sig')
      = hPrf HS pkSeed skSeed (mkA 0 it T_FORSPRF il 0 (forsLeafIdx P i (nth i (base2b md (p_a P) (p_k P)) 0))).
Proof. exact genuine_body_reveals_prf_secrets. Qed.
Print Assumptions C16_genuine_body_reveals_the_prf_secrets.

Theorem C16_signInternal_is_genuine_sig :
  forall P HS, hashes_ok P HS -> forall skSeed skPrf pkSeed pkRoot msg addrnd,
    signInternal P HS skSeed skPrf pkSeed pkRoot msg addrnd
    = genuine_sig P HS skSeed pkSeed pkRoot msg (hPrfMsg HS skPrf addrnd msg).
Proof. exact signInternal_genuine. Qed.
Print Assumptions C16_signInternal_is_genuine_sig.

(* the Merkle fact behind "consistent leaves": two openings of one tree at different
   leaves with the same root cross (the node one computes is an authentication node of
   the other), or the two climbs contain a located collision *)
Theorem C16_two_merkle_openings_cross :
  forall P HS, hashes_ok P HS -> forall pk mkad cnt tidx1 idx1 auth1 node1 tidx2 idx2 auth2 node2,
    length node1 = p_n P -> length node2 = p_n P ->
    (forall j, (j < cnt)%nat -> length (chunk P j auth1) = p_n P /\ length (chunk P j auth2) = p_n P) ->
    (forall j, (j < cnt)%nat -> N.land (N.shiftr idx1 (N.of_nat j)) 1 = N.land (N.shiftr tidx1 (N.of_nat j)) 1) ->
    (forall j, (j < cnt)%nat -> N.land (N.shiftr idx2 (N.of_nat j)) 1 = N.land (N.shiftr tidx2 (N.of_nat j)) 1) ->
    N.shiftr tidx1 (N.of_nat cnt) = N.shiftr tidx2 (N.of_nat cnt) -> tidx1 <> tidx2 ->
    climbS P HS mkad cnt 0 tidx1 idx1 auth1 pk node1 = climbS P HS mkad cnt 0 tidx2 idx2 auth2 pk node2 ->
    cb HS pk (tr_climb P HS pk mkad cnt 0 tidx1 idx1 auth1 node1) (tr_climb P HS pk mkad cnt 0 tidx2 idx2 auth2 node2) = true
    \/ exists kk, (kk < cnt)%nat /\
      N.land (N.shiftr tidx1 (N.of_nat kk)) 1 <> N.land (N.shiftr tidx2 (N.of_nat kk)) 1 /\
      climbS P HS mkad kk 0 tidx1 idx1 auth1 pk node1 = chunk P kk auth2 /\
      climbS P HS mkad kk 0 tidx2 idx2 auth2 pk node2 = chunk P kk auth1 /\
      forall j, (kk < j < cnt)%nat -> chunk P j auth1 = chunk P j auth2.
Proof. intros P HS OK pk mkad. exact (merge P HS OK pk mkad). Qed.
Print Assumptions C16_two_merkle_openings_cross.

(* a modified PK.root (same PK.seed): one signature cannot be accepted under two
   roots unless the two digests (PK.root is hashed into them) select differently *)
Theorem C16_modified_root_rejected_for_equal_selectors :
  forall P HS pkSeed pkRoot pkRoot' msg sig,
    verifyInternal P HS pkSeed pkRoot msg sig = true ->
    verifyInternal P HS pkSeed pkRoot' msg sig = true ->
    (let '(md, it, il) := split_digest P (hHMsg HS (firstn (p_n P) sig) pkSeed pkRoot msg) in (base2b md (p_a P) (p_k P), it, il))
    = (let '(md, it, il) := split_digest P (hHMsg HS (firstn (p_n P) sig) pkSeed pkRoot' msg) in (base2b md (p_a P) (p_k P), it, il)) ->
    pkRoot = pkRoot'.
Proof. exact two_roots. Qed.
Print Assumptions C16_modified_root_rejected_for_equal_selectors.

(* === non-vacuity of the stretch theorems ================================= *)
(* the toy family over 32-byte ADRS strings that toyHS agrees with *)
Definition toyHF : F.fips_hashes :=
  F.mkFH (fun r s t m => let x := toy_sum (r ++ s ++ t ++ m) in [x mod 256; (3 * x + 1) mod 256; (5 * x + 2) mod 256])
         (fun p s A => toy_mix (p ++ A ++ s))
         (fun s o m => toy_mix (s ++ o ++ m))
         (fun p A x => toy_mix (p ++ F.ADRSc A ++ x))
         (fun p A x => toy_mix (p ++ A ++ x))
         (fun p A x => toy_mix (p ++ A ++ x)).

Lemma toy_sum_lt l : toy_sum l < 65521.
Proof.
  unfold toy_sum. assert (G : forall l a, a < 65521 -> fold_left (fun acc b => (acc * 31 + b + 1) mod 65521) l a < 65521).
  { clear l. induction l as [|x l IH]; intros a Ha; cbn [fold_left]; [exact Ha|]. apply IH. apply N.mod_lt. discriminate. }
  apply G. reflexivity.
Qed.

Lemma toy_mix_wfb l : wfb (toy_mix l).
Proof.
  unfold toy_mix. pose proof (toy_sum_lt l) as Hs. cbv zeta.
  repeat constructor; [apply N.mod_lt; discriminate|].
  apply N.div_lt_upper_bound; [discriminate|]. eapply N.lt_trans; [exact Hs|reflexivity].
Qed.

(* premises of the FIPS equalities are inhabited; on the instance both sides
   compute to the same 66 bytes / the same verdicts (genuine, modified, short) *)
Example C16_fips_nonvacuous :
  hashes_agree toyHS toyHF /\ fips_wf toyP = true /\
  let sk := keygen toyP toyHS [1; 2] [3; 4] [5; 6] in
  let SK : bytes * bytes * bytes * bytes := ([1; 2], [3; 4], [5; 6], skipn 6 sk) in
  let sig := F.slh_sign_internal (to_fips toyP) toyHF [9; 9; 9] SK [8; 8] in
  fst (F.slh_keygen_internal (to_fips toyP) toyHF [1; 2] [3; 4] [5; 6]) = SK /\
  length sig = 66%nat /\ sig = signInternal toyP toyHS [1; 2] [3; 4] [5; 6] (skipn 6 sk) [9; 9; 9] [8; 8] /\
  F.slh_verify_internal (to_fips toyP) toyHF [9; 9; 9] sig ([5; 6], skipn 6 sk) = true /\
  F.slh_verify_internal (to_fips toyP) toyHF [9; 9; 8] sig ([5; 6], skipn 6 sk) = false /\
  F.slh_verify_internal (to_fips toyP) toyHF [9; 9; 9] (firstn 65 sig) ([5; 6], skipn 6 sk) = false.
Proof.
  split.
  { constructor; intros; cbn [toyHS toyHF hHMsg hPrf hPrfMsg hF hH hTl F.H_msg F.PRF F.PRF_msg F.F F.H F.T_l];
      rewrite ?AB_compress; reflexivity. }
  split; [reflexivity|]. vm_compute. repeat split.
Qed.

(* premises of the modified-signature reduction are inhabited, and on this pair the
   LOCATED COLLISION is true while the located switch is false: on the toy family
   (16-bit outputs) the genuine signature with its last two bytes 147,124 replaced by
   148,93 is accepted too (same key, same message, same R); the two verifications call H
   at the top of the hypertree (layer 1, tree 0, height 2, index 0) on two different
   4-byte inputs with the same 2-byte output, the public root. *)
Example C16_modified_signature_nonvacuous :
  hashes_ok toyP toyHS /\ params_wf toyP /\ hashes_wfb toyHS /\ digits_wf toyP /\
  let sk := keygen toyP toyHS [1; 2] [3; 4] [5; 6] in
  let root := skipn 6 sk in
  let sig := signInternal toyP toyHS [1; 2] [3; 4] [5; 6] root [9; 9; 9] [8; 8] in
  let sig' := firstn 64 sig ++ [148; 93] in
  verifyInternal toyP toyHS [5; 6] root [9; 9; 9] sig = true /\
  verifyInternal toyP toyHS [5; 6] root [9; 9; 9] sig' = true /\
  firstn (p_n toyP) sig = firstn (p_n toyP) sig' /\ sig <> sig' /\
  sig_switch toyP toyHS [5; 6] root [9; 9; 9] sig sig' = false /\
  located_collision toyP toyHS [5; 6] root [9; 9; 9] sig sig' = true /\
  let ad := mkA 1 0 T_TREE 0 2 0 in
  let x := [147; 124; 119; 44] in
  let y := [148; 93; 119; 44] in
  x <> y /\ length x = length y /\ hH toyHS [5; 6] ad x = hH toyHS [5; 6] ad y /\ hH toyHS [5; 6] ad x = root /\
  In (KH, ad, x) (sig_trace toyP toyHS [5; 6] (selectors toyP toyHS [5; 6] root [9; 9; 9] sig) sig) /\
  In (KH, ad, y) (sig_trace toyP toyHS [5; 6] (selectors toyP toyHS [5; 6] root [9; 9; 9] sig) sig').
Proof.
  split; [constructor; intros; reflexivity|]. split; [split; [reflexivity|apply le_S, le_n]|].
  split; [constructor; intros; apply toy_mix_wfb|].
  split; [unfold digits_wf; vm_compute; repeat split; repeat constructor|].
  vm_compute. repeat split; try discriminate; repeat (try (left; reflexivity); right).
Qed.

(* ... and on another accepted pair the LOCATED SWITCH is true while the located
   collision is FALSE (each event is refutable; neither is free): the holder of the
   secret seed replaces the FORS part by a FORS signature for other indices (which
   verification maps to another FORS public key M0') and the layer-0 WOTS+ part by its
   WOTS+ signature of M0'; the result is accepted for the same key, message and R,
   differs from the genuine signature, and sig_switch_find locates the switch at layer 0
   between the values [146;184] and [80;10]. *)
Example C16_located_switch_nonvacuous :
  let sk := keygen toyP toyHS [1; 2] [3; 4] [5; 6] in
  let root := skipn 6 sk in
  let sig := signInternal toyP toyHS [1; 2] [3; 4] [5; 6] root [9; 9; 9] [8; 8] in
  let '(ind, it, il) := selectors toyP toyHS [5; 6] root [9; 9; 9] sig in
  let ind' := [(nth 0 ind 0 + 1) mod 4; nth 1 ind 0] in
  let sF' := forsSignS toyP toyHS 0 it il ind' [1; 2] [5; 6] in
  let M0' := forsPkFromSigS toyP toyHS 0 it il ind sF' [5; 6] in
  let X0 := gchunk (xmssSigSize toyP) 0 (sig_ht toyP sig) in
  let X0' := wotsSignS toyP toyHS 0 it il (wotsChecksum toyP M0') [1; 2] [5; 6] ++ skipn (p_len toyP * 2) X0 in
  let sig' := firstn 2 sig ++ sF' ++ X0' ++ skipn (xmssSigSize toyP) (sig_ht toyP sig) in
  verifyInternal toyP toyHS [5; 6] root [9; 9; 9] sig = true /\
  verifyInternal toyP toyHS [5; 6] root [9; 9; 9] sig' = true /\
  firstn (p_n toyP) sig = firstn (p_n toyP) sig' /\ sig <> sig' /\
  sig_switch toyP toyHS [5; 6] root [9; 9; 9] sig sig' = true /\
  located_collision toyP toyHS [5; 6] root [9; 9; 9] sig sig' = false /\
  sig_switch_find toyP toyHS [5; 6] root [9; 9; 9] sig sig' = Some (0%nat, 0, 3, 0, [146; 184], [80; 10]).
Proof. vm_compute. repeat split; discriminate. Qed.

(* the key holder's signature for the randomizer of an accepted signature: on the genuine
   toy signature itself the first disjunct holds (bodies equal) and the revealed FORS values
   are the PRF secrets; on the modified one above the located collision is what holds *)
Example C16_accepted_vs_genuine_nonvacuous :
  let root := keygenRoot toyP toyHS [1; 2] [5; 6] in
  let sig := signInternal toyP toyHS [1; 2] [3; 4] [5; 6] root [9; 9; 9] [8; 8] in
  let g := genuine_sig toyP toyHS [1; 2] [5; 6] root [9; 9; 9] (firstn 2 sig) in
  let sig' := firstn 64 sig ++ [148; 93] in
  verifyInternal toyP toyHS [5; 6] root [9; 9; 9] sig = true /\ g = sig /\
  fors_sk toyP 0 (sig_fors toyP sig) = hPrf toyHS [5; 6] [1; 2] (mkA 0 3 T_FORSPRF 0 0 (forsLeafIdx toyP 0 1)) /\
  verifyInternal toyP toyHS [5; 6] root [9; 9; 9] sig' = true /\
  genuine_sig toyP toyHS [1; 2] [5; 6] root [9; 9; 9] (firstn 2 sig') = sig /\
  sig_body toyP sig <> sig_body toyP sig' /\
  located_collision toyP toyHS [5; 6] root [9; 9; 9] sig sig' = true.
Proof. vm_compute. repeat split; discriminate. Qed.
