(* C16 — SLH-DSA keys and signatures conform to FIPS 205 on every input.
   Only statements + `exact`; proofs live in proofs/Slhdsa*Proofs.v.

   The model (model/Slhdsa*.v) follows internal/signature/slhdsa: one mutable
   address threaded through chain / WOTS+ / XMSS / FORS / hypertree, the
   digest split with its masks, the key encodings.  The six hash functions
   are ABSTRACT (a record `hashes`); the only law assumed of them is their
   output length (`hashes_ok`), which the SHA2 / SHAKE instantiations of
   hash.go satisfy given the digest sizes of the stdlib primitives.  All
   theorems therefore hold for arbitrary hash functions: they are about the
   address bookkeeping, index extraction, chunking and tree recomputation. *)
From Coq Require Import List NArith Bool Arith.
From Tink Require Import Bytes SlhdsaSupport SlhdsaAddr SlhdsaBase SlhdsaWots SlhdsaXmss SlhdsaFors SlhdsaHt
  Slhdsa SlhdsaHash SlhdsaParams SlhdsaSpec
  SlhdsaSupportProofs SlhdsaWotsProofs SlhdsaXmssProofs SlhdsaForsProofs SlhdsaHtProofs SlhdsaProofs SlhdsaParamsProofs.
Import ListNotations.
Open Scope N_scope.

(* === every produced signature verifies ================================= *)

(* For every parameter record with h = d*hp and d >= 1, every hash family with
   n-byte outputs, all n-byte seeds, every message, every context of at most
   255 bytes and every randomizer: Sign succeeds on the generated key, the
   signature has the FIPS 205 size, and Verify under the generated public key
   accepts it. *)
Theorem C16_verify_accepts_every_signature :
  forall (P : params) (HS : hashes), hashes_ok P HS -> params_wf P ->
  forall skSeed skPrf pkSeed msg ctx addrnd,
    length skSeed = p_n P -> length skPrf = p_n P -> length pkSeed = p_n P -> (length ctx <= 255)%nat ->
    let sk := keygen P HS skSeed skPrf pkSeed in
    let pk := skipn (2 * p_n P) sk in
    exists sig, sign P HS sk msg ctx addrnd = Some sig /\ length sig = sig_len P
                /\ verify P HS pk msg sig ctx = Some true.
Proof. exact verify_sign. Qed.
Print Assumptions C16_verify_accepts_every_signature.

(* The same for the twelve parameter sets with the hash.go instantiations,
   from nothing but the digest lengths of SHA-256, SHA-512, SHAKE256, HMAC. *)
Theorem C16_twelve_sets_verify_accept_every_signature :
  forall (sha256 sha512 : bytes -> bytes) (shake256 : bytes -> nat -> bytes) (hmac256 hmac512 : bytes -> bytes -> bytes),
    (forall m, length (sha256 m) = 32%nat) -> (forall m, length (sha512 m) = 64%nat) ->
    (forall m l, length (shake256 m l) = l) ->
    (forall k m, length (hmac256 k m) = 32%nat) -> (forall k m, length (hmac512 k m) = 64%nat) ->
  forall s, In s all_sets ->
    let P := fst s in
    let HS := mk_hashes sha256 sha512 shake256 hmac256 hmac512 (snd s) P in
  forall skSeed skPrf pkSeed msg ctx addrnd,
    length skSeed = p_n P -> length skPrf = p_n P -> length pkSeed = p_n P -> (length ctx <= 255)%nat ->
    let sk := keygen P HS skSeed skPrf pkSeed in
    exists sig, sign P HS sk msg ctx addrnd = Some sig /\ length sig = sig_len P
                /\ verify P HS (skipn (2 * p_n P) sk) msg sig ctx = Some true.
Proof.
  intros sha256 sha512 shake256 hmac256 hmac512 H1 H2 H3 H4 H5 s Hs P HS.
  destruct (all_sets_wf s Hs) as [WF Hn].
  exact (verify_sign P HS (mk_hashes_ok _ _ _ _ _ H1 H2 H3 H4 H5 (snd s) P Hn) WF).
Qed.
Print Assumptions C16_twelve_sets_verify_accept_every_signature.

(* signInternal / verifyInternal as coded (key = the three seeds + root) *)
Theorem C16_verifyInternal_signInternal :
  forall P HS, hashes_ok P HS -> params_wf P -> forall skSeed skPrf pkSeed msg addrnd,
    verifyInternal P HS pkSeed (keygenRoot P HS skSeed pkSeed) msg
      (signInternal P HS skSeed skPrf pkSeed (keygenRoot P HS skSeed pkSeed) msg addrnd) = true.
Proof. exact verify_sign_internal. Qed.
Print Assumptions C16_verifyInternal_signInternal.

(* === lengths =========================================================== *)

Theorem C16_signature_length :
  forall P HS, hashes_ok P HS -> params_wf P -> forall skSeed skPrf pkSeed pkRoot msg addrnd,
    length (signInternal P HS skSeed skPrf pkSeed pkRoot msg addrnd) = sig_len P.
Proof. exact signInternal_length. Qed.
Print Assumptions C16_signature_length.

(* a signature of any other length is rejected, whatever the hash functions *)
Theorem C16_wrong_length_rejected :
  forall P HS pkSeed pkRoot msg sig, length sig <> sig_len P -> verifyInternal P HS pkSeed pkRoot msg sig = false.
Proof. exact verifyInternal_wrong_length. Qed.
Print Assumptions C16_wrong_length_rejected.

(* === index extraction =================================================== *)

(* every digest yields idx_leaf < 2^h' and idx_tree < 2^(h-h') *)
Theorem C16_index_bounds :
  forall P digest md idxTree idxLeaf, split_digest P digest = (md, idxTree, idxLeaf) ->
    idxLeaf < 2 ^ N.of_nat (p_hp P) /\ idxTree < 2 ^ N.of_nat (p_h P - p_hp P).
Proof.
  intros P digest md idxTree idxLeaf H. split;
    [exact (split_digest_leaf_lt P _ _ _ _ H) | exact (split_digest_tree_lt P _ _ _ _ H)].
Qed.
Print Assumptions C16_index_bounds.

(* every base-w digit (message digits and checksum digits) is at most w-1 *)
Theorem C16_wots_digits_below_w :
  forall P msg i, nth i (wotsChecksum P msg) 0 <= N.of_nat (p_w P) - 1.
Proof. exact wotsChecksum_digit. Qed.
Print Assumptions C16_wots_digits_below_w.

(* === support functions ================================================= *)

(* base_2^b (FIPS 205 Algorithm 4): the digits are the first outLen*b bits of x
   as a big-endian base-2^b number, each below 2^b — for every width up to 25
   bits, although the Go loop keeps its accumulator in a wrapping uint32 *)
Theorem C16_base2b_value :
  forall x b out, wfb x -> (b <= 25)%nat -> (out * b <= 8 * length x)%nat ->
    digits_val b (base2b x b out) = be_val x / 2 ^ N.of_nat (8 * length x - out * b)
    /\ Forall (fun d => d < 2 ^ N.of_nat b) (base2b x b out) /\ length (base2b x b out) = out.
Proof. exact base2b_value. Qed.
Print Assumptions C16_base2b_value.

Theorem C16_toInt_big_endian :
  forall x k, (k <= 8)%nat -> (k <= length x)%nat -> wfb x -> toInt x k = be_val (firstn k x).
Proof. exact toInt_be_val. Qed.
Print Assumptions C16_toInt_big_endian.

Theorem C16_toInt_toByte :
  forall v k, (k <= 8)%nat -> toInt (toByte v k) k = (v mod 2 ^ 32) mod 256 ^ N.of_nat k.
Proof. exact toInt_toByte. Qed.
Print Assumptions C16_toInt_toByte.

(* WOTS+ checksum (Algorithm 7 lines 3-8): what follows the message digits is
   exactly len2 digits below w whose base-w value is sum_i (w-1-msg_i) — the
   left shift, toByte and base_2^b lose nothing; the premises hold for all
   twelve sets (C16_parameter_sets_wellformed) *)
Theorem C16_wots_checksum_digits :
  forall P, (1 <= p_lgw P <= 25)%nat -> (p_len2 P * p_lgw P <= 32)%nat -> forall msg,
    exists cs, wotsChecksum P msg = base2b msg (p_lgw P) (p_len1 P) ++ cs
      /\ length cs = p_len2 P
      /\ Forall (fun d => d < 2 ^ N.of_nat (p_lgw P)) cs
      /\ digits_val (p_lgw P) cs = csum_spec P (base2b msg (p_lgw P) (p_len1 P)).
Proof. exact wotsChecksum_value. Qed.
Print Assumptions C16_wots_checksum_digits.

(* === the layers, as coded (mutable address included) ==================== *)

Theorem C16_chain_compose :
  forall (HS : hashes) a b x i pk ad,
    chain HS (fst (chain HS x i a pk ad)) (i + N.of_nat a) b pk (snd (chain HS x i a pk ad))
    = chain HS x i (a + b) pk ad.
Proof. exact chain_compose. Qed.
Print Assumptions C16_chain_compose.

(* WOTS+: the public key recomputed from a signature is the generated one,
   for any three WOTS_HASH addresses agreeing on layer, tree and key pair *)
Theorem C16_wots_pkFromSig_sign :
  forall P HS, hashes_ok P HS -> forall msg sk pk ad ad1 ad2,
    a_typ ad = T_WOTSHASH -> eq23 ad1 ad -> eq23 ad2 ad ->
    fst (wotsPkFromSig P HS (fst (wotsSign P HS msg sk pk ad)) msg pk ad1) = fst (wotsPkGen P HS sk pk ad2).
Proof. exact wots_complete. Qed.
Print Assumptions C16_wots_pkFromSig_sign.

(* XMSS: for EVERY leaf index below 2^h' the signature leads back to the root *)
Theorem C16_xmss_pkFromSig_sign :
  forall P HS, hashes_ok P HS -> forall msg sk idx pk ad ad1 ad2,
    eqlt ad1 ad -> eqlt ad2 ad -> idx < 2 ^ N.of_nat (p_hp P) ->
    fst (xmssPkFromSig P HS idx (fst (xmssSign P HS msg sk idx pk ad)) msg pk ad1)
    = fst (xmssNode P HS (p_hp P) sk 0 pk ad2).
Proof. exact xmss_complete. Qed.
Print Assumptions C16_xmss_pkFromSig_sign.

(* FORS: for every digest the public key recomputed from forsSign's output is
   Tl over the k roots (node i at height a) of the FORS trees *)
Theorem C16_fors_pkFromSig_sign :
  forall P HS, hashes_ok P HS -> forall md sk pk ad ad1,
    a_typ ad = T_FORSTREE -> eq23 ad1 ad ->
    fst (forsPkFromSig P HS (fst (forsSign P HS md sk pk ad)) md pk ad1)
    = forsPkS P HS (a_layer ad) (a_tree ad) (a_kp ad) sk pk.
Proof. exact fors_complete. Qed.
Print Assumptions C16_fors_pkFromSig_sign.

(* hypertree: htVerify accepts htSign against the root keygen computes, for
   every in-range (idxTree, idxLeaf) *)
Theorem C16_ht_verify_sign :
  forall P HS, hashes_ok P HS -> (1 <= p_d P)%nat -> forall msg sk pk idxTree idxLeaf,
    idxLeaf < 2 ^ N.of_nat (p_hp P) -> idxTree < 2 ^ N.of_nat ((p_d P - 1) * p_hp P) ->
    htVerify P HS msg (htSign P HS msg sk pk idxTree idxLeaf) pk idxTree idxLeaf
      (fst (xmssNode P HS (p_hp P) sk 0 pk (setLayerAddress (N.of_nat (p_d P - 1)) newAddress))) = true.
Proof. exact ht_complete. Qed.
Print Assumptions C16_ht_verify_sign.

(* === the Go-shaped (address-threading) functions compute the FIPS-shaped
       ones (explicit addresses, model/SlhdsaSpec.v) ======================= *)

Theorem C16_threaded_equals_fips_shape :
  forall P HS,
    (forall z sk i pk ad, fst (xmssNode P HS z sk i pk ad) = xmssNodeS P HS (a_layer ad) (a_tree ad) sk pk z i) /\
    (forall msg sk idx pk ad, fst (xmssSign P HS msg sk idx pk ad) = xmssSignS P HS (a_layer ad) (a_tree ad) msg sk idx pk) /\
    (forall idx sig msg pk ad, fst (xmssPkFromSig P HS idx sig msg pk ad) = xmssPkFromSigS P HS (a_layer ad) (a_tree ad) idx sig msg pk) /\
    (forall md sk pk ad, a_typ ad = T_FORSTREE ->
       fst (forsSign P HS md sk pk ad) = forsSignS P HS (a_layer ad) (a_tree ad) (a_kp ad) (base2b md (p_a P) (p_k P)) sk pk) /\
    (forall sig md pk ad, a_typ ad = T_FORSTREE ->
       fst (forsPkFromSig P HS sig md pk ad) = forsPkFromSigS P HS (a_layer ad) (a_tree ad) (a_kp ad) (base2b md (p_a P) (p_k P)) sig pk) /\
    (forall sk pk, keygenRoot P HS sk pk = pkRootS P HS sk pk) /\
    (forall msg sk pk idxTree idxLeaf, htSign P HS msg sk pk idxTree idxLeaf = htSignS P HS msg sk pk idxTree idxLeaf) /\
    (forall msg sigHT pk idxTree idxLeaf root, htVerify P HS msg sigHT pk idxTree idxLeaf root = htVerifyS P HS msg sigHT pk idxTree idxLeaf root).
Proof.
  intros P HS. repeat split; intros.
  - apply xmssNode_spec. - apply xmssSign_spec. - apply xmssPkFromSig_spec.
  - apply forsSign_spec; auto. - apply forsPkFromSig_spec; auto.
  - unfold keygenRoot, pkRootS. rewrite (proj1 (xmssNode_spec _ _ _ _ _ _ _)). reflexivity.
  - apply htSign_spec. - apply htVerify_spec.
Qed.
Print Assumptions C16_threaded_equals_fips_shape.

(* verifyInternal is Algorithm 20 on the FIPS-shaped functions: length check,
   split, digest, FORS public key from the signature, hypertree verification *)
Theorem C16_verifyInternal_fips_shape :
  forall P HS pkSeed pkRoot msg sig,
    verifyInternal P HS pkSeed pkRoot msg sig = verifyInternalS P HS pkSeed pkRoot msg sig.
Proof. exact verifyInternal_fips. Qed.
Print Assumptions C16_verifyInternal_fips_shape.

(* === the parameter sets ================================================= *)

(* all twelve sets: h = d*hp, d >= 1, n <= 32, h-hp <= 64, hp < 32, 1 <= lgw <= 25,
   len2*lgw <= 32, a <= 25, m = ceil(k*a/8) + ceil((h-hp)/8) + ceil(hp/8) *)
Theorem C16_parameter_sets_wellformed : forallb set_ok all_sets = true.
Proof. exact all_sets_ok. Qed.
Print Assumptions C16_parameter_sets_wellformed.

(* n, w, len1, len2, len, signature / public key / secret key sizes *)
Theorem C16_derived_values :
  derived param128s = [16; 16; 32; 3; 35; 7856; 32; 64] /\
  derived param128f = [16; 16; 32; 3; 35; 17088; 32; 64] /\
  derived param192s = [24; 16; 48; 3; 51; 16224; 48; 96] /\
  derived param192f = [24; 16; 48; 3; 51; 35664; 48; 96] /\
  derived param256s = [32; 16; 64; 3; 67; 29792; 64; 128] /\
  derived param256f = [32; 16; 64; 3; 67; 49856; 64; 128].
Proof. exact derived_values. Qed.
Print Assumptions C16_derived_values.

(* === non-vacuity ======================================================== *)
(* A toy hash family (a polynomial checksum modulo 65521) on a toy parameter record satisfies the
   premises; on it sign/verify compute: the genuine signature is accepted,
   the signature with one byte changed and a changed message are rejected. *)
Definition toyP : params := mkParams 2 4 2 2 2 2 2 3.
Definition toy_sum (l : bytes) : N := fold_left (fun acc b => (acc * 31 + b + 1) mod 65521) l 7.
Definition toy_mix (l : bytes) : bytes := let s := toy_sum l in [s mod 256; s / 256].
Definition toyHS : hashes :=
  mkHashes (fun r s t m => let x := toy_sum (r ++ s ++ t ++ m) in [x mod 256; (3 * x + 1) mod 256; (5 * x + 2) mod 256])
           (fun p s a => toy_mix (p ++ adrs_bytes a ++ s))
           (fun s o m => toy_mix (s ++ o ++ m))
           (fun p a x => toy_mix (p ++ compress a ++ x))
           (fun p a x => toy_mix (p ++ adrs_bytes a ++ x))
           (fun p a x => toy_mix (p ++ adrs_bytes a ++ x)).

Example C16_nonvacuous :
  hashes_ok toyP toyHS /\ params_wf toyP /\
  let sk := keygen toyP toyHS [1; 2] [3; 4] [5; 6] in
  let pk := skipn 4 sk in
  match sign toyP toyHS sk [9; 9; 9] [7] [8; 8] with
  | Some sig => verify toyP toyHS pk [9; 9; 9] sig [7] = Some true
                /\ verify toyP toyHS pk [9; 9; 8] sig [7] = Some false
                /\ verify toyP toyHS pk [9; 9; 9] (firstn 10 sig ++ [N.lxor (nth 10 sig 0) 1] ++ skipn 11 sig) [7] = Some false
                /\ verify toyP toyHS pk [9; 9; 9] (firstn 10 sig) [7] = Some false
  | None => False
  end.
Proof.
  split; [constructor; intros; reflexivity|]. split; [split; [reflexivity|apply le_S, le_n]|].
  vm_compute. repeat split.
Qed.
