(* C16 — SLH-DSA keys and signatures conform to FIPS 205 on every input.
   Only statements + `exact`; proofs live in proofs/Slhdsa*Proofs.v. *)
From Coq Require Import List NArith Bool Arith.
From Tink Require Import Bytes SlhdsaSupport SlhdsaAddr SlhdsaBase SlhdsaWots SlhdsaWotsProofs.
Import ListNotations.
Open Scope N_scope.

Theorem C16_chain_compose :
  forall (HS : hashes) a b x i pk ad,
    chain HS (fst (chain HS x i a pk ad)) (i + N.of_nat a) b pk (snd (chain HS x i a pk ad))
    = chain HS x i (a + b) pk ad.
Proof. exact chain_compose. Qed.
Print Assumptions C16_chain_compose.
