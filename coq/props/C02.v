(* C02 — AEAD never releases plaintext for a ciphertext it did not produce; no
   input makes Decrypt panic.  Only statements + short assemblies; proofs live
   in proofs/*Proofs.v.  In the models every Go slice expression is a checked
   slice whose failure is the outcome Panic, and the panics of the standard
   library's Seal/Open on over-long inputs are modelled, so "never panics" and
   "panics exactly when ..." are theorems about the model.
   dec = Ok p  <->  exists iv of the right length with  enc iv p ad = Ok c
   is the set-theoretic content of "only what Encrypt produced decrypts":
   a flipped bit, a cut, an extension, another prefix, another AD is accepted
   only if the result IS an encryption of the returned plaintext under that AD.
   (That finding such a c without the key is infeasible is cryptography.) *)
From Coq Require Import List NArith Bool Arith Lia ZifyN ZifyNat ZifyBool.
From Tink Require Import Bytes AeadFrame AeadFrameProofs Ctr CtrProofs EtM EtMProofs
  Polyval GcmSiv GcmSivProofs Cmac Xaes XaesProofs Envelope EnvelopeProofs AeadKeyset AeadKeysetProofs.
Import ListNotations.
Open Scope N_scope.

Definition aead_seal := bytes -> bytes -> bytes -> bytes -> bytes.
Definition aead_open := bytes -> bytes -> bytes -> bytes -> option bytes.

(* the laws of a standard AEAD with 16-byte tag (answered by the Go standard library):
   length, correctness on Seal's domain, and Open accepts only Seal's outputs *)
Definition std_aead (seal : aead_seal) (open_ : aead_open) (seal_max : N) : Prop :=
  seal_len_law seal 16 /\ open_seal_law seal open_ seal_max /\ open_only_seal_law seal open_ seal_max.

(* ------------------------------------------------------------------------- *)
(* Exact acceptance sets                                                      *)

Theorem C02_aesgcm_accepts_exactly :
  forall seal open_, std_aead seal open_ gcm_seal_max ->
    forall v id key c ad p,
      aesgcm_dec open_ (output_prefix v id) key c ad = Ok p <->
      exists iv, length iv = 12%nat /\ aesgcm_enc seal (output_prefix v id) key iv p ad = Ok c.
Proof.
  intros seal open_ [HL [HO HU]] v id key c ad p. unfold aesgcm_dec. rewrite dec_lenfirst_canon.
  apply (na_accept_iff seal open_ 12 16 gcm_seal_max None None gcm_tink_max _ key c ad p HL HO HU);
    [intros m; discriminate | intros m; discriminate | exact gcm_max_order].
Qed.
Print Assumptions C02_aesgcm_accepts_exactly.

Theorem C02_chacha20poly1305_accepts_exactly :
  forall seal open_, std_aead seal open_ chacha_seal_max ->
    forall v id key c ad p,
      (chacha_dec open_ (output_prefix v id) key c ad = Ok p <->
       exists iv, length iv = 12%nat /\ chacha_enc seal (output_prefix v id) key iv p ad = Ok c) /\
      (chacha_subtle_dec open_ key c ad = Ok p <->
       exists iv, length iv = 12%nat /\ chacha_subtle_enc seal key iv p ad = Ok c).
Proof.
  intros seal open_ [HL [HO HU]] v id key c ad p. split.
  - unfold chacha_dec. rewrite dec_prefixfirst_canon.
    apply (na_accept_iff seal open_ 12 16 chacha_seal_max (Some chacha_open_max) (Some chacha_tink_ct_max) _ _ key c ad p HL HO HU);
      [intros m E; inversion E; reflexivity | intros m E; inversion E; vm_compute; discriminate |].
    pose proof (output_prefix_length v id). unfold chacha_tink_max, chacha_tink_seal_max, chacha_seal_max, MaxInt, lenN. destruct v; lia.
  - unfold chacha_subtle_dec. rewrite dec_lenfirst_canon.
    apply (na_accept_iff seal open_ 12 16 chacha_seal_max (Some chacha_open_max) (Some chacha_tink_ct_max) _ _ key c ad p HL HO HU);
      [intros m E; inversion E; reflexivity | intros m E; inversion E; vm_compute; discriminate |].
    unfold chacha_subtle_tink_max, chacha_tink_seal_max, chacha_seal_max, MaxInt. lia.
Qed.
Print Assumptions C02_chacha20poly1305_accepts_exactly.

Theorem C02_xchacha20poly1305_accepts_exactly :
  forall seal open_, std_aead seal open_ chacha_seal_max ->
    forall v id key c ad p, lenN c <= MaxInt ->
      (xchacha_dec open_ (output_prefix v id) key c ad = Ok p <->
       exists iv, length iv = 24%nat /\ xchacha_enc seal (output_prefix v id) key iv p ad = Ok c) /\
      (xchacha_subtle_dec open_ key c ad = Ok p <->
       exists iv, length iv = 24%nat /\ xchacha_enc seal [] key iv p ad = Ok c).
Proof.
  intros seal open_ [HL [HO HU]] v id key c ad p Hc.
  assert (Hm : chacha_seal_max <= xchacha_tink_max) by (unfold xchacha_tink_max, chacha_tink_seal_max, chacha_seal_max, MaxInt; lia).
  split.
  - unfold xchacha_dec. rewrite dec_lenprefix_canon by exact Hc.
    apply (na_accept_iff seal open_ 24 16 chacha_seal_max (Some chacha_open_max) (Some chacha_tink_ct_max) _ _ key c ad p HL HO HU);
      [intros m E; inversion E; reflexivity | intros m E; inversion E; vm_compute; discriminate | exact Hm].
  - unfold xchacha_subtle_dec. rewrite dec_lenfirst_canon.
    apply (na_accept_iff seal open_ 24 16 chacha_seal_max (Some chacha_open_max) (Some chacha_tink_ct_max) _ _ key c ad p HL HO HU);
      [intros m E; inversion E; reflexivity | intros m E; inversion E; vm_compute; discriminate | exact Hm].
Qed.
Print Assumptions C02_xchacha20poly1305_accepts_exactly.

(* AES-CTR-HMAC: proved from the model — no law about HMAC or AES beyond their
   output lengths (the whole truncated tag is compared; CTR is an involution) *)
Theorem C02_aesctrhmac_accepts_exactly :
  forall (aes hmac : bytes -> bytes -> bytes) (hlen : nat),
    (forall k b, length (aes k b) = 16%nat) -> (forall k m, length (hmac k m) = hlen) ->
    forall v id k c ad p, (ek_tag k <= hlen)%nat -> lenN c <= MaxInt ->
      (etm_dec aes hmac (output_prefix v id) k c ad = Ok p <->
       exists iv, length iv = ek_iv k /\ etm_enc aes hmac (output_prefix v id) k iv p ad = Ok c) /\
      (etm_subtle_dec aes hmac k c ad = Ok p <->
       exists iv, length iv = ek_iv k /\ etm_enc aes hmac [] k iv p ad = Ok c).
Proof.
  intros aes hmac hlen HA HH v id k c ad p Ht Hc. split.
  - rewrite (etm_dec_is_canon aes hmac hlen HA HH) by exact Ht.
    exact (etm_accept_iff aes hmac hlen HA HH _ k c ad p Ht Hc).
  - rewrite (etm_subtle_dec_eq aes hmac hlen HA HH) by exact Ht.
    rewrite (etm_dec_is_canon aes hmac hlen HA HH) by exact Ht.
    exact (etm_accept_iff aes hmac hlen HA HH _ k c ad p Ht Hc).
Qed.
Print Assumptions C02_aesctrhmac_accepts_exactly.

(* a ciphertext whose tag differs anywhere from the (truncated) HMAC of ad||payload||bits is rejected *)
Theorem C02_aesctrhmac_full_tag_compared :
  forall (aes hmac : bytes -> bytes -> bytes) (hlen : nat),
    (forall k b, length (aes k b) = 16%nat) -> (forall k m, length (hmac k m) = hlen) ->
    forall prefix k c ad, (ek_tag k <= hlen)%nat ->
      skipn (length c - ek_tag k) c <>
        firstn (ek_tag k) (hmac (ek_hmac k)
          (mac_input ad (firstn (length c - ek_tag k - length prefix) (skipn (length prefix) c)))) ->
      etm_dec aes hmac prefix k c ad = Err.
Proof.
  intros aes hmac hlen HA HH prefix k c ad Ht H.
  rewrite (etm_dec_is_canon aes hmac hlen HA HH) by exact Ht. apply etm_wrong_tag. exact H.
Qed.
Print Assumptions C02_aesctrhmac_full_tag_compared.

(* AES-GCM-SIV: proved from the model (only |AES(k,b)| = 16 assumed) *)
Theorem C02_aesgcmsiv_accepts_exactly :
  forall (aes : bytes -> bytes -> bytes), (forall k b, length (aes k b) = 16%nat) ->
    forall v id key c ad p,
      siv_dec aes (output_prefix v id) key c ad = Ok p <->
      exists nonce, length nonce = 12%nat /\ siv_enc aes (output_prefix v id) key nonce p ad = Ok c.
Proof. intros aes HA v id key c ad p. apply siv_accept_iff. exact HA. Qed.
Print Assumptions C02_aesgcmsiv_accepts_exactly.

Theorem C02_xaesgcm_accepts_exactly :
  forall (aes : bytes -> bytes -> bytes) seal open_,
    (forall k b, length (aes k b) = 16%nat) -> std_aead seal open_ gcm_seal_max ->
    forall saltsize v id key c ad p, (saltsize <= 12)%nat ->
      xaes_dec aes open_ saltsize (output_prefix v id) key c ad = Ok p <->
      exists saltiv, length saltiv = (saltsize + 12)%nat /\
        xaes_enc aes seal saltsize (output_prefix v id) key saltiv p ad = Ok c.
Proof.
  intros aes seal open_ HA [HL [HO HU]] ss v id key c ad p Hss.
  rewrite (xaes_dec_is_canon aes seal open_ HA).
  apply (xaes_accept_iff aes seal open_ HA HL HO HU); [exact Hss|].
  rewrite output_prefix_length. destruct v; lia.
Qed.
Print Assumptions C02_xaesgcm_accepts_exactly.

(* KMS envelope: exactly the envelopes built from a DEK encrypted by the KEK and a
   payload encrypted by that DEK are accepted, when both component AEADs have
   exact acceptance sets (instances: the theorems above) *)
Theorem C02_envelope_accepts_exactly :
  forall kek_enc kek_dec dek_enc dek_dec kivlen divlen,
    kek_rt kek_enc kek_dec kivlen -> dek_rt dek_enc dek_dec divlen ->
    kek_only kek_enc kek_dec kivlen -> dek_only dek_enc dek_dec divlen ->
    forall c ad p, wfb c ->
      env_dec kek_dec dek_dec c ad = Ok p <->
      exists dek kekiv dekiv, length kekiv = kivlen /\ length dekiv = divlen /\
        env_enc kek_enc dek_enc dek kekiv dekiv p ad = Ok c.
Proof.
  intros ke kd de dd kl dl H1 H2 H3 H4 c ad p Hw.
  exact (env_accept_iff ke kd de dd kl dl c ad p H1 H2 H3 H4 Hw).
Qed.
Print Assumptions C02_envelope_accepts_exactly.

Theorem C02_envelope_parse_exact :
  forall c encDEK payload, wfb c ->
    (parse_envelope c = Ok (encDEK, payload) <-> build_envelope encDEK payload = Ok c).
Proof. intros c e pl Hw. split; [apply build_parse; exact Hw | apply parse_build]. Qed.
Print Assumptions C02_envelope_parse_exact.

(* ------------------------------------------------------------------------- *)
(* Too short or wrongly prefixed => error (whatever the primitives answer)    *)
Theorem C02_short_ciphertext_rejected :
  forall (aes hmac : bytes -> bytes -> bytes) (open_ : aead_open) (hlen : nat),
    (forall k b, length (aes k b) = 16%nat) -> (forall k m, length (hmac k m) = hlen) ->
    forall prefix key c ad,
      let pl := length prefix in
      ((length c < pl + 12 + 16)%nat ->
         aesgcm_dec open_ prefix key c ad = Err /\ chacha_dec open_ prefix key c ad = Err /\
         siv_dec aes prefix key c ad = Err) /\
      ((length c < pl + 24 + 16)%nat -> xchacha_dec open_ prefix key c ad = Err) /\
      (forall k, (ek_tag k <= hlen)%nat -> (length c < pl + ek_iv k + ek_tag k)%nat ->
         etm_dec aes hmac prefix k c ad = Err) /\
      (forall ss, (length c < pl + ss + 12 + 16)%nat -> xaes_dec aes open_ ss prefix key c ad = Err) /\
      ((length c <= 4)%nat -> parse_envelope c = Err).
Proof.
  intros aes hmac open_ hlen HA HH prefix key c ad pl. repeat split.
  - unfold aesgcm_dec. rewrite dec_lenfirst_canon. apply na_too_short. exact H.
  - unfold chacha_dec. rewrite dec_prefixfirst_canon. apply na_too_short. exact H.
  - apply (siv_too_short aes HA). exact H.
  - intros H. unfold xchacha_dec, na_dec_lenprefix. fold pl.
    destruct (Nat.ltb_spec (length c) (pl + 24 + 16)); [reflexivity|lia].
  - intros k Ht H. rewrite (etm_dec_is_canon aes hmac hlen HA HH) by exact Ht.
    apply (etm_too_short aes hmac hlen HA HH). exact H.
  - intros ss H. unfold xaes_dec. fold pl.
    destruct (Nat.ltb_spec (length c) (pl + ss + 12 + 16)); [reflexivity|lia].
  - apply parse_too_short.
Qed.
Print Assumptions C02_short_ciphertext_rejected.

Theorem C02_wrong_prefix_rejected :
  forall (aes hmac : bytes -> bytes -> bytes) (open_ : aead_open) (hlen : nat),
    (forall k b, length (aes k b) = 16%nat) -> (forall k m, length (hmac k m) = hlen) ->
    forall prefix key c ad, firstn (length prefix) c <> prefix -> lenN c <= MaxInt ->
      aesgcm_dec open_ prefix key c ad = Err /\ chacha_dec open_ prefix key c ad = Err /\
      xchacha_dec open_ prefix key c ad = Err /\ siv_dec aes prefix key c ad = Err /\
      (forall k, (ek_tag k <= hlen)%nat -> etm_dec aes hmac prefix k c ad = Err) /\
      (forall ss, xaes_dec aes open_ ss prefix key c ad = Err).
Proof.
  intros aes hmac open_ hlen HA HH prefix key c ad H Hc. repeat split.
  - unfold aesgcm_dec. rewrite dec_lenfirst_canon. apply na_wrong_prefix. exact H.
  - unfold chacha_dec. rewrite dec_prefixfirst_canon. apply na_wrong_prefix. exact H.
  - unfold xchacha_dec. rewrite dec_lenprefix_canon by exact Hc. apply na_wrong_prefix. exact H.
  - apply (siv_dec_noprefix aes). destruct (has_prefix c prefix) eqn:E; [|reflexivity].
    apply has_prefix_iff in E. destruct E as [r ->]. rewrite firstn_app_exact in H. congruence.
  - intros k Ht. rewrite (etm_dec_is_canon aes hmac hlen HA HH) by exact Ht. apply etm_wrong_prefix. exact H.
  - intros ss. rewrite (xaes_dec_is_canon aes (fun _ _ _ _ => []) open_ HA). unfold xaes_dec_canon.
    destruct (beq (firstn (length prefix) c) prefix) eqn:E; [apply beq_eq in E; contradiction|].
    rewrite andb_false_r. reflexivity.
Qed.
Print Assumptions C02_wrong_prefix_rejected.

(* ------------------------------------------------------------------------- *)
(* No panic                                                                   *)

(* Decrypt of AES-GCM, AES-CTR-HMAC, AES-GCM-SIV, XAES-256-GCM and parseEnvelope never
   panics, for every byte string as ciphertext and AD and whatever the primitives answer *)
Theorem C02_decrypt_never_panics :
  forall (aes hmac : bytes -> bytes -> bytes) (open_ : aead_open) (hlen : nat),
    (forall k b, length (aes k b) = 16%nat) -> (forall k m, length (hmac k m) = hlen) ->
    forall prefix key c ad,
      aesgcm_dec open_ prefix key c ad <> Panic /\
      siv_dec aes prefix key c ad <> Panic /\
      (forall k, (ek_tag k <= hlen)%nat ->
         etm_dec aes hmac prefix k c ad <> Panic /\ etm_subtle_dec aes hmac k c ad <> Panic) /\
      (forall ss, xaes_dec aes open_ ss prefix key c ad <> Panic) /\
      parse_envelope c <> Panic.
Proof.
  intros aes hmac open_ hlen HA HH prefix key c ad. repeat split.
  - unfold aesgcm_dec. rewrite dec_lenfirst_canon. apply na_dec_no_panic. intros m; discriminate.
  - apply (siv_dec_no_panic aes HA).
  - apply (etm_dec_no_panic aes hmac hlen HA HH). exact H.
  - rewrite (etm_subtle_dec_eq aes hmac hlen HA HH) by exact H. apply (etm_dec_no_panic aes hmac hlen HA HH). exact H.
  - intros ss. apply (xaes_dec_no_panic aes (fun _ _ _ _ => []) open_ HA).
  - apply parse_no_panic.
Qed.
Print Assumptions C02_decrypt_never_panics.

(* ChaCha20-Poly1305 / XChaCha20-Poly1305 (key-based and subtle): Decrypt never panics.
   x/crypto's Open panics above 2^38-48 bytes; Tink checks that size right before
   Open and returns an error (internalaead.CheckChaCha20Poly1305CiphertextSize;
   added after this check found the panic with a 256 GiB ciphertext, harness kind "huge"). *)
Theorem C02_chacha_decrypt_never_panics :
  forall (open_ : aead_open) prefix key c ad, lenN c <= MaxInt ->
    chacha_dec open_ prefix key c ad <> Panic /\ xchacha_dec open_ prefix key c ad <> Panic /\
    chacha_subtle_dec open_ key c ad <> Panic /\ xchacha_subtle_dec open_ key c ad <> Panic.
Proof.
  intros open_ prefix key c ad Hm.
  assert (Hn : forall m, Some chacha_open_max = Some m ->
               lenN c <= m \/ exists m', Some chacha_tink_ct_max = Some m' /\ m' <= m).
  { intros m E; inversion E. right. exists chacha_tink_ct_max. split; [reflexivity|]. vm_compute. discriminate. }
  repeat split.
  - unfold chacha_dec. rewrite dec_prefixfirst_canon. apply na_dec_no_panic. exact Hn.
  - unfold xchacha_dec. rewrite dec_lenprefix_canon by exact Hm. apply na_dec_no_panic. exact Hn.
  - unfold chacha_subtle_dec. rewrite dec_lenfirst_canon. apply na_dec_no_panic. exact Hn.
  - unfold xchacha_subtle_dec. rewrite dec_lenfirst_canon. apply na_dec_no_panic. exact Hn.
Qed.
Print Assumptions C02_chacha_decrypt_never_panics.

(* ... and a ciphertext whose part after prefix and nonce exceeds 2^38-48 bytes is an error
   (the length-only prediction the correspondence uses for the 256 GiB cases) *)
Theorem C02_chacha_oversize_rejected :
  forall (open_ : aead_open) prefix key c ad,
    2 ^ 38 - 48 < lenN c - lenN prefix - 12 -> chacha_dec open_ prefix key c ad = Err.
Proof.
  intros open_ prefix key c ad H. unfold chacha_dec. rewrite dec_prefixfirst_canon.
  destruct (beq (firstn (length prefix) c) prefix) eqn:Eb.
  - apply na_dec_len_only_err. rewrite Eb. unfold na_dec_len_only, lenN, chacha_tink_ct_max in *. cbn [negb orb].
    destruct (N.ltb_spec (N.of_nat (length c)) (N.of_nat (length prefix + 12 + 16))); [reflexivity|].
    destruct (N.ltb_spec (2 ^ 38 - 48) (N.of_nat (length c) - N.of_nat (length prefix) - N.of_nat 12)); [reflexivity|lia].
  - apply na_wrong_prefix. intros E. rewrite E, beq_refl in Eb. discriminate.
Qed.
Print Assumptions C02_chacha_oversize_rejected.

(* Encrypt: AES-CTR-HMAC, AES-GCM-SIV and (X)ChaCha20-Poly1305 never panic.
   REFUTED for AES-GCM and XAES-256-GCM ("no input makes Encrypt panic" fails in
   the model, at sizes that cannot be allocated in the test environment):
   aesgcm.Encrypt panics exactly for a plaintext of 2^36-31 bytes (Tink's bound
   CheckAESGCMPlaintextSize is RFC 5116's P_MAX = 2^36-31, crypto/cipher's Seal
   panics above (2^32-2)*16 = 2^36-32); xaesgcm.Encrypt has no GCM bound at all
   and panics for every plaintext above 2^36-32 bytes. *)
Theorem C02_encrypt_panics_exactly_refuted :
  forall (aes hmac : bytes -> bytes -> bytes) (seal : aead_seal) (hlen : nat),
    (forall k b, length (aes k b) = 16%nat) -> (forall k m, length (hmac k m) = hlen) ->
    forall v id key iv p ad,
      let prefix := output_prefix v id in
      (forall k, (ek_tag k <= hlen)%nat -> etm_enc aes hmac prefix k iv p ad <> Panic) /\
      (length iv = 12%nat -> siv_enc aes prefix key iv p ad <> Panic) /\
      (aesgcm_enc seal prefix key iv p ad = Panic <-> lenN p = 2 ^ 36 - 31) /\
      (forall ss, length iv = (ss + 12)%nat -> (ss <= 12)%nat ->
         (xaes_enc aes seal ss prefix key iv p ad = Panic <-> 2 ^ 36 - 32 < lenN p <= MaxInt - 28 - N.of_nat ss - lenN prefix)) /\
      chacha_enc seal prefix key iv p ad <> Panic /\ chacha_subtle_enc seal key iv p ad <> Panic /\
      xchacha_enc seal prefix key iv p ad <> Panic.
Proof.
  intros aes hmac seal hlen HA HH v id key iv p ad prefix.
  assert (Hpl : lenN prefix <= 5).
  { unfold prefix, lenN. rewrite output_prefix_length. destruct v; lia. }
  split; [intros k Ht; apply (etm_enc_no_panic aes hmac hlen HA HH); exact Ht|].
  split; [intros Hiv; apply (siv_enc_no_panic aes HA); exact Hiv|].
  split.
  { unfold aesgcm_enc. rewrite (na_enc_panic_iff seal (fun _ _ _ _ => None)).
    rewrite gcm_tink_max_val, gcm_seal_max_val. lia. }
  split.
  { intros ss Hiv Hss. rewrite (xaes_enc_panic_iff aes seal (fun _ _ _ _ => None) HA) by exact Hiv.
    unfold xaes_tink_max. rewrite gcm_seal_max_val. unfold MaxInt in *. lia. }
  split.
  { unfold chacha_enc. rewrite (na_enc_panic_iff seal (fun _ _ _ _ => None)).
    unfold chacha_tink_max, chacha_tink_seal_max, chacha_seal_max, MaxInt. lia. }
  split.
  { unfold chacha_subtle_enc. rewrite (na_enc_panic_iff seal (fun _ _ _ _ => None)).
    unfold chacha_subtle_tink_max, chacha_tink_seal_max, chacha_seal_max, MaxInt. lia. }
  unfold xchacha_enc. rewrite (na_enc_panic_iff seal (fun _ _ _ _ => None)).
  unfold xchacha_tink_max, chacha_tink_seal_max, chacha_seal_max, MaxInt. lia.
Qed.
Print Assumptions C02_encrypt_panics_exactly_refuted.

(* witnesses: inputs on which the model of aesgcm.Encrypt / xaesgcm.Encrypt panics *)
Theorem C02_aesgcm_xaesgcm_encrypt_panic_witness_refuted :
  forall (aes : bytes -> bytes -> bytes) (seal : aead_seal), (forall k b, length (aes k b) = 16%nat) ->
    exists p, lenN p = 2 ^ 36 - 31 /\
      (forall prefix key iv ad, aesgcm_enc seal prefix key iv p ad = Panic) /\
      (forall key saltiv ad, length saltiv = 24%nat -> xaes_enc aes seal 12 [] key saltiv p ad = Panic).
Proof.
  intros aes seal HA. exists (zeros (N.to_nat (2 ^ 36 - 31))).
  assert (Hl : lenN (zeros (N.to_nat (2 ^ 36 - 31))) = 2 ^ 36 - 31).
  { unfold lenN. rewrite zeros_length. apply Nnat.N2Nat.id. }
  split; [exact Hl|]. split.
  - intros. unfold aesgcm_enc. apply (na_enc_panic_iff seal (fun _ _ _ _ => None)).
    rewrite Hl, gcm_tink_max_val, gcm_seal_max_val. lia.
  - intros key saltiv ad Hs. apply (xaes_enc_panic_iff aes seal (fun _ _ _ _ => None) HA); [exact Hs|].
    rewrite Hl, gcm_seal_max_val. unfold xaes_tink_max, MaxInt, lenN. cbn [length]. lia.
Qed.
Print Assumptions C02_aesgcm_xaesgcm_encrypt_panic_witness_refuted.

(* the envelope Decrypt never panics when its component AEADs do not *)
Theorem C02_envelope_never_panics :
  forall kek_dec dek_dec,
    (forall c ad, kek_dec c ad <> Panic) -> (forall dek c ad, dek_dec dek c ad <> Panic) ->
    forall c ad, env_dec kek_dec dek_dec c ad <> Panic.
Proof. intros kd dd HK HD c ad. apply env_dec_no_panic; assumption. Qed.
Print Assumptions C02_envelope_never_panics.

(* ------------------------------------------------------------------------- *)
(* Keyset level (aead.New: aead_factory.go wrappedAead.Decrypt over prefixmap):
   a plaintext is released only if a primitive of the keyset whose prefix is empty
   or equals the first five bytes of the ciphertext releases it ...               *)
Theorem C02_keyset_releases_only_via_member :
  forall ps c ad p, ks_dec ps c ad = Ok p ->
    exists e, In e ps /\ (pr_prefix e = [] \/ ((5 <= length c)%nat /\ pr_prefix e = firstn 5 c)) /\
              prim_dec e c ad = Ok p.
Proof. exact ks_dec_sound. Qed.
Print Assumptions C02_keyset_releases_only_via_member.

(* ... hence, for full primitives that accept only their own encryptions (the per-key
   theorems above), only for an encryption of (p, ad) under a key of the keyset *)
Theorem C02_keyset_accepts_only_member_encryptions :
  forall ps c ad p,
    (forall e, In e ps -> pr_legacy e = false /\
       (forall c ad p, pr_dec e c ad = Ok p -> exists iv, pr_enc e iv p ad = Ok c)) ->
    ks_dec ps c ad = Ok p -> exists e iv, In e ps /\ pr_enc e iv p ad = Ok c.
Proof. exact ks_dec_only_own. Qed.
Print Assumptions C02_keyset_accepts_only_member_encryptions.

(* it is an error exactly when every selectable primitive fails, a member's success is never
   lost, and the factory (including the legacy adapter's unchecked ciphertext[len(prefix):])
   never panics when the primitives do not *)
Theorem C02_keyset_decrypt_total :
  forall ps, (forall e, In e ps -> forall c ad, pr_dec e c ad <> Panic) ->
    forall c ad,
      ks_dec ps c ad <> Panic /\
      (ks_dec ps c ad = Err <-> forall e, In e ps -> selectable e c -> prim_dec e c ad = Err) /\
      (forall e p, In e ps -> selectable e c -> prim_dec e c ad = Ok p -> exists p', ks_dec ps c ad = Ok p').
Proof.
  intros ps Hn c ad. split; [apply ks_dec_no_panic; exact Hn|]. split; [apply ks_dec_err_iff; exact Hn|].
  intros e p. apply ks_dec_complete. exact Hn.
Qed.
Print Assumptions C02_keyset_decrypt_total.

(* ------------------------------------------------------------------------- *)
(* Non-vacuity: the laws are satisfiable and a concrete reject/accept pair computes *)
Example C02_nonvacuous :
  std_aead toy_seal (toy_open gcm_seal_max) gcm_seal_max /\
  (let c := match aesgcm_enc toy_seal (output_prefix VTink 258) [7] (zeros 12) [1; 2; 3] [9] with Ok c => c | _ => [] end in
   aesgcm_dec (toy_open gcm_seal_max) (output_prefix VTink 258) [7] c [9] = Ok [1; 2; 3] /\
   aesgcm_dec (toy_open gcm_seal_max) (output_prefix VTink 258) [7] (firstn 32 c) [9] = Err /\
   aesgcm_dec (toy_open gcm_seal_max) (output_prefix VCrunchy 258) [7] c [9] = Err).
Proof. split; [exact (toy_laws gcm_seal_max)|]. vm_compute. repeat split. Qed.
