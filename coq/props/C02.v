(* C02 — AEAD never releases plaintext for a ciphertext it did not produce; no
   input makes Decrypt panic.  Only statements + short assemblies; proofs live
   in proofs/*Proofs.v.  In the models every Go slice expression is a checked
   slice whose failure is the outcome Panic, and the panics of the standard
   library's Seal/Open on over-long inputs are modelled, so "never panics" and
   "panics exactly when ..." are theorems about the model.
   dec = Ok p  <->  exists iv of the right length with  enc iv p ad = Ok c
   is the set-theoretic content of "only what Encrypt produced decrypts":
   a flipped bit, a cut, an extension, another prefix, another AD is accepted
   only if the result IS an encryption of the returned plaintext under that AD.
   (That finding such a c without the key is infeasible is cryptography.) *)
From Coq Require Import List NArith Bool Arith Lia ZifyN ZifyNat ZifyBool.
From Tink Require Import Bytes AeadFrame AeadFrameProofs Ctr CtrProofs EtM EtMProofs
  Polyval GcmSiv GcmSivProofs Cmac Xaes XaesProofs Envelope EnvelopeProofs AeadKeyset AeadKeysetProofs
  Mutation EtMProofs2 AeadFrameProofs2 XaesSivMutation EnvelopeDek EnvelopeProofs2 EnvelopeDekEtm EnvelopeDekEtmProofs.
Import ListNotations.
Open Scope N_scope.

Definition aead_seal := bytes -> bytes -> bytes -> bytes -> bytes.
Definition aead_open := bytes -> bytes -> bytes -> bytes -> option bytes.

(* the laws of a standard AEAD with 16-byte tag (answered by the Go standard library):
   length, correctness on Seal's domain, and Open accepts only Seal's outputs *)
Definition std_aead (seal : aead_seal) (open_ : aead_open) (seal_max : N) : Prop :=
  seal_len_law seal 16 /\ open_seal_law seal open_ seal_max /\ open_only_seal_law seal open_ seal_max.

(* ------------------------------------------------------------------------- *)
(* Exact acceptance sets                                                      *)

Theorem C02_aesgcm_accepts_exactly :
  forall seal open_, std_aead seal open_ gcm_seal_max ->
    forall v id key c ad p,
      aesgcm_dec open_ (output_prefix v id) key c ad = Ok p <->
      exists iv, length iv = 12%nat /\ aesgcm_enc seal (output_prefix v id) key iv p ad = Ok c.
Proof.
  intros seal open_ [HL [HO HU]] v id key c ad p. unfold aesgcm_dec. rewrite dec_lenfirst_canon.
  apply (na_accept_iff seal open_ 12 16 gcm_seal_max None None gcm_tink_max _ key c ad p HL HO HU);
    [intros m; discriminate | intros m; discriminate | exact gcm_max_order].
Qed.
Print Assumptions C02_aesgcm_accepts_exactly.

Theorem C02_chacha20poly1305_accepts_exactly :
  forall seal open_, std_aead seal open_ chacha_seal_max ->
    forall v id key c ad p,
      (chacha_dec open_ (output_prefix v id) key c ad = Ok p <->
       exists iv, length iv = 12%nat /\ chacha_enc seal (output_prefix v id) key iv p ad = Ok c) /\
      (chacha_subtle_dec open_ key c ad = Ok p <->
       exists iv, length iv = 12%nat /\ chacha_subtle_enc seal key iv p ad = Ok c).
Proof.
  intros seal open_ [HL [HO HU]] v id key c ad p. split.
  - unfold chacha_dec. rewrite dec_prefixfirst_canon.
    apply (na_accept_iff seal open_ 12 16 chacha_seal_max (Some chacha_open_max) (Some chacha_tink_ct_max) _ _ key c ad p HL HO HU);
      [intros m E; inversion E; reflexivity | intros m E; inversion E; vm_compute; discriminate |].
    pose proof (output_prefix_length v id). unfold chacha_tink_max, chacha_tink_seal_max, chacha_seal_max, MaxInt, lenN. destruct v; lia.
  - unfold chacha_subtle_dec. rewrite dec_lenfirst_canon.
    apply (na_accept_iff seal open_ 12 16 chacha_seal_max (Some chacha_open_max) (Some chacha_tink_ct_max) _ _ key c ad p HL HO HU);
      [intros m E; inversion E; reflexivity | intros m E; inversion E; vm_compute; discriminate |].
    unfold chacha_subtle_tink_max, chacha_tink_seal_max, chacha_seal_max, MaxInt. lia.
Qed.
Print Assumptions C02_chacha20poly1305_accepts_exactly.

Theorem C02_xchacha20poly1305_accepts_exactly :
  forall seal open_, std_aead seal open_ chacha_seal_max ->
    forall v id key c ad p, lenN c <= MaxInt ->
      (xchacha_dec open_ (output_prefix v id) key c ad = Ok p <->
       exists iv, length iv = 24%nat /\ xchacha_enc seal (output_prefix v id) key iv p ad = Ok c) /\
      (xchacha_subtle_dec open_ key c ad = Ok p <->
       exists iv, length iv = 24%nat /\ xchacha_enc seal [] key iv p ad = Ok c).
Proof.
  intros seal open_ [HL [HO HU]] v id key c ad p Hc.
  assert (Hm : chacha_seal_max <= xchacha_tink_max) by (unfold xchacha_tink_max, chacha_tink_seal_max, chacha_seal_max, MaxInt; lia).
  split.
  - unfold xchacha_dec. rewrite dec_lenprefix_canon by exact Hc.
    apply (na_accept_iff seal open_ 24 16 chacha_seal_max (Some chacha_open_max) (Some chacha_tink_ct_max) _ _ key c ad p HL HO HU);
      [intros m E; inversion E; reflexivity | intros m E; inversion E; vm_compute; discriminate | exact Hm].
  - unfold xchacha_subtle_dec. rewrite dec_lenfirst_canon.
    apply (na_accept_iff seal open_ 24 16 chacha_seal_max (Some chacha_open_max) (Some chacha_tink_ct_max) _ _ key c ad p HL HO HU);
      [intros m E; inversion E; reflexivity | intros m E; inversion E; vm_compute; discriminate | exact Hm].
Qed.
Print Assumptions C02_xchacha20poly1305_accepts_exactly.

(* AES-CTR-HMAC: proved from the model — no law about HMAC or AES beyond their
   output lengths (the whole truncated tag is compared; CTR is an involution) *)
Theorem C02_aesctrhmac_accepts_exactly :
  forall (aes hmac : bytes -> bytes -> bytes) (hlen : nat),
    (forall k b, length (aes k b) = 16%nat) -> (forall k m, length (hmac k m) = hlen) ->
    forall v id k c ad p, (ek_tag k <= hlen)%nat -> lenN c <= MaxInt ->
      (etm_dec aes hmac (output_prefix v id) k c ad = Ok p <->
       exists iv, length iv = ek_iv k /\ etm_enc aes hmac (output_prefix v id) k iv p ad = Ok c) /\
      (etm_subtle_dec aes hmac k c ad = Ok p <->
       exists iv, length iv = ek_iv k /\ etm_enc aes hmac [] k iv p ad = Ok c).
Proof.
  intros aes hmac hlen HA HH v id k c ad p Ht Hc. split.
  - rewrite (etm_dec_is_canon aes hmac hlen HA HH) by exact Ht.
    exact (etm_accept_iff aes hmac hlen HA HH _ k c ad p Ht Hc).
  - rewrite (etm_subtle_dec_eq aes hmac hlen HA HH) by exact Ht.
    rewrite (etm_dec_is_canon aes hmac hlen HA HH) by exact Ht.
    exact (etm_accept_iff aes hmac hlen HA HH _ k c ad p Ht Hc).
Qed.
Print Assumptions C02_aesctrhmac_accepts_exactly.

(* a ciphertext whose tag differs anywhere from the (truncated) HMAC of ad||payload||bits is rejected *)
Theorem C02_aesctrhmac_full_tag_compared :
  forall (aes hmac : bytes -> bytes -> bytes) (hlen : nat),
    (forall k b, length (aes k b) = 16%nat) -> (forall k m, length (hmac k m) = hlen) ->
    forall prefix k c ad, (ek_tag k <= hlen)%nat ->
      skipn (length c - ek_tag k) c <>
        firstn (ek_tag k) (hmac (ek_hmac k)
          (mac_input ad (firstn (length c - ek_tag k - length prefix) (skipn (length prefix) c)))) ->
      etm_dec aes hmac prefix k c ad = Err.
Proof.
  intros aes hmac hlen HA HH prefix k c ad Ht H.
  rewrite (etm_dec_is_canon aes hmac hlen HA HH) by exact Ht. apply etm_wrong_tag. exact H.
Qed.
Print Assumptions C02_aesctrhmac_full_tag_compared.

(* AES-GCM-SIV: proved from the model (only |AES(k,b)| = 16 assumed) *)
Theorem C02_aesgcmsiv_accepts_exactly :
  forall (aes : bytes -> bytes -> bytes), (forall k b, length (aes k b) = 16%nat) ->
    forall v id key c ad p,
      siv_dec aes (output_prefix v id) key c ad = Ok p <->
      exists nonce, length nonce = 12%nat /\ siv_enc aes (output_prefix v id) key nonce p ad = Ok c.
Proof. intros aes HA v id key c ad p. apply siv_accept_iff. exact HA. Qed.
Print Assumptions C02_aesgcmsiv_accepts_exactly.

Theorem C02_xaesgcm_accepts_exactly :
  forall (aes : bytes -> bytes -> bytes) seal open_,
    (forall k b, length (aes k b) = 16%nat) -> std_aead seal open_ gcm_seal_max ->
    forall saltsize v id key c ad p, (saltsize <= 12)%nat ->
      xaes_dec aes open_ saltsize (output_prefix v id) key c ad = Ok p <->
      exists saltiv, length saltiv = (saltsize + 12)%nat /\
        xaes_enc aes seal saltsize (output_prefix v id) key saltiv p ad = Ok c.
Proof.
  intros aes seal open_ HA [HL [HO HU]] ss v id key c ad p Hss.
  rewrite (xaes_dec_is_canon aes seal open_ HA).
  apply (xaes_accept_iff aes seal open_ HA HL HO HU); [exact Hss|].
  rewrite output_prefix_length. destruct v; lia.
Qed.
Print Assumptions C02_xaesgcm_accepts_exactly.

(* KMS envelope: exactly the envelopes built from a DEK encrypted by the KEK and a
   payload encrypted by that DEK are accepted, when both component AEADs have
   exact acceptance sets (instances: the theorems above) *)
Theorem C02_envelope_accepts_exactly :
  forall kek_enc kek_dec dek_enc dek_dec kivlen divlen,
    kek_rt kek_enc kek_dec kivlen -> dek_rt dek_enc dek_dec divlen ->
    kek_only kek_enc kek_dec kivlen -> dek_only dek_enc dek_dec divlen ->
    forall c ad p, wfb c ->
      env_dec kek_dec dek_dec c ad = Ok p <->
      exists dek kekiv dekiv, length kekiv = kivlen /\ length dekiv = divlen /\
        env_enc kek_enc dek_enc dek kekiv dekiv p ad = Ok c.
Proof.
  intros ke kd de dd kl dl H1 H2 H3 H4 c ad p Hw.
  exact (env_accept_iff ke kd de dd kl dl c ad p H1 H2 H3 H4 Hw).
Qed.
Print Assumptions C02_envelope_accepts_exactly.

Theorem C02_envelope_parse_exact :
  forall c encDEK payload, wfb c ->
    (parse_envelope c = Ok (encDEK, payload) <-> build_envelope encDEK payload = Ok c).
Proof. intros c e pl Hw. split; [apply build_parse; exact Hw | apply parse_build]. Qed.
Print Assumptions C02_envelope_parse_exact.

(* ------------------------------------------------------------------------- *)
(* Too short or wrongly prefixed => error (whatever the primitives answer)    *)
Theorem C02_short_ciphertext_rejected :
  forall (aes hmac : bytes -> bytes -> bytes) (open_ : aead_open) (hlen : nat),
    (forall k b, length (aes k b) = 16%nat) -> (forall k m, length (hmac k m) = hlen) ->
    forall prefix key c ad,
      let pl := length prefix in
      ((length c < pl + 12 + 16)%nat ->
         aesgcm_dec open_ prefix key c ad = Err /\ chacha_dec open_ prefix key c ad = Err /\
         siv_dec aes prefix key c ad = Err) /\
      ((length c < pl + 24 + 16)%nat -> xchacha_dec open_ prefix key c ad = Err) /\
      (forall k, (ek_tag k <= hlen)%nat -> (length c < pl + ek_iv k + ek_tag k)%nat ->
         etm_dec aes hmac prefix k c ad = Err) /\
      (forall ss, (length c < pl + ss + 12 + 16)%nat -> xaes_dec aes open_ ss prefix key c ad = Err) /\
      ((length c <= 4)%nat -> parse_envelope c = Err).
Proof.
  intros aes hmac open_ hlen HA HH prefix key c ad pl. repeat split.
  - unfold aesgcm_dec. rewrite dec_lenfirst_canon. apply na_too_short. exact H.
  - unfold chacha_dec. rewrite dec_prefixfirst_canon. apply na_too_short. exact H.
  - apply (siv_too_short aes HA). exact H.
  - intros H. unfold xchacha_dec, na_dec_lenprefix. fold pl.
    destruct (Nat.ltb_spec (length c) (pl + 24 + 16)); [reflexivity|lia].
  - intros k Ht H. rewrite (etm_dec_is_canon aes hmac hlen HA HH) by exact Ht.
    apply (etm_too_short aes hmac hlen HA HH). exact H.
  - intros ss H. unfold xaes_dec. fold pl.
    destruct (Nat.ltb_spec (length c) (pl + ss + 12 + 16)); [reflexivity|lia].
  - apply parse_too_short.
Qed.
Print Assumptions C02_short_ciphertext_rejected.

Theorem C02_wrong_prefix_rejected :
  forall (aes hmac : bytes -> bytes -> bytes) (open_ : aead_open) (hlen : nat),
    (forall k b, length (aes k b) = 16%nat) -> (forall k m, length (hmac k m) = hlen) ->
    forall prefix key c ad, firstn (length prefix) c <> prefix -> lenN c <= MaxInt ->
      aesgcm_dec open_ prefix key c ad = Err /\ chacha_dec open_ prefix key c ad = Err /\
      xchacha_dec open_ prefix key c ad = Err /\ siv_dec aes prefix key c ad = Err /\
      (forall k, (ek_tag k <= hlen)%nat -> etm_dec aes hmac prefix k c ad = Err) /\
      (forall ss, xaes_dec aes open_ ss prefix key c ad = Err).
Proof.
  intros aes hmac open_ hlen HA HH prefix key c ad H Hc. repeat split.
  - unfold aesgcm_dec. rewrite dec_lenfirst_canon. apply na_wrong_prefix. exact H.
  - unfold chacha_dec. rewrite dec_prefixfirst_canon. apply na_wrong_prefix. exact H.
  - unfold xchacha_dec. rewrite dec_lenprefix_canon by exact Hc. apply na_wrong_prefix. exact H.
  - apply (siv_dec_noprefix aes). destruct (has_prefix c prefix) eqn:E; [|reflexivity].
    apply has_prefix_iff in E. destruct E as [r ->]. rewrite firstn_app_exact in H. congruence.
  - intros k Ht. rewrite (etm_dec_is_canon aes hmac hlen HA HH) by exact Ht. apply etm_wrong_prefix. exact H.
  - intros ss. rewrite (xaes_dec_is_canon aes (fun _ _ _ _ => []) open_ HA). unfold xaes_dec_canon.
    destruct (beq (firstn (length prefix) c) prefix) eqn:E; [apply beq_eq in E; contradiction|].
    rewrite andb_false_r. reflexivity.
Qed.
Print Assumptions C02_wrong_prefix_rejected.

(* ------------------------------------------------------------------------- *)
(* No panic                                                                   *)

(* Decrypt of AES-GCM, AES-CTR-HMAC, AES-GCM-SIV, XAES-256-GCM and parseEnvelope never
   panics, for every byte string as ciphertext and AD and whatever the primitives answer *)
Theorem C02_decrypt_never_panics :
  forall (aes hmac : bytes -> bytes -> bytes) (open_ : aead_open) (hlen : nat),
    (forall k b, length (aes k b) = 16%nat) -> (forall k m, length (hmac k m) = hlen) ->
    forall prefix key c ad,
      aesgcm_dec open_ prefix key c ad <> Panic /\
      siv_dec aes prefix key c ad <> Panic /\
      (forall k, (ek_tag k <= hlen)%nat ->
         etm_dec aes hmac prefix k c ad <> Panic /\ etm_subtle_dec aes hmac k c ad <> Panic) /\
      (forall ss, xaes_dec aes open_ ss prefix key c ad <> Panic) /\
      parse_envelope c <> Panic.
Proof.
  intros aes hmac open_ hlen HA HH prefix key c ad. repeat split.
  - unfold aesgcm_dec. rewrite dec_lenfirst_canon. apply na_dec_no_panic. intros m; discriminate.
  - apply (siv_dec_no_panic aes HA).
  - apply (etm_dec_no_panic aes hmac hlen HA HH). exact H.
  - rewrite (etm_subtle_dec_eq aes hmac hlen HA HH) by exact H. apply (etm_dec_no_panic aes hmac hlen HA HH). exact H.
  - intros ss. apply (xaes_dec_no_panic aes (fun _ _ _ _ => []) open_ HA).
  - apply parse_no_panic.
Qed.
Print Assumptions C02_decrypt_never_panics.

(* ChaCha20-Poly1305 / XChaCha20-Poly1305 (key-based and subtle): Decrypt never panics.
   x/crypto's Open panics above 2^38-48 bytes; Tink checks that size right before
   Open and returns an error (internalaead.CheckChaCha20Poly1305CiphertextSize;
   added after this check found the panic with a 256 GiB ciphertext, harness kind "huge"). *)
Theorem C02_chacha_decrypt_never_panics :
  forall (open_ : aead_open) prefix key c ad, lenN c <= MaxInt ->
    chacha_dec open_ prefix key c ad <> Panic /\ xchacha_dec open_ prefix key c ad <> Panic /\
    chacha_subtle_dec open_ key c ad <> Panic /\ xchacha_subtle_dec open_ key c ad <> Panic.
Proof.
  intros open_ prefix key c ad Hm.
  assert (Hn : forall m, Some chacha_open_max = Some m ->
               lenN c <= m \/ exists m', Some chacha_tink_ct_max = Some m' /\ m' <= m).
  { intros m E; inversion E. right. exists chacha_tink_ct_max. split; [reflexivity|]. vm_compute. discriminate. }
  repeat split.
  - unfold chacha_dec. rewrite dec_prefixfirst_canon. apply na_dec_no_panic. exact Hn.
  - unfold xchacha_dec. rewrite dec_lenprefix_canon by exact Hm. apply na_dec_no_panic. exact Hn.
  - unfold chacha_subtle_dec. rewrite dec_lenfirst_canon. apply na_dec_no_panic. exact Hn.
  - unfold xchacha_subtle_dec. rewrite dec_lenfirst_canon. apply na_dec_no_panic. exact Hn.
Qed.
Print Assumptions C02_chacha_decrypt_never_panics.

(* ... and a ciphertext whose part after prefix and nonce exceeds 2^38-48 bytes is an error
   (the length-only prediction the correspondence uses for the 256 GiB cases) *)
Theorem C02_chacha_oversize_rejected :
  forall (open_ : aead_open) prefix key c ad,
    2 ^ 38 - 48 < lenN c - lenN prefix - 12 -> chacha_dec open_ prefix key c ad = Err.
Proof.
  intros open_ prefix key c ad H. unfold chacha_dec. rewrite dec_prefixfirst_canon.
  destruct (beq (firstn (length prefix) c) prefix) eqn:Eb.
  - apply na_dec_len_only_err. rewrite Eb. unfold na_dec_len_only, lenN, chacha_tink_ct_max in *. cbn [negb orb].
    destruct (N.ltb_spec (N.of_nat (length c)) (N.of_nat (length prefix + 12 + 16))); [reflexivity|].
    destruct (N.ltb_spec (2 ^ 38 - 48) (N.of_nat (length c) - N.of_nat (length prefix) - N.of_nat 12)); [reflexivity|lia].
  - apply na_wrong_prefix. intros E. rewrite E, beq_refl in Eb. discriminate.
Qed.
Print Assumptions C02_chacha_oversize_rejected.

(* Encrypt: AES-CTR-HMAC, AES-GCM-SIV and (X)ChaCha20-Poly1305 never panic.
   REFUTED for AES-GCM and XAES-256-GCM ("no input makes Encrypt panic" fails in
   the model, at sizes that cannot be allocated in the test environment):
   aesgcm.Encrypt panics exactly for a plaintext of 2^36-31 bytes (Tink's bound
   CheckAESGCMPlaintextSize is RFC 5116's P_MAX = 2^36-31, crypto/cipher's Seal
   panics above (2^32-2)*16 = 2^36-32); xaesgcm.Encrypt has no GCM bound at all
   and panics for every plaintext above 2^36-32 bytes. *)
Theorem C02_encrypt_panics_exactly_refuted :
  forall (aes hmac : bytes -> bytes -> bytes) (seal : aead_seal) (hlen : nat),
    (forall k b, length (aes k b) = 16%nat) -> (forall k m, length (hmac k m) = hlen) ->
    forall v id key iv p ad,
      let prefix := output_prefix v id in
      (forall k, (ek_tag k <= hlen)%nat -> etm_enc aes hmac prefix k iv p ad <> Panic) /\
      (length iv = 12%nat -> siv_enc aes prefix key iv p ad <> Panic) /\
      (aesgcm_enc seal prefix key iv p ad = Panic <-> lenN p = 2 ^ 36 - 31) /\
      (forall ss, length iv = (ss + 12)%nat -> (ss <= 12)%nat ->
         (xaes_enc aes seal ss prefix key iv p ad = Panic <-> 2 ^ 36 - 32 < lenN p <= MaxInt - 28 - N.of_nat ss - lenN prefix)) /\
      chacha_enc seal prefix key iv p ad <> Panic /\ chacha_subtle_enc seal key iv p ad <> Panic /\
      xchacha_enc seal prefix key iv p ad <> Panic.
Proof.
  intros aes hmac seal hlen HA HH v id key iv p ad prefix.
  assert (Hpl : lenN prefix <= 5).
  { unfold prefix, lenN. rewrite output_prefix_length. destruct v; lia. }
  split; [intros k Ht; apply (etm_enc_no_panic aes hmac hlen HA HH); exact Ht|].
  split; [intros Hiv; apply (siv_enc_no_panic aes HA); exact Hiv|].
  split.
  { unfold aesgcm_enc. rewrite (na_enc_panic_iff seal (fun _ _ _ _ => None)).
    rewrite gcm_tink_max_val, gcm_seal_max_val. lia. }
  split.
  { intros ss Hiv Hss. rewrite (xaes_enc_panic_iff aes seal (fun _ _ _ _ => None) HA) by exact Hiv.
    unfold xaes_tink_max. rewrite gcm_seal_max_val. unfold MaxInt in *. lia. }
  split.
  { unfold chacha_enc. rewrite (na_enc_panic_iff seal (fun _ _ _ _ => None)).
    unfold chacha_tink_max, chacha_tink_seal_max, chacha_seal_max, MaxInt. lia. }
  split.
  { unfold chacha_subtle_enc. rewrite (na_enc_panic_iff seal (fun _ _ _ _ => None)).
    unfold chacha_subtle_tink_max, chacha_tink_seal_max, chacha_seal_max, MaxInt. lia. }
  unfold xchacha_enc. rewrite (na_enc_panic_iff seal (fun _ _ _ _ => None)).
  unfold xchacha_tink_max, chacha_tink_seal_max, chacha_seal_max, MaxInt. lia.
Qed.
Print Assumptions C02_encrypt_panics_exactly_refuted.

(* witnesses: inputs on which the model of aesgcm.Encrypt / xaesgcm.Encrypt panics *)
Theorem C02_aesgcm_xaesgcm_encrypt_panic_witness_refuted :
  forall (aes : bytes -> bytes -> bytes) (seal : aead_seal), (forall k b, length (aes k b) = 16%nat) ->
    exists p, lenN p = 2 ^ 36 - 31 /\
      (forall prefix key iv ad, aesgcm_enc seal prefix key iv p ad = Panic) /\
      (forall key saltiv ad, length saltiv = 24%nat -> xaes_enc aes seal 12 [] key saltiv p ad = Panic).
Proof.
  intros aes seal HA. exists (zeros (N.to_nat (2 ^ 36 - 31))).
  assert (Hl : lenN (zeros (N.to_nat (2 ^ 36 - 31))) = 2 ^ 36 - 31).
  { unfold lenN. rewrite zeros_length. apply Nnat.N2Nat.id. }
  split; [exact Hl|]. split.
  - intros. unfold aesgcm_enc. apply (na_enc_panic_iff seal (fun _ _ _ _ => None)).
    rewrite Hl, gcm_tink_max_val, gcm_seal_max_val. lia.
  - intros key saltiv ad Hs. apply (xaes_enc_panic_iff aes seal (fun _ _ _ _ => None) HA); [exact Hs|].
    rewrite Hl, gcm_seal_max_val. unfold xaes_tink_max, MaxInt, lenN. cbn [length]. lia.
Qed.
Print Assumptions C02_aesgcm_xaesgcm_encrypt_panic_witness_refuted.

(* the envelope Decrypt never panics when its component AEADs do not *)
Theorem C02_envelope_never_panics :
  forall kek_dec dek_dec,
    (forall c ad, kek_dec c ad <> Panic) -> (forall dek c ad, dek_dec dek c ad <> Panic) ->
    forall c ad, env_dec kek_dec dek_dec c ad <> Panic.
Proof. intros kd dd HK HD c ad. apply env_dec_no_panic; assumption. Qed.
Print Assumptions C02_envelope_never_panics.

(* ------------------------------------------------------------------------- *)
(* Keyset level (aead.New: aead_factory.go wrappedAead.Decrypt over prefixmap):
   a plaintext is released only if a primitive of the keyset whose prefix is empty
   or equals the first five bytes of the ciphertext releases it ...               *)
Theorem C02_keyset_releases_only_via_member :
  forall ps c ad p, ks_dec ps c ad = Ok p ->
    exists e, In e ps /\ (pr_prefix e = [] \/ ((5 <= length c)%nat /\ pr_prefix e = firstn 5 c)) /\
              prim_dec e c ad = Ok p.
Proof. exact ks_dec_sound. Qed.
Print Assumptions C02_keyset_releases_only_via_member.

(* ... hence, for full primitives that accept only their own encryptions (the per-key
   theorems above), only for an encryption of (p, ad) under a key of the keyset *)
Theorem C02_keyset_accepts_only_member_encryptions :
  forall ps c ad p,
    (forall e, In e ps -> pr_legacy e = false /\
       (forall c ad p, pr_dec e c ad = Ok p -> exists iv, pr_enc e iv p ad = Ok c)) ->
    ks_dec ps c ad = Ok p -> exists e iv, In e ps /\ pr_enc e iv p ad = Ok c.
Proof. exact ks_dec_only_own. Qed.
Print Assumptions C02_keyset_accepts_only_member_encryptions.

(* it is an error exactly when every selectable primitive fails, a member's success is never
   lost, and the factory (including the legacy adapter's unchecked ciphertext[len(prefix):])
   never panics when the primitives do not *)
Theorem C02_keyset_decrypt_total :
  forall ps, (forall e, In e ps -> forall c ad, pr_dec e c ad <> Panic) ->
    forall c ad,
      ks_dec ps c ad <> Panic /\
      (ks_dec ps c ad = Err <-> forall e, In e ps -> selectable e c -> prim_dec e c ad = Err) /\
      (forall e p, In e ps -> selectable e c -> prim_dec e c ad = Ok p -> exists p', ks_dec ps c ad = Ok p').
Proof.
  intros ps Hn c ad. split; [apply ks_dec_no_panic; exact Hn|]. split; [apply ks_dec_err_iff; exact Hn|].
  intros e p. apply ks_dec_complete. exact Hn.
Qed.
Print Assumptions C02_keyset_decrypt_total.

(* ------------------------------------------------------------------------- *)
(* Non-vacuity: the laws are satisfiable and a concrete reject/accept pair computes *)
Example C02_nonvacuous :
  std_aead toy_seal (toy_open gcm_seal_max) gcm_seal_max /\
  (let c := match aesgcm_enc toy_seal (output_prefix VTink 258) [7] (zeros 12) [1; 2; 3] [9] with Ok c => c | _ => [] end in
   aesgcm_dec (toy_open gcm_seal_max) (output_prefix VTink 258) [7] c [9] = Ok [1; 2; 3] /\
   aesgcm_dec (toy_open gcm_seal_max) (output_prefix VTink 258) [7] (firstn 32 c) [9] = Err /\
   aesgcm_dec (toy_open gcm_seal_max) (output_prefix VCrunchy 258) [7] c [9] = Err).
Proof. split; [exact (toy_laws gcm_seal_max)|]. vm_compute. repeat split. Qed.

(* ========================================================================= *)
(* Stretch round (audit item 3 and the C02 rows): "a valid ciphertext with any bit
   flipped, any truncation or extension, another key's or variant's prefix, or
   presented with different associated data yields an error" — as reductions to the
   authenticity of the primitive (which is cryptography, not a theorem), with
   everything else proved.                                                      *)

(* the mutation classes of the property are pairs different from the original one *)
Theorem C02_mutation_classes_differ :
  forall c ad c' ad', mutant c ad c' ad' -> (c', ad') <> (c, ad).
Proof. exact mutant_differs. Qed.
Print Assumptions C02_mutation_classes_differ.

Theorem C02_bit_flip_is_a_mutation :
  forall c i j, (i < length c)%nat ->
    flip_bit i j c <> c /\ length (flip_bit i j c) = length c /\
    nth i (flip_bit i j c) 0 = N.lxor (nth i c 0) (2 ^ j).
Proof.
  intros c i j H. split; [apply flip_bit_differs; exact H|].
  split; [apply set_nth_length; exact H|apply nth_set_nth; exact H].
Qed.
Print Assumptions C02_bit_flip_is_a_mutation.

(* ------------------------------------------------------------------------- *)
(* AES-CTR-HMAC: proved from the model, only the output lengths of AES and HMAC
   assumed.  tmac k x = HMAC(hmac key, x) truncated to the tag size;
   hmac_forgery k x x' tag' := x' <> x /\ tmac k x' = tag'.
   If Encrypt(p, ad) = c (under any IV) and Decrypt accepts (c', ad') <> (c, ad) (AD below
   2^61 bytes, where the 64-bit bit-length cannot wrap), then the tag of c' is a valid
   truncated HMAC of a MAC input x' DIFFERENT from the only input x that Encrypt
   authenticated: an existential forgery (with x' and the tag equation explicit).
   The tag size is at least 10 bytes, as every constructor enforces (internal/mac/hmac.New and
   aead/subtle.NewEncryptThenAuthenticate: minTagSizeInBytes = 10; aesctrhmac key_parameters.go:
   minTagSize = 10; model: EtM.etm_valid; the constant is regenerated from the source as
   gen_etm_min_tag, ConstsTieC14) — at tag size 0 the "forgery" would be the free [] = [];
   with the premise the forged tag has at least 80 bits.  *)
Theorem C02_aesctrhmac_accepted_mutant_is_hmac_forgery :
  forall (aes hmac : bytes -> bytes -> bytes) (hlen : nat),
    (forall k b, length (aes k b) = 16%nat) -> (forall k m, length (hmac k m) = hlen) ->
    forall prefix k iv p ad c c' ad' p',
      (10 <= ek_tag k <= hlen)%nat -> lenN ad < 2 ^ 61 -> lenN ad' < 2 ^ 61 ->
      etm_enc aes hmac prefix k iv p ad = Ok c -> (c', ad') <> (c, ad) ->
      let x := mac_input ad (iv ++ aes_ctr (aes (ek_aes k)) iv p) in
      (etm_dec aes hmac prefix k c' ad' = Ok p' ->
         hmac_forgery hmac k x (mac_input ad' (payload_of (length prefix) k c')) (tag_of k c') /\
         tmac hmac k x = tag_of k c /\ (10 <= length (tag_of k c'))%nat) /\
      (prefix = [] -> etm_subtle_dec aes hmac k c' ad' = Ok p' ->
         hmac_forgery hmac k x (mac_input ad' (payload_of 0 k c')) (tag_of k c') /\
         tmac hmac k x = tag_of k c /\ (10 <= length (tag_of k c'))%nat).
Proof.
  intros aes hmac hlen HA HH prefix k iv p ad c c' ad' p' [Ht10 Ht] Ha Ha' He Hne x.
  assert (Hlen : forall pre, etm_dec aes hmac pre k c' ad' = Ok p' -> (10 <= length (tag_of k c'))%nat).
  { intros pre Hd. rewrite (etm_dec_is_canon aes hmac hlen HA HH) in Hd by exact Ht.
    rewrite (etm_accepted_tag_length aes hmac hlen HA HH pre k c' ad' p' Hd). exact Ht10. }
  split.
  - intros Hd. destruct (etm_dec_accepted_mutant_is_forgery aes hmac hlen HA HH prefix k iv p ad c c' ad' p' Ht Ha Ha' He Hd Hne) as [F T].
    split; [exact F|]. split; [exact T|exact (Hlen _ Hd)].
  - intros -> Hd. rewrite (etm_subtle_dec_eq aes hmac hlen HA HH) in Hd by exact Ht.
    destruct (etm_dec_accepted_mutant_is_forgery aes hmac hlen HA HH [] k iv p ad c c' ad' p' Ht Ha Ha' He Hd Hne) as [F T].
    split; [exact F|]. split; [exact T|exact (Hlen _ Hd)].
Qed.
Print Assumptions C02_aesctrhmac_accepted_mutant_is_hmac_forgery.

(* hence, with x' := the ONE MAC input the modified pair parses to (ad' || c'[|prefix| : -tag size]
   || be64(8|ad'|)): if x' is the authenticated input x, only tag bytes can have changed and the
   pair is an error outright; otherwise x' is fresh, and the pair is an error unless the presented
   tag IS the truncated HMAC of x'.  The hypothesis of the middle clause is PER-INSTANCE (about this
   mutant's MAC input only): real HMAC satisfies it except with the forgery probability; no
   hypothesis quantifies over all messages (that would be false of any real MAC by counting) *)
Theorem C02_aesctrhmac_mutant_rejected_unless_forged :
  forall (aes hmac : bytes -> bytes -> bytes) (hlen : nat),
    (forall k b, length (aes k b) = 16%nat) -> (forall k m, length (hmac k m) = hlen) ->
    forall prefix k iv p ad c c' ad',
      (10 <= ek_tag k <= hlen)%nat -> lenN ad < 2 ^ 61 -> lenN ad' < 2 ^ 61 ->
      etm_enc aes hmac prefix k iv p ad = Ok c -> (c', ad') <> (c, ad) ->
      let x := mac_input ad (iv ++ aes_ctr (aes (ek_aes k)) iv p) in
      let x' := mac_input ad' (payload_of (length prefix) k c') in
      (x' = x -> etm_dec aes hmac prefix k c' ad' = Err) /\
      (tag_of k c' <> tmac hmac k x' -> etm_dec aes hmac prefix k c' ad' = Err) /\
      (forall p', etm_dec aes hmac prefix k c' ad' = Ok p' ->
         x' <> x /\ tag_of k c' = tmac hmac k x' /\ (10 <= length (tag_of k c'))%nat).
Proof.
  intros aes hmac hlen HA HH prefix k iv p ad c c' ad' [Ht10 Ht] Ha Ha' He Hne x x'.
  destruct (etm_mutant_rejected_unless_forged aes hmac hlen HA HH prefix k iv p ad c c' ad' Ht Ha Ha' He Hne) as [H1 [H2 H3]].
  split; [exact H1|]. split; [exact H2|]. intros p' Hd. destruct (H3 p' Hd) as [Hx Hv].
  split; [exact Hx|]. split; [exact Hv|].
  rewrite (etm_dec_is_canon aes hmac hlen HA HH) in Hd by exact Ht.
  rewrite (etm_accepted_tag_length aes hmac hlen HA HH prefix k c' ad' p' Hd). exact Ht10.
Qed.
Print Assumptions C02_aesctrhmac_mutant_rejected_unless_forged.

(* with NO assumption on HMAC: whatever is confined to the tag (any flip in the last
   tag-size bytes) is an error — the whole tag is compared; and a modification that keeps the
   tag bytes (flips in IV or body, other AD, ...) is an error when the truncated HMACs of THIS
   mutant's MAC input and of the authenticated input differ (per-instance: one pair of inputs;
   real HMAC satisfies it except with the collision probability) *)
Theorem C02_aesctrhmac_tag_mutations_rejected :
  forall (aes hmac : bytes -> bytes -> bytes) (hlen : nat),
    (forall k b, length (aes k b) = 16%nat) -> (forall k m, length (hmac k m) = hlen) ->
    forall prefix k iv p ad c, (10 <= ek_tag k <= hlen)%nat ->
      etm_enc aes hmac prefix k iv p ad = Ok c ->
      (forall c', length c' = length c ->
         firstn (length c - ek_tag k) c' = firstn (length c - ek_tag k) c -> c' <> c ->
         etm_dec aes hmac prefix k c' ad = Err) /\
      (forall c' ad', lenN ad < 2 ^ 61 -> lenN ad' < 2 ^ 61 ->
         (c', ad') <> (c, ad) -> tag_of k c' = tag_of k c ->
         let x := mac_input ad (iv ++ aes_ctr (aes (ek_aes k)) iv p) in
         let x' := mac_input ad' (payload_of (length prefix) k c') in
         (x' <> x -> tmac hmac k x' <> tmac hmac k x) ->
         etm_dec aes hmac prefix k c' ad' = Err).
Proof.
  intros aes hmac hlen HA HH prefix k iv p ad c [_ Ht] He. split.
  - intros c' H1 H2 H3. exact (etm_tag_only_mutation_rejected aes hmac hlen HA HH prefix k iv p ad c c' Ht He H1 H2 H3).
  - intros c' ad' Ha Ha' Hne Htag x x' Hinst.
    exact (etm_tag_kept_mutation_rejected aes hmac hlen HA HH prefix k iv p ad c c' ad' Ht Ha Ha' He Hne Htag Hinst).
Qed.
Print Assumptions C02_aesctrhmac_tag_mutations_rejected.

(* the 2^61 bound is necessary: at 2^61 bytes of AD the 64-bit bit length wraps to 0 and two
   different (ad, payload) pairs give the same MAC input (no Go slice is that long) *)
Theorem C02_etm_mac_input_ambiguous_at_2_61_refuted :
  exists ad1 x1 ad2 x2, lenN ad1 = 2 ^ 61 /\ (ad1, x1) <> (ad2, x2) /\ mac_input ad1 x1 = mac_input ad2 x2.
Proof. exact mac_input_not_injective_at_2_61. Qed.
Print Assumptions C02_etm_mac_input_ambiguous_at_2_61_refuted.

(* ------------------------------------------------------------------------- *)
(* AES-GCM, ChaCha20-Poly1305, XChaCha20-Poly1305 (framing around cipher.AEAD).
   The five Decrypt bodies are one function, na_dec_canon of model/AeadFrame.v ... *)
Theorem C02_nonce_decrypt_bodies_are_one_function :
  forall (open_ : aead_open) prefix key c ad,
    aesgcm_dec open_ prefix key c ad = na_dec_canon open_ 12 16 None None prefix key c ad /\
    chacha_dec open_ prefix key c ad =
      na_dec_canon open_ 12 16 (Some chacha_open_max) (Some chacha_tink_ct_max) prefix key c ad /\
    chacha_subtle_dec open_ key c ad =
      na_dec_canon open_ 12 16 (Some chacha_open_max) (Some chacha_tink_ct_max) [] key c ad /\
    (lenN c <= MaxInt -> xchacha_dec open_ prefix key c ad =
      na_dec_canon open_ 24 16 (Some chacha_open_max) (Some chacha_tink_ct_max) prefix key c ad) /\
    xchacha_subtle_dec open_ key c ad =
      na_dec_canon open_ 24 16 (Some chacha_open_max) (Some chacha_tink_ct_max) [] key c ad.
Proof. exact nonce_dec_bodies_canon. Qed.
Print Assumptions C02_nonce_decrypt_bodies_are_one_function.

(* ... which, for ARBITRARY Seal/Open (no law), is a framing rejection (too short / prefix
   mismatch) or exactly ONE call of Open on the (nonce', ad', body') parsed from c'; and for
   (c', ad') different from Encrypt's (c, ad) that triple differs from the one Encrypt sealed.
   nonce_of ivlen pl c = c[pl : pl+ivlen], body_of ivlen pl c = c[pl+ivlen :],
   open_t = Open behind Tink's size check (an error, never a panic, above 2^38-48). *)
Theorem C02_nonce_aead_mutant_dichotomy :
  forall (seal : aead_seal) (open_ : aead_open) ivlen taglen seal_max open_max ct_max tink_max,
    forall prefix key iv p ad c c' ad',
      length iv = ivlen -> na_enc seal seal_max tink_max prefix key iv p ad = Ok c -> (c', ad') <> (c, ad) ->
      let n' := nonce_of ivlen (length prefix) c' in
      let b' := body_of ivlen (length prefix) c' in
      (((length c' < length prefix + ivlen + taglen)%nat \/ firstn (length prefix) c' <> prefix) /\
       na_dec_canon open_ ivlen taglen open_max ct_max prefix key c' ad' = Err) \/
      (na_dec_canon open_ ivlen taglen open_max ct_max prefix key c' ad' = open_t open_ taglen open_max ct_max key n' ad' b' /\
       (n', ad', b') <> (iv, ad, seal key iv ad p)).
Proof.
  intros seal open_ ivlen taglen seal_max open_max ct_max tink_max prefix key iv p ad c c' ad' Hiv He Hne.
  exact (na_mutant_dichotomy seal open_ ivlen taglen seal_max open_max ct_max tink_max prefix key iv p ad c c' ad' Hiv He Hne).
Qed.
Print Assumptions C02_nonce_aead_mutant_dichotomy.

(* so an accepted mutant is a forgery against the primitive: Open returned a plaintext for a
   (nonce, ad, ciphertext) triple other than the one that was sealed; and a mutant whose
   parsed triple the primitive rejects is an error (never a plaintext, never a panic) *)
Theorem C02_nonce_aead_accepted_mutant_is_forgery :
  forall (seal : aead_seal) (open_ : aead_open) ivlen taglen seal_max open_max ct_max tink_max,
    forall prefix key iv p ad c c' ad',
      length iv = ivlen -> na_enc seal seal_max tink_max prefix key iv p ad = Ok c -> (c', ad') <> (c, ad) ->
      let n' := nonce_of ivlen (length prefix) c' in
      let b' := body_of ivlen (length prefix) c' in
      (forall p', na_dec_canon open_ ivlen taglen open_max ct_max prefix key c' ad' = Ok p' ->
         c' = prefix ++ n' ++ b' /\ (n', ad', b') <> (iv, ad, seal key iv ad p) /\ open_ key n' ad' b' = Some p') /\
      ((forall m, open_max = Some m -> exists m', ct_max = Some m' /\ m' <= m) ->
       open_ key n' ad' b' = None ->
       na_dec_canon open_ ivlen taglen open_max ct_max prefix key c' ad' = Err).
Proof.
  intros seal open_ ivlen taglen seal_max open_max ct_max tink_max prefix key iv p ad c c' ad' Hiv He Hne n' b'. split.
  - intros p' Hd.
    destruct (na_accepted_mutant_is_forgery seal open_ ivlen taglen seal_max open_max ct_max tink_max prefix key iv p ad c c' ad' p' Hiv He Hne Hd)
      as [Hs [Ht Ho]]. auto.
  - intros Hnp Ho. apply (na_mutant_rejected_if_open_rejects open_ ivlen taglen open_max ct_max Hnp). right. exact Ho.
Qed.
Print Assumptions C02_nonce_aead_accepted_mutant_is_forgery.

(* under the uniqueness law of the standard AEAD (open_only_seal_law: Open accepts only
   Seal's outputs.  THIS LAW CARRIES THE PRIMITIVE'S AUTHENTICITY MECHANISM — the whole-tag
   recompute-and-compare inside the standard library's Open, which is not modelled; that
   Seal outputs cannot be produced without the key is cryptography) an accepted mutant is
   itself Encrypt's output for a different (iv, plaintext, ad); with the body-injectivity
   law of a stream-cipher AEAD (the first |p| bytes of Seal determine p: GCM, ChaCha20-
   Poly1305), every modification confined to the 16-byte tag releases no plaintext *)
Theorem C02_nonce_aead_mutants_under_the_laws :
  forall (seal : aead_seal) (open_ : aead_open) ivlen seal_max open_max ct_max tink_max,
    seal_len_law seal 16 -> open_only_seal_law seal open_ seal_max ->
    forall prefix key iv p ad c,
      length iv = ivlen -> na_enc seal seal_max tink_max prefix key iv p ad = Ok c ->
      (forall c' ad' p', (c', ad') <> (c, ad) ->
         na_dec_canon open_ ivlen 16 open_max ct_max prefix key c' ad' = Ok p' ->
         exists iv', length iv' = ivlen /\ (iv', p', ad') <> (iv, p, ad) /\
                     c' = prefix ++ iv' ++ seal key iv' ad' p' /\ lenN p' <= seal_max) /\
      (seal_body_inj seal ->
       forall c', length c' = length c -> firstn (length c - 16) c' = firstn (length c - 16) c -> c' <> c ->
         forall p', na_dec_canon open_ ivlen 16 open_max ct_max prefix key c' ad <> Ok p').
Proof.
  intros seal open_ ivlen seal_max open_max ct_max tink_max HL HU prefix key iv p ad c Hiv He. split.
  - intros c' ad' p' Hne Hd.
    exact (na_accepted_mutant_is_other_encryption seal open_ ivlen 16 seal_max open_max ct_max tink_max prefix key iv p ad c c' ad' p' HU Hiv He Hne Hd).
  - intros HB c' H1 H2 H3 p'.
    exact (na_tag_only_mutation_rejected seal open_ ivlen 16 seal_max open_max ct_max tink_max prefix key iv p ad c c' HL HU HB Hiv He H1 H2 H3 p').
Qed.
Print Assumptions C02_nonce_aead_mutants_under_the_laws.

(* the mutation classes of the property one by one, for any framed ciphertext
   c = prefix || iv || ct (Encrypt's output: ct = Seal(key, iv, ad, p)), |ct| >= tag size:
   where the modification lands.  set_nth i b c = c with byte i replaced by b. *)
Theorem C02_nonce_aead_mutation_table :
  forall (open_ : aead_open) ivlen taglen open_max ct_max prefix key iv ct ad,
    length iv = ivlen -> (taglen <= length ct)%nat ->
    let c := prefix ++ iv ++ ct in
    let pl := length prefix in
    let D := na_dec_canon open_ ivlen taglen open_max ct_max prefix key in
    let O := open_t open_ taglen open_max ct_max key in
    (* one byte overwritten / one bit flipped: in the prefix, in the IV, in body or tag *)
    (forall i b, (i < length c)%nat -> nth i c 0 <> b ->
       ((i < pl)%nat -> D (set_nth i b c) ad = Err) /\
       ((pl <= i < pl + ivlen)%nat -> D (set_nth i b c) ad = O (set_nth (i - pl) b iv) ad ct /\ set_nth (i - pl) b iv <> iv) /\
       ((pl + ivlen <= i)%nat -> D (set_nth i b c) ad = O iv ad (set_nth (i - pl - ivlen) b ct) /\
                                 set_nth (i - pl - ivlen) b ct <> ct)) /\
    (* truncation at every cut point *)
    (forall n, (n < length c)%nat ->
       ((n < pl + ivlen + taglen)%nat -> D (firstn n c) ad = Err) /\
       ((pl + ivlen + taglen <= n)%nat -> D (firstn n c) ad = O iv ad (firstn (n - pl - ivlen) ct) /\
                                          (length (firstn (n - pl - ivlen) ct) < length ct)%nat)) /\
    (* extension *)
    (forall s, s <> [] -> D (c ++ s) ad = O iv ad (ct ++ s) /\ ct ++ s <> ct) /\
    (* other associated data *)
    (forall ad', D c ad' = O iv ad' ct) /\
    (* another key's / variant's prefix of the same length; the prefix stripped *)
    (forall prefix', length prefix' = length prefix -> prefix' <> prefix -> D (prefix' ++ iv ++ ct) ad = Err) /\
    (firstn pl (iv ++ ct) <> prefix -> D (iv ++ ct) ad = Err).
Proof.
  intros open_ ivlen taglen open_max ct_max prefix key iv ct ad Hiv Hct c pl D O.
  split; [intros i b Hi Hb; exact (table_byte open_ ivlen taglen open_max ct_max prefix key iv ct ad Hiv Hct i b Hi Hb)|].
  split; [intros n Hn; exact (table_cut open_ ivlen taglen open_max ct_max prefix key iv ct ad Hiv Hct n Hn)|].
  split; [intros s Hs; exact (table_ext open_ ivlen taglen open_max ct_max prefix key iv ct ad Hiv Hct s Hs)|].
  split; [intros ad'; exact (table_ad open_ ivlen taglen open_max ct_max prefix key iv ct Hiv Hct ad')|].
  split; [intros prefix' H1 H2; exact (table_prefix open_ ivlen taglen open_max ct_max prefix key iv ct ad prefix' H1 H2)|].
  intros H. apply na_wrong_prefix. exact H.
Qed.
Print Assumptions C02_nonce_aead_mutation_table.

(* ------------------------------------------------------------------------- *)
(* XAES-256-GCM: framing rejection, or ONE AES-GCM Open under the key derived (two AES-CMACs)
   from the salt bytes parsed from c'; the parsed (salt', iv', ad', body') differs from what
   Encrypt used and sealed.  No law about GCM. *)
Theorem C02_xaesgcm_mutant_dichotomy :
  forall (aes : bytes -> bytes -> bytes) (seal : aead_seal) (open_ : aead_open),
    (forall k b, length (aes k b) = 16%nat) ->
    forall ss prefix key salt iv p ad c c' ad',
      length salt = ss -> length iv = 12%nat ->
      xaes_enc aes seal ss prefix key (salt ++ iv) p ad = Ok c -> (c', ad') <> (c, ad) ->
      let pl := length prefix in
      let salt' := firstn ss (skipn pl c') in
      let iv' := firstn 12 (skipn (pl + ss) c') in
      let b' := skipn (pl + ss + 12) c' in
      (((length c' < pl + ss + 12 + 16)%nat \/ firstn pl c' <> prefix) /\
       xaes_dec aes open_ ss prefix key c' ad' = Err) \/
      (xaes_dec aes open_ ss prefix key c' ad' = open_o open_ 16 None (pmk aes key salt') iv' ad' b' /\
       (salt', iv', ad', b') <> (salt, iv, ad, seal (pmk aes key salt) iv ad p) /\
       (forall p', xaes_dec aes open_ ss prefix key c' ad' = Ok p' -> open_ (pmk aes key salt') iv' ad' b' = Some p')).
Proof.
  intros aes seal open_ HA ss prefix key salt iv p ad c c' ad' Hs Hiv He Hne pl salt' iv' b'.
  destruct (xaes_mutant_dichotomy aes seal open_ HA ss prefix key salt iv p ad c c' ad' Hs Hiv He Hne) as [H|[H1 H2]];
    [left; exact H|right]. split; [exact H1|]. split; [exact H2|].
  intros p' Hd. exact (proj2 (xaes_accepted_mutant_is_forgery aes seal open_ HA ss prefix key salt iv p ad c c' ad' p' Hs Hiv He Hne Hd)).
Qed.
Print Assumptions C02_xaesgcm_mutant_dichotomy.

(* ... and XAES-256-GCM Decrypt IS the canonical AES-GCM Decrypt of the same bytes with the salt
   bytes of c' appended to the output prefix and the key derived from them: the mutation table
   above applies verbatim (prefix := prefix || salt) to every modification outside the salt *)
Theorem C02_xaesgcm_decrypt_is_aesgcm_decrypt_under_the_derived_key :
  forall (aes : bytes -> bytes -> bytes) (open_ : aead_open),
    (forall k b, length (aes k b) = 16%nat) ->
    forall ss prefix key c' ad',
      let salt' := firstn ss (skipn (length prefix) c') in
      (length prefix + ss <= length c')%nat -> firstn (length prefix) c' = prefix ->
      xaes_dec aes open_ ss prefix key c' ad' =
      na_dec_canon open_ 12 16 None None (prefix ++ salt') (pmk aes key salt') c' ad'.
Proof.
  intros aes open_ HA ss prefix key c' ad' salt' Hl Hp.
  exact (xaes_dec_as_gcm aes (fun _ _ _ _ => []) open_ HA ss prefix key c' ad' Hl Hp).
Qed.
Print Assumptions C02_xaesgcm_decrypt_is_aesgcm_decrypt_under_the_derived_key.

(* AES-GCM-SIV (the whole scheme is in the model; only |AES(k,b)| = 16 assumed): Decrypt is a
   framing/size rejection or the comparison of the presented tag with the recomputed one; an
   accepted (c', ad') <> (c, ad) exhibits a (nonce', plaintext', ad') different from
   (nonce, p, ad) with its valid synthetic-IV tag — a forgery against the RFC 8452 tag
   function tagf = AES(encKey, (POLYVAL(authKey, ...) xor nonce) & 0x7f..); and a c' whose
   presented tag differs from the recomputed tag of the fields it parses to is an error *)
Theorem C02_aesgcmsiv_mutants :
  forall (aes : bytes -> bytes -> bytes), (forall k b, length (aes k b) = 16%nat) ->
    forall prefix key nonce p ad c c' ad',
      length nonce = 12%nat -> siv_enc aes prefix key nonce p ad = Ok c -> (c', ad') <> (c, ad) ->
      (forall p', siv_dec aes prefix key c' ad' = Ok p' ->
         exists nonce', length nonce' = 12%nat /\ (nonce', p', ad') <> (nonce, p, ad) /\
           c' = prefix ++ nonce' ++ sctr aes (dk_enc aes key nonce') (tagf aes key nonce' p' ad') p'
                       ++ tagf aes key nonce' p' ad') /\
      (* per-instance: for THE fields c' parses to, the presented tag is not the tag of the
         plaintext it would release *)
      (forall nonce' ct' tag', c' = prefix ++ nonce' ++ ct' ++ tag' -> length nonce' = 12%nat -> length tag' = 16%nat ->
         tagf aes key nonce' (sctr aes (dk_enc aes key nonce') tag' ct') ad' <> tag' ->
         siv_dec aes prefix key c' ad' = Err).
Proof.
  intros aes HA prefix key nonce p ad c c' ad' Hn He Hne. split.
  - intros p' Hd. exact (siv_accepted_mutant_is_tag_forgery aes HA prefix key nonce p ad c c' ad' p' Hn He Hne Hd).
  - intros nonce' ct' tag' Hc Hn' Ht' Hneq. exact (siv_wrong_tag_rejected aes HA prefix key nonce' ct' tag' c' ad' Hc Hn' Ht' Hneq).
Qed.
Print Assumptions C02_aesgcmsiv_mutants.

Theorem C02_aesgcmsiv_decrypt_is_framing_then_tag_check :
  forall (aes : bytes -> bytes -> bytes), (forall k b, length (aes k b) = 16%nat) ->
    forall prefix key c' ad',
      ((has_prefix c' prefix = false \/ (length c' < length prefix + 12 + 16)%nat \/
        MaxInt32 < lenN c' - lenN prefix \/ MaxInt32 < lenN ad') /\ siv_dec aes prefix key c' ad' = Err) \/
      (exists nonce' ct' tag', c' = prefix ++ nonce' ++ ct' ++ tag' /\ length nonce' = 12%nat /\ length tag' = 16%nat /\
         let pt' := sctr aes (dk_enc aes key nonce') tag' ct' in
         siv_dec aes prefix key c' ad' = if beq (tagf aes key nonce' pt' ad') tag' then Ok pt' else Err).
Proof. intros aes HA prefix key c' ad'. exact (siv_dec_framing aes HA prefix key c' ad'). Qed.
Print Assumptions C02_aesgcmsiv_decrypt_is_framing_then_tag_check.

(* ------------------------------------------------------------------------- *)
(* KMS envelope, closed over the data-key AEADs (model/EnvelopeDek.v): dek_rt and dek_only
   are PROVED (from the exact-acceptance theorems of AES-GCM, ChaCha20-Poly1305,
   XChaCha20-Poly1305 under the laws of the standard AEAD, and of AES-GCM-SIV from the
   model); only the key-encryption AEAD stays abstract with its two laws explicit *)
Theorem C02_envelope_accepts_exactly_closed :
  forall (aes : bytes -> bytes -> bytes) gcm_seal gcm_open cc_seal cc_open xcc_seal xcc_open,
    (forall k b, length (aes k b) = 16%nat) ->
    std_aead gcm_seal gcm_open gcm_seal_max -> std_aead cc_seal cc_open chacha_seal_max ->
    std_aead xcc_seal xcc_open chacha_seal_max ->
    forall kek_enc kek_dec kivlen, kek_rt kek_enc kek_dec kivlen -> kek_only kek_enc kek_dec kivlen ->
    forall kd c ad p, wfb c ->
      (env_dec kek_dec (dek_dec aes gcm_open cc_open xcc_open kd) c ad = Ok p <->
       exists dek kekiv dekiv, length kekiv = kivlen /\ length dekiv = dek_ivlen kd /\
         env_enc kek_enc (dek_enc aes gcm_seal cc_seal xcc_seal kd) dek kekiv dekiv p ad = Ok c).
Proof.
  intros aes gs go cs co xs xo HA HG HC HX ke kd kl HK HKO kind c ad p Hw.
  exact (env_accept_iff_closed aes gs go cs co xs xo HA HG HC HX ke kd kl kind c ad p HK HKO Hw).
Qed.
Print Assumptions C02_envelope_accepts_exactly_closed.

(* Decrypt of the envelope never panics when the key-encryption AEAD's Decrypt does not
   (the data-key side is proved panic-free, whatever the primitives answer) *)
Theorem C02_envelope_never_panics_closed :
  forall (aes : bytes -> bytes -> bytes) (gcm_open cc_open xcc_open : aead_open),
    (forall k b, length (aes k b) = 16%nat) ->
    forall kek_dec, (forall c ad, kek_dec c ad <> Panic) ->
    forall kd c ad, env_dec kek_dec (dek_dec aes gcm_open cc_open xcc_open kd) c ad <> Panic.
Proof.
  intros aes go co xo HA kd HK kind c ad. apply env_dec_no_panic; [exact HK|].
  intros dek c0 ad0. unfold dek_dec. destruct (dek_parse kind dek) as [k|]; [|discriminate].
  assert (Hn : forall m, Some chacha_open_max = Some m ->
             lenN c0 <= m \/ exists m', Some chacha_tink_ct_max = Some m' /\ m' <= m).
  { intros m E; inversion E. right. exists chacha_tink_ct_max. split; [reflexivity|]. vm_compute. discriminate. }
  destruct kind; cbn [dek_prim_dec].
  - unfold aesgcm_dec. rewrite dec_lenfirst_canon. apply na_dec_no_panic. intros m; discriminate.
  - unfold chacha_dec. rewrite dec_prefixfirst_canon. apply na_dec_no_panic. exact Hn.
  - destruct (N.le_gt_cases (lenN c0) MaxInt) as [Hm|Hm].
    + exact (proj1 (proj2 (C02_chacha_decrypt_never_panics xo [] k c0 ad0 Hm))).
    + unfold xchacha_dec, na_dec_lenprefix. destruct (Nat.ltb _ _); [discriminate|].
      destruct (N.ltb_spec MaxInt (lenN c0)); [discriminate|lia].
  - apply (siv_dec_no_panic aes HA).
Qed.
Print Assumptions C02_envelope_never_panics_closed.

(* KMS envelope over an AES-CTR-HMAC data key (model/EnvelopeDekEtm.v), closed over the AES-CTR-HMAC model
   and the protobuf wire model: Decrypt returns p exactly for the envelopes Encrypt can build around SOME byte
   string that unmarshals to a valid key (any protobuf encoding, any template's sizes: the envelope AEAD
   consults only the template's type URL) with an IV of that key's size, and never panics.
   (lenN c <= MaxInt holds of every Go slice.) *)
Theorem C02_envelope_ctrhmac_dek_accepts_exactly :
  forall (aes : bytes -> bytes -> bytes) (hmacs : N -> bytes -> bytes -> bytes),
    (forall k b, length (aes k b) = 16%nat) ->
    (forall h hl, hash_len h = Some hl -> forall k m, length (hmacs h k m) = hl) ->
    forall kek_enc kek_dec kivlen, kek_rt kek_enc kek_dec kivlen -> kek_only kek_enc kek_dec kivlen ->
    forall c ad p, wfb c -> lenN c <= MaxInt ->
      (env_dec kek_dec (etm_dek_dec aes hmacs) c ad = Ok p <->
       exists dek h k kekiv dekiv, etm_dek_parse dek = Some (h, k) /\
         length kekiv = kivlen /\ length dekiv = ek_iv k /\
         env_enc kek_enc (etm_dek_enc aes hmacs) dek kekiv dekiv p ad = Ok c).
Proof.
  intros aes hmacs HA HH ke kd kl HK HKO c ad p Hw Hc.
  exact (env_accept_iff_etm aes hmacs HA HH ke kd kl c ad p HK HKO Hw Hc).
Qed.
Print Assumptions C02_envelope_ctrhmac_dek_accepts_exactly.

Theorem C02_envelope_ctrhmac_dek_never_panics :
  forall (aes : bytes -> bytes -> bytes) (hmacs : N -> bytes -> bytes -> bytes),
    (forall k b, length (aes k b) = 16%nat) ->
    (forall h hl, hash_len h = Some hl -> forall k m, length (hmacs h k m) = hl) ->
    forall kek_dec, (forall c ad, kek_dec c ad <> Panic) ->
    forall c ad, env_dec kek_dec (etm_dek_dec aes hmacs) c ad <> Panic.
Proof.
  intros aes hmacs HA HH kd HK c ad.
  exact (env_dec_no_panic_etm aes hmacs HA HH kd c ad HK).
Qed.
Print Assumptions C02_envelope_ctrhmac_dek_never_panics.

(* Non-vacuity of the stretch theorems.  (1) The forgery event of the reductions is real, not
   an artefact: with a constant MAC / the toy AEAD (which have no authenticity) a body bit flip
   IS accepted and is a forgery in the stated sense.  (2) ONE instance (a toy MAC that copies the
   end of its input) inhabits the round trip and the per-instance premises of the rejection
   theorems together; a tag flip under the toy AEAD (which satisfies the uniqueness and
   body-injectivity laws) is rejected. *)
Example C02_stretch_nonvacuous :
  (let c := match etm_enc toy_aes toy_hmac_const [] toy_key (zeros 12) [1; 2; 3] [9] with Ok c => c | _ => [] end in
   let c' := flip_bit 13 0 c in
   etm_dec toy_aes toy_hmac_const [] toy_key c' [9] = Ok [1; 3; 3] /\
   hmac_forgery toy_hmac_const toy_key (mac_input [9] (zeros 12 ++ [1; 2; 3]))
                (mac_input [9] (payload_of 0 toy_key c')) (tag_of toy_key c')) /\
  (* ONE instance (toy MAC copying the end of its input) inhabits round trip and rejection together *)
  (exists c, etm_enc toy_aes toy_hmac_copy [] toy_key (zeros 12) [1; 2; 3] [9] = Ok c /\
     etm_dec toy_aes toy_hmac_copy [] toy_key c [9] = Ok [1; 2; 3] /\
     let c' := flip_bit 13 0 c in
     let x := mac_input [9] (zeros 12 ++ aes_ctr (toy_aes (ek_aes toy_key)) (zeros 12) [1; 2; 3]) in
     let x' := mac_input [9] (payload_of 0 toy_key c') in
     (c', [9]) <> (c, [9]) /\ x' <> x /\ tag_of toy_key c' <> tmac toy_hmac_copy toy_key x' /\
     tag_of toy_key c' = tag_of toy_key c /\ tmac toy_hmac_copy toy_key x' <> tmac toy_hmac_copy toy_key x /\
     etm_dec toy_aes toy_hmac_copy [] toy_key c' [9] = Err) /\
  seal_body_inj toy_seal /\
  (let c := match aesgcm_enc toy_seal (output_prefix VTink 258) [7] (zeros 12) [1; 2; 3] [9] with Ok c => c | _ => [] end in
   na_dec_canon (toy_open gcm_seal_max) 12 16 None None (output_prefix VTink 258) [7] (flip_bit 18 0 c) [9] = Ok [1; 3; 3] /\
   na_dec_canon (toy_open gcm_seal_max) 12 16 None None (output_prefix VTink 258) [7] (flip_bit 25 3 c) [9] = Err).
Proof.
  split; [exact etm_forgery_event_is_real|]. split; [exact etm_one_instance_round_trip_and_rejection|].
  split; [exact toy_body_inj|]. split.
  - exact (proj1 na_forgery_event_is_real).
  - destruct na_tag_only_premises_inhabited as [_ [_ [_ [_ H]]]]. exact H.
Qed.
