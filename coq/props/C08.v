(* C08 — placeholder first theorem; replaced by the full list below as proofs land *)
From Coq Require Import List NArith Bool Lia.
From Tink Require Import Bytes Kwp.
Theorem C08_wrapping_size_first : wrappingSize 16 = 24%nat.
Proof. reflexivity. Qed.
Print Assumptions C08_wrapping_size_first.
